(* C07: along a swept side H_net_np falls (in steps that are zero or larger than tol) towards the pinch; hence the
   pocket-free column is a "valley" and its load profiles end at Qh / Qc. *)
From OP Require Import gen.Consts model.Base model.Pockets proofs.BaseFacts proofs.PocketsPL proofs.PocketsZ
  proofs.PocketsFuel proofs.PocketsSim proofs.PocketsPinch proofs.PocketsTop proofs.PocketsSpec proofs.PocketsProfiles.
From Coq Require Import Lia Lqa.
Local Open Scope Q_scope.

Lemma chainQ_app (R : Q -> Q -> Prop) l1 m l2 : chainQ R (l1 ++ [m]) -> chainQ R (m :: l2) -> chainQ R (l1 ++ m :: l2).
Proof.
  induction l1 as [|a l1 IH]; intros H1 H2; [exact H2|].
  destruct l1 as [|b l1].
  - simpl in *. destruct H1 as [G _]. split; [exact G|exact H2].
  - change (chainQ R (a :: b :: l1 ++ m :: l2)). destruct H1 as [G H1]. split; [exact G|]. apply IH; assumption.
Qed.
Lemma chainQ_app_l (R : Q -> Q -> Prop) l1 l2 : chainQ R (l1 ++ l2) -> chainQ R l1.
Proof.
  induction l1 as [|a l1 IH]; [simpl; auto|]. intros H. destruct l1 as [|b l1]; [exact I|].
  destruct H as [G H]. split; [exact G|]. apply IH. exact H.
Qed.
Lemma chainQ_app_r (R : Q -> Q -> Prop) l1 l2 : chainQ R (l1 ++ l2) -> chainQ R l2.
Proof. induction l1 as [|a l1 IH]; [auto|]. intros H. apply IH. eapply chainQ_tail. exact H. Qed.
Lemma chainQ_rev tq l : chainQ (Down tq) l -> chainQ (Up tq) (rev l).
Proof.
  induction l as [|a l IH]; intros H; [exact I|]. destruct l as [|b l]; [exact I|]. destruct H as [G H].
  change (rev (a :: b :: l)) with ((rev l ++ [b]) ++ [a]). rewrite <- app_assoc. simpl app.
  apply chainQ_app; [apply IH; exact H|]. split; [|exact I]. unfold Down, Up in *. destruct G as [E|E]; [left; symmetry; exact E|right; exact E].
Qed.
Lemma chainQ_const (R : Q -> Q -> Prop) l c : (forall a b, a == c -> b == c -> R a b) -> Forall (fun x => x == c) l -> chainQ R l.
Proof.
  intros HR. induction l as [|a l IH]; intros H; [exact I|]. destruct l as [|b l]; [exact I|].
  inversion H as [|? ? Ha Hl]; subst. inversion Hl as [|? ? Hb _]; subst. split; [apply HR; assumption|apply IH; exact Hl].
Qed.
Lemma chainQ_Down_eqv tq l l' : Forall2 Qeq l l' -> chainQ (Down tq) l' -> chainQ (Down tq) l.
Proof.
  intros H. induction H as [|a a' l l' Ea Hl IH]; intros Hc; [exact I|].
  destruct Hl as [|b b' l l' Eb Hl]; [exact I|]. destruct Hc as [G Hc]. split; [|apply IH; exact Hc].
  unfold Down in *. rewrite Ea, Eb. exact G.
Qed.
Lemma chainQ_Up_eqv tq l l' : Forall2 Qeq l l' -> chainQ (Up tq) l' -> chainQ (Up tq) l.
Proof.
  intros H. induction H as [|a a' l l' Ea Hl IH]; intros Hc; [exact I|].
  destruct Hl as [|b b' l l' Eb Hl]; [exact I|]. destruct Hc as [G Hc]. split; [|apply IH; exact Hc].
  unfold Up in *. rewrite Ea, Eb. exact G.
Qed.

Section Steps.
Variables (d : bool) (tq : Q) (mk : row -> row -> Q -> row).
Hypothesis Ht : 0 < tq.
Hypothesis Hmk : mk_spec tq mk.

Lemma pocket_some_steps L cont r' rs' : rH r' + tq < L -> rNP r' == rH r' ->
  chainQ (Down tq) (map rNP (r' :: cont)) ->
  forall m1 prev y0, y0 == L -> Forall (above_L tq L) m1 -> above_L tq L prev -> NPH m1 -> rNP prev == rH prev ->
  mono d tq (map ptH (prev :: m1 ++ r' :: rs')) ->
  CrossW d tq L (last m1 prev) r' ->
  chainQ (Down tq) (y0 :: map rNP (flat L m1 ++ bp_ins tq mk L (last m1 prev) r' ++ r' :: cont)).
Proof.
  intros Hr' Er' Hcont. induction m1 as [|r1 m1 IH]; intros prev y0 Ey Hall Hp Hnp Ep Hm Hc.
  - simpl last in *. simpl app in *.
    change (map ptH (prev :: r' :: rs')) with (ptH prev :: ptH r' :: map ptH rs') in *.
    pose proof Hm as [G Hm'].
    destruct (bp_ins_cases d tq mk Ht Hmk L prev r' ltac:(lra) Hp G Ep Er' Hc) as [[Ei EL]|[bp [Ei [B1 [B2 [G1 [G2 B3]]]]]]]; rewrite Ei; simpl app.
    + change (map rNP (r' :: cont)) with (rNP r' :: map rNP cont) in *. split; [|exact Hcont]. right. lra.
    + change (map rNP (bp :: r' :: cont)) with (rNP bp :: rNP r' :: map rNP cont).
      change (map rNP (r' :: cont)) with (rNP r' :: map rNP cont) in *.
      split; [left; lra|]. split; [right; lra|exact Hcont].
  - inversion Hall as [|? ? Hr1 Hrs]; subst. inversion Hnp as [|? ? En1 Hnp']; subst.
    change (map ptH (prev :: (r1 :: m1) ++ r' :: rs')) with (ptH prev :: ptH r1 :: map ptH (m1 ++ r' :: rs')) in *.
    change (flat L (r1 :: m1) ++ bp_ins tq mk L (last (r1 :: m1) prev) r' ++ r' :: cont)
      with (with_np r1 L :: (flat L m1 ++ bp_ins tq mk L (last (r1 :: m1) prev) r' ++ r' :: cont)).
    assert (El : last (r1 :: m1) prev = last m1 r1).
    { destruct m1 as [|z m1]; [reflexivity|]. rewrite last_cons2. apply last_dflt. discriminate. }
    rewrite El in *.
    change (map rNP (with_np r1 L :: ?l)) with (L :: map rNP l).
    pose proof Hm as [G Hm']. split; [left; lra|]. apply (IH r1 L); try assumption. reflexivity.
Qed.

Theorem zsweep_steps Ls : forall fuel cur rest, (List.length rest <= fuel)%nat -> SidePre d tq Ls cur rest ->
  chainQ (Down tq) (map rNP (cur :: zsweep tq mk fuel cur rest)).
Proof.
  induction fuel as [|f IH]; intros cur rest Hl Pre.
  - destruct rest; [|simpl in Hl; lia]. exact I.
  - destruct rest as [|r rs]; [exact I|]. simpl in Hl. rewrite zsweep_S.
    pose proof Pre as [P1 [P2 [P3 [P4 [P5 P6]]]]].
    destruct (qltb (rH cur) (rH r - tq)) eqn:Ep.
    + apply qltb_true in Ep.
      destruct (zpocket tq mk (rH cur) cur (r :: rs)) as [out k] eqn:Ez.
      destruct P3 as [Pnw P3'].
      assert (Hcur : above_L tq (rH cur) cur) by (left; reflexivity).
      destruct (zpocket_split tq mk _ _ _ _ _ Ez) as [[K1 [K2 K3]]|[m1 [r' [rs' [K1 [K2 [K3 [K4 K5]]]]]]]]; subst k out.
      * change (map rNP (cur :: flat (rH cur) (r :: rs))) with (rNP cur :: map rNP (flat (rH cur) (r :: rs))).
        apply (chainQ_const _ _ (rH cur)); [intros a b Ea Eb; left; lra|].
        constructor; [exact P1|]. rewrite Forall_map. unfold flat. rewrite Forall_map. rewrite Forall_forall. intros x _. reflexivity.
      * rewrite K2 in *.
        assert (Pre' : SidePre d tq Ls r' rs') by (eapply SidePre_suffix; [exact Pre|reflexivity]).
        rewrite <- app_assoc.
        change (map rNP (cur :: ?l)) with (rNP cur :: map rNP l).
        assert (Hnw1 : NW tq (rH cur) m1) by (unfold NW in *; apply Forall_app in Pnw; apply Pnw).
        assert (Hab : Forall (above_L tq (rH cur)) m1) by (apply NW_above; assumption).
        assert (Hnp1 : NPH m1) by (unfold NPH in *; apply Forall_app in P2; apply P2).
        assert (Er' : rNP r' == rH r') by apply Pre'.
        assert (Hstrict : rH r' + tq < rH cur).
        { unfold NW in Pnw. apply Forall_app in Pnw. destruct Pnw as [_ Pnw]. inversion Pnw as [|? ? Hr _]; subst.
          destruct Hr as [E|[E|E]]; lra. }
        apply (pocket_some_steps (rH cur) (zsweep tq mk f r' rs') r' rs' Hstrict Er'); try assumption.
        -- apply IH; [|exact Pre'].
           assert (Hlen : List.length (r :: rs) = List.length (m1 ++ r' :: rs')) by (rewrite K2; reflexivity).
           rewrite app_length in Hlen. simpl in Hlen. lia.
        -- assert (Hin : In (rH cur) Ls) by (inversion P6; assumption).
           assert (Hpair : Forall (fun L => CrossW d tq L (last m1 cur) r') Ls).
           { destruct (exists_last (l := cur :: m1) ltac:(discriminate)) as [pre [z Epz]].
             assert (Ez' : z = last m1 cur).
             { assert (E2 : last (cur :: m1) cur = z) by (rewrite Epz; apply last_last).
               rewrite <- E2. destruct m1 as [|y m1]; [reflexivity|]. rewrite last_cons2. apply last_dflt. discriminate. }
             subst z. apply (CrossAll_pair d tq Ls pre (last m1 cur) r' rs').
             replace (pre ++ last m1 cur :: r' :: rs') with ((pre ++ [last m1 cur]) ++ r' :: rs') by (rewrite <- app_assoc; reflexivity).
             rewrite <- Epz. exact P5. }
           rewrite Forall_forall in Hpair. apply Hpair. exact Hin.
    + apply qltb_false in Ep.
      assert (Pre' : SidePre d tq Ls r rs) by (apply (SidePre_suffix d tq Ls cur (r :: rs) [] r rs Pre); reflexivity).
      destruct P3 as [Pnw P3']. inversion Pnw as [|? ? Hr _]; subst.
      assert (Er : rNP r == rH r) by apply Pre'.
      change (map rNP (cur :: r :: ?l)) with (rNP cur :: rNP r :: map rNP l).
      split.
      * unfold Down. destruct Hr as [E|[E|E]]; [left; lra|right; lra|lra].
      * change (rNP r :: map rNP (zsweep tq mk f r rs)) with (map rNP (r :: zsweep tq mk f r rs)).
        apply IH; [lia|exact Pre'].
Qed.
End Steps.

(* ---------- the pocket-free column is a valley ---------- *)
Definition Valley (tq : Q) (np : list Q) : Prop :=
  exists l1 m l2, np = l1 ++ m :: l2 /\ m == 0 /\ chainQ (Down tq) (l1 ++ [m]) /\ chainQ (Up tq) (m :: l2).

Lemma Valley_eqv tq np np' : Forall2 Qeq np np' -> Valley tq np' -> Valley tq np.
Proof.
  intros H [l1' [m' [l2' [E [Em [Hd Hu]]]]]]. subst np'.
  apply Forall2_app_inv_r in H. destruct H as [l1 [r [H1 [H2 E]]]]. subst np.
  inversion H2 as [|m ? l2 ? Hm Hl2]; subst.
  exists l1, m, l2. split; [reflexivity|]. split; [rewrite Hm; exact Em|]. split.
  - apply (chainQ_Down_eqv tq _ (l1' ++ [m'])); [apply Forall2_app; [exact H1|constructor; [exact Hm|constructor]]|exact Hd].
  - apply (chainQ_Up_eqv tq _ (m' :: l2')); [constructor; assumption|exact Hu].
Qed.

Lemma side_steps_up tq Ls t0 hp cp : 0 < tq -> RobustP tq Ls t0 -> PinchFacts tq (map rH t0) hp cp ->
  forall c0 mu, firstn (S hp) t0 = c0 :: mu -> chainQ (Down tq) (map rNP (zside tq (mk_up tq) (c0 :: mu))).
Proof.
  intros Ht R PF c0 mu Eab.
  assert (Hlt : (hp < List.length t0)%nat) by (destruct PF; rewrite map_length in *; lia).
  assert (Rab : RobustP tq Ls (c0 :: mu)) by (rewrite <- Eab; apply (RobustP_app_l tq Ls _ (skipn (S hp) t0)); rewrite firstn_skipn; exact R).
  assert (Hc0 : c0 = nth 0 t0 r0).
  { destruct t0 as [|y t0']; [simpl in Hlt; lia|]. simpl in Eab. inversion Eab. reflexivity. }
  pose proof (rp_zero tq Ls t0 R) as Hz. rewrite Forall_forall in Hz.
  unfold zside. destruct (qltb (rH c0) tq) eqn:Eq.
  - apply (chainQ_const _ _ 0); [intros a b Ea Eb; left; lra|].
    rewrite Forall_map. rewrite <- Eab. apply (Forall_firstn_nth _ t0 (S hp) r0). intros j Hj Hjl.
    pose proof (rp_np tq Ls t0 R) as Hnp. rewrite Forall_forall in Hnp. rewrite (Hnp _ (nth_In t0 r0 Hjl)).
    assert (Hd0 : rH c0 == 0 \/ tq < rH c0) by (rewrite Hc0; apply Hz; apply nth_In; lia).
    destruct (zero_cases tq Ht (rH c0) Hd0) as [[Z1 _] [_ Z2]].
    assert (Hi : isz tq (nth j (map rH t0) 0) = true).
    { apply (pf_lead _ _ _ _ PF); [|lia]. rewrite nth_map_rH, <- Hc0. apply Z2, Z1, Eq. }
    rewrite nth_map_rH in Hi. apply (zero_cases tq Ht _ (Hz _ (nth_In t0 r0 Hjl))). exact Hi.
  - apply (zsweep_steps true tq (mk_up tq) Ht (mk_up_spec tq ltac:(lra)) Ls); [lia|]. apply SidePre_up. exact Rab.
Qed.
Lemma side_steps_dn tq Ls t0 hp cp : 0 < tq -> RobustP tq Ls t0 -> PinchFacts tq (map rH t0) hp cp ->
  forall cl md, rev (skipn cp t0) = cl :: md -> chainQ (Down tq) (map rNP (zside tq (mk_dn tq) (cl :: md))).
Proof.
  intros Ht R PF cl md Ebl.
  assert (Hlt : (cp < List.length t0)%nat) by (destruct PF; rewrite map_length in *; lia).
  assert (Rb : RobustP tq Ls (skipn cp t0)) by (apply (RobustP_app_r tq Ls (firstn cp t0)); rewrite firstn_skipn; exact R).
  pose proof (rp_zero tq Ls t0 R) as Hz. rewrite Forall_forall in Hz.
  assert (Hne : t0 <> []) by (intro Z; rewrite Z in Hlt; simpl in Hlt; lia).
  assert (Hcl : cl = nth (List.length t0 - 1) t0 r0).
  { assert (Hlb : last (skipn cp t0) r0 = cl) by (rewrite <- (rev_involutive (skipn cp t0)), Ebl; cbn [rev]; apply last_last).
    rewrite <- Hlb. rewrite <- (last_nth_len t0 r0 Hne).
    transitivity (last (firstn cp t0 ++ skipn cp t0) r0); [symmetry; apply last_app_ne; rewrite (skipn_nth_cons t0 cp r0 Hlt); discriminate|].
    f_equal. apply firstn_skipn. }
  unfold zside. destruct (qltb (rH cl) tq) eqn:Eq.
  - apply (chainQ_const _ _ 0); [intros a b Ea Eb; left; lra|].
    rewrite Forall_map. rewrite <- Ebl. apply Forall_rev. apply (Forall_skipn_nth _ t0 cp r0). intros j Hj Hjl.
    pose proof (rp_np tq Ls t0 R) as Hnp. rewrite Forall_forall in Hnp. rewrite (Hnp _ (nth_In t0 r0 Hjl)).
    assert (Hd0 : rH cl == 0 \/ tq < rH cl) by (rewrite Hcl; apply Hz; apply nth_In; lia).
    destruct (zero_cases tq Ht (rH cl) Hd0) as [[Z1 _] [_ Z2]].
    assert (Hi : isz tq (nth j (map rH t0) 0) = true).
    { apply (pf_trail _ _ _ _ PF); [|rewrite map_length; lia]. rewrite map_length, nth_map_rH, <- Hcl. apply Z2, Z1, Eq. }
    rewrite nth_map_rH in Hi. apply (zero_cases tq Ht _ (Hz _ (nth_In t0 r0 Hjl))). exact Hi.
  - apply (zsweep_steps false tq (mk_dn tq) Ht (mk_dn_spec tq ltac:(lra)) Ls); [lia|]. eapply SidePre_dn; [exact Rb|exact Ebl].
Qed.

Theorem gcc_np_z_valley tq Ts Hs : 0 < tq -> robust_b tq Ts Hs = true -> has_pinch tq Hs = true ->
  Valley tq (map rNP (gcc_np_z tq Ts Hs)).
Proof.
  intros Ht Hrob Hhas.
  destruct (robust_b_P tq Ts Hs Hrob) as [Hlen [Hpos R]].
  unfold has_pinch in Hhas. unfold gcc_np_z. set (t0 := init_rows Ts Hs) in *.
  assert (Hl0 : List.length t0 = List.length Ts) by (apply init_rows_length; exact Hlen).
  assert (EH : map rH t0 = Hs) by (apply init_rows_rH; exact Hlen).
  pose proof (rp_zero tq Hs t0 R) as Hz. rewrite Forall_forall in Hz.
  pose proof (rp_np tq Hs t0 R) as Hnp. rewrite Forall_forall in Hnp.
  destruct (pinch_idx tq (map rH t0)) as [[hp cp] valid] eqn:Epi.
  destruct valid; cbn [negb].
  2:{ assert (Hall : forallb (isz tq) (map rH t0) = true).
      { destruct (forallb (isz tq) (map rH t0)) eqn:E; [reflexivity|].
        pose proof (pinch_idx_valid tq (map rH t0) ltac:(rewrite EH; exact Hhas) E) as Hv. rewrite Epi in Hv. discriminate. }
      assert (Hzero : Forall (fun v => v == 0) (map rNP t0)).
      { rewrite Forall_map. rewrite Forall_forall. intros r Hr. rewrite (Hnp r Hr).
        destruct (In_nth t0 r r0 Hr) as [j [Hj Ej]]. rewrite <- Ej.
        apply (ev_row_zero tq Ts Hs Ht R j Hj). apply forallb_nth; [exact Hall|rewrite map_length; exact Hj]. }
      destruct t0 as [|y t0'] eqn:Et0; [simpl in Hl0; lia|]. cbn [map] in *.
      exists [], (rNP y), (map rNP t0'). split; [reflexivity|]. inversion Hzero as [|? ? Z1 Z2]; subst.
      split; [exact Z1|]. split; [exact I|]. apply (chainQ_const _ _ 0); [intros a b Ea Eb; left; lra|exact Hzero]. }
  assert (PF : PinchFacts tq (map rH t0) hp cp) by (apply pinch_idx_facts; [rewrite EH; exact Hhas|exact Epi]).
  pose proof (pf_le _ _ _ _ PF) as Hle. pose proof (pf_lt _ _ _ _ PF) as Hlt. rewrite map_length in Hlt.
  set (above := firstn (S hp) t0). set (midr := firstn (cp - S hp) (skipn (S hp) t0)). set (below := skipn cp t0).
  set (ph := nth hp t0 r0). set (pc := nth cp t0 r0).
  assert (Habove : exists c0 mu, above = c0 :: mu).
  { unfold above. destruct t0 as [|y t0']; [simpl in Hlt; lia|]. exists y, (firstn hp t0'). reflexivity. }
  destruct Habove as [c0 [mu Eab]].
  assert (Hbelow : exists cl md, rev below = cl :: md).
  { unfold below. rewrite (skipn_nth_cons t0 cp r0 Hlt). cbn [rev].
    destruct (rev (skipn (S cp) t0)) as [|y l]; [exists (nth cp t0 r0), []; reflexivity|exists y, (l ++ [nth cp t0 r0]); reflexivity]. }
  destruct Hbelow as [cl [md Ebl]].
  pose proof (side_up_pre tq Ht Hs t0 hp cp R PF c0 mu Eab) as Hup.
  pose proof (side_dn_pre tq Ht Hs t0 hp cp R PF cl md Ebl) as Hdn.
  destruct (zside_last tq (mk_up tq) c0 mu (fun H => proj2 (Hup H))) as [X [EX _]].
  assert (Elast_up : last (c0 :: mu) c0 = ph).
  { rewrite <- Eab. unfold above, ph. rewrite (firstn_S_snoc t0 hp r0) by lia. apply last_last. }
  rewrite Elast_up in EX.
  destruct (zside_last tq (mk_dn tq) cl md (fun H => proj2 (Hdn H))) as [Y [EY _]].
  assert (Elast_dn : last (cl :: md) cl = pc).
  { rewrite <- Ebl. unfold below, pc. rewrite (skipn_nth_cons t0 cp r0 Hlt). cbn [rev]. apply last_last. }
  rewrite Elast_dn in EY.
  pose proof (side_steps_up tq Hs t0 hp cp Ht R PF c0 mu Eab) as Sup. rewrite EX in Sup.
  pose proof (side_steps_dn tq Hs t0 hp cp Ht R PF cl md Ebl) as Sdn. rewrite EY in Sdn.
  assert (Zph : rNP ph == 0).
  { rewrite (Hnp ph) by (apply nth_In; lia). apply (ev_ph_zero tq Ts Hs Ht Hlen R hp cp PF). }
  assert (Zpc : rNP pc == 0).
  { rewrite (Hnp pc) by (apply nth_In; lia). apply (ev_pc_zero tq Ts Hs Ht Hlen R hp cp PF). }
  (* the cold side, in table order, rises from the pinch row *)
  assert (Hrise : chainQ (Up tq) (rNP pc :: map rNP (rev Y))).
  { apply chainQ_rev in Sdn. rewrite <- map_rev, rev_app_distr in Sdn. exact Sdn. }
  rewrite Eab, EX, Ebl, EY. rewrite rev_app_distr. cbn [rev app].
  exists (map rNP X), (rNP ph).
  destruct (hp <? cp)%nat eqn:E2.
  - exists (map rNP (map (fun r => with_np r 0) midr ++ pc :: rev Y)).
    split; [rewrite !map_app; cbn [map]; rewrite <- !app_assoc; reflexivity|]. split; [exact Zph|].
    split; [rewrite map_app in Sup; exact Sup|].
    rewrite map_app. cbn [map].
    change (rNP ph :: map rNP (map (fun r => with_np r 0) midr) ++ rNP pc :: map rNP (rev Y))
      with ((rNP ph :: map rNP (map (fun r => with_np r 0) midr)) ++ rNP pc :: map rNP (rev Y)).
    apply chainQ_app; [|exact Hrise].
    apply (chainQ_const _ _ 0); [intros a b Ea Eb; left; lra|].
    apply Forall_app. split; [constructor; [exact Zph|]|constructor; [exact Zpc|constructor]].
    rewrite !Forall_map. rewrite Forall_forall. intros r _. reflexivity.
  - apply Nat.ltb_ge in E2. assert (Ehc : hp = cp) by lia.
    assert (Em : midr = []) by (unfold midr; replace (cp - S hp)%nat with 0%nat by lia; reflexivity). rewrite Em.
    exists (map rNP (rev Y)). cbn [map app List.tl].
    split; [rewrite !map_app; cbn [map]; rewrite <- !app_assoc; reflexivity|]. split; [exact Zph|].
    split; [rewrite map_app in Sup; exact Sup|].
    unfold ph, pc in *. rewrite Ehc. exact Hrise.
Qed.


(* the load profiles of the pocket-free curve: zero at the pinch side, Qh and Qc at the far ends *)
Theorem profiles_ends tq Ts Hs out : 0 < tq -> robust_b tq Ts Hs = true -> has_pinch tq Hs = true ->
  gcc_np tq Ts Hs = Ok out ->
  let p := profiles tq (map rNP out) in
  hd 1 (fst p) == 0 /\ last (snd p) 1 == 0 /\ hd 0 (snd p) == hd 0 Hs /\ - last (fst p) 0 == last Hs 0.
Proof.
  intros Ht Hrob Hhas Hout p.
  destruct (res_eqv tq Ts Hs out Ht Hrob Hhas Hout) as [Heq _].
  destruct (np_keeps_ends tq Ts Hs out Ht Hrob Hhas Hout) as [K1 [K2 _]].
  destruct (res_ends tq Ts Hs out Ht Hrob Hhas Hout) as [_ [_ [_ [_ [_ [_ Hne]]]]]].
  assert (Hne' : map rNP out <> []) by (destruct out; [congruence|discriminate]).
  destruct (profiles_zero_side tq (map rNP out) Hne') as [Z1 Z2].
  split; [exact Z1|]. split; [exact Z2|].
  pose proof (Valley_eqv tq _ _ (rows_eqv_rNP _ _ Heq) (gcc_np_z_valley tq Ts Hs Ht Hrob Hhas)) as [l1 [m [l2 [E [Em [Hd Hu]]]]]].
  destruct (profiles_ends_valley tq l1 m l2 Ht Em Hd Hu) as [P1 P2]. cbv zeta in P1, P2.
  unfold p. rewrite E. rewrite P1, P2.
  assert (H1 : hd m l1 = rNP (hd r0 out)).
  { transitivity (hd 0 (map rNP out)); [rewrite E; destruct l1; reflexivity|]. destruct out; reflexivity. }
  assert (H2 : last l2 m = rNP (last out r0)).
  { transitivity (last (map rNP out) 0); [rewrite E; symmetry; rewrite (last_app_ne l1 (m :: l2) 0 m) by discriminate; destruct l2 as [|y l2]; [reflexivity|rewrite last_cons2; apply last_dflt; discriminate]|].
    change 0 with (rNP r0). apply (last_map rNP). }
  rewrite H1, H2. split; assumption.
Qed.
