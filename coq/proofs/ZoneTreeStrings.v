(* String and path facts used by the zone-tree proofs (C10): parts of a split contain no separator, stripping keeps
   that, joined paths are injective, generated names O<k> are injective and separator-free. *)
From OP Require Import gen.Consts gen.ZoneTreeConsts model.Base model.Collection model.ZoneTree proofs.CollectionRefine.
From Coq Require Import String Ascii Lia Decimal DecimalString DecimalNat.

Definition nosep (s : string) : Prop := has_char sepc s = false.

(* ---------------------------------------------------------------- split / strip *)
Lemma split_on_nonnil c s : split_on c s <> [].
Proof. destruct s as [|a r]; simpl; [discriminate|]. destruct (Ascii.eqb a c); [discriminate|]. destruct (split_on c r); discriminate. Qed.

Lemma split_on_nochar c s : Forall (fun x => has_char c x = false) (split_on c s).
Proof.
  induction s as [|a r IH]; simpl; [constructor; [reflexivity|constructor]|].
  destruct (Ascii.eqb a c) eqn:E; [constructor; [reflexivity|exact IH]|].
  destruct (split_on c r) as [|h t]; [constructor; [simpl; rewrite E; reflexivity|constructor]|].
  inversion IH as [|? ? Hh Ht]; subst. constructor; [simpl; rewrite E; exact Hh|exact Ht].
Qed.

Lemma lstrip_nochar c s : has_char c s = false -> has_char c (lstrip s) = false.
Proof. induction s as [|a r IH]; simpl; [auto|]. intro H. apply Bool.orb_false_iff in H. destruct H as [H1 H2].
  destruct (is_space a); [auto|]. simpl. rewrite H1, H2. reflexivity. Qed.
Lemma rstrip_nochar c s : has_char c s = false -> has_char c (rstrip s) = false.
Proof. induction s as [|a r IH]; simpl; [auto|]. intro H. apply Bool.orb_false_iff in H. destruct H as [H1 H2].
  specialize (IH H2). destruct (rstrip r) as [|b r'] eqn:E.
  - destruct (is_space a); simpl; [reflexivity|]. rewrite H1. reflexivity.
  - cbn [has_char]. rewrite H1. exact IH. Qed.
Lemma strip_nochar c s : has_char c s = false -> has_char c (strip s) = false.
Proof. intro H. unfold strip. apply rstrip_nochar, lstrip_nochar, H. Qed.

Lemma clean_parts_nosep s : Forall nosep (clean_parts s).
Proof.
  unfold clean_parts. apply Forall_forall. intros x Hx. apply filter_In in Hx. destruct Hx as [Hx _].
  apply in_map_iff in Hx. destruct Hx as [y [E Hy]]. subst. apply strip_nochar.
  pose proof (split_on_nochar sepc s) as F. rewrite Forall_forall in F. apply F, Hy.
Qed.
Lemma split_label_nosep name : Forall nosep (split_label name).
Proof. unfold split_label. destruct (has_char sepc name) eqn:E; [apply clean_parts_nosep|]. constructor; [exact E|constructor]. Qed.

(* ---------------------------------------------------------------- join is injective on separator-free components *)
Definition tl_str (l : list string) : string := match l with [] => EmptyString | _ => (seps ++ join l)%string end.
Lemma join_cons a l : join (a :: l) = (a ++ tl_str l)%string.
Proof. unfold join. destruct l as [|b r]; simpl; [|reflexivity]. induction a; simpl; [reflexivity|]. f_equal. exact IHa. Qed.

Lemma tl_str_shape l : tl_str l = EmptyString \/ exists r, tl_str l = String sepc r.
Proof. destruct l; [left; reflexivity|right]. unfold tl_str, seps. simpl. eexists. reflexivity. Qed.

Lemma head_inj a b x y :
  nosep a -> nosep b ->
  (x = EmptyString \/ exists r, x = String sepc r) -> (y = EmptyString \/ exists r, y = String sepc r) ->
  (a ++ x)%string = (b ++ y)%string -> a = b /\ x = y.
Proof.
  revert b. induction a as [|c a IH]; intros b Ha Hb Hx Hy E.
  - destruct b as [|d b]; [split; [reflexivity|exact E]|]. exfalso. simpl in E.
    unfold nosep in Hb. simpl in Hb. apply Bool.orb_false_iff in Hb. destruct Hb as [Hd _].
    destruct Hx as [Hx|[r Hx]]; subst x; [discriminate|]. inversion E; subst. rewrite Ascii.eqb_refl in Hd. discriminate.
  - destruct b as [|d b].
    + exfalso. simpl in E. unfold nosep in Ha. simpl in Ha. apply Bool.orb_false_iff in Ha. destruct Ha as [Hc _].
      destruct Hy as [Hy|[r Hy]]; subst y; [discriminate|]. inversion E; subst. rewrite Ascii.eqb_refl in Hc. discriminate.
    + simpl in E. inversion E as [[E1 E2]]. subst d.
      unfold nosep in Ha, Hb. simpl in Ha, Hb. apply Bool.orb_false_iff in Ha, Hb.
      destruct (IH b (proj2 Ha) (proj2 Hb) Hx Hy E2) as [Eab Exy]. subst. split; reflexivity.
Qed.

Lemma tl_str_inj l : forall m, Forall nosep l -> Forall nosep m -> tl_str l = tl_str m -> l = m.
Proof.
  induction l as [|a l IH]; intros m Hl Hm E.
  - destruct m as [|b m]; [reflexivity|]. unfold tl_str, seps in E. simpl in E. discriminate.
  - destruct m as [|b m]; [unfold tl_str, seps in E; simpl in E; discriminate|].
    unfold tl_str in E. apply append_inj_r in E. rewrite !join_cons in E.
    inversion Hl as [|? ? Ha Hl']; inversion Hm as [|? ? Hb Hm']; subst.
    destruct (head_inj a b _ _ Ha Hb (tl_str_shape l) (tl_str_shape m) E) as [E1 E2]. subst.
    f_equal. apply IH; assumption.
Qed.

(* the full-path string of a zone determines the zone, whatever the root is called *)
Lemma pathstr_inj root p q : Forall nosep p -> Forall nosep q -> pathstr root p = pathstr root q -> p = q.
Proof. intros Hp Hq E. unfold pathstr in E. rewrite !join_cons in E. apply append_inj_r in E. apply tl_str_inj; assumption. Qed.

(* ---------------------------------------------------------------- generated names *)
Lemma oname_inj a b : oname a = oname b -> a = b.
Proof. unfold oname. intro E. apply append_inj_r in E. apply nat_str_inj, E. Qed.

Lemma has_char_app c a b : has_char c (a ++ b)%string = has_char c a || has_char c b.
Proof. induction a as [|x a IH]; simpl; [reflexivity|]. rewrite IH. apply Bool.orb_assoc. Qed.

Lemma uint_nosep u : has_char sepc (NilEmpty.string_of_uint u) = false.
Proof. induction u; simpl; try reflexivity; rewrite IHu; reflexivity. Qed.
Lemma oname_nosep k : nosep (oname k).
Proof. unfold nosep, oname. rewrite has_char_app. unfold nat_str. rewrite uint_nosep. reflexivity. Qed.

(* ---------------------------------------------------------------- paths *)
Lemma path_eqb_eq a : forall b, path_eqb a b = true <-> a = b.
Proof.
  induction a as [|x a IH]; intros [|y b]; simpl; split; intro H; try reflexivity; try discriminate.
  - apply Bool.andb_true_iff in H. destruct H as [H1 H2]. apply String.eqb_eq in H1. apply IH in H2. subst. reflexivity.
  - inversion H; subst. rewrite String.eqb_refl. simpl. apply IH. reflexivity.
Qed.
Lemma path_eqb_refl a : path_eqb a a = true. Proof. apply path_eqb_eq. reflexivity. Qed.
Lemma path_eqb_neq a b : path_eqb a b = false <-> a <> b.
Proof. split; intro H.
  - intro E. apply path_eqb_eq in E. congruence.
  - destruct (path_eqb a b) eqn:E; [apply path_eqb_eq in E; contradiction|reflexivity]. Qed.

Lemma strip_prefix_spec p : forall q r, strip_prefix p q = Some r <-> q = p ++ r.
Proof.
  induction p as [|a p IH]; intros q r; simpl.
  - split; intro H; [inversion H; reflexivity|subst; reflexivity].
  - destruct q as [|b q]; [split; intro H; discriminate|].
    destruct (String.eqb a b) eqn:E.
    + apply String.eqb_eq in E. subst. rewrite IH. split; intro H; [subst; reflexivity|inversion H; reflexivity].
    + split; intro H; [discriminate|]. inversion H; subst. rewrite String.eqb_refl in E. discriminate.
Qed.
Lemma is_prefix_spec p q : is_prefix p q = true <-> exists r, q = p ++ r.
Proof. unfold is_prefix. destruct (strip_prefix p q) as [r|] eqn:E.
  - apply strip_prefix_spec in E. split; [intros _; exists r; exact E|reflexivity].
  - split; [discriminate|]. intros [r H]. apply strip_prefix_spec in H. congruence. Qed.
Lemma is_prefix_app p r : is_prefix p (p ++ r) = true. Proof. apply is_prefix_spec. exists r. reflexivity. Qed.
Lemma is_prefix_refl p : is_prefix p p = true. Proof. apply is_prefix_spec. exists []. rewrite app_nil_r. reflexivity. Qed.
Lemma is_prefix_nil q : is_prefix [] q = true. Proof. reflexivity. Qed.
Lemma is_prefix_trans p q r : is_prefix p q = true -> is_prefix q r = true -> is_prefix p r = true.
Proof. rewrite !is_prefix_spec. intros [a Ha] [b Hb]. subst. exists (a ++ b). rewrite app_assoc. reflexivity. Qed.

Lemma pmem_In p L : pmem p L = true <-> In p L.
Proof. unfold pmem. rewrite existsb_exists. split.
  - intros [x [Hx E]]. apply path_eqb_eq in E. subst. exact Hx.
  - intro H. exists p. split; [exact H|apply path_eqb_refl]. Qed.
Lemma mem_str_In x l : mem_str x l = true <-> In x l.
Proof. unfold mem_str. rewrite existsb_exists. split.
  - intros [y [Hy E]]. apply String.eqb_eq in E. subst. exact Hy.
  - intro H. exists x. split; [exact H|apply String.eqb_refl]. Qed.

Lemma kids_In L p c : In c (kids L p) <-> In (p ++ [c]) L.
Proof.
  unfold kids. rewrite in_flat_map. split.
  - intros [q [Hq Hc]]. destruct (strip_prefix p q) as [[|d [|e r]]|] eqn:E; try contradiction.
    destruct Hc as [Hc|[]]. subst d. apply strip_prefix_spec in E. subst. exact Hq.
  - intro H. exists (p ++ [c]). split; [exact H|].
    assert (E : strip_prefix p (p ++ [c]) = Some [c]) by (apply strip_prefix_spec; reflexivity). rewrite E. left. reflexivity.
Qed.

Lemma kids_nodup L p : NoDup L -> NoDup (kids L p).
Proof.
  unfold kids. induction L as [|q L IH]; intro ND; simpl; [constructor|].
  inversion ND as [|? ? Hq HL]; subst. specialize (IH HL).
  destruct (strip_prefix p q) as [[|d [|e r]]|] eqn:E; simpl; try exact IH.
  constructor; [|exact IH]. intro K. apply (proj1 (kids_In L p d)) in K. apply strip_prefix_spec in E. subst. contradiction.
Qed.

(* nonempty prefixes *)
Lemma prefixes_ne_spec p : forall q, In q (prefixes_ne p) <-> q <> [] /\ is_prefix q p = true.
Proof.
  induction p as [|c r IH]; intro q; simpl.
  - split; [intros []|]. intros [Hq H]. apply is_prefix_spec in H. destruct H as [x H]. destruct q; [congruence|discriminate].
  - split.
    + intros [H|H]; [subst; split; [discriminate|]; unfold is_prefix; simpl; rewrite String.eqb_refl; reflexivity|].
      apply in_map_iff in H. destruct H as [q' [E H]]. subst. apply IH in H. destruct H as [_ H].
      split; [discriminate|]. unfold is_prefix in *. simpl. rewrite String.eqb_refl. exact H.
    + intros [Hq H]. destruct q as [|d q]; [congruence|]. unfold is_prefix in H. simpl in H.
      destruct (String.eqb d c) eqn:E; [|discriminate]. apply String.eqb_eq in E. subst.
      destruct q as [|e q]; [left; reflexivity|right]. apply in_map_iff. exists (e :: q). split; [reflexivity|].
      apply IH. split; [discriminate|exact H].
Qed.

Lemma app_tail_inj {A} (a b : list A) x y : a ++ [x] = b ++ [y] -> a = b /\ x = y.
Proof. intro H. apply app_inj_tail in H. exact H. Qed.

Lemma prefix_cases p q : is_prefix p q = true -> p = q \/ exists c r, q = p ++ c :: r.
Proof. intro H. apply is_prefix_spec in H. destruct H as [[|c r] H]; [left; rewrite app_nil_r in H; auto|right; eauto]. Qed.
