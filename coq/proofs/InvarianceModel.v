(* C12 on the MODEL of the cascade (model/Cascade.v: cpsum / rows_from / raw_rows / pta), not on the specification:
   the algorithm itself is invariant under (a) the order of the streams, (b) a common translation of streams and grid,
   (c) a common scaling of the heat-capacity flow rates.  These are algebraic identities of the algorithm: no Robust /
   lattice / well-formedness hypothesis is needed (they hold also where the cascade is NOT exact, e.g. finding D44). *)
From OP Require Import gen.Consts model.Base model.Cascade proofs.BaseFacts proofs.CascadeSpec proofs.Invariance.
From Coq Require Import Lqa Lia Permutation.
Local Open Scope Q_scope.
Local Arguments Qred : simpl never.

(* ---------------------------------------------------------------- reduced values *)
Lemma Qred_idem x : Qred (Qred x) = Qred x.
Proof. apply Qred_complete, Qred_correct. Qed.
Lemma red_eq a b : Qred a = a -> Qred b = b -> a == b -> a = b.
Proof. intros Ha Hb E. rewrite <- Ha, <- Hb. apply Qred_complete, E. Qed.

(* ================================================================ (a) order of the streams *)
Section Perm.
Variable w : Q.

Lemma cpsum_red ss up low : Qred (cpsum w ss up low) = cpsum w ss up low.
Proof.
  induction ss as [|s ss IH]; cbn [cpsum fold_right]; [reflexivity|].
  fold (cpsum w ss up low). destruct (active w s up low); [apply Qred_idem|exact IH].
Qed.

Lemma cpsum_perm_eq ss ss' up low : Permutation ss ss' -> cpsum w ss up low == cpsum w ss' up low.
Proof.
  intro P. induction P as [|x l l' P IH|x y l|l l' l'' P1 IH1 P2 IH2]; cbn [cpsum fold_right].
  - reflexivity.
  - fold (cpsum w l up low) (cpsum w l' up low). destruct (active w x up low); [rewrite !Qred_correct, IH; reflexivity|exact IH].
  - fold (cpsum w l up low). destruct (active w x up low), (active w y up low); rewrite ?Qred_correct; try reflexivity. ring.
  - rewrite IH1. exact IH2.
Qed.

(* the sum of the active heat-capacity flow rates is THE SAME rational (same reduced fraction) *)
Lemma cpsum_perm ss ss' up low : Permutation ss ss' -> cpsum w ss up low = cpsum w ss' up low.
Proof. intro P. apply red_eq; [apply cpsum_red|apply cpsum_red|apply cpsum_perm_eq, P]. Qed.

Lemma rows_from_perm hot hot' cold cold' g : Permutation hot hot' -> Permutation cold cold' ->
  forall prev ch cc, rows_from w hot cold prev ch cc g = rows_from w hot' cold' prev ch cc g.
Proof.
  intros Ph Pc. induction g as [|t g IH]; intros prev ch cc; cbn [rows_from]; [reflexivity|].
  rewrite (cpsum_perm hot hot' prev t Ph), (cpsum_perm cold cold' prev t Pc), IH. reflexivity.
Qed.
Lemma raw_rows_perm hot hot' cold cold' g : Permutation hot hot' -> Permutation cold cold' ->
  raw_rows w hot cold g = raw_rows w hot' cold' g.
Proof. intros Ph Pc. destruct g as [|t0 g]; cbn [raw_rows]; [reflexivity|]. rewrite (rows_from_perm hot hot' cold cold' g Ph Pc). reflexivity. Qed.

(* every column of the problem table is identical, cell by cell *)
Theorem pta_perm hot hot' cold cold' g : Permutation hot hot' -> Permutation cold cold' ->
  pta w hot cold g = pta w hot' cold' g.
Proof. intros Ph Pc. unfold pta. rewrite (raw_rows_perm hot hot' cold cold' g Ph Pc). reflexivity. Qed.

Corollary pta_perm_columns hot hot' cold cold' g : Permutation hot hot' -> Permutation cold cold' ->
  pT (pta w hot cold g) = pT (pta w hot' cold' g) /\ pHh (pta w hot cold g) = pHh (pta w hot' cold' g)
  /\ pHc (pta w hot cold g) = pHc (pta w hot' cold' g) /\ pHn (pta w hot cold g) = pHn (pta w hot' cold' g).
Proof. intros Ph Pc. rewrite (pta_perm hot hot' cold cold' g Ph Pc). repeat split. Qed.

Corollary targets_perm_model hot hot' cold cold' g : Permutation hot hot' -> Permutation cold cold' ->
  Qh_of (pta w hot cold g) = Qh_of (pta w hot' cold' g) /\ Qc_of (pta w hot cold g) = Qc_of (pta w hot' cold' g)
  /\ Qr_of (pta w hot cold g) = Qr_of (pta w hot' cold' g).
Proof. intros Ph Pc. rewrite (pta_perm hot hot' cold cold' g Ph Pc). repeat split. Qed.
End Perm.

(* ---------------------------------------------------------------- the grid itself does not depend on the order *)
Lemma desc_unique l : forall l', desc l -> desc l' -> (forall x, In x l <-> In x l') -> l = l'.
Proof.
  induction l as [|a t IH]; intros l' D D' E.
  - destruct l' as [|b t']; [reflexivity|]. exfalso. apply (proj2 (E b)). left; reflexivity.
  - destruct l' as [|b t']; [exfalso; apply (proj1 (E a)); left; reflexivity|].
    pose proof (desc_tail_lt a t D) as Ta. pose proof (desc_tail_lt b t' D') as Tb.
    rewrite Forall_forall in Ta, Tb.
    assert (Eab : a = b).
    { destruct (proj1 (E a) (or_introl eq_refl)) as [K|K]; [symmetry; exact K|].
      destruct (proj2 (E b) (or_introl eq_refl)) as [K2|K2]; [exact K2|].
      specialize (Ta b K2). specialize (Tb a K). lra. }
    subst b. f_equal. apply IH; [exact (proj2 D)|exact (proj2 D')|].
    intro x. split; intro Hx.
    + destruct (proj1 (E x) (or_intror Hx)) as [K|K]; [|exact K]. subst x. specialize (Ta a Hx). lra.
    + destruct (proj2 (E x) (or_intror Hx)) as [K|K]; [|exact K]. subst x. specialize (Tb a Hx). lra.
Qed.

Lemma grid_of_in_perm es es' z : Permutation es es' -> In z (grid_of es) -> In z (grid_of es').
Proof.
  intros P Hz. change (grid_of es) with (sorted_of (map (round_dp grid_round_dp) es)) in Hz.
  change (grid_of es') with (sorted_of (map (round_dp grid_round_dp) es')).
  apply sorted_of_only in Hz.
  assert (Hz' : In z (map (round_dp grid_round_dp) es')) by (eapply Permutation_in; [apply Permutation_map, P|exact Hz]).
  destruct (sorted_of_has _ _ Hz') as [y [Hy Ey]].
  replace z with y; [exact Hy|].
  apply sorted_of_only in Hy. apply in_map_iff in Hy. destruct Hy as [e1 [E1 _]]. apply in_map_iff in Hz'. destruct Hz' as [e2 [E2 _]].
  rewrite <- E1, <- E2 in Ey |- *. unfold round_dp in *. apply Qred_complete. rewrite !Qred_correct in Ey. exact Ey.
Qed.

Theorem grid_of_perm es es' : Permutation es es' -> grid_of es = grid_of es'.
Proof.
  intro P. apply desc_unique; [apply sorted_of_desc|apply sorted_of_desc|].
  intro x. split; apply grid_of_in_perm; [exact P|apply Permutation_sym, P].
Qed.

Lemma endpoints_perm ss ss' : Permutation ss ss' -> Permutation (endpoints ss) (endpoints ss').
Proof. intro P. unfold endpoints. apply Permutation_flat_map, P. Qed.

(* the whole stage (grid construction + cascade): identical table when the hot streams, the cold streams and the extra
   grid contributors are each given in another order *)
Theorem stage_model_perm w hot hot' cold cold' extra extra' :
  Permutation hot hot' -> Permutation cold cold' -> Permutation extra extra' ->
  stage_model w hot cold extra = stage_model w hot' cold' extra'.
Proof.
  intros Ph Pc Pe. unfold stage_model.
  rewrite (grid_of_perm (endpoints (hot ++ cold ++ extra)) (endpoints (hot' ++ cold' ++ extra'))).
  - apply pta_perm; assumption.
  - apply endpoints_perm. repeat apply Permutation_app; assumption.
Qed.

(* ================================================================ (b) common translation of streams and grid *)
Definition shift_row (d : Q) (r : rrow) : rrow := mkR (rT r + d) (rdT r) (rcph r) (rdhh r) (rch r) (rcpc r) (rdhc r) (rcc r).
(* the table with its temperature column moved by d and every other column untouched *)
Definition shift_tab (d : Q) (p : ptab) : ptab :=
  mkPT (map (fun t => t + d) (pT p)) (pdT p) (pCPh p) (pdHh p) (pHh p) (pCPc p) (pdHc p) (pHc p) (pCPn p) (pdHn p) (pHn p).

Lemma qltb_ext a b a' b' : (a < b <-> a' < b') -> qltb a b = qltb a' b'.
Proof.
  intro E. destruct (qltb a b) eqn:A; destruct (qltb a' b') eqn:B; try reflexivity; exfalso.
  - apply qltb_true in A. apply qltb_false in B. apply E in A. lra.
  - apply qltb_false in A. apply qltb_true in B. apply E in B. lra.
Qed.

Section Shift.
Variable w d : Q.

Lemma active_shift s up low : active w (shiftv d s) (up + d) (low + d) = active w s up low.
Proof. unfold active, shiftv. cbn [lo hi]. f_equal; apply qltb_ext; split; intro; lra. Qed.

Lemma cpsum_shift ss up low : cpsum w (map (shiftv d) ss) (up + d) (low + d) = cpsum w ss up low.
Proof.
  induction ss as [|s ss IH]; cbn [cpsum fold_right map]; [reflexivity|].
  fold (cpsum w (map (shiftv d) ss) (up + d) (low + d)) (cpsum w ss up low). rewrite active_shift, IH. reflexivity.
Qed.

Lemma rsub_shift a b : rsub (a + d) (b + d) = rsub a b.
Proof. unfold rsub. apply Qred_complete. ring. Qed.

Lemma rows_from_shift hot cold g : forall prev ch cc,
  rows_from w (map (shiftv d) hot) (map (shiftv d) cold) (prev + d) ch cc (map (fun t => t + d) g)
  = map (shift_row d) (rows_from w hot cold prev ch cc g).
Proof.
  induction g as [|t g IH]; intros prev ch cc; cbn [rows_from map]; [reflexivity|].
  rewrite !cpsum_shift, !rsub_shift, IH. reflexivity.
Qed.
Lemma raw_rows_shift hot cold g :
  raw_rows w (map (shiftv d) hot) (map (shiftv d) cold) (map (fun t => t + d) g) = map (shift_row d) (raw_rows w hot cold g).
Proof. destruct g as [|t0 g]; cbn [raw_rows map]; [reflexivity|]. rewrite rows_from_shift. reflexivity. Qed.

(* every heat / CP / width column is identical (same rationals); only the temperature column moves, by exactly d *)
Theorem pta_shift hot cold g :
  pta w (map (shiftv d) hot) (map (shiftv d) cold) (map (fun t => t + d) g) = shift_tab d (pta w hot cold g).
Proof.
  unfold pta, shift_tab. rewrite raw_rows_shift. cbn [pT pdT pCPh pdHh pHh pCPc pdHc pHc pCPn pdHn pHn].
  rewrite !map_map. reflexivity.
Qed.

Corollary targets_shift_model hot cold g :
  let p := pta w hot cold g in let p' := pta w (map (shiftv d) hot) (map (shiftv d) cold) (map (fun t => t + d) g) in
  Qh_of p' = Qh_of p /\ Qc_of p' = Qc_of p /\ Qr_of p' = Qr_of p
  /\ pT p' = map (fun t => t + d) (pT p) /\ pHh p' = pHh p /\ pHc p' = pHc p /\ pHn p' = pHn p.
Proof. cbv zeta. rewrite pta_shift. repeat split. Qed.
End Shift.

(* ================================================================ (c) common scaling of the heat-capacity flow rates *)
Definition scaledl (k : Q) (l l' : list Q) : Prop := Forall2 (fun a b => b == k * a) l l'.
Definition row_scaled (k : Q) (r r' : rrow) : Prop :=
  rT r' = rT r /\ rdT r' = rdT r /\ rcph r' == k * rcph r /\ rdhh r' == k * rdhh r /\ rch r' == k * rch r
  /\ rcpc r' == k * rcpc r /\ rdhc r' == k * rdhc r /\ rcc r' == k * rcc r.

Lemma Forall2_map2 {A B} (R : A -> A -> Prop) (S : B -> B -> Prop) (f f' : A -> B) l l' :
  Forall2 R l l' -> (forall a a', R a a' -> S (f a) (f' a')) -> Forall2 S (map f l) (map f' l').
Proof. intros F H. induction F; cbn [map]; constructor; auto. Qed.
Lemma Forall2_map_eq {A B} (R : A -> A -> Prop) (f : A -> B) l l' :
  Forall2 R l l' -> (forall a a', R a a' -> f a' = f a) -> map f l' = map f l.
Proof. intros F H. induction F; cbn [map]; [reflexivity|]. f_equal; auto. Qed.
Lemma scaledl_last k l l' : scaledl k l l' -> lastq l' == k * lastq l.
Proof.
  unfold lastq. intro F. induction F as [|a b l l' E F IH]; cbn [last]; [ring|].
  destruct F as [|a2 b2 l l' E2 F]; [exact E|exact IH].
Qed.
Lemma scaledl_hd k l l' : scaledl k l l' -> hd 0 l' == k * hd 0 l.
Proof. intro F. destruct F; cbn [hd]; [ring|assumption]. Qed.
Lemma qmin_list_scaled k l l' : 0 <= k -> scaledl k l l' -> forall x x', x' == k * x -> qmin_list x' l' == k * qmin_list x l.
Proof.
  intros Hk F. unfold qmin_list. induction F as [|a b l l' E F IH]; intros x x' Ex; cbn [fold_left]; [exact Ex|].
  apply IH. rewrite E, Ex. clear -Hk. qmax_cases. split_cases; nra.
Qed.

Section Scale.
Variable w k : Q.
Hypothesis k_nonneg : 0 <= k.

Lemma cpsum_scale ss up low : cpsum w (map (scalev k) ss) up low == k * cpsum w ss up low.
Proof.
  induction ss as [|s ss IH]; cbn [cpsum fold_right map]; [ring|].
  fold (cpsum w (map (scalev k) ss) up low) (cpsum w ss up low).
  change (active w (scalev k s) up low) with (active w s up low).
  destruct (active w s up low); [|exact IH]. rewrite !Qred_correct, IH. cbn [scalev vcp]. ring.
Qed.

Lemma rows_from_scale hot cold g : forall prev ch cc ch' cc', ch' == k * ch -> cc' == k * cc ->
  Forall2 (row_scaled k) (rows_from w hot cold prev ch cc g) (rows_from w (map (scalev k) hot) (map (scalev k) cold) prev ch' cc' g).
Proof.
  induction g as [|t g IH]; intros prev ch cc ch' cc' Eh Ec; cbn [rows_from]; [constructor|].
  pose proof (cpsum_scale hot prev t) as Sh. pose proof (cpsum_scale cold prev t) as Sc.
  assert (Xh : rmul (rsub prev t) (cpsum w (map (scalev k) hot) prev t) == k * rmul (rsub prev t) (cpsum w hot prev t))
    by (rewrite !rmul_eq, Sh; ring).
  assert (Xc : rmul (rsub prev t) (cpsum w (map (scalev k) cold) prev t) == k * rmul (rsub prev t) (cpsum w cold prev t))
    by (rewrite !rmul_eq, Sc; ring).
  assert (Yh : radd ch' (rmul (rsub prev t) (cpsum w (map (scalev k) hot) prev t)) == k * radd ch (rmul (rsub prev t) (cpsum w hot prev t)))
    by (rewrite !radd_eq, Xh, Eh; ring).
  assert (Yc : radd cc' (rmul (rsub prev t) (cpsum w (map (scalev k) cold) prev t)) == k * radd cc (rmul (rsub prev t) (cpsum w cold prev t)))
    by (rewrite !radd_eq, Xc, Ec; ring).
  constructor; [unfold row_scaled; cbn [rT rdT rcph rdhh rch rcpc rdhc rcc]; repeat split; assumption|].
  apply IH; assumption.
Qed.
Lemma raw_rows_scale hot cold g :
  Forall2 (row_scaled k) (raw_rows w hot cold g) (raw_rows w (map (scalev k) hot) (map (scalev k) cold) g).
Proof.
  destruct g as [|t0 g]; cbn [raw_rows]; [constructor|]. constructor.
  - unfold row_scaled; cbn [rT rdT rcph rdhh rch rcpc rdhc rcc]. repeat split; ring.
  - apply rows_from_scale; ring.
Qed.

(* T and dT columns identical; every CP, dH and H column (hot, cold, net) is multiplied by k, cell by cell *)
Theorem pta_scale hot cold g :
  let p := pta w hot cold g in let p' := pta w (map (scalev k) hot) (map (scalev k) cold) g in
  pT p' = pT p /\ pdT p' = pdT p
  /\ scaledl k (pCPh p) (pCPh p') /\ scaledl k (pdHh p) (pdHh p') /\ scaledl k (pHh p) (pHh p')
  /\ scaledl k (pCPc p) (pCPc p') /\ scaledl k (pdHc p) (pdHc p') /\ scaledl k (pHc p) (pHc p')
  /\ scaledl k (pCPn p) (pCPn p') /\ scaledl k (pdHn p) (pdHn p') /\ scaledl k (pHn p) (pHn p').
Proof.
  cbv zeta. unfold pta. cbn [pT pdT pCPh pdHh pHh pCPc pdHc pHc pCPn pdHn pHn].
  pose proof (raw_rows_scale hot cold g) as F.
  set (rs := raw_rows w hot cold g) in *. set (rs' := raw_rows w (map (scalev k) hot) (map (scalev k) cold) g) in *. clearbody rs rs'.
  assert (Fch : scaledl k (map rch rs) (map rch rs')) by (apply (Forall2_map2 _ _ _ _ _ _ F); intros a a' R; apply R).
  assert (Fcc : scaledl k (map rcc rs) (map rcc rs')) by (apply (Forall2_map2 _ _ _ _ _ _ F); intros a a' R; apply R).
  assert (Fn : scaledl k (map (fun r => rsub (rch r) (rcc r)) rs) (map (fun r => rsub (rch r) (rcc r)) rs')).
  { apply (Forall2_map2 _ _ _ _ _ _ F). intros a a' [_ [_ [_ [_ [A [_ [_ B]]]]]]]. rewrite !rsub_eq, A, B. ring. }
  pose proof (scaledl_last _ _ _ Fch) as Lh. pose proof (scaledl_last _ _ _ Fcc) as Lc. pose proof (scaledl_last _ _ _ Fn) as Ln.
  set (nraw := map (fun r => rsub (rch r) (rcc r)) rs) in *. set (nraw' := map (fun r => rsub (rch r) (rcc r)) rs') in *.
  assert (Mn : match nraw' with [] => 0 | x :: l => qmin_list x l end == k * match nraw with [] => 0 | x :: l => qmin_list x l end).
  { destruct Fn as [|a b l l' E Fn]; [ring|]. apply qmin_list_scaled; assumption. }
  set (mn := match nraw with [] => 0 | x :: l => qmin_list x l end) in *.
  set (mn' := match nraw' with [] => 0 | x :: l => qmin_list x l end) in *.
  split; [apply (Forall2_map_eq _ _ _ _ F); intros a a' R; apply R|].
  split; [apply (Forall2_map_eq _ _ _ _ F); intros a a' R; apply R|].
  split; [apply (Forall2_map2 _ _ _ _ _ _ F); intros a a' R; apply R|].
  split; [apply (Forall2_map2 _ _ _ _ _ _ F); intros a a' R; apply R|].
  split; [apply (Forall2_map2 _ _ _ _ _ _ Fch); intros a a' R; rewrite !rsub_eq, Lh, R; ring|].
  split; [apply (Forall2_map2 _ _ _ _ _ _ F); intros a a' R; apply R|].
  split; [apply (Forall2_map2 _ _ _ _ _ _ F); intros a a' R; apply R|].
  split; [apply (Forall2_map2 _ _ _ _ _ _ Fcc); intros a a' R; rewrite ?rsub_eq, ?radd_eq, ?rsub_eq, Lc, Ln, Mn, R; ring|].
  split; [apply (Forall2_map2 _ _ _ _ _ _ F); intros a a' [_ [_ [A [_ [_ [B _]]]]]]; rewrite !rsub_eq, A, B; ring|].
  split; [apply (Forall2_map2 _ _ _ _ _ _ F); intros a a' [_ [D [A [_ [_ [B _]]]]]]; rewrite !rmul_eq, !rsub_eq, A, B, D; ring|].
  apply (Forall2_map2 _ _ _ _ _ _ Fn); intros a a' R; rewrite !rsub_eq, Mn, R; ring.
Qed.

Corollary targets_scale_model hot cold g :
  let p := pta w hot cold g in let p' := pta w (map (scalev k) hot) (map (scalev k) cold) g in
  Qh_of p' == k * Qh_of p /\ Qc_of p' == k * Qc_of p /\ Qr_of p' == k * Qr_of p.
Proof.
  cbv zeta. destruct (pta_scale hot cold g) as [_ [_ [_ [_ [Hh [_ [_ [_ [_ [_ Hn]]]]]]]]]].
  unfold Qh_of, Qc_of, Qr_of. pose proof (scaledl_hd _ _ _ Hn) as A. pose proof (scaledl_last _ _ _ Hn) as B.
  pose proof (scaledl_hd _ _ _ Hh) as C. split; [exact A|]. split; [exact B|]. rewrite !rsub_eq, B, C. ring.
Qed.
End Scale.

(* scaling also commutes with the grid construction (the grid only reads temperatures): whole stage *)
Lemma endpoints_scale k ss : endpoints (map (scalev k) ss) = endpoints ss.
Proof. unfold endpoints. induction ss as [|s ss IH]; cbn [map flat_map]; [reflexivity|]. rewrite IH. reflexivity. Qed.
Theorem stage_scale_model w k hot cold extra : 0 <= k ->
  let p := stage_model w hot cold extra in let p' := stage_model w (map (scalev k) hot) (map (scalev k) cold) extra in
  pT p' = pT p /\ scaledl k (pHh p) (pHh p') /\ scaledl k (pHc p) (pHc p') /\ scaledl k (pHn p) (pHn p')
  /\ Qh_of p' == k * Qh_of p /\ Qc_of p' == k * Qc_of p /\ Qr_of p' == k * Qr_of p.
Proof.
  intro Hk. cbv zeta. unfold stage_model.
  assert (E : endpoints (map (scalev k) hot ++ map (scalev k) cold ++ extra) = endpoints (hot ++ cold ++ extra)).
  { unfold endpoints. rewrite !flat_map_app. fold (endpoints (map (scalev k) hot)) (endpoints (map (scalev k) cold)).
    rewrite !endpoints_scale. reflexivity. }
  rewrite E. set (g := grid_of (endpoints (hot ++ cold ++ extra))).
  destruct (pta_scale w k Hk hot cold g) as [A [_ [_ [_ [Hh [_ [_ [Hc [_ [_ Hn]]]]]]]]]].
  destruct (targets_scale_model w k Hk hot cold g) as [B [C D]]. repeat split; assumption.
Qed.

(* non-vacuity / sanity: a non-Robust instance (a stream narrower than the window, finding D44) obeys the identities too *)
Definition nr_hot : list view := [mkV 150 200 1; mkV 100 (100 + (4 # 1000000)) 3].
Definition nr_cold : list view := [mkV 20 120 2; mkV 30 90 1].
Example identities_on_a_nonrobust_instance :
  stage_model act_window nr_hot nr_cold [] = stage_model act_window (rev nr_hot) (rev nr_cold) []
  /\ Qh_of (stage_model act_window (map (scalev 3) nr_hot) (map (scalev 3) nr_cold) []) == 3 * Qh_of (stage_model act_window nr_hot nr_cold [])
  /\ pHn (pta act_window (map (shiftv 7) nr_hot) (map (shiftv 7) nr_cold) (map (fun t => t + 7) [200; 150; 120; 90; 30; 20]))
     = pHn (pta act_window nr_hot nr_cold [200; 150; 120; 90; 30; 20]).
Proof. vm_compute. repeat split. Qed.
