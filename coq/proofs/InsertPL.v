(* Shared helper of proofs/ComposeInsertCascade.v (C05) and proofs/ComposeInsertCurves.v (C13):
   facts about the piecewise-linear reading `pl (pts j t)` of an interpolated column of a model/Insert.v table that the
   C08 proofs did not need: the polyline passes through its own rows, its value above the first / below the last row,
   and what any history of insert_temperature_interval calls therefore guarantees ROW BY ROW:
     - every row of the table after the history (old or inserted) lies exactly on the polyline through the ORIGINAL rows;
     - the value in the first / last row equals the value of the original first / last row (the end ROWS themselves change
       when a temperature above the top / below the bottom is inserted: a new edge row becomes the first / last row). *)
From OP Require Import gen.Consts model.Base model.Insert proofs.BaseFacts proofs.Insert proofs.InsertCurve proofs.InsertSeq.
From Coq Require Import Lqa Lia.
Local Open Scope Q_scope.
Local Arguments Qred : simpl never.

(* ------------------------------------------------------------------ strictly descending point lists *)
Fixpoint dfrom (p : Q) (l : list (Q * Q)) : Prop :=
  match l with [] => True | q :: r => fst q < p /\ dfrom (fst q) r end.
Definition sdesc (l : list (Q * Q)) : Prop := match l with [] => True | p :: r => dfrom (fst p) r end.

Lemma dfrom_lt l : forall p, dfrom p l -> forall q, In q l -> fst q < p.
Proof.
  induction l as [|a l IH]; intros p D q Hq; [destruct Hq|]. destruct D as [D1 D2].
  destruct Hq as [E|Hq]; [subst; exact D1|]. specialize (IH _ D2 q Hq). lra.
Qed.
Lemma dfrom_weaken l p p' : dfrom p l -> p <= p' -> dfrom p' l.
Proof. destruct l as [|a l]; simpl; [tauto|]. intros [H1 H2] H. split; [lra|exact H2]. Qed.
Lemma sdesc_tail p l : sdesc (p :: l) -> sdesc l.
Proof. destruct l as [|q l]; simpl; [tauto|]. intros [_ H]. exact H. Qed.
Lemma sdesc_hd_max p l q : sdesc (p :: l) -> In q (p :: l) -> fst q <= fst p.
Proof. intros D [E|Hq]; [subst; lra|]. pose proof (dfrom_lt _ _ D q Hq). lra. Qed.
Lemma last_indep_ne (A : Type) (l : list A) d d' : l <> [] -> last l d = last l d'.
Proof.
  induction l as [|a r IH]; intros H; [contradiction|]. destruct r as [|b r']; [reflexivity|].
  change (last (b :: r') d = last (b :: r') d'). apply IH. discriminate.
Qed.
Lemma dfrom_last_min l : forall p q d, dfrom p l -> In q l -> fst (last l d) <= fst q.
Proof.
  induction l as [|a l IH]; intros p q d D Hq; [destruct Hq|]. destruct D as [D1 D2].
  rewrite last_cons_default. destruct Hq as [E|Hq].
  - subst a. destruct (last_In_or _ l q) as [E|E]; [subst l; simpl; lra|]. pose proof (dfrom_lt _ _ D2 _ E). lra.
  - apply (IH (fst a)); assumption.
Qed.
Lemma sdesc_last_min l q d : sdesc l -> In q l -> fst (last l d) <= fst q.
Proof.
  destruct l as [|p l]; [intros _ []|]. intros D Hq. rewrite last_cons_default. destruct Hq as [E|Hq].
  - subst p. destruct (last_In_or _ l q) as [E|E]; [subst l; simpl; lra|]. pose proof (dfrom_lt _ _ D _ E). lra.
  - apply (dfrom_last_min l (fst p)); assumption.
Qed.

(* ------------------------------------------------------------------ the polyline through its own points *)
Lemma lin_eq_low a b y : y == fst b -> lin a b y == snd b.
Proof. intro E. unfold lin, Qdiv. rewrite E. ring. Qed.

Lemma plgo_at l : forall prev q, dfrom (fst prev) l -> In q l -> plgo prev l (fst q) == snd q.
Proof.
  induction l as [|a l IH]; intros prev q D Hq; [destruct Hq|]. destruct D as [D1 D2]. simpl plgo.
  destruct Hq as [E|Hq].
  - subst a. assert (T : Qle_bool (fst q) (fst q) = true) by (apply Qle_bool_iff; lra). rewrite T.
    apply lin_eq_low. reflexivity.
  - assert (L := dfrom_lt _ _ D2 q Hq).
    assert (F : Qle_bool (fst a) (fst q) = false) by (apply Qle_bool_false; exact L). rewrite F. apply IH; assumption.
Qed.
(* a piecewise-linear curve passes through each of its points *)
Lemma pl_at l q : sdesc l -> In q l -> pl l (fst q) == snd q.
Proof.
  destruct l as [|p0 l]; [intros _ []|]. intros D Hq. simpl pl. destruct Hq as [E|Hq].
  - subst p0. assert (T : Qle_bool (fst q) (fst q) = true) by (apply Qle_bool_iff; lra). rewrite T. reflexivity.
  - assert (L := dfrom_lt _ _ D q Hq).
    assert (F : Qle_bool (fst p0) (fst q) = false) by (apply Qle_bool_false; exact L). rewrite F. apply plgo_at; assumption.
Qed.

(* at and above the first point: the first value *)
Lemma pl_above p0 l y : fst p0 <= y -> pl (p0 :: l) y = snd p0.
Proof. intro H. simpl. assert (T : Qle_bool (fst p0) y = true) by (apply Qle_bool_iff; exact H). rewrite T. reflexivity. Qed.

(* at and below the last point: the last value *)
Lemma plgo_below_last l : forall prev y, dfrom (fst prev) l -> y <= fst (last l prev) -> plgo prev l y == snd (last l prev).
Proof.
  induction l as [|a l IH]; intros prev y D Hy; [reflexivity|]. destruct D as [D1 D2].
  rewrite last_cons_default in *. simpl plgo. destruct (Qle_bool (fst a) y) eqn:E.
  - apply Qle_bool_iff in E. destruct (last_In_or _ l a) as [El|El].
    + subst l. simpl in *. apply lin_eq_low. lra.
    + pose proof (dfrom_lt _ _ D2 _ El). lra.
  - apply IH; assumption.
Qed.
Lemma pl_below l y d : sdesc l -> l <> [] -> y <= fst (last l d) -> pl l y == snd (last l d).
Proof.
  destruct l as [|p0 l]; [congruence|]. intros D _ Hy. rewrite last_cons_default in *. simpl pl.
  destruct (Qle_bool (fst p0) y) eqn:E.
  - apply Qle_bool_iff in E. destruct (last_In_or _ l p0) as [El|El].
    + subst l. reflexivity.
    + pose proof (dfrom_lt _ _ D _ El). lra.
  - apply plgo_below_last; assumption.
Qed.

(* ------------------------------------------------------------------ tables *)
Section Tol.
Variable tolv : Q.
Hypothesis Htol : 0 <= tolv.

Lemma sep_dfrom j t : forall p, sep_from tolv p (map rT t) -> dfrom p (pts j t).
Proof.
  induction t as [|r t IH]; intros p H; [exact I|]. simpl in H. destruct H as [H1 H2].
  simpl. split; [lra|apply IH; exact H2].
Qed.
Lemma WF_sdesc j t : WF tolv t -> sdesc (pts j t).
Proof. intros [_ H]. destruct t as [|r t]; [exact I|]. simpl in *. apply sep_dfrom. exact H. Qed.

Lemma in_pts j t r : In r t -> In (InsertCurve.pt j r) (pts j t).
Proof. intro H. rewrite pts_map. apply in_map. exact H. Qed.

(* the column, read as a polyline, passes through every row of its own table *)
Lemma pl_at_row j t r : WF tolv t -> In r t -> pl (pts j t) (rT r) == cv (hcell j r).
Proof. intros W Hr. apply (pl_at (pts j t) (InsertCurve.pt j r)); [apply WF_sdesc; exact W|apply in_pts; exact Hr]. Qed.

Lemma hd_pts j t d : t <> [] -> hd (InsertCurve.pt j d) (pts j t) = InsertCurve.pt j (hd d t).
Proof. destruct t; [congruence|reflexivity]. Qed.
Lemma last_pts j t d : last (pts j t) (InsertCurve.pt j d) = InsertCurve.pt j (last t d).
Proof.
  rewrite pts_map. revert d. induction t as [|r t IH]; intro d; [reflexivity|].
  destruct t as [|r' t']; [reflexivity|]. change (last (map (InsertCurve.pt j) (r :: r' :: t')) (InsertCurve.pt j d))
    with (last (map (InsertCurve.pt j) (r' :: t')) (InsertCurve.pt j d)).
  change (last (r :: r' :: t') d) with (last (r' :: t') d). apply IH.
Qed.

(* value of the polyline at / above the first row and at / below the last row *)
Lemma pl_above_first j t d y : t <> [] -> rT (hd d t) <= y -> pl (pts j t) y = cv (hcell j (hd d t)).
Proof. destruct t as [|r t]; [congruence|]. intros _ H. simpl hd in *. change (pts j (r :: t)) with (InsertCurve.pt j r :: pts j t). apply pl_above. exact H. Qed.
Lemma pl_below_last j t d y : WF tolv t -> y <= rT (last t d) -> pl (pts j t) y == cv (hcell j (last t d)).
Proof.
  intros W H. pose proof (pl_below (pts j t) y (InsertCurve.pt j d) (WF_sdesc j t W)) as P.
  rewrite last_pts in P. apply P; [|exact H]. destruct W as [Hne _]. destruct t; [congruence|discriminate].
Qed.

(* ------------------------------------------------------------------ histories of calls, row by row *)
Lemma history_pl j t0 reqss : WF tolv t0 -> populated j t0 ->
  WF tolv (fst (run_t tolv t0 reqss)) /\ populated j (fst (run_t tolv t0 reqss))
  /\ forall y, pl (pts j (fst (run_t tolv t0 reqss))) y == pl (pts j t0) y.
Proof.
  intros W P. destruct (history_invariant tolv Htol t0 reqss W) as [W' [_ [Hc _]]].
  destruct (Hc j P) as [P' E]. split; [exact W'|]. split; [exact P'|exact E].
Qed.

(* every row after the history -- old or inserted, inside or outside the old range -- lies exactly on the polyline through
   the ORIGINAL rows *)
Theorem history_row_on_pl j t0 reqss r : WF tolv t0 -> populated j t0 -> In r (fst (run_t tolv t0 reqss)) ->
  exists q, hcell j r = Some q /\ q == pl (pts j t0) (rT r).
Proof.
  intros W P Hr. destruct (history_pl j t0 reqss W P) as [W' [P' E]].
  destruct (P' r Hr) as [q Hq]. exists q. split; [exact Hq|].
  rewrite <- E. rewrite (pl_at_row j _ r W' Hr). rewrite Hq. reflexivity.
Qed.

(* old temperatures survive, so the new first row is at least as hot and the new last row at least as cold *)
Lemma history_T_kept t0 reqss r : WF tolv t0 -> In r t0 -> exists r', In r' (fst (run_t tolv t0 reqss)) /\ rT r' = rT r.
Proof.
  intros W Hr. destruct (history_invariant tolv Htol t0 reqss W) as [_ [_ [_ [_ [Hk _]]]]].
  destruct (Hk r Hr) as [r' [H1 H2]]. exists r'. split; [exact H1|]. unfold core in H2. congruence.
Qed.
Lemma hd_In (A : Type) (l : list A) d : l <> [] -> In (hd d l) l.
Proof. destruct l; [congruence|left; reflexivity]. Qed.
Lemma last_In_ne (A : Type) (l : list A) d : l <> [] -> In (last l d) l.
Proof. intro H. destruct (last_In_or _ l d) as [E|E]; [congruence|exact E]. Qed.

Lemma WF_hd_max t r d : WF tolv t -> In r t -> rT r <= rT (hd d t).
Proof.
  intros W Hr. pose proof (WF_sdesc 0 t W) as D. destruct t as [|r0 t]; [destruct Hr|].
  apply (sdesc_hd_max (InsertCurve.pt 0 r0) (pts 0 t) (InsertCurve.pt 0 r) D). apply (in_pts 0 (r0 :: t) r Hr).
Qed.
Lemma WF_last_min t r d : WF tolv t -> In r t -> rT (last t d) <= rT r.
Proof.
  intros W Hr. pose proof (WF_sdesc 0 t W) as D.
  pose proof (sdesc_last_min (pts 0 t) (InsertCurve.pt 0 r) (InsertCurve.pt 0 d) D (in_pts 0 t r Hr)) as L.
  rewrite last_pts in L. exact L.
Qed.

(* the value found in the FIRST row of the table after any history is the value of the original first row, and the value
   in the LAST row the value of the original last row (for every populated interpolated column) *)
Theorem history_end_values j t0 reqss d : WF tolv t0 -> populated j t0 ->
  let t' := fst (run_t tolv t0 reqss) in
  (exists q, hcell j (hd d t') = Some q /\ q == cv (hcell j (hd d t0)))
  /\ (exists q, hcell j (last t' d) = Some q /\ q == cv (hcell j (last t0 d)))
  /\ rT (hd d t0) <= rT (hd d t') /\ rT (last t' d) <= rT (last t0 d).
Proof.
  intros W P t'. destruct (history_pl j t0 reqss W P) as [W' [P' E]]. fold t' in W', P', E.
  assert (N0 : t0 <> []) by (destruct W; assumption). assert (N' : t' <> []) by (destruct W'; assumption).
  destruct (history_T_kept t0 reqss (hd d t0) W (hd_In _ t0 d N0)) as [ra [Ha1 Ha2]]. fold t' in Ha1.
  destruct (history_T_kept t0 reqss (last t0 d) W (last_In_ne _ t0 d N0)) as [rb [Hb1 Hb2]]. fold t' in Hb1.
  assert (Top : rT (hd d t0) <= rT (hd d t')) by (rewrite <- Ha2; apply WF_hd_max; assumption).
  assert (Bot : rT (last t' d) <= rT (last t0 d)) by (rewrite <- Hb2; apply WF_last_min; assumption).
  split; [|split; [|split; assumption]].
  - destruct (P' (hd d t') (hd_In _ t' d N')) as [q Hq]. exists q. split; [exact Hq|].
    assert (X : cv (hcell j (hd d t')) == cv (hcell j (hd d t0))).
    { rewrite <- (pl_above_first j t' d (rT (hd d t')) N') by lra. rewrite E.
      rewrite (pl_above_first j t0 d (rT (hd d t')) N0) by exact Top. reflexivity. }
    rewrite Hq in X. exact X.
  - destruct (P' (last t' d) (last_In_ne _ t' d N')) as [q Hq]. exists q. split; [exact Hq|].
    assert (X : cv (hcell j (last t' d)) == cv (hcell j (last t0 d))).
    { rewrite <- (pl_below_last j t' d (rT (last t' d)) W') by lra. rewrite E.
      apply (pl_below_last j t0 d); assumption. }
    rewrite Hq in X. exact X.
Qed.

End Tol.
