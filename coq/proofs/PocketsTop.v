(* C07: from the decidable Robust predicate to the hypotheses of the sweep lemmas, and assembly of the whole
   get_GCC_without_pockets: index model = zipper form (up to == on H_net_np). *)
From OP Require Import gen.Consts model.Base model.Pockets proofs.BaseFacts proofs.PocketsPL proofs.PocketsZ
  proofs.PocketsFuel proofs.PocketsSim proofs.PocketsPinch.
From Coq Require Import Lia Lqa.
Local Open Scope Q_scope.

(* ---------- Robust, as propositions about the rows ---------- *)
Definition sepP (tq a b : Q) : Prop := a == b \/ a + tq < b \/ b + tq < a.
Definition AllSep (tq : Q) (l : list row) : Prop := forall x y, In x l -> In y l -> sepP tq (rH x) (rH y).
Lemma AllSep_incl tq l l' : incl l' l -> AllSep tq l -> AllSep tq l'.
Proof. intros Hi H x y Hx Hy. apply H; apply Hi; assumption. Qed.
Lemma AllSep_NWall tq l : AllSep tq l -> NWall tq l.
Proof.
  induction l as [|r rs IH]; intros H; [exact I|]. split.
  - unfold NW. rewrite Forall_forall. intros x Hx. apply (H x r); [right; exact Hx|left; reflexivity].
  - apply IH. eapply AllSep_incl; [|exact H]. intros x Hx. right. exact Hx.
Qed.

Lemma sep_sepP tq a b : sep tq a b = true -> sepP tq a b.
Proof.
  unfold sep. intros H. apply orb_true_iff in H. destruct H as [H|H].
  - left. apply qeqb_true. exact H.
  - apply qltb_true in H. destruct (Qlt_le_dec (a - b) 0) as [Hn|Hn].
    + right. left. rewrite Qabs_neg in H by lra. lra.
    + right. right. rewrite Qabs_pos in H by lra. lra.
Qed.
Lemma sepP_sym tq a b : sepP tq a b -> sepP tq b a.
Proof. unfold sepP. intros [H|[H|H]]; [left; symmetry; exact H|right; right; exact H|right; left; exact H]. Qed.
Lemma levels_ok_sep tq hs : levels_ok tq hs = true -> forall a b, In a hs -> In b hs -> sepP tq a b.
Proof.
  induction hs as [|h r IH]; intros H a b Ha Hb; [destruct Ha|].
  simpl in H. apply andb_true_iff in H. destruct H as [H1 H2]. rewrite forallb_forall in H1.
  destruct Ha as [Ha|Ha]; destruct Hb as [Hb|Hb]; subst.
  - left. reflexivity.
  - apply sep_sepP. apply H1. exact Hb.
  - apply sepP_sym. apply sep_sepP. apply H1. exact Ha.
  - apply IH; assumption.
Qed.

Lemma init_rows_cons a ts h hs : init_rows (a :: ts) (h :: hs) = mkR a h h :: init_rows ts hs.
Proof. reflexivity. Qed.
Lemma init_rows_length Ts Hs : List.length Ts = List.length Hs -> List.length (init_rows Ts Hs) = List.length Ts.
Proof. intros E. unfold init_rows. rewrite map_length, combine_length. lia. Qed.
Lemma init_rows_rH Ts Hs : List.length Ts = List.length Hs -> map rH (init_rows Ts Hs) = Hs.
Proof.
  revert Hs. induction Ts as [|a ts IH]; intros [|h hs] E; simpl in E; try lia; [reflexivity|].
  rewrite init_rows_cons. simpl. f_equal. apply IH. lia.
Qed.
Lemma init_rows_rT Ts Hs : List.length Ts = List.length Hs -> map rT (init_rows Ts Hs) = Ts.
Proof.
  revert Hs. induction Ts as [|a ts IH]; intros [|h hs] E; simpl in E; try lia; [reflexivity|].
  rewrite init_rows_cons. simpl. f_equal. apply IH. lia.
Qed.
Lemma init_rows_ptH Ts Hs : map ptH (init_rows Ts Hs) = combine Ts Hs.
Proof.
  unfold init_rows. rewrite map_map. rewrite <- (map_id (combine Ts Hs)) at 2. apply map_ext. intros [a b]. reflexivity.
Qed.
Lemma init_rows_np Ts Hs : Forall (fun r => rNP r = rH r) (init_rows Ts Hs).
Proof. unfold init_rows. rewrite Forall_map. rewrite Forall_forall. intros x _. reflexivity. Qed.
Lemma init_rows_in_H Ts Hs r : In r (init_rows Ts Hs) -> In (rH r) Hs.
Proof.
  unfold init_rows. intros H. apply in_map_iff in H. destruct H as [[a b] [E Hin]]. subst r. simpl.
  eapply in_combine_r. exact Hin.
Qed.

Lemma desc_gap_mono tq : forall Ts Hs, List.length Ts = List.length Hs -> desc_gap tq Ts = true -> mono true tq (combine Ts Hs).
Proof.
  induction Ts as [|a ts IH]; intros [|h hs] E H; simpl in E; try lia; [exact I|].
  destruct ts as [|b ts]; destruct hs as [|h2 hs]; simpl in E; try lia; [exact I|].
  change (desc_gap tq (a :: b :: ts)) with (qltb tq (a - b) && desc_gap tq (b :: ts)) in H.
  apply andb_true_iff in H. destruct H as [H1 H2]. apply qltb_true in H1.
  change (combine (a :: b :: ts) (h :: h2 :: hs)) with ((a, h) :: (b, h2) :: combine ts hs).
  split; [exact H1|]. apply (IH (h2 :: hs)); [simpl; lia|exact H2].
Qed.

(* crossings, in table order *)
Fixpoint CrossTab (tq : Q) (Ls : list Q) (rows : list row) : Prop :=
  match rows with
  | a :: ((b :: _) as t) => Forall (fun L => CrossW true tq L a b /\ CrossW false tq L b a) Ls /\ CrossTab tq Ls t
  | _ => True
  end.
Lemma crossings_ok_tab tq Ls : forall Ts Hs, crossings_ok tq Ls (combine Ts Hs) = true -> CrossTab tq Ls (init_rows Ts Hs).
Proof.
  induction Ts as [|a ts IH]; intros [|h hs] H; try exact I.
  destruct ts as [|b ts]; destruct hs as [|h2 hs]; try exact I.
  change (combine (a :: b :: ts) (h :: h2 :: hs)) with ((a, h) :: (b, h2) :: combine ts hs) in H.
  change (crossings_ok tq Ls ((a, h) :: (b, h2) :: combine ts hs))
    with (forallb (fun L => cross_ok tq L (a, h) (b, h2)) Ls && crossings_ok tq Ls ((b, h2) :: combine ts hs)) in H.
  apply andb_true_iff in H. destruct H as [H1 H2].
  rewrite !init_rows_cons. split.
  - rewrite forallb_forall in H1. rewrite Forall_forall. intros L HL. specialize (H1 L HL).
    unfold cross_ok in H1. cbn [fst snd] in H1. apply andb_true_iff in H1. destruct H1 as [C1 C2].
    split; unfold CrossW; cbn [rT rH]; intros A1 A2.
    + assert (E : qltb h2 L && qltb L h = true) by (apply andb_true_iff; split; apply qltb_true; assumption).
      rewrite E in C1. apply andb_true_iff in C1. destruct C1 as [D1 D2]. apply qltb_true in D1, D2. split; assumption.
    + assert (E : qltb h L && qltb L h2 = true) by (apply andb_true_iff; split; apply qltb_true; assumption).
      rewrite E in C2. apply andb_true_iff in C2. destruct C2 as [D1 D2]. apply qltb_true in D1, D2. split; assumption.
  - rewrite <- init_rows_cons. apply (IH (h2 :: hs)). exact H2.
Qed.
Lemma CrossTab_tail tq Ls a l : CrossTab tq Ls (a :: l) -> CrossTab tq Ls l.
Proof. destruct l as [|b l]; simpl; [auto|]. intros [_ H]; exact H. Qed.
Lemma CrossTab_app_r tq Ls l1 l2 : CrossTab tq Ls (l1 ++ l2) -> CrossTab tq Ls l2.
Proof. induction l1 as [|a l1 IH]; [auto|]. intros H. apply IH. eapply CrossTab_tail. exact H. Qed.
Lemma CrossTab_app_l tq Ls l1 l2 : CrossTab tq Ls (l1 ++ l2) -> CrossTab tq Ls l1.
Proof.
  induction l1 as [|a l1 IH]; [simpl; auto|]. intros H.
  destruct l1 as [|b l1]; [exact I|]. destruct H as [G H]. split; [exact G|]. apply IH. exact H.
Qed.
Lemma CrossTab_true tq Ls l : CrossTab tq Ls l -> CrossAll true tq Ls l.
Proof.
  induction l as [|a l IH]; [auto|]. destruct l as [|b l]; [auto|]. intros [G H]. split; [|apply IH; exact H].
  eapply Forall_impl; [|exact G]. intros L [H1 _]. exact H1.
Qed.
Lemma CrossAll_snoc d tq Ls l x y : CrossAll d tq Ls (l ++ [x]) -> Forall (fun L => CrossW d tq L x y) Ls -> CrossAll d tq Ls (l ++ [x; y]).
Proof.
  induction l as [|a l IH]; intros H1 H2.
  - simpl. split; [exact H2|exact I].
  - destruct l as [|b l].
    + simpl in *. destruct H1 as [G _]. split; [exact G|]. split; [exact H2|exact I].
    + change (CrossAll d tq Ls (a :: b :: l ++ [x; y])). destruct H1 as [G H1]. split; [exact G|]. apply IH; assumption.
Qed.
Lemma CrossTab_rev_false tq Ls l : CrossTab tq Ls l -> CrossAll false tq Ls (rev l).
Proof.
  induction l as [|a l IH]; intros H; [exact I|].
  destruct l as [|b l]; [exact I|]. destruct H as [G H].
  change (rev (a :: b :: l)) with ((rev l ++ [b]) ++ [a]). rewrite <- app_assoc. simpl app.
  apply CrossAll_snoc.
  - apply IH. exact H.
  - eapply Forall_impl; [|exact G]. intros L [_ H2]. exact H2.
Qed.

(* everything the sweeps need, for a table of initial rows *)
Record RobustP (tq : Q) (Ls : list Q) (t : list row) : Prop := {
  rp_desc : Tdesc tq t;
  rp_np : Forall (fun r => rNP r = rH r) t;
  rp_sep : AllSep tq t;
  rp_zero : Forall (fun r => rH r == 0 \/ tq < rH r) t;
  rp_cross : CrossTab tq Ls t;
  rp_lv : Forall (fun r => In (rH r) Ls) t
}.
Lemma robust_b_P tq Ts Hs : robust_b tq Ts Hs = true ->
  List.length Ts = List.length Hs /\ (0 < List.length Ts)%nat /\ RobustP tq Hs (init_rows Ts Hs).
Proof.
  unfold robust_b. intros H. repeat (apply andb_true_iff in H; destruct H as [H ?]).
  apply Nat.eqb_eq in H. apply Nat.ltb_lt in H4.
  split; [exact H|]. split; [exact H4|]. constructor.
  - unfold Tdesc. rewrite init_rows_ptH. apply desc_gap_mono; assumption.
  - apply init_rows_np.
  - intros x y Hx Hy. apply (levels_ok_sep tq Hs H1); apply (init_rows_in_H Ts); assumption.
  - rewrite Forall_forall. intros r Hr. apply init_rows_in_H in Hr. unfold zeros_ok in H2. rewrite forallb_forall in H2.
    specialize (H2 _ Hr). apply orb_true_iff in H2. destruct H2 as [E|E]; [left; apply qeqb_true; exact E|right; apply qltb_true; exact E].
  - apply crossings_ok_tab. assumption.
  - rewrite Forall_forall. intros r Hr. eapply init_rows_in_H. exact Hr.
Qed.

(* sub-tables *)
Lemma RobustP_app_l tq Ls l1 l2 : RobustP tq Ls (l1 ++ l2) -> RobustP tq Ls l1.
Proof.
  intros [A B C D E F]. constructor.
  - unfold Tdesc in *. rewrite map_app in A. eapply mono_app_l. exact A.
  - apply Forall_app in B. apply B.
  - eapply AllSep_incl; [|exact C]. apply incl_appl, incl_refl.
  - apply Forall_app in D. apply D.
  - eapply CrossTab_app_l. exact E.
  - apply Forall_app in F. apply F.
Qed.
Lemma RobustP_app_r tq Ls l1 l2 : RobustP tq Ls (l1 ++ l2) -> RobustP tq Ls l2.
Proof.
  intros [A B C D E F]. constructor.
  - unfold Tdesc in *. rewrite map_app in A. eapply mono_app_r. exact A.
  - apply Forall_app in B. apply B.
  - eapply AllSep_incl; [|exact C]. apply incl_appr, incl_refl.
  - apply Forall_app in D. apply D.
  - eapply CrossTab_app_r. exact E.
  - apply Forall_app in F. apply F.
Qed.

Lemma Forall_eq_Qeq (l : list row) : Forall (fun r => rNP r = rH r) l -> NPH l.
Proof. unfold NPH. apply Forall_impl. intros r E. rewrite E. reflexivity. Qed.

(* a side above the pinch, in sweep order = table order *)
Lemma SidePre_up tq Ls c0 mu : RobustP tq Ls (c0 :: mu) -> SidePre true tq Ls c0 mu.
Proof.
  intros [A B C D E F]. inversion B as [|? ? B1 B2]; subst.
  split; [rewrite B1; reflexivity|]. split; [apply Forall_eq_Qeq; exact B2|]. split; [apply AllSep_NWall; exact C|].
  split; [exact A|]. split; [apply CrossTab_true; exact E|exact F].
Qed.
(* a side below the pinch: sweep order = reversed table order *)
Lemma SidePre_dn tq Ls below cl md : RobustP tq Ls below -> rev below = cl :: md -> SidePre false tq Ls cl md.
Proof.
  intros [A B C D E F] Er.
  assert (Hincl : incl (cl :: md) below) by (rewrite <- Er; intros x Hx; apply in_rev; exact Hx).
  assert (B' : Forall (fun r => rNP r = rH r) (cl :: md)).
  { rewrite Forall_forall in *. intros x Hx. apply B. apply Hincl. exact Hx. }
  inversion B' as [|? ? B1 B2]; subst.
  split; [rewrite B1; reflexivity|]. split; [apply Forall_eq_Qeq; exact B2|]. split; [apply AllSep_NWall; eapply AllSep_incl; eassumption|].
  split; [|split].
  - rewrite <- Er. rewrite map_rev. apply (mono_rev true). exact A.
  - rewrite <- Er. apply CrossTab_rev_false. exact E.
  - rewrite Forall_forall in *. intros x Hx. apply F. apply Hincl. exact Hx.
Qed.

(* ---------- a pocket never reaches the pinch: the last row of a swept side is left as it is ---------- *)
Lemma last_cons_ne {A} (a : A) l d : l <> [] -> last (a :: l) d = last l d.
Proof. destruct l; [congruence|reflexivity]. Qed.
Lemma zsweep_nil tq mk f cur : zsweep tq mk f cur [] = [].
Proof. destruct f; reflexivity. Qed.
Lemma zsweep_nonempty tq mk f cur rest : (List.length rest <= f)%nat -> rest <> [] -> zsweep tq mk f cur rest <> [].
Proof.
  intros Hl Hne. destruct rest as [|x rs]; [congruence|]. destruct f as [|f']; [simpl in Hl; lia|].
  rewrite zsweep_S. destruct (qltb (rH cur) (rH x - tq)); [|discriminate].
  destruct (zpocket tq mk (rH cur) cur (x :: rs)) as [o2 k2] eqn:Ez2.
  destruct (zpocket_split tq mk _ _ _ _ _ Ez2) as [[J1 [J2 J3]]|[m2 [r2 [rs2 [J1 [J2 [J3 [J4 J5]]]]]]]]; subst k2 o2; [discriminate|].
  destruct (flat (rH cur) m2 ++ bp_ins tq mk (rH cur) (last m2 cur) r2); discriminate.
Qed.
Lemma zsweep_last_row tq mk : forall fuel cur mid, (List.length mid <= fuel)%nat -> PinchLow tq cur mid -> mid <> [] ->
  last (zsweep tq mk fuel cur mid) cur = last mid cur.
Proof.
  induction fuel as [|f IH]; intros cur mid Hl Hpl Hne.
  - destruct mid; [congruence|simpl in Hl; lia].
  - destruct mid as [|r rs]; [congruence|]. simpl in Hl. rewrite zsweep_S.
    destruct (qltb (rH cur) (rH r - tq)) eqn:Ep.
    + destruct (zpocket tq mk (rH cur) cur (r :: rs)) as [out k] eqn:Ez.
      destruct (zpocket_split tq mk _ _ _ _ _ Ez) as [[K1 [K2 K3]]|[m1 [r' [rs' [K1 [K2 [K3 [K4 K5]]]]]]]]; subst k out.
      * exfalso. unfold PinchLow in Hpl. inversion Hpl as [|? ? Hc _]; subst.
        assert (Hin : In (last (r :: rs) cur) (r :: rs)) by (apply last_in; discriminate).
        rewrite Forall_forall in K3. specialize (K3 _ Hin). cbv beta in K3. lra.
      * rewrite K2. rewrite (last_app_ne _ (r' :: zsweep tq mk f r' rs') cur cur) by discriminate.
        rewrite (last_app_ne m1 (r' :: rs') cur cur) by discriminate.
        destruct rs' as [|x rs'].
        -- rewrite zsweep_nil. reflexivity.
        -- assert (Hlen : List.length (r :: rs) = List.length (m1 ++ r' :: x :: rs')) by (rewrite K2; reflexivity).
           rewrite app_length in Hlen. simpl in Hlen.
           assert (Hz : zsweep tq mk f r' (x :: rs') <> []) by (apply zsweep_nonempty; [simpl; lia|discriminate]).
           rewrite (last_cons_ne r' _ cur Hz). rewrite (last_cons_ne r' (x :: rs') cur) by discriminate.
           rewrite (last_dflt _ cur r' Hz). rewrite (last_dflt (x :: rs') cur r') by discriminate.
           apply IH; [simpl; lia| |discriminate].
           eapply PinchLow_suffix; [exact Hpl|exact K2].
    + destruct rs as [|x rs].
      * rewrite zsweep_nil. reflexivity.
      * assert (Hz : zsweep tq mk f r (x :: rs) <> []) by (apply zsweep_nonempty; [simpl in *; lia|discriminate]).
        rewrite (last_cons_ne r _ cur Hz). rewrite (last_cons_ne r (x :: rs) cur) by discriminate.
        rewrite (last_dflt _ cur r Hz). rewrite (last_dflt (x :: rs) cur r) by discriminate.
        apply IH; [simpl in *; lia| |discriminate].
        eapply (PinchLow_suffix tq cur (r :: x :: rs) [] r (x :: rs)); [exact Hpl|reflexivity].
Qed.

(* ---------- list helpers ---------- *)
Lemma Forall_firstn_nth {A} (P : A -> Prop) (l : list A) k d :
  (forall j, (j < k)%nat -> (j < List.length l)%nat -> P (nth j l d)) -> Forall P (firstn k l).
Proof.
  revert k. induction l as [|x l IH]; intros k H; [rewrite firstn_nil; constructor|].
  destruct k as [|k]; [constructor|]. simpl. constructor.
  - apply (H 0%nat); simpl; lia.
  - apply IH. intros j H1 H2. apply (H (S j)); simpl; lia.
Qed.
Lemma Forall_skipn_nth {A} (P : A -> Prop) (l : list A) k d :
  (forall j, (k <= j)%nat -> (j < List.length l)%nat -> P (nth j l d)) -> Forall P (skipn k l).
Proof.
  revert k. induction l as [|x l IH]; intros k H; [rewrite skipn_nil; constructor|].
  destruct k as [|k].
  - simpl. constructor.
    + apply (H 0%nat); simpl; lia.
    + apply (IH 0%nat). intros j H1 H2. apply (H (S j)); simpl; lia.
  - simpl. apply IH. intros j H1 H2. apply (H (S j)); simpl; lia.
Qed.
Lemma skipn_nth_cons {A} (l : list A) k d : (k < List.length l)%nat -> skipn k l = nth k l d :: skipn (S k) l.
Proof.
  revert k. induction l as [|x l IH]; intros k H; simpl in H; [lia|].
  destruct k as [|k]; [reflexivity|]. simpl. apply IH. lia.
Qed.
Lemma skipn_skipn' {A} (l : list A) a b : skipn a (skipn b l) = skipn (b + a) l.
Proof.
  revert l. induction b as [|b IH]; intros l; [reflexivity|]. destruct l as [|x l]; [rewrite !skipn_nil; reflexivity|].
  simpl. apply IH.
Qed.
Lemma nth_map_rH (t : list row) j : nth j (map rH t) 0 = rH (nth j t r0).
Proof. change 0 with (rH r0). apply map_nth. Qed.

Lemma last_nth_len {A} (l : list A) d : l <> [] -> last l d = nth (List.length l - 1) l d.
Proof.
  induction l as [|x l IH]; intros H; [congruence|]. destruct l as [|y l]; [reflexivity|].
  rewrite last_cons2. rewrite IH by discriminate. simpl. rewrite Nat.sub_0_r. reflexivity.
Qed.
Lemma PinchLow_of tq cur mid X pc : cur :: mid = X ++ [pc] -> Forall (fun r => rH pc + tq <= rH r) X -> PinchLow tq cur mid.
Proof.
  intros E H. destruct X as [|x X'].
  - simpl in E. inversion E; subst. exact I.
  - simpl in E. inversion E; subst. unfold PinchLow. destruct (X' ++ [pc]) eqn:E2; [exact I|]. rewrite <- E2.
    rewrite last_last, removelast_last. exact H.
Qed.

Section Assemble.
Variable tq : Q.
Hypothesis Ht : 0 < tq.

Lemma zero_cases h : (h == 0 \/ tq < h) -> (qltb h tq = true <-> h == 0) /\ (isz tq h = true <-> h == 0).
Proof.
  intros [E|E]; unfold isz; split; split; intros H.
  - exact E. - apply qltb_true. lra. - exact E.
  - apply qltb_true. rewrite E. simpl. exact Ht.
  - apply qltb_true in H. lra. - lra.
  - apply qltb_true in H. rewrite Qabs_pos in H by lra. lra. - lra.
Qed.

Lemma zside_last mk c0 mu : (qltb (rH c0) tq = false -> PinchLow tq c0 mu) ->
  exists X, zside tq mk (c0 :: mu) = X ++ [last (c0 :: mu) c0] /\ List.length (zside tq mk (c0 :: mu)) = S (List.length X).
Proof.
  intros H. unfold zside. destruct (qltb (rH c0) tq) eqn:E.
  - exists (removelast (c0 :: mu)). split; [apply app_removelast_last; discriminate|].
    rewrite (app_removelast_last c0 (l := c0 :: mu)) at 1 by discriminate. rewrite app_length. simpl. lia.
  - destruct mu as [|x mu].
    + exists []. rewrite zsweep_nil. split; reflexivity.
    + set (Z := zsweep tq mk (List.length (x :: mu)) c0 (x :: mu)).
      assert (Hz : Z <> []) by (apply zsweep_nonempty; [lia|discriminate]).
      assert (Hl : last Z c0 = last (x :: mu) c0) by (apply zsweep_last_row; [lia|apply H; reflexivity|discriminate]).
      exists (c0 :: removelast Z). rewrite last_cons2. rewrite <- Hl. split.
      * simpl. f_equal. apply app_removelast_last. exact Hz.
      * rewrite (app_removelast_last c0 Hz) at 1. simpl. rewrite app_length. simpl. lia.
Qed.

Lemma run_up Ls c0 mu tail cp : Tdesc tq ((c0 :: mu) ++ tail) -> (qltb (rH c0) tq = false -> SidePre true tq Ls c0 mu) ->
  exists k, remove_up tq ((c0 :: mu) ++ tail) (List.length mu) cp
            = Ok (zside tq (mk_up tq) (c0 :: mu) ++ tail, (List.length mu + k)%nat, (cp + k)%nat)
         /\ List.length (zside tq (mk_up tq) (c0 :: mu)) = (S (List.length mu) + k)%nat
         /\ Tdesc tq (zside tq (mk_up tq) (c0 :: mu) ++ tail).
Proof.
  intros Htd Hpre. unfold remove_up, zside. change (Hat ((c0 :: mu) ++ tail) 0) with (rH c0).
  destruct (qltb (rH c0) tq) eqn:E.
  - exists 0%nat. rewrite !Nat.add_0_r. split; [reflexivity|]. split; [simpl; lia|exact Htd].
  - destruct (sim_up tq Ht Ls (List.length mu) mu (le_n _) (S (List.length mu)) [] c0 tail (List.length mu) cp ltac:(lia) (Hpre eq_refl) Htd)
      as [k [Ek [Lk Tk]]].
    exists k. split; [exact Ek|]. split; [simpl; rewrite Lk; lia|exact Tk].
Qed.

Lemma run_dn Ls pre below cl md hp : rev below = cl :: md -> Tdesc tq (pre ++ below) ->
  (qltb (rH cl) tq = false -> SidePre false tq Ls cl md /\ PinchLow tq cl md) ->
  exists t3, remove_dn tq (pre ++ below) hp (List.length pre) = Ok (t3, hp, List.length pre)
          /\ rows_eqv t3 (pre ++ rev (zside tq (mk_dn tq) (rev below))) /\ Tdesc tq t3.
Proof.
  intros Er Htd Hpre.
  assert (Eb : below = rev md ++ [cl]) by (rewrite <- (rev_involutive below), Er; reflexivity).
  unfold remove_dn. rewrite Er. unfold zside.
  assert (Elen : (List.length (pre ++ below) - 1 = List.length pre + List.length md)%nat).
  { rewrite Eb, !app_length, rev_length. simpl. lia. }
  rewrite Elen.
  assert (Hh : Hat (pre ++ below) (List.length pre + List.length md) = rH cl).
  { rewrite Eb. replace (pre ++ rev md ++ [cl]) with ((pre ++ rev md) ++ cl :: []) by list_eq.
    apply Hat_mid'. rewrite app_length, rev_length. reflexivity. }
  rewrite Hh.
  destruct (qltb (rH cl) tq) eqn:E.
  - eexists. split; [reflexivity|]. split; [rewrite <- Er, rev_involutive; apply rows_eqv_refl|exact Htd].
  - destruct (Hpre eq_refl) as [P1 P2].
    replace (List.length pre + List.length md - List.length pre)%nat with (List.length md) by lia.
    destruct (sim_dn tq Ht Ls (List.length md) md (le_n _) (S (List.length md)) pre cl [] hp (List.length pre) ltac:(lia) P1 P2) as [t3 [E3 [L3 T3]]].
    { rewrite <- Eb. exact Htd. }
    rewrite Eb. rewrite E3. exists t3. split; [reflexivity|]. split; [|exact T3].
    replace (pre ++ rev (cl :: zsweep tq (mk_dn tq) (List.length md) cl md)) with (pre ++ rev (zsweep tq (mk_dn tq) (List.length md) cl md) ++ [cl]) by reflexivity.
    exact L3.
Qed.
End Assemble.

Section Main.
Variable tq : Q.
Hypothesis Ht : 0 < tq.

(* sides of a table of initial rows around its pinch rows *)
Lemma side_up_pre Ls t0 hp cp : RobustP tq Ls t0 -> PinchFacts tq (map rH t0) hp cp ->
  forall c0 mu, firstn (S hp) t0 = c0 :: mu ->
  (qltb (rH c0) tq = false -> SidePre true tq Ls c0 mu /\ PinchLow tq c0 mu).
Proof.
  intros R PF c0 mu E Hq.
  assert (Hn : (hp < List.length t0)%nat) by (destruct PF; rewrite map_length in *; lia).
  assert (Rab : RobustP tq Ls (c0 :: mu)) by (rewrite <- E; apply (RobustP_app_l tq Ls _ (skipn (S hp) t0)); rewrite firstn_skipn; exact R).
  split; [apply SidePre_up; exact Rab|].
  rewrite (firstn_S_snoc t0 hp r0 Hn) in E.
  apply (PinchLow_of tq c0 mu (firstn hp t0) (nth hp t0 r0)); [symmetry; exact E|].
  (* c0 = row 0 is not zero, hence every row before hp is > tq and row hp is zero *)
  assert (Hc0 : c0 = nth 0 t0 r0).
  { destruct t0 as [|x t0']; [simpl in Hn; lia|]. destruct hp; simpl in E; inversion E; reflexivity. }
  pose proof (rp_zero tq Ls t0 R) as Hz. rewrite Forall_forall in Hz.
  assert (Hnz : forall j, (j < List.length t0)%nat -> (rH (nth j t0 r0) == 0 \/ tq < rH (nth j t0 r0))) by (intros j Hj; apply Hz; apply nth_In; exact Hj).
  assert (H0 : isz tq (nth 0 (map rH t0) 0) = false).
  { rewrite nth_map_rH, <- Hc0. destruct (isz tq (rH c0)) eqn:Ei; [|reflexivity].
    destruct (zero_cases tq Ht (rH c0)) as [Z1 Z2]; [rewrite Hc0; apply Hnz; lia|].
    apply Z2 in Ei. apply Z1 in Ei. congruence. }
  assert (Hp : rH (nth hp t0 r0) == 0).
  { pose proof (pf_hp _ _ _ _ PF) as Hi. rewrite nth_map_rH in Hi. apply (zero_cases tq Ht _ (Hnz hp Hn)). exact Hi. }
  apply (Forall_firstn_nth _ t0 hp r0). intros j Hj Hjl.
  pose proof (pf_above _ _ _ _ PF H0 j Hj) as Hi. rewrite nth_map_rH in Hi.
  destruct (Hnz j Hjl) as [Ez|Ez]; [|lra].
  apply (zero_cases tq Ht _ (Hnz j Hjl)) in Ez. congruence.
Qed.

Lemma side_dn_pre Ls t0 hp cp : RobustP tq Ls t0 -> PinchFacts tq (map rH t0) hp cp ->
  forall cl md, rev (skipn cp t0) = cl :: md ->
  (qltb (rH cl) tq = false -> SidePre false tq Ls cl md /\ PinchLow tq cl md).
Proof.
  intros R PF cl md E Hq.
  assert (Hn : (cp < List.length t0)%nat) by (destruct PF; rewrite map_length in *; lia).
  assert (Rb : RobustP tq Ls (skipn cp t0)) by (apply (RobustP_app_r tq Ls (firstn cp t0)); rewrite firstn_skipn; exact R).
  split; [eapply SidePre_dn; [exact Rb|exact E]|].
  rewrite (skipn_nth_cons t0 cp r0 Hn) in E. cbn [rev] in E.
  apply (PinchLow_of tq cl md (rev (skipn (S cp) t0)) (nth cp t0 r0)); [symmetry; exact E|].
  pose proof (rp_zero tq Ls t0 R) as Hz. rewrite Forall_forall in Hz.
  assert (Hnz : forall j, (j < List.length t0)%nat -> (rH (nth j t0 r0) == 0 \/ tq < rH (nth j t0 r0))) by (intros j Hj; apply Hz; apply nth_In; exact Hj).
  (* cl = last row *)
  assert (Hcl : cl = nth (List.length t0 - 1) t0 r0).
  { assert (Hsk : skipn cp t0 <> []) by (rewrite (skipn_nth_cons t0 cp r0 Hn); discriminate).
    assert (E2 : last (skipn cp t0) r0 = cl).
    { rewrite (skipn_nth_cons t0 cp r0 Hn). rewrite <- (rev_involutive (nth cp t0 r0 :: skipn (S cp) t0)). cbn [rev]. rewrite E. cbn [rev]. apply last_last. }
    rewrite <- E2. rewrite <- (last_nth_len t0 r0) by (intro Z; subst; simpl in Hn; lia).
    rewrite <- (firstn_skipn cp t0) at 2. symmetry. apply last_app_ne. exact Hsk. }
  assert (Hl : isz tq (nth (List.length (map rH t0) - 1) (map rH t0) 0) = false).
  { rewrite map_length, nth_map_rH, <- Hcl. destruct (isz tq (rH cl)) eqn:Ei; [|reflexivity].
    destruct (zero_cases tq Ht (rH cl)) as [Z1 Z2]; [rewrite Hcl; apply Hnz; lia|].
    apply Z2 in Ei. apply Z1 in Ei. congruence. }
  assert (Hp : rH (nth cp t0 r0) == 0).
  { pose proof (pf_cp _ _ _ _ PF) as Hi. rewrite nth_map_rH in Hi. apply (zero_cases tq Ht _ (Hnz cp Hn)). exact Hi. }
  apply Forall_rev. apply (Forall_skipn_nth _ t0 (S cp) r0). intros j Hj Hjl.
  pose proof (pf_below _ _ _ _ PF Hl j) as Hi. rewrite map_length in Hi. specialize (Hi ltac:(lia)). rewrite nth_map_rH in Hi.
  destruct (Hnz j Hjl) as [Ez|Ez]; [|lra].
  apply (zero_cases tq Ht _ (Hnz j Hjl)) in Ez. congruence.
Qed.
End Main.

Section Main2.
Variable tq : Q.
Hypothesis Ht : 0 < tq.

Lemma bind_ok {A B} (r : result A) (f : A -> result B) a : r = Ok a -> bind r f = f a.
Proof. intros ->. reflexivity. Qed.

(* THE CODE'S SWEEP = THE ZIPPER FORM, on every Robust curve that has a pinch *)
Theorem gcc_np_zipper Ts Hs : robust_b tq Ts Hs = true -> has_pinch tq Hs = true ->
  exists out, gcc_np tq Ts Hs = Ok out /\ rows_eqv out (gcc_np_z tq Ts Hs) /\ Tdesc tq (gcc_np_z tq Ts Hs).
Proof.
  intros Hrob Hhas. destruct (robust_b_P tq Ts Hs Hrob) as [Hlen [Hpos R]].
  unfold gcc_np, gcc_np_z. set (t0 := init_rows Ts Hs) in *.
  assert (Hl0 : List.length t0 = List.length Ts) by (apply init_rows_length; exact Hlen).
  assert (EH : map rH t0 = Hs) by (apply init_rows_rH; exact Hlen).
  destruct t0 as [|x0 t0'] eqn:Et0; [simpl in Hl0; lia|]. rewrite <- Et0 in *. clear x0 t0' Et0.
  destruct (pinch_idx tq (map rH t0)) as [[hp cp] valid] eqn:Epi.
  destruct valid; cbn [negb]; [|eexists; split; [reflexivity|split; [apply rows_eqv_refl|apply (rp_desc tq Hs t0 R)]]].
  assert (PF : PinchFacts tq (map rH t0) hp cp) by (apply pinch_idx_facts; [rewrite EH; exact Hhas|exact Epi]).
  pose proof (pf_le _ _ _ _ PF) as Hle. pose proof (pf_lt _ _ _ _ PF) as Hlt. rewrite map_length in Hlt.
  set (above := firstn (S hp) t0). set (midr := firstn (cp - S hp) (skipn (S hp) t0)). set (below := skipn cp t0).
  assert (Habove : exists c0 mu, above = c0 :: mu /\ List.length mu = hp).
  { unfold above. destruct t0 as [|x t0']; [simpl in Hlt; lia|]. exists x, (firstn hp t0'). split; [reflexivity|].
    rewrite firstn_length. simpl in Hlt. lia. }
  destruct Habove as [c0 [mu [Eab Lmu]]].
  assert (Hbelow : exists cl md, rev below = cl :: md).
  { unfold below. rewrite (skipn_nth_cons t0 cp r0 Hlt). cbn [rev].
    destruct (rev (skipn (S cp) t0)) as [|y l]; [exists (nth cp t0 r0), []; reflexivity|exists y, (l ++ [nth cp t0 r0]); reflexivity]. }
  destruct Hbelow as [cl [md Ebl]].
  pose proof (side_up_pre tq Ht Hs t0 hp cp R PF c0 mu Eab) as Hup.
  pose proof (side_dn_pre tq Ht Hs t0 hp cp R PF cl md Ebl) as Hdn.
  assert (Hzl : exists X, zside tq (mk_up tq) above = X ++ [nth hp t0 r0] /\ List.length (zside tq (mk_up tq) above) = S (List.length X)).
  { rewrite Eab. destruct (zside_last tq (mk_up tq) c0 mu (fun H => proj2 (Hup H))) as [X [E1 E2]]. exists X. split; [|exact E2].
    rewrite E1. f_equal. f_equal. rewrite <- Eab. unfold above. rewrite (firstn_S_snoc t0 hp r0) by lia. apply last_last. }
  destruct (Nat.eq_dec hp cp) as [Ehc|Ehc].
  - (* hot and cold pinch on one row *)
    subst cp.
    assert (Emid : midr = []) by (unfold midr; replace (hp - S hp)%nat with 0%nat by lia; reflexivity).
    assert (E1 : (hp + 1 <? hp)%nat = false) by (apply Nat.ltb_ge; lia). rewrite E1.
    assert (E2 : (hp <? hp)%nat = false) by (apply Nat.ltb_irrefl). rewrite E2. rewrite Emid. cbn [map app].
    set (bl' := skipn (S hp) t0).
    assert (Eb : below = nth hp t0 r0 :: bl') by (unfold below, bl'; apply skipn_nth_cons; exact Hlt).
    assert (E0 : t0 = above ++ bl') by (unfold above, bl'; symmetry; apply firstn_skipn).
    destruct (run_up tq Ht Hs c0 mu bl' hp) as [k [Ek [Lk Tk]]].
    { rewrite <- Eab, <- E0. apply (rp_desc tq Hs t0 R). }
    { intros H. apply (Hup H). }
    rewrite Lmu in Ek. rewrite <- Eab in Ek, Lk, Tk. rewrite <- E0 in Ek.
    rewrite (bind_ok _ _ _ Ek). cbv beta iota.
    destruct Hzl as [X [EX LX]].
    assert (Et2 : zside tq (mk_up tq) above ++ bl' = X ++ below) by (rewrite EX, Eb; list_eq).
    destruct (run_dn tq Ht Hs X below cl md (hp + k)%nat Ebl) as [t3 [E3 [L3 T3]]].
    { rewrite <- Et2. exact Tk. }
    { exact Hdn. }
    assert (EXl : List.length X = (hp + k)%nat) by (rewrite Lmu in Lk; lia).
    rewrite Et2. rewrite EXl in E3. rewrite (bind_ok _ _ _ E3). cbv beta iota.
    exists t3. split; [reflexivity|].
    cut (rows_eqv t3 (zside tq (mk_up tq) above ++ List.tl (rev (zside tq (mk_dn tq) (rev below))))); [intros HH; split; [exact HH|eapply rows_eqv_Tdesc; eassumption]|].
    (* the cold sweep starts (in table order) with the same pinch row *)
    assert (Hd : exists rest, rev (zside tq (mk_dn tq) (rev below)) = nth hp t0 r0 :: rest).
    { rewrite Ebl. destruct (zside_last tq (mk_dn tq) cl md (fun H => proj2 (Hdn H))) as [Y [F1 F2]].
      rewrite F1. rewrite rev_app_distr. cbn [rev app]. eexists. f_equal.
      rewrite <- Ebl. rewrite Eb. cbn [rev]. apply last_last. }
    destruct Hd as [rest Erest]. rewrite Erest in *. cbn [List.tl]. rewrite EX.
    replace ((X ++ [nth hp t0 r0]) ++ rest) with (X ++ nth hp t0 r0 :: rest) by list_eq. exact L3.
  - (* two pinch rows, possibly with rows between them *)
    assert (Hlt2 : (hp < cp)%nat) by lia.
    assert (E2 : (hp <? cp)%nat = true) by (apply Nat.ltb_lt; exact Hlt2). rewrite E2.
    assert (E0 : t0 = above ++ midr ++ below).
    { unfold above, midr, below. rewrite <- (firstn_skipn (S hp) t0) at 1. f_equal.
      rewrite <- (firstn_skipn (cp - S hp) (skipn (S hp) t0)) at 1. f_equal.
      rewrite skipn_skipn'. f_equal. lia. }
    assert (Lab : List.length above = S hp) by (unfold above; rewrite firstn_length; lia).
    assert (Lmid : List.length midr = (cp - S hp)%nat) by (unfold midr; rewrite firstn_length, skipn_length; lia).
    assert (Et1 : (if (hp + 1 <? cp)%nat then set_np t0 (hp + 1) cp 0 else t0) = above ++ flat 0 midr ++ below).
    { destruct (hp + 1 <? cp)%nat eqn:E1.
      - rewrite E0 at 1. apply set_np_block; lia.
      - apply Nat.ltb_ge in E1. assert (Em : midr = []) by (apply length_zero_iff_nil; lia). rewrite Em. rewrite E0 at 1. rewrite Em. reflexivity. }
    rewrite Et1.
    destruct (run_up tq Ht Hs c0 mu (flat 0 midr ++ below) cp) as [k [Ek [Lk Tk]]].
    { rewrite <- Eab. apply Tdesc_flat. rewrite <- E0. apply (rp_desc tq Hs t0 R). }
    { intros H. apply (Hup H). }
    rewrite Lmu in Ek. rewrite <- Eab in Ek, Lk, Tk.
    rewrite (bind_ok _ _ _ Ek). cbv beta iota.
    set (zu := zside tq (mk_up tq) above) in *.
    assert (Et2 : zu ++ flat 0 midr ++ below = (zu ++ flat 0 midr) ++ below) by list_eq.
    destruct (run_dn tq Ht Hs (zu ++ flat 0 midr) below cl md (hp + k)%nat Ebl) as [t3 [E3 [L3 T3]]].
    { rewrite <- Et2. exact Tk. }
    { exact Hdn. }
    assert (Epl : List.length (zu ++ flat 0 midr) = (cp + k)%nat) by (rewrite app_length, flat_length, Lk, Lmu, Lmid; lia).
    rewrite Et2. rewrite Epl in E3. rewrite (bind_ok _ _ _ E3). cbv beta iota.
    exists t3. split; [reflexivity|].
    cut (rows_eqv t3 (zu ++ map (fun r => with_np r 0) midr ++ rev (zside tq (mk_dn tq) (rev below)))); [intros HH; split; [exact HH|eapply rows_eqv_Tdesc; eassumption]|].
    replace (zu ++ map (fun r => with_np r 0) midr ++ rev (zside tq (mk_dn tq) (rev below)))
      with ((zu ++ flat 0 midr) ++ rev (zside tq (mk_dn tq) (rev below))) by (unfold flat; list_eq).
    exact L3.
Qed.
End Main2.
