(* C07: the sweep as it is coded (index model: loop_up / loop_dn with _pocket_exit_index, insert_temperature_interval,
   index shifts) computes, on every Robust side, the same table as the zipper form (stated up to == on H_net_np below
   the pinch; since the repair of D56 -- the exit row is flattened also when no breakpoint is inserted -- every
   branch is in fact literally equal). *)
From OP Require Import gen.Consts model.Base model.Pockets proofs.BaseFacts proofs.PocketsPL proofs.PocketsZ proofs.PocketsFuel.
From Coq Require Import Lia Lqa.
Local Open Scope Q_scope.

(* ---------- indexing ---------- *)
Lemma Hat_mid pre (x : row) post : Hat (pre ++ x :: post) (List.length pre) = rH x.
Proof. unfold Hat. rewrite nth_middle. reflexivity. Qed.
Lemma Tat_mid pre (x : row) post : Tat (pre ++ x :: post) (List.length pre) = rT x.
Proof. unfold Tat. rewrite nth_middle. reflexivity. Qed.
Lemma Hat_mid' pre (x : row) post k : k = List.length pre -> Hat (pre ++ x :: post) k = rH x.
Proof. intros ->. apply Hat_mid. Qed.
Lemma Tat_mid' pre (x : row) post k : k = List.length pre -> Tat (pre ++ x :: post) k = rT x.
Proof. intros ->. apply Tat_mid. Qed.

Lemma skipn_app_exact {A} (l1 l2 : list A) k : k = List.length l1 -> skipn k (l1 ++ l2) = l2.
Proof. intros ->. rewrite skipn_app, skipn_all2, Nat.sub_diag by lia. reflexivity. Qed.
Lemma firstn_app_exact {A} (l1 l2 : list A) k : k = List.length l1 -> firstn k (l1 ++ l2) = l1.
Proof. intros ->. rewrite firstn_app, firstn_all2, Nat.sub_diag by lia. simpl. apply app_nil_r. Qed.

(* ---------- set_np on a block ---------- *)
Lemma set_np_skip t a b v : (b <= a)%nat -> set_np t a b v = t.
Proof.
  revert a b. induction t as [|r rs IH]; intros a b H; [reflexivity|]. simpl.
  destruct b as [|b']; [reflexivity|]. destruct a as [|a']; [lia|]. rewrite IH by lia. reflexivity.
Qed.
Lemma set_np_block pre blk post v a b : a = List.length pre -> b = (List.length pre + List.length blk)%nat ->
  set_np (pre ++ blk ++ post) a b v = pre ++ flat v blk ++ post.
Proof.
  intros -> ->. induction pre as [|p pre IH].
  - simpl. induction blk as [|r blk IHb]; simpl.
    + destruct post; reflexivity.
    + f_equal. exact IHb.
  - simpl. f_equal. exact IH.
Qed.

(* ---------- _pocket_exit_index ---------- *)
Lemma scan_up_hit tq L h' rest p : forall m1 i, Forall (fun h => L < h + tq) m1 -> h' + tq <= L -> (i + List.length m1 <= p)%nat ->
  scan_up tq L (m1 ++ h' :: rest) i p = (i + List.length m1 - 1)%nat.
Proof.
  induction m1 as [|h m1 IH]; intros i Hall Hh Hp; simpl.
  - assert (E : (p <? i)%nat = false) by (apply Nat.ltb_ge; lia). rewrite E.
    assert (E2 : qleb (h' + tq) L = true) by (apply qleb_true; exact Hh). rewrite E2. lia.
  - inversion Hall as [|? ? H1 H2]; subst.
    assert (E : (p <? i)%nat = false) by (apply Nat.ltb_ge; simpl in Hp; lia). rewrite E.
    assert (E2 : qleb (h + tq) L = false) by (apply qleb_false; exact H1). rewrite E2.
    rewrite IH; [simpl; lia|exact H2|exact Hh|simpl in Hp; lia].
Qed.
Lemma scan_up_none tq L rest p : forall m i, Forall (fun h => L < h + tq) m -> (i + List.length m = S p)%nat ->
  scan_up tq L (m ++ rest) i p = p.
Proof.
  induction m as [|h m IH]; intros i Hall Hp; simpl.
  - simpl in Hp. destruct rest as [|h rest]; [reflexivity|]. simpl.
    assert (E : (p <? i)%nat = true) by (apply Nat.ltb_lt; lia). rewrite E. reflexivity.
  - inversion Hall as [|? ? H1 H2]; subst. simpl in Hp.
    assert (E : (p <? i)%nat = false) by (apply Nat.ltb_ge; lia). rewrite E.
    assert (E2 : qleb (h + tq) L = false) by (apply qleb_false; exact H1). rewrite E2.
    apply IH; [exact H2|lia].
Qed.
Lemma scan_dn_hit tq L h' rest p : forall m1 k, Forall (fun h => L < h + tq) m1 -> h' + tq <= L -> (p + List.length m1 < k)%nat ->
  scan_dn tq L (m1 ++ h' :: rest) k p = (k - List.length m1)%nat.
Proof.
  induction m1 as [|h m1 IH]; intros k Hall Hh Hp; simpl.
  - assert (E : (k <=? p)%nat = false) by (apply Nat.leb_gt; simpl in Hp; lia). rewrite E.
    assert (E2 : qleb (h' + tq) L = true) by (apply qleb_true; exact Hh). rewrite E2. lia.
  - inversion Hall as [|? ? H1 H2]; subst. simpl in Hp.
    assert (E : (k <=? p)%nat = false) by (apply Nat.leb_gt; lia). rewrite E.
    assert (E2 : qleb (h + tq) L = false) by (apply qleb_false; exact H1). rewrite E2.
    rewrite IH; [lia|exact H2|exact Hh|lia].
Qed.

(* ---------- insert_temperature_interval between two neighbouring rows ---------- *)
Definition Tdesc (tq : Q) (t : list row) : Prop := mono true tq (map ptH t).

Lemma mono_head_gap d tq (a : pt) l : 0 <= tq -> mono d tq (a :: l) -> Forall (fun b => sgap d tq a b) l.
Proof.
  intros Ht. revert a. induction l as [|b l IH]; intros a H; [constructor|].
  destruct H as [G H]. constructor; [exact G|].
  specialize (IH b H). eapply Forall_impl; [|exact IH]. intros c Hc. destruct d; simpl in *; lra.
Qed.
Lemma far_from_local tq t0 a up lo b : 0 <= tq -> Tdesc tq (a ++ up :: lo :: b) -> rT lo <= t0 <= rT up ->
  far_from tq t0 (a ++ up :: lo :: b) = qltb tq (Qabs (rT up - t0)) && qltb tq (Qabs (rT lo - t0)).
Proof.
  intros Ht Hm Hb. unfold far_from. rewrite forallb_app. cbn [forallb].
  assert (Ha : forallb (fun r => qltb tq (Qabs (rT r - t0))) a = true).
  { apply forallb_forall. intros x Hx. apply in_split in Hx. destruct Hx as [a1 [a2 Ea]]. subst a.
    unfold Tdesc in Hm. rewrite <- app_assoc in Hm. rewrite map_app in Hm. apply mono_app_r in Hm.
    simpl app in Hm. rewrite map_cons in Hm. apply mono_head_gap in Hm; [|exact Ht].
    rewrite Forall_forall in Hm. specialize (Hm (ptH up)).
    assert (Hin : In (ptH up) (map ptH (a2 ++ up :: lo :: b))) by (apply in_map; apply in_or_app; right; left; reflexivity).
    specialize (Hm Hin). unfold sgap, ptH in Hm. cbn [fst] in Hm. apply qltb_true. apply Qabs_gt_l. lra. }
  assert (Hbb : forallb (fun r => qltb tq (Qabs (rT r - t0))) b = true).
  { apply forallb_forall. intros x Hx.
    unfold Tdesc in Hm. rewrite map_app in Hm. apply mono_app_r in Hm.
    rewrite !map_cons in Hm. apply mono_tail in Hm. apply mono_head_gap in Hm; [|exact Ht].
    rewrite Forall_forall in Hm. specialize (Hm (ptH x) ltac:(apply in_map; exact Hx)).
    unfold sgap, ptH in Hm. cbn [fst] in Hm. apply qltb_true. apply Qabs_gt_r. lra. }
  rewrite Ha, Hbb. rewrite andb_true_r. reflexivity.
Qed.
Lemma ins_sorted_between tq t0 up lo b : forall a prev, Forall (fun r => t0 <= rT r) (a ++ [up]) -> rT lo < t0 ->
  ins_sorted tq t0 prev (a ++ up :: lo :: b) = a ++ up :: interp_row tq up lo t0 :: lo :: b.
Proof.
  induction a as [|x a IH]; intros prev Hall Hlo.
  - simpl. inversion Hall as [|? ? H1 _]; subst.
    assert (E1 : qltb (rT up) t0 = false) by (apply qltb_false; exact H1). rewrite E1.
    assert (E2 : qltb (rT lo) t0 = true) by (apply qltb_true; exact Hlo). rewrite E2. reflexivity.
  - simpl. inversion Hall as [|? ? H1 H2]; subst.
    assert (E1 : qltb (rT x) t0 = false) by (apply qltb_false; exact H1). rewrite E1.
    f_equal. apply IH; assumption.
Qed.
Lemma Tdesc_above tq a up rest : 0 <= tq -> Tdesc tq (a ++ up :: rest) -> Forall (fun r => rT up <= rT r) (a ++ [up]).
Proof.
  intros Ht Hm. apply Forall_app. split; [|constructor; [lra|constructor]].
  rewrite Forall_forall. intros x Hx. apply in_split in Hx. destruct Hx as [a1 [a2 Ea]]. subst a.
  unfold Tdesc in Hm. rewrite <- app_assoc in Hm. rewrite map_app in Hm. apply mono_app_r in Hm.
  simpl app in Hm. rewrite map_cons in Hm. apply mono_head_gap in Hm; [|exact Ht].
  rewrite Forall_forall in Hm. specialize (Hm (ptH up)).
  assert (Hin : In (ptH up) (map ptH (a2 ++ up :: rest))) by (apply in_map; apply in_or_app; right; left; reflexivity).
  specialize (Hm Hin). unfold sgap, ptH in Hm. cbn [fst] in Hm. lra.
Qed.
Lemma Tdesc_insert tq a up bp lo b : Tdesc tq (a ++ up :: lo :: b) -> tq < rT up - rT bp -> tq < rT bp - rT lo ->
  Tdesc tq (a ++ up :: bp :: lo :: b).
Proof.
  unfold Tdesc. intros Hm G1 G2. rewrite map_app in *. rewrite !map_cons in *.
  replace (map ptH a ++ ptH up :: ptH bp :: ptH lo :: map ptH b) with (map ptH a ++ ptH up :: (ptH bp :: ptH lo :: map ptH b)) by reflexivity.
  apply mono_app.
  - apply mono_app_l with (l2 := ptH lo :: map ptH b). rewrite <- app_assoc. exact Hm.
  - apply mono_app_r in Hm. destruct Hm as [_ Hm]. split; [exact G1|]. split; [exact G2|exact Hm].
Qed.
Lemma Tdesc_flat tq L pre blk post : Tdesc tq (pre ++ blk ++ post) -> Tdesc tq (pre ++ flat L blk ++ post).
Proof. unfold Tdesc. rewrite !map_app, map_ptH_flat. auto. Qed.

(* ---------- unfolding one iteration ---------- *)
Lemma loop_up_S tq f t i hp cp p :
  loop_up tq (S f) t i hp cp p =
  if (p <=? i)%nat then Ok (t, hp, cp)
  else if qltb (Hat t i) (Hat t (S i) - tq) then
    let e := exit_up tq t i p in
    let '(t1, n) := if (e =? p)%nat then (t, O)
                    else insert_T tq t (lin_interp (Hat t i) (Hat t e) (Hat t (S e)) (Tat t e) (Tat t (S e))) in
    let '(hp1, cp1, p1) := if (0 <? n)%nat then ((hp + n)%nat, (cp + n)%nat, (p + n)%nat) else (hp, cp, p) in
    let t2 := set_np t1 (S i) (S e) (Hat t1 i) in
    loop_up tq f t2 (e + n)%nat hp1 cp1 p1
  else loop_up tq f t (S i) hp cp p.
Proof. reflexivity. Qed.
Lemma loop_dn_S tq f t i hp cp p :
  loop_dn tq (S f) t i hp cp p =
  if (i <=? p)%nat then Ok (t, hp, cp)
  else if qltb (Hat t i) (Hat t (i - 1) - tq) then
    let e := exit_dn tq t i p in
    let '(t1, n) := if (e =? p)%nat then (t, O)
                    else insert_T tq t (lin_interp (Hat t i) (Hat t e) (Hat t (e - 1)) (Tat t e) (Tat t (e - 1))) in
    let i0' := if (0 <? n)%nat then (i + n)%nat else i in
    let a := if (0 <? n)%nat || (e =? p)%nat then S e else e in
    let t2 := set_np t1 a i0' (Hat t1 i0') in
    loop_dn tq f t2 (e - n)%nat hp cp p
  else loop_dn tq f t (i - 1)%nat hp cp p.
Proof. reflexivity. Qed.

Lemma flat_length L rows : List.length (flat L rows) = List.length rows.
Proof. apply map_length. Qed.
Lemma last_snoc_split {A} (l : list A) d : l <> [] -> exists l', l = l' ++ [last l d].
Proof. intros H. exists (removelast l). apply app_removelast_last. exact H. Qed.

Ltac lnorm := repeat (rewrite <- !app_assoc || rewrite <- !app_comm_cons); cbn [app].
Ltac list_eq := lnorm; try reflexivity.
Section SimUp.
Variable tq : Q.
Hypothesis Ht : 0 < tq.

Lemma sim_up Ls : forall n mid, (List.length mid <= n)%nat -> forall fuel pre cur tail hp cp,
  (List.length mid < fuel)%nat -> SidePre true tq Ls cur mid -> Tdesc tq (pre ++ cur :: mid ++ tail) ->
  exists k, loop_up tq fuel (pre ++ cur :: mid ++ tail) (List.length pre) hp cp (List.length pre + List.length mid)
            = Ok (pre ++ cur :: zsweep tq (mk_up tq) (List.length mid) cur mid ++ tail, (hp + k)%nat, (cp + k)%nat)
         /\ List.length (zsweep tq (mk_up tq) (List.length mid) cur mid) = (List.length mid + k)%nat
         /\ Tdesc tq (pre ++ cur :: zsweep tq (mk_up tq) (List.length mid) cur mid ++ tail).
Proof.
  induction n as [|n IH]; intros mid Hn fuel pre cur tail hp cp Hf Pre Htd.
  - destruct mid; [|simpl in Hn; lia]. destruct fuel as [|f]; [simpl in Hf; lia|].
    exists 0%nat. rewrite loop_up_S. simpl List.length. rewrite Nat.add_0_r.
    rewrite Nat.leb_refl. rewrite !Nat.add_0_r. split; [reflexivity|]. split; [reflexivity|exact Htd].
  - destruct mid as [|r rs].
    { destruct fuel as [|f]; [simpl in Hf; lia|].
      exists 0%nat. rewrite loop_up_S. simpl List.length. rewrite Nat.add_0_r.
      rewrite Nat.leb_refl. rewrite !Nat.add_0_r. split; [reflexivity|]. split; [reflexivity|exact Htd]. }
    destruct fuel as [|f]; [lia|]. simpl in Hn, Hf.
    set (t := pre ++ cur :: (r :: rs) ++ tail) in *.
    set (i := List.length pre). set (p := (i + List.length (r :: rs))%nat).
    rewrite loop_up_S.
    assert (E0 : (p <=? i)%nat = false) by (apply Nat.leb_gt; unfold p; simpl; lia). rewrite E0.
    assert (Hi : Hat t i = rH cur) by (unfold t, i; apply Hat_mid).
    assert (Hi1 : Hat t (S i) = rH r).
    { unfold t. replace (pre ++ cur :: (r :: rs) ++ tail) with ((pre ++ [cur]) ++ r :: rs ++ tail) by list_eq.
      apply Hat_mid'. rewrite app_length. simpl. unfold i. lia. }
    rewrite Hi, Hi1. change (List.length (r :: rs)) with (S (List.length rs)). rewrite zsweep_S.
    pose proof Pre as [P1 [P2 [P3 [P4 [P5 P6]]]]].
    destruct (qltb (rH cur) (rH r - tq)) eqn:Ep.
    + (* ---- a pocket ---- *)
      apply qltb_true in Ep.
      destruct (zpocket tq (mk_up tq) (rH cur) cur (r :: rs)) as [out kz] eqn:Ez.
      destruct P3 as [Pnw P3'].
      assert (Hskip : skipn (S i) (map rH t) = map rH (r :: rs) ++ map rH tail).
      { unfold t. rewrite skipn_map. replace (pre ++ cur :: (r :: rs) ++ tail) with ((pre ++ [cur]) ++ (r :: rs) ++ tail) by list_eq.
        rewrite skipn_app_exact by (rewrite app_length; simpl; unfold i; lia). apply map_app. }
      destruct (zpocket_split tq (mk_up tq) _ _ _ _ _ Ez) as [[K1 [K2 K3]]|[m1 [r' [rs' [K1 [K2 [K3 [K4 K5]]]]]]]]; subst kz out.
      * (* the pocket reaches the pinch: no insertion, everything up to the pinch is flattened *)
        assert (Ee : exit_up tq t i p = p).
        { unfold exit_up. rewrite Hi, Hskip. apply scan_up_none.
          - rewrite Forall_map. exact K3.
          - rewrite map_length. unfold p. simpl. lia. }
        cbv zeta. rewrite Ee, Nat.eqb_refl. cbn [Nat.ltb Nat.leb]. rewrite Hi.
        assert (Es : set_np t (S i) (S p) (rH cur) = pre ++ cur :: flat (rH cur) (r :: rs) ++ tail).
        { unfold t. replace (pre ++ cur :: (r :: rs) ++ tail) with ((pre ++ [cur]) ++ (r :: rs) ++ tail) by list_eq.
          rewrite (set_np_block (pre ++ [cur]) (r :: rs) tail); [list_eq| |].
          - rewrite app_length. simpl. unfold i. lia.
          - rewrite app_length. unfold p, i. simpl. lia. }
        rewrite Es. destruct f as [|f']; [simpl in Hf; lia|]. rewrite loop_up_S.
        assert (E1 : (p <=? p + 0)%nat = true) by (apply Nat.leb_le; lia). rewrite E1.
        exists 0%nat. rewrite !Nat.add_0_r. split; [reflexivity|]. split; [rewrite flat_length; simpl; lia|].
        replace (pre ++ cur :: flat (rH cur) (r :: rs) ++ tail) with ((pre ++ [cur]) ++ flat (rH cur) (r :: rs) ++ tail) by list_eq.
        apply Tdesc_flat. replace ((pre ++ [cur]) ++ (r :: rs) ++ tail) with t by (unfold t; list_eq). exact Htd.
      * (* the pocket closes in the interval pv -> r' *)
        assert (Hm1 : m1 <> []).
        { intro E. subst m1. simpl in K2. inversion K2; subst r'. lra. }
        destruct (exists_last Hm1) as [m1' [pv Em1]]. subst m1. rewrite !last_last.
        assert (Pre' : SidePre true tq Ls r' rs') by (eapply SidePre_suffix; [exact Pre|exact K2]).
        assert (Hlen : List.length (r :: rs) = (S (List.length m1') + S (List.length rs'))%nat).
        { rewrite K2, !app_length. simpl. lia. }
        set (e := (i + S (List.length m1'))%nat).
        assert (Ee : exit_up tq t i p = e).
        { unfold exit_up. rewrite Hi, Hskip, K2. rewrite map_app, map_cons, <- app_assoc. cbn [app].
          rewrite scan_up_hit; [rewrite map_length, app_length; simpl; unfold e; lia| | |].
          - rewrite Forall_map. exact K4.
          - exact K5.
          - rewrite map_length, app_length. simpl. unfold p. rewrite Hlen. lia. }
        assert (Eep : (e =? p)%nat = false) by (apply Nat.eqb_neq; unfold e, p; rewrite Hlen; lia).
        (* the table around the closing interval *)
        set (a := pre ++ cur :: m1'). set (b := rs' ++ tail).
        assert (Et : t = a ++ pv :: r' :: b) by (unfold t, a, b; rewrite K2; list_eq).
        assert (Ha : List.length a = e) by (unfold a, e, i; rewrite app_length; simpl; lia).
        assert (He : Hat t e = rH pv /\ Tat t e = rT pv).
        { rewrite Et. split; [apply Hat_mid'|apply Tat_mid']; lia. }
        assert (He1 : Hat t (S e) = rH r' /\ Tat t (S e) = rT r').
        { rewrite Et. replace (a ++ pv :: r' :: b) with ((a ++ [pv]) ++ r' :: b) by list_eq.
          split; [apply Hat_mid'|apply Tat_mid']; rewrite app_length; simpl; lia. }
        destruct He as [He He']. destruct He1 as [He1 He1'].
        cbv zeta. rewrite Ee, Eep, He, He1, He', He1'.
        set (t0 := lin_interp (rH cur) (rH pv) (rH r') (rT pv) (rT r')).
        (* facts about pv *)
        assert (Hnw1 : NW tq (rH cur) (m1' ++ [pv])) by (rewrite K2 in Pnw; unfold NW in *; apply Forall_app in Pnw; apply Pnw).
        assert (Hab : Forall (above_L tq (rH cur)) (m1' ++ [pv])) by (apply NW_above; assumption).
        assert (Hpv : above_L tq (rH cur) pv) by (apply Forall_app in Hab; destruct Hab as [_ Hab]; inversion Hab; assumption).
        assert (Hnp1 : NPH (m1' ++ [pv])) by (rewrite K2 in P2; unfold NPH in *; apply Forall_app in P2; apply P2).
        assert (Epv : rNP pv == rH pv) by (unfold NPH in Hnp1; apply Forall_app in Hnp1; destruct Hnp1 as [_ Hnp1]; inversion Hnp1; assumption).
        assert (Er' : rNP r' == rH r') by apply Pre'.
        assert (Htd' : Tdesc tq (a ++ pv :: r' :: b)) by (rewrite <- Et; exact Htd).
        assert (G : sgap true tq (ptH pv) (ptH r')).
        { unfold Tdesc in Htd'. rewrite map_app in Htd'. apply mono_app_r in Htd'. rewrite !map_cons in Htd'. apply Htd'. }
        assert (Hcross : CrossW true tq (rH cur) pv r').
        { assert (Hin : In (rH cur) Ls) by (inversion P6; assumption).
          assert (Hpair : Forall (fun L => CrossW true tq L pv r') Ls).
          { apply (CrossAll_pair true tq Ls (cur :: m1') pv r' rs').
            replace ((cur :: m1') ++ pv :: r' :: rs') with (cur :: (m1' ++ [pv]) ++ r' :: rs') by list_eq.
            rewrite <- K2. exact P5. }
          rewrite Forall_forall in Hpair. apply Hpair. exact Hin. }
        assert (HLp : rH cur <= rH pv) by (destruct Hpv; lra).
        destruct (cross_between true tq (rH cur) pv r' ltac:(lra) ltac:(lra) HLp G) as [B1 B2]. fold t0 in B1, B2.
        cbn [sleP sltP] in B1, B2.
        assert (Efar : far_from tq t0 t = qltb tq (Qabs (rT pv - t0)) && qltb tq (Qabs (rT r' - t0))).
        { rewrite Et. apply far_from_local; [lra|exact Htd'|lra]. }
        unfold insert_T. rewrite Efar.
        assert (E2 : qltb (rH pv) (rH r' - tq) = false) by (apply qltb_false; lra).
        destruct (bp_ins_cases true tq (mk_up tq) Ht (mk_up_spec tq ltac:(lra)) (rH cur) pv r' K5 Hpv G Epv Er' Hcross)
          as [[Ei EL]|[bp [Ei [B3 [B4 [G1 [G2 B5]]]]]]]; rewrite Ei.
        -- (* no breakpoint: the pocket closes exactly on the row pv *)
           unfold bp_ins in Ei. fold t0 in Ei.
           destruct (qltb tq (Qabs (rT pv - t0)) && qltb tq (Qabs (rT r' - t0))) eqn:Echk; [discriminate|].
           cbn [Nat.ltb Nat.leb]. rewrite Hi.
           set (a2 := pre ++ cur :: flat (rH cur) m1').
           assert (Es : set_np t (S i) (S e) (rH cur) = a2 ++ with_np pv (rH cur) :: r' :: b).
           { unfold t. rewrite K2.
             replace (pre ++ cur :: ((m1' ++ [pv]) ++ r' :: rs') ++ tail) with ((pre ++ [cur]) ++ (m1' ++ [pv]) ++ (r' :: b)) by (unfold b; list_eq).
             rewrite (set_np_block (pre ++ [cur]) (m1' ++ [pv]) (r' :: b)).
             - unfold flat, a2. rewrite map_app. cbn [map]. list_eq.
             - rewrite app_length. simpl. unfold i. lia.
             - rewrite !app_length. simpl. unfold e, i. lia. }
           rewrite Es. rewrite Nat.add_0_r.
           (* one more iteration at the (flattened) row pv: no pocket opens there *)
           destruct f as [|f']; [simpl in Hlen; lia|]. rewrite loop_up_S.
           assert (E1 : (p <=? e)%nat = false) by (apply Nat.leb_gt; unfold p, e; rewrite Hlen; lia). rewrite E1.
           assert (Hae : List.length a2 = e) by (unfold a2, e, i; rewrite app_length; simpl; rewrite flat_length; lia).
           rewrite (Hat_mid' a2 (with_np pv (rH cur)) (r' :: b) e) by lia.
           replace (a2 ++ with_np pv (rH cur) :: r' :: b) with ((a2 ++ [with_np pv (rH cur)]) ++ r' :: rs' ++ tail) by (unfold b; list_eq).
           rewrite (Hat_mid' _ r' (rs' ++ tail) (S e)) by (rewrite app_length; simpl; lia).
           cbn [rH with_np]. rewrite E2.
           destruct (IH rs' ltac:(simpl in Hlen; lia) f' (a2 ++ [with_np pv (rH cur)]) r' tail hp cp
                       ltac:(simpl in Hlen; lia) Pre') as [k [Ek [Lk Tk]]].
           { replace ((a2 ++ [with_np pv (rH cur)]) ++ r' :: rs' ++ tail)
               with ((pre ++ [cur]) ++ flat (rH cur) (m1' ++ [pv]) ++ (r' :: rs') ++ tail)
               by (unfold a2, flat; rewrite map_app; cbn [map]; list_eq).
             apply Tdesc_flat. unfold t in Htd. rewrite K2 in Htd.
             replace ((pre ++ [cur]) ++ (m1' ++ [pv]) ++ (r' :: rs') ++ tail) with (pre ++ cur :: ((m1' ++ [pv]) ++ r' :: rs') ++ tail) by list_eq.
             exact Htd. }
           replace (S e) with (List.length (a2 ++ [with_np pv (rH cur)])) by (rewrite app_length; simpl; lia).
           replace p with (List.length (a2 ++ [with_np pv (rH cur)]) + List.length rs')%nat
             by (rewrite app_length; simpl; unfold p; rewrite Hlen; lia).
           rewrite Ek. exists k.
           rewrite (zsweep_fuel tq (mk_up tq) (List.length rs) (List.length rs') r' rs') by (simpl in Hlen; lia).
           match goal with |- Ok (?x, _, _) = Ok (?y, _, _) /\ _ => assert (Etab : x = y) end.
           { unfold a2, flat. rewrite map_app. cbn [map]. list_eq. }
           rewrite <- Etab. split; [reflexivity|]. split; [|exact Tk].
           rewrite !app_length, flat_length. cbn [List.length app].
           rewrite Lk. rewrite app_length. simpl in Hlen. simpl. lia.
        -- (* a breakpoint row bp is inserted between pv and r' *)
           unfold bp_ins in Ei. fold t0 in Ei.
           destruct (qltb tq (Qabs (rT pv - t0)) && qltb tq (Qabs (rT r' - t0))) eqn:Echk; [|discriminate].
           inversion Ei as [Ebp]. clear Ei.
           assert (Eins : ins_sorted tq t0 None t = a ++ pv :: bp :: r' :: b).
           { rewrite Et. rewrite ins_sorted_between; [unfold mk_up in Ebp; rewrite Ebp; reflexivity| |lra].
             pose proof (Tdesc_above tq a pv (r' :: b) ltac:(lra) Htd') as Hab2.
             eapply Forall_impl; [|exact Hab2]. intros x Hx. cbv beta in Hx. lra. }
           rewrite Eins. cbn [Nat.ltb Nat.leb].
           assert (Hi' : Hat (a ++ pv :: bp :: r' :: b) i = rH cur).
           { unfold a. replace ((pre ++ cur :: m1') ++ pv :: bp :: r' :: b) with (pre ++ cur :: (m1' ++ pv :: bp :: r' :: b)) by list_eq.
             apply Hat_mid. }
           rewrite Hi'.
           set (a2 := pre ++ cur :: flat (rH cur) m1').
           assert (Es : set_np (a ++ pv :: bp :: r' :: b) (S i) (S e) (rH cur) = a2 ++ with_np pv (rH cur) :: bp :: r' :: b).
           { unfold a.
             replace ((pre ++ cur :: m1') ++ pv :: bp :: r' :: b) with ((pre ++ [cur]) ++ (m1' ++ [pv]) ++ (bp :: r' :: b)) by list_eq.
             rewrite (set_np_block (pre ++ [cur]) (m1' ++ [pv]) (bp :: r' :: b)).
             - unfold flat, a2. rewrite map_app. cbn [map]. list_eq.
             - rewrite app_length. simpl. unfold i. lia.
             - rewrite !app_length. simpl. unfold e, i. lia. }
           rewrite Es.
           assert (Hae : List.length a2 = e) by (unfold a2, e, i; rewrite app_length; simpl; rewrite flat_length; lia).
           (* one more iteration at the breakpoint row: no pocket opens there *)
           destruct f as [|f']; [simpl in Hlen; lia|]. rewrite loop_up_S.
           assert (E1 : (p + 1 <=? e + 1)%nat = false) by (apply Nat.leb_gt; unfold p, e; rewrite Hlen; lia). rewrite E1.
           replace (a2 ++ with_np pv (rH cur) :: bp :: r' :: b) with ((a2 ++ [with_np pv (rH cur)]) ++ bp :: r' :: b) by list_eq.
           rewrite (Hat_mid' _ bp (r' :: b) (e + 1)) by (rewrite app_length; simpl; lia).
           replace ((a2 ++ [with_np pv (rH cur)]) ++ bp :: r' :: b) with ((a2 ++ [with_np pv (rH cur); bp]) ++ r' :: rs' ++ tail) by (unfold b; list_eq).
           rewrite (Hat_mid' _ r' (rs' ++ tail) (S (e + 1))) by (rewrite app_length; simpl; lia).
           assert (E3 : qltb (rH bp) (rH r' - tq) = false) by (apply qltb_false; lra). rewrite E3.
           destruct (IH rs' ltac:(simpl in Hlen; lia) f' (a2 ++ [with_np pv (rH cur); bp]) r' tail (hp + 1)%nat (cp + 1)%nat
                       ltac:(simpl in Hlen; lia) Pre') as [k [Ek [Lk Tk]]].
           { replace ((a2 ++ [with_np pv (rH cur); bp]) ++ r' :: rs' ++ tail)
               with ((pre ++ [cur]) ++ flat (rH cur) (m1' ++ [pv]) ++ (bp :: r' :: b))
               by (unfold a2, b, flat; rewrite map_app; cbn [map]; list_eq).
             apply Tdesc_flat.
             replace ((pre ++ [cur]) ++ (m1' ++ [pv]) ++ bp :: r' :: b) with (a ++ pv :: bp :: r' :: b) by (unfold a; list_eq).
             apply Tdesc_insert; [exact Htd'| |].
             - unfold sgap, ptH in G1. cbn [fst] in G1. exact G1.
             - unfold sgap, ptH in G2. cbn [fst] in G2. exact G2. }
           replace (S (e + 1)) with (List.length (a2 ++ [with_np pv (rH cur); bp])) by (rewrite app_length; simpl; lia).
           replace (p + 1)%nat with (List.length (a2 ++ [with_np pv (rH cur); bp]) + List.length rs')%nat
             by (rewrite app_length; simpl; unfold p; rewrite Hlen; lia).
           rewrite Ek. exists (S k).
           replace (hp + S k)%nat with (hp + 1 + k)%nat by lia. replace (cp + S k)%nat with (cp + 1 + k)%nat by lia.
           rewrite (zsweep_fuel tq (mk_up tq) (List.length rs) (List.length rs') r' rs') by (simpl in Hlen; lia).
           match goal with |- Ok (?x, _, _) = Ok (?y, _, _) /\ _ => assert (Etab : x = y) end.
           { unfold a2, flat. rewrite map_app. cbn [map]. list_eq. rewrite Ebp. reflexivity. }
           rewrite <- Etab. split; [reflexivity|]. split; [|exact Tk].
           rewrite !app_length, flat_length. cbn [List.length app].
           rewrite Lk. rewrite app_length. simpl in Hlen. simpl. lia.
    + (* ---- no pocket: move on to r ---- *)
      assert (Pre' : SidePre true tq Ls r rs) by (apply (SidePre_suffix true tq Ls cur (r :: rs) [] r rs Pre); reflexivity).
      destruct (IH rs ltac:(lia) f (pre ++ [cur]) r tail hp cp ltac:(lia) Pre') as [k [Ek [Lk Tk]]].
      { replace ((pre ++ [cur]) ++ r :: rs ++ tail) with t by (unfold t; list_eq). exact Htd. }
      replace t with ((pre ++ [cur]) ++ r :: rs ++ tail) by (unfold t; list_eq).
      replace (S i) with (List.length (pre ++ [cur])) by (rewrite app_length; simpl; unfold i; lia).
      replace p with (List.length (pre ++ [cur]) + List.length rs)%nat by (rewrite app_length; unfold p, i; simpl; lia).
      rewrite Ek. exists k.
      match goal with |- Ok (?x, _, _) = Ok (?y, _, _) /\ _ => assert (Etab : x = y) by list_eq end.
      rewrite <- Etab. split; [reflexivity|]. split; [simpl; rewrite Lk; lia|exact Tk].
Qed.
End SimUp.

(* ---------- rows equal up to == on H_net_np ---------- *)
Definition np_eqv (a b : row) : Prop := rT a = rT b /\ rH a = rH b /\ rNP a == rNP b.
Definition rows_eqv : list row -> list row -> Prop := Forall2 np_eqv.
Lemma np_eqv_refl a : np_eqv a a.
Proof. repeat split; reflexivity. Qed.
Lemma rows_eqv_refl l : rows_eqv l l.
Proof. induction l; constructor; [apply np_eqv_refl|assumption]. Qed.
Lemma rows_eqv_trans l1 l2 l3 : rows_eqv l1 l2 -> rows_eqv l2 l3 -> rows_eqv l1 l3.
Proof.
  intros H. revert l3. induction H as [|a b l1 l2 Hab _ IH]; intros l3 H3; inversion H3; subst; constructor.
  - destruct Hab as [A1 [A2 A3]]. match goal with H : np_eqv b _ |- _ => destruct H as [B1 [B2 B3]] end.
    repeat split; try congruence. rewrite A3. exact B3.
  - apply IH. assumption.
Qed.
Lemma rows_eqv_app l1 l2 l1' l2' : rows_eqv l1 l1' -> rows_eqv l2 l2' -> rows_eqv (l1 ++ l2) (l1' ++ l2').
Proof. apply Forall2_app. Qed.

(* the pinch row lies at least tq below every other row of its side: a pocket never reaches the pinch *)
Definition PinchLow (tq : Q) (cur : row) (mid : list row) : Prop :=
  match mid with
  | [] => True
  | _ => Forall (fun r => rH (last mid cur) + tq <= rH r) (cur :: removelast mid)
  end.
Lemma PinchLow_suffix tq cur mid m c' rest : PinchLow tq cur mid -> mid = m ++ c' :: rest -> PinchLow tq c' rest.
Proof.
  intros H E. subst mid. destruct rest as [|x rest]; [exact I|].
  unfold PinchLow in *. destruct (m ++ c' :: x :: rest) eqn:E0; [apply app_eq_nil in E0; destruct E0; discriminate|].
  rewrite <- E0 in H. clear E0.
  rewrite (last_app_ne m (c' :: x :: rest) cur c') in H by discriminate.
  rewrite last_cons2 in H.
  rewrite removelast_app in H by discriminate.
  change (removelast (c' :: x :: rest)) with (c' :: removelast (x :: rest)) in H.
  inversion H as [|? ? _ H2]; subst. apply Forall_app in H2. apply H2.
Qed.
Lemma rT_interp_row tq top bot t0 : rT (interp_row tq top bot t0) = t0.
Proof. unfold interp_row. destruct (qleb _ tq); reflexivity. Qed.

Section SimDn.
Variable tq : Q.
Hypothesis Ht : 0 < tq.

Lemma sim_dn Ls : forall n mid, (List.length mid <= n)%nat -> forall fuel pre cur post hp cp,
  (List.length mid < fuel)%nat -> SidePre false tq Ls cur mid -> PinchLow tq cur mid ->
  Tdesc tq (pre ++ rev mid ++ cur :: post) ->
  exists t', loop_dn tq fuel (pre ++ rev mid ++ cur :: post) (List.length pre + List.length mid) hp cp (List.length pre)
             = Ok (t', hp, cp)
          /\ rows_eqv t' (pre ++ rev (zsweep tq (mk_dn tq) (List.length mid) cur mid) ++ cur :: post)
          /\ Tdesc tq t'.
Proof.
  induction n as [|n IH]; intros mid Hn fuel pre cur post hp cp Hf Pre Hpl Htd.
  - destruct mid; [|simpl in Hn; lia]. destruct fuel as [|f]; [simpl in Hf; lia|].
    rewrite loop_dn_S. simpl List.length. rewrite Nat.add_0_r, Nat.leb_refl.
    eexists. split; [reflexivity|]. split; [apply rows_eqv_refl|exact Htd].
  - destruct mid as [|r rs].
    { destruct fuel as [|f]; [simpl in Hf; lia|].
      rewrite loop_dn_S. simpl List.length. rewrite Nat.add_0_r, Nat.leb_refl.
      eexists. split; [reflexivity|]. split; [apply rows_eqv_refl|exact Htd]. }
    destruct fuel as [|f]; [lia|]. simpl in Hn, Hf.
    set (t := pre ++ rev (r :: rs) ++ cur :: post) in *.
    set (p := List.length pre). set (i := (p + List.length (r :: rs))%nat).
    rewrite loop_dn_S.
    assert (E0 : (i <=? p)%nat = false) by (apply Nat.leb_gt; unfold i; simpl; lia). rewrite E0.
    assert (Hi : Hat t i = rH cur).
    { unfold t. replace (pre ++ rev (r :: rs) ++ cur :: post) with ((pre ++ rev (r :: rs)) ++ cur :: post) by list_eq.
      apply Hat_mid'. rewrite app_length, rev_length. reflexivity. }
    assert (Hi1 : Hat t (i - 1) = rH r).
    { unfold t. cbn [rev]. replace (pre ++ (rev rs ++ [r]) ++ cur :: post) with ((pre ++ rev rs) ++ r :: cur :: post) by list_eq.
      apply Hat_mid'. rewrite app_length, rev_length. unfold i, p. simpl. lia. }
    rewrite Hi, Hi1. change (List.length (r :: rs)) with (S (List.length rs)). rewrite zsweep_S.
    pose proof Pre as [P1 [P2 [P3 [P4 [P5 P6]]]]].
    destruct (qltb (rH cur) (rH r - tq)) eqn:Ep.
    + (* ---- a pocket ---- *)
      apply qltb_true in Ep.
      destruct (zpocket tq (mk_dn tq) (rH cur) cur (r :: rs)) as [out kz] eqn:Ez.
      destruct P3 as [Pnw P3'].
      destruct (zpocket_split tq (mk_dn tq) _ _ _ _ _ Ez) as [[K1 [K2 K3]]|[m1 [r' [rs' [K1 [K2 [K3 [K4 K5]]]]]]]]; subst kz out.
      * (* impossible: the pocket would have to reach the pinch row *)
        exfalso. unfold PinchLow in Hpl. inversion Hpl as [|? ? Hc _]; subst.
        assert (Hin : In (last (r :: rs) cur) (r :: rs)) by (apply last_in; discriminate).
        rewrite Forall_forall in K3. specialize (K3 _ Hin). cbv beta in K3. lra.
      * assert (Hm1 : m1 <> []).
        { intro E. subst m1. simpl in K2. inversion K2; subst r'. lra. }
        destruct (exists_last Hm1) as [m1' [pv Em1]]. subst m1. rewrite !last_last.
        assert (Pre' : SidePre false tq Ls r' rs') by (eapply SidePre_suffix; [exact Pre|exact K2]).
        assert (Hlen : List.length (r :: rs) = (S (List.length m1') + S (List.length rs'))%nat).
        { rewrite K2, !app_length. simpl. lia. }
        set (e := (p + S (List.length rs'))%nat).
        assert (Erev : rev (r :: rs) = rev rs' ++ r' :: pv :: rev m1').
        { rewrite K2. rewrite !rev_app_distr. cbn [rev app]. list_eq. }
        set (a := pre ++ rev rs'). set (b := rev m1' ++ cur :: post).
        assert (Et : t = a ++ r' :: pv :: b) by (unfold t, a, b; rewrite Erev; list_eq).
        assert (Ha : List.length a = (e - 1)%nat) by (unfold a, e, p; rewrite app_length, rev_length; lia).
        assert (Ee : exit_dn tq t i p = e).
        { unfold exit_dn. rewrite Hi.
          assert (Ef : firstn i (map rH t) = map rH (pre ++ rev (r :: rs))).
          { unfold t. rewrite firstn_map. replace (pre ++ rev (r :: rs) ++ cur :: post) with ((pre ++ rev (r :: rs)) ++ cur :: post) by list_eq.
            rewrite firstn_app_exact by (rewrite app_length, rev_length; reflexivity). reflexivity. }
          rewrite Ef. rewrite <- map_rev, rev_app_distr, rev_involutive. rewrite K2.
          rewrite <- app_assoc. rewrite map_app. cbn [app map].
          rewrite scan_dn_hit; [rewrite map_length, app_length; simpl; unfold e, i; rewrite Hlen; lia| | |].
          - rewrite Forall_map. exact K4.
          - exact K5.
          - rewrite map_length, app_length. simpl. unfold i. rewrite Hlen. lia. }
        assert (Eep : (e =? p)%nat = false) by (apply Nat.eqb_neq; unfold e; lia).
        assert (He : Hat t e = rH pv /\ Tat t e = rT pv).
        { rewrite Et. replace (a ++ r' :: pv :: b) with ((a ++ [r']) ++ pv :: b) by list_eq.
          split; [apply Hat_mid'|apply Tat_mid']; rewrite app_length; simpl; unfold e in *; lia. }
        assert (He1 : Hat t (e - 1) = rH r' /\ Tat t (e - 1) = rT r').
        { rewrite Et. split; [apply Hat_mid'|apply Tat_mid']; lia. }
        destruct He as [He He']. destruct He1 as [He1 He1'].
        cbv zeta. rewrite Ee, Eep, He, He1, He', He1'.
        set (t0 := lin_interp (rH cur) (rH pv) (rH r') (rT pv) (rT r')).
        assert (Hnw1 : NW tq (rH cur) (m1' ++ [pv])) by (rewrite K2 in Pnw; unfold NW in *; apply Forall_app in Pnw; apply Pnw).
        assert (Hab : Forall (above_L tq (rH cur)) (m1' ++ [pv])) by (apply NW_above; assumption).
        assert (Hpv : above_L tq (rH cur) pv) by (apply Forall_app in Hab; destruct Hab as [_ Hab]; inversion Hab; assumption).
        assert (Hnp1 : NPH (m1' ++ [pv])) by (rewrite K2 in P2; unfold NPH in *; apply Forall_app in P2; apply P2).
        assert (Epv : rNP pv == rH pv) by (unfold NPH in Hnp1; apply Forall_app in Hnp1; destruct Hnp1 as [_ Hnp1]; inversion Hnp1; assumption).
        assert (Er' : rNP r' == rH r') by apply Pre'.
        assert (Htd' : Tdesc tq (a ++ r' :: pv :: b)) by (rewrite <- Et; exact Htd).
        assert (G : sgap false tq (ptH pv) (ptH r')).
        { unfold Tdesc in Htd'. rewrite map_app in Htd'. apply mono_app_r in Htd'. rewrite !map_cons in Htd'.
          destruct Htd' as [G0 _]. unfold sgap, ptH in *. cbn [fst] in *. exact G0. }
        assert (Hcross : CrossW false tq (rH cur) pv r').
        { assert (Hin : In (rH cur) Ls) by (inversion P6; assumption).
          assert (Hpair : Forall (fun L => CrossW false tq L pv r') Ls).
          { apply (CrossAll_pair false tq Ls (cur :: m1') pv r' rs').
            replace ((cur :: m1') ++ pv :: r' :: rs') with (cur :: (m1' ++ [pv]) ++ r' :: rs') by list_eq.
            rewrite <- K2. exact P5. }
          rewrite Forall_forall in Hpair. apply Hpair. exact Hin. }
        assert (HLp : rH cur <= rH pv) by (destruct Hpv; lra).
        destruct (cross_between false tq (rH cur) pv r' ltac:(lra) ltac:(lra) HLp G) as [B1 B2]. fold t0 in B1, B2.
        cbn [sleP sltP] in B1, B2.
        assert (Efar : far_from tq t0 t = qltb tq (Qabs (rT pv - t0)) && qltb tq (Qabs (rT r' - t0))).
        { rewrite Et. rewrite far_from_local; [apply andb_comm|lra|exact Htd'|lra]. }
        unfold insert_T. rewrite Efar.
        assert (E2 : qltb (rH pv) (rH r' - tq) = false) by (apply qltb_false; lra).
        destruct (bp_ins_cases false tq (mk_dn tq) Ht (mk_dn_spec tq ltac:(lra)) (rH cur) pv r' K5 Hpv G Epv Er' Hcross)
          as [[Ei EL]|[bp [Ei [B3 [B4 [G1 [G2 B5]]]]]]]; rewrite Ei.
        -- (* no breakpoint: the pocket closes exactly on the row pv; the code flattens pv too (repair of D56) *)
           unfold bp_ins in Ei. fold t0 in Ei.
           destruct (qltb tq (Qabs (rT pv - t0)) && qltb tq (Qabs (rT r' - t0))) eqn:Echk; [discriminate|].
           cbn [Nat.ltb Nat.leb orb]. rewrite Hi. rewrite Nat.sub_0_r.
           assert (Es : set_np t e i (rH cur) = (a ++ [r']) ++ flat (rH cur) (pv :: rev m1') ++ cur :: post).
           { rewrite Et. replace (a ++ r' :: pv :: b) with ((a ++ [r']) ++ (pv :: rev m1') ++ cur :: post) by (unfold b; list_eq).
             apply set_np_block.
             - rewrite app_length. simpl. unfold e in *. lia.
             - rewrite app_length. simpl. rewrite rev_length. unfold i. rewrite Hlen. unfold e in Ha. lia. }
           rewrite Es.
           (* one more iteration at the (flattened) row pv: no pocket opens there *)
           destruct f as [|f']; [simpl in Hlen; lia|]. rewrite loop_dn_S.
           assert (E1 : (e <=? p)%nat = false) by (apply Nat.leb_gt; unfold e; lia). rewrite E1.
           replace ((a ++ [r']) ++ flat (rH cur) (pv :: rev m1') ++ cur :: post)
             with ((a ++ [r']) ++ with_np pv (rH cur) :: flat (rH cur) (rev m1') ++ cur :: post) by reflexivity.
           rewrite (Hat_mid' (a ++ [r']) (with_np pv (rH cur)) _ e) by (rewrite app_length; simpl; unfold e in *; lia).
           replace ((a ++ [r']) ++ with_np pv (rH cur) :: flat (rH cur) (rev m1') ++ cur :: post)
             with (a ++ r' :: with_np pv (rH cur) :: flat (rH cur) (rev m1') ++ cur :: post) by list_eq.
           rewrite (Hat_mid' a r' _ (e - 1)%nat) by lia.
           cbn [rH with_np]. rewrite E2.
           assert (Hplr : PinchLow tq r' rs') by (apply (PinchLow_suffix tq cur (r :: rs) (m1' ++ [pv]) r' rs' Hpl); exact K2).
           destruct (IH rs' ltac:(simpl in Hlen; lia) f' pre r' (with_np pv (rH cur) :: flat (rH cur) (rev m1') ++ cur :: post) hp cp
                       ltac:(simpl in Hlen; lia) Pre' Hplr) as [t' [Ek [Lk Tk]]].
           { replace (pre ++ rev rs' ++ r' :: with_np pv (rH cur) :: flat (rH cur) (rev m1') ++ cur :: post)
               with ((a ++ [r']) ++ flat (rH cur) (pv :: rev m1') ++ cur :: post) by (unfold a; list_eq).
             apply Tdesc_flat. replace ((a ++ [r']) ++ (pv :: rev m1') ++ cur :: post) with (a ++ r' :: pv :: b) by (unfold b; list_eq).
             exact Htd'. }
           replace (a ++ r' :: with_np pv (rH cur) :: flat (rH cur) (rev m1') ++ cur :: post)
             with (pre ++ rev rs' ++ r' :: with_np pv (rH cur) :: flat (rH cur) (rev m1') ++ cur :: post) by (unfold a; list_eq).
           replace (e - 1)%nat with (List.length pre + List.length rs')%nat by (unfold e, p; lia).
           unfold p. rewrite Ek. exists t'. split; [reflexivity|]. split; [|exact Tk].
           rewrite (zsweep_fuel tq (mk_dn tq) (List.length rs) (List.length rs') r' rs') by (simpl in Hlen; lia).
           set (zs := zsweep tq (mk_dn tq) (List.length rs') r' rs') in *.
           replace (pre ++ rev ((flat (rH cur) (m1' ++ [pv]) ++ []) ++ r' :: zs) ++ cur :: post)
             with (pre ++ rev zs ++ r' :: with_np pv (rH cur) :: flat (rH cur) (rev m1') ++ cur :: post); [exact Lk|].
           rewrite app_nil_r. unfold flat. rewrite rev_app_distr. rewrite <- map_rev. rewrite rev_app_distr. cbn [rev app map]. list_eq.
        -- (* a breakpoint row bp is inserted between r' and pv *)
           unfold bp_ins in Ei. fold t0 in Ei.
           destruct (qltb tq (Qabs (rT pv - t0)) && qltb tq (Qabs (rT r' - t0))) eqn:Echk; [|discriminate].
           inversion Ei as [Ebp]. clear Ei.
           assert (Tbp : rT bp = t0) by (rewrite <- Ebp; unfold mk_dn; apply rT_interp_row).
           unfold sgap, ptH in G1, G2. cbn [fst] in G1, G2. rewrite Tbp in G1, G2.
           assert (Eins : ins_sorted tq t0 None t = a ++ r' :: bp :: pv :: b).
           { rewrite Et. rewrite ins_sorted_between; [unfold mk_dn in Ebp; rewrite Ebp; reflexivity| |lra].
             pose proof (Tdesc_above tq a r' (pv :: b) ltac:(lra) Htd') as Hab2.
             eapply Forall_impl; [|exact Hab2]. intros x Hx. cbv beta in Hx. lra. }
           rewrite Eins. cbn [Nat.ltb Nat.leb orb].
           assert (Hi' : Hat (a ++ r' :: bp :: pv :: b) (i + 1) = rH cur).
           { replace (a ++ r' :: bp :: pv :: b) with ((a ++ r' :: bp :: pv :: rev m1') ++ cur :: post) by (unfold b; list_eq).
             apply Hat_mid'. rewrite app_length. simpl. rewrite rev_length. unfold i. rewrite Hlen. unfold e in Ha. lia. }
           rewrite Hi'.
           assert (Es : set_np (a ++ r' :: bp :: pv :: b) (S e) (i + 1) (rH cur)
                        = (a ++ [r'; bp]) ++ flat (rH cur) (pv :: rev m1') ++ cur :: post).
           { replace (a ++ r' :: bp :: pv :: b) with ((a ++ [r'; bp]) ++ (pv :: rev m1') ++ cur :: post) by (unfold b; list_eq).
             apply set_np_block.
             - rewrite app_length. simpl. lia.
             - rewrite app_length. simpl. rewrite rev_length. unfold i. rewrite Hlen. unfold e in Ha. lia. }
           rewrite Es.
           assert (Hplr : PinchLow tq r' rs') by (apply (PinchLow_suffix tq cur (r :: rs) (m1' ++ [pv]) r' rs' Hpl); exact K2).
           destruct (IH rs' ltac:(simpl in Hlen; lia) f pre r' (bp :: flat (rH cur) (pv :: rev m1') ++ cur :: post) hp cp
                       ltac:(simpl in Hlen; lia) Pre' Hplr) as [t' [Ek [Lk Tk]]].
           { replace (pre ++ rev rs' ++ r' :: bp :: flat (rH cur) (pv :: rev m1') ++ cur :: post)
               with ((a ++ [r'; bp]) ++ flat (rH cur) (pv :: rev m1') ++ cur :: post) by (unfold a; list_eq).
             apply Tdesc_flat.
             replace ((a ++ [r'; bp]) ++ (pv :: rev m1') ++ cur :: post) with (a ++ r' :: bp :: pv :: b) by (unfold b; list_eq).
             apply Tdesc_insert; [exact Htd'| |]; rewrite Tbp; lra. }
           replace ((a ++ [r'; bp]) ++ flat (rH cur) (pv :: rev m1') ++ cur :: post)
             with (pre ++ rev rs' ++ r' :: bp :: flat (rH cur) (pv :: rev m1') ++ cur :: post) by (unfold a; list_eq).
           replace (e - 1)%nat with (List.length pre + List.length rs')%nat by (unfold e, p; lia).
           unfold p. rewrite Ek. exists t'. split; [reflexivity|]. split; [|exact Tk].
           rewrite (zsweep_fuel tq (mk_dn tq) (List.length rs) (List.length rs') r' rs') by (simpl in Hlen; lia).
           set (zs := zsweep tq (mk_dn tq) (List.length rs') r' rs') in *. rewrite ?Ebp.
           replace (pre ++ rev ((flat (rH cur) (m1' ++ [pv]) ++ [bp]) ++ r' :: zs) ++ cur :: post)
             with (pre ++ rev zs ++ r' :: bp :: flat (rH cur) (pv :: rev m1') ++ cur :: post); [exact Lk|].
           unfold flat. rewrite !rev_app_distr. rewrite <- map_rev. rewrite rev_app_distr. cbn [rev app map]. list_eq.
    + (* ---- no pocket: move on to r ---- *)
      assert (Pre' : SidePre false tq Ls r rs) by (apply (SidePre_suffix false tq Ls cur (r :: rs) [] r rs Pre); reflexivity).
      assert (Hplr : PinchLow tq r rs) by (apply (PinchLow_suffix tq cur (r :: rs) [] r rs Hpl); reflexivity).
      destruct (IH rs ltac:(lia) f pre r (cur :: post) hp cp ltac:(lia) Pre' Hplr) as [t' [Ek [Lk Tk]]].
      { replace (pre ++ rev rs ++ r :: cur :: post) with t by (unfold t; cbn [rev]; list_eq). exact Htd. }
      replace t with (pre ++ rev rs ++ r :: cur :: post) by (unfold t; cbn [rev]; list_eq).
      replace (i - 1)%nat with (List.length pre + List.length rs)%nat by (unfold i, p; simpl; lia).
      unfold p. rewrite Ek. exists t'. split; [reflexivity|]. split; [|exact Tk].
      replace (pre ++ rev (r :: zsweep tq (mk_dn tq) (List.length rs) r rs) ++ cur :: post)
        with (pre ++ rev (zsweep tq (mk_dn tq) (List.length rs) r rs) ++ r :: cur :: post) by (cbn [rev]; list_eq).
      exact Lk.
Qed.
End SimDn.

Lemma rows_eqv_ptH a b : rows_eqv a b -> map ptH a = map ptH b.
Proof.
  induction 1 as [|x y a b [E1 [E2 _]] _ IH]; [reflexivity|]. simpl. rewrite IH. unfold ptH. rewrite E1, E2. reflexivity.
Qed.
Lemma rows_eqv_Tdesc tq a b : rows_eqv a b -> Tdesc tq a -> Tdesc tq b.
Proof. intros H. unfold Tdesc. rewrite (rows_eqv_ptH a b H). auto. Qed.
