(* Facts about the specification side of model/Cascade.v: heat content above/below a temperature,
   piecewise linearity between consecutive break points, and "the maximum over break points is the supremum". *)
From OP Require Import model.Base model.Cascade proofs.BaseFacts.
From Coq Require Import Lqa Lia.
Local Open Scope Q_scope.

Definition wfv (s : view) : Prop := lo s < hi s /\ 0 <= vcp s.
Definition wfs (ss : list view) : Prop := Forall wfv ss.

Ltac qmax_cases :=
  repeat match goal with
  | |- context [Qmax ?a ?b] =>
      let H := fresh "M" in let m := fresh "m" in
      pose proof (Q.max_spec a b) as H; set (m := Qmax a b) in *; clearbody m
  | |- context [Qmin ?a ?b] =>
      let H := fresh "M" in let m := fresh "m" in
      pose proof (Q.min_spec a b) as H; set (m := Qmin a b) in *; clearbody m
  | K : context [Qmax ?a ?b] |- _ =>
      let H := fresh "M" in let m := fresh "m" in
      pose proof (Q.max_spec a b) as H; set (m := Qmax a b) in *; clearbody m
  | K : context [Qmin ?a ?b] |- _ =>
      let H := fresh "M" in let m := fresh "m" in
      pose proof (Q.min_spec a b) as H; set (m := Qmin a b) in *; clearbody m
  end.
Ltac split_cases :=
  repeat match goal with H : (_ /\ _) \/ (_ /\ _) |- _ => destruct H as [[? ?]|[? ?]] end.

Lemma above_below s T : lo s <= hi s -> above s T + below s T == hi s - lo s.
Proof. intro H. unfold above, below. qmax_cases. split_cases; lra. Qed.
Lemma above_nonneg s T : 0 <= above s T.
Proof. unfold above. apply Q.le_max_l. Qed.
Lemma above_top s T : hi s <= T -> above s T == 0.
Proof. intro H. unfold above. qmax_cases. split_cases; lra. Qed.
Lemma above_bottom s T : T <= lo s -> lo s <= hi s -> above s T == hi s - lo s.
Proof. intros H H2. unfold above. qmax_cases. split_cases; lra. Qed.
Lemma above_le_span s T : lo s <= hi s -> above s T <= hi s - lo s.
Proof. intro H. unfold above. qmax_cases. split_cases; lra. Qed.

(* between two consecutive break points nothing starts or ends *)
Definition no_inner (s : view) (up low : Q) : Prop :=
  ~ (low < lo s /\ lo s < up) /\ ~ (low < hi s /\ hi s < up).
Definition spans (s : view) (up low : Q) : bool := qleb (lo s) low && qleb up (hi s).

Lemma above_lin s up low T : lo s < hi s -> no_inner s up low -> low <= T -> T <= up ->
  above s T - above s up == (if spans s up low then up - T else 0).
Proof.
  intros Hs [H1 H2] HT1 HT2. unfold above, spans.
  destruct (qleb (lo s) low) eqn:E1; destruct (qleb up (hi s)) eqn:E2; simpl;
    try (apply qleb_true in E1); try (apply qleb_false in E1); try (apply qleb_true in E2); try (apply qleb_false in E2);
    qmax_cases; split_cases; try lra; exfalso;
    try (apply H1; split; lra); try (apply H2; split; lra).
Qed.

Definition spansum (ss : list view) (up low : Q) : Q :=
  fold_right (fun s a => (if spans s up low then vcp s else 0) + a) 0 ss.

Lemma heat_above_lin ss up low T : wfs ss -> Forall (fun s => no_inner s up low) ss -> low <= T -> T <= up ->
  heat_above ss T - heat_above ss up == (up - T) * spansum ss up low.
Proof.
  intros W N H1 H2. induction ss as [|s ss IH]; simpl; [ring|].
  inversion W as [|? ? [Ws _] W']; subst. inversion N as [|? ? Ns N']; subst. specialize (IH W' N').
  pose proof (above_lin s up low T Ws Ns H1 H2) as A.
  destruct (spans s up low); nra.
Qed.

Lemma heat_above_top ss T : (forall s, In s ss -> hi s <= T) -> heat_above ss T == 0.
Proof.
  induction ss as [|s ss IH]; simpl; intro H; [reflexivity|].
  rewrite (above_top s T) by (apply H; left; reflexivity). rewrite IH; [ring|]. intros s' Hs. apply H. right; exact Hs.
Qed.
Lemma heat_above_bottom ss T : wfs ss -> (forall s, In s ss -> T <= lo s) -> heat_above ss T == duty ss.
Proof.
  induction ss as [|s ss IH]; simpl; intros W H; [reflexivity|]. inversion W as [|? ? [Ws _] W']; subst.
  rewrite (above_bottom s T) by (try apply H; try (left; reflexivity); lra).
  rewrite IH; [reflexivity|exact W'|]. intros s' Hs. apply H. right; exact Hs.
Qed.
Lemma heat_above_below ss T : wfs ss -> heat_above ss T + heat_below ss T == duty ss.
Proof.
  induction ss as [|s ss IH]; simpl; intro W; [reflexivity|]. inversion W as [|? ? [Ws _] W']; subst.
  specialize (IH W'). pose proof (above_below s T ltac:(lra)) as A. nra.
Qed.
Lemma heat_above_nonneg ss T : wfs ss -> 0 <= heat_above ss T.
Proof.
  induction ss as [|s ss IH]; simpl; intro W; [lra|]. inversion W as [|? ? [_ Wc] W']; subst.
  specialize (IH W'). pose proof (above_nonneg s T). nra.
Qed.
Lemma heat_above_le_duty ss T : wfs ss -> heat_above ss T <= duty ss.
Proof.
  induction ss as [|s ss IH]; simpl; intro W; [lra|]. inversion W as [|? ? [Ws Wc] W']; subst.
  specialize (IH W'). pose proof (above_le_span s T ltac:(lra)). nra.
Qed.
Lemma duty_nonneg ss : wfs ss -> 0 <= duty ss.
Proof.
  induction ss as [|s ss IH]; simpl; intro W; [lra|]. inversion W as [|? ? [Ws Wc] W']; subst. specialize (IH W'). nra.
Qed.

(* ---------- descending lists ---------- *)
Definition lt_head (y : Q) (l : list Q) : Prop := match l with [] => True | z :: _ => z < y end.
Fixpoint desc (l : list Q) : Prop := match l with [] => True | x :: t => lt_head x t /\ desc t end.
Definition InQ (x : Q) (l : list Q) : Prop := exists y, In y l /\ y == x.
Definition covers (g : list Q) (es : list Q) : Prop := forall e, In e es -> InQ e g.

Lemma desc_tail_lt x t : desc (x :: t) -> Forall (fun z => z < x) t.
Proof.
  revert x. induction t as [|y t IH]; intros x Hd; [constructor|].
  simpl in Hd. destruct Hd as [Hxy Hd]. constructor; [exact Hxy|].
  specialize (IH y Hd). eapply Forall_impl; [|exact IH]. simpl. intros z Hz. lra.
Qed.
Lemma desc_b_desc l : desc_b l = true <-> desc l.
Proof.
  induction l as [|a t IH]; simpl; [split; auto|]. destruct t as [|b t'].
  - simpl. split; auto.
  - rewrite andb_true_iff, qltb_true, IH. simpl. tauto.
Qed.

(* the endpoints of one stream are break points *)
Lemma endpoints_in ss s : In s ss -> In (lo s) (endpoints ss) /\ In (hi s) (endpoints ss).
Proof. intro H. unfold endpoints. split; apply in_flat_map; exists s; (split; [exact H|simpl; auto]). Qed.

(* in a descending list that contains every break point, nothing lies strictly between neighbours *)
Lemma no_inner_consecutive g pre a b post ss :
  g = pre ++ a :: b :: post -> desc g -> covers g (endpoints ss) -> Forall (fun s => no_inner s a b) ss.
Proof.
  intros E Hd Hc. rewrite Forall_forall. intros s Hs.
  assert (K : forall e, In e (endpoints ss) -> ~ (b < e /\ e < a)).
  { intros e He [Hb Ha]. destruct (Hc e He) as [z [Hz Ez]]. subst g.
    assert (Hd2 : desc (a :: b :: post)).
    { clear - Hd. induction pre as [|p pre IH]; simpl in *; [exact Hd|]. apply IH. apply Hd. }
    assert (Fpre : Forall (fun z => a < z) pre).
    { clear - Hd. induction pre as [|p pre IH]; simpl in *; [constructor|]. constructor.
      - pose proof (desc_tail_lt _ _ Hd) as F. rewrite Forall_forall in F. apply F. apply in_or_app. right. left. reflexivity.
      - apply IH. apply Hd. }
    pose proof (desc_tail_lt _ _ Hd2) as Fa.
    assert (Hd3 : desc (b :: post)) by (simpl in Hd2; apply Hd2).
    pose proof (desc_tail_lt _ _ Hd3) as Fb.
    apply in_app_or in Hz. destruct Hz as [Hz|[Hz|[Hz|Hz]]].
    - rewrite Forall_forall in Fpre. specialize (Fpre _ Hz). lra.
    - subst. lra.
    - subst. lra.
    - rewrite Forall_forall in Fb. specialize (Fb _ Hz). lra. }
  destruct (endpoints_in ss s Hs) as [L H]. split; [apply (K _ L)|apply (K _ H)].
Qed.

(* ---------- the net deficit is piecewise linear between break points: its supremum is attained on them ---------- *)
Section Sup.
Variables hot cold : list view.
Hypothesis Wh : wfs hot.
Hypothesis Wc : wfs cold.
Let D := Dnet hot cold.
Definition eps_all : list Q := endpoints hot ++ endpoints cold.

Lemma covers_split g : covers g eps_all -> covers g (endpoints hot) /\ covers g (endpoints cold).
Proof. intro H. split; intros e He; apply H; unfold eps_all; apply in_or_app; [left|right]; exact He. Qed.

Lemma D_lin g pre a b post T : g = pre ++ a :: b :: post -> desc g -> covers g eps_all -> b <= T -> T <= a ->
  D T - D a == (a - T) * (spansum cold a b - spansum hot a b).
Proof.
  intros E Hd Hc H1 H2. destruct (covers_split g Hc) as [Ch Cc].
  pose proof (no_inner_consecutive g pre a b post hot E Hd Ch) as Nh.
  pose proof (no_inner_consecutive g pre a b post cold E Hd Cc) as Nc.
  unfold D, Dnet.
  pose proof (heat_above_lin hot a b T Wh Nh H1 H2). pose proof (heat_above_lin cold a b T Wc Nc H1 H2). nra.
Qed.

Lemma D_between g pre a b post T : g = pre ++ a :: b :: post -> desc g -> covers g eps_all -> b <= T -> T <= a ->
  D T <= D a \/ D T <= D b.
Proof.
  intros E Hd Hc H1 H2.
  assert (Hab : b < a).
  { subst g. clear - Hd. induction pre as [|p pre IH]; simpl in *; [apply Hd|apply IH; apply Hd]. }
  pose proof (D_lin g pre a b post T E Hd Hc H1 H2) as L1.
  pose proof (D_lin g pre a b post b E Hd Hc ltac:(lra) ltac:(lra)) as L2.
  set (K := spansum cold a b - spansum hot a b) in *.
  destruct (Qlt_le_dec K 0) as [Kn|Kp]; [left|right]; nra.
Qed.

Lemma desc_le_head a t z : desc (a :: t) -> In z (a :: t) -> z <= a.
Proof. intros Hd [E|Hz]; [subst; lra|]. pose proof (desc_tail_lt _ _ Hd) as F. rewrite Forall_forall in F. specialize (F _ Hz). lra. Qed.
Lemma desc_ge_last g z : desc g -> In z g -> last g 0 <= z.
Proof.
  revert z. induction g as [|a t IH]; intros z Hd Hz; [destruct Hz|]. destruct t as [|b t'].
  - destruct Hz as [E|[]]. subst. simpl. lra.
  - change (last (a :: b :: t') 0) with (last (b :: t') 0). destruct Hz as [E|Hz].
    + subst. assert (H : In b (b :: t')) by (left; reflexivity).
      pose proof (IH b (proj2 Hd) H). destruct Hd as [Hba _]. simpl in Hba. lra.
    + apply IH; [apply Hd|exact Hz].
Qed.
Lemma last_in (g : list Q) : g <> [] -> In (last g 0) g.
Proof. induction g as [|a t IH]; intro N; [contradiction|]. destruct t as [|b t']; [left; reflexivity|]. right. apply IH. discriminate. Qed.

Lemma bracket g T : desc g -> g <> [] -> last g 0 <= T -> T <= hd 0 g -> (List.length g >= 2)%nat ->
  exists pre a b post, g = pre ++ a :: b :: post /\ b <= T /\ T <= a.
Proof.
  induction g as [|a t IH]; intros Hd N HL HH Hn; [contradiction|]. destruct t as [|b t']; [simpl in Hn; lia|].
  destruct (Qlt_le_dec T b) as [Hlt|Hge].
  - destruct t' as [|c t''].
    + simpl in HL. lra.
    + destruct (IH (proj2 Hd) ltac:(discriminate) HL ltac:(simpl; lra) ltac:(simpl; lia)) as [pre [a' [b' [post [E [H1 H2]]]]]].
      exists (a :: pre), a', b', post. split; [simpl; rewrite E; reflexivity|split; assumption].
  - exists [], a, b, t'. split; [reflexivity|]. split; [exact Hge|exact HH].
Qed.

Theorem sup_on_grid g : desc g -> g <> [] -> covers g eps_all ->
  forall T, D T <= 0 \/ exists T', In T' g /\ D T <= D T'.
Proof.
  intros Hd N Hc T. destruct (covers_split g Hc) as [Ch Cc].
  destruct g as [|a t] eqn:Eg; [contradiction|]. rewrite <- Eg in *.
  assert (Htop : forall ss, covers g (endpoints ss) -> forall s, In s ss -> hi s <= a).
  { intros ss C s Hs. destruct (C (hi s) (proj2 (endpoints_in ss s Hs))) as [z [Hz Ez]]. rewrite Eg in Hz, Hd.
    pose proof (desc_le_head a t z Hd Hz). lra. }
  assert (Hbot : forall ss, covers g (endpoints ss) -> forall s, In s ss -> last g 0 <= lo s).
  { intros ss C s Hs. destruct (C (lo s) (proj1 (endpoints_in ss s Hs))) as [z [Hz Ez]].
    pose proof (desc_ge_last g z Hd Hz). lra. }
  destruct (Qlt_le_dec a T) as [Ha|Ha].
  - left. unfold D, Dnet.
    rewrite (heat_above_top hot T) by (intros s Hs; pose proof (Htop hot Ch s Hs); lra).
    rewrite (heat_above_top cold T) by (intros s Hs; pose proof (Htop cold Cc s Hs); lra). lra.
  - destruct (Qlt_le_dec T (last g 0)) as [Hb|Hb].
    + right. exists (last g 0). split; [apply last_in; rewrite Eg; discriminate|]. unfold D, Dnet.
      rewrite (heat_above_bottom hot T Wh) by (intros s Hs; pose proof (Hbot hot Ch s Hs); lra).
      rewrite (heat_above_bottom cold T Wc) by (intros s Hs; pose proof (Hbot cold Cc s Hs); lra).
      rewrite (heat_above_bottom hot (last g 0) Wh) by (intros s Hs; apply (Hbot hot Ch s Hs)).
      rewrite (heat_above_bottom cold (last g 0) Wc) by (intros s Hs; apply (Hbot cold Cc s Hs)). lra.
    + destruct t as [|b t'].
      * right. exists a. split; [rewrite Eg; left; reflexivity|]. rewrite Eg in Hb. simpl in Hb.
        assert (ET : T == a) by lra. unfold D, Dnet.
        assert (X : forall ss, heat_above ss T == heat_above ss a).
        { intro ss. induction ss as [|s ss IH]; simpl; [reflexivity|]. rewrite IH. unfold above. rewrite ET. reflexivity. }
        rewrite !X. lra.
      * destruct (bracket g T Hd N Hb ltac:(rewrite Eg; simpl; lra) ltac:(rewrite Eg; simpl; lia)) as [pre [a' [b' [post [E [H1 H2]]]]]].
        right. destruct (D_between g pre a' b' post T E Hd Hc H1 H2) as [K|K]; [exists a'|exists b']; (split; [|exact K]);
          rewrite E; apply in_or_app; right; [left; reflexivity|right; left; reflexivity].
Qed.

(* values of D at the top and bottom of a covering grid *)
Lemma D_top g : desc g -> g <> [] -> covers g eps_all -> D (hd 0 g) == 0.
Proof.
  intros Hd N Hc. destruct (covers_split g Hc) as [Ch Cc]. destruct g as [|a t]; [contradiction|]. simpl.
  assert (Htop : forall ss, covers (a :: t) (endpoints ss) -> forall s, In s ss -> hi s <= a).
  { intros ss C s Hs. destruct (C (hi s) (proj2 (endpoints_in ss s Hs))) as [z [Hz Ez]].
    pose proof (desc_le_head a t z Hd Hz). lra. }
  unfold D, Dnet. rewrite (heat_above_top hot a) by (apply Htop; exact Ch).
  rewrite (heat_above_top cold a) by (apply Htop; exact Cc). lra.
Qed.
Lemma heat_above_last g ss : wfs ss -> desc g -> covers g (endpoints ss) -> heat_above ss (last g 0) == duty ss.
Proof.
  intros W Hd C. apply heat_above_bottom; [exact W|]. intros s Hs.
  destruct (C (lo s) (proj1 (endpoints_in ss s Hs))) as [z [Hz Ez]]. pose proof (desc_ge_last g z Hd Hz). lra.
Qed.
End Sup.

(* ---------- the descending duplicate-free insertion used to build grids ---------- *)
Lemma ins_lt_head x y t : x < y -> lt_head y t -> lt_head y (ins x t).
Proof. destruct t as [|z t']; simpl; intros Hx Ht; [exact Hx|]. destruct (Qcompare x z); simpl; assumption. Qed.
Lemma ins_desc x l : desc l -> desc (ins x l).
Proof.
  induction l as [|y t IH]; simpl; intros Hd; [auto|]. destruct Hd as [H1 H2]. destruct (Qcompare x y) eqn:C.
  - simpl. split; assumption.
  - assert (Hlt : x < y) by (apply Qlt_alt; exact C). simpl. split; [apply ins_lt_head; assumption|apply IH; exact H2].
  - assert (Hgt : y < x) by (apply Qgt_alt; exact C). simpl. split; [exact Hgt|split; assumption].
Qed.
Lemma ins_in x l : InQ x (ins x l).
Proof.
  induction l as [|y t IH]; simpl.
  - exists x; split; [left; reflexivity|reflexivity].
  - destruct (Qcompare x y) eqn:C.
    + apply Qeq_alt in C. exists y; split; [left; reflexivity|symmetry; exact C].
    + destruct IH as [z [Hz E]]. exists z; split; [right; exact Hz|exact E].
    + exists x; split; [left; reflexivity|reflexivity].
Qed.
Lemma ins_keeps x l z : InQ z l -> InQ z (ins x l).
Proof.
  induction l as [|y t IH]; simpl; intros [v [Hv E]]; [destruct Hv|].
  destruct (Qcompare x y) eqn:C.
  - exists v; split; [exact Hv|exact E].
  - destruct Hv as [Hv|Hv].
    + exists v; split; [left; exact Hv|exact E].
    + destruct (IH (ex_intro _ v (conj Hv E))) as [u [Hu Eu]]. exists u; split; [right; exact Hu|exact Eu].
  - exists v; split; [right; exact Hv|exact E].
Qed.
Lemma ins_only x l z : In z (ins x l) -> z = x \/ In z l.
Proof.
  induction l as [|y t IH]; simpl.
  - intros [E|[]]; left; symmetry; exact E.
  - destruct (Qcompare x y); simpl; intros Hz.
    + right; exact Hz.
    + destruct Hz as [E|Hz]; [right; left; exact E|]. destruct (IH Hz) as [E|Hin]; [left; exact E|right; right; exact Hin].
    + destruct Hz as [E|Hz]; [left; symmetry; exact E|right; exact Hz].
Qed.
Definition sorted_of (es : list Q) : list Q := fold_right ins [] es.
Lemma sorted_of_desc es : desc (sorted_of es).
Proof. unfold sorted_of. induction es as [|e es IH]; simpl; [exact I|apply ins_desc; exact IH]. Qed.
Lemma sorted_of_has es e : In e es -> InQ e (sorted_of es).
Proof. unfold sorted_of. induction es as [|x es IH]; simpl; [intros []|]. intros [E|Hin]; [subst; apply ins_in|apply ins_keeps; apply IH; exact Hin]. Qed.
Lemma sorted_of_only es z : In z (sorted_of es) -> In z es.
Proof.
  unfold sorted_of. induction es as [|x es IH]; simpl; [intros []|]. intros Hz.
  destruct (ins_only _ _ _ Hz) as [E|Hin]; [left; symmetry; exact E|right; apply IH; exact Hin].
Qed.
