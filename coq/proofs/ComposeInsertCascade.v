(* Composition of the C05 model (model/Cascade.v: the problem table algorithm and the exact stream heat contents) with the
   C08 model (model/Insert.v: ProblemTable.insert_temperature_interval).

   C05 asks that the composite-curve clauses hold at "every row of the tables, including rows inserted later".
   proofs/CascadeTargets.v proves them at the rows of the table the cascade builds; proofs/InsertCurve.v proves that an
   insertion never changes an interpolated column as a function of temperature.  Here the two are put together:

   1. generic part (no streams): if a column j of a table carries the values of a function f at its rows, f is linear
      between consecutive row temperatures and constant above the first / below the last row, then after ANY history of
      insertions the column carries f at EVERY row, old or inserted (`on_curve_survives`);
   2. the exact heat content `heat_below ss` of a stream set is such a function on every descending grid that contains all
      stream end points (`heat_below_pwl`), and so are offset + heat_below cold and (offset + heat_below cold) - heat_below hot;
   3. hence the three curve clauses survive every insertion history (`curve_clauses_survive`), in particular starting from
      the table of the cascade model (`stage_inserted_rows_exact`, via the bridge `represents` between the column
      representation Cascade.ptab and the row representation Insert.table);
   4. the targets read from the first / last row (Qh = H_net first, Qc = H_net last, Qr = H_hot first - Qc) are unchanged by
      every insertion history, although the first / last ROW itself may be a new edge row (`stage_targets_survive`). *)
From OP Require Import gen.Consts model.Base model.Cascade proofs.BaseFacts proofs.CascadeSpec proofs.CascadeExact proofs.CascadeTargets proofs.CascadeGrid.
From OP Require Import model.Insert proofs.Insert proofs.InsertCurve proofs.InsertSeq proofs.InsertPL.
From Coq Require Import Lqa Lia.
Local Open Scope Q_scope.
Local Arguments Qred : simpl never.

(* ================================================================== 1. generic part *)
(* column j carries f at every row *)
Definition on_curve (j : nat) (f : Q -> Q) (t : table) : Prop :=
  forall r, In r t -> exists q, hcell j r = Some q /\ q == f (rT r).

(* f is the linear interpolation of its own end values on each interval between consecutive temperatures a > b > ... *)
Fixpoint lin_from (f : Q -> Q) (a : Q) (l : list Q) : Prop :=
  match l with
  | [] => True
  | b :: r => (forall x, b <= x -> x <= a -> f x == lin (a, f a) (b, f b) x) /\ lin_from f b r
  end.
(* ... and constant above the first and below the last temperature *)
Definition pwl (f : Q -> Q) (ts : list Q) : Prop :=
  match ts with
  | [] => True
  | a :: r => (forall x, a <= x -> f x == f a) /\ lin_from f a r /\ (forall x, x <= last r a -> f x == f (last r a))
  end.

Lemma on_curve_ext j f g t : (forall x, f x == g x) -> on_curve j f t -> on_curve j g t.
Proof. intros E H r Hr. destruct (H r Hr) as [q [H1 H2]]. exists q. split; [exact H1|]. rewrite H2. apply E. Qed.
Lemma on_curve_populated j f t : on_curve j f t -> populated j t.
Proof. intros H r Hr. destruct (H r Hr) as [q [H1 _]]. exists q. exact H1. Qed.

Lemma lin_vals a b va vb va' vb' x : va == va' -> vb == vb' -> lin (a, va) (b, vb) x == lin (a, va') (b, vb') x.
Proof. intros E1 E2. unfold lin. cbn [fst snd]. rewrite E1, E2. reflexivity. Qed.

Lemma plgo_eq_f j f rest : forall prev,
  on_curve j f (prev :: rest) -> dfrom (rT prev) (pts j rest) -> lin_from f (rT prev) (map rT rest) ->
  (forall x, x <= last (map rT rest) (rT prev) -> f x == f (last (map rT rest) (rT prev))) ->
  forall y, y <= rT prev -> plgo (InsertCurve.pt j prev) (pts j rest) y == f y.
Proof.
  induction rest as [|r rs IH]; intros prev On D L B y Hy.
  - simpl. destruct (On prev (or_introl eq_refl)) as [q [H1 H2]]. rewrite H1. cbn [cv]. rewrite H2.
    symmetry. apply (B y). exact Hy.
  - change (pts j (r :: rs)) with (InsertCurve.pt j r :: pts j rs). simpl plgo.
    change (fst (InsertCurve.pt j r)) with (rT r). simpl in D. destruct D as [D1 D2].
    cbn [map lin_from] in L. destruct L as [L1 L2].
    destruct (Qle_bool (rT r) y) eqn:E.
    + apply Qle_bool_iff in E. rewrite (L1 y E Hy).
      destruct (On prev (or_introl eq_refl)) as [qp [P1 P2]]. destruct (On r (or_intror (or_introl eq_refl))) as [qr [R1 R2]].
      unfold InsertCurve.pt. rewrite P1, R1. cbn [cv]. apply lin_vals; assumption.
    + apply Qle_bool_false in E. apply IH.
      * intros r' Hr'. apply On. right. exact Hr'.
      * exact D2.
      * exact L2.
      * intros x Hx. cbn [map] in B. rewrite last_cons_default in B. apply B. exact Hx.
      * lra.
Qed.

(* such a column, read as a polyline, IS f -- at every temperature *)
Lemma pl_eq_f tolv j f t : 0 <= tolv -> WF tolv t -> on_curve j f t -> pwl f (map rT t) -> forall y, pl (pts j t) y == f y.
Proof.
  intros Htol W On P y. pose proof (WF_sdesc tolv Htol j t W) as D. destruct t as [|r0 t]; [destruct W; congruence|].
  cbn [map pwl] in P. destruct P as [Pa [Pl Pb]].
  change (pts j (r0 :: t)) with (InsertCurve.pt j r0 :: pts j t) in *. simpl pl. change (fst (InsertCurve.pt j r0)) with (rT r0).
  destruct (Qle_bool (rT r0) y) eqn:E.
  - apply Qle_bool_iff in E. destruct (On r0 (or_introl eq_refl)) as [q [H1 H2]].
    unfold InsertCurve.pt. rewrite H1. cbn [snd cv]. rewrite H2. symmetry. apply Pa. exact E.
  - apply Qle_bool_false in E. apply plgo_eq_f; [exact On|exact D|exact Pl|exact Pb|lra].
Qed.

Section Generic.
Variable tolv : Q.
Hypothesis Htol : 0 <= tolv.

(* THE GENERIC THEOREM: after any history of insertions the column carries f at every row, old or inserted *)
Theorem on_curve_survives j f t0 : WF tolv t0 -> on_curve j f t0 -> pwl f (map rT t0) ->
  forall reqss, on_curve j f (fst (run_t tolv t0 reqss)).
Proof.
  intros W On P reqss r Hr.
  destruct (history_row_on_pl tolv Htol j t0 reqss r W (on_curve_populated j f t0 On) Hr) as [q [H1 H2]].
  exists q. split; [exact H1|]. rewrite H2. apply (pl_eq_f tolv); assumption.
Qed.
End Generic.

(* closure of pwl under affine combinations (cold curve = offset + ..., net curve = cold - hot) *)
Lemma lin_comb c k1 k2 a b fa fb ga gb x :
  c + k1 * lin (a, fa) (b, fb) x + k2 * lin (a, ga) (b, gb) x == lin (a, c + k1 * fa + k2 * ga) (b, c + k1 * fb + k2 * gb) x.
Proof. unfold lin, Qdiv. cbn [fst snd]. ring. Qed.
Lemma lin_from_comb c k1 k2 f g l : forall a, lin_from f a l -> lin_from g a l ->
  lin_from (fun x => c + k1 * f x + k2 * g x) a l.
Proof.
  induction l as [|b l IH]; intros a Hf Hg; [exact I|]. destruct Hf as [F1 F2]. destruct Hg as [G1 G2].
  split; [|apply IH; assumption]. intros x H1 H2. cbv beta. rewrite (F1 x H1 H2), (G1 x H1 H2). apply lin_comb.
Qed.
Lemma pwl_comb c k1 k2 f g ts : pwl f ts -> pwl g ts -> pwl (fun x => c + k1 * f x + k2 * g x) ts.
Proof.
  destruct ts as [|a r]; [intros; exact I|]. intros [Fa [Fl Fb]] [Ga [Gl Gb]]. split; [|split].
  - intros x Hx. cbv beta. rewrite (Fa x Hx), (Ga x Hx). reflexivity.
  - apply lin_from_comb; assumption.
  - intros x Hx. cbv beta. rewrite (Fb x Hx), (Gb x Hx). reflexivity.
Qed.

(* ================================================================== 2. heat_below is such a function *)
Lemma heat_below_top ss x : wfs ss -> (forall s, In s ss -> hi s <= x) -> heat_below ss x == duty ss.
Proof. intros W H. pose proof (heat_above_below ss x W) as A. rewrite (heat_above_top ss x H) in A. lra. Qed.
Lemma heat_below_bottom ss x : wfs ss -> (forall s, In s ss -> x <= lo s) -> heat_below ss x == 0.
Proof. intros W H. pose proof (heat_above_below ss x W) as A. rewrite (heat_above_bottom ss x W H) in A. lra. Qed.

Lemma desc_mid_lt pre a b post : desc (pre ++ a :: b :: post) -> b < a.
Proof. induction pre as [|p pre IH]; simpl; intro H; [apply H|apply IH; apply H]. Qed.

Lemma heat_below_lin_from ss g : wfs ss -> desc g -> covers g (endpoints ss) ->
  forall rest pre a, g = pre ++ a :: rest -> lin_from (heat_below ss) a rest.
Proof.
  intros W Hd Hc. induction rest as [|b post IH]; intros pre a E; [exact I|]. split.
  - intros x H1 H2.
    pose proof (no_inner_consecutive g pre a b post ss E Hd Hc) as N.
    assert (Hab : b < a) by (subst g; eapply desc_mid_lt; exact Hd).
    pose proof (heat_above_lin ss a b x W N H1 H2) as Lx.
    pose proof (heat_above_lin ss a b b W N ltac:(lra) ltac:(lra)) as Lb.
    pose proof (heat_above_below ss x W) as Px. pose proof (heat_above_below ss a W) as Pa. pose proof (heat_above_below ss b W) as Pb.
    set (K := spansum ss a b) in *. unfold lin. cbn [fst snd].
    assert (Ed : (x - b) / (a - b) * (heat_below ss a - heat_below ss b) == (x - b) * K).
    { setoid_replace (heat_below ss a - heat_below ss b) with ((a - b) * K) by lra. field. lra. }
    rewrite Ed. lra.
  - apply (IH (pre ++ [a]) b). rewrite <- app_assoc. exact E.
Qed.

(* on every descending grid that contains all end points of the streams, the exact heat content below T is linear between
   neighbours, equal to the total duty above the top and to 0 below the bottom *)
Theorem heat_below_pwl ss g : wfs ss -> desc g -> covers g (endpoints ss) -> pwl (heat_below ss) g.
Proof.
  intros W Hd Hc. destruct g as [|a rest]; [exact I|]. split; [|split].
  - assert (Htop : forall s, In s ss -> hi s <= a).
    { intros s Hs. destruct (Hc (hi s) (proj2 (endpoints_in ss s Hs))) as [z [Hz Ez]]. pose proof (desc_le_head a rest z Hd Hz). lra. }
    intros x Hx. rewrite (heat_below_top ss x W) by (intros s Hs; pose proof (Htop s Hs); lra).
    rewrite (heat_below_top ss a W Htop). reflexivity.
  - apply (heat_below_lin_from ss (a :: rest) W Hd Hc rest [] a). reflexivity.
  - assert (Hbot : forall s, In s ss -> last rest a <= lo s).
    { intros s Hs. destruct (Hc (lo s) (proj1 (endpoints_in ss s Hs))) as [z [Hz Ez]]. pose proof (desc_ge_last (a :: rest) z Hd Hz) as L.
      rewrite last_cons_default in L. lra. }
    intros x Hx. rewrite (heat_below_bottom ss x W) by (intros s Hs; pose proof (Hbot s Hs); lra).
    rewrite (heat_below_bottom ss (last rest a) W Hbot). reflexivity.
Qed.

(* ================================================================== 3. the three curve clauses survive insertions *)
Lemma sep_desc tolv l : 0 <= tolv -> forall a, sep_from tolv a l -> desc (a :: l).
Proof.
  intro Htol. induction l as [|b l IH]; intros a H; simpl; [tauto|]. destruct H as [H1 H2].
  split; [lra|]. apply IH. exact H2.
Qed.
Lemma sepd_desc tolv l : 0 <= tolv -> sepd tolv l -> desc l.
Proof. intros Htol H. destruct l as [|a l]; [exact I|]. apply (sep_desc tolv); assumption. Qed.

Section Clauses.
Variable tolv : Q.
Hypothesis Htol : 0 <= tolv.
Variables hot cold : list view.
Hypothesis Wh : wfs hot.
Hypothesis Wc : wfs cold.
Variable offset : Q.
Variables jh jc jn : nat.      (* positions of H_hot, H_cold, H_net among the interpolated columns *)

Definition clauses_at (r : row) : Prop :=
  exists hh hc hn, hcell jh r = Some hh /\ hcell jc r = Some hc /\ hcell jn r = Some hn
    /\ hh == heat_below hot (rT r) /\ hc == offset + heat_below cold (rT r) /\ hn == hc - hh.

(* ANY table whose rows are more than tolv apart, whose temperatures contain every stream end point, and which satisfies the
   C05 curve clauses at its rows, satisfies them at every row after any history of insertions *)
Theorem curve_clauses_survive t0 : WF tolv t0 -> covers (map rT t0) (eps_all hot cold) ->
  (forall r, In r t0 -> clauses_at r) ->
  forall reqss r, In r (fst (run_t tolv t0 reqss)) -> clauses_at r.
Proof.
  intros W Hc H0 reqss r Hr.
  assert (Hd : desc (map rT t0)) by (apply (sepd_desc tolv); [exact Htol|destruct W; assumption]).
  destruct (covers_split hot cold _ Hc) as [Ch Cc].
  pose proof (heat_below_pwl hot _ Wh Hd Ch) as Ph. pose proof (heat_below_pwl cold _ Wc Hd Cc) as Pc.
  set (fc := fun x => offset + 1 * heat_below cold x + 0 * heat_below hot x).
  set (fn := fun x => offset + 1 * heat_below cold x + (-1) * heat_below hot x).
  assert (Oh : on_curve jh (heat_below hot) t0).
  { intros r0 Hr0. destruct (H0 r0 Hr0) as [hh [hc [hn [E1 [E2 [E3 [V1 [V2 V3]]]]]]]]. exists hh. split; assumption. }
  assert (Oc : on_curve jc fc t0).
  { intros r0 Hr0. destruct (H0 r0 Hr0) as [hh [hc [hn [E1 [E2 [E3 [V1 [V2 V3]]]]]]]]. exists hc. split; [exact E2|]. unfold fc. lra. }
  assert (On : on_curve jn fn t0).
  { intros r0 Hr0. destruct (H0 r0 Hr0) as [hh [hc [hn [E1 [E2 [E3 [V1 [V2 V3]]]]]]]]. exists hn. split; [exact E3|]. unfold fn. lra. }
  destruct (on_curve_survives tolv Htol jh _ t0 W Oh Ph reqss r Hr) as [hh [E1 V1]].
  destruct (on_curve_survives tolv Htol jc fc t0 W Oc (pwl_comb offset 1 0 _ _ _ Pc Ph) reqss r Hr) as [hc [E2 V2]].
  destruct (on_curve_survives tolv Htol jn fn t0 W On (pwl_comb offset 1 (-1) _ _ _ Pc Ph) reqss r Hr) as [hn [E3 V3]].
  exists hh, hc, hn. unfold fc in V2. unfold fn in V3. repeat split; try assumption; lra.
Qed.
End Clauses.

(* ================================================================== bridge: Cascade.ptab (columns) <-> Insert.table (rows) *)
Definition key_index (k : Consts.pt) : nat := pt_index_from 0 interpolation_keys k.
Definition j_hot : nat := Eval vm_compute in key_index pt_H_HOT.
Definition j_cold : nat := Eval vm_compute in key_index pt_H_COLD.
Definition j_net : nat := Eval vm_compute in key_index pt_H_NET.
(* the three columns are among the interpolated ones, at three different positions *)
Lemma curve_columns_interpolated :
  nth_error interpolation_keys j_hot = Some pt_H_HOT /\ nth_error interpolation_keys j_cold = Some pt_H_COLD
  /\ nth_error interpolation_keys j_net = Some pt_H_NET.
Proof. vm_compute. repeat split; reflexivity. Qed.

(* a row table represents a column table when temperature and the three curve columns agree cell by cell (all other
   columns of the 43-column problem table are unconstrained) *)
Definition represents (p : ptab) (t : table) : Prop :=
  map rT t = pT p /\ map (hcell j_hot) t = map Some (pHh p) /\ map (hcell j_cold) t = map Some (pHc p)
  /\ map (hcell j_net) t = map Some (pHn p).

(* a canonical representative: only T and the three curve columns are filled in *)
Definition hrow (T hh hc hn : Q) : row :=
  mkRow T None
    (map (fun k => if pt_eqb k pt_H_HOT then Some hh else if pt_eqb k pt_H_COLD then Some hc
                   else if pt_eqb k pt_H_NET then Some hn else None) interpolation_keys) [] [] [].
Fixpoint embed_cols (Ts Hh Hc Hn : list Q) : table :=
  match Ts, Hh, Hc, Hn with
  | T :: a, h :: b, c :: d, n :: e => hrow T h c n :: embed_cols a b d e
  | _, _, _, _ => []
  end.
Definition embed (p : ptab) : table := embed_cols (pT p) (pHh p) (pHc p) (pHn p).

Lemma hrow_cells T hh hc hn :
  rT (hrow T hh hc hn) = T /\ hcell j_hot (hrow T hh hc hn) = Some hh /\ hcell j_cold (hrow T hh hc hn) = Some hc
  /\ hcell j_net (hrow T hh hc hn) = Some hn.
Proof. repeat split; reflexivity. Qed.
Lemma embed_cols_represents Ts : forall Hh Hc Hn,
  List.length Hh = List.length Ts -> List.length Hc = List.length Ts -> List.length Hn = List.length Ts ->
  map rT (embed_cols Ts Hh Hc Hn) = Ts /\ map (hcell j_hot) (embed_cols Ts Hh Hc Hn) = map Some Hh
  /\ map (hcell j_cold) (embed_cols Ts Hh Hc Hn) = map Some Hc /\ map (hcell j_net) (embed_cols Ts Hh Hc Hn) = map Some Hn.
Proof.
  induction Ts as [|T Ts IH]; intros [|h Hh] [|c Hc] [|n Hn] L1 L2 L3; try discriminate; [repeat split; reflexivity|].
  simpl in L1, L2, L3. destruct (IH Hh Hc Hn ltac:(lia) ltac:(lia) ltac:(lia)) as [A [B [C D]]].
  destruct (hrow_cells T h c n) as [A0 [B0 [C0 D0]]].
  cbn [embed_cols map]. rewrite A, B, C, D, A0, B0, C0, D0. repeat split; reflexivity.
Qed.
(* the table of the cascade model has a representative *)
Lemma embed_represents w hot cold g : represents (pta w hot cold g) (embed (pta w hot cold g)).
Proof. unfold represents, embed, pta. cbn [pT pHh pHc pHn]. apply embed_cols_represents; rewrite !map_length; reflexivity. Qed.

Lemma represents_rows p t r : represents p t -> In r t ->
  exists i hh hc hn, nth_error (pT p) i = Some (rT r) /\ nth_error (pHh p) i = Some hh /\ nth_error (pHc p) i = Some hc
    /\ nth_error (pHn p) i = Some hn /\ hcell j_hot r = Some hh /\ hcell j_cold r = Some hc /\ hcell j_net r = Some hn.
Proof.
  intros [ET [Eh [Ec En]]] Hr. destruct (In_nth_error _ _ Hr) as [i Hi]. exists i.
  assert (G : forall (f : row -> cell) (col : list Q), map f t = map Some col -> exists v, nth_error col i = Some v /\ f r = Some v).
  { intros f col E. assert (X : nth_error (map f t) i = Some (f r)) by (rewrite nth_error_map, Hi; reflexivity).
    rewrite E, nth_error_map in X. destruct (nth_error col i) as [v|]; [|discriminate]. simpl in X. exists v. split; [reflexivity|congruence]. }
  destruct (G _ _ Eh) as [hh [A1 A2]]. destruct (G _ _ Ec) as [hc [B1 B2]]. destruct (G _ _ En) as [hn [C1 C2]].
  exists hh, hc, hn. repeat split; try assumption. rewrite <- ET, nth_error_map, Hi. reflexivity.
Qed.

(* grid gaps wider than the activity window (the Robust hypothesis of C05) are in particular wider than tol *)
Lemma tol_le_window : tol <= act_window.
Proof. apply Qle_bool_iff. vm_compute. reflexivity. Qed.
Lemma gaps_sep l : forall a, gaps_b act_window (a :: l) = true -> sep_from tol a l.
Proof.
  induction l as [|b l IH]; intros a H; [exact I|]. cbn [gaps_b] in H. apply andb_true_iff in H. destruct H as [H1 H2].
  apply qltb_true in H1. pose proof tol_le_window. split; [lra|apply IH; exact H2].
Qed.
Lemma gaps_sepd l : gaps_b act_window l = true -> sepd tol l.
Proof. destruct l as [|a l]; [intros; exact I|]. apply gaps_sep. Qed.

Definition row0 : row := mkRow 0 None [] [] [] [].
(* targets as the code reads them from a (row) table: set_zonal_targets uses H_net of the first and last row, H_hot of the first *)
Definition Qh_tab (t : table) : Q := cv (hcell j_net (hd row0 t)).
Definition Qc_tab (t : table) : Q := cv (hcell j_net (last t row0)).
Definition Qr_tab (t : table) : Q := cv (hcell j_hot (hd row0 t)) - Qc_tab t.

Lemma hd_map_some (f : row -> cell) (t : table) (col : list Q) : map f t = map Some col -> t <> [] -> f (hd row0 t) = Some (hd 0 col).
Proof. destruct t as [|r t]; [congruence|]. destruct col as [|v col]; [discriminate|]. simpl. intros E _. congruence. Qed.
Lemma last_map_some (f : row -> cell) (t : table) (col : list Q) : map f t = map Some col -> t <> [] -> f (last t row0) = Some (lastq col).
Proof.
  intros E N. assert (Nc : col <> []) by (intro X; subst col; destruct t; [congruence|discriminate]).
  rewrite <- (last_map_gen f t row0 None N). rewrite E. unfold lastq. apply (last_map_gen Some col 0 None Nc).
Qed.

Section Stage.
Variables hot cold extra : list view.
Hypothesis Wh : wfs hot.
Hypothesis Wc : wfs cold.
Hypothesis Hne : hot ++ cold <> [].
Hypothesis Hlat : on_lattice (endpoints (hot ++ cold ++ extra)).
Hypothesis Hrob : gaps_b act_window (grid_of (endpoints (hot ++ cold ++ extra))) = true.
Let p := stage_model act_window hot cold extra.
Variable t0 : table.
Hypothesis Hrep : represents p t0.

Lemma stage_T : map rT t0 = grid_of (endpoints (hot ++ cold ++ extra)).
Proof. destruct Hrep as [ET _]. rewrite ET. unfold p, stage_model, pta. cbn [pT]. apply raw_rows_T. Qed.
Lemma stage_WF : WF tol t0.
Proof.
  split.
  - intro E. pose proof stage_T as T. rewrite E in T. simpl in T. symmetry in T. revert T. apply grid_of_ne.
    apply (es_ne hot cold extra); assumption.
  - rewrite stage_T. apply gaps_sepd. exact Hrob.
Qed.
Lemma stage_clauses_at_rows r : In r t0 -> clauses_at hot cold (Qc_of p) j_hot j_cold j_net r.
Proof.
  intro Hr. destruct (represents_rows p t0 r Hrep Hr) as [i [hh [hc [hn [A [B [C [D [E1 [E2 E3]]]]]]]]]].
  destruct (stage_curves_exact hot cold extra Wh Wc Hne Hlat Hrob i (rT r) hh hc hn A B C D) as [V1 [V2 [V3 _]]].
  exists hh, hc, hn. repeat split; assumption.
Qed.

(* C05 at every row, including rows inserted later: the full clause list of C05_curves_are_stream_heat_contents holds at
   every row of the table after any history of insert_temperature_interval calls *)
Theorem stage_inserted_rows_exact reqss r : In r (fst (run t0 reqss)) ->
  exists hh hc hn, hcell j_hot r = Some hh /\ hcell j_cold r = Some hc /\ hcell j_net r = Some hn
    /\ hh == heat_below hot (rT r) /\ hc == Qc_of p + heat_below cold (rT r) /\ hn == hc - hh
    /\ hn == Qh_of p - Dnet hot cold (rT r) /\ 0 <= hn.
Proof.
  intro Hr.
  assert (Hc : covers (map rT t0) (eps_all hot cold)) by (rewrite stage_T; apply stage_covers; exact Hlat).
  destruct (curve_clauses_survive tol tol_nonneg hot cold Wh Wc (Qc_of p) j_hot j_cold j_net t0 stage_WF Hc
              stage_clauses_at_rows reqss r Hr) as [hh [hc [hn [E1 [E2 [E3 [V1 [V2 V3]]]]]]]].
  exists hh, hc, hn. repeat split; try assumption.
  - destruct (stage_balance hot cold extra Wh Wc Hne Hlat Hrob) as [Bc _]. fold p in Bc.
    pose proof (heat_above_below hot (rT r) Wh). pose proof (heat_above_below cold (rT r) Wc). unfold Dnet. lra.
  - destruct (stage_balance hot cold extra Wh Wc Hne Hlat Hrob) as [Bc _]. fold p in Bc.
    destruct (stage_Qh_is_sup hot cold extra Wh Wc Hne Hlat Hrob) as [S _]. fold p in S. specialize (S (rT r)).
    pose proof (heat_above_below hot (rT r) Wh). pose proof (heat_above_below cold (rT r) Wc). unfold Dnet in S. lra.
Qed.

(* the targets read from the first and last row are unchanged by every history; the first (last) row itself is at least as
   hot (cold) as the original one -- it is a new edge row when a temperature outside the old range was inserted *)
Theorem stage_targets_survive reqss :
  let t' := fst (run t0 reqss) in
  Qh_tab t' == Qh_of p /\ Qc_tab t' == Qc_of p /\ Qr_tab t' == Qr_of p
  /\ rT (hd row0 t0) <= rT (hd row0 t') /\ rT (last t' row0) <= rT (last t0 row0).
Proof.
  intro t'. pose proof stage_WF as W. assert (N0 : t0 <> []) by (destruct W; assumption).
  destruct Hrep as [ET [Eh [Ec En]]].
  assert (Ph : populated j_hot t0).
  { intros r Hr. destruct (represents_rows p t0 r Hrep Hr) as [i [hh [hc [hn [_ [_ [_ [_ [E1 _]]]]]]]]]. exists hh. exact E1. }
  assert (Pn : populated j_net t0).
  { intros r Hr. destruct (represents_rows p t0 r Hrep Hr) as [i [hh [hc [hn [_ [_ [_ [_ [_ [_ E3]]]]]]]]]]. exists hn. exact E3. }
  destruct (history_end_values tol tol_nonneg j_net t0 reqss row0 W Pn) as [[qa [A1 A2]] [[qb [B1 B2]] [Top Bot]]].
  destruct (history_end_values tol tol_nonneg j_hot t0 reqss row0 W Ph) as [[qc [C1 C2]] _].
  fold (run t0 reqss) in A1, B1, C1, Top, Bot. fold t' in A1, B1, C1, Top, Bot.
  rewrite (hd_map_some _ t0 _ En N0) in A2. rewrite (last_map_some _ t0 _ En N0) in B2. rewrite (hd_map_some _ t0 _ Eh N0) in C2.
  cbn [cv] in A2, B2, C2.
  assert (QH : Qh_tab t' == Qh_of p) by (unfold Qh_tab, Qh_of; rewrite A1; exact A2).
  assert (QC : Qc_tab t' == Qc_of p) by (unfold Qc_tab, Qc_of; rewrite B1; exact B2).
  split; [exact QH|]. split; [exact QC|]. split; [|split; assumption].
  unfold Qr_tab, Qr_of. rewrite rsub_eq, C1. cbn [cv]. rewrite C2. fold (Qc_of p). rewrite QC. reflexivity.
Qed.
End Stage.

(* ================================================================== non-vacuity *)
(* the four-stream example of proofs/CascadeGrid.v: its table, embedded; three calls insert a temperature inside (100), one
   above the top (300), one below the bottom (0) and one already present (245: nothing happens) *)
Definition ex_p : ptab := stage_model act_window ex_hot ex_cold [].
Definition ex_t0 : table := embed ex_p.
Example ex_represents : represents ex_p ex_t0.
Proof. apply embed_represents. Qed.
Example ex_history :
  let t' := fst (run ex_t0 [[100; 300]; [0]; [245]]) in
  map rT ex_t0 = [245; 235; 195; 185; 145; 75; 35; 25]
  /\ map rT t' = [300; 245; 235; 195; 185; 145; 100; 75; 35; 25; 0]
  /\ map (hcell j_hot) t' = map Some [123 # 2; 123 # 2; 60; 54; 50; 34; 16; 6; 0; 0; 0]
  /\ forallb (fun r => match hcell j_hot r with Some q => qeqb q (heat_below ex_hot (rT r)) | None => false end) t' = true
  /\ (Qh_tab t', Qc_tab t', Qh_of ex_p, Qc_of ex_p) = (33 # 2, 10, 33 # 2, 10).
Proof. vm_compute. repeat split; reflexivity. Qed.
