(* C14: the zone-type dispatch of main.py.  For every well-nested zone tree the dispatch returns and leaves exactly one
   direct-integration record for every site and process zone (and every unit operation iff DO_DIRECT_OPERATION_TARGETING);
   with DO_INDIRECT_PROCESS_TARGETING it raises KeyError for the tree shape the service synthesises (D30). *)
From OP Require Import gen.Consts model.Base model.Stream model.Totality.
From Coq Require Import String List Lia Permutation Bool Arith.
Import ListNotations.
Local Open Scope nat_scope.

(* ------------------------------------------------------------------ strings *)
Lemma smem_In k l : smem k l = true <-> In k l.
Proof.
  unfold smem. rewrite existsb_exists. split.
  - intros [x [Hx E]]. apply String.eqb_eq in E. subst. exact Hx.
  - intros H. exists k. split; [exact H|apply String.eqb_refl].
Qed.
Lemma append_length a b : String.length (a ++ b) = String.length a + String.length b.
Proof. induction a; simpl; congruence. Qed.
Lemma append_inj_l : forall a b s, (a ++ s)%string = (b ++ s)%string -> a = b.
Proof.
  induction a as [|c a IH]; intros [|d b] s H; simpl in H.
  - reflexivity.
  - exfalso. assert (L : String.length s = String.length (String d (b ++ s))) by (rewrite <- H; reflexivity).
    simpl in L. rewrite append_length in L. lia.
  - exfalso. assert (L : String.length (String c (a ++ s)) = String.length s) by (rewrite H; reflexivity).
    simpl in L. rewrite append_length in L. lia.
  - inversion H. f_equal. eapply IH; eauto.
Qed.
Lemma di_key_inj a b : di_key a = di_key b -> a = b.
Proof. unfold di_key. apply append_inj_l. Qed.

(* ------------------------------------------------------------------ folds *)
Lemma fold_res_perm {A} (f : A -> list string -> result (list string)) (exp : A -> list string) (P : A -> Prop) :
  (forall x keys, P x -> exists k', f x keys = Ok k' /\ Permutation k' (exp x ++ keys)) ->
  forall l keys, Forall P l -> exists k', fold_res f l keys = Ok k' /\ Permutation k' (flat_map exp l ++ keys).
Proof.
  intros Hf. induction l as [|x r IH]; intros keys HP.
  - exists keys. split; [reflexivity|apply Permutation_refl].
  - inversion HP as [|? ? Px Pr]; subst. destruct (Hf x keys Px) as [k1 [E1 P1]].
    destruct (IH k1 Pr) as [k2 [E2 P2]]. exists k2. split.
    + simpl. rewrite E1. simpl. exact E2.
    + simpl. eapply Permutation_trans; [exact P2|].
      rewrite <- app_assoc. rewrite (app_assoc (exp x)).
      eapply Permutation_trans; [apply Permutation_app_head; exact P1|].
      rewrite !app_assoc. apply Permutation_app_tail. apply Permutation_app_comm.
Qed.

(* ------------------------------------------------------------------ well-nested trees *)
Definition leaf_op (s : ztree) : Prop := exists m, s = ZNode KOp m [].
Definition ok_op (z : ztree) : Prop := zkind_of z = KOp /\ Forall leaf_op (zsubs z).
Fixpoint zsize (z : ztree) : nat :=
  match z with ZNode _ _ subs => S (fold_right (fun s a => zsize s + a) 0 subs) end.
Lemma zsize_sub s subs : In s subs -> zsize s <= fold_right (fun s a => zsize s + a) 0 subs.
Proof. induction subs as [|x r IH]; intros H; [contradiction|]. simpl. destruct H as [H|H]; [subst; lia|specialize (IH H); lia]. Qed.
(* process zones hold process zones and unit operations; sites hold sites and process zones (what data_preparation builds) *)
Fixpoint ok_proc_n (n : nat) (z : ztree) : Prop :=
  match n with
  | O => False
  | S m => zkind_of z = KProcess /\ Forall (fun s => ok_op s \/ ok_proc_n m s) (zsubs z)
  end.
Fixpoint ok_site_n (n : nat) (z : ztree) : Prop :=
  match n with
  | O => False
  | S m => zkind_of z = KSite /\ Forall (fun s => (exists k, ok_proc_n k s) \/ ok_site_n m s) (zsubs z)
  end.
Definition ok_proc (z : ztree) : Prop := exists n, ok_proc_n n z.
Definition ok_site (z : ztree) : Prop := exists n, ok_site_n n z.

(* ------------------------------------------------------------------ unit operations *)
Lemma unit_op_total dop z keys : ok_op z ->
  exists k', unit_op_targets dop z keys = Ok k' /\ Permutation k' (expected_di dop z ++ keys).
Proof.
  intros [K L]. destruct z as [k n subs]. simpl in K, L. subst k. unfold unit_op_targets. destruct dop.
  - destruct (fold_res_perm (fun s k => match zkind_of s with KOp => compute_direct s k | _ => Err EValue end)
               (expected_di true) leaf_op) with (l := subs) (keys := keys) as [k1 [E1 P1]].
    + intros x ks [m Hm]. subst x. exists (di_key m :: ks). split; [reflexivity|]. simpl. apply Permutation_refl.
    + exact L.
    + simpl zsubs. rewrite E1. simpl. exists (di_key n :: k1). split; [reflexivity|].
      apply perm_skip. exact P1.
  - exists keys. split; [reflexivity|]. simpl.
    assert (E : flat_map (expected_di false) subs = []).
    { induction L as [|x r [m Hm] _ IH]; [reflexivity|]. subst x. simpl. exact IH. }
    rewrite E. apply Permutation_refl.
Qed.

(* ------------------------------------------------------------------ process zones (no indirect process targeting) *)
Lemma process_total dop : forall n z keys, ok_proc_n n z ->
  exists k', process_targets dop false z keys = Ok k' /\ Permutation k' (expected_di dop z ++ keys).
Proof.
  induction n as [|n IH]; intros z keys H; [contradiction|].
  destruct H as [K L]. destruct z as [k nm subs]. simpl in K, L. subst k.
  destruct (fold_res_perm (fun s k => match zkind_of s with
                                      | KOp => unit_op_targets dop s k
                                      | KProcess => process_targets dop false s k
                                      | _ => Err EValue end)
             (expected_di dop) (fun s => ok_op s \/ ok_proc_n n s)) with (l := subs) (keys := keys) as [k1 [E1 P1]].
  - intros x ks [Hx|Hx].
    + destruct Hx as [Kx Lx]. rewrite Kx. apply unit_op_total. split; assumption.
    + assert (Kx : zkind_of x = KProcess) by (destruct n; [contradiction|exact (proj1 Hx)]). rewrite Kx. apply IH. exact Hx.
  - exact L.
  - exists (di_key nm :: k1). split.
    + cbn [process_targets]. destruct subs as [|s0 r]; [simpl in E1; inversion E1; reflexivity|]. rewrite E1. reflexivity.
    + simpl. apply perm_skip. exact P1.
Qed.

(* ------------------------------------------------------------------ sites *)
Lemma perm_In {A} (l1 l2 : list A) x : Permutation l1 l2 -> In x l2 -> In x l1.
Proof. intros P H. eapply Permutation_in; [apply Permutation_sym; exact P|exact H]. Qed.

Lemma expected_head dop z : (zkind_of z = KSite \/ zkind_of z = KProcess) -> In (di_key (zname z)) (expected_di dop z).
Proof. destruct z as [k n subs]. simpl. intros [H|H]; subst k; left; reflexivity. Qed.

Lemma site_total dop : forall n z keys, ok_site_n n z ->
  exists k', site_targets dop false z keys = Ok k' /\ Permutation k' (expected_di dop z ++ keys).
Proof.
  induction n as [|n IH]; intros z keys H; [contradiction|].
  destruct H as [K L]. destruct z as [k nm subs]. simpl in K, L. subst k.
  destruct (fold_res_perm (fun s k => match zkind_of s with
                                      | KOp => unit_op_targets dop s k
                                      | KProcess => process_targets dop false s k
                                      | KSite => site_targets dop false s k
                                      | KOther => Err EValue end)
             (expected_di dop) (fun s => (exists k, ok_proc_n k s) \/ ok_site_n n s)) with (l := subs) (keys := di_key nm :: keys) as [k1 [E1 P1]].
  - intros x ks [[m Hx]|Hx].
    + assert (Kx : zkind_of x = KProcess) by (destruct m; [contradiction|exact (proj1 Hx)]). rewrite Kx. eapply process_total; exact Hx.
    + assert (Kx : zkind_of x = KSite) by (destruct n; [contradiction|exact (proj1 Hx)]). rewrite Kx. apply IH. exact Hx.
  - exact L.
  - destruct subs as [|s0 r].
    + exists (di_key nm :: keys). split; [reflexivity|]. simpl. apply Permutation_refl.
    + exists k1. split.
      * cbn [site_targets]. unfold compute_direct at 1. cbn [bind zname]. rewrite E1. cbn [bind].
        unfold compute_indirect. cbn [zsubs zname].
        assert (Hall : forallb (fun s => smem (di_key (zname s)) k1) (s0 :: r) = true).
        { apply forallb_forall. intros s Hs. apply smem_In. eapply perm_In; [exact P1|].
          apply in_or_app. left. apply in_flat_map. exists s. split; [exact Hs|].
          apply expected_head. rewrite Forall_forall in L. destruct (L s Hs) as [[m Hm]|Hm].
          - right. destruct m; [contradiction|exact (proj1 Hm)].
          - left. destruct n; [contradiction|exact (proj1 Hm)]. }
        assert (Hown : smem (di_key nm) k1 = true).
        { apply smem_In. eapply perm_In; [exact P1|]. apply in_or_app. right. left. reflexivity. }
        rewrite Hall, Hown. reflexivity.
      * simpl. eapply Permutation_trans; [exact P1|]. simpl.
        apply Permutation_sym. apply Permutation_middle.
Qed.

(* MAIN (dispatch): for every well-nested site tree and either value of DO_DIRECT_OPERATION_TARGETING (indirect process targeting off)
   the dispatch returns, and the direct-integration records it leaves are exactly the expected ones, each once *)
Theorem dispatch_total dop z : ok_site z ->
  exists keys, site_targets dop false z [] = Ok keys /\ Permutation keys (expected_di dop z).
Proof.
  intros [n H]. destruct (site_total dop n z [] H) as [k [E P]]. exists k. split; [exact E|]. rewrite app_nil_r in P. exact P.
Qed.

(* ------------------------------------------------------------------ D30: DO_INDIRECT_PROCESS_TARGETING *)
Lemma fold_leaf_ops_off keys ops : Forall leaf_op ops ->
  fold_res (fun s k => match zkind_of s with
                       | KOp => unit_op_targets false s k
                       | KProcess => process_targets false true s k
                       | _ => Err EValue end) ops keys = Ok keys.
Proof.
  induction 1 as [|x r [m Hm] _ IH]; [reflexivity|]. subst x. simpl. exact IH.
Qed.
Lemma fold_leaf_ops_on ops : forall keys, Forall leaf_op ops ->
  exists k', fold_res (fun s k => match zkind_of s with
                       | KOp => unit_op_targets true s k
                       | KProcess => process_targets true true s k
                       | _ => Err EValue end) ops keys = Ok k'
   /\ forall x, In x k' -> In x keys \/ exists s, In s ops /\ x = di_key (zname s).
Proof.
  induction ops as [|o r IH]; intros keys H.
  - exists keys. split; [reflexivity|]. intros x Hx. left; exact Hx.
  - inversion H as [|? ? [m Hm] Hr]; subst. destruct (IH (di_key m :: keys) Hr) as [k' [E Hk]].
    exists k'. split; [simpl; exact E|]. intros x Hx. destruct (Hk x Hx) as [[Hx'|Hx']|[s [Hs Es]]].
    + right. exists (ZNode KOp m []). split; [left; reflexivity|symmetry; exact Hx'].
    + left; exact Hx'.
    + right. exists s. split; [right; exact Hs|exact Es].
Qed.

(* every process zone whose subzones are unit operations with names other than its own -- the shape synthesised for every problem
   without a user tree ("Zone/O1", "Zone/O2", ...) -- raises KeyError under DO_INDIRECT_PROCESS_TARGETING, whatever
   DO_DIRECT_OPERATION_TARGETING is: without it the first unit operation has no record, with it the zone's own record is read
   before it is computed *)
Theorem indirect_process_keyerror dop nm ops keys : ops <> [] -> Forall leaf_op ops ->
  (forall o, In o ops -> zname o <> nm) -> ~ In (di_key nm) keys -> (dop = false -> forall o, In o ops -> ~ In (di_key (zname o)) keys) ->
  process_targets dop true (ZNode KProcess nm ops) keys = Err EKey.
Proof.
  intros NE L Hn Hk Hops. cbn [process_targets]. destruct ops as [|o r]; [congruence|].
  destruct dop.
  - destruct (fold_leaf_ops_on (o :: r) keys L) as [k' [E Hk']]. rewrite E. cbn [bind]. unfold compute_indirect. cbn [zsubs zname].
    assert (Hown : smem (di_key nm) k' = false).
    { destruct (smem (di_key nm) k') eqn:S; [|reflexivity]. exfalso. apply smem_In in S.
      destruct (Hk' _ S) as [H1|[s [Hs Es]]]; [exact (Hk H1)|]. apply di_key_inj in Es. exact (Hn s Hs (eq_sym Es)). }
    rewrite Hown, andb_false_r. reflexivity.
  - rewrite (fold_leaf_ops_off keys (o :: r) L). cbn [bind]. unfold compute_indirect. cbn [zsubs zname forallb].
    assert (Ho : smem (di_key (zname o)) keys = false).
    { destruct (smem (di_key (zname o)) keys) eqn:S; [|reflexivity]. exfalso. apply smem_In in S. exact (Hops eq_refl o (or_introl eq_refl) S). }
    rewrite Ho. reflexivity.
Qed.

(* the whole service on the smallest synthesised tree, by computation: site "Project" / process "Z0" / unit operation "O1" *)
Example indirect_process_targeting_refuted :
  site_targets false true (ZNode KSite "Project" [ZNode KProcess "Z0" [ZNode KOp "O1" []]]) [] = Err EKey
  /\ site_targets true true (ZNode KSite "Project" [ZNode KProcess "Z0" [ZNode KOp "O1" []]]) [] = Err EKey.
Proof. split; reflexivity. Qed.
Example dispatch_witness :
  site_targets true false (ZNode KSite "Project" [ZNode KProcess "Z0" [ZNode KOp "O1" []; ZNode KOp "O2" []]; ZNode KProcess "Z1" [ZNode KProcess "Sub" [ZNode KOp "O1" []]]]) []
  = Ok ["Z1/Direct Integration"; "Sub/Direct Integration"; "O1/Direct Integration"; "Z0/Direct Integration"; "O2/Direct Integration";
        "O1/Direct Integration"; "Project/Direct Integration"]%string
  /\ ok_site (ZNode KSite "Project" [ZNode KProcess "Z0" [ZNode KOp "O1" []; ZNode KOp "O2" []]; ZNode KProcess "Z1" [ZNode KProcess "Sub" [ZNode KOp "O1" []]]]).
Proof.
  split; [reflexivity|].
  assert (Lop : forall m, ok_op (ZNode KOp m [])) by (intro m; split; [reflexivity|constructor]).
  exists 1. split; [reflexivity|]. cbn [zsubs]. apply Forall_cons; [|apply Forall_cons; [|constructor]].
  - left. exists 1. split; [reflexivity|]. cbn [zsubs]. apply Forall_cons; [left; apply Lop|apply Forall_cons; [left; apply Lop|constructor]].
  - left. exists 2. split; [reflexivity|]. cbn [zsubs]. apply Forall_cons; [|constructor].
    right. split; [reflexivity|]. cbn [zsubs]. apply Forall_cons; [left; apply Lop|constructor].
Qed.

(* a unit operation directly under the site (what a zone label consisting only of separators, "/" or " / ", produces): without
   DO_DIRECT_OPERATION_TARGETING the site aggregation reads its missing record -> KeyError; with it the dispatch returns *)
Example unit_operation_under_site_witness :
  site_targets false false (ZNode KSite "Project" [ZNode KProcess "B" [ZNode KOp "O1" []]; ZNode KOp "O1" []]) [] = Err EKey
  /\ site_targets true false (ZNode KSite "Project" [ZNode KProcess "B" [ZNode KOp "O1" []]; ZNode KOp "O1" []]) []
     = Ok ["O1/Direct Integration"; "B/Direct Integration"; "O1/Direct Integration"; "Project/Direct Integration"]%string.
Proof. split; reflexivity. Qed.
