(* C15 -- what the discontinuity block of get_temperature_driving_forces does (model/TDF.v prop_min), and the shape of the
   result record of tdf_core in terms of the grid. *)
From OP Require Import gen.Consts model.Base model.Area model.TDF proofs.BaseFacts proofs.Area proofs.TDFGrid.
From Coq Require Import Lqa Lia.
Local Open Scope Q_scope.

(* ------------------------------------------------------------------ the result record *)
Lemma tdf_core_shape tolv mindt Th Hh Tc Hc :
  let hh := fst (normalise tolv Hh Th) in let hc := fst (normalise tolv Hc Tc) in
  let o := tdf_core tolv mindt Th Hh Tc Hc in
  o_h o = grid (hh ++ hc)
  /\ o_dh o = cdiffs (o_h o)
  /\ o_raw2 o = vsub (o_th2 o) (o_tc2 o)
  /\ o_d1 o = map (fun x => rsub x mindt) (vsub (o_th1 o) (o_tc1 o))
  /\ o_d2 o = map (fun x => rsub x mindt) (prop_min tolv (disc_values tolv hh ++ disc_values tolv hc) (ends (o_h o)) (o_raw2 o)).
Proof.
  unfold tdf_core. destruct (normalise tolv Hh Th) as [hh th]. destruct (normalise tolv Hc Tc) as [hc tc]. simpl.
  repeat split. apply dh_is_cdiffs.
Qed.

(* ------------------------------------------------------------------ the backward min-propagation, as a relation *)
(* PM ds he raw res: res is what the loop  for idx = len-2 downto 0: if is_disc(he[idx]) then d2[idx] = min(d2[idx], d2[idx+1])
   leaves in d2 when started from raw *)
Inductive PM (tolv : Q) (ds : list Q) : list Q -> list Q -> list Q -> Prop :=
| PM_nil : PM tolv ds [] [] []
| PM_one h d : PM tolv ds [h] [d] [d]                       (* the last interval is never changed *)
| PM_cons h hr d dr n r : PM tolv ds hr dr (n :: r) ->
    PM tolv ds (h :: hr) (d :: dr) ((if is_disc tolv h ds then Qmin d n else d) :: n :: r).
    (* an interval whose END is a discontinuity takes the minimum of its own end difference and the (already processed)
       end difference of the NEXT interval; every other interval keeps its own *)

Lemma prop_min_length tolv ds : forall he d2, length he = length d2 -> length (prop_min tolv ds he d2) = length d2.
Proof.
  induction he as [|h hr IH]; intros d2 L; destruct d2 as [|d dr]; try discriminate; [reflexivity|].
  simpl in L. injection L as L. simpl. specialize (IH dr L). destruct (prop_min tolv ds hr dr) as [|n r]; simpl in *; lia.
Qed.

Theorem prop_min_PM tolv ds : forall he d2, length he = length d2 -> PM tolv ds he d2 (prop_min tolv ds he d2).
Proof.
  induction he as [|h hr IH]; intros d2 L; destruct d2 as [|d dr]; try discriminate; [constructor|].
  simpl in L. injection L as L. simpl. pose proof (IH dr L) as P. pose proof (prop_min_length tolv ds hr dr L) as Len.
  destruct (prop_min tolv ds hr dr) as [|n r] eqn:E.
  - destruct dr; [|discriminate]. destruct hr; [|discriminate]. constructor.
  - apply PM_cons. exact P.
Qed.

(* it can only LOWER an end difference, never raise one *)
Theorem PM_only_lowers tolv ds he raw res : PM tolv ds he raw res -> Forall2 Qle res raw.
Proof.
  induction 1 as [|h d|h hr d dr n r P IH].
  - constructor.
  - constructor; [apply Qle_refl|constructor].
  - constructor; [|exact IH]. destruct (is_disc tolv h ds); [apply Q.le_min_l|apply Qle_refl].
Qed.

(* without discontinuities nothing changes *)
Theorem PM_no_disc tolv he raw res : PM tolv [] he raw res -> res = raw.
Proof.
  induction 1 as [|h d|h hr d dr n r P IH]; try reflexivity. simpl. rewrite IH. reflexivity.
Qed.

(* ------------------------------------------------------------------ effect on the area sum, for any LMTD that is positive and
   non-decreasing in its second argument (as the logarithmic mean is): lowering end differences can only RAISE the area *)
Section AreaEffect.
Variable lmtd : Q -> Q -> Q.
Hypothesis lmtd_pos : forall a b, 0 < a -> 0 < b -> 0 < lmtd a b.
Hypothesis lmtd_mono : forall a b b', 0 < a -> 0 < b -> b <= b' -> lmtd a b <= lmtd a b'.

Fixpoint area_with (dh R d1 d2 : list Q) : Q :=
  match dh, R, d1, d2 with
  | q :: r1, r :: r2, a :: r3, b :: r4 => q * r / lmtd a b + area_with r1 r2 r3 r4
  | _, _, _, _ => 0
  end.

Theorem lowering_raises_area : forall dh R d1 low raw,
  Forall (fun q => 0 <= q) dh -> Forall (fun r => 0 <= r) R -> Forall (fun a => 0 < a) d1 -> Forall (fun b => 0 < b) low ->
  Forall2 Qle low raw -> area_with dh R d1 raw <= area_with dh R d1 low.
Proof.
  induction dh as [|q dh IH]; intros R d1 low raw Hq HR H1 Hl H2; [apply Qle_refl|].
  destruct R as [|r R]; [apply Qle_refl|]. destruct d1 as [|a d1]; [apply Qle_refl|].
  inversion H2 as [|b b' low' raw' Hbb H2' E1 E2]; subst; [apply Qle_refl|].
  inversion Hq; inversion HR; inversion H1; inversion Hl; subst. simpl.
  apply Qplus_le_compat; [|apply IH; assumption].
  assert (Lb : 0 < lmtd a b) by (apply lmtd_pos; assumption).
  assert (Lm : lmtd a b <= lmtd a b') by (apply lmtd_mono; assumption).
  assert (N : 0 <= q * r) by (apply Qmult_le_0_compat; assumption).
  apply div_antimono; assumption.
Qed.
End AreaEffect.
