(* Composition C10 o C01: "the direct-integration targets are exact for EVERY zone at EVERY level of the hierarchy".
   model/ZoneTree.v identifies the streams a zone holds by their identity (sid) only; model/Cascade.v works on numeric
   views.  Here an input stream carries both (identity, zone label, name, numeric data); `to_istream` is what the zone-tree
   model sees of it, `held` looks the identities of a zone up in the input list, and the conservation theorem of C10
   (a zone holds exactly the streams labelled through it) turns "the views of the streams the zone holds" into a
   permutation of "the views of the input streams labelled into the zone".  The cascade model is invariant under
   permutation (proofs/InvarianceModel.v: the whole stage returns the identical table), so C01 applies zone by zone. *)
From OP Require Import gen.Consts gen.ZoneTreeConsts model.Base model.Stream model.Collection model.Cascade model.CascadeE2E model.ZoneTree
  proofs.BaseFacts proofs.CascadeSpec proofs.CascadeGrid proofs.InvarianceModel
  proofs.ZoneTreeStrings proofs.ZoneTreeSynth proofs.ZoneTreeImport proofs.ZoneTreeMain proofs.ZoneTreeFinal.
From Coq Require Import String Permutation Lqa Lia.
Local Open Scope Q_scope.
Local Arguments Qred : simpl never.

(* ---------------------------------------------------------------- input streams with identity, label and data *)
Record zin := mkZin { z_id : nat; z_label : string; z_name : string; z_data : sin }.
(* what zone-tree construction reads of a stream: identity, label, name, hot/cold kind, supply temperature, duty *)
Definition to_istream (x : zin) : istream :=
  mkIS (z_id x) (z_label x) (z_name x) (negb (is_cold (z_data x))) (ts (stream_of (z_data x))) (q (stream_of (z_data x))).
Definition lookup (xs : list zin) (i : nat) : option zin := find (fun x => Nat.eqb (z_id x) i) xs.
(* the input streams behind a list of identities (an unknown identity contributes nothing) *)
Definition held (xs : list zin) (ids : list nat) : list zin :=
  flat_map (fun i => match lookup xs i with Some x => [x] | None => [] end) ids.
(* the views the cascade of zone z runs on: the streams in its hot collection, the streams in its cold collection *)
Definition zone_hot_views (xs : list zin) (z : zobs) : list view := map shifted_view (map z_data (held xs (map fst (zo_hot z)))).
Definition zone_cold_views (xs : list zin) (z : zobs) : list view := map shifted_view (map z_data (held xs (map fst (zo_cold z)))).
(* the input streams LABELLED INTO zone p: non-empty label whose path has p as a prefix *)
Definition labelled_into (p : path) (xs : list zin) : list sin :=
  map z_data (filter (fun x => through p (to_istream x)) xs).

(* ---------------------------------------------------------------- lookup respects the identities *)
Lemma lookup_in xs x : NoDup (map z_id xs) -> In x xs -> lookup xs (z_id x) = Some x.
Proof.
  induction xs as [|y r IH]; intros ND Hx; [contradiction|]. cbn [map] in ND. inversion ND as [|? ? Hy Hr]; subst.
  unfold lookup. cbn [find]. destruct Hx as [Hx|Hx]; [subst; rewrite Nat.eqb_refl; reflexivity|].
  destruct (Nat.eqb (z_id y) (z_id x)) eqn:E; [exfalso; apply Nat.eqb_eq in E; apply Hy; rewrite E; apply in_map, Hx|].
  apply IH; assumption.
Qed.
Lemma held_ids xs l : NoDup (map z_id xs) -> (forall x, In x l -> In x xs) -> held xs (map z_id l) = l.
Proof.
  intros ND. induction l as [|x l IH]; intro Hl; [reflexivity|]. unfold held in *. cbn [map flat_map].
  rewrite (lookup_in xs x ND (Hl x (or_introl eq_refl))), IH; [reflexivity|]. intros y Hy. apply Hl. right. exact Hy.
Qed.
Lemma held_perm xs ids ids' : Permutation ids ids' -> Permutation (held xs ids) (held xs ids').
Proof. intro P. unfold held. apply Permutation_flat_map, P. Qed.
Lemma held_selected xs (P : zin -> bool) ids : NoDup (map z_id xs) -> Permutation ids (map z_id (filter P xs)) ->
  Permutation (held xs ids) (filter P xs).
Proof.
  intros ND Pm. eapply Permutation_trans; [apply held_perm, Pm|]. rewrite held_ids; [apply Permutation_refl|exact ND|].
  intros x Hx. apply filter_In in Hx. tauto.
Qed.

Lemma sid_to_istream xs : map sid (map to_istream xs) = map z_id xs.
Proof. rewrite map_map. reflexivity. Qed.
Lemma sel_ids (P : istream -> bool) xs :
  map sid (filter P (map to_istream xs)) = map z_id (filter (fun x => P (to_istream x)) xs).
Proof. rewrite filter_map_comm, map_map. reflexivity. Qed.

(* the views of the hot / cold streams among a selection of input streams *)
Lemma hot_views_sel (sel : zin -> bool) xs :
  hot_views shifted_view (map z_data (filter sel xs))
  = map shifted_view (map z_data (filter (fun x => sel x && shot (to_istream x)) xs)).
Proof. unfold hot_views. rewrite filter_map_comm, filter_filter. reflexivity. Qed.
Lemma cold_views_sel (sel : zin -> bool) xs :
  cold_views shifted_view (map z_data (filter sel xs))
  = map shifted_view (map z_data (filter (fun x => sel x && negb (shot (to_istream x))) xs)).
Proof.
  unfold cold_views. rewrite filter_map_comm, filter_filter. do 2 f_equal. apply filter_ext. intro x.
  cbn [shot to_istream]. rewrite Bool.negb_involutive. reflexivity.
Qed.

(* ================================================================ the bridge: zone contents = labelled sub-list *)
Section Tree.
Variable root : string.
Variable xs : list zin.
Variable out : list zobs.
Hypothesis ND : NoDup (map z_id xs).
Hypothesis Hout : model_synth root (map to_istream xs) = Ok out.

Let NDS : NoDup (map sid (map to_istream xs)).
Proof. rewrite sid_to_istream. exact ND. Qed.

(* zones with subzones, and the root: the streams held are the streams whose LABEL passes through the zone *)
Theorem zone_views_are_the_labelled_streams z : In z out -> is_leaf out z = false \/ zo_path z = [] ->
  Permutation (zone_hot_views xs z) (hot_views shifted_view (labelled_into (zo_path z) xs))
  /\ Permutation (zone_cold_views xs z) (cold_views shifted_view (labelled_into (zo_path z) xs)).
Proof.
  intros Hz Hint. destruct (conservation_thm root _ out NDS Hout z Hz Hint) as [A B]. rewrite sel_ids in A, B.
  unfold zone_hot_views, zone_cold_views, labelled_into. rewrite hot_views_sel, cold_views_sel.
  split; do 2 apply Permutation_map; apply held_selected; assumption.
Qed.

(* generated leaves (unit operations): exactly one stream, the one the leaf was generated for; its label is the path of the
   leaf's parent; it sits in the hot collection iff it is a hot stream *)
Theorem leaf_views_are_its_stream z : In z out -> is_leaf out z = true -> zo_path z <> [] ->
  exists x, In x xs /\ nonempty (z_label x) = true /\ removelast (zo_path z) = split_label (z_label x)
    /\ zone_hot_views xs z = hot_views shifted_view [z_data x] /\ zone_cold_views xs z = cold_views shifted_view [z_data x].
Proof.
  intros Hz Lz Hne. destruct (leaf_single_thm root _ out NDS Hout z Hz Lz Hne) as [s [Hs [Hl [Hm Hr]]]].
  apply in_map_iff in Hs. destruct Hs as [x [Es Hx]]. subst s. exists x. split; [exact Hx|]. split; [exact Hl|]. split; [exact Hr|].
  destruct (model_synth_inv _ _ _ NDS Hout) as [L [asg [SO Hb]]].
  destruct (synth_chars root _ L asg out NDS SO Hb) as [_ Q]. destruct (Q z Hz) as [Qh Qc]. clear Q.
  rewrite sel_ids in Qh, Qc. cbn [sid to_istream] in Hm.
  (* an identity in the hot (cold) collection belongs to a hot (cold) input stream *)
  assert (Kh : In (z_id x) (map fst (zo_hot z)) -> is_cold (z_data x) = false).
  { intro Hi. apply (Permutation_in _ Qh) in Hi. apply in_map_iff in Hi. destruct Hi as [y [Ey Hy]]. apply filter_In in Hy. destruct Hy as [Hy Py].
    assert (y = x) by (apply (nodup_map_inj z_id xs); assumption). subst y.
    apply Bool.andb_true_iff in Py. destruct Py as [Py _]. apply Bool.andb_true_iff in Py. destruct Py as [_ Py].
    cbn [shot to_istream] in Py. apply Bool.negb_true_iff in Py. exact Py. }
  assert (Kc : In (z_id x) (map fst (zo_cold z)) -> is_cold (z_data x) = true).
  { intro Hi. apply (Permutation_in _ Qc) in Hi. apply in_map_iff in Hi. destruct Hi as [y [Ey Hy]]. apply filter_In in Hy. destruct Hy as [Hy Py].
    assert (y = x) by (apply (nodup_map_inj z_id xs); assumption). subst y.
    apply Bool.andb_true_iff in Py. destruct Py as [Py _]. apply Bool.andb_true_iff in Py. destruct Py as [_ Py].
    cbn [shot to_istream] in Py. rewrite Bool.negb_involutive in Py. exact Py. }
  unfold members in Hm. unfold zone_hot_views, zone_cold_views, hot_views, cold_views, held. cbn [filter].
  apply app_eq_unit in Hm. destruct Hm as [[Eh Ec]|[Eh Ec]]; rewrite Eh, Ec in *; cbn [flat_map map app].
  - rewrite (Kc (or_introl eq_refl)), (lookup_in xs x ND Hx). cbn [negb map app]. split; reflexivity.
  - rewrite (Kh (or_introl eq_refl)), (lookup_in xs x ND Hx). cbn [negb map app]. split; reflexivity.
Qed.

(* ================================================================ C01 zone by zone *)
(* arbitrary doubles: reference = exact optimum of the labelled streams with end points rounded to the grid's 6 decimals *)
Theorem every_zone_targets_exact z extra : In z out -> is_leaf out z = false \/ zo_path z = [] ->
  let sub := labelled_into (zo_path z) xs in
  let hs := hot_views shifted_view sub in let cs := cold_views shifted_view sub in
  wfs_b (map roundv hs) = true -> wfs_b (map roundv cs) = true -> hs ++ cs <> [] ->
  gaps_b (act_window + delta6) (grid_of (endpoints (hs ++ cs ++ extra))) = true ->
  let p := stage_model act_window (zone_hot_views xs z) (zone_cold_views xs z) extra in
  Qh_of p == Qh_star (map roundv hs) (map roundv cs) /\ Qc_of p == Qc_star (map roundv hs) (map roundv cs)
  /\ Qr_of p == Qr_star (map roundv hs) (map roundv cs).
Proof.
  intros Hz Hint sub hs cs Wh Wc Hne Hg p. destruct (zone_views_are_the_labelled_streams z Hz Hint) as [Ph Pc].
  unfold p. rewrite (stage_model_perm act_window _ hs _ cs extra extra Ph Pc (Permutation_refl _)).
  apply stage_rounded_targets_exact; assumption.
Qed.

(* end points on the 6-decimal lattice: reference = exact optimum of the labelled streams themselves *)
Theorem every_zone_targets_exact_lattice z extra : In z out -> is_leaf out z = false \/ zo_path z = [] ->
  let sub := labelled_into (zo_path z) xs in
  let hs := hot_views shifted_view sub in let cs := cold_views shifted_view sub in
  wfs hs -> wfs cs -> hs ++ cs <> [] -> on_lattice (endpoints (hs ++ cs ++ extra)) ->
  gaps_b act_window (grid_of (endpoints (hs ++ cs ++ extra))) = true ->
  let p := stage_model act_window (zone_hot_views xs z) (zone_cold_views xs z) extra in
  Qh_of p == Qh_star hs cs /\ Qc_of p == Qc_star hs cs /\ Qr_of p == Qr_star hs cs.
Proof.
  intros Hz Hint sub hs cs Wh Wc Hne Hlat Hg p. destruct (zone_views_are_the_labelled_streams z Hz Hint) as [Ph Pc].
  unfold p. rewrite (stage_model_perm act_window _ hs _ cs extra extra Ph Pc (Permutation_refl _)).
  apply stage_targets_exact; assumption.
Qed.

(* the same hypotheses may equally be checked on the zone's own stream set (what the zone holds): they are invariant *)
Lemma forallb_perm {A} (f : A -> bool) l l' : Permutation l l' -> forallb f l = forallb f l'.
Proof.
  intro P. induction P as [|a l l' P IH|a b l|l l' l'' P1 IH1 P2 IH2]; cbn [forallb]; [reflexivity|rewrite IH; reflexivity| |congruence].
  destruct (f a), (f b); reflexivity.
Qed.
Lemma wfs_b_perm l l' : Permutation l l' -> wfs_b l = wfs_b l'.
Proof. apply forallb_perm. Qed.
Theorem every_zone_targets_exact_held z extra : In z out -> is_leaf out z = false \/ zo_path z = [] ->
  let hz := zone_hot_views xs z in let cz := zone_cold_views xs z in
  let sub := labelled_into (zo_path z) xs in
  let hs := hot_views shifted_view sub in let cs := cold_views shifted_view sub in
  wfs_b (map roundv hz) = true -> wfs_b (map roundv cz) = true -> hz ++ cz <> [] ->
  gaps_b (act_window + delta6) (grid_of (endpoints (hz ++ cz ++ extra))) = true ->
  let p := stage_model act_window hz cz extra in
  Qh_of p == Qh_star (map roundv hs) (map roundv cs) /\ Qc_of p == Qc_star (map roundv hs) (map roundv cs)
  /\ Qr_of p == Qr_star (map roundv hs) (map roundv cs).
Proof.
  intros Hz Hint hz cz sub hs cs Wh Wc Hne Hg. destruct (zone_views_are_the_labelled_streams z Hz Hint) as [Ph Pc].
  fold hz cz sub hs cs in Ph, Pc. apply every_zone_targets_exact; try assumption.
  - fold sub hs. rewrite <- (wfs_b_perm _ _ (Permutation_map roundv Ph)). exact Wh.
  - fold sub cs. rewrite <- (wfs_b_perm _ _ (Permutation_map roundv Pc)). exact Wc.
  - fold sub hs cs. intro E. apply Hne. apply app_eq_nil in E. destruct E as [E1 E2]. rewrite E1 in Ph. rewrite E2 in Pc.
    apply Permutation_sym, Permutation_nil in Ph. apply Permutation_sym, Permutation_nil in Pc. rewrite Ph, Pc. reflexivity.
  - fold sub hs cs. rewrite <- (grid_of_perm (endpoints (hz ++ cz ++ extra))); [exact Hg|].
    apply endpoints_perm. repeat apply Permutation_app; try assumption. apply Permutation_refl.
Qed.

(* generated leaves: the zone's cascade runs on exactly its one stream *)
Theorem every_leaf_zone_targets_exact z extra : In z out -> is_leaf out z = true -> zo_path z <> [] ->
  exists x, In x xs /\ nonempty (z_label x) = true /\ removelast (zo_path z) = split_label (z_label x) /\
  let hs := hot_views shifted_view [z_data x] in let cs := cold_views shifted_view [z_data x] in
  wfs_b (map roundv hs) = true -> wfs_b (map roundv cs) = true ->
  gaps_b (act_window + delta6) (grid_of (endpoints (hs ++ cs ++ extra))) = true ->
  let p := stage_model act_window (zone_hot_views xs z) (zone_cold_views xs z) extra in
  Qh_of p == Qh_star (map roundv hs) (map roundv cs) /\ Qc_of p == Qc_star (map roundv hs) (map roundv cs)
  /\ Qr_of p == Qr_star (map roundv hs) (map roundv cs).
Proof.
  intros Hz Lz Hne. destruct (leaf_views_are_its_stream z Hz Lz Hne) as [x [Hx [Hl [Hr [Eh Ec]]]]].
  exists x. split; [exact Hx|]. split; [exact Hl|]. split; [exact Hr|]. intros hs cs Wh Wc Hg p. unfold p. rewrite Eh, Ec.
  apply stage_rounded_targets_exact; try assumption.
  unfold hs, cs, hot_views, cold_views. cbn [filter]. destruct (is_cold (z_data x)); cbn [negb map app]; discriminate.
Qed.
End Tree.

(* ---------------------------------------------------------------- non-vacuity: a three-level tree *)
Local Open Scope string_scope.
(* H1 200->100 (1000 kW) labelled "A"; C1 50->150 (800 kW) labelled "A/B"; H2 180->60 (600 kW) labelled "C"; dt_cont 5 *)
Definition ex_xs : list zin :=
  [mkZin 0 "A" "H1" (200, 100, 5, 1000)%Q; mkZin 1 "A/B" "C1" (50, 150, 5, 800)%Q; mkZin 2 "C" "H2" (180, 60, 5, 600)%Q].
Definition ex_zone (p : path) : option zobs :=
  match model_synth "Site" (map to_istream ex_xs) with Ok out => find_zone out p | Err _ => None end.
Definition ex_hyps (p : path) : bool :=
  let sub := labelled_into p ex_xs in
  let hs := hot_views shifted_view sub in let cs := cold_views shifted_view sub in
  wfs_b (map roundv hs) && wfs_b (map roundv cs) && negb (Nat.eqb (List.length (hs ++ cs)) 0)
  && gaps_b (act_window + delta6) (grid_of (endpoints (hs ++ cs ++ []))).
Definition ex_targets (p : path) : option (Q * Q * Q) :=
  match ex_zone p with
  | Some z => let t := stage_model act_window (zone_hot_views ex_xs z) (zone_cold_views ex_xs z) [] in Some (Qh_of t, Qc_of t, Qr_of t)
  | None => None
  end.
(* the tree has the zones Site, A, A/O1, A/B, A/B/O1, C, C/O1; zone A (second level, with a subzone and a unit operation)
   holds H1 and C1 and recovers 800 kW; zone A/B (third level) holds C1 only; the root holds all three streams *)
Example ex_tree :
  (match model_synth "Site" (map to_istream ex_xs) with Ok out => map zo_path out | Err _ => [] end)
    = [[]; ["A"]; ["A"; "B"]; ["C"]; ["A"; "O1"]; ["A"; "B"; "O1"]; ["C"; "O1"]]
  /\ ex_hyps [] = true /\ ex_hyps ["A"] = true /\ ex_hyps ["A"; "B"] = true /\ ex_hyps ["C"] = true
  /\ ex_targets ["A"] = Some (0, 200, 800)%Q /\ ex_targets ["A"; "B"] = Some (800, 0, 0)%Q
  /\ ex_targets [] = Some (0, 800, 800)%Q /\ ex_targets ["C"; "O1"] = Some (0, 600, 0)%Q.
Proof. vm_compute. repeat split; reflexivity. Qed.
