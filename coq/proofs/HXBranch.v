(* Closed-form effectiveness / NTU pairs of gen/Scalar.v: inverse relations, range, monotonicity, c -> 0 values. *)
From Coq Require Import Reals Lra Psatz Bool.
From OP Require Import gen.Consts gen.HxDispatch gen.Scalar proofs.HXBase.
Local Open Scope R_scope.

(* ------------------------------------------------------------------ counter flow *)
Lemma cf_guard N c : 0 < N -> 0 <= c -> c < 1 -> (Rneqb c 1 && Rneqb (c * exp (- N * (1 - c))) 1) = true.
Proof.
  intros HN Hc0 Hc. apply andb_true_iff. split; apply Rneqb_true; [lra|].
  assert (Hp : 0 < N * (1 - c)) by (apply Rmult_lt_0_compat; lra).
  replace (- N * (1 - c)) with (- (N * (1 - c))) by ring.
  pose proof (exp_neg_lt1 _ Hp). pose proof (exp_pos (- (N * (1 - c)))). nra.
Qed.

Lemma eff_CF_lt1_form N c : 0 < N -> 0 <= c -> c < 1 -> eff_CF N c = (1 - exp (- (N * (1 - c)))) / (1 - c * exp (- (N * (1 - c)))).
Proof. intros HN Hc0 Hc. unfold eff_CF. rewrite (cf_guard N c HN Hc0 Hc). replace (- N * (1 - c)) with (- (N * (1 - c))) by ring. reflexivity. Qed.

Lemma eff_CF_1_form N c : c = 1 -> eff_CF N c = N / (1 + N).
Proof. intro Hc. unfold eff_CF. rewrite (proj2 (Rneqb_false c 1) Hc). reflexivity. Qed.

Lemma ntu_CF_lt1_form e c : c <> 1 -> ntu_CF e c = 1 / (1 - c) * ln ((1 - e * c) / (1 - e)).
Proof. intro Hc. unfold ntu_CF. rewrite (proj2 (Rneqb_true c 1) Hc). reflexivity. Qed.
Lemma ntu_CF_1_form e c : c = 1 -> ntu_CF e c = e / (1 - e).
Proof. intro Hc. unfold ntu_CF. rewrite (proj2 (Rneqb_false c 1) Hc). reflexivity. Qed.

Lemma eff_CF_range N c : 0 < N -> 0 <= c <= 1 -> 0 < eff_CF N c < 1.
Proof.
  intros HN [Hc0 Hc1]. destruct (Req_dec c 1) as [E|NE].
  - rewrite (eff_CF_1_form N c E). split.
    + apply Rdiv_lt_0_compat; lra.
    + apply (Rmult_lt_reg_r (1 + N)); [lra|]. unfold Rdiv. rewrite Rmult_assoc, Rinv_l by lra. lra.
  - assert (Hc : c < 1) by lra. rewrite (eff_CF_lt1_form N c HN Hc0 Hc).
    assert (Hp : 0 < N * (1 - c)) by (apply Rmult_lt_0_compat; lra).
    set (x := exp (- (N * (1 - c)))). pose proof (exp_neg_lt1 _ Hp) as Hx1. pose proof (exp_pos (- (N * (1 - c)))) as Hx0. fold x in Hx0, Hx1.
    assert (Hd : 0 < 1 - c * x) by nra. split.
    + apply Rdiv_lt_0_compat; lra.
    + apply (Rmult_lt_reg_r (1 - c * x)); [lra|]. unfold Rdiv. rewrite Rmult_assoc, Rinv_l by lra. nra.
Qed.

Lemma ntu_eff_CF N c : 0 < N -> 0 <= c <= 1 -> ntu_CF (eff_CF N c) c = N.
Proof.
  intros HN [Hc0 Hc1]. destruct (Req_dec c 1) as [E|NE].
  - rewrite (ntu_CF_1_form _ c E), (eff_CF_1_form N c E). field. lra.
  - assert (Hc : c < 1) by lra. rewrite (ntu_CF_lt1_form _ c NE), (eff_CF_lt1_form N c HN Hc0 Hc).
    assert (Hp : 0 < N * (1 - c)) by (apply Rmult_lt_0_compat; lra).
    set (x := N * (1 - c)) in *. set (e := exp (- x)).
    assert (He : 0 < e) by apply exp_pos.
    assert (He1 : e < 1) by (apply exp_neg_lt1; exact Hp).
    assert (Hce : c * e < 1) by nra.
    replace ((1 - (1 - e) / (1 - c * e) * c) / (1 - (1 - e) / (1 - c * e))) with (/ e).
    2:{ field. repeat split; try lra; nra. }
    rewrite ln_Rinv by exact He. unfold e. rewrite ln_exp. unfold x. field. lra.
Qed.

Lemma eff_ntu_CF e c : 0 < e < 1 -> 0 <= c <= 1 -> eff_CF (ntu_CF e c) c = e /\ 0 < ntu_CF e c.
Proof.
  intros [He0 He1] [Hc0 Hc1]. destruct (Req_dec c 1) as [E|NE].
  - rewrite (ntu_CF_1_form _ c E). assert (Hn : 0 < e / (1 - e)) by (apply Rdiv_lt_0_compat; lra). split; [|exact Hn].
    rewrite (eff_CF_1_form _ c E). field. lra.
  - assert (Hc : c < 1) by lra. rewrite (ntu_CF_lt1_form _ c NE).
    set (r := (1 - e * c) / (1 - e)).
    assert (Hr : 1 < r).
    { unfold r. apply (Rmult_lt_reg_r (1 - e)); [lra|]. unfold Rdiv. rewrite Rmult_assoc, Rinv_l by lra. nra. }
    assert (Hl : 0 < ln r) by (apply ln_gt0; exact Hr).
    assert (Hn : 0 < 1 / (1 - c) * ln r). { apply Rmult_lt_0_compat; [|exact Hl]. apply Rdiv_lt_0_compat; lra. }
    split; [|exact Hn].
    rewrite (eff_CF_lt1_form _ c Hn Hc0 Hc).
    replace (- (1 / (1 - c) * ln r * (1 - c))) with (- ln r) by (field; lra).
    rewrite exp_Ropp, exp_ln by lra. unfold r. field. repeat split; try lra; nra.
Qed.

Lemma eff_CF_mono N1 N2 c : 0 < N1 -> N1 < N2 -> 0 <= c <= 1 -> eff_CF N1 c < eff_CF N2 c.
Proof.
  intros H1 H12 [Hc0 Hc1]. assert (H2 : 0 < N2) by lra. destruct (Req_dec c 1) as [E|NE].
  - rewrite !(eff_CF_1_form _ c E).
    apply (Rmult_lt_reg_r ((1 + N1) * (1 + N2))); [apply Rmult_lt_0_compat; lra|].
    replace (N1 / (1 + N1) * ((1 + N1) * (1 + N2))) with (N1 * (1 + N2)) by (field; lra).
    replace (N2 / (1 + N2) * ((1 + N1) * (1 + N2))) with (N2 * (1 + N1)) by (field; lra). lra.
  - assert (Hc : c < 1) by lra. rewrite (eff_CF_lt1_form _ c H1 Hc0 Hc), (eff_CF_lt1_form _ c H2 Hc0 Hc).
    assert (Hp1 : 0 < N1 * (1 - c)) by (apply Rmult_lt_0_compat; lra).
    assert (Hp2 : 0 < N2 * (1 - c)) by (apply Rmult_lt_0_compat; lra).
    assert (Hx : exp (- (N2 * (1 - c))) < exp (- (N1 * (1 - c)))) by (apply exp_increasing; nra).
    set (x1 := exp (- (N1 * (1 - c)))) in *. set (x2 := exp (- (N2 * (1 - c)))) in *.
    assert (A1 : x1 < 1) by (apply exp_neg_lt1; exact Hp1). assert (B1 : 0 < x1) by apply exp_pos.
    assert (A2 : x2 < 1) by (apply exp_neg_lt1; exact Hp2). assert (B2 : 0 < x2) by apply exp_pos.
    assert (D1 : 0 < 1 - c * x1) by nra. assert (D2 : 0 < 1 - c * x2) by nra.
    apply (Rmult_lt_reg_r ((1 - c * x1) * (1 - c * x2))); [apply Rmult_lt_0_compat; lra|].
    replace ((1 - x1) / (1 - c * x1) * ((1 - c * x1) * (1 - c * x2))) with ((1 - x1) * (1 - c * x2)) by (field; lra).
    replace ((1 - x2) / (1 - c * x2) * ((1 - c * x1) * (1 - c * x2))) with ((1 - x2) * (1 - c * x1)) by (field; lra).
    nra.
Qed.

(* ------------------------------------------------------------------ parallel flow *)
Lemma eff_PF_form N c : eff_PF N c = (1 - exp (- (N * (1 + c)))) / (1 + c).
Proof. unfold eff_PF. replace (- N * (1 + c)) with (- (N * (1 + c))) by ring. reflexivity. Qed.

Lemma eff_PF_range N c : 0 < N -> 0 <= c -> 0 < eff_PF N c < 1 / (1 + c).
Proof.
  intros HN Hc. rewrite eff_PF_form. assert (Hp : 0 < N * (1 + c)) by (apply Rmult_lt_0_compat; lra).
  pose proof (exp_neg_lt1 _ Hp). pose proof (exp_pos (- (N * (1 + c)))). split.
  - apply Rdiv_lt_0_compat; lra.
  - unfold Rdiv. apply Rmult_lt_compat_r; [apply Rinv_0_lt_compat; lra| lra].
Qed.
Lemma eff_PF_lt1 N c : 0 < N -> 0 <= c -> eff_PF N c < 1.
Proof.
  intros HN Hc. destruct (eff_PF_range N c HN Hc) as [_ H]. eapply Rlt_le_trans; [exact H|].
  apply (Rmult_le_reg_r (1 + c)); [lra|]. unfold Rdiv. rewrite Rmult_assoc, Rinv_l by lra. lra.
Qed.

Lemma ntu_eff_PF N c : 0 < N -> 0 <= c -> ntu_PF (eff_PF N c) c = N.
Proof.
  intros HN Hc. unfold ntu_PF. rewrite eff_PF_form.
  replace (1 - (1 - exp (- (N * (1 + c)))) / (1 + c) * (1 + c)) with (exp (- (N * (1 + c)))) by (field; lra).
  rewrite ln_exp. field. lra.
Qed.

Lemma eff_ntu_PF e c : 0 <= c -> 0 < e < 1 / (1 + c) -> eff_PF (ntu_PF e c) c = e /\ 0 < ntu_PF e c.
Proof.
  intros Hc [He0 He1]. unfold ntu_PF.
  assert (Hm : e * (1 + c) < 1). { apply (Rmult_lt_compat_r (1 + c)) in He1; [|lra]. unfold Rdiv in He1. rewrite Rmult_assoc, Rinv_l in He1 by lra. lra. }
  assert (Hm0 : 0 < e * (1 + c)) by (apply Rmult_lt_0_compat; lra).
  assert (Hl : ln (1 - e * (1 + c)) < 0) by (apply ln_lt0; lra).
  split.
  - rewrite eff_PF_form. replace (- (- ln (1 - e * (1 + c)) / (1 + c) * (1 + c))) with (ln (1 - e * (1 + c))) by (field; lra).
    rewrite exp_ln by lra. field. lra.
  - apply Rdiv_lt_0_compat; lra.
Qed.

Lemma eff_PF_mono N1 N2 c : N1 < N2 -> 0 <= c -> eff_PF N1 c < eff_PF N2 c.
Proof.
  intros H12 Hc. rewrite !eff_PF_form. unfold Rdiv. apply Rmult_lt_compat_r; [apply Rinv_0_lt_compat; lra|].
  assert (exp (- (N2 * (1 + c))) < exp (- (N1 * (1 + c)))) by (apply exp_increasing; nra). lra.
Qed.

(* ------------------------------------------------------------------ cross flow, Cmax unmixed *)
Lemma eff_CrFMUmax_form N c : c <> 0 -> eff_CrFMUmax N c = 1 - exp (- ((1 - exp (- (N * c))) / c)).
Proof. intro Hc. unfold eff_CrFMUmax. replace (- N * c) with (- (N * c)) by ring. f_equal. f_equal. field. exact Hc. Qed.

Lemma eff_CrFMUmax_range N c : 0 < N -> 0 < c -> 0 < eff_CrFMUmax N c < 1 - exp (- (1 / c)).
Proof.
  intros HN Hc. rewrite eff_CrFMUmax_form by lra. assert (Hp : 0 < N * c) by (apply Rmult_lt_0_compat; lra).
  pose proof (exp_neg_lt1 _ Hp) as H1. pose proof (exp_pos (- (N * c))) as H0.
  assert (Hq : 0 < (1 - exp (- (N * c))) / c) by (apply Rdiv_lt_0_compat; lra).
  pose proof (exp_neg_lt1 _ Hq). split; [lra|].
  assert (exp (- (1 / c)) < exp (- ((1 - exp (- (N * c))) / c))).
  { apply exp_increasing. apply Ropp_lt_contravar. unfold Rdiv. apply Rmult_lt_compat_r; [apply Rinv_0_lt_compat; lra|lra]. }
  lra.
Qed.
Lemma eff_CrFMUmax_lt1 N c : 0 < N -> 0 < c -> eff_CrFMUmax N c < 1.
Proof. intros HN Hc. destruct (eff_CrFMUmax_range N c HN Hc). pose proof (exp_pos (- (1 / c))). lra. Qed.

Lemma ntu_eff_CrFMUmax N c : 0 < N -> 0 < c -> ntu_CrFMUmax (eff_CrFMUmax N c) c = N.
Proof.
  intros HN Hc. unfold ntu_CrFMUmax. rewrite eff_CrFMUmax_form by lra.
  replace (1 - (1 - exp (- ((1 - exp (- (N * c))) / c)))) with (exp (- ((1 - exp (- (N * c))) / c))) by ring.
  rewrite ln_exp. replace (1 + c * - ((1 - exp (- (N * c))) / c)) with (exp (- (N * c))) by (field; lra).
  rewrite ln_exp. field. lra.
Qed.

Lemma eff_ntu_CrFMUmax e c : 0 < c -> 0 < e < 1 - exp (- (1 / c)) -> eff_CrFMUmax (ntu_CrFMUmax e c) c = e /\ 0 < ntu_CrFMUmax e c.
Proof.
  intros Hc [He0 He1]. unfold ntu_CrFMUmax. pose proof (exp_pos (- (1 / c))) as Hx.
  assert (H1e : 0 < 1 - e) by lra.
  assert (Hl : - (1 / c) < ln (1 - e)). { rewrite <- (ln_exp (- (1 / c))). apply ln_increasing; lra. }
  assert (Hl0 : ln (1 - e) < 0) by (apply ln_lt0; lra).
  assert (Hm : 0 < 1 + c * ln (1 - e)).
  { apply (Rmult_lt_compat_l c) in Hl; [|lra]. replace (c * - (1 / c)) with (-1) in Hl by (field; lra). lra. }
  assert (Hm1 : 1 + c * ln (1 - e) < 1) by nra.
  assert (Hl2 : ln (1 + c * ln (1 - e)) < 0) by (apply ln_lt0; lra).
  split.
  - rewrite eff_CrFMUmax_form by lra.
    replace (- (-1 / c * ln (1 + c * ln (1 - e)) * c)) with (ln (1 + c * ln (1 - e))) by (field; lra).
    rewrite exp_ln by lra. replace (- ((1 - (1 + c * ln (1 - e))) / c)) with (ln (1 - e)) by (field; lra).
    rewrite exp_ln by lra. ring.
  - replace (-1 / c * ln (1 + c * ln (1 - e))) with ((- ln (1 + c * ln (1 - e))) / c) by (field; lra).
    apply Rdiv_lt_0_compat; lra.
Qed.

Lemma eff_CrFMUmax_mono N1 N2 c : N1 < N2 -> 0 < c -> eff_CrFMUmax N1 c < eff_CrFMUmax N2 c.
Proof.
  intros H12 Hc. rewrite !eff_CrFMUmax_form by lra.
  assert (exp (- (N2 * c)) < exp (- (N1 * c))) by (apply exp_increasing; nra).
  assert (exp (- ((1 - exp (- (N2 * c))) / c)) < exp (- ((1 - exp (- (N1 * c))) / c))).
  { apply exp_increasing. apply Ropp_lt_contravar. unfold Rdiv. apply Rmult_lt_compat_r; [apply Rinv_0_lt_compat; lra|lra]. }
  lra.
Qed.

(* ------------------------------------------------------------------ cross flow, Cmin unmixed *)
Lemma eff_CrFMUmin_form N c : eff_CrFMUmin N c = (1 - exp (- (c * (1 - exp (- N))))) / c.
Proof. unfold eff_CrFMUmin. replace (- c * (1 - exp (- N))) with (- (c * (1 - exp (- N)))) by ring. unfold Rdiv. ring. Qed.

Lemma eff_CrFMUmin_range N c : 0 < N -> 0 < c -> 0 < eff_CrFMUmin N c < (1 - exp (- c)) / c.
Proof.
  intros HN Hc. rewrite eff_CrFMUmin_form. pose proof (exp_neg_lt1 _ HN) as H1. pose proof (exp_pos (- N)) as H0.
  assert (Hq : 0 < c * (1 - exp (- N))) by (apply Rmult_lt_0_compat; lra).
  pose proof (exp_neg_lt1 _ Hq). split.
  - apply Rdiv_lt_0_compat; lra.
  - unfold Rdiv. apply Rmult_lt_compat_r; [apply Rinv_0_lt_compat; lra|].
    assert (exp (- c) < exp (- (c * (1 - exp (- N))))) by (apply exp_increasing; nra). lra.
Qed.
(* (1 - exp(-c))/c < 1 *)
Lemma one_minus_exp_lt c : 0 < c -> (1 - exp (- c)) / c < 1.
Proof.
  intro Hc. apply (Rmult_lt_reg_r c); [lra|]. unfold Rdiv. rewrite Rmult_assoc, Rinv_l by lra.
  pose proof (exp_ineq1 (- c) ltac:(lra)). lra.
Qed.
Lemma eff_CrFMUmin_lt1 N c : 0 < N -> 0 < c -> eff_CrFMUmin N c < 1.
Proof. intros HN Hc. destruct (eff_CrFMUmin_range N c HN Hc). pose proof (one_minus_exp_lt c Hc). lra. Qed.

Lemma ntu_eff_CrFMUmin N c : 0 < N -> 0 < c -> ntu_CrFMUmin (eff_CrFMUmin N c) c = N.
Proof.
  intros HN Hc. unfold ntu_CrFMUmin. rewrite eff_CrFMUmin_form.
  replace (1 - (1 - exp (- (c * (1 - exp (- N))))) / c * c) with (exp (- (c * (1 - exp (- N))))) by (field; lra).
  rewrite ln_exp. replace (1 + 1 / c * - (c * (1 - exp (- N)))) with (exp (- N)) by (field; lra).
  rewrite ln_exp. ring.
Qed.

Lemma eff_ntu_CrFMUmin e c : 0 < c -> 0 < e < (1 - exp (- c)) / c -> eff_CrFMUmin (ntu_CrFMUmin e c) c = e /\ 0 < ntu_CrFMUmin e c.
Proof.
  intros Hc [He0 He1]. unfold ntu_CrFMUmin. pose proof (exp_pos (- c)) as Hx.
  assert (Hec : e * c < 1 - exp (- c)).
  { apply (Rmult_lt_compat_r c) in He1; [|lra]. unfold Rdiv in He1. rewrite Rmult_assoc, Rinv_l in He1 by lra. lra. }
  assert (Hec0 : 0 < e * c) by (apply Rmult_lt_0_compat; lra).
  assert (Hl : - c < ln (1 - e * c)). { rewrite <- (ln_exp (- c)). apply ln_increasing; lra. }
  assert (Hl0 : ln (1 - e * c) < 0) by (apply ln_lt0; lra).
  assert (Hm : 0 < 1 + 1 / c * ln (1 - e * c)).
  { replace (1 + 1 / c * ln (1 - e * c)) with ((c + ln (1 - e * c)) / c) by (field; lra). apply Rdiv_lt_0_compat; lra. }
  assert (Hm1 : 1 + 1 / c * ln (1 - e * c) < 1).
  { assert (1 / c * ln (1 - e * c) < 0); [|lra]. replace (1 / c * ln (1 - e * c)) with (- ((- ln (1 - e * c)) / c)) by (field; lra).
    assert (0 < (- ln (1 - e * c)) / c) by (apply Rdiv_lt_0_compat; lra). lra. }
  split.
  - rewrite eff_CrFMUmin_form. rewrite Ropp_involutive. rewrite exp_ln by lra.
    replace (- (c * (1 - (1 + 1 / c * ln (1 - e * c))))) with (ln (1 - e * c)) by (field; lra).
    rewrite exp_ln by lra. field. lra.
  - assert (ln (1 + 1 / c * ln (1 - e * c)) < 0) by (apply ln_lt0; lra). lra.
Qed.

Lemma eff_CrFMUmin_mono N1 N2 c : N1 < N2 -> 0 < c -> eff_CrFMUmin N1 c < eff_CrFMUmin N2 c.
Proof.
  intros H12 Hc. rewrite !eff_CrFMUmin_form. unfold Rdiv. apply Rmult_lt_compat_r; [apply Rinv_0_lt_compat; lra|].
  assert (exp (- N2) < exp (- N1)) by (apply exp_increasing; lra).
  assert (exp (- (c * (1 - exp (- N2)))) < exp (- (c * (1 - exp (- N1))))) by (apply exp_increasing; nra). lra.
Qed.

(* ------------------------------------------------------------------ condensing / evaporating, and the c = 0 branch *)
Definition eff_c0 (N : R) : R := 1 - exp (- N).
Definition ntu_c0 (e : R) : R := - ln (1 - e).
Lemma eff_c0_range N : 0 < N -> 0 < eff_c0 N < 1.
Proof. intro HN. unfold eff_c0. pose proof (exp_neg_lt1 _ HN). pose proof (exp_pos (- N)). lra. Qed.
Lemma ntu_eff_c0 N : ntu_c0 (eff_c0 N) = N.
Proof. unfold ntu_c0, eff_c0. replace (1 - (1 - exp (- N))) with (exp (- N)) by ring. rewrite ln_exp. ring. Qed.
Lemma eff_ntu_c0 e : 0 < e < 1 -> eff_c0 (ntu_c0 e) = e /\ 0 < ntu_c0 e.
Proof.
  intros [H0 H1]. unfold ntu_c0, eff_c0. rewrite Ropp_involutive, exp_ln by lra. split; [ring|].
  assert (ln (1 - e) < 0) by (apply ln_lt0; lra). lra.
Qed.
Lemma eff_c0_mono N1 N2 : N1 < N2 -> eff_c0 N1 < eff_c0 N2.
Proof. intro H. unfold eff_c0. assert (exp (- N2) < exp (- N1)) by (apply exp_increasing; lra). lra. Qed.
Lemma eff_CondEvap_c0 N c : eff_CondEvap N c = eff_c0 N. Proof. reflexivity. Qed.
Lemma ntu_CondEvap_c0 e c : ntu_CondEvap e c = ntu_c0 e. Proof. reflexivity. Qed.
