(* C08 -- facts about model/Insert.v, part 2: the curve columns (piecewise-linear function unchanged everywhere),
   the NaN rule, old rows kept, widths and enthalpy changes re-derived. *)
From OP Require Import gen.Consts model.Base model.Insert proofs.BaseFacts proofs.Insert.
From Coq Require Import Lqa Lia.
Local Open Scope Q_scope.

(* ------------------------------------------------------------------ cells of new rows *)
Lemma nth_nil (A : Type) j (d : A) : nth j [] d = d.
Proof. destruct j; reflexivity. Qed.
Lemma nth_map2pad f : f None None = None ->
  forall a b j, nth j (map2pad f a b) None = f (nth j a None) (nth j b None).
Proof.
  intro Hf. induction a as [|x a IH]; intros b j.
  - simpl map2pad. rewrite nth_nil. transitivity (nth j (map (f None) b) (f None None)); [rewrite Hf; reflexivity|apply map_nth].
  - destruct b as [|y b]; simpl map2pad.
    + destruct j as [|j]; simpl nth; [reflexivity|]. rewrite IH. rewrite nth_nil. reflexivity.
    + destruct j as [|j]; simpl nth; [reflexivity|]. apply IH.
Qed.
Lemma interp_cell_nan tolv tu tl x : interp_cell tolv tu tl x None None = None.
Proof. unfold interp_cell. destruct (qleb (Qabs (tu - tl)) tolv); reflexivity. Qed.
Lemma hcell_edge j n x : hcell j (edge_row n x) = hcell j n.
Proof. reflexivity. Qed.
Lemma hcell_mid tolv j u l x : hcell j (mid_row tolv u l x) = interp_cell tolv (rT u) (rT l) x (hcell j u) (hcell j l).
Proof. unfold hcell, mid_row. simpl rH. apply nth_map2pad. apply interp_cell_nan. Qed.

(* the NaN rule of the code, cell by cell: a new inside cell is NaN exactly when the lower neighbour's cell is; when only the
   upper neighbour's cell is NaN the lower one is copied; edge rows copy the old first / last row *)
Lemma nan_cell_rule tolv u l x j :
  (hcell j (mid_row tolv u l x) = None <-> hcell j l = None)
  /\ (hcell j u = None -> hcell j (mid_row tolv u l x) = hcell j l)
  /\ (forall n, hcell j (edge_row n x) = hcell j n).
Proof.
  rewrite hcell_mid. unfold interp_cell. split; [|split].
  - destruct (qleb (Qabs (rT u - rT l)) tolv); [tauto|].
    destruct (hcell j l); [|tauto]. destruct (hcell j u); split; discriminate.
  - intro H. rewrite H. destruct (qleb (Qabs (rT u - rT l)) tolv); [reflexivity|]. destruct (hcell j l); reflexivity.
  - intro n. reflexivity.
Qed.

(* ------------------------------------------------------------------ the curve through points *)
Definition pt (j : nat) (r : row) : Q * Q := (rT r, cv (hcell j r)).
Lemma pts_map j t : pts j t = map (pt j) t.
Proof. reflexivity. Qed.

Lemma Qle_bool_false a b : Qle_bool a b = false <-> b < a.
Proof. apply (qleb_false a b). Qed.

Lemma lin_flat p q y v : snd p == v -> snd q == v -> lin p q y == v.
Proof.
  intros Hp Hq. unfold lin. set (k := (y - fst q) / (fst p - fst q)). rewrite Hp, Hq. ring.
Qed.
Lemma lin_at_top a b : fst b < fst a -> lin a b (fst a) == snd a.
Proof. intro H. unfold lin. field. intro E. lra. Qed.
Lemma lin_on_line_lower prev r p y : fst r < fst prev -> fst r < fst p -> snd p == lin prev r (fst p) ->
  lin p r y == lin prev r y.
Proof.
  intros H1 H2 Hp. unfold lin at 1. rewrite Hp. unfold lin. field. split; intro E; lra.
Qed.
Lemma lin_on_line_both prev r p q y : fst r < fst prev -> fst q < fst p ->
  snd p == lin prev r (fst p) -> snd q == lin prev r (fst q) -> lin p q y == lin prev r y.
Proof.
  intros H1 H2 Hp Hq. unfold lin at 1. rewrite Hp, Hq. unfold lin. field. split; intro E; lra.
Qed.

Lemma plgo_flat y v l : forall p, snd p == v -> (forall q, In q l -> snd q == v) -> plgo p l y == v.
Proof.
  induction l as [|q l IH]; intros p Hp Hl; simpl; [exact Hp|].
  destruct (Qle_bool (fst q) y).
  - apply lin_flat; [exact Hp|apply Hl; left; reflexivity].
  - apply IH; [apply Hl; left; reflexivity|intros q' Hq'; apply Hl; right; exact Hq'].
Qed.

(* a block of points lying on the segment prev--r, strictly between them, hottest first *)
Fixpoint line_chain (prev r : Q * Q) (px : Q) (ps : list (Q * Q)) : Prop :=
  match ps with
  | [] => True
  | q :: qs => fst r < fst q /\ fst q < px /\ snd q == lin prev r (fst q) /\ line_chain prev r (fst q) qs
  end.

Lemma plgo_block prev r tail y : fst r < fst prev ->
  forall ps p, fst r < fst p -> snd p == lin prev r (fst p) -> line_chain prev r (fst p) ps ->
  plgo p (ps ++ r :: tail) y == (if Qle_bool (fst r) y then lin prev r y else plgo r tail y).
Proof.
  intro Hpr. induction ps as [|q qs IH]; intros p Hp1 Hp2 Hc; simpl app; simpl plgo.
  - destruct (Qle_bool (fst r) y); [|reflexivity]. apply lin_on_line_lower; assumption.
  - destruct Hc as [Hq1 [Hq2 [Hq3 Hq4]]].
    destruct (Qle_bool (fst q) y) eqn:E.
    + apply Qle_bool_iff in E. assert (E2 : Qle_bool (fst r) y = true) by (apply Qle_bool_iff; lra). rewrite E2.
      apply lin_on_line_both; assumption.
    + apply IH; assumption.
Qed.

Lemma plgo_flat_then p0 tail y : forall l p, snd p == snd p0 -> fst p0 < fst p ->
  (forall q, In q l -> snd q == snd p0 /\ fst p0 < fst q) ->
  plgo p (l ++ p0 :: tail) y == (if Qle_bool (fst p0) y then snd p0 else plgo p0 tail y).
Proof.
  induction l as [|q l IH]; intros p Hp1 Hp2 Hl; simpl app; simpl plgo.
  - destruct (Qle_bool (fst p0) y); [|reflexivity]. apply lin_flat; [exact Hp1|reflexivity].
  - destruct (Hl q (or_introl eq_refl)) as [Hq1 Hq2].
    destruct (Qle_bool (fst q) y) eqn:E.
    + apply Qle_bool_iff in E. assert (E2 : Qle_bool (fst p0) y = true) by (apply Qle_bool_iff; lra). rewrite E2.
      apply lin_flat; assumption.
    + apply IH; [exact Hq1|exact Hq2|intros q' Hq'; apply Hl; right; exact Hq'].
Qed.

Section Tol.
Variable tolv : Q.
Hypothesis Htol : 0 <= tolv.

Notation sep_from := (sep_from tolv).
Notation sepd := (sepd tolv).
Notation cross_far := (cross_far tolv).
Notation WF := (WF tolv).

Definition populated (j : nat) (t : table) : Prop := forall r, In r t -> exists q, hcell j r = Some q.
Definition allnan (j : nat) (t : table) : Prop := forall r, In r t -> hcell j r = None.

(* what span gives at one old row (the same facts walkT_sep derives) *)
Lemma span_walk_facts p t ts xs here below :
  sep_from p (t :: ts) -> sep_from p xs -> cross_far (t :: ts) xs -> span (fun x => qleb t x) xs = (here, below) ->
  sep_from p here /\ Forall (fun x => t < x) here /\ sep_from t below /\ cross_far ts below.
Proof.
  intros Hts Hxs Hf E.
  pose proof (span_app _ _ _ _ E) as Happ. pose proof (span_fst_all _ _ _ _ E) as Hall. pose proof (span_snd_head _ _ _ _ E) as Hhd.
  subst xs. apply sep_from_app in Hxs. destruct Hxs as [Hh Hb]. destruct Hts as [Ht1 Ht2].
  split; [exact Hh|]. split; [|split].
  - rewrite Forall_forall in *. intros x Hx. assert (Hge := Hall x Hx). apply qleb_true in Hge.
    assert (Hfar := Hf x (in_or_app _ _ _ (or_introl Hx)) t (or_introl eq_refl)).
    rewrite Qabs_diff_ge in Hfar by exact Hge. lra.
  - destruct below as [|b br]; [exact I|]. simpl in Hb |- *. destruct Hb as [Hb1 Hb2]. split; [|exact Hb2].
    apply qleb_false in Hhd.
    assert (Hinb : In b (here ++ b :: br)) by (apply in_or_app; right; left; reflexivity).
    assert (Hfar := Hf b Hinb t (or_introl eq_refl)).
    rewrite Qabs_diff_le in Hfar by lra. lra.
  - intros x Hx t' Ht'. apply Hf; [apply in_or_app; right; exact Hx|right; exact Ht'].
Qed.

Lemma mid_chain j prev r u l : hcell j prev = Some u -> hcell j r = Some l -> rT r + tolv < rT prev ->
  forall here px, sep_from px here -> Forall (fun x => rT r < x) here ->
  line_chain (pt j prev) (pt j r) px (map (pt j) (map (mid_row tolv prev r) here)).
Proof.
  intros Hu Hl Hgap. induction here as [|x here IH]; intros px Hs Hall; simpl; [exact I|].
  destruct Hs as [Hs1 Hs2]. inversion Hall as [|x' l' Hx Hall']; subst.
  split; [exact Hx|]. split; [lra|]. split; [|apply IH; assumption].
  unfold pt at 1. cbn [snd fst]. rewrite hcell_mid, Hu, Hl. unfold interp_cell.
  assert (E : qleb (Qabs (rT prev - rT r)) tolv = false).
  { apply qleb_false. rewrite Qabs_diff_le by lra. lra. }
  rewrite E. cbn [cv]. rewrite Qred_correct. unfold lin, pt. cbn [fst snd]. rewrite ?Hu, ?Hl. cbn [cv]. cbn [rT mid_row]. reflexivity.
Qed.

Lemma walk_plgo j y rest : forall prev xs,
  populated j (prev :: rest) -> sep_from (rT prev) (map rT rest) -> sep_from (rT prev) xs -> cross_far (map rT rest) xs ->
  plgo (pt j prev) (pts j (walk tolv prev rest xs)) y == plgo (pt j prev) (pts j rest) y.
Proof.
  induction rest as [|r rs IH]; intros prev xs Hpop Hts Hxs Hf.
  - simpl walk. rewrite pts_map. simpl plgo at 2. apply plgo_flat; [reflexivity|].
    intros q Hq. rewrite map_map in Hq. apply in_map_iff in Hq. destruct Hq as [x [Eq _]]. subst q. reflexivity.
  - simpl walk. destruct (span (fun x => qleb (rT r) x) xs) as [here below] eqn:E.
    simpl map in Hts, Hf.
    destruct (span_walk_facts _ _ _ _ _ _ Hts Hxs Hf E) as [Hh [Hall [Hb Hfb]]].
    destruct (Hpop prev (or_introl eq_refl)) as [u Hu]. destruct (Hpop r (or_intror (or_introl eq_refl))) as [l Hl].
    assert (Hgap : rT r + tolv < rT prev) by (destruct Hts; assumption).
    rewrite !pts_map, map_app. simpl map.
    rewrite (plgo_block (pt j prev) (pt j r)).
    + simpl plgo. unfold pt at 5. simpl fst. destruct (Qle_bool (rT r) y); [reflexivity|].
      rewrite <- !pts_map. apply IH.
      * intros r' Hr'. apply Hpop. right. exact Hr'.
      * destruct Hts; assumption.
      * exact Hb.
      * exact Hfb.
    + simpl. lra.
    + simpl. lra.
    + simpl fst. symmetry. apply lin_at_top. simpl. lra.
    + simpl fst. eapply mid_chain; eassumption.
Qed.

(* the table before widths and enthalpy changes are re-derived *)
Definition merge (t : table) (xs : list Q) : table :=
  match t with
  | [] => []
  | r0 :: rs => let (tops, others) := span (fun x => qltb (rT r0) x) xs in
                map (edge_row r0) tops ++ r0 :: walk tolv r0 rs others
  end.
Definition core (r : row) : Q * list cell * list cell * list cell := (rT r, rH r, rCP r, rX r).

Lemma rederive_core l : forall p, map core (rederive p l) = map core l.
Proof. induction l as [|r l IH]; intro p; simpl; [reflexivity|]. rewrite IH. reflexivity. Qed.
Lemma build_core t xs : map core (build tolv t xs) = map core (merge t xs).
Proof.
  destruct t as [|r0 rs]; [reflexivity|]. unfold build, merge.
  destruct (span (fun x => qltb (rT r0) x) xs) as [tops others]. destruct tops as [|t1 trest].
  - simpl. rewrite rederive_core. f_equal.
    destruct rs as [|r1 rs']; [reflexivity|]. destruct (fst (span (fun x => qleb (rT r1) x) others)); reflexivity.
  - simpl. rewrite rederive_core. reflexivity.
Qed.
Lemma pts_core j t t' : map core t = map core t' -> pts j t = pts j t'.
Proof.
  revert t'. induction t as [|r t IH]; intros [|r' t'] H; try discriminate; [reflexivity|].
  simpl in H. inversion H as [[H1 H2 H3 H4 H5]]. simpl. rewrite (IH t' H5). unfold hcell. rewrite H1, H2. reflexivity.
Qed.

Lemma merge_pl j t xs y : populated j t -> WF t -> sepd xs -> cross_far (map rT t) xs ->
  pl (pts j (merge t xs)) y == pl (pts j t) y.
Proof.
  intros Hpop [Hne Hs] Hxs Hf. destruct t as [|r0 rs]; [congruence|]. unfold merge. simpl map in Hs, Hf.
  destruct (span (fun x => qltb (rT r0) x) xs) as [tops others] eqn:E.
  pose proof (span_app _ _ _ _ E) as Happ. pose proof (span_fst_all _ _ _ _ E) as Hall. pose proof (span_snd_head _ _ _ _ E) as Hhd.
  subst xs.
  assert (Hso : sep_from (rT r0) others).
  { destruct others as [|b br]; [exact I|]. apply qltb_false in Hhd.
    assert (Hinb : In b (tops ++ b :: br)) by (apply in_or_app; right; left; reflexivity).
    assert (Hfar := Hf b Hinb (rT r0) (or_introl eq_refl)). rewrite Qabs_diff_le in Hfar by exact Hhd.
    assert (Hbr : sep_from b br).
    { destruct tops as [|a tr]; simpl in Hxs; [exact Hxs|]. apply sep_from_app in Hxs. destruct Hxs as [_ Hx]. destruct Hx; assumption. }
    simpl. split; [lra|exact Hbr]. }
  assert (Hw : plgo (pt j r0) (pts j (walk tolv r0 rs others)) y == plgo (pt j r0) (pts j rs) y).
  { apply walk_plgo; [exact Hpop|exact Hs|exact Hso|].
    intros x Hx t' Ht'. apply Hf; [apply in_or_app; right; exact Hx|right; exact Ht']. }
  assert (Hgt : forall x, In x tops -> rT r0 < x).
  { rewrite Forall_forall in Hall. intros x Hx. apply qltb_true. apply Hall. exact Hx. }
  rewrite !pts_map in Hw. rewrite !pts_map, map_app. cbn [map].
  destruct tops as [|a tr].
  - cbn [app map pl]. change (fst (pt j r0)) with (rT r0). change (snd (pt j r0)) with (cv (hcell j r0)).
    destruct (Qle_bool (rT r0) y); [reflexivity|exact Hw].
  - cbn [app map pl]. change (fst (pt j (edge_row r0 a))) with a.
    change (snd (pt j (edge_row r0 a))) with (cv (hcell j r0)). change (fst (pt j r0)) with (rT r0). change (snd (pt j r0)) with (cv (hcell j r0)).
    assert (Ha : rT r0 < a) by (apply Hgt; left; reflexivity).
    destruct (Qle_bool a y) eqn:Ea.
    + apply Qle_bool_iff in Ea. assert (E2 : Qle_bool (rT r0) y = true) by (apply Qle_bool_iff; lra).
      rewrite E2. reflexivity.
    + rewrite (plgo_flat_then (pt j r0)).
      * change (fst (pt j r0)) with (rT r0). change (snd (pt j r0)) with (cv (hcell j r0)).
        destruct (Qle_bool (rT r0) y); [reflexivity|exact Hw].
      * reflexivity.
      * exact Ha.
      * intros q Hq. rewrite map_map in Hq. apply in_map_iff in Hq. destruct Hq as [x [Eq Hx]]. subst q.
        split; [reflexivity|]. apply Hgt. right. exact Hx.
Qed.

(* ------------------------------------------------------------------ closure of row predicates (NaN rule) *)
Lemma walk_Forall (P : row -> Prop) :
  (forall n x, P n -> P (edge_row n x)) -> (forall u l x, P u -> P l -> P (mid_row tolv u l x)) ->
  forall rest prev xs, P prev -> Forall P rest -> Forall P (walk tolv prev rest xs).
Proof.
  intros He Hm. induction rest as [|r rs IH]; intros prev xs Hp Hr; simpl.
  - apply Forall_forall. intros z Hz. apply in_map_iff in Hz. destruct Hz as [x [Ez _]]. subst z. apply He. exact Hp.
  - inversion Hr as [|r' l' Hr1 Hr2]; subst.
    destruct (span (fun x => qleb (rT r) x) xs) as [here below]. apply Forall_app. split.
    + apply Forall_forall. intros z Hz. apply in_map_iff in Hz. destruct Hz as [x [Ez _]]. subst z. apply Hm; assumption.
    + constructor; [exact Hr1|]. apply IH; assumption.
Qed.
Lemma merge_Forall (P : row -> Prop) :
  (forall n x, P n -> P (edge_row n x)) -> (forall u l x, P u -> P l -> P (mid_row tolv u l x)) ->
  forall t xs, Forall P t -> Forall P (merge t xs).
Proof.
  intros He Hm t xs Ht. destruct t as [|r0 rs]; [constructor|]. unfold merge.
  inversion Ht as [|r' l' H0 Hrs]; subst.
  destruct (span (fun x => qltb (rT r0) x) xs) as [tops others]. apply Forall_app. split.
  - apply Forall_forall. intros z Hz. apply in_map_iff in Hz. destruct Hz as [x [Ez _]]. subst z. apply He. exact H0.
  - constructor; [exact H0|]. apply walk_Forall; assumption.
Qed.

Lemma hcell_core j t t' : map core t = map core t' -> forall (P : cell -> Prop), Forall (fun r => P (hcell j r)) t -> Forall (fun r => P (hcell j r)) t'.
Proof.
  revert t'. induction t as [|r t IH]; intros [|r' t'] H P Hf; try discriminate; [constructor|].
  simpl in H. inversion H as [[H1 H2 H3 H4 H5]]. inversion Hf; subst. constructor.
  - unfold hcell in *. rewrite <- H2. assumption.
  - eapply IH; eassumption.
Qed.

Lemma build_populated j t xs : populated j t -> populated j (build tolv t xs).
Proof.
  intro Hp. assert (H : Forall (fun r => (fun c => exists q, c = Some q) (hcell j r)) (merge t xs)).
  { apply merge_Forall.
    - intros n x Hn. rewrite hcell_edge. exact Hn.
    - intros u l x [qu Hu] [ql Hl]. rewrite hcell_mid, Hu, Hl. unfold interp_cell.
      destruct (qleb (Qabs (rT u - rT l)) tolv); eexists; reflexivity.
    - apply Forall_forall. exact Hp. }
  eapply hcell_core in H; [|symmetry; apply build_core]. rewrite Forall_forall in H. exact H.
Qed.
Lemma build_allnan j t xs : allnan j t -> allnan j (build tolv t xs).
Proof.
  intro Hp. assert (H : Forall (fun r => (fun c => c = None) (hcell j r)) (merge t xs)).
  { apply merge_Forall.
    - intros n x Hn. rewrite hcell_edge. exact Hn.
    - intros u l x Hu Hl. rewrite hcell_mid, Hu, Hl. apply interp_cell_nan.
    - apply Forall_forall. exact Hp. }
  eapply hcell_core in H; [|symmetry; apply build_core]. rewrite Forall_forall in H. exact H.
Qed.

(* ------------------------------------------------------------------ old rows kept *)
Lemma walk_keeps rest : forall prev xs r, In r rest -> In r (walk tolv prev rest xs).
Proof.
  induction rest as [|r0 rs IH]; intros prev xs r Hr; [destruct Hr|]. simpl.
  destruct (span (fun x => qleb (rT r0) x) xs) as [here below]. apply in_or_app. right.
  destruct Hr as [Hr|Hr]; [left; exact Hr|right; apply IH; exact Hr].
Qed.
Lemma merge_keeps t xs r : In r t -> In r (merge t xs).
Proof.
  destruct t as [|r0 rs]; [intros []|]. intro Hr. unfold merge.
  destruct (span (fun x => qltb (rT r0) x) xs) as [tops others]. apply in_or_app. right.
  destruct Hr as [Hr|Hr]; [left; exact Hr|right; apply walk_keeps; exact Hr].
Qed.
Lemma build_keeps t xs r : In r t -> exists r', In r' (build tolv t xs) /\ core r' = core r.
Proof.
  intro Hr. apply (merge_keeps t xs) in Hr. apply (in_map core) in Hr. rewrite <- build_core in Hr.
  apply in_map_iff in Hr. destruct Hr as [r' [E H]]. exists r'. split; assumption.
Qed.

(* ------------------------------------------------------------------ widths and enthalpy changes *)
Fixpoint widths_from (p : Q) (l : table) : Prop :=
  match l with
  | [] => True
  | r :: rs => (exists d, rDT r = Some d /\ d == p - rT r) /\ widths_from (rT r) rs
  end.
Definition widths_ok (t : table) : Prop := match t with [] => True | r :: rs => widths_from (rT r) rs end.
Definition dh_row (r : row) : Prop := rDH r = map (omul (rDT r)) (rCP r).
Definition dh_ok (t : table) : Prop := match t with [] => True | _ :: rs => Forall dh_row rs end.

Lemma rederive_widths l : forall p, widths_from p (rederive p l).
Proof.
  induction l as [|r l IH]; intro p; simpl; [exact I|]. split; [|apply IH].
  eexists. split; [reflexivity|apply rsub_eq].
Qed.
Lemma rederive_dh l : forall p, Forall dh_row (rederive p l).
Proof. induction l as [|r l IH]; intro p; simpl; constructor; [reflexivity|apply IH]. Qed.

Lemma build_widths t x xs : widths_ok (build tolv t (x :: xs)).
Proof.
  destruct t as [|r0 rs]; [exact I|]. unfold build.
  destruct (span (fun x => qltb (rT r0) x) (x :: xs)) as [tops others]. destruct tops as [|t1 trest].
  - simpl. destruct rs as [|r1 rs']; [apply rederive_widths|].
    destruct (fst (span (fun x => qleb (rT r1) x) others)); apply rederive_widths.
  - simpl. apply rederive_widths.
Qed.
Lemma build_dh t xs : dh_ok (build tolv t xs).
Proof.
  destruct t as [|r0 rs]; [exact I|]. unfold build.
  destruct (span (fun x => qltb (rT r0) x) xs) as [tops others]. destruct tops as [|t1 trest]; simpl; apply rederive_dh.
Qed.

(* cell-wise reading of dh_row, and completeness of the boolean predicates used on observed tables *)
Lemma omul_nan d : omul d None = None.
Proof. destruct d; reflexivity. Qed.
Lemma dh_row_cells r : dh_row r -> forall j, nth j (rDH r) None = omul (rDT r) (nth j (rCP r) None).
Proof. intros H j. rewrite H. rewrite <- (omul_nan (rDT r)) at 1. apply map_nth. Qed.

Lemma ceq_b_refl c : ceq_b 0 c c = true.
Proof. destruct c; simpl; [|reflexivity]. apply close0_eq. reflexivity. Qed.
Lemma cells_eq_b_refl l : cells_eq_b 0 l l = true.
Proof. induction l; simpl; [reflexivity|]. rewrite ceq_b_refl. exact IHl. Qed.
Lemma widths_from_b_complete l : forall p, widths_from p l -> widths_from_b 0 p l = true.
Proof.
  induction l as [|r l IH]; intros p H; simpl; [reflexivity|]. destruct H as [[d [H1 H2]] H3].
  rewrite H1. simpl. rewrite (IH _ H3), andb_true_r. apply close0_eq. exact H2.
Qed.
Lemma widths_b_complete t : widths_ok t -> widths_b 0 t = true.
Proof. destruct t; simpl; [reflexivity|apply widths_from_b_complete]. Qed.
Lemma dh_b_complete t : dh_ok t -> dh_b 0 t = true.
Proof.
  destruct t as [|r t]; simpl; [reflexivity|]. intro H. apply forallb_forall. intros r' Hr'. rewrite Forall_forall in H.
  unfold dh_row_b. rewrite <- (H r' Hr'). apply cells_eq_b_refl.
Qed.

(* ------------------------------------------------------------------ statements about insert_t *)
Lemma insert_zero t reqs : snd (insert_t tolv t reqs) = 0%nat -> fst (insert_t tolv t reqs) = t.
Proof. unfold insert_t. destruct (plan tolv t reqs); [reflexivity|discriminate]. Qed.

Lemma insert_curves j t reqs : WF t -> populated j t ->
  populated j (fst (insert_t tolv t reqs)) /\ forall y, pl (pts j (fst (insert_t tolv t reqs))) y == pl (pts j t) y.
Proof.
  intros Hwf Hp. unfold insert_t. destruct (plan tolv t reqs) as [|x xs] eqn:E; simpl fst.
  - split; [exact Hp|reflexivity].
  - split; [apply build_populated; exact Hp|]. intro y.
    rewrite (pts_core j _ _ (build_core t (x :: xs))). apply merge_pl; [exact Hp|exact Hwf| |].
    + rewrite <- E. apply plan_sepd.
    + rewrite <- E. apply plan_cross_far.
Qed.
Lemma insert_allnan j t reqs : allnan j t -> allnan j (fst (insert_t tolv t reqs)).
Proof. intro Hp. unfold insert_t. destruct (plan tolv t reqs); simpl fst; [exact Hp|apply build_allnan; exact Hp]. Qed.
Lemma insert_keeps t reqs r : In r t -> exists r', In r' (fst (insert_t tolv t reqs)) /\ core r' = core r.
Proof.
  intro Hr. unfold insert_t. destruct (plan tolv t reqs); simpl fst; [exists r; split; [exact Hr|reflexivity]|apply build_keeps; exact Hr].
Qed.
Lemma insert_widths t reqs : (0 < snd (insert_t tolv t reqs))%nat \/ widths_ok t -> widths_ok (fst (insert_t tolv t reqs)).
Proof.
  unfold insert_t. destruct (plan tolv t reqs); simpl; [intros [H|H]; [lia|exact H]|intros _; apply build_widths].
Qed.
Lemma insert_dh t reqs : (0 < snd (insert_t tolv t reqs))%nat \/ dh_ok t -> dh_ok (fst (insert_t tolv t reqs)).
Proof.
  unfold insert_t. destruct (plan tolv t reqs); simpl; [intros [H|H]; [lia|exact H]|intros _; apply build_dh].
Qed.

End Tol.
