(* C10: the statements of props/C10.v in terms of the model functions only (model_synth / model_user), derived from
   ZoneTreeMain; count and duty conservation; the boolean predicate of the check holds on the model's output;
   witnesses for the open findings and for the pre-repair code. *)
From OP Require Import gen.Consts gen.ZoneTreeConsts model.Base model.Collection model.ZoneTree
  proofs.CollectionRefine proofs.ZoneTreeStrings proofs.ZoneTreeSynth proofs.ZoneTreeImport proofs.ZoneTreeMain.
From Coq Require Import String Ascii Lia Permutation QArith.

Ltac with_inv ND H := let L := fresh "L" in let asg := fresh "asg" in let SO := fresh "SO" in let Hb := fresh "Hb" in
  destruct (model_synth_inv _ _ _ ND H) as [L [asg [SO Hb]]].

(* ---------------------------------------------------------------- generated names *)
Theorem generated_names_fresh ss : NoDup (map sid ss) ->
  exists L asg, synth_front ss = Ok (L, asg) /\
    forall s, In s ss -> labelled s = true ->
      exists k, asg_get asg (sid s) = Some (split_label (slabel s) ++ [oname k])
             /\ In (split_label (slabel s) ++ [oname k]) L
             /\ kids L (split_label (slabel s) ++ [oname k]) = []
             /\ ~ label_path (synth_order ss) (split_label (slabel s) ++ [oname k])
             /\ forall s', In s' ss -> asg_get asg (sid s') = Some (split_label (slabel s) ++ [oname k]) -> s' = s.
Proof.
  intro ND. destruct (synth_front_ok ss ND) as [L [asg [E SO]]]. exists L, asg. split; [exact E|].
  intros s Hs Hl. destruct (so_leaf _ _ _ SO s Hs Hl) as [k [A [B [C D]]]]. exists k. fold (comps s).
  repeat split; try assumption. intros s' Hs' G. eapply (so_inj _ _ _ SO); eauto.
Qed.

(* ---------------------------------------------------------------- placement *)
Theorem placement_thm root ss out : NoDup (map sid ss) -> model_synth root ss = Ok out ->
  forall s, In s ss -> labelled s = true ->
  exists z, In z out /\ is_leaf out z = true /\ removelast (zo_path z) = split_label (slabel s)
    /\ forall z', In z' out -> occ s z' = if is_prefix (zo_path z') (zo_path z) then 1%nat else 0%nat.
Proof. intros ND H. with_inv ND H. eapply placement; eauto. Qed.

Theorem leaf_unique_thm root ss out : NoDup (map sid ss) -> model_synth root ss = Ok out ->
  forall s, In s ss -> labelled s = true ->
  exists z, In z out /\ is_leaf out z = true /\ occ s z = 1%nat
    /\ forall z', In z' out -> is_leaf out z' = true -> (0 < occ s z')%nat -> z' = z.
Proof.
  intros ND H s Hs Hl. with_inv ND H. destruct (placement root ss L asg out ND SO Hb s Hs Hl) as [z [Hz [Lz [_ O]]]].
  exists z. split; [exact Hz|]. split; [exact Lz|]. assert (Oz : occ s z = 1%nat) by (rewrite (O z Hz), is_prefix_refl; reflexivity).
  split; [exact Oz|]. intros z' Hz' Lz' Oz'. eapply (leaf_unique root ss L asg out ND SO Hb s z' z); eauto. lia.
Qed.

Theorem ancestors_once_thm root ss out : NoDup (map sid ss) -> model_synth root ss = Ok out ->
  forall s z z', In s ss -> labelled s = true -> In z out -> In z' out -> is_leaf out z = true -> (0 < occ s z)%nat ->
  is_prefix (zo_path z') (zo_path z) = true -> occ s z' = 1%nat.
Proof.
  intros ND H s z z' Hs Hl Hz Hz' Lz Oz P. with_inv ND H.
  destruct (placement root ss L asg out ND SO Hb s Hs Hl) as [z0 [Hz0 [Lz0 [_ O]]]].
  assert (z = z0). { eapply (leaf_unique root ss L asg out ND SO Hb s z z0); eauto. rewrite (O z0 Hz0), is_prefix_refl. lia. }
  subst z0. rewrite (O z' Hz'), P. reflexivity.
Qed.

Theorem nowhere_else_thm root ss out : NoDup (map sid ss) -> model_synth root ss = Ok out ->
  forall s z z', In s ss -> labelled s = true -> In z out -> In z' out -> is_leaf out z = true -> (0 < occ s z)%nat ->
  is_prefix (zo_path z') (zo_path z) = false -> occ s z' = 0%nat.
Proof.
  intros ND H s z z' Hs Hl Hz Hz' Lz Oz P. with_inv ND H.
  destruct (placement root ss L asg out ND SO Hb s Hs Hl) as [z0 [Hz0 [Lz0 [_ O]]]].
  assert (z = z0). { eapply (leaf_unique root ss L asg out ND SO Hb s z z0); eauto. rewrite (O z0 Hz0), is_prefix_refl. lia. }
  subst z0. rewrite (O z' Hz'), P. reflexivity.
Qed.

Theorem unlabelled_nowhere_thm root ss out : NoDup (map sid ss) -> model_synth root ss = Ok out ->
  forall s z, In s ss -> labelled s = false -> In z out -> occ s z = 0%nat.
Proof. intros ND H. with_inv ND H. eapply unlabelled_nowhere; eauto. Qed.

Theorem members_known_thm root ss out : NoDup (map sid ss) -> model_synth root ss = Ok out ->
  forall z i, In z out -> In i (members z) -> exists s, In s ss /\ sid s = i /\ labelled s = true.
Proof. intros ND H. with_inv ND H. eapply members_known; eauto. Qed.

Theorem siblings_disjoint_thm root ss out : NoDup (map sid ss) -> model_synth root ss = Ok out ->
  forall z1 z2 p c1 c2 i, In z1 out -> In z2 out -> zo_path z1 = p ++ [c1] -> zo_path z2 = p ++ [c2] -> c1 <> c2 ->
  In i (members z1) -> ~ In i (members z2).
Proof. intros ND H. with_inv ND H. eapply siblings_disjoint; eauto. Qed.

Theorem leaf_single_thm root ss out : NoDup (map sid ss) -> model_synth root ss = Ok out ->
  forall z, In z out -> is_leaf out z = true -> zo_path z <> [] ->
  exists s, In s ss /\ labelled s = true /\ members z = [sid s] /\ removelast (zo_path z) = split_label (slabel s).
Proof. intros ND H. with_inv ND H. eapply leaf_single; eauto. Qed.

(* ---------------------------------------------------------------- conservation: identities, count, duty *)
Definition through (p : path) (s : istream) : bool := labelled s && is_prefix p (split_label (slabel s)).

Theorem conservation_thm root ss out : NoDup (map sid ss) -> model_synth root ss = Ok out ->
  forall z, In z out -> is_leaf out z = false \/ zo_path z = [] ->
  Permutation (map fst (zo_hot z)) (map sid (filter (fun s => through (zo_path z) s && shot s) ss))
  /\ Permutation (map fst (zo_cold z)) (map sid (filter (fun s => through (zo_path z) s && negb (shot s)) ss)).
Proof.
  intros ND H z Hz Hint. with_inv ND H. destruct (conservation root ss L asg out ND SO Hb z Hz Hint) as [A B].
  split; [eapply Permutation_trans; [exact A|]|eapply Permutation_trans; [exact B|]]; apply Permutation_map;
    (erewrite filter_ext; [apply Permutation_refl|]); intro s; unfold through; cbn beta;
    destruct (labelled s), (shot s), (is_prefix (zo_path z) (split_label (slabel s))); reflexivity.
Qed.

Lemma filter_split_len {A} (f g : A -> bool) l :
  (List.length (filter (fun x => f x && g x) l) + List.length (filter (fun x => f x && negb (g x)) l) = List.length (filter f l))%nat.
Proof. induction l as [|x r IH]; simpl; [reflexivity|]. destruct (f x), (g x); simpl; lia. Qed.

Theorem count_conservation_thm root ss out : NoDup (map sid ss) -> model_synth root ss = Ok out ->
  forall z, In z out -> is_leaf out z = false \/ zo_path z = [] ->
  List.length (members z) = List.length (filter (through (zo_path z)) ss).
Proof.
  intros ND H z Hz Hint. destruct (conservation_thm root ss out ND H z Hz Hint) as [A B].
  unfold members. rewrite app_length, (Permutation_length A), (Permutation_length B), !map_length. apply filter_split_len.
Qed.

(* duty of a zone = sum of the input duties of the streams it holds *)
Definition duty_of (ss : list istream) (i : nat) : Q := match find_stream ss i with Some s => sduty s | None => 0 end.
Lemma sumq_cons x l : sumq (x :: l) = Qred (x + sumq l). Proof. reflexivity. Qed.
Lemma sumq_perm l l' : Permutation l l' -> sumq l == sumq l'.
Proof.
  induction 1; rewrite ?sumq_cons.
  - reflexivity.
  - eapply Qeq_trans; [apply Qred_correct|]. eapply Qeq_trans; [|apply Qeq_sym, Qred_correct]. apply Qplus_comp; [reflexivity|assumption].
  - eapply Qeq_trans; [apply Qred_correct|]. eapply Qeq_trans; [|apply Qeq_sym, Qred_correct].
    setoid_replace (Qred (x + sumq l)) with (x + sumq l) by apply Qred_correct.
    setoid_replace (Qred (y + sumq l)) with (y + sumq l) by apply Qred_correct. ring.
  - eapply Qeq_trans; eassumption.
Qed.
Lemma find_stream_in ss s : NoDup (map sid ss) -> In s ss -> find_stream ss (sid s) = Some s.
Proof.
  induction ss as [|x r IH]; simpl; intros ND Hs; [contradiction|]. inversion ND as [|? ? Hx Hr]; subst. unfold find_stream. simpl.
  destruct Hs as [Hs|Hs]; [subst; rewrite Nat.eqb_refl; reflexivity|].
  destruct (Nat.eqb (sid x) (sid s)) eqn:E; [exfalso; apply Nat.eqb_eq in E; apply Hx; rewrite E; apply in_map, Hs|]. apply IH; assumption.
Qed.
Lemma duty_map ss (P : istream -> bool) : NoDup (map sid ss) -> map (duty_of ss) (map sid (filter P ss)) = map sduty (filter P ss).
Proof.
  intro ND. rewrite map_map. apply map_ext_in. intros s Hs. apply filter_In in Hs. unfold duty_of. rewrite find_stream_in; tauto.
Qed.

Theorem duty_conservation_thm root ss out : NoDup (map sid ss) -> model_synth root ss = Ok out ->
  forall z, In z out -> is_leaf out z = false \/ zo_path z = [] ->
  sumq (map (duty_of ss) (map fst (zo_hot z))) == sumq (map sduty (filter (fun s => through (zo_path z) s && shot s) ss))
  /\ sumq (map (duty_of ss) (map fst (zo_cold z))) == sumq (map sduty (filter (fun s => through (zo_path z) s && negb (shot s)) ss)).
Proof.
  intros ND H z Hz Hint. destruct (conservation_thm root ss out ND H z Hz Hint) as [A B].
  split; (eapply Qeq_trans; [apply sumq_perm, Permutation_map; eassumption|]); rewrite duty_map by exact ND; reflexivity.
Qed.

(* ---------------------------------------------------------------- the check's boolean predicate holds on the model's output *)
Lemma filter_unique {A} (f : A -> bool) l x : NoDup l -> In x l -> f x = true -> (forall y, In y l -> f y = true -> y = x) -> filter f l = [x].
Proof.
  induction l as [|a r IH]; intros ND Hx Fx U; [contradiction|]. inversion ND as [|? ? Ha Hr]; subst. simpl.
  destruct Hx as [Hx|Hx].
  - subst a. rewrite Fx. f_equal. apply filter_false. intros y Hy. destruct (f y) eqn:Fy; [|reflexivity].
    exfalso. assert (y = x) by (apply U; [right; exact Hy|exact Fy]). subst. contradiction.
  - destruct (f a) eqn:Fa.
    + exfalso. assert (a = x) by (apply U; [left; reflexivity|exact Fa]). subst. contradiction.
    + apply IH; auto. intros y Hy. apply U. right. exact Hy.
Qed.

Theorem model_satisfies_stream_ok root ss out : NoDup (map sid ss) -> model_synth root ss = Ok out -> forallb (stream_ok out) ss = true.
Proof.
  intros ND H. apply forallb_forall. intros s Hs. unfold stream_ok. destruct (labelled s) eqn:Hl.
  - destruct (placement_thm root ss out ND H s Hs Hl) as [z [Hz [Lz [_ O]]]].
    assert (NDo : NoDup out).
    { with_inv ND H. pose proof (out_paths_nodup root ss L asg out ND SO Hb) as P. eapply NoDup_map_inv, P. }
    assert (E : leaf_of out (sid s) = [z]).
    { unfold leaf_of. apply filter_unique; [exact NDo|exact Hz| |].
      - rewrite Lz. fold (occ s z). rewrite (O z Hz), is_prefix_refl. reflexivity.
      - intros y Hy Fy. apply Bool.andb_true_iff in Fy. destruct Fy as [Ly Oy]. apply Nat.ltb_lt in Oy.
        destruct (leaf_unique_thm root ss out ND H s Hs Hl) as [z0 [_ [_ [_ U]]]].
        rewrite (U y Hy Ly Oy). symmetry. apply U; [exact Hz|exact Lz|]. fold (occ s z). rewrite (O z Hz), is_prefix_refl. lia. }
    rewrite E. apply forallb_forall. intros z' Hz'. apply Nat.eqb_eq. fold (occ s z'). apply O, Hz'.
  - apply forallb_forall. intros z Hz. apply Nat.eqb_eq. fold (occ s z). eapply unlabelled_nowhere_thm; eauto.
Qed.

(* ---------------------------------------------------------------- user trees: partial result *)
(* whenever the rewriting of labels resolves every non-empty label to the full path of a childless zone of a well-formed
   tree, every zone holds exactly the streams resolved to a leaf at or below it *)
Theorem user_tree_partial t ss L zs leaf :
  rewrite_all (ut_name t) (ut_rel_paths t) ss = Ok (L, zs) ->
  NoDup L -> prefix_closed L -> ~ In [] L -> Forall (Forall nosep) L -> NoDup (map zsid zs) ->
  (forall z, In z zs -> nonempty (zs_zone z) = true ->
     zs_zone z = pathstr (ut_name t) (leaf (zsid z)) /\ In (leaf (zsid z)) L /\ kids L (leaf (zsid z)) = []) ->
  exists out, model_user t ss = Ok out /\ map zo_path out = [] :: L /\
    forall z, In z out ->
      Permutation (map fst (zo_hot z))
        (map zsid (filter (fun x => nonempty (zs_zone x) && shot (zs_s x) && is_prefix (zo_path z) (leaf (zsid x))) zs))
      /\ Permutation (map fst (zo_cold z))
        (map zsid (filter (fun x => nonempty (zs_zone x) && negb (shot (zs_s x)) && is_prefix (zo_path z) (leaf (zsid x))) zs)).
Proof.
  intros E H1 H2 H3 H4 H5 H6. destruct (backend_ok (ut_name t) L zs leaf H1 H2 H3 H4 H5 H6) as [out [Eo [P Q]]].
  exists out. unfold model_user. rewrite E. simpl. split; [exact Eo|]. split; [exact P|]. exact Q.
Qed.

(* ---------------------------------------------------------------- witnesses *)
Definition mkS (i : nat) (l n : string) (h : bool) : istream := mkIS i l n h (if h then 200 # 1 else 50 # 1) (Z.of_nat (8 * (i + 1)) # 1).
Local Open Scope string_scope.
Definition tree_w : utree := UT "Root" [UT "P1" [UT "U1" []]].

(* D22 (open): a label the user tree does not resolve -- the stream is in no zone at all *)
Example user_tree_unresolved_refuted :
  exists out, model_user tree_w [mkS 0 "Nowhere" "S" true] = Ok out
    /\ forallb (fun z => Nat.eqb (List.length (members z)) 0) out = true
    /\ forallb (stream_ok out) [mkS 0 "Nowhere" "S" true] = false
    /\ trigger (Some tree_w) [mkS 0 "Nowhere" "S" true] = 1%Z.
Proof. eexists. split; [vm_compute; reflexivity|]. vm_compute. auto. Qed.

(* D38 (open): a label that resolves to a zone with subzones -- wiped by the bottom-up import *)
Example user_tree_internal_label_refuted :
  exists out, model_user tree_w [mkS 0 "P1" "S" true] = Ok out
    /\ forallb (fun z => Nat.eqb (List.length (members z)) 0) out = true
    /\ forallb (stream_ok out) [mkS 0 "P1" "S" true] = false
    /\ trigger (Some tree_w) [mkS 0 "P1" "S" true] = 2%Z.
Proof. eexists. split; [vm_compute; reflexivity|]. vm_compute. auto. Qed.

(* the partial theorem is not vacuous: a label resolved by unique suffix, one by full path *)
Example user_tree_resolved_example :
  exists out, model_user tree_w [mkS 0 "U1" "S" true; mkS 1 "Root/P1/U1" "S" false] = Ok out
    /\ forallb (stream_ok out) [mkS 0 "U1" "S" true; mkS 1 "Root/P1/U1" "S" false] = true
    /\ trigger (Some tree_w) [mkS 0 "U1" "S" true; mkS 1 "Root/P1/U1" "S" false] = 0%Z.
Proof. eexists. split; [vm_compute; reflexivity|]. vm_compute. auto. Qed.

(* D10, before a2806c0: labels A/B and B -- the first stream is also matched by the suffix B and sits in two leaves *)
Example suffix_matching_prefix_refuted :
  exists out, model_synth_prefix_D10 "Project" [mkS 0 "A/B" "S" true; mkS 1 "B" "S" false] = Ok out
    /\ forallb (stream_ok out) [mkS 0 "A/B" "S" true; mkS 1 "B" "S" false] = false
    /\ List.length (filter (fun z => is_leaf out z && Nat.ltb 0 (count_nat 0 (members z))) out) = 2%nat.
Proof. eexists. split; [vm_compute; reflexivity|]. vm_compute. auto. Qed.

(* D29, before 80225d1: labels A and A/O1/A in one pass -- the second label walks into the generated O1 of the first *)
Example single_pass_prefix_refuted :
  exists out, model_synth_prefix_D29 "Project" [mkS 0 "A" "S" true; mkS 1 "A/O1/A" "S" true] = Ok out
    /\ forallb (stream_ok out) [mkS 0 "A" "S" true; mkS 1 "A/O1/A" "S" true] = false.
Proof. eexists. split; [vm_compute; reflexivity|]. vm_compute. auto. Qed.

(* the same inputs on the repaired model satisfy the predicate (instances of the theorems; also non-vacuity) *)
Example repaired_examples :
  (exists out, model_synth "Project" [mkS 0 "A/B" "S" true; mkS 1 "B" "S" false] = Ok out
     /\ forallb (stream_ok out) [mkS 0 "A/B" "S" true; mkS 1 "B" "S" false] = true /\ siblings_disjoint_b out = true)
  /\ (exists out, model_synth "Project" [mkS 0 "A" "S" true; mkS 1 "A/O1/A" "S" true] = Ok out
     /\ forallb (stream_ok out) [mkS 0 "A" "S" true; mkS 1 "A/O1/A" "S" true] = true /\ siblings_disjoint_b out = true).
Proof. split; (eexists; split; [vm_compute; reflexivity|]; vm_compute; auto). Qed.
