(* The cascade of model/Cascade.v (problem_table_algorithm with the tol*10 activity window) computes, on every row,
   exactly the heat content of the streams above that temperature; hence the targets equal the exact optimum. *)
From OP Require Import model.Base model.Cascade proofs.BaseFacts proofs.CascadeSpec.
From Coq Require Import Lqa Lia.
Local Open Scope Q_scope.
Local Arguments Qred : simpl never.

Section Exact.
Variable w : Q.
Hypothesis w_pos : 0 < w.

Lemma active_spans s up low : lo s < hi s -> low + w < up -> no_inner s up low -> active w s up low = spans s up low.
Proof.
  intros Hs Hg [N1 N2]. unfold active, spans.
  destruct (qltb (low + w) (hi s)) eqn:A1; destruct (qltb (lo s) (up - w)) eqn:A2;
  destruct (qleb (lo s) low) eqn:S1; destruct (qleb up (hi s)) eqn:S2; simpl; try reflexivity; exfalso;
  try (apply qltb_true in A1); try (apply qltb_false in A1); try (apply qltb_true in A2); try (apply qltb_false in A2);
  try (apply qleb_true in S1); try (apply qleb_false in S1); try (apply qleb_true in S2); try (apply qleb_false in S2);
  try lra; try (apply N1; split; lra); try (apply N2; split; lra).
Qed.

Lemma cpsum_spansum ss up low : wfs ss -> low + w < up -> Forall (fun s => no_inner s up low) ss ->
  cpsum w ss up low == spansum ss up low.
Proof.
  intros W Hg N. induction ss as [|s ss IH]; simpl; [reflexivity|].
  inversion W as [|? ? [Ws _] W']; subst. inversion N as [|? ? Ns N']; subst. specialize (IH W' N').
  rewrite (active_spans s up low Ws Hg Ns). destruct (spans s up low); cbv iota; [rewrite Qred_correct|]; lra.
Qed.

Variables hot cold : list view.
Hypothesis Wh : wfs hot.
Hypothesis Wc : wfs cold.

Definition pair_ok (up low : Q) : Prop :=
  low + w < up /\ Forall (fun s => no_inner s up low) hot /\ Forall (fun s => no_inner s up low) cold.
Fixpoint chain (prev : Q) (g : list Q) : Prop :=
  match g with [] => True | t :: g' => pair_ok prev t /\ chain t g' end.

Definition row_exact (r : rrow) : Prop := rch r == heat_above hot (rT r) /\ rcc r == heat_above cold (rT r).

Lemma rows_from_exact g : forall prev ch cc, chain prev g ->
  ch == heat_above hot prev -> cc == heat_above cold prev ->
  Forall row_exact (rows_from w hot cold prev ch cc g).
Proof.
  induction g as [|t g IH]; intros prev ch cc Hc Eh Ec; simpl; [constructor|].
  destruct Hc as [[Hg [Nh Nc]] Hc].
  assert (Xh : radd ch (rmul (rsub prev t) (cpsum w hot prev t)) == heat_above hot t).
  { rewrite radd_eq, rmul_eq, rsub_eq, (cpsum_spansum hot prev t Wh Hg Nh).
    pose proof (heat_above_lin hot prev t t Wh Nh ltac:(lra) ltac:(lra)). lra. }
  assert (Xc : radd cc (rmul (rsub prev t) (cpsum w cold prev t)) == heat_above cold t).
  { rewrite radd_eq, rmul_eq, rsub_eq, (cpsum_spansum cold prev t Wc Hg Nc).
    pose proof (heat_above_lin cold prev t t Wc Nc ltac:(lra) ltac:(lra)). lra. }
  constructor; [split; simpl; assumption|]. apply IH; assumption.
Qed.

(* Robust: consecutive grid temperatures are further apart than the activity window *)
Fixpoint gaps_ok (l : list Q) : Prop :=
  match l with a :: t => (match t with b :: _ => b + w < a | [] => True end) /\ gaps_ok t | [] => True end.

Lemma chain_from g : forall rest pre a, g = pre ++ a :: rest -> desc g -> covers g (eps_all hot cold) ->
  gaps_ok (a :: rest) -> chain a rest.
Proof.
  induction rest as [|b post IH]; intros pre a E Hd Hc Hg; simpl; [exact I|].
  destruct Hg as [Hab Hg]. destruct (covers_split hot cold g Hc) as [Ch Cc]. split.
  - split; [exact Hab|]. split; eapply no_inner_consecutive; eauto.
  - apply (IH (pre ++ [a]) b); [rewrite <- app_assoc; exact E|exact Hd|exact Hc|exact Hg].
Qed.

Theorem raw_rows_exact g : desc g -> covers g (eps_all hot cold) -> gaps_ok g ->
  Forall row_exact (raw_rows w hot cold g).
Proof.
  intros Hd Hc Hg. destruct g as [|t0 g']; simpl; [constructor|].
  assert (T0 : heat_above hot t0 == 0 /\ heat_above cold t0 == 0).
  { destruct (covers_split hot cold _ Hc) as [Ch Cc].
    assert (Htop : forall ss, covers (t0 :: g') (endpoints ss) -> forall s, In s ss -> hi s <= t0).
    { intros ss C s Hs. destruct (C (hi s) (proj2 (endpoints_in ss s Hs))) as [z [Hz Ez]].
      pose proof (desc_le_head t0 g' z Hd Hz). lra. }
    split; apply heat_above_top; apply Htop; assumption. }
  destruct T0 as [Th Tc]. constructor; [split; simpl; lra|].
  apply rows_from_exact; [|lra|lra]. apply (chain_from (t0 :: g') g' [] t0); auto.
Qed.

Lemma rows_from_T g : forall prev ch cc, map rT (rows_from w hot cold prev ch cc g) = g.
Proof. induction g as [|t g IH]; intros; simpl; [reflexivity|]. f_equal. apply IH. Qed.
Lemma raw_rows_T g : map rT (raw_rows w hot cold g) = g.
Proof. destruct g as [|t0 g']; simpl; [reflexivity|]. f_equal. apply rows_from_T. Qed.
End Exact.
