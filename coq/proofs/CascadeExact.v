(* The cascade of model/Cascade.v (problem_table_algorithm with the tol*10 activity window) computes, on every row,
   exactly the heat content above that temperature of the GRID-ALIGNED streams: the streams whose end points have been
   moved onto the (rounded) grid.  `hot`/`cold` are the streams as the code sees them in the activity test (unrounded
   bounds), `hotR`/`coldR` their aligned versions, at most `d` away (d = 0 for inputs already on the rounding lattice). *)
From OP Require Import model.Base model.Cascade proofs.BaseFacts proofs.CascadeSpec.
From Coq Require Import Lqa Lia.
Local Open Scope Q_scope.
Local Arguments Qred : simpl never.

Definition nearv (d : Q) (s s' : view) : Prop :=
  vcp s == vcp s' /\ - d <= lo s - lo s' <= d /\ - d <= hi s - hi s' <= d.

Section Exact.
Variable w : Q.
Variable d : Q.
Hypothesis d_nonneg : 0 <= d.
Hypothesis d_lt_w : d < w.

Lemma active_spans s s' up low : nearv d s s' -> lo s' < hi s' -> low + w + d < up -> no_inner s' up low ->
  active w s up low = spans s' up low.
Proof.
  intros [_ [Nl Nh]] Hs Hg [N1 N2]. unfold active, spans.
  destruct (qltb (low + w) (hi s)) eqn:A1; destruct (qltb (lo s) (up - w)) eqn:A2;
  destruct (qleb (lo s') low) eqn:S1; destruct (qleb up (hi s')) eqn:S2; simpl; try reflexivity; exfalso;
  try (apply qltb_true in A1); try (apply qltb_false in A1); try (apply qltb_true in A2); try (apply qltb_false in A2);
  try (apply qleb_true in S1); try (apply qleb_false in S1); try (apply qleb_true in S2); try (apply qleb_false in S2);
  try lra; try (apply N1; split; lra); try (apply N2; split; lra).
Qed.

Lemma cpsum_spansum ss ss' up low : Forall2 (nearv d) ss ss' -> wfs ss' -> low + w + d < up ->
  Forall (fun s => no_inner s up low) ss' -> cpsum w ss up low == spansum ss' up low.
Proof.
  intros F W Hg N. induction F as [|s s' ss ss' Hn F IH]; simpl; [reflexivity|].
  inversion W as [|? ? [Ws _] W']; subst. inversion N as [|? ? Ns N']; subst. specialize (IH W' N').
  rewrite (active_spans s s' up low Hn Ws Hg Ns). destruct Hn as [Ec _].
  destruct (spans s' up low); cbv iota; [rewrite Qred_correct|]; lra.
Qed.

Variables hot cold hotR coldR : list view.
Hypothesis Fh : Forall2 (nearv d) hot hotR.
Hypothesis Fc : Forall2 (nearv d) cold coldR.
Hypothesis Wh : wfs hotR.
Hypothesis Wc : wfs coldR.

Definition pair_ok (up low : Q) : Prop :=
  low + w + d < up /\ Forall (fun s => no_inner s up low) hotR /\ Forall (fun s => no_inner s up low) coldR.
Fixpoint chain (prev : Q) (g : list Q) : Prop :=
  match g with [] => True | t :: g' => pair_ok prev t /\ chain t g' end.

Definition row_exact (r : rrow) : Prop := rch r == heat_above hotR (rT r) /\ rcc r == heat_above coldR (rT r).

Lemma rows_from_exact g : forall prev ch cc, chain prev g ->
  ch == heat_above hotR prev -> cc == heat_above coldR prev ->
  Forall row_exact (rows_from w hot cold prev ch cc g).
Proof.
  induction g as [|t g IH]; intros prev ch cc Hc Eh Ec; simpl; [constructor|].
  destruct Hc as [[Hg [Nh Nc]] Hc].
  assert (Xh : radd ch (rmul (rsub prev t) (cpsum w hot prev t)) == heat_above hotR t).
  { rewrite radd_eq, rmul_eq, rsub_eq, (cpsum_spansum hot hotR prev t Fh Wh Hg Nh).
    pose proof (heat_above_lin hotR prev t t Wh Nh ltac:(lra) ltac:(lra)). lra. }
  assert (Xc : radd cc (rmul (rsub prev t) (cpsum w cold prev t)) == heat_above coldR t).
  { rewrite radd_eq, rmul_eq, rsub_eq, (cpsum_spansum cold coldR prev t Fc Wc Hg Nc).
    pose proof (heat_above_lin coldR prev t t Wc Nc ltac:(lra) ltac:(lra)). lra. }
  constructor; [split; simpl; assumption|]. apply IH; assumption.
Qed.

(* Robust: consecutive grid temperatures are further apart than the activity window plus the alignment distance *)
Fixpoint gaps_ok (l : list Q) : Prop :=
  match l with a :: t => (match t with b :: _ => b + w + d < a | [] => True end) /\ gaps_ok t | [] => True end.

Lemma chain_from g : forall rest pre a, g = pre ++ a :: rest -> desc g -> covers g (eps_all hotR coldR) ->
  gaps_ok (a :: rest) -> chain a rest.
Proof.
  induction rest as [|b post IH]; intros pre a E Hd Hc Hg; simpl; [exact I|].
  destruct Hg as [Hab Hg]. destruct (covers_split hotR coldR g Hc) as [Ch Cc]. split.
  - split; [exact Hab|]. split; eapply no_inner_consecutive; eauto.
  - apply (IH (pre ++ [a]) b); [rewrite <- app_assoc; exact E|exact Hd|exact Hc|exact Hg].
Qed.

Theorem raw_rows_exact g : desc g -> covers g (eps_all hotR coldR) -> gaps_ok g ->
  Forall row_exact (raw_rows w hot cold g).
Proof.
  intros Hd Hc Hg. destruct g as [|t0 g']; simpl; [constructor|].
  assert (T0 : heat_above hotR t0 == 0 /\ heat_above coldR t0 == 0).
  { destruct (covers_split hotR coldR _ Hc) as [Ch Cc].
    assert (Htop : forall ss, covers (t0 :: g') (endpoints ss) -> forall s, In s ss -> hi s <= t0).
    { intros ss C s Hs. destruct (C (hi s) (proj2 (endpoints_in ss s Hs))) as [z [Hz Ez]].
      pose proof (desc_le_head t0 g' z Hd Hz). lra. }
    split; apply heat_above_top; apply Htop; assumption. }
  destruct T0 as [Th Tc]. constructor; [split; simpl; lra|].
  apply rows_from_exact; [|lra|lra]. apply (chain_from (t0 :: g') g' [] t0); auto.
Qed.

Lemma rows_from_T g : forall prev ch cc, map rT (rows_from w hot cold prev ch cc g) = g.
Proof. induction g as [|t g IH]; intros; simpl; [reflexivity|]. f_equal. apply IH. Qed.
Lemma raw_rows_T g : map rT (raw_rows w hot cold g) = g.
Proof. destruct g as [|t0 g']; simpl; [reflexivity|]. f_equal. apply rows_from_T. Qed.
End Exact.

(* every list is aligned with itself at distance 0 *)
Lemma nearv_refl ss : Forall2 (nearv 0) ss ss.
Proof. induction ss as [|s ss IH]; constructor; [|exact IH]. unfold nearv. repeat split; lra. Qed.
