(* Shell-and-tube pair and the multi-pass conversion of gen/Scalar.v. *)
From Coq Require Import Reals Lra Psatz Bool.
From OP Require Import gen.Consts gen.HxDispatch gen.Scalar proofs.HXBase.
Local Open Scope R_scope.

Definition st_d (c : R) : R := Rpower (1 + c ^ 2) (1 / 2).
Lemma st_d_ge1 c : 1 <= st_d c.
Proof. unfold st_d. apply Rpower_ge1; [|lra]. pose proof (pow2_ge_0 c). lra. Qed.
Lemma st_d_inv c : Rpower (1 + c ^ 2) (- (1 / 2)) = / st_d c.
Proof. unfold st_d. apply Rpower_Ropp. Qed.

Lemma Coth_form x : Coth_R x = (exp (2 * x) + 1) / (exp (2 * x) - 1).
Proof. reflexivity. Qed.

(* eff as a function of y = exp (N d) *)
Definition st_g (c d y : R) : R := 2 * (y - 1) / ((1 + c) * (y - 1) + d * (y + 1)).

Lemma eff_ShellTube_form N c : 0 < N -> 0 <= c -> eff_ShellTube N c = st_g c (st_d c) (exp (N * st_d c)).
Proof.
  intros HN Hc. unfold eff_ShellTube, st_g. fold (st_d c). pose proof (st_d_ge1 c) as Hd. set (d := st_d c) in *.
  rewrite Coth_form. replace (2 * (N * d / 2)) with (N * d) by field.
  assert (Hp : 0 < N * d) by (apply Rmult_lt_0_compat; lra).
  pose proof (exp_gt1 _ Hp) as Hy. set (y := exp (N * d)) in *.
  assert (0 < (1 + c) * (y - 1) + d * (y + 1)) by nra.
  field. split; [nra|lra].
Qed.

Lemma st_g_range c d y : 0 <= c -> 1 <= d -> 1 < y -> 0 < st_g c d y < 2 / (1 + c + d).
Proof.
  intros Hc Hd Hy. unfold st_g. assert (Hden : 0 < (1 + c) * (y - 1) + d * (y + 1)) by nra. split.
  - apply Rdiv_lt_0_compat; lra.
  - apply (Rmult_lt_reg_r (((1 + c) * (y - 1) + d * (y + 1)) * (1 + c + d))); [apply Rmult_lt_0_compat; lra|].
    replace (2 * (y - 1) / ((1 + c) * (y - 1) + d * (y + 1)) * (((1 + c) * (y - 1) + d * (y + 1)) * (1 + c + d)))
      with (2 * (y - 1) * (1 + c + d)) by (field; lra).
    replace (2 / (1 + c + d) * (((1 + c) * (y - 1) + d * (y + 1)) * (1 + c + d))) with (2 * ((1 + c) * (y - 1) + d * (y + 1))) by (field; lra).
    nra.
Qed.

Lemma eff_ShellTube_range N c : 0 < N -> 0 <= c -> 0 < eff_ShellTube N c < 2 / (1 + c + st_d c).
Proof.
  intros HN Hc. rewrite eff_ShellTube_form by assumption. pose proof (st_d_ge1 c).
  apply st_g_range; try assumption. apply exp_gt1. apply Rmult_lt_0_compat; lra.
Qed.
Lemma eff_ShellTube_lt1 N c : 0 < N -> 0 <= c -> eff_ShellTube N c < 1.
Proof.
  intros HN Hc. destruct (eff_ShellTube_range N c HN Hc) as [_ H]. pose proof (st_d_ge1 c). eapply Rlt_le_trans; [exact H|].
  apply (Rmult_le_reg_r (1 + c + st_d c)); [lra|]. unfold Rdiv. rewrite Rmult_assoc, Rinv_l by lra. lra.
Qed.

Lemma ntu_ShellTube_form e c : ntu_ShellTube e c = / st_d c * ln ((2 - e * (1 + c - st_d c)) / (2 - e * (1 + c + st_d c))).
Proof. unfold ntu_ShellTube. rewrite st_d_inv. reflexivity. Qed.

Lemma ntu_eff_ShellTube N c : 0 < N -> 0 <= c -> ntu_ShellTube (eff_ShellTube N c) c = N.
Proof.
  intros HN Hc. rewrite ntu_ShellTube_form, eff_ShellTube_form by assumption. unfold st_g.
  pose proof (st_d_ge1 c) as Hd. set (d := st_d c) in *.
  assert (Hp : 0 < N * d) by (apply Rmult_lt_0_compat; lra).
  pose proof (exp_gt1 _ Hp) as Hy. set (y := exp (N * d)) in *.
  assert (Hden : 0 < (1 + c) * (y - 1) + d * (y + 1)) by nra.
  replace ((2 - 2 * (y - 1) / ((1 + c) * (y - 1) + d * (y + 1)) * (1 + c - d)) / (2 - 2 * (y - 1) / ((1 + c) * (y - 1) + d * (y + 1)) * (1 + c + d)))
    with y.
  2:{ field. split; [|lra]. nra. }
  unfold y. rewrite ln_exp. field. lra.
Qed.

Lemma eff_ntu_ShellTube e c : 0 <= c -> 0 < e < 2 / (1 + c + st_d c) -> eff_ShellTube (ntu_ShellTube e c) c = e /\ 0 < ntu_ShellTube e c.
Proof.
  intros Hc [He0 He1]. rewrite ntu_ShellTube_form. pose proof (st_d_ge1 c) as Hd. set (d := st_d c) in *.
  assert (H2 : 0 < 2 - e * (1 + c + d)).
  { apply (Rmult_lt_compat_r (1 + c + d)) in He1; [|lra]. unfold Rdiv in He1. rewrite Rmult_assoc, Rinv_l in He1 by lra. lra. }
  set (r := (2 - e * (1 + c - d)) / (2 - e * (1 + c + d))).
  assert (Hr : 1 < r).
  { unfold r. apply (Rmult_lt_reg_r (2 - e * (1 + c + d))); [lra|]. unfold Rdiv. rewrite Rmult_assoc, Rinv_l by lra. nra. }
  assert (Hl : 0 < ln r) by (apply ln_gt0; exact Hr).
  assert (Hn : 0 < / d * ln r). { apply Rmult_lt_0_compat; [apply Rinv_0_lt_compat; lra|exact Hl]. }
  split; [|exact Hn].
  rewrite eff_ShellTube_form by assumption. fold d. replace (/ d * ln r * d) with (ln r) by (field; lra).
  rewrite exp_ln by lra. unfold st_g, r. field. repeat split; try lra; nra.
Qed.

Lemma st_g_mono c d y1 y2 : 0 <= c -> 1 <= d -> 1 < y1 -> y1 < y2 -> st_g c d y1 < st_g c d y2.
Proof.
  intros Hc Hd H1 H12. unfold st_g.
  assert (D1 : 0 < (1 + c) * (y1 - 1) + d * (y1 + 1)) by nra.
  assert (D2 : 0 < (1 + c) * (y2 - 1) + d * (y2 + 1)) by nra.
  apply (Rmult_lt_reg_r (((1 + c) * (y1 - 1) + d * (y1 + 1)) * ((1 + c) * (y2 - 1) + d * (y2 + 1)))); [apply Rmult_lt_0_compat; lra|].
  match goal with |- ?a / ?b * (?b * ?k) < ?a' / ?k * (?b * ?k) =>
    replace (a / b * (b * k)) with (a * k) by (field; lra); replace (a' / k * (b * k)) with (a' * b) by (field; lra) end.
  nra.
Qed.

Lemma eff_ShellTube_mono N1 N2 c : 0 < N1 -> N1 < N2 -> 0 <= c -> eff_ShellTube N1 c < eff_ShellTube N2 c.
Proof.
  intros H1 H12 Hc. rewrite !eff_ShellTube_form by (try assumption; lra). pose proof (st_d_ge1 c) as Hd.
  apply st_g_mono; try assumption.
  - apply exp_gt1. apply Rmult_lt_0_compat; lra.
  - apply exp_increasing. apply Rmult_lt_compat_r; lra.
Qed.

(* ------------------------------------------------------------------ multi-pass conversion *)
(* r = (1 - e c)/(1 - e) *)
Lemma mp_ratio_gt1 e c : 0 < e < 1 -> 0 <= c < 1 -> 1 < (1 - e * c) / (1 - e).
Proof.
  intros [He0 He1] [Hc0 Hc1]. apply (Rmult_lt_reg_r (1 - e)); [lra|]. unfold Rdiv. rewrite Rmult_assoc, Rinv_l by lra. nra.
Qed.

Lemma MultiPassEff_range e c P : 0 < e < 1 -> 0 <= c <= 1 -> 0 < P -> 0 < MultiPassEff_R e c P < 1.
Proof.
  intros [He0 He1] [Hc0 Hc1] HP. unfold MultiPassEff_R. destruct (Req_dec c 1) as [E|NE].
  - rewrite (proj2 (Rneqb_false c 1) E).
    assert (Hd : 0 < 1 + e * (P - 1)) by nra. split.
    + apply Rdiv_lt_0_compat; [apply Rmult_lt_0_compat; lra|lra].
    + apply (Rmult_lt_reg_r (1 + e * (P - 1))); [lra|]. unfold Rdiv. rewrite Rmult_assoc, Rinv_l by lra. nra.
  - rewrite (proj2 (Rneqb_true c 1) NE).
    pose proof (mp_ratio_gt1 e c (conj He0 He1) ltac:(lra)) as Hr.
    pose proof (Rpower_gt1 _ P Hr HP) as Hq. set (q := Rpower ((1 - e * c) / (1 - e)) P) in *. split.
    + apply Rdiv_lt_0_compat; lra.
    + apply (Rmult_lt_reg_r (q - c)); [lra|]. unfold Rdiv. rewrite Rmult_assoc, Rinv_l by lra. lra.
Qed.

Lemma multipass_inverse e c P : 0 < e < 1 -> 0 <= c <= 1 -> 0 < P -> MultiPassNTU_R (MultiPassEff_R e c P) c P = e.
Proof.
  intros [He0 He1] [Hc0 Hc1] HP. unfold MultiPassNTU_R, MultiPassEff_R. destruct (Req_dec c 1) as [E|NE].
  - rewrite (proj2 (Rneqb_false c 1) E). field. split; nra.
  - rewrite (proj2 (Rneqb_true c 1) NE).
    pose proof (mp_ratio_gt1 e c (conj He0 He1) ltac:(lra)) as Hr. set (r := (1 - e * c) / (1 - e)) in *.
    pose proof (Rpower_gt1 _ P Hr HP) as Hq. set (q := Rpower r P) in *.
    replace ((1 - (q - 1) / (q - c) * c) / (1 - (q - 1) / (q - c))) with q by (field; split; lra).
    unfold q. rewrite Rpower_inv_exp by exact HP. rewrite Rpower_1 by lra. unfold r. field. split; [nra|lra].
Qed.

(* the other direction: reachable multi-pass effectiveness E in (0,1) *)
Lemma MultiPassNTU_range E c P : 0 < E < 1 -> 0 <= c <= 1 -> 0 < P -> 0 < MultiPassNTU_R E c P < 1.
Proof.
  intros [He0 He1] [Hc0 Hc1] HP. unfold MultiPassNTU_R. destruct (Req_dec c 1) as [E1|NE].
  - rewrite (proj2 (Rneqb_false c 1) E1). assert (Hd : 0 < P - E * (P - 1)) by nra. split.
    + apply Rdiv_lt_0_compat; lra.
    + apply (Rmult_lt_reg_r (P - E * (P - 1))); [lra|]. unfold Rdiv. rewrite Rmult_assoc, Rinv_l by lra. nra.
  - rewrite (proj2 (Rneqb_true c 1) NE).
    pose proof (mp_ratio_gt1 E c (conj He0 He1) ltac:(lra)) as Hr.
    assert (HP' : 0 < 1 / P) by (apply Rdiv_lt_0_compat; lra).
    pose proof (Rpower_gt1 _ (1 / P) Hr HP') as Hq. set (q := Rpower ((1 - E * c) / (1 - E)) (1 / P)) in *. split.
    + apply Rdiv_lt_0_compat; lra.
    + apply (Rmult_lt_reg_r (q - c)); [lra|]. unfold Rdiv. rewrite Rmult_assoc, Rinv_l by lra. lra.
Qed.

Lemma multipass_inverse' E c P : 0 < E < 1 -> 0 <= c <= 1 -> 0 < P -> MultiPassEff_R (MultiPassNTU_R E c P) c P = E.
Proof.
  intros [He0 He1] [Hc0 Hc1] HP. unfold MultiPassNTU_R, MultiPassEff_R. destruct (Req_dec c 1) as [E1|NE].
  - rewrite (proj2 (Rneqb_false c 1) E1). field. split; nra.
  - rewrite (proj2 (Rneqb_true c 1) NE).
    pose proof (mp_ratio_gt1 E c (conj He0 He1) ltac:(lra)) as Hr. set (r := (1 - E * c) / (1 - E)) in *.
    assert (HP' : 0 < 1 / P) by (apply Rdiv_lt_0_compat; lra).
    pose proof (Rpower_gt1 _ (1 / P) Hr HP') as Hq. set (q := Rpower r (1 / P)) in *.
    replace ((1 - (q - 1) / (q - c) * c) / (1 - (q - 1) / (q - c))) with q by (field; split; lra).
    unfold q. rewrite Rpower_mult. replace (1 / P * P) with 1 by (field; lra). rewrite Rpower_1 by lra. unfold r. field. split; [nra|lra].
Qed.

(* multi-pass effectiveness increases with the single-pass one *)
Lemma MultiPassEff_mono e1 e2 c P : 0 < e1 -> e1 < e2 -> e2 < 1 -> 0 <= c <= 1 -> 0 < P -> MultiPassEff_R e1 c P < MultiPassEff_R e2 c P.
Proof.
  intros H1 H12 H2 [Hc0 Hc1] HP. unfold MultiPassEff_R. destruct (Req_dec c 1) as [E|NE].
  - rewrite (proj2 (Rneqb_false c 1) E).
    assert (D1 : 0 < 1 + e1 * (P - 1)) by nra. assert (D2 : 0 < 1 + e2 * (P - 1)) by nra.
    apply (Rmult_lt_reg_r ((1 + e1 * (P - 1)) * (1 + e2 * (P - 1)))); [apply Rmult_lt_0_compat; lra|].
    replace (P * e1 / (1 + e1 * (P - 1)) * ((1 + e1 * (P - 1)) * (1 + e2 * (P - 1)))) with (P * e1 * (1 + e2 * (P - 1))) by (field; lra).
    replace (P * e2 / (1 + e2 * (P - 1)) * ((1 + e1 * (P - 1)) * (1 + e2 * (P - 1)))) with (P * e2 * (1 + e1 * (P - 1))) by (field; lra).
    nra.
  - rewrite (proj2 (Rneqb_true c 1) NE). assert (Hc : c < 1) by lra.
    pose proof (mp_ratio_gt1 e1 c ltac:(lra) ltac:(lra)) as Hr1.
    assert (Hr12 : (1 - e1 * c) / (1 - e1) < (1 - e2 * c) / (1 - e2)).
    { apply (Rmult_lt_reg_r ((1 - e1) * (1 - e2))); [apply Rmult_lt_0_compat; lra|].
      replace ((1 - e1 * c) / (1 - e1) * ((1 - e1) * (1 - e2))) with ((1 - e1 * c) * (1 - e2)) by (field; lra).
      replace ((1 - e2 * c) / (1 - e2) * ((1 - e1) * (1 - e2))) with ((1 - e2 * c) * (1 - e1)) by (field; lra). nra. }
    set (r1 := (1 - e1 * c) / (1 - e1)) in *. set (r2 := (1 - e2 * c) / (1 - e2)) in *.
    assert (Hq12 : Rpower r1 P < Rpower r2 P) by (apply Rlt_Rpower_l; lra).
    pose proof (Rpower_gt1 _ P Hr1 HP) as Hq1. set (q1 := Rpower r1 P) in *. set (q2 := Rpower r2 P) in *.
    apply (Rmult_lt_reg_r ((q1 - c) * (q2 - c))); [apply Rmult_lt_0_compat; lra|].
    replace ((q1 - 1) / (q1 - c) * ((q1 - c) * (q2 - c))) with ((q1 - 1) * (q2 - c)) by (field; lra).
    replace ((q2 - 1) / (q2 - c) * ((q1 - c) * (q2 - c))) with ((q2 - 1) * (q1 - c)) by (field; lra).
    nra.
Qed.
