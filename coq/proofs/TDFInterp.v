(* C15 -- interp_with_plateaus of model/TDF.v (np.interp over make_monotonic): at a break point of the curve itself it returns
   EXACTLY the one-sided limit (side "right": the temperature at the top of a vertical jump, side "left": at its bottom), so a
   jump at a grid value is attributed to neither neighbouring interval; without plateaus make_monotonic is the identity;
   next to a plateau the value at a foreign break point is NOT exactly the piecewise-linear value (refuted, witness). *)
From OP Require Import gen.Consts model.Base model.Area model.TDF proofs.BaseFacts proofs.TDFGrid.
From Coq Require Import Lqa Lia.
Local Open Scope Q_scope.
Local Opaque Qred.

(* ------------------------------------------------------------------ the scan of np.interp *)
Lemma scan_hit : forall xs1 fs1 xa fa xs2 fs2 x,
  length xs1 = length fs1 -> length xs2 = length fs2 -> Forall (fun y => y <= x) xs1 -> xa == x -> (xs2 = [] \/ x < hd 0 xs2) ->
  interp_scan (xs1 ++ xa :: xs2) (fs1 ++ fa :: fs2) x = fa.
Proof.
  induction xs1 as [|y ys IH]; intros fs1 xa fa xs2 fs2 x L1 L2 F E H2.
  - destruct fs1; [|discriminate]. simpl. destruct xs2 as [|b r]; destruct fs2 as [|c r']; try discriminate; [reflexivity|].
    destruct H2 as [H2|H2]; [discriminate|]. simpl in H2. rewrite (proj2 (qleb_false b x)) by exact H2.
    rewrite (proj2 (qeqb_true xa x)) by exact E. reflexivity.
  - destruct fs1 as [|f fs]; [discriminate|]. simpl in L1. injection L1 as L1. inversion F as [|? ? Fy Fys]; subst.
    specialize (IH fs xa fa xs2 fs2 x L1 L2 Fys E H2).
    destruct ys as [|y' ys']; destruct fs as [|f' fs']; try discriminate.
    + simpl app in *. change (interp_scan (y :: xa :: xs2) (f :: fa :: fs2) x) with
        (if qleb xa x then interp_scan (xa :: xs2) (fa :: fs2) x else if qeqb y x then f else Qred (f + (x - y) * ((fa - f) / (xa - y)))).
      rewrite (proj2 (qleb_true xa x)) by (rewrite E; apply Qle_refl). exact IH.
    + simpl app in *. change (interp_scan (y :: y' :: ys' ++ xa :: xs2) (f :: f' :: fs' ++ fa :: fs2) x) with
        (if qleb y' x then interp_scan (y' :: ys' ++ xa :: xs2) (f' :: fs' ++ fa :: fs2) x
         else if qeqb y x then f else Qred (f + (x - y) * ((f' - f) / (y' - y)))).
      inversion Fys; subst. rewrite (proj2 (qleb_true y' x)) by assumption. exact IH.
Qed.

Lemma np_interp_hit xs1 fs1 xa fa xs2 fs2 x :
  length xs1 = length fs1 -> length xs2 = length fs2 -> Forall (fun y => y <= x) xs1 -> xa == x -> (xs2 = [] \/ x < hd 0 xs2) ->
  np_interp (xs1 ++ xa :: xs2) (fs1 ++ fa :: fs2) x = fa.
Proof.
  intros L1 L2 F E H2.
  destruct xs1 as [|y ys]; destruct fs1 as [|f fs]; try discriminate; simpl app; unfold np_interp.
  - rewrite (proj2 (qltb_false x xa)) by (rewrite E; apply Qle_refl).
    apply (scan_hit [] [] xa fa xs2 fs2 x); assumption.
  - rewrite (proj2 (qltb_false x y)) by (inversion F; assumption).
    apply (scan_hit (y :: ys) (f :: fs) xa fa xs2 fs2 x); assumption.
Qed.

(* ------------------------------------------------------------------ shift *)
Lemma shift_app s e : forall h1 k1 h2 k2, length h1 = length k1 -> shift s e (h1 ++ h2) (k1 ++ k2) = shift s e h1 k1 ++ shift s e h2 k2.
Proof.
  induction h1 as [|x r IH]; intros k1 h2 k2 L; destruct k1 as [|n k1']; try discriminate; [reflexivity|].
  simpl in L. injection L as L. simpl. f_equal. apply IH. exact L.
Qed.
Lemma shift_length s e : forall h k, length h = length k -> length (shift s e h k) = length h.
Proof. induction h as [|x r IH]; intros k L; destruct k; try discriminate; [reflexivity|]. simpl in *. f_equal. apply IH. lia. Qed.
Lemma shift_In s e : forall h k z, In z (shift s e h k) -> exists x n, In x h /\ In n k /\ z == x + s * (inject_Z (Z.of_nat n) * e).
Proof.
  induction h as [|x r IH]; intros k z H; destruct k as [|n k']; try (exfalso; exact H).
  change (In z (Qred (x + s * (inject_Z (Z.of_nat n) * e)) :: shift s e r k')) in H. destruct H as [H|H].
  - exists x, n. split; [left; reflexivity|]. split; [left; reflexivity|]. rewrite <- H. apply Qred_correct.
  - destruct (IH k' z H) as (x' & n' & A & B & C). exists x', n'. split; [right; exact A|]. split; [right; exact B|exact C].
Qed.
Lemma nat_Q_bound (n m : nat) : (n <= m)%nat -> inject_Z (Z.of_nat n) <= inject_Z (Z.of_nat m).
Proof. intro H. rewrite <- Zle_Qle. lia. Qed.
Lemma nat_Q_nonneg (n : nat) : 0 <= inject_Z (Z.of_nat n).
Proof. change 0 with (inject_Z 0). rewrite <- Zle_Qle. lia. Qed.

(* ------------------------------------------------------------------ afters (side = right) *)
Lemma afters_length tolv : forall h, length (afters tolv h) = length h.
Proof.
  induction h as [|a r IH]; [reflexivity|]. simpl. destruct r as [|b r']; [reflexivity|].
  destruct (afters tolv (b :: r')) as [|k ks] eqn:E; [simpl in IH; discriminate|]. simpl in *. lia.
Qed.
Lemma afters_cons tolv a l : exists k, afters tolv (a :: l) = k :: afters tolv l.
Proof.
  simpl. destruct l as [|b r']. { exists O. reflexivity. }
  pose proof (afters_length tolv (b :: r')) as L. destruct (afters tolv (b :: r')) as [|k ks]; [discriminate|]. eexists. reflexivity.
Qed.
Lemma afters_app tolv : forall l1 l2, exists ks, length ks = length l1 /\ afters tolv (l1 ++ l2) = ks ++ afters tolv l2.
Proof.
  induction l1 as [|a r IH]; intro l2. { exists []. split; reflexivity. }
  destruct (IH l2) as (ks & L & E). destruct (afters_cons tolv a (r ++ l2)) as (k & Ek).
  exists (k :: ks). split; [simpl; lia|]. simpl app. rewrite Ek, E. reflexivity.
Qed.
Lemma afters_head_zero tolv g l2 : (l2 = [] \/ same_block tolv g (hd 0 l2) = false) -> afters tolv (g :: l2) = O :: afters tolv l2.
Proof.
  intros [->|H]; [reflexivity|]. destruct l2 as [|b r]; [reflexivity|]. simpl hd in H.
  pose proof (afters_length tolv (b :: r)) as L. simpl. simpl in L. destruct r as [|c r'].
  - simpl. rewrite H. reflexivity.
  - destruct (afters tolv (c :: r')) as [|k ks] eqn:E; [simpl in L; discriminate|].
    destruct (match c :: r' with | [] => [O] | b0 :: _ => match k :: ks with | [] => [O] | k0 :: _ => (if same_block tolv b b0 then S k0 else O) :: k :: ks end end) eqn:E2;
      [discriminate|]. rewrite H. reflexivity.
Qed.
Lemma afters_bound tolv : forall h k, In k (afters tolv h) -> (k < length h)%nat.
Proof.
  induction h as [|a r IH]; intros k H; [destruct H|]. destruct (afters_cons tolv a r) as (k0 & E).
  assert (K0 : (k0 < length (a :: r))%nat).
  { simpl in E. destruct r as [|b r']. { injection E as <-. simpl. lia. }
    destruct (afters tolv (b :: r')) as [|k1 ks] eqn:E1. { injection E as <-. simpl. lia. }
    injection E as E. assert (B : (k1 < length (b :: r'))%nat) by (apply IH; left; reflexivity).
    destruct (same_block tolv a b); subst k0; simpl in *; lia. }
  rewrite E in H. destruct H as [<-|H]; [exact K0|]. specialize (IH k H). simpl. lia.
Qed.

(* ------------------------------------------------------------------ right-hand limit at an own break point *)
(* h = l1 ++ g :: l2: everything before is <= g, and g is the LAST member of its block (nothing follows, or the next value
   exceeds g by more than length(h) * tol).  Then np.interp over make_monotonic(side = right) returns, at g, exactly the
   temperature paired with that last member: the value at the top of the vertical jump. *)
Theorem right_limit_exact tolv l1 g l2 f1 fg f2 :
  0 <= tolv -> length f1 = length l1 -> length f2 = length l2 ->
  Forall (fun y => y <= g) l1 ->
  (l2 = [] \/ g + tolv * inject_Z (Z.of_nat (length (l1 ++ g :: l2))) < hd 0 l2) ->
  np_interp (make_monotonic tolv SRight (l1 ++ g :: l2)) (f1 ++ fg :: f2) g = fg.
Proof.
  intros Ht L1 L2 F Hnext. unfold make_monotonic.
  set (n := length (l1 ++ g :: l2)) in *.
  assert (Hn1 : 1 <= inject_Z (Z.of_nat n)). { change 1 with (inject_Z 1). rewrite <- Zle_Qle. unfold n. rewrite app_length. simpl. lia. }
  destruct (afters_app tolv l1 (g :: l2)) as (ks & Lk & Ek). rewrite Ek.
  assert (Hz : afters tolv (g :: l2) = O :: afters tolv l2).
  { apply afters_head_zero. destruct l2 as [|b r]; [left; reflexivity|right]. destruct Hnext as [H|H]; [discriminate|]. simpl hd in *.
    unfold same_block. apply qleb_false. apply Qlt_le_trans with (b - g); [|apply Qle_Qabs]. nra. }
  rewrite Hz. rewrite shift_app by (symmetry; exact Lk). simpl shift at 2.
  apply np_interp_hit.
  - rewrite shift_length by (symmetry; exact Lk). symmetry. exact L1.
  - rewrite shift_length by (symmetry; apply afters_length). symmetry. exact L2.
  - rewrite Forall_forall in *. intros z Hz'. destruct (shift_In _ _ _ _ _ Hz') as (x & k & Hx & _ & E). rewrite E.
    specialize (F x Hx). pose proof (nat_Q_nonneg k). unfold eps_of.
    assert (0 <= inject_Z (Z.of_nat k) * (tolv * (1 # 2))) by (apply Qmult_le_0_compat; lra). lra.
  - rewrite Qred_correct. change (inject_Z (Z.of_nat 0)) with 0. ring.
  - destruct l2 as [|b r]; [left; reflexivity|right]. destruct Hnext as [H|H]; [discriminate|].
    simpl hd in H. destruct (afters_cons tolv b r) as (k & Ek2). rewrite Ek2. simpl shift. simpl hd. rewrite Qred_correct.
    assert (Kb : (k < length (b :: r))%nat) by (apply (afters_bound tolv); rewrite Ek2; left; reflexivity).
    assert (Kn : (k <= n)%nat). { unfold n. rewrite app_length. simpl in *. lia. }
    pose proof (nat_Q_bound k n Kn) as B. pose proof (nat_Q_nonneg k) as B0. unfold eps_of.
    assert (inject_Z (Z.of_nat k) * (tolv * (1 # 2)) <= tolv * inject_Z (Z.of_nat n)) by nra. lra.
Qed.

(* ------------------------------------------------------------------ withins (side = left) *)
Lemma withins_from_length tolv : forall l prev w, length (withins_from tolv prev w l) = length l.
Proof. induction l as [|a r IH]; intros; [reflexivity|]. simpl. f_equal. apply IH. Qed.
Lemma withins_from_bound tolv : forall l prev w k, In k (withins_from tolv prev w l) -> (k <= w + length l)%nat.
Proof.
  induction l as [|a r IH]; intros prev w k H; [destruct H|]. simpl in H. destruct H as [<-|H].
  - destruct (same_block tolv prev a); simpl; lia.
  - specialize (IH _ _ _ H). destruct (same_block tolv prev a); simpl in *; lia.
Qed.
Lemma last_default (l : list Q) d d' : l <> [] -> last l d = last l d'.
Proof. induction l as [|a r IH]; [congruence|]. intros _. destruct r as [|b r']; [reflexivity|]. apply IH. discriminate. Qed.
Lemma last_cons (a : Q) r d : last (a :: r) d = last r a.
Proof. destruct r as [|b r']; [reflexivity|]. change (last (a :: b :: r') d) with (last (b :: r') d). apply last_default. discriminate. Qed.
(* the counts of a prefix do not depend on what follows; the state handed to the suffix is (last value, its count) *)
Lemma withins_from_app tolv : forall l1 l2 prev w, exists w',
  withins_from tolv prev w (l1 ++ l2) = withins_from tolv prev w l1 ++ withins_from tolv (last l1 prev) w' l2.
Proof.
  induction l1 as [|a r IH]; intros l2 prev w. { exists w. reflexivity. }
  destruct (IH l2 a (if same_block tolv prev a then S w else O)) as (w' & E).
  exists w'. rewrite last_cons. change ((a :: r) ++ l2) with (a :: (r ++ l2)).
  change (withins_from tolv prev w (a :: r ++ l2)) with
    ((if same_block tolv prev a then S w else O) :: withins_from tolv a (if same_block tolv prev a then S w else O) (r ++ l2)).
  rewrite E. reflexivity.
Qed.

(* ------------------------------------------------------------------ left-hand limit at an own break point *)
(* h = l1 ++ g :: l2: g is the FIRST member of its block (every earlier value is below g by more than length(h) * tol), later
   values are >= g.  Then side = left returns, at g, exactly the temperature paired with that first member: the value at the
   bottom of the vertical jump. *)
Theorem left_limit_exact tolv l1 g l2 f1 fg f2 :
  0 < tolv -> length f1 = length l1 -> length f2 = length l2 ->
  Forall (fun y => y + tolv * inject_Z (Z.of_nat (length (l1 ++ g :: l2))) < g) l1 ->
  (l2 = [] \/ g <= hd 0 l2) ->
  np_interp (make_monotonic tolv SLeft (l1 ++ g :: l2)) (f1 ++ fg :: f2) g = fg.
Proof.
  intros Ht L1 L2 F Hnext. unfold make_monotonic. set (n := length (l1 ++ g :: l2)) in *.
  assert (Hn1 : 1 <= inject_Z (Z.of_nat n)). { change 1 with (inject_Z 1). rewrite <- Zle_Qle. unfold n. rewrite app_length. simpl. lia. }
  (* the within-count of g is 0 *)
  assert (W : exists ws1 w2, length ws1 = length l1 /\ (forall k, In k ws1 -> (k <= n)%nat) /\
              withins tolv (l1 ++ g :: l2) = ws1 ++ O :: withins_from tolv g O l2 /\ w2 = O).
  { destruct l1 as [|a r].
    - exists [], O. repeat split; try reflexivity. intros k [].
    - simpl app. unfold withins. destruct (withins_from_app tolv r (g :: l2) a O) as (w' & E). rewrite E.
      exists (O :: withins_from tolv a O r), O. repeat split.
      + simpl. rewrite withins_from_length. reflexivity.
      + intros k [<-|Hk]; [lia|]. pose proof (withins_from_bound tolv r a O k Hk). unfold n. rewrite app_length. simpl in *. lia.
      + simpl. f_equal. f_equal. simpl withins_from.
        assert (NB : same_block tolv (last r a) g = false).
        { unfold same_block. apply qleb_false. rewrite Forall_forall in F.
          assert (Hl : In (last r a) (a :: r)). { destruct r as [|b r']; [left; reflexivity|]. right. apply last_In. discriminate. }
          specialize (F _ Hl). apply Qlt_le_trans with (g - last r a); [|apply Qle_Qabs]. fold n in F.
          assert (tolv <= tolv * inject_Z (Z.of_nat n)) by nra. lra. }
        rewrite NB. reflexivity. }
  destruct W as (ws1 & _ & Lw & Bw & Ew & _). rewrite Ew. rewrite shift_app by (symmetry; exact Lw). simpl shift at 2.
  apply np_interp_hit.
  - rewrite shift_length by (symmetry; exact Lw). symmetry. exact L1.
  - rewrite shift_length by (symmetry; apply withins_from_length). symmetry. exact L2.
  - rewrite Forall_forall in *. intros z Hz'. destruct (shift_In _ _ _ _ _ Hz') as (x & k & Hx & Hk & E). rewrite E.
    specialize (F x Hx). fold n in F. pose proof (nat_Q_bound k n (Bw k Hk)) as B. pose proof (nat_Q_nonneg k) as B0. unfold eps_of.
    assert (inject_Z (Z.of_nat k) * (tolv * (1 # 2)) <= tolv * inject_Z (Z.of_nat n)) by nra. lra.
  - rewrite Qred_correct. change (inject_Z (Z.of_nat 0)) with 0. ring.
  - destruct l2 as [|b r]; [left; reflexivity|right]. destruct Hnext as [H|H]; [discriminate|]. simpl hd in H.
    simpl withins_from. simpl shift. simpl hd. rewrite Qred_correct. unfold eps_of.
    destruct (same_block tolv g b) eqn:SB.
    + change (inject_Z (Z.of_nat 1)) with 1. lra.
    + unfold same_block in SB. apply qleb_false in SB. change (inject_Z (Z.of_nat 0)) with 0.
      assert (Qabs (b - g) == b - g) by (apply Qabs_pos; lra). lra.
Qed.

(* ------------------------------------------------------------------ without plateaus make_monotonic is the identity *)
Fixpoint no_block (tolv : Q) (h : list Q) : bool :=
  match h with a :: ((b :: _) as r) => negb (same_block tolv a b) && no_block tolv r | _ => true end.

Lemma afters_no_block tolv : forall h, no_block tolv h = true -> Forall (fun k => k = O) (afters tolv h).
Proof.
  induction h as [|a r IH]; intro H; [constructor|]. destruct r as [|b r']; [repeat constructor|].
  change (no_block tolv (a :: b :: r')) with (negb (same_block tolv a b) && no_block tolv (b :: r')) in H.
  apply andb_true_iff in H. destruct H as [H1 H2]. apply negb_true_iff in H1. specialize (IH H2).
  rewrite afters_head_zero by (right; exact H1). constructor; [reflexivity|exact IH].
Qed.
Lemma withins_from_no_block tolv : forall h prev, no_block tolv (prev :: h) = true -> Forall (fun k => k = O) (withins_from tolv prev O h).
Proof.
  induction h as [|a r IH]; intros prev H; [constructor|].
  change (no_block tolv (prev :: a :: r)) with (negb (same_block tolv prev a) && no_block tolv (a :: r)) in H.
  apply andb_true_iff in H. destruct H as [H1 H2]. apply negb_true_iff in H1. simpl. rewrite H1. constructor; [reflexivity|apply IH; exact H2].
Qed.
Lemma shift_zero s e : forall h k, length h = length k -> Forall (fun n => n = O) k -> Forall2 Qeq (shift s e h k) h.
Proof.
  induction h as [|x r IH]; intros k L F; destruct k as [|n k']; try discriminate; [constructor|].
  inversion F; subst. change (shift s e (x :: r) (O :: k')) with (Qred (x + s * (inject_Z (Z.of_nat 0) * e)) :: shift s e r k').
  constructor; [rewrite Qred_correct; change (inject_Z (Z.of_nat 0)) with 0; ring|apply IH; [simpl in L; lia|assumption]].
Qed.
Theorem make_monotonic_id tolv s h : no_block tolv h = true -> Forall2 Qeq (make_monotonic tolv s h) h.
Proof.
  intro H. destruct s; unfold make_monotonic.
  - apply shift_zero.
    + destruct h as [|a r]; [reflexivity|]. simpl. rewrite withins_from_length. reflexivity.
    + destruct h as [|a r]; [constructor|]. simpl. constructor; [reflexivity|apply withins_from_no_block; exact H].
  - apply shift_zero; [symmetry; apply afters_length|apply afters_no_block; exact H].
Qed.

(* ------------------------------------------------------------------ REFUTED: exactness at a FOREIGN break point next to a plateau *)
(* hot curve (H, T) = (0,100) (10,110) (10,150): a vertical jump at H = 10; the cold curve has a break point at H = 5.
   The piecewise-linear value of the hot curve at 5 is 105.  side = "right" moves the first member of the plateau down to
   10 - tol/2, so the interpolated value is 100 + 5 * 10 / (10 - tol/2) > 105 (by about 2.5e-7). *)
Example foreign_breakpoint_value :
  np_interp [0; 10; 10] [100; 110; 150] 5 == 105 /\
  105 < np_interp (make_monotonic tol SRight [0; 10; 10]) [100; 110; 150] 5 /\
  np_interp (make_monotonic tol SRight [0; 10; 10]) [100; 110; 150] 5 < 105 + (1 # 1000000).
Proof. vm_compute. repeat split; reflexivity. Qed.
Theorem interp_exact_everywhere_refuted :
  ~ (forall h t x, np_interp (make_monotonic tol SRight h) t x == np_interp h t x).
Proof.
  intro H. specialize (H [0; 10; 10] [100; 110; 150] 5). destruct foreign_breakpoint_value as (A & B & _). rewrite A in H. rewrite H in B.
  apply (Qlt_irrefl 105). exact B.
Qed.

(* ------------------------------------------------------------------ REFUTED: delta_T2 = left-limit end difference - min_dT *)
(* same hot curve; cold curve (0,20) (5,60) (5,60) (10,90): a REPEATED POINT at H = 5, no temperature jump anywhere at 5.
   Interval [0,5] ends with end difference 105 - 60 = 45, but the block replaces it by the end difference of the NEXT interval
   (at H = 10: 110 - 90 = 20), a value taken at a different enthalpy. *)
Example block_witness :
  match tdf tol 0 [100; 110; 150] [0; 10; 10] [20; 60; 60; 90] [0; 5; 5; 10] with
  | TOk o => o_h o = [0; 5; 10] /\ o_th2 o = [105; 110] /\ o_tc2 o = [60; 90] /\ o_raw2 o = [45; 20] /\ o_d2 o = [20; 20]
  | TErr _ => False
  end.
Proof. vm_compute. repeat split; reflexivity. Qed.
Theorem delta_T2_is_end_difference_refuted :
  ~ (forall Th Hh Tc Hc o, tdf tol 0 Th Hh Tc Hc = TOk o -> o_d2 o = o_raw2 o).
Proof.
  intro H. pose proof block_witness as W.
  destruct (tdf tol 0 [100; 110; 150] [0; 10; 10] [20; 60; 60; 90] [0; 5; 5; 10]) as [o|e] eqn:E; [|exact W].
  specialize (H _ _ _ _ o E). destruct W as (_ & _ & _ & R & D). rewrite R, D in H. discriminate H.
Qed.

(* non-vacuity: the hypotheses of the two limit theorems hold at the vertical jump of (0,100) (10,110) (10,150) (20,160) *)
Example right_limit_nonvacuous : np_interp (make_monotonic tol SRight ([0; 10] ++ 10 :: [20])) ([100; 110] ++ 150 :: [160]) 10 = 150.
Proof.
  apply right_limit_exact; try reflexivity.
  - vm_compute. discriminate.
  - repeat constructor; vm_compute; discriminate.
  - right. vm_compute. reflexivity.
Qed.
Example left_limit_nonvacuous : np_interp (make_monotonic tol SLeft ([0] ++ 10 :: [10; 20])) ([100] ++ 110 :: [150; 160]) 10 = 110.
Proof.
  apply left_limit_exact; try reflexivity.
  - repeat constructor; vm_compute; reflexivity.
  - right. vm_compute. discriminate.
Qed.
