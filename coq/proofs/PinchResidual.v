(* C06 (residual half): zeros of the exact residual Qh - D(T) between two consecutive rows force zeros on the rows. *)
From OP Require Import model.Base model.Cascade proofs.BaseFacts proofs.CascadeSpec.
From Coq Require Import Lqa Lia.
Local Open Scope Q_scope.

Theorem residual_zero_on_rows hot cold g pre a b post T Q :
  wfs hot -> wfs cold -> g = pre ++ a :: b :: post -> desc g -> covers g (eps_all hot cold) ->
  b < T -> T < a -> Dnet hot cold a <= Q -> Dnet hot cold b <= Q -> Dnet hot cold T == Q ->
  Dnet hot cold a == Q /\ Dnet hot cold b == Q.
Proof.
  intros Wh Wc E Hd Hc H1 H2 Ha Hb HT.
  pose proof (D_lin hot cold Wh Wc g pre a b post T E Hd Hc ltac:(lra) ltac:(lra)) as L1.
  pose proof (D_lin hot cold Wh Wc g pre a b post b E Hd Hc ltac:(lra) ltac:(lra)) as L2.
  set (K := spansum cold a b - spansum hot a b) in *.
  set (x := Dnet hot cold a) in *. set (y := Dnet hot cold b) in *. set (t := Dnet hot cold T) in *.
  assert (K1 : 0 <= (a - T) * K) by lra.
  assert (K2 : (a - b) * K <= (a - T) * K) by lra.
  assert (Kp : 0 <= K) by nra. assert (Kn : K <= 0) by nra.
  assert (K0 : K == 0) by lra. rewrite K0 in *. split; lra.
Qed.
