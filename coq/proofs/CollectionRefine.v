(* C19 (collection half): the dictionary+lazy-cache implementation refines
   "an insertion-ordered list of members, iterated in sort-key order". *)
From OP Require Import model.Base model.Collection.
From Coq Require Import String DecimalString DecimalNat Decimal FinFun Permutation Lia.
Local Open Scope Q_scope.

(* ---------- key renaming: a fresh key is always found ---------- *)
Lemma nat_str_inj a b : nat_str a = nat_str b -> a = b.
Proof.
  unfold nat_str. intros E.
  assert (E2 : NilEmpty.uint_of_string (NilEmpty.string_of_uint (Nat.to_uint a)) =
               NilEmpty.uint_of_string (NilEmpty.string_of_uint (Nat.to_uint b))) by (rewrite E; reflexivity).
  rewrite !NilEmpty.usu in E2. inversion E2 as [E3].
  rewrite <- (Unsigned.of_to a), <- (Unsigned.of_to b), E3. reflexivity.
Qed.
Lemma append_inj_r p a b : (p ++ a)%string = (p ++ b)%string -> a = b.
Proof. induction p as [|c p IH]; simpl; intros E; [exact E|]. inversion E. auto. Qed.
Lemma cand_inj base a b : cand base a = cand base b -> a = b.
Proof. unfold cand. intros E. apply append_inj_r in E. apply append_inj_r in E. apply nat_str_inj; exact E. Qed.

Definition keys (it : list (string * member)) : list string := map fst it.
Lemma kmem_In k it : kmem k it = true <-> In k (keys it).
Proof. unfold kmem, keys. rewrite existsb_exists. split.
  - intros [p [Hp E]]. apply String.eqb_eq in E. subst. apply in_map; exact Hp.
  - intros H. apply in_map_iff in H. destruct H as [p [E Hp]]. exists p. split; [exact Hp|]. subst. apply String.eqb_refl. Qed.

Lemma fresh_some_fresh fuel base c it k : fresh fuel base c it = Some k -> ~ In k (keys it).
Proof.
  revert c. induction fuel as [|f IH]; intros c E; simpl in E; [discriminate|].
  destruct (kmem (cand base c) it) eqn:M.
  - eapply IH; eauto.
  - inversion E; subst. intro Hin. apply kmem_In in Hin. congruence.
Qed.
Lemma fresh_none fuel base c it : fresh fuel base c it = None ->
  forall i, (i < fuel)%nat -> In (cand base (c + i)) (keys it).
Proof.
  revert c. induction fuel as [|f IH]; intros c E i Hi; [lia|]. simpl in E.
  destruct (kmem (cand base c) it) eqn:M; [|discriminate].
  destruct i as [|i].
  - rewrite Nat.add_0_r. apply kmem_In; exact M.
  - replace (c + S i)%nat with (S c + i)%nat by lia. apply IH; [exact E|lia].
Qed.
Lemma fresh_total base it : exists k, fresh (S (List.length it)) base 1 it = Some k /\ ~ In k (keys it).
Proof.
  destruct (fresh (S (List.length it)) base 1 it) as [k|] eqn:E.
  - exists k. split; [reflexivity|]. eapply fresh_some_fresh; eauto.
  - exfalso. pose proof (fresh_none _ _ _ _ E) as Hall.
    set (cs := map (fun i => cand base (1 + i)) (seq 0 (S (List.length it)))).
    assert (Hincl : incl cs (keys it)).
    { intros x Hx. unfold cs in Hx. apply in_map_iff in Hx. destruct Hx as [i [Ei Hi]]. subst.
      apply in_seq in Hi. apply Hall. lia. }
    assert (Hnd : NoDup cs).
    { unfold cs. apply FinFun.Injective_map_NoDup; [|apply seq_NoDup].
      intros a b Eab. apply cand_inj in Eab. lia. }
    pose proof (NoDup_incl_length Hnd Hincl) as Hlen. unfold cs, keys in Hlen.
    rewrite !map_length, seq_length in Hlen. lia.
Qed.

(* ---------- insertion never loses or replaces a member ---------- *)
Definition vals (it : list (string * member)) : list member := map snd it.

Lemma dict_set_fresh k v it : ~ In k (keys it) -> dict_set k v it = it ++ [(k, v)].
Proof.
  induction it as [|[k' v'] r IH]; simpl; intro H; [reflexivity|].
  destruct (String.eqb k k') eqn:E.
  - apply String.eqb_eq in E. subst. exfalso. apply H. left; reflexivity.
  - rewrite IH; [reflexivity|]. intro K. apply H. right; exact K.
Qed.

Lemma add_items_prevent it x key :
  NoDup (keys it) ->
  exists k, add_items it x key true = Ok (it ++ [(k, x)]) /\ ~ In k (keys it).
Proof.
  intro ND. unfold add_items. set (k0 := match key with Some k => k | None => mname x end).
  cbn [andb]. destruct (kmem k0 it) eqn:M.
  - destruct (fresh_total k0 it) as [k [E F]]. rewrite E. exists k. split; [reflexivity|exact F].
  - exists k0. assert (F : ~ In k0 (keys it)) by (intro K; apply kmem_In in K; congruence).
    rewrite dict_set_fresh by exact F. split; [reflexivity|exact F].
Qed.

Lemma keys_app a b : keys (a ++ b) = keys a ++ keys b. Proof. apply map_app. Qed.
Lemma vals_app a b : vals (a ++ b) = vals a ++ vals b. Proof. apply map_app. Qed.

Lemma nodup_snoc (l : list string) k : NoDup l -> ~ In k l -> NoDup (l ++ [k]).
Proof.
  intros ND F. apply NoDup_remove_2 with (l' := []) || idtac.
  induction l as [|a r IH]; simpl.
  - constructor; [intros []|constructor].
  - inversion ND as [|? ? Ha Hr]; subst. constructor.
    + intro K. apply in_app_or in K. destruct K as [K|[K|[]]]; [contradiction|]. subst. apply F. left; reflexivity.
    + apply IH; [exact Hr|]. intro K. apply F. right; exact K.
Qed.

Theorem add_no_loss it x key :
  NoDup (keys it) ->
  exists it', add_items it x key true = Ok it' /\ vals it' = vals it ++ [x] /\ NoDup (keys it')
              /\ List.length it' = S (List.length it).
Proof.
  intro ND. destruct (add_items_prevent it x key ND) as [k [E F]].
  exists (it ++ [(k, x)]). split; [exact E|]. split; [apply vals_app|]. split.
  - rewrite keys_app. simpl. apply nodup_snoc; assumption.
  - rewrite app_length. simpl. lia.
Qed.

Theorem add_all_no_loss xs : forall it,
  NoDup (keys it) ->
  exists it', add_all it xs None true = Ok it' /\ vals it' = vals it ++ xs /\ NoDup (keys it')
              /\ List.length it' = (List.length it + List.length xs)%nat.
Proof.
  induction xs as [|x r IH]; intros it ND; simpl.
  - exists it. rewrite app_nil_r. repeat split; try assumption; lia.
  - destruct (add_no_loss it x None ND) as [it1 [E [V [ND1 L]]]]. rewrite E. simpl.
    destruct (IH it1 ND1) as [it2 [E2 [V2 [ND2 L2]]]]. exists it2. split; [exact E2|].
    split; [rewrite V2, V, <- app_assoc; reflexivity|]. split; [exact ND2|]. rewrite L2, L. simpl. lia.
Qed.

(* ---------- sorting: permutation of the members, adjacent elements in key order ---------- *)
Lemma insert_by_perm le x l : Permutation (insert_by le x l) (x :: l).
Proof.
  induction l as [|y r IH]; simpl; [apply Permutation_refl|].
  destruct (le y x).
  - eapply Permutation_trans; [apply perm_skip; exact IH|apply perm_swap].
  - apply Permutation_refl.
Qed.
Lemma sort_fold_perm le l : forall acc, Permutation (fold_left (fun a x => insert_by le x a) l acc) (acc ++ l).
Proof.
  induction l as [|x r IH]; intro acc; simpl; [rewrite app_nil_r; apply Permutation_refl|].
  eapply Permutation_trans; [apply IH|].
  eapply Permutation_trans; [apply Permutation_app_tail; apply insert_by_perm|].
  simpl. apply Permutation_middle.
Qed.
Theorem sort_by_perm le l : Permutation (sort_by le l) l.
Proof. unfold sort_by. apply (sort_fold_perm le l []). Qed.

Definition total (le : member -> member -> bool) : Prop := forall a b, le a b = false -> le b a = true.

Lemma insert_by_sorted le x l : total le -> sorted_b le l = true -> sorted_b le (insert_by le x l) = true.
Proof.
  intros T. induction l as [|y r IH]; intro S; [reflexivity|].
  cbn [insert_by]. destruct (le y x) eqn:E.
  - destruct r as [|z r'].
    + simpl. rewrite E. reflexivity.
    + cbn [sorted_b] in S. apply andb_true_iff in S. destruct S as [Syz Sr].
      specialize (IH Sr). cbn [insert_by] in IH |- *. destruct (le z x) eqn:E2.
      * cbn [sorted_b]. rewrite Syz. exact IH.
      * cbn [sorted_b]. rewrite E. cbn [sorted_b] in IH. exact IH.
  - cbn [sorted_b]. rewrite (T _ _ E). exact S.
Qed.
Lemma sort_fold_sorted le l : total le -> forall acc, sorted_b le acc = true ->
  sorted_b le (fold_left (fun a x => insert_by le x a) l acc) = true.
Proof.
  intro T. induction l as [|x r IH]; intros acc S; simpl; [exact S|]. apply IH. apply insert_by_sorted; assumption.
Qed.
Theorem sort_by_sorted le l : total le -> sorted_b le (sort_by le l) = true.
Proof. intro T. unfold sort_by. apply sort_fold_sorted; [exact T|reflexivity]. Qed.

Lemma lex_cmp_antisym a : forall b, lex_cmp b a = CompOpp (lex_cmp a b).
Proof.
  induction a as [|x r IH]; intros [|y s]; simpl; try reflexivity.
  rewrite <- (Qcompare_antisym x y). destruct (x ?= y); simpl; auto.
Qed.
Lemma keeps_front_total idxs rev : total (keeps_front idxs rev).
Proof.
  intros a b. unfold keeps_front. rewrite (lex_cmp_antisym (keyof idxs a) (keyof idxs b)).
  destruct (lex_cmp (keyof idxs a) (keyof idxs b)), rev; simpl; intro H; try discriminate; reflexivity.
Qed.

(* ---------- the lazy cache is coherent over every operation sequence ---------- *)
Definition CInv (c : coll) : Prop :=
  NoDup (keys (items c)) /\ (dirty c = false -> cache c = sort_by (keeps_front (skey c) (srev c)) (values c)).

Lemma ensure_sorted_spec c : CInv c ->
  cache (ensure_sorted c) = sort_by (keeps_front (skey c) (srev c)) (values c) /\ items (ensure_sorted c) = items c
  /\ CInv (ensure_sorted c).
Proof.
  intros [ND H]. unfold ensure_sorted. destruct (dirty c) eqn:D; simpl.
  - split; [reflexivity|]. split; [reflexivity|]. split; [exact ND|]. simpl. intros _. reflexivity.
  - split; [apply H; reflexivity|]. split; [reflexivity|]. split; [exact ND|]. intros _. apply H; reflexivity.
Qed.

Lemma filter_keys_nodup k it : NoDup (keys it) -> NoDup (keys (filter (fun p => negb (String.eqb k (fst p))) it)).
Proof.
  induction it as [|[k' v] r IH]; simpl; intro ND; [constructor|]. inversion ND as [|? ? Ha Hr]; subst.
  destruct (String.eqb k k'); simpl; [apply IH; exact Hr|]. constructor; [|apply IH; exact Hr].
  intro K. apply Ha. unfold keys in *. apply in_map_iff in K. destruct K as [p [E Hp]]. apply filter_In in Hp.
  apply in_map_iff. exists p. split; [exact E|apply Hp].
Qed.

Lemma dict_set_keys_nodup k v it : NoDup (keys it) -> NoDup (keys (dict_set k v it)).
Proof.
  destruct (in_dec string_dec k (keys it)) as [I|N].
  - intro ND. assert (E : keys (dict_set k v it) = keys it).
    { clear ND. induction it as [|[k' v'] r IH]; simpl in *; [contradiction|].
      destruct (String.eqb k k') eqn:Q.
      - apply String.eqb_eq in Q. subst. reflexivity.
      - simpl. f_equal. apply IH. destruct I as [I|I]; [subst; rewrite String.eqb_refl in Q; discriminate|exact I]. }
    rewrite E. exact ND.
  - intro ND. rewrite dict_set_fresh by exact N. rewrite keys_app. simpl. apply nodup_snoc; assumption.
Qed.

Lemma add_items_nodup it x key p it' : NoDup (keys it) -> add_items it x key p = Ok it' -> NoDup (keys it').
Proof.
  intros ND E. destruct p.
  - destruct (add_no_loss it x key ND) as [it2 [E2 [_ [ND2 _]]]]. rewrite E in E2. inversion E2; subst. exact ND2.
  - unfold add_items in E. simpl in E. inversion E; subst. apply dict_set_keys_nodup; exact ND.
Qed.
Lemma add_all_nodup xs : forall it ks p it', NoDup (keys it) -> add_all it xs ks p = Ok it' -> NoDup (keys it').
Proof.
  induction xs as [|x r IH]; intros it ks p it' ND E; simpl in E; [inversion E; subst; exact ND|].
  destruct ks as [[|k kr]|]; simpl in E.
  - destruct (add_items it x None p) as [it1|e] eqn:A; simpl in E; [|discriminate]. eapply IH; [|exact E]. eapply add_items_nodup; eauto.
  - destruct (add_items it x (Some k) p) as [it1|e] eqn:A; simpl in E; [|discriminate]. eapply IH; [|exact E]. eapply add_items_nodup; eauto.
  - destruct (add_items it x None p) as [it1|e] eqn:A; simpl in E; [|discriminate]. eapply IH; [|exact E]. eapply add_items_nodup; eauto.
Qed.

Lemma cinv_dirty it k r ch : NoDup (keys it) -> CInv (mkC it k r ch true).
Proof. intro ND. split; [exact ND|]. simpl. discriminate. Qed.

Theorem cstep_inv c o c' out : CInv c -> cstep c o = Ok (c', out) -> CInv c'.
Proof.
  intros I E. pose proof I as [ND H]. destruct o; cbn [cstep] in E.
  - destruct (add_items (items c) x key prevent) as [it|e] eqn:A; simpl in E; inversion E; subst.
    apply cinv_dirty. eapply add_items_nodup; eauto.
  - destruct keys0 as [ks|].
    + destruct (negb (Nat.eqb (List.length xs) (List.length ks))); [discriminate|].
      destruct (add_all (items c) xs (Some ks) prevent) as [it|e] eqn:A; simpl in E; inversion E; subst.
      apply cinv_dirty. eapply add_all_nodup; eauto.
    + destruct (add_all (items c) xs None prevent) as [it|e] eqn:A; simpl in E; inversion E; subst.
      destruct (Nat.eqb (List.length xs) 0); [exact I|]. apply cinv_dirty. eapply add_all_nodup; eauto.
  - destruct (kmem k (items c)); inversion E; subst. apply cinv_dirty. apply filter_keys_nodup; exact ND.
  - destruct (add_all [] xs None true) as [it|e] eqn:A; simpl in E; inversion E; subst.
    apply cinv_dirty. eapply add_all_nodup; [|exact A]. constructor.
  - inversion E; subst. apply cinv_dirty. exact ND.
  - destruct (add_all [] (values c) None true) as [it1|e] eqn:A; simpl in E; [|discriminate].
    destruct (add_all it1 (map snd other) None true) as [it2|e] eqn:B; simpl in E; inversion E; subst.
    apply cinv_dirty. eapply add_all_nodup; [|exact B]. eapply add_all_nodup; [|exact A]. constructor.
  - inversion E; subst. apply ensure_sorted_spec; exact I.
  - inversion E; subst. exact I.
  - destruct (index_of id (cache (ensure_sorted c)) 0); inversion E; subst. apply ensure_sorted_spec; exact I.
  - inversion E; subst. exact I.
Qed.

Lemma empty_inv : CInv empty_coll.
Proof. split; [constructor|]. simpl. discriminate. Qed.

(* every state reachable from the empty collection satisfies the invariant *)
Fixpoint reach (c : coll) (ops : list cop) : coll :=
  match ops with [] => c | o :: r => match cstep c o with Ok (c', _) => reach c' r | Err _ => reach c r end end.
Theorem reach_inv ops : forall c, CInv c -> CInv (reach c ops).
Proof.
  induction ops as [|o r IH]; intros c I; simpl; [exact I|].
  destruct (cstep c o) as [[c' out]|e] eqn:E; apply IH; [eapply cstep_inv; eauto|exact I].
Qed.

(* iteration: exactly the members, in key order, whatever happened before *)
Theorem iter_spec c : CInv c ->
  exists c' ids, cstep c CIter = Ok (c', OIds ids) /\ ids = map mid (cache c')
    /\ Permutation (cache c') (values c) /\ sorted_b (keeps_front (skey c) (srev c)) (cache c') = true
    /\ items c' = items c.
Proof.
  intro I. destruct (ensure_sorted_spec c I) as [E [E2 _]].
  exists (ensure_sorted c), (map mid (cache (ensure_sorted c))). cbn [cstep]. split; [reflexivity|]. split; [reflexivity|].
  rewrite E. split; [apply sort_by_perm|]. split; [apply sort_by_sorted; apply keeps_front_total|exact E2].
Qed.

Theorem len_spec c : cstep c CLen = Ok (c, ONat (List.length (values c))).
Proof. cbn [cstep]. unfold values. rewrite map_length. reflexivity. Qed.

(* add (default prevent_overwrite): one more member, nobody lost, nobody replaced *)
Theorem add_spec c x key : CInv c ->
  exists c', cstep c (CAdd x key true) = Ok (c', ONone) /\ values c' = values c ++ [x] /\ skey c' = skey c /\ srev c' = srev c.
Proof.
  intros [ND _]. destruct (add_no_loss (items c) x key ND) as [it [E [V _]]].
  exists (with_items c it). cbn [cstep]. rewrite E. simpl. repeat split. exact V.
Qed.
Theorem add_many_spec c xs : CInv c ->
  exists c', cstep c (CAddMany xs None true) = Ok (c', ONone) /\ values c' = values c ++ xs.
Proof.
  intros [ND _]. destruct (add_all_no_loss xs (items c) ND) as [it [E [V _]]].
  cbn [cstep]. rewrite E. simpl. destruct xs as [|x r]; simpl.
  - exists c. rewrite app_nil_r. split; reflexivity.
  - exists (with_items c it). split; [reflexivity|exact V].
Qed.
Theorem replace_spec c xs : exists c', cstep c (CReplace xs) = Ok (c', ONone) /\ values c' = xs.
Proof.
  assert (ND : NoDup (keys [])) by constructor.
  destruct (add_all_no_loss xs [] ND) as [it [E [V _]]]. cbn [cstep]. rewrite E. simpl.
  exists (with_items c it). split; [reflexivity|exact V].
Qed.
Theorem concat_spec c other : exists c', cstep c (CConcat other) = Ok (c', ONone) /\ values c' = values c ++ map snd other.
Proof.
  assert (ND : NoDup (keys [])) by constructor.
  destruct (add_all_no_loss (values c) [] ND) as [it1 [E1 [V1 [ND1 _]]]].
  destruct (add_all_no_loss (map snd other) it1 ND1) as [it2 [E2 [V2 _]]].
  cbn [cstep]. rewrite E1. simpl. rewrite E2. simpl. eexists. split; [reflexivity|]. unfold values. simpl.
  fold (vals it2). rewrite V2, V1. reflexivity.
Qed.
Theorem remove_spec c k : CInv c -> In k (keys (items c)) ->
  exists c', cstep c (CRemove k) = Ok (c', ONone) /\
    items c' = filter (fun p => negb (String.eqb k (fst p))) (items c) /\ ~ In k (keys (items c')).
Proof.
  intros _ Hin. cbn [cstep]. apply kmem_In in Hin. rewrite Hin. eexists. split; [reflexivity|]. simpl. split; [reflexivity|].
  intro K. unfold keys in K. apply in_map_iff in K. destruct K as [p [E Hp]]. apply filter_In in Hp. destruct Hp as [_ Hp].
  subst. rewrite String.eqb_refl in Hp. discriminate.
Qed.

(* non-vacuity: clashing names are renamed, iteration is by descending first attribute *)
Example coll_example :
  map (fun o => (o_keys o, o_iter o)) (run_cops empty_coll
     [CAdd (mkM 1 "H" [50]) None true; CAdd (mkM 2 "H" [80]) None true; CAdd (mkM 3 "H" [60]) None true; CRemove "H_1"%string;
      CAdd (mkM 4 "H" [70]) None true])
  = [(["H"], [1]); (["H"; "H_1"], [2; 1]); (["H"; "H_1"; "H_2"], [2; 3; 1]); (["H"; "H_2"], [3; 1]);
     (["H"; "H_2"; "H_1"], [4; 3; 1])]%nat%string.
Proof. vm_compute. reflexivity. Qed.
