(* C10 main results for synthesised trees (ALL stream lists, no size bound): every labelled stream is in exactly one
   leaf, once in each ancestor, nowhere else; per-zone count/duty conservation; siblings disjoint; utilities fresh.
   User trees: the same under the hypothesis that every label resolves to a childless zone (`..._partial`). *)
From OP Require Import gen.Consts gen.ZoneTreeConsts model.Base model.Collection model.ZoneTree
  proofs.CollectionRefine proofs.ZoneTreeStrings proofs.ZoneTreeSynth proofs.ZoneTreeImport.
From Coq Require Import String Ascii Lia Permutation.

Definition leaf_fn (asg : list (nat * path)) (i : nat) : path := match asg_get asg i with Some p => p | None => [] end.
Definition occ (s : istream) (z : zobs) : nat := count_nat (sid s) (members z).

(* ---------------------------------------------------------------- small facts *)
Lemma nonempty_app_r a c r : nonempty (a ++ String c r)%string = true.
Proof. destruct a; reflexivity. Qed.
Lemma pathstr_nonempty root p : p <> [] -> nonempty (pathstr root p) = true.
Proof. intro H. unfold pathstr. rewrite join_cons. destruct p as [|c r]; [congruence|]. unfold tl_str, seps. simpl. apply nonempty_app_r. Qed.
Lemma filter_map_comm {A B} (g : A -> B) (f : B -> bool) l : filter f (map g l) = map g (filter (fun x => f (g x)) l).
Proof. induction l as [|x r IH]; simpl; [reflexivity|]. destruct (f (g x)); simpl; rewrite IH; reflexivity. Qed.

Lemma count_nat_app i a b : count_nat i (a ++ b) = (count_nat i a + count_nat i b)%nat.
Proof. unfold count_nat. rewrite filter_app, app_length. reflexivity. Qed.
Lemma count_nat_perm i a b : Permutation a b -> count_nat i a = count_nat i b.
Proof. intro P. unfold count_nat. apply Permutation_length, perm_filter, P. Qed.
Lemma count_nat_notin i l : ~ In i l -> count_nat i l = 0%nat.
Proof. intro H. unfold count_nat. rewrite filter_false; [reflexivity|]. intros x Hx. apply Nat.eqb_neq. intro E. subst. contradiction. Qed.
Lemma count_nat_pos_in i l : (0 < count_nat i l)%nat -> In i l.
Proof. unfold count_nat. intro H. destruct (filter (Nat.eqb i) l) as [|x r] eqn:E; [simpl in H; lia|].
  assert (K : In x (filter (Nat.eqb i) l)) by (rewrite E; left; reflexivity). apply filter_In in K. destruct K as [K1 K2]. apply Nat.eqb_eq in K2. subst. exact K1. Qed.

(* in a list with distinct identities, the identity of s occurs in a selection iff s is selected *)
Lemma count_selected ss (P : istream -> bool) s : NoDup (map sid ss) -> In s ss ->
  count_nat (sid s) (map sid (filter P ss)) = if P s then 1%nat else 0%nat.
Proof.
  induction ss as [|x r IH]; intros ND Hs; [contradiction|]. simpl in ND. inversion ND as [|? ? Hx Hr]; subst.
  destruct Hs as [Hs|Hs].
  - subst x. simpl. assert (Z : count_nat (sid s) (map sid (filter P r)) = 0%nat).
    { apply count_nat_notin. intro K. apply Hx. apply in_map_iff in K. destruct K as [y [E K]]. apply filter_In in K. apply in_map_iff. exists y. tauto. }
    destruct (P s); [|exact Z]. simpl. unfold count_nat in *. simpl. rewrite Nat.eqb_refl. simpl. rewrite Z. reflexivity.
  - simpl. destruct (P x) eqn:Px; [|apply IH; assumption]. simpl. unfold count_nat. simpl.
    destruct (Nat.eqb (sid s) (sid x)) eqn:E.
    + exfalso. apply Nat.eqb_eq in E. apply Hx. rewrite <- E. apply in_map, Hs.
    + apply IH; assumption.
Qed.

Lemma nodup_map_inj {A B} (f : A -> B) l x y : NoDup (map f l) -> In x l -> In y l -> f x = f y -> x = y.
Proof.
  induction l as [|a r IH]; simpl; intros ND Hx Hy E; [contradiction|]. inversion ND as [|? ? Ha Hr]; subst.
  destruct Hx as [Hx|Hx], Hy as [Hy|Hy]; subst; auto.
  - exfalso. apply Ha. rewrite E. apply in_map, Hy.
  - exfalso. apply Ha. rewrite <- E. apply in_map, Hx.
Qed.

(* ================================================================ synthesised trees *)
Section Synth.
Variable root : string.
Variable ss : list istream.
Variable L : list path.
Variable asg : list (nat * path).
Variable out : list zobs.
Hypothesis NDS : NoDup (map sid ss).
Hypothesis SO : SynthOK ss L asg.
Hypothesis Hout : backend root L (map (synth_zone root asg) ss) = Ok out.

Let leaf := leaf_fn asg.
Let it := synth_order ss.

Lemma leaf_of_labelled s : In s ss -> labelled s = true ->
  exists k, leaf (sid s) = comps s ++ [oname k] /\ In (leaf (sid s)) L /\ kids L (leaf (sid s)) = [] /\ ~ label_path it (leaf (sid s)).
Proof.
  intros Hs Hl. destruct (so_leaf _ _ _ SO s Hs Hl) as [k [A [B [C D]]]]. exists k. unfold leaf, leaf_fn. rewrite A. auto.
Qed.

Lemma zone_lab s : In s ss -> nonempty (zs_zone (synth_zone root asg s)) = labelled s.
Proof.
  intro Hs. unfold synth_zone. cbn [zs_zone]. destruct (labelled s) eqn:Hl.
  - destruct (so_leaf _ _ _ SO s Hs Hl) as [k [A _]]. rewrite A. apply pathstr_nonempty. destruct (comps s); discriminate.
  - rewrite (so_unlab _ _ _ SO s Hs Hl). exact Hl.
Qed.

Lemma synth_chars : map zo_path out = [] :: L /\ forall z, In z out ->
  Permutation (map fst (zo_hot z)) (map sid (filter (fun s => labelled s && shot s && is_prefix (zo_path z) (leaf (sid s))) ss))
  /\ Permutation (map fst (zo_cold z)) (map sid (filter (fun s => labelled s && negb (shot s) && is_prefix (zo_path z) (leaf (sid s))) ss)).
Proof.
  assert (Hsid : map zsid (map (synth_zone root asg) ss) = map sid ss) by (rewrite map_map; reflexivity).
  destruct (backend_ok root L (map (synth_zone root asg) ss) leaf (so_nd _ _ _ SO) (so_closed _ _ _ SO) (so_nonil _ _ _ SO) (so_nosep _ _ _ SO))
    as [out' [E [P Q]]].
  - rewrite Hsid. exact NDS.
  - intros z Hz Hn. apply in_map_iff in Hz. destruct Hz as [s [Ez Hs]]. subst z.
    rewrite (zone_lab s Hs) in Hn. destruct (leaf_of_labelled s Hs Hn) as [k [A [B [C _]]]].
    unfold zsid. cbn [zs_s synth_zone]. split; [|split; assumption].
    unfold synth_zone. cbn [zs_zone]. destruct (so_leaf _ _ _ SO s Hs Hn) as [k' [A' _]]. rewrite A'. unfold leaf, leaf_fn. rewrite A'. reflexivity.
  - rewrite Hout in E. inversion E; subst out'. split; [exact P|]. intros z Hz. destruct (Q z Hz) as [Qh Qc].
    unfold below_h, below_c in Qh, Qc. rewrite filter_map_comm, map_map in Qh, Qc. cbn [zsid zs_s synth_zone] in Qh, Qc.
    split; [eapply Permutation_trans; [exact Qh|]|eapply Permutation_trans; [exact Qc|]]; apply Permutation_map;
      (erewrite filter_ext_in; [apply Permutation_refl|]); intros s Hs; cbn beta; rewrite (zone_lab s Hs); reflexivity.
Qed.

Lemma out_paths_nodup : NoDup (map zo_path out).
Proof. destruct synth_chars as [P _]. rewrite P. constructor; [apply (so_nonil _ _ _ SO)|apply (so_nd _ _ _ SO)]. Qed.

Lemma out_path_in z : In z out -> zo_path z = [] \/ In (zo_path z) L.
Proof. intro Hz. destruct synth_chars as [P _]. assert (K : In (zo_path z) (map zo_path out)) by (apply in_map, Hz). rewrite P in K. destruct K; auto. Qed.

Lemma out_zone_of p : p = [] \/ In p L -> exists z, In z out /\ zo_path z = p.
Proof.
  intro Hp. destruct synth_chars as [P _]. assert (K : In p (map zo_path out)) by (rewrite P; destruct Hp; [left; auto|right; auto]).
  apply in_map_iff in K. destruct K as [z [E K]]. exists z. auto.
Qed.

Lemma is_leaf_kids z : In z out -> is_leaf out z = true <-> kids L (zo_path z) = [].
Proof.
  intro Hz. unfold is_leaf, has_child. rewrite Bool.negb_true_iff. split.
  - intro H. destruct (kids L (zo_path z)) as [|c r] eqn:E; [reflexivity|exfalso].
    assert (Hc : In (zo_path z ++ [c]) L) by (apply kids_In; rewrite E; left; reflexivity).
    destruct (out_zone_of _ (or_intror Hc)) as [z' [Hz' Ez']].
    assert (T : existsb (fun z' => Nat.eqb (List.length (zo_path z')) (S (List.length (zo_path z))) && is_prefix (zo_path z) (zo_path z')) out = true).
    { apply existsb_exists. exists z'. split; [exact Hz'|]. rewrite Ez', app_length, is_prefix_app. simpl. rewrite Nat.add_1_r, Nat.eqb_refl. reflexivity. }
    congruence.
  - intro Hk. apply Bool.not_true_is_false. intro T. apply existsb_exists in T. destruct T as [z' [Hz' T]].
    apply Bool.andb_true_iff in T. destruct T as [T1 T2]. apply Nat.eqb_eq in T1. apply is_prefix_spec in T2. destruct T2 as [r T2].
    rewrite T2, app_length in T1. destruct r as [|c [|d r]]; simpl in T1; try lia.
    destruct (out_path_in z' Hz') as [K|K]; [rewrite T2 in K; destruct (zo_path z); discriminate|].
    rewrite T2 in K. apply kids_In in K. rewrite Hk in K. contradiction.
Qed.

(* occurrences of a stream in a zone: 1 when the zone is on the way to its leaf, else 0 *)
Lemma occ_char s z : In s ss -> In z out ->
  occ s z = if labelled s && is_prefix (zo_path z) (leaf (sid s)) then 1%nat else 0%nat.
Proof.
  intros Hs Hz. destruct synth_chars as [_ Q]. destruct (Q z Hz) as [Qh Qc]. unfold occ, members.
  rewrite count_nat_app, (count_nat_perm _ _ _ Qh), (count_nat_perm _ _ _ Qc), !count_selected by assumption.
  destruct (labelled s), (shot s), (is_prefix (zo_path z) (leaf (sid s))); reflexivity.
Qed.

Theorem placement s : In s ss -> labelled s = true ->
  exists z, In z out /\ is_leaf out z = true /\ removelast (zo_path z) = split_label (slabel s)
    /\ forall z', In z' out -> occ s z' = if is_prefix (zo_path z') (zo_path z) then 1%nat else 0%nat.
Proof.
  intros Hs Hl. destruct (leaf_of_labelled s Hs Hl) as [k [A [B [C _]]]].
  destruct (out_zone_of _ (or_intror B)) as [z [Hz Ez]]. exists z. split; [exact Hz|]. split; [apply is_leaf_kids; [exact Hz|rewrite Ez; exact C]|].
  split; [rewrite Ez, A, removelast_last; reflexivity|]. intros z' Hz'. rewrite (occ_char s z' Hs Hz'), Hl, Ez. reflexivity.
Qed.

Theorem unlabelled_nowhere s z : In s ss -> labelled s = false -> In z out -> occ s z = 0%nat.
Proof. intros Hs Hl Hz. rewrite (occ_char s z Hs Hz), Hl. reflexivity. Qed.

(* a leaf that holds the stream is THE leaf of the stream *)
Theorem leaf_unique s z z' : In s ss -> labelled s = true -> In z out -> In z' out -> is_leaf out z = true -> is_leaf out z' = true ->
  (0 < occ s z)%nat -> (0 < occ s z')%nat -> z = z'.
Proof.
  intros Hs Hl Hz Hz' Lz Lz' Oz Oz'.
  destruct (leaf_of_labelled s Hs Hl) as [k [A [B [C _]]]].
  assert (T : forall y, In y out -> is_leaf out y = true -> (0 < occ s y)%nat -> zo_path y = leaf (sid s)).
  { intros y Hy Ly Oy. rewrite (occ_char s y Hs Hy), Hl in Oy. cbn [andb] in Oy.
    destruct (is_prefix (zo_path y) (leaf (sid s))) eqn:P; [|lia]. apply prefix_cases in P. destruct P as [P|[c [r P]]]; [exact P|exfalso].
    apply (is_leaf_kids y Hy) in Ly.
    assert (K : In (zo_path y ++ [c]) L).
    { apply (so_closed _ _ _ SO (leaf (sid s))); [exact B|destruct (zo_path y); discriminate|]. apply is_prefix_spec. exists r. rewrite P, <- app_assoc. reflexivity. }
    apply kids_In in K. rewrite Ly in K. contradiction. }
  apply (nodup_map_inj zo_path out); [apply out_paths_nodup|assumption|assumption|]. rewrite (T z), (T z'); auto.
Qed.

Theorem members_known z i : In z out -> In i (members z) -> exists s, In s ss /\ sid s = i /\ labelled s = true.
Proof.
  intros Hz Hi. destruct synth_chars as [_ Q]. destruct (Q z Hz) as [Qh Qc]. unfold members in Hi. apply in_app_or in Hi.
  destruct Hi as [Hi|Hi]; [apply (Permutation_in _ Qh) in Hi|apply (Permutation_in _ Qc) in Hi];
    apply in_map_iff in Hi; destruct Hi as [s [E Hi]]; apply filter_In in Hi; destruct Hi as [Hi P]; exists s;
    apply Bool.andb_true_iff in P; destruct P as [P _]; apply Bool.andb_true_iff in P; destruct P as [P _]; auto.
Qed.

Theorem siblings_disjoint z1 z2 p c1 c2 i : In z1 out -> In z2 out -> zo_path z1 = p ++ [c1] -> zo_path z2 = p ++ [c2] -> c1 <> c2 ->
  In i (members z1) -> ~ In i (members z2).
Proof.
  intros H1 H2 E1 E2 Hc I1 I2. destruct (members_known z1 i H1 I1) as [s [Hs [Es Hl]]]. subst i.
  assert (O1 : (0 < occ s z1)%nat) by (unfold occ, count_nat; destruct (filter (Nat.eqb (sid s)) (members z1)) eqn:E; [|simpl; lia];
     exfalso; assert (K : In (sid s) (filter (Nat.eqb (sid s)) (members z1))) by (apply filter_In; split; [exact I1|apply Nat.eqb_refl]); rewrite E in K; exact K).
  assert (O2 : (0 < occ s z2)%nat) by (unfold occ, count_nat; destruct (filter (Nat.eqb (sid s)) (members z2)) eqn:E; [|simpl; lia];
     exfalso; assert (K : In (sid s) (filter (Nat.eqb (sid s)) (members z2))) by (apply filter_In; split; [exact I2|apply Nat.eqb_refl]); rewrite E in K; exact K).
  rewrite (occ_char s z1 Hs H1), Hl in O1. rewrite (occ_char s z2 Hs H2), Hl in O2. cbn [andb] in O1, O2.
  destruct (is_prefix (zo_path z1) (leaf (sid s))) eqn:P1; [|lia]. destruct (is_prefix (zo_path z2) (leaf (sid s))) eqn:P2; [|lia].
  apply is_prefix_spec in P1, P2. destruct P1 as [r1 P1], P2 as [r2 P2]. rewrite E1 in P1. rewrite E2 in P2. rewrite P1, <- !app_assoc in P2.
  apply app_inv_head in P2. inversion P2. contradiction.
Qed.

(* zones that are not generated leaves: the streams whose LABEL passes through them *)
Lemma through_label z s : In z out -> is_leaf out z = false \/ zo_path z = [] -> In s ss -> labelled s = true ->
  is_prefix (zo_path z) (leaf (sid s)) = is_prefix (zo_path z) (split_label (slabel s)).
Proof.
  intros Hz Hint Hs Hl. destruct (leaf_of_labelled s Hs Hl) as [k [A [B [C D]]]]. fold (comps s). rewrite A.
  destruct (is_prefix (zo_path z) (comps s)) eqn:P.
  - eapply is_prefix_trans; [exact P|apply is_prefix_app].
  - destruct (is_prefix (zo_path z) (comps s ++ [oname k])) eqn:P2; [exfalso|reflexivity].
    apply is_prefix_spec in P2. destruct P2 as [r P2]. destruct r as [|x r] using rev_ind.
    + rewrite app_nil_r in P2. destruct Hint as [Hint|Hint].
      * assert (K : is_leaf out z = true) by (apply is_leaf_kids; [exact Hz|rewrite <- P2, <- A; exact C]). congruence.
      * rewrite Hint in P2. destruct (comps s); discriminate.
    + clear IHr. rewrite app_assoc in P2. apply app_inj_tail in P2. destruct P2 as [P2 _].
      assert (is_prefix (zo_path z) (comps s) = true) by (apply is_prefix_spec; exists r; exact P2). congruence.
Qed.

Theorem conservation z : In z out -> is_leaf out z = false \/ zo_path z = [] ->
  Permutation (map fst (zo_hot z)) (map sid (filter (fun s => labelled s && shot s && is_prefix (zo_path z) (split_label (slabel s))) ss))
  /\ Permutation (map fst (zo_cold z)) (map sid (filter (fun s => labelled s && negb (shot s) && is_prefix (zo_path z) (split_label (slabel s))) ss)).
Proof.
  intros Hz Hint. destruct synth_chars as [_ Q]. destruct (Q z Hz) as [Qh Qc].
  split; [eapply Permutation_trans; [exact Qh|]|eapply Permutation_trans; [exact Qc|]]; apply Permutation_map;
    (erewrite filter_ext_in; [apply Permutation_refl|]); intros s Hs; cbn beta;
    destruct (labelled s) eqn:Hl; cbn [andb]; try reflexivity; rewrite (through_label z s Hz Hint Hs Hl); reflexivity.
Qed.

(* a generated leaf holds exactly one stream, whose label is the path of the leaf's parent *)
Lemma single_from_count (l : list nat) a : (forall i, In i l -> i = a) -> count_nat a l = 1%nat -> l = [a].
Proof.
  intros H C. destruct l as [|x [|y r]].
  - discriminate.
  - rewrite (H x (or_introl eq_refl)). reflexivity.
  - exfalso. rewrite (H x (or_introl eq_refl)), (H y (or_intror (or_introl eq_refl))) in C. unfold count_nat in C. simpl in C.
    rewrite Nat.eqb_refl in C. simpl in C. lia.
Qed.

Lemma in_pos_count i l : In i l -> (0 < count_nat i l)%nat.
Proof. intro H. unfold count_nat. destruct (filter (Nat.eqb i) l) eqn:E; [|simpl; lia].
  exfalso. assert (K : In i (filter (Nat.eqb i) l)) by (apply filter_In; split; [exact H|apply Nat.eqb_refl]). rewrite E in K. exact K. Qed.

Theorem leaf_single z : In z out -> is_leaf out z = true -> zo_path z <> [] ->
  exists s, In s ss /\ labelled s = true /\ members z = [sid s] /\ removelast (zo_path z) = split_label (slabel s).
Proof.
  intros Hz Lz Hne. pose proof Lz as Lk. apply (is_leaf_kids z Hz) in Lk.
  destruct (out_path_in z Hz) as [K|K]; [contradiction|].
  assert (Hown : exists s, In s ss /\ labelled s = true /\ leaf (sid s) = zo_path z).
  { destruct (so_src _ _ _ SO _ K) as [LP|AS].
    - exfalso. destruct LP as [s [Hs Hq]]. apply prefixes_ne_spec in Hq. destruct Hq as [_ Hq]. apply synth_order_In in Hs. destruct Hs as [Hs Hl].
      destruct (leaf_of_labelled s Hs Hl) as [k [A [B _]]]. fold (comps s) in Hq.
      apply prefix_cases in Hq. destruct Hq as [Hq|[c [r Hq]]].
      + assert (H : In (zo_path z ++ [oname k]) L) by (rewrite Hq, <- A; exact B). apply kids_In in H. rewrite Lk in H. contradiction.
      + assert (H : In (zo_path z ++ [c]) L).
        { apply (so_closed _ _ _ SO (leaf (sid s))); [exact B|destruct (zo_path z); discriminate|]. rewrite A, Hq.
          apply is_prefix_spec. exists (r ++ [oname k]). rewrite <- !app_assoc. reflexivity. }
        apply kids_In in H. rewrite Lk in H. contradiction.
    - destruct (so_own _ _ _ SO _ AS) as [s [Hs [Hl G]]]. exists s. split; [exact Hs|]. split; [exact Hl|]. unfold leaf, leaf_fn. rewrite G. reflexivity. }
  destruct Hown as [s [Hs [Hl El]]]. exists s. split; [exact Hs|]. split; [exact Hl|].
  destruct (leaf_of_labelled s Hs Hl) as [k [A _]]. split; [|rewrite <- El, A, removelast_last; reflexivity].
  apply single_from_count.
  - intros i Hi. destruct (members_known z i Hz Hi) as [s' [Hs' [Es' Hl']]]. subst i. f_equal.
    apply in_pos_count in Hi. fold (occ s' z) in Hi. rewrite (occ_char s' z Hs' Hz), Hl' in Hi. cbn [andb] in Hi.
    destruct (is_prefix (zo_path z) (leaf (sid s'))) eqn:P; [|lia].
    destruct (leaf_of_labelled s' Hs' Hl') as [k' [A' [B' _]]].
    assert (E : leaf (sid s') = zo_path z).
    { apply prefix_cases in P. destruct P as [P|[c [r P]]]; [symmetry; exact P|exfalso].
      assert (H : In (zo_path z ++ [c]) L).
      { apply (so_closed _ _ _ SO (leaf (sid s'))); [exact B'|destruct (zo_path z); discriminate|]. apply is_prefix_spec. exists r. rewrite P, <- app_assoc. reflexivity. }
      apply kids_In in H. rewrite Lk in H. contradiction. }
    apply (so_inj _ _ _ SO s' s (zo_path z)); try assumption.
    + destruct (so_leaf _ _ _ SO s' Hs' Hl') as [k2 [G _]]. rewrite G. f_equal. rewrite <- E. unfold leaf, leaf_fn. rewrite G. reflexivity.
    + destruct (so_leaf _ _ _ SO s Hs Hl) as [k2 [G _]]. rewrite G. f_equal. rewrite <- El. unfold leaf, leaf_fn. rewrite G. reflexivity.
  - fold (occ s z). rewrite (occ_char s z Hs Hz), Hl, El, is_prefix_refl. reflexivity.
Qed.

End Synth.

(* ================================================================ from the model function to the section hypotheses *)
Lemma model_synth_inv root ss out : NoDup (map sid ss) -> model_synth root ss = Ok out ->
  exists L asg, SynthOK ss L asg /\ backend root L (map (synth_zone root asg) ss) = Ok out.
Proof.
  intros ND H. destruct (synth_front_ok ss ND) as [L [asg [E SO]]]. unfold model_synth in H. rewrite E in H. simpl in H. exists L, asg. auto.
Qed.

(* the construction never fails: the counter loop ends, no key-renaming loop runs out *)
Theorem synth_total root ss : NoDup (map sid ss) -> exists out, model_synth root ss = Ok out.
Proof.
  intro ND. destruct (synth_front_ok ss ND) as [L [asg [E SO]]]. unfold model_synth. rewrite E. simpl.
  destruct (backend_ok root L (map (synth_zone root asg) ss) (leaf_fn asg) (so_nd _ _ _ SO) (so_closed _ _ _ SO) (so_nonil _ _ _ SO) (so_nosep _ _ _ SO))
    as [out [Eo _]].
  - rewrite map_map. exact ND.
  - intros z Hz Hn. apply in_map_iff in Hz. destruct Hz as [s [Ez Hs]]. subst z.
    assert (Hl : labelled s = true).
    { destruct (labelled s) eqn:Hl; [reflexivity|]. unfold synth_zone in Hn. cbn [zs_zone] in Hn. rewrite (so_unlab _ _ _ SO s Hs Hl) in Hn. unfold labelled in Hl. congruence. }
    destruct (so_leaf _ _ _ SO s Hs Hl) as [k [A [B [C _]]]]. unfold zsid, synth_zone, leaf_fn. cbn [zs_s zs_zone]. rewrite A. auto.
  - exists out. exact Eo.
Qed.

(* ================================================================ utilities: every zone receives fresh locations *)
Lemma util_block i nh nc : seq (i * (nh + nc)) nh ++ seq (i * (nh + nc) + nh) nc = seq (i * (nh + nc)) (nh + nc).
Proof. symmetry. apply seq_app. Qed.
Lemma blocks_seq m n : flat_map (fun i => seq (i * m) m) (seq 0 n) = seq 0 (n * m).
Proof.
  induction n as [|n IH]; [reflexivity|]. rewrite seq_S, flat_map_app, IH. simpl. rewrite app_nil_r.
  replace (m + n * m)%nat with (n * m + m)%nat by lia. symmetry. apply seq_app.
Qed.
Theorem utilities_fresh n nh nc : NoDup (flat_map (fun l => fst l ++ snd l) (util_locs n nh nc)).
Proof.
  unfold util_locs. rewrite flat_map_concat_map, map_map, <- flat_map_concat_map. cbn [fst snd].
  erewrite flat_map_ext; [|intro i; apply util_block]. rewrite blocks_seq. apply seq_NoDup.
Qed.
