(* C07: (1) inserting breakpoints leaves the H_net curve unchanged at EVERY temperature of the WHOLE table (both sides of
   the pinch and the rows between the pinches glued together), and (2) the rows of the output are the input rows, in
   order, interleaved with breakpoint rows that sit exactly where a pocket closes strictly inside an interval: their
   temperatures are the list `expected_bps` of the specification (an interval prev -> next gets a breakpoint iff
   H prev > M > H next, M = minimum of the rows visited so far on that sweep), so the number of rows added is the number
   of such intervals.  Proved on the zipper form and transferred to the code-shaped model with gcc_np_zipper. *)
From OP Require Import gen.Consts model.Base model.Pockets proofs.BaseFacts proofs.PocketsPL proofs.PocketsZ
  proofs.PocketsFuel proofs.PocketsSim proofs.PocketsPinch proofs.PocketsTop proofs.PocketsSpec.
From Coq Require Import Lia Lqa.
Local Open Scope Q_scope.
Local Arguments Qred : simpl never.

(* ====================================================================================================================== *)
(* PART 1: the curve is unchanged on the whole table                                                                      *)
(* ====================================================================================================================== *)

(* two curves through a common point m agree everywhere if they agree on either side of it *)
Lemma plw_glue d tq A m B A' B' x : 0 <= tq -> mono d tq (A ++ m :: B) -> mono d tq (A' ++ m :: B') ->
  (sleP d (fst m) x -> plw d (A ++ [m]) x == plw d (A' ++ [m]) x) ->
  (sleP d x (fst m) -> plw d (m :: B) x == plw d (m :: B') x) ->
  plw d (A ++ m :: B) x == plw d (A' ++ m :: B') x.
Proof.
  intros Ht M1 M2 H1 H2. destruct (sle_total d (fst m) x) as [H|H].
  - rewrite (plw_app_l d tq A m B x Ht M1 H), (plw_app_l d tq A' m B' x Ht M2 H). exact (H1 H).
  - assert (H' : sleP d x (fst m)) by (destruct d; simpl in *; lra).
    rewrite (plw_app_r d tq A m B x Ht M1 H'), (plw_app_r d tq A' m B' x Ht M2 H'). exact (H2 H').
Qed.

Section CurveSides.
Variables (tq : Q) (Ts Hs : list Q).
Hypothesis Ht : 0 < tq.
Hypothesis Hlen : List.length Ts = List.length Hs.
Let t0 := init_rows Ts Hs.
Hypothesis R : RobustP tq Hs t0.
Variables hp cp : nat.
Hypothesis PF : PinchFacts tq (map rH t0) hp cp.

Let above := firstn (S hp) t0.
Let below := skipn cp t0.
Let ph := nth hp t0 r0.
Let pc := nth cp t0 r0.

Lemma cs_len : (cp < List.length t0)%nat /\ (hp <= cp)%nat.
Proof. destruct PF. rewrite map_length in *. split; assumption. Qed.

Lemma side_up_H c0 mu x : above = c0 :: mu -> rT ph <= x -> x <= rT c0 ->
  plw true (map ptH (zside tq (mk_up tq) above)) x == plw true (map ptH above) x.
Proof.
  intros Eab Hx1 Hx2. destruct cs_len as [Hl1 Hl2].
  assert (E0 : t0 = above ++ skipn (S hp) t0) by (symmetry; apply firstn_skipn).
  assert (E1 : above = firstn hp t0 ++ [ph]) by (unfold above, ph; apply firstn_S_snoc; lia).
  assert (Rab : RobustP tq Hs above) by (apply (RobustP_app_l tq Hs _ (skipn (S hp) t0)); rewrite <- E0; exact R).
  rewrite Eab. unfold zside. destruct (qltb (rH c0) tq) eqn:Eq; [reflexivity|].
  assert (Pre : SidePre true tq Hs c0 mu) by (apply SidePre_up; rewrite <- Eab; exact Rab).
  assert (Hlast : fst (last (map ptH (c0 :: mu)) (ptH c0)) = rT ph).
  { rewrite <- Eab, E1, map_app. simpl map. rewrite last_last. reflexivity. }
  assert (Hr : in_range true (map ptH (c0 :: mu)) x).
  { split; [exact Hx2|]. rewrite Hlast. exact Hx1. }
  exact (zsweep_H true tq (mk_up tq) Ht (mk_up_spec tq ltac:(lra)) Hs (List.length mu) c0 mu (le_n _) Pre x Hr).
Qed.

Lemma side_dn_H cl md x : rev below = cl :: md -> rT cl <= x -> x <= rT pc ->
  plw true (map ptH (rev (zside tq (mk_dn tq) (rev below)))) x == plw true (map ptH below) x.
Proof.
  intros Er Hx1 Hx2. destruct cs_len as [Hl1 Hl2].
  assert (E0 : t0 = firstn cp t0 ++ below) by (symmetry; apply firstn_skipn).
  assert (E1 : below = pc :: skipn (S cp) t0) by (unfold below, pc; apply skipn_nth_cons; lia).
  assert (Rb : RobustP tq Hs below) by (apply (RobustP_app_r tq Hs (firstn cp t0)); rewrite <- E0; exact R).
  assert (Hlastrev : last (cl :: md) cl = pc) by (rewrite <- Er, E1; cbn [rev]; apply last_last).
  rewrite Er. unfold zside. destruct (qltb (rH cl) tq) eqn:Eq.
  - rewrite <- Er, rev_involutive. reflexivity.
  - assert (Pre : SidePre false tq Hs cl md) by (eapply SidePre_dn; [exact Rb|exact Er]).
    set (S := cl :: zsweep tq (mk_dn tq) (List.length md) cl md).
    assert (HmS : mono false tq (map ptH S)).
    { apply (zsweep_mono false tq (mk_dn tq) Ht (mk_dn_spec tq ltac:(lra)) Hs (List.length md) cl md (le_n _) Pre). }
    assert (HlS : fst (last (map ptH S) (ptH cl)) = rT pc).
    { rewrite (last_map ptH S cl). unfold S. cbn [fst ptH].
      rewrite (zsweep_lastT tq (mk_dn tq) (List.length md) cl md (le_n _)). rewrite Hlastrev. reflexivity. }
    assert (HrS : in_range false (map ptH S) x).
    { unfold S at 1. cbn [map in_range]. split; [cbn [sleP ptH fst]; exact Hx1|].
      change (ptH cl :: map ptH (zsweep tq (mk_dn tq) (List.length md) cl md)) with (map ptH S). rewrite HlS. cbn [sleP]. exact Hx2. }
    rewrite map_rev. rewrite (plw_rev false tq (map ptH S) x ltac:(lra) HmS HrS).
    assert (HlH : fst (last (map ptH (cl :: md)) (ptH cl)) = rT pc) by (rewrite (last_map ptH (cl :: md) cl), Hlastrev; reflexivity).
    assert (HrH : in_range false (map ptH (cl :: md)) x).
    { cbn [map in_range]. split; [cbn [sleP ptH fst]; exact Hx1|].
      change (ptH cl :: map ptH md) with (map ptH (cl :: md)). rewrite HlH. cbn [sleP]. exact Hx2. }
    unfold S. rewrite (zsweep_H false tq (mk_dn tq) Ht (mk_dn_spec tq ltac:(lra)) Hs (List.length md) cl md (le_n _) Pre x HrH).
    assert (Hm : mono false tq (map ptH (cl :: md))) by apply Pre.
    assert (Eb : below = rev (cl :: md)) by (rewrite <- Er, rev_involutive; reflexivity).
    rewrite Eb, map_rev. symmetry. exact (plw_rev false tq (map ptH (cl :: md)) x ltac:(lra) Hm HrH).
Qed.
End CurveSides.

(* THE H_net CURVE OF THE WHOLE OUTPUT TABLE IS THE INPUT CURVE AT EVERY TEMPERATURE (zipper form) *)
Theorem curve_unchanged_z tq Ts Hs : 0 < tq -> robust_b tq Ts Hs = true -> has_pinch tq Hs = true ->
  forall x, last Ts 0 <= x <= hd 0 Ts -> plw true (map ptH (gcc_np_z tq Ts Hs)) x == gcc_at Ts Hs x.
Proof.
  intros Ht Hrob Hhas x [Hxl Hxh].
  destruct (gcc_np_zipper tq Ht Ts Hs Hrob Hhas) as [out [Eout [Heqv Tz]]].
  destruct (robust_b_P tq Ts Hs Hrob) as [Hlen [Hpos R]].
  unfold has_pinch in Hhas.
  rewrite (gcc_at_plw Ts Hs x Hlen), <- (init_rows_ptH Ts Hs).
  unfold gcc_np_z in *. set (t0 := init_rows Ts Hs) in *.
  assert (Hl0 : List.length t0 = List.length Ts) by (apply init_rows_length; exact Hlen).
  assert (EH : map rH t0 = Hs) by (apply init_rows_rH; exact Hlen).
  assert (ET0 : rT (nth 0 t0 r0) = hd 0 Ts) by (apply init_rows_T0; exact Hlen).
  assert (ETl : rT (nth (List.length t0 - 1) t0 r0) = last Ts 0) by (apply init_rows_Tlast; assumption).
  destruct (pinch_idx tq (map rH t0)) as [[hp cp] valid] eqn:Epi.
  destruct valid; cbn [negb] in *; [|reflexivity].
  assert (PF : PinchFacts tq (map rH t0) hp cp) by (apply pinch_idx_facts; [rewrite EH; exact Hhas|exact Epi]).
  pose proof (pf_le _ _ _ _ PF) as Hle. pose proof (pf_lt _ _ _ _ PF) as Hlt. rewrite map_length in Hlt.
  set (above := firstn (S hp) t0) in *. set (midr := firstn (cp - S hp) (skipn (S hp) t0)) in *. set (below := skipn cp t0) in *.
  set (ph := nth hp t0 r0). set (pc := nth cp t0 r0).
  assert (Habove : exists c0 mu, above = c0 :: mu /\ c0 = nth 0 t0 r0).
  { unfold above. destruct t0 as [|y t0']; [simpl in Hlt; lia|]. exists y, (firstn hp t0'). split; reflexivity. }
  destruct Habove as [c0 [mu [Eab Ec0]]].
  assert (Hbelow : exists cl md, rev below = cl :: md).
  { unfold below. rewrite (skipn_nth_cons t0 cp r0 Hlt). cbn [rev].
    destruct (rev (skipn (S cp) t0)) as [|y l]; [exists (nth cp t0 r0), []; reflexivity|exists y, (l ++ [nth cp t0 r0]); reflexivity]. }
  destruct Hbelow as [cl [md Ebl]].
  assert (Ecl : rT cl = last Ts 0).
  { rewrite <- ETl. f_equal.
    assert (Hlb : last below r0 = cl) by (rewrite <- (rev_involutive below), Ebl; cbn [rev]; apply last_last).
    rewrite <- Hlb. rewrite <- (last_nth_len t0 r0) by (intro Z; rewrite Z in Hlt; simpl in Hlt; lia).
    transitivity (last (firstn cp t0 ++ below) r0); [symmetry; apply last_app_ne; unfold below; rewrite (skipn_nth_cons t0 cp r0 Hlt); discriminate|].
    f_equal. apply firstn_skipn. }
  pose proof (side_up_pre tq Ht Hs t0 hp cp R PF c0 mu Eab) as Hup.
  pose proof (side_dn_pre tq Ht Hs t0 hp cp R PF cl md Ebl) as Hdn.
  destruct (zside_last tq (mk_up tq) c0 mu (fun H => proj2 (Hup H))) as [X [EX _]].
  assert (Elast_up : last (c0 :: mu) c0 = ph).
  { rewrite <- Eab. unfold above, ph. rewrite (firstn_S_snoc t0 hp r0) by lia. apply last_last. }
  rewrite Elast_up in EX. rewrite <- Eab in EX.
  destruct (zside_last tq (mk_dn tq) cl md (fun H => proj2 (Hdn H))) as [Y [EY _]].
  assert (Elast_dn : last (cl :: md) cl = pc).
  { rewrite <- Ebl. unfold below, pc. rewrite (skipn_nth_cons t0 cp r0 Hlt). cbn [rev]. apply last_last. }
  rewrite Elast_dn in EY. rewrite <- Ebl in EY.
  assert (Edn : rev (zside tq (mk_dn tq) (rev below)) = pc :: rev Y) by (rewrite EY, rev_app_distr; reflexivity).
  assert (Eb1 : below = pc :: skipn (S cp) t0) by (unfold below, pc; apply skipn_nth_cons; exact Hlt).
  assert (Ea1 : above = firstn hp t0 ++ [ph]) by (unfold above, ph; apply firstn_S_snoc; lia).
  assert (Hc0x : x <= rT c0) by (rewrite Ec0; fold t0; rewrite ET0; exact Hxh).
  assert (Hclx : rT cl <= x) by (rewrite Ecl; exact Hxl).
  set (Z2 := map (fun r => with_np r 0) midr ++ (if (hp <? cp)%nat then rev (zside tq (mk_dn tq) (rev below)) else List.tl (rev (zside tq (mk_dn tq) (rev below))))) in *.
  assert (Ez : map ptH (zside tq (mk_up tq) above ++ Z2) = map ptH X ++ ptH ph :: map ptH Z2).
  { rewrite EX, !map_app. cbn [map]. rewrite <- app_assoc. reflexivity. }
  assert (Et : map ptH t0 = map ptH (firstn hp t0) ++ ptH ph :: map ptH (skipn (S hp) t0)).
  { rewrite <- (firstn_skipn (S hp) t0) at 1. fold above. rewrite Ea1, !map_app. cbn [map]. rewrite <- app_assoc. reflexivity. }
  assert (Htd : mono true tq (map ptH t0)) by apply (rp_desc tq Hs t0 R).
  unfold Tdesc in Tz. rewrite Ez in *. rewrite Et in *.
  apply (plw_glue true tq); [lra|exact Tz|exact Htd| |].
  - (* at or above the hot pinch *)
    cbn [sleP ptH fst]. intro HxA.
    replace (map ptH X ++ [ptH ph]) with (map ptH (zside tq (mk_up tq) above)) by (rewrite EX, map_app; reflexivity).
    replace (map ptH (firstn hp t0) ++ [ptH ph]) with (map ptH above) by (rewrite Ea1, map_app; reflexivity).
    exact (side_up_H tq Ts Hs Ht Hlen R hp cp PF c0 mu x Eab HxA Hc0x).
  - (* at or below the hot pinch *)
    cbn [sleP ptH fst]. intro HxA.
    apply mono_app_r in Tz. apply mono_app_r in Htd.
    destruct (hp <? cp)%nat eqn:E2.
    + apply Nat.ltb_lt in E2.
      assert (Es : skipn (S hp) t0 = midr ++ pc :: skipn (S cp) t0).
      { rewrite <- Eb1. unfold midr, below. rewrite <- (firstn_skipn (cp - S hp) (skipn (S hp) t0)) at 1. f_equal.
        rewrite skipn_skipn'. f_equal. lia. }
      assert (EZ2 : map ptH Z2 = map ptH midr ++ ptH pc :: map ptH (rev Y)).
      { unfold Z2. rewrite Edn, map_app. f_equal. rewrite map_map. apply map_ext. intro r. reflexivity. }
      rewrite EZ2 in *. rewrite Es, map_app in *. cbn [map] in *.
      change (ptH ph :: map ptH midr ++ ptH pc :: ?l) with ((ptH ph :: map ptH midr) ++ ptH pc :: l) in *.
      apply (plw_glue true tq); [lra|exact Tz|exact Htd|intros _; reflexivity|].
      cbn [sleP ptH fst]. intro HxC.
      change (ptH pc :: map ptH (rev Y)) with (map ptH (pc :: rev Y)). rewrite <- Edn.
      change (ptH pc :: map ptH (skipn (S cp) t0)) with (map ptH (pc :: skipn (S cp) t0)). rewrite <- Eb1.
      exact (side_dn_H tq Ts Hs Ht Hlen R hp cp PF cl md x Ebl Hclx HxC).
    + apply Nat.ltb_ge in E2. assert (Ehc : hp = cp) by lia.
      assert (Em : midr = []) by (unfold midr; replace (cp - S hp)%nat with 0%nat by lia; reflexivity).
      assert (EZ2 : Z2 = rev Y) by (unfold Z2; rewrite Em, Edn; reflexivity).
      assert (Eph : ph = pc) by (unfold ph, pc; rewrite Ehc; reflexivity).
      rewrite EZ2, Eph. rewrite Ehc.
      change (ptH pc :: map ptH (rev Y)) with (map ptH (pc :: rev Y)). rewrite <- Edn.
      change (ptH pc :: map ptH (skipn (S cp) t0)) with (map ptH (pc :: skipn (S cp) t0)). rewrite <- Eb1.
      apply (side_dn_H tq Ts Hs Ht Hlen R hp cp PF cl md x Ebl Hclx). rewrite Eph in HxA. exact HxA.
Qed.

(* ... and in the code-shaped model: the H_net column of the output, read as a piecewise-linear function of temperature,
   is the input curve at every temperature of the range *)
Lemma map_snd_ptH (l : list row) : map snd (map ptH l) = map rH l.
Proof. rewrite map_map. reflexivity. Qed.
Theorem curve_unchanged tq Ts Hs out : 0 < tq -> robust_b tq Ts Hs = true -> has_pinch tq Hs = true ->
  gcc_np tq Ts Hs = Ok out ->
  forall x, last Ts 0 <= x <= hd 0 Ts -> pl_desc (map rT out) (map rH out) x == gcc_at Ts Hs x.
Proof.
  intros Ht Hrob Hhas Hout x Hx. destruct (res_eqv tq Ts Hs out Ht Hrob Hhas Hout) as [Heq _].
  rewrite <- map_fst_ptH, <- map_snd_ptH, <- plw_pl_desc. rewrite (rows_eqv_ptH _ _ Heq).
  apply curve_unchanged_z; assumption.
Qed.

(* ====================================================================================================================== *)
(* PART 2: which rows are added                                                                                          *)
(* ====================================================================================================================== *)

(* `Weave inp bps out`: out is inp (same T and H_net in every kept row, H_net_np may differ) with the rows bps inserted,
   both in their order *)
Inductive Weave : list row -> list row -> list row -> Prop :=
| W_nil : Weave [] [] []
| W_keep r r' inp bps out : rT r' = rT r -> rH r' = rH r -> Weave inp bps out -> Weave (r :: inp) bps (r' :: out)
| W_ins b inp bps out : Weave inp bps out -> Weave inp (b :: bps) (b :: out).

Lemma Weave_refl l : Weave l [] l.
Proof. induction l; constructor; auto. Qed.
Lemma Weave_flat L l : Weave l [] (flat L l).
Proof. induction l as [|r l IH]; [constructor|]. apply W_keep; [reflexivity|reflexivity|exact IH]. Qed.
Lemma Weave_app i1 b1 o1 i2 b2 o2 : Weave i1 b1 o1 -> Weave i2 b2 o2 -> Weave (i1 ++ i2) (b1 ++ b2) (o1 ++ o2).
Proof. intros H1 H2. induction H1; cbn [app]; [exact H2|apply W_keep; assumption|apply W_ins; assumption]. Qed.
Lemma Weave_rev i b o : Weave i b o -> Weave (rev i) (rev b) (rev o).
Proof.
  induction 1 as [|r r' inp bps out E1 E2 _ IH|x inp bps out _ IH]; cbn [rev]; [constructor| |].
  - rewrite <- (app_nil_r (rev bps)). apply Weave_app; [exact IH|]. apply W_keep; [exact E1|exact E2|constructor].
  - rewrite <- (app_nil_r (rev inp)). apply Weave_app; [exact IH|]. apply W_ins. constructor.
Qed.
Lemma Weave_length i b o : Weave i b o -> List.length o = (List.length i + List.length b)%nat.
Proof. induction 1; simpl; lia. Qed.
Lemma Weave_in_out i b o r : Weave i b o -> In r o -> (exists r1, In r1 i /\ rT r = rT r1 /\ rH r = rH r1) \/ In r b.
Proof.
  induction 1 as [|r1 r' inp bps out E1 E2 _ IH|x inp bps out _ IH]; intros Hin; [destruct Hin| |].
  - destruct Hin as [<-|Hin]; [left; exists r1; split; [left; reflexivity|split; assumption]|].
    destruct (IH Hin) as [[r2 [H1 H2]]|H1]; [left; exists r2; split; [right; exact H1|exact H2]|right; exact H1].
  - destruct Hin as [<-|Hin]; [right; left; reflexivity|].
    destruct (IH Hin) as [H1|H1]; [left; exact H1|right; right; exact H1].
Qed.
Lemma Weave_in_inp i b o r : Weave i b o -> In r i -> exists r', In r' o /\ rT r' = rT r /\ rH r' = rH r.
Proof.
  induction 1 as [|r1 r' inp bps out E1 E2 _ IH|x inp bps out _ IH]; intros Hin; [destruct Hin| |].
  - destruct Hin as [<-|Hin]; [exists r'; split; [left; reflexivity|split; assumption]|].
    destruct (IH Hin) as [r2 [H1 H2]]. exists r2. split; [right; exact H1|exact H2].
  - destruct (IH Hin) as [r2 [H1 H2]]. exists r2. split; [right; exact H1|exact H2].
Qed.
Lemma Weave_in_bps i b o r : Weave i b o -> In r b -> In r o.
Proof.
  induction 1 as [|r1 r' inp bps out E1 E2 _ IH|x inp bps out _ IH]; intros Hin; [destruct Hin| |].
  - right. exact (IH Hin).
  - destruct Hin as [<-|Hin]; [left; reflexivity|right; exact (IH Hin)].
Qed.
(* the first output row is the first input row when no later output row has its temperature *)
Lemma Weave_hd_inv a inp bps o out : Weave (a :: inp) bps (o :: out) -> (forall r, In r out -> rT r <> rT a) -> Weave inp bps out.
Proof.
  intros H Hn. inversion H as [|r r' i2 b2 o2 E1 E2 Hw|x i2 b2 o2 Hw]; subst; [exact Hw|].
  exfalso. destruct (Weave_in_inp _ _ _ a Hw (or_introl eq_refl)) as [r' [H1 [H2 _]]]. exact (Hn r' H1 H2).
Qed.
(* transfer along the row-wise equivalence between the code-shaped model and the zipper form *)
Lemma Weave_eqv i b o : Weave i b o -> forall o', rows_eqv o' o -> exists b', Weave i b' o' /\ rows_eqv b' b.
Proof.
  induction 1 as [|r r' inp bps out E1 E2 _ IH|x inp bps out _ IH]; intros o' Heq; inversion Heq as [|a y la ly Hay Hl]; subst.
  - exists []. split; constructor.
  - destruct (IH la Hl) as [b' [W Hb]]. exists b'. split; [|exact Hb]. destruct Hay as [A1 [A2 _]].
    apply W_keep; [rewrite A1; exact E1|rewrite A2; exact E2|exact W].
  - destruct (IH la Hl) as [b' [W Hb]]. exists (a :: b'). split; [apply W_ins; exact W|constructor; assumption].
Qed.

(* ---------- the specification's breakpoint list ---------- *)
Lemma Qmin_l_eq M h : M <= h -> Qmin M h = M.
Proof.
  intro H. unfold Qmin, GenericMinMax.gmin. destruct (M ?= h) eqn:E; try reflexivity.
  exfalso. apply Qgt_alt in E. lra.
Qed.
Lemma bps_from_cons M p nx r :
  bps_from M p (nx :: r) = (if qltb M (snd p) && qltb (snd nx) M then [cross_at M p nx] else []) ++ bps_from (Qmin M (snd nx)) nx r.
Proof. reflexivity. Qed.
(* rows at or above the running minimum: nothing is emitted, the minimum and only the previous point move on *)
Lemma bps_from_quiet M : forall (l : list pt) p tail, Forall (fun q => M <= snd q) l ->
  bps_from M p (l ++ tail) = bps_from M (last l p) tail.
Proof.
  induction l as [|q l IH]; intros p tail H; [reflexivity|]. inversion H as [|? ? Hq Hl]; subst.
  cbn [app]. rewrite bps_from_cons.
  assert (E : qltb (snd q) M = false) by (apply qltb_false; exact Hq). rewrite E, andb_false_r. cbn [app].
  rewrite (Qmin_l_eq M (snd q) Hq). rewrite (IH q tail Hl). f_equal.
  destruct l as [|q2 l]; [reflexivity|]. rewrite last_cons2. apply last_dflt. discriminate.
Qed.
Lemma bps_from_quiet_nil M (l : list pt) p : Forall (fun q => M <= snd q) l -> bps_from M p l = [].
Proof. intro H. rewrite <- (app_nil_r l). rewrite (bps_from_quiet M l p [] H). reflexivity. Qed.
(* a sweep continued beyond a point at which the running minimum has reached a level under everything that follows *)
Fixpoint minl (M : Q) (l : list pt) : Q := match l with [] => M | q :: r => minl (Qmin M (snd q)) r end.
Lemma minl_le_M l : forall M, minl M l <= M.
Proof. induction l as [|q l IH]; intro M; cbn [minl]; [lra|]. specialize (IH (Qmin M (snd q))). qmin. Qed.
Lemma minl_le_in l : forall M q, In q l -> minl M l <= snd q.
Proof.
  induction l as [|a l IH]; intros M q H; [destruct H|]. cbn [minl]. destruct H as [<-|H].
  - pose proof (minl_le_M l (Qmin M (snd a))). qmin.
  - apply IH. exact H.
Qed.
Lemma bps_from_app M : forall (l1 l2 : list pt) p, bps_from M p (l1 ++ l2) = bps_from M p l1 ++ bps_from (minl M l1) (last l1 p) l2.
Proof.
  revert M. intros M l1. revert M. induction l1 as [|q l1 IH]; intros M l2 p; [reflexivity|].
  cbn [app minl]. rewrite !bps_from_cons, <- app_assoc. f_equal. rewrite IH. f_equal. f_equal.
  destruct l1 as [|q2 l1]; [reflexivity|]. rewrite last_cons2. symmetry. apply last_dflt. discriminate.
Qed.

(* the crossing temperature of the sweep is the specification's *)
Lemma lin_interp_cross_at L M (pv r' : row) : M == L -> ~ rH pv == rH r' ->
  lin_interp L (rH pv) (rH r') (rT pv) (rT r') == cross_at M (ptH pv) (ptH r').
Proof.
  intros E Hn. rewrite lin_interp_eq by exact Hn. unfold cross_at, ptH. cbn [fst snd]. rewrite Qred_correct, E. field. lra.
Qed.

Section Zip.
Variables (d : bool) (tq : Q) (mk : row -> row -> Q -> row).
Hypothesis Ht : 0 < tq.
Hypothesis Hmk : mk_spec tq mk.

(* what is known of the last row before the one that closes a pocket *)
Lemma pocket_last_facts L r' rs' : forall m1 prev, Forall (above_L tq L) m1 -> above_L tq L prev -> NPH m1 -> rNP prev == rH prev ->
  mono d tq (map ptH (prev :: m1 ++ r' :: rs')) ->
  above_L tq L (last m1 prev) /\ rNP (last m1 prev) == rH (last m1 prev) /\ sgap d tq (ptH (last m1 prev)) (ptH r').
Proof.
  induction m1 as [|r1 m1 IH]; intros prev Hall Hp Hnp Ep Hm.
  - cbn [last app map] in *. destruct Hm as [G _]. repeat split; assumption.
  - inversion Hall as [|? ? Hr1 Hrs]; subst. inversion Hnp as [|? ? En1 Hnp']; subst.
    assert (El : last (r1 :: m1) prev = last m1 r1).
    { destruct m1 as [|z m1]; [reflexivity|]. rewrite last_cons2. apply last_dflt. discriminate. }
    rewrite El. apply IH; try assumption.
    change (map ptH (prev :: (r1 :: m1) ++ r' :: rs')) with (ptH prev :: map ptH (r1 :: m1 ++ r' :: rs')) in Hm.
    exact (mono_tail d tq _ _ Hm).
Qed.

(* the breakpoint of a closing pocket: none when the pocket closes on a row, else one row at the crossing temperature *)
Lemma bp_ins_T L pv r' :
  rH r' + tq <= L -> above_L tq L pv -> sgap d tq (ptH pv) (ptH r') -> rNP pv == rH pv -> rNP r' == rH r' ->
  CrossW d tq L pv r' ->
  (bp_ins tq mk L pv r' = [] /\ L == rH pv)
  \/ (exists bp, bp_ins tq mk L pv r' = [bp] /\ rT bp = lin_interp L (rH pv) (rH r') (rT pv) (rT r') /\ L + tq < rH pv).
Proof.
  intros Hr Hp G Ep Er Hc.
  assert (HnH : ~ rH pv == rH r') by (destruct Hp; lra).
  destruct (bp_ins_cases d tq mk Ht Hmk L pv r' Hr Hp G Ep Er Hc) as [[Ei EL]|[bp [Ei [B1 [B2 [G1 [G2 B3]]]]]]].
  - left. split; assumption.
  - right. exists bp. split; [exact Ei|].
    assert (Hlt : L + tq < rH pv).
    { destruct Hp as [Hp|Hp]; [|exact Hp]. exfalso.
      (* the pocket would close on the row pv itself: the crossing is pv's temperature, no room for a breakpoint *)
      assert (Es : seg (ptH pv) (ptH r') (rT pv) == rH pv).
      { apply seg_at_a; [apply (sgap_ne d tq (ptH pv) (ptH r')); [lra|exact G]|reflexivity]. }
      pose proof (sgap_ne d tq _ _ ltac:(lra) G) as Hne. cbn [ptH fst] in Hne.
      pose proof (sgap_ne d tq _ _ ltac:(lra) G1) as Hne1. cbn [ptH fst] in Hne1.
      (* seg is injective on a segment with different end values *)
      unfold seg in B3. cbn [ptH fst snd] in B3.
      assert (Hz : (rH r' - rH pv) * ((rT bp - rT pv) / (rT r' - rT pv)) == 0) by lra.
      apply Qmult_integral in Hz. destruct Hz as [Hz|Hz]; [lra|].
      unfold Qdiv in Hz. apply Qmult_integral in Hz. destruct Hz as [Hz|Hz]; [lra|].
      assert (Hi : ~ / (rT r' - rT pv) == 0).
      { intro Z. assert (Hq : (rT r' - rT pv) * / (rT r' - rT pv) == 1) by (apply Qmult_inv_r; lra). rewrite Z in Hq. lra. }
      contradiction. }
    split; [|exact Hlt].
    unfold bp_ins in Ei.
    destruct (qltb tq (Qabs (rT pv - lin_interp L (rH pv) (rH r') (rT pv) (rT r'))) && qltb tq (Qabs (rT r' - lin_interp L (rH pv) (rH r') (rT pv) (rT r')))); [|discriminate].
    inversion Ei; subst bp.
    destruct (Hmk pv r' L (sgap_abs d tq _ _ G) Ep Er HnH) as [M1 _]. exact M1.
Qed.

(* THE ROWS THE SWEEP EMITS: the rows still to visit, kept in order, with one row inserted exactly at every temperature
   the specification lists *)
Theorem zsweep_weave Ls : forall fuel cur rest M, (List.length rest <= fuel)%nat -> SidePre d tq Ls cur rest -> M == rH cur ->
  exists bps, Weave rest bps (zsweep tq mk fuel cur rest)
           /\ Forall2 (fun b t => rT b == t) bps (bps_from M (ptH cur) (map ptH rest)).
Proof.
  induction fuel as [|f IH]; intros cur rest M Hl Pre EM.
  - destruct rest; [|simpl in Hl; lia]. exists []. split; constructor.
  - destruct rest as [|r rs]; [exists []; split; constructor|]. simpl in Hl. rewrite zsweep_S.
    pose proof Pre as [P1 [P2 [P3 [P4 [P5 P6]]]]].
    destruct (qltb (rH cur) (rH r - tq)) eqn:Ep.
    + (* a pocket opens at cur *)
      apply qltb_true in Ep.
      destruct (zpocket tq mk (rH cur) cur (r :: rs)) as [out k] eqn:Ez.
      destruct P3 as [Pnw P3'].
      assert (Hcur : above_L tq (rH cur) cur) by (left; reflexivity).
      destruct (zpocket_split tq mk _ _ _ _ _ Ez) as [[K1 [K2 K3]]|[m1 [r' [rs' [K1 [K2 [K3 [K4 K5]]]]]]]]; subst k out.
      * (* it reaches the end of the side: every row flattened, nothing inserted, nothing expected *)
        exists []. split; [apply Weave_flat|].
        rewrite bps_from_quiet_nil; [constructor|].
        pose proof (NW_above tq (rH cur) (r :: rs) Pnw K3) as Hab.
        rewrite Forall_map. eapply Forall_impl; [|exact Hab]. intros a [Ha|Ha]; cbn [ptH snd]; lra.
      * rewrite K2 in *.
        assert (Pre' : SidePre d tq Ls r' rs') by (eapply SidePre_suffix; [exact Pre|reflexivity]).
        assert (Hnw1 : NW tq (rH cur) m1) by (unfold NW in *; apply Forall_app in Pnw; apply Pnw).
        assert (Hab : Forall (above_L tq (rH cur)) m1) by (apply NW_above; assumption).
        assert (Hnp1 : NPH m1) by (unfold NPH in *; apply Forall_app in P2; apply P2).
        assert (Er' : rNP r' == rH r') by apply Pre'.
        destruct (pocket_last_facts (rH cur) r' rs' m1 cur Hab Hcur Hnp1 P1 P4) as [F1 [F2 F3]].
        assert (Hc : CrossW d tq (rH cur) (last m1 cur) r').
        { assert (Hin : In (rH cur) Ls) by (inversion P6; assumption).
          assert (Hpair : Forall (fun L => CrossW d tq L (last m1 cur) r') Ls).
          { destruct (exists_last (l := cur :: m1) ltac:(discriminate)) as [pre [z Epz]].
            assert (Ez' : z = last m1 cur).
            { assert (E2 : last (cur :: m1) cur = z) by (rewrite Epz; apply last_last).
              rewrite <- E2. destruct m1 as [|y m1]; [reflexivity|]. rewrite last_cons2. apply last_dflt. discriminate. }
            subst z. apply (CrossAll_pair d tq Ls pre (last m1 cur) r' rs').
            replace (pre ++ last m1 cur :: r' :: rs') with ((pre ++ [last m1 cur]) ++ r' :: rs') by (rewrite <- app_assoc; reflexivity).
            rewrite <- Epz. exact P5. }
          rewrite Forall_forall in Hpair. apply Hpair. exact Hin. }
        assert (Hlen : (List.length rs' <= f)%nat).
        { assert (Hlen : List.length (r :: rs) = List.length (m1 ++ r' :: rs')) by (rewrite K2; reflexivity).
          rewrite app_length in Hlen. simpl in Hlen. lia. }
        assert (EM' : Qmin M (rH r') == rH r') by (qmin).
        destruct (IH r' rs' (Qmin M (rH r')) Hlen Pre' EM') as [bps' [W' B']].
        (* the specification's list along the pocket *)
        assert (Hq : Forall (fun q : pt => M <= snd q) (map ptH m1)).
        { rewrite Forall_map. eapply Forall_impl; [|exact Hab]. intros a [Ha|Ha]; cbn [ptH snd]; lra. }
        rewrite map_app. cbn [map]. rewrite (bps_from_quiet M (map ptH m1) (ptH cur) (ptH r' :: map ptH rs') Hq).
        rewrite (last_map ptH m1 cur). rewrite bps_from_cons. cbn [ptH snd].
        change (ptH r') with (rT r', rH r') in B'.
        destruct (bp_ins_T (rH cur) (last m1 cur) r' K5 F1 F3 F2 Er' Hc) as [[Ei EL]|[bp [Ei [ET EL]]]]; rewrite Ei.
        -- (* closes on a row: no breakpoint *)
           exists bps'. split.
           ++ rewrite app_nil_r. rewrite <- (app_nil_l bps'). apply Weave_app; [apply Weave_flat|]. apply W_keep; [reflexivity|reflexivity|exact W'].
           ++ assert (E1 : qltb M (rH (last m1 cur)) = false) by (apply qltb_false; lra). rewrite E1. cbn [andb app]. exact B'.
        -- (* closes strictly inside the interval: one breakpoint *)
           exists (bp :: bps'). split.
           ++ rewrite <- (app_nil_l (bp :: bps')). rewrite <- app_assoc. apply Weave_app; [apply Weave_flat|].
              cbn [app]. apply W_ins. apply W_keep; [reflexivity|reflexivity|exact W'].
           ++ assert (E1 : qltb M (rH (last m1 cur)) = true) by (apply qltb_true; lra).
              assert (E2 : qltb (rH r') M = true) by (apply qltb_true; lra).
              rewrite E1, E2. cbn [andb app]. constructor; [|exact B'].
              rewrite ET. apply (lin_interp_cross_at (rH cur) M (last m1 cur) r' EM). destruct F1; lra.
    + (* no pocket: the curve does not rise from cur to r *)
      apply qltb_false in Ep.
      destruct P3 as [Pnw P3']. inversion Pnw as [|? ? Hr _]; subst.
      assert (Hle : rH r <= rH cur) by (destruct Hr as [E|[E|E]]; lra).
      assert (Pre' : SidePre d tq Ls r rs) by (apply (SidePre_suffix d tq Ls cur (r :: rs) [] r rs Pre); reflexivity).
      assert (EM' : Qmin M (rH r) == rH r) by (qmin).
      destruct (IH r rs (Qmin M (rH r)) ltac:(lia) Pre' EM') as [bps' [W' B']].
      exists bps'. split; [apply W_keep; [reflexivity|reflexivity|exact W']|].
      cbn [map]. rewrite bps_from_cons. cbn [ptH snd].
      assert (E1 : qltb M (rH cur) = false) by (apply qltb_false; lra). rewrite E1. cbn [andb app]. exact B'.
Qed.
End Zip.

(* ---------- one side, with its shortcut (`if the first row is zero the side is left as it is`) ---------- *)
Lemma zside_weave d tq mk Ls c mu : 0 < tq -> mk_spec tq mk ->
  (qltb (rH c) tq = false -> SidePre d tq Ls c mu) -> Forall (fun r => rH r == 0 \/ tq < rH r) (c :: mu) ->
  exists bps, Weave (c :: mu) bps (zside tq mk (c :: mu))
           /\ Forall2 (fun b t => rT b == t) bps (bps_sweep (map ptH (c :: mu))).
Proof.
  intros Ht Hmk Hpre Hz. unfold zside. cbn [map bps_sweep]. destruct (qltb (rH c) tq) eqn:Eq.
  - exists []. split; [apply Weave_refl|]. apply qltb_true in Eq.
    rewrite bps_from_quiet_nil; [constructor|].
    inversion Hz as [|? ? Hc Hmu]; subst. rewrite Forall_map. eapply Forall_impl; [|exact Hmu].
    intros a Ha. cbn [ptH snd]. destruct Hc, Ha; lra.
  - destruct (zsweep_weave d tq mk Ht Hmk Ls (List.length mu) c mu (rH c) (le_n _) (Hpre eq_refl) ltac:(reflexivity)) as [bps [W B]].
    exists bps. split; [apply W_keep; [reflexivity|reflexivity|exact W]|exact B].
Qed.

(* the specification's sweep finds nothing beyond a row that lies under everything that follows *)
Lemma bps_sweep_prefix (a : pt) l1 l2 z : In z (a :: l1) -> Forall (fun q => snd z <= snd q) l2 ->
  bps_sweep ((a :: l1) ++ l2) = bps_sweep (a :: l1).
Proof.
  intros Hz Hl. cbn [app bps_sweep]. rewrite bps_from_app. rewrite (bps_from_quiet_nil _ l2); [apply app_nil_r|].
  eapply Forall_impl; [|exact Hl]. intros q Hq. cbv beta in Hq.
  assert (minl (snd a) l1 <= snd z); [|lra].
  destruct Hz as [<-|Hz]; [apply minl_le_M|apply minl_le_in; exact Hz].
Qed.
Lemma bps_sweep_all_zero (l : list pt) : Forall (fun q => snd q == 0) l -> bps_sweep l = [].
Proof.
  intros H. destruct l as [|a r]; [reflexivity|]. cbn [bps_sweep]. inversion H as [|? ? Ha Hr]; subst.
  apply bps_from_quiet_nil. eapply Forall_impl; [|exact Hr]. intros q Hq. cbv beta in Hq. lra.
Qed.
Lemma Forall2_rev' {A B} (R : A -> B -> Prop) l1 l2 : Forall2 R l1 l2 -> Forall2 R (rev l1) (rev l2).
Proof.
  induction 1 as [|x y l l' Hxy Hl IH]; [constructor|]. cbn [rev].
  apply Forall2_app; [exact IH|constructor; [exact Hxy|constructor]].
Qed.

(* THE ROWS OF THE WHOLE OUTPUT TABLE (zipper form): the input rows, in order, and one inserted row exactly at every
   temperature of the specification's list expected_bps *)
Theorem breakpoints_z tq Ts Hs : 0 < tq -> robust_b tq Ts Hs = true -> has_pinch tq Hs = true ->
  exists bps, Weave (init_rows Ts Hs) bps (gcc_np_z tq Ts Hs)
           /\ Forall2 (fun b t => rT b == t) bps (expected_bps tq Ts Hs).
Proof.
  intros Ht Hrob Hhas.
  destruct (gcc_np_zipper tq Ht Ts Hs Hrob Hhas) as [out [Eout [Heqv Tz]]].
  destruct (robust_b_P tq Ts Hs Hrob) as [Hlen [Hpos R]].
  unfold has_pinch in Hhas.
  unfold expected_bps. pose proof (zero_Ts_nonempty tq Ts Hs Hlen Hhas) as Hzne.
  destruct (zero_Ts tq Ts Hs) as [|zt zr] eqn:Ezt; [congruence|]. clear Hzne Ezt zt zr.
  rewrite <- (init_rows_ptH Ts Hs).
  unfold gcc_np_z in *. set (t0 := init_rows Ts Hs) in *.
  assert (Hl0 : List.length t0 = List.length Ts) by (apply init_rows_length; exact Hlen).
  assert (EH : map rH t0 = Hs) by (apply init_rows_rH; exact Hlen).
  assert (Hdich : Forall (fun r => rH r == 0 \/ tq < rH r) t0) by apply (rp_zero tq Hs t0 R).
  assert (Hnn : forall r, In r t0 -> 0 <= rH r).
  { intros r Hr. rewrite Forall_forall in Hdich. destruct (Hdich r Hr); lra. }
  destruct (pinch_idx tq (map rH t0)) as [[hp cp] valid] eqn:Epi.
  destruct valid; cbn [negb] in *.
  2:{ (* no valid pinch although a zero row exists: the curve is identically zero *)
    assert (Hall : forallb (isz tq) (map rH t0) = true).
    { destruct (forallb (isz tq) (map rH t0)) eqn:E; [reflexivity|].
      pose proof (pinch_idx_valid tq (map rH t0) ltac:(rewrite EH; exact Hhas) E) as Hv. rewrite Epi in Hv. discriminate. }
    assert (Hz0 : Forall (fun q : pt => snd q == 0) (map ptH t0)).
    { rewrite Forall_map. rewrite Forall_forall. intros r Hr. cbn [ptH snd].
      destruct (In_nth t0 r r0 Hr) as [j [Hj Ej]]. rewrite <- Ej.
      apply (ev_row_zero tq Ts Hs Ht R j Hj). apply forallb_nth; [exact Hall|rewrite map_length; exact Hj]. }
    exists []. split; [apply Weave_refl|].
    pose proof (bps_sweep_all_zero _ Hz0) as Z1. pose proof (bps_sweep_all_zero (rev (map ptH t0)) (Forall_rev Hz0)) as Z2.
    unfold pt in *. rewrite Z1, Z2. constructor. }
  assert (PF : PinchFacts tq (map rH t0) hp cp) by (apply pinch_idx_facts; [rewrite EH; exact Hhas|exact Epi]).
  pose proof (pf_le _ _ _ _ PF) as Hle. pose proof (pf_lt _ _ _ _ PF) as Hlt. rewrite map_length in Hlt.
  set (above := firstn (S hp) t0) in *. set (midr := firstn (cp - S hp) (skipn (S hp) t0)) in *. set (below := skipn cp t0) in *.
  set (ph := nth hp t0 r0). set (pc := nth cp t0 r0).
  assert (Habove : exists c0 mu, above = c0 :: mu).
  { unfold above. destruct t0 as [|y t0']; [simpl in Hlt; lia|]. exists y, (firstn hp t0'). reflexivity. }
  destruct Habove as [c0 [mu Eab]].
  assert (Hbelow : exists cl md, rev below = cl :: md).
  { unfold below. rewrite (skipn_nth_cons t0 cp r0 Hlt). cbn [rev].
    destruct (rev (skipn (S cp) t0)) as [|y l]; [exists (nth cp t0 r0), []; reflexivity|exists y, (l ++ [nth cp t0 r0]); reflexivity]. }
  destruct Hbelow as [cl [md Ebl]].
  pose proof (side_up_pre tq Ht Hs t0 hp cp R PF c0 mu Eab) as Hup.
  pose proof (side_dn_pre tq Ht Hs t0 hp cp R PF cl md Ebl) as Hdn.
  destruct (zside_last tq (mk_up tq) c0 mu (fun H => proj2 (Hup H))) as [X [EX _]].
  assert (Elast_up : last (c0 :: mu) c0 = ph).
  { rewrite <- Eab. unfold above, ph. rewrite (firstn_S_snoc t0 hp r0) by lia. apply last_last. }
  rewrite Elast_up in EX. rewrite <- Eab in EX.
  destruct (zside_last tq (mk_dn tq) cl md (fun H => proj2 (Hdn H))) as [Y [EY _]].
  assert (Elast_dn : last (cl :: md) cl = pc).
  { rewrite <- Ebl. unfold below, pc. rewrite (skipn_nth_cons t0 cp r0 Hlt). cbn [rev]. apply last_last. }
  rewrite Elast_dn in EY. rewrite <- Ebl in EY.
  assert (Edn : rev (zside tq (mk_dn tq) (rev below)) = pc :: rev Y) by (rewrite EY, rev_app_distr; reflexivity).
  assert (Eb1 : below = pc :: skipn (S cp) t0) by (unfold below, pc; apply skipn_nth_cons; exact Hlt).
  assert (Ea1 : above = firstn hp t0 ++ [ph]) by (unfold above, ph; apply firstn_S_snoc; lia).
  assert (Zph : rH ph == 0) by (apply (ev_ph_zero tq Ts Hs Ht Hlen R hp cp PF)).
  assert (Zpc : rH pc == 0) by (apply (ev_pc_zero tq Ts Hs Ht Hlen R hp cp PF)).
  assert (Hin_above : forall r, In r above -> In r t0) by (intros r Hr; rewrite <- (firstn_skipn (S hp) t0); apply in_or_app; left; exact Hr).
  assert (Hin_below : forall r, In r below -> In r t0) by (intros r Hr; rewrite <- (firstn_skipn cp t0); apply in_or_app; right; exact Hr).
  (* the two sides *)
  destruct (zside_weave true tq (mk_up tq) Hs c0 mu Ht (mk_up_spec tq ltac:(lra)) (fun H => proj1 (Hup H))) as [bu [Wu Bu]].
  { rewrite <- Eab. rewrite Forall_forall in *. intros r Hr. apply Hdich. apply Hin_above. exact Hr. }
  destruct (zside_weave false tq (mk_dn tq) Hs cl md Ht (mk_dn_spec tq ltac:(lra)) (fun H => proj1 (Hdn H))) as [bd [Wd Bd]].
  { rewrite <- Ebl. rewrite Forall_forall in *. intros r Hr. apply Hdich. apply Hin_below. apply in_rev. exact Hr. }
  rewrite <- Eab in Wu, Bu. rewrite <- Ebl in Wd, Bd.
  apply Weave_rev in Wd. rewrite rev_involutive in Wd.
  (* the specification's two sweeps find nothing beyond the pinch rows *)
  assert (Eup : bps_sweep (map ptH t0) = bps_sweep (map ptH above)).
  { rewrite <- (firstn_skipn (S hp) t0) at 1. fold above. rewrite map_app. rewrite Eab. cbn [map].
    apply (bps_sweep_prefix (ptH c0) (map ptH mu) _ (ptH ph)).
    - change (ptH c0 :: map ptH mu) with (map ptH (c0 :: mu)). apply in_map. rewrite <- Eab, Ea1. apply in_or_app. right. left. reflexivity.
    - rewrite Forall_map. rewrite Forall_forall. intros r Hr. cbn [ptH snd]. rewrite Zph. apply Hnn.
      rewrite <- (firstn_skipn (S hp) t0). apply in_or_app. right. exact Hr. }
  assert (Edw : bps_sweep (rev (map ptH t0)) = bps_sweep (map ptH (rev below))).
  { rewrite <- map_rev. rewrite <- (firstn_skipn cp t0) at 1. fold below. rewrite rev_app_distr, map_app. rewrite Ebl. cbn [map].
    apply (bps_sweep_prefix (ptH cl) (map ptH md) _ (ptH pc)).
    - change (ptH cl :: map ptH md) with (map ptH (cl :: md)). apply in_map. rewrite <- Ebl, Eb1. cbn [rev]. apply in_or_app. right. left. reflexivity.
    - rewrite Forall_map. rewrite Forall_forall. intros r Hr. cbn [ptH snd]. rewrite Zpc. apply Hnn.
      rewrite <- (firstn_skipn cp t0). apply in_or_app. left. apply in_rev. exact Hr. }
  unfold pt in *. rewrite Eup, Edw.
  exists (bu ++ rev bd). split; [|apply Forall2_app; [exact Bu|apply Forall2_rev'; exact Bd]].
  destruct (hp <? cp)%nat eqn:E2.
  - apply Nat.ltb_lt in E2.
    assert (E0 : t0 = above ++ midr ++ below).
    { unfold above, midr, below. rewrite <- (firstn_skipn (S hp) t0) at 1. f_equal.
      rewrite <- (firstn_skipn (cp - S hp) (skipn (S hp) t0)) at 1. f_equal.
      rewrite skipn_skipn'. f_equal. lia. }
    rewrite E0 at 1. apply Weave_app; [exact Wu|]. change (rev bd) with ([] ++ rev bd). apply Weave_app; [apply Weave_flat|exact Wd].
  - apply Nat.ltb_ge in E2. assert (Ehc : hp = cp) by lia.
    assert (Em : midr = []) by (unfold midr; replace (cp - S hp)%nat with 0%nat by lia; reflexivity).
    rewrite Em. cbn [map app].
    rewrite <- (firstn_skipn (S hp) t0) at 1. fold above. apply Weave_app; [exact Wu|].
    rewrite Edn in *. cbn [List.tl]. rewrite Eb1 in Wd. rewrite Ehc.
    apply (Weave_hd_inv pc _ _ pc _ Wd).
    (* no later row has the pinch row's temperature: the output is strictly descending *)
    intros r Hr.
    assert (Eph : ph = pc) by (unfold ph, pc; rewrite Ehc; reflexivity).
    assert (Ez : map ptH (zside tq (mk_up tq) above ++ rev Y) = map ptH X ++ ptH pc :: map ptH (rev Y)).
    { rewrite EX, Eph, !map_app. cbn [map]. rewrite <- app_assoc. reflexivity. }
    rewrite Em in Tz. cbn [map app List.tl] in Tz. unfold Tdesc in Tz. rewrite Ez in Tz. apply mono_app_r in Tz.
    apply mono_head in Tz; [|lra]. rewrite Forall_forall in Tz. specialize (Tz (ptH r) (in_map ptH _ _ Hr)).
    cbn [sltP ptH fst] in Tz. intro E. rewrite E in Tz. lra.
Qed.

(* ---------- the code-shaped model ---------- *)
Section BreakpointResults.
Variables (tq : Q) (Ts Hs : list Q) (out : list row).
Hypothesis Ht : 0 < tq.
Hypothesis Hrob : robust_b tq Ts Hs = true.
Hypothesis Hhas : has_pinch tq Hs = true.
Hypothesis Hout : gcc_np tq Ts Hs = Ok out.

(* a breakpoint exists exactly where a pocket closes strictly inside an interval, and no other rows are added *)
Theorem breakpoints : exists bps, Weave (init_rows Ts Hs) bps out /\ Forall2 (fun b t => rT b == t) bps (expected_bps tq Ts Hs).
Proof.
  destruct (res_eqv tq Ts Hs out Ht Hrob Hhas Hout) as [Heq _].
  destruct (breakpoints_z tq Ts Hs Ht Hrob Hhas) as [bz [Wz Bz]].
  destruct (Weave_eqv _ _ _ Wz out Heq) as [b' [W' Hb]].
  exists b'. split; [exact W'|].
  clear - Hb Bz. revert Bz. generalize (expected_bps tq Ts Hs). induction Hb as [|x y lx ly Hxy _ IH]; intros l Bz; inversion Bz; subst; constructor.
  - destruct Hxy as [E _]. rewrite E. assumption.
  - apply IH. assumption.
Qed.

(* the number of rows added is the number of intervals in which a pocket closes *)
Theorem rows_added : List.length out = (List.length Ts + List.length (expected_bps tq Ts Hs))%nat.
Proof.
  destruct breakpoints as [bps [W B]]. rewrite (Weave_length _ _ _ W).
  destruct (robust_b_P tq Ts Hs Hrob) as [Hlen _]. rewrite (init_rows_length Ts Hs Hlen). f_equal.
  clear - B. induction B; simpl; congruence.
Qed.

(* every row of the output lies on the input curve: kept rows and inserted rows alike carry the interpolated H_net *)
Theorem rows_on_curve r : In r out -> rH r == gcc_at Ts Hs (rT r).
Proof.
  intros Hin. destruct (res_eqv tq Ts Hs out Ht Hrob Hhas Hout) as [Heq Tz].
  destruct (Forall2_in_l _ _ _ _ Heq Hin) as [r' [Hin' [E1 [E2 _]]]].
  rewrite E2, E1.
  apply in_split in Hin'. destruct Hin' as [l1 [l2 Ez]].
  pose proof Tz as Hm. unfold Tdesc in Hm.
  rewrite <- (curve_unchanged_z tq Ts Hs Ht Hrob Hhas (rT r')).
  - rewrite Ez in *. rewrite map_app in *. cbn [map] in *. symmetry.
    apply (plw_at_point true tq (map ptH l1) (ptH r') (map ptH l2)); [lra|exact Hm].
  - destruct (gcc_np_z_ends tq Ts Hs Ht Hrob Hhas) as [G1 G2]. cbv zeta in G1, G2.
    destruct (robust_b_P tq Ts Hs Hrob) as [Hlen [Hpos R]].
    destruct (gcc_np_z tq Ts Hs) as [|a zl] eqn:Egz; [destruct l1; discriminate|].
    cbn [map] in Hm. pose proof (mono_bounds tq (ptH a) (map ptH zl) ltac:(lra) Hm (ptH r')) as Hb.
    assert (Hinr : In (ptH r') (ptH a :: map ptH zl)).
    { change (ptH a :: map ptH zl) with (map ptH (a :: zl)). apply in_map. rewrite Ez. apply in_or_app. right. left. reflexivity. }
    specialize (Hb Hinr). cbn [ptH fst] in Hb.
    change (ptH a :: map ptH zl) with (map ptH (a :: zl)) in Hb. rewrite (last_map ptH) in Hb. cbn [ptH fst] in Hb.
    rewrite (last_dflt (a :: zl) a r0) in Hb by discriminate. rewrite G2 in Hb. simpl in G1. rewrite G1 in Hb.
    rewrite (init_rows_T0 Ts Hs Hlen) in Hb. rewrite (init_rows_Tlast Ts Hs Hlen Hpos) in Hb. exact Hb.
Qed.
End BreakpointResults.

(* ---------- the specification's crossing temperature is THE point of the interval at which the curve takes the level ---------- *)
Lemma cross_at_on_segment M (a b : pt) : ~ fst b == fst a -> ~ snd b == snd a -> seg a b (cross_at M a b) == M.
Proof. intros Hf Hs. unfold cross_at, seg. rewrite Qred_correct. field. split; lra. Qed.
Lemma cross_at_unique M (a b : pt) t : ~ fst b == fst a -> ~ snd b == snd a -> seg a b t == M -> t == cross_at M a b.
Proof.
  intros Hf Hs H. unfold cross_at. rewrite Qred_correct. unfold seg in H.
  set (k := (t - fst a) / (fst b - fst a)) in *.
  assert (Ek : k == (M - snd a) / (snd b - snd a)).
  { assert (E : (snd b - snd a) * k == M - snd a) by lra. rewrite <- E. field. lra. }
  assert (Et : t == fst a + k * (fst b - fst a)) by (unfold k; field; lra).
  rewrite Et, Ek. field. split; lra.
Qed.

(* non-vacuity: on the D2 witness curve (8 rows) the specification lists three breakpoints, the three rows the model inserts *)
From OP Require Import proofs.PocketsExamples.
Example d2_expected_bps : expected_bps tol d2_T d2_H = [500 # 3; 130; 280 # 3] /\ List.length d2_T = 8%nat.
Proof. vm_compute. split; reflexivity. Qed.
