(* C02 / C09 on the model: sums over zones and the site utility cascade. *)
From OP Require Import gen.Consts model.Base model.Stream model.Cascade model.CascadeE2E model.Site
  proofs.BaseFacts proofs.CascadeSpec proofs.CascadeExact proofs.CascadeTargets proofs.CascadeGrid.
From Coq Require Import Lqa Lia.
Local Open Scope Q_scope.
Local Arguments Qred : simpl never.

Lemma duty_app a b : duty (a ++ b) == duty a + duty b.
Proof. induction a as [|s a IH]; simpl; [ring|]. rewrite IH. ring. Qed.
Lemma heat_above_app a b T : heat_above (a ++ b) T == heat_above a T + heat_above b T.
Proof. induction a as [|s a IH]; simpl; [ring|]. rewrite IH. ring. Qed.

(* a zone: its hot streams, cold streams and a reported (Qh, Qc, Qr) *)
Record zrec := mkZ { z_hot : list view; z_cold : list view; z_qh : Q; z_qc : Q; z_qr : Q }.
Definition balanced (hot cold : list view) (qh qc qr : Q) : Prop :=
  qh - qc == duty cold - duty hot /\ qr == duty hot - qc.
Definition all_hot (zs : list zrec) : list view := flat_map z_hot zs.
Definition all_cold (zs : list zrec) : list view := flat_map z_cold zs.
Definition sumf (f : zrec -> Q) (zs : list zrec) : Q := fold_right (fun z a => f z + a) 0 zs.

(* the total-process record (sum of balanced zonal records) is balanced for the union of the zones' streams *)
Theorem sum_of_balanced_is_balanced zs :
  Forall (fun z => balanced (z_hot z) (z_cold z) (z_qh z) (z_qc z) (z_qr z)) zs ->
  balanced (all_hot zs) (all_cold zs) (sumf z_qh zs) (sumf z_qc zs) (sumf z_qr zs).
Proof.
  unfold balanced. induction zs as [|z zs IH]; intro F; simpl; [split; ring|].
  inversion F as [|? ? [B1 B2] F']; subst. destruct (IH F') as [I1 I2].
  unfold all_hot, all_cold in *. simpl. rewrite !duty_app. split; lra.
Qed.

Section SiteCascade.
Variable w : Q.
Hypothesis w_pos : 0 < w.
Variables hu cu : list view.        (* hot and cold utilities carrying the summed zonal duties *)
Hypothesis Wh : wfs hu.
Hypothesis Wc : wfs cu.
Variable g : list Q.
Hypothesis Hd : desc g.
Hypothesis Hne : g <> [].
Hypothesis Hcov : covers g (eps_all hu cu).
Hypothesis Hgap : gaps_ok w 0 g.
Let z_le : 0 <= 0. Proof. lra. Qed.
Let p := pta w hu cu g.
Let h := pHn p.
Let mx := match h with [] => 0 | x :: l => qmax_list x l end.
(* net utility heat released above T *)
Definition U (T : Q) : Q := heat_above hu T - heat_above cu T.

Lemma h_rows i T hn : nth_error (pT p) i = Some T -> nth_error h i = Some hn -> hn == Qh_of p + U T /\ 0 <= hn.
Proof.
  intros ET En.
  assert (L : List.length (pT p) = List.length (pHh p) /\ List.length (pT p) = List.length (pHc p)).
  { unfold p, pta. cbn [pT pHh pHc]. rewrite !map_length. split; reflexivity. }
  destruct L as [L1 L2].
  assert (Hi : (i < List.length (pT p))%nat) by (apply nth_error_Some; congruence).
  destruct (nth_error (pHh p) i) as [hh|] eqn:Eh; [|apply nth_error_None in Eh; lia].
  destruct (nth_error (pHc p) i) as [hc|] eqn:Ec; [|apply nth_error_None in Ec; lia].
  destruct (curves_exact w 0 z_le w_pos hu cu hu cu (nearv_refl hu) (nearv_refl cu) Wh Wc g Hd Hne Hcov Hgap i T hh hc hn ET Eh Ec En) as [_ [_ [_ [A B]]]].
  split; [|exact B]. rewrite A. unfold U, Dnet, p. lra.
Qed.

Lemma h_ne : h <> [].
Proof. unfold h, p, pta. cbn [pHn]. intro E. apply map_eq_nil in E. apply map_eq_nil in E.
  pose proof (raw_rows_T w hu cu g) as T. rewrite E in T. simpl in T. symmetry in T. contradiction. Qed.

Lemma mx_ge x : In x h -> x <= mx.
Proof.
  unfold mx. destruct h as [|a t] eqn:E; [intros []|]. intros [K|K]; [subst; apply qmax_list_ge_acc|apply qmax_list_ge; exact K].
Qed.
Lemma mx_in : exists x, In x h /\ mx == x.
Proof.
  unfold mx. pose proof h_ne as N. destruct h as [|a t] eqn:E; [contradiction|].
  destruct (qmax_list_attained t a) as [K|[y [Hy K]]]; [exists a; split; [left; reflexivity|exact K]|exists y; split; [right; exact Hy|exact K]].
Qed.

Lemma hd_h : hd 0 h == Qh_of p. Proof. reflexivity. Qed.
Lemma last_h : lastq h == Qc_of p. Proof. reflexivity. Qed.

Lemma site_Qh_eq : site_Qh w hu cu g == mx - Qh_of p.
Proof.
  unfold site_Qh, site_hnet_ut. fold p. fold h. fold mx. pose proof h_ne as N. destruct h as [|a t] eqn:E; [contradiction|].
  cbn [map hd]. rewrite rsub_eq. unfold Qh_of. fold h. rewrite E. reflexivity.
Qed.
Lemma site_Qc_eq : site_Qc w hu cu g == mx - Qc_of p.
Proof.
  unfold site_Qc, site_hnet_ut. fold p. fold h. fold mx. rewrite (last_map_ne (fun x => rsub mx x) h 0 h_ne).
  rewrite rsub_eq. unfold Qc_of, lastq. fold h. reflexivity.
Qed.

(* C02: the two ends of the site utility cascade differ by the net utility duty, whatever the duties are *)
Theorem site_cascade_ends : site_Qh w hu cu g - site_Qc w hu cu g == duty hu - duty cu.
Proof.
  rewrite site_Qh_eq, site_Qc_eq.
  pose proof (Qc_balance w 0 z_le w_pos hu cu hu cu (nearv_refl hu) (nearv_refl cu) Wh Wc g Hd Hne Hcov Hgap) as B. fold p in B. lra.
Qed.

Lemma In_h_row x : In x h -> exists i T, nth_error (pT p) i = Some T /\ nth_error h i = Some x.
Proof.
  intro Hx. destruct (In_nth_error _ _ Hx) as [i Hi]. exists i.
  assert (L : List.length (pT p) = List.length h) by (unfold h, p, pta; cbn [pT pHn]; rewrite !map_length; reflexivity).
  assert (Hl : (i < List.length h)%nat) by (apply nth_error_Some; congruence).
  destruct (nth_error (pT p) i) as [T|] eqn:ET; [|apply nth_error_None in ET; lia]. exists T. split; [reflexivity|exact Hi].
Qed.

Theorem site_targets_nonneg : 0 <= site_Qh w hu cu g /\ 0 <= site_Qc w hu cu g.
Proof.
  rewrite site_Qh_eq, site_Qc_eq. pose proof h_ne as N. split.
  - assert (In (hd 0 h) h) by (destruct h; [contradiction|left; reflexivity]). pose proof (mx_ge _ H). unfold Qh_of. fold h. lra.
  - assert (In (lastq h) h) by (apply last_in; exact N). pose proof (mx_ge _ H). unfold Qc_of. fold h. lra.
Qed.

(* C09: indirect integration can only help: total-site targets never exceed the total utility duties
   (= the sum of the zonal targets when every zone's utilities sum to its targets) *)
Theorem site_targets_le_duties : site_Qh w hu cu g <= duty hu /\ site_Qc w hu cu g <= duty cu.
Proof.
  destruct mx_in as [x [Hx Ex]]. destruct (In_h_row x Hx) as [i [T [ET En]]]. destruct (h_rows i T x ET En) as [A _].
  assert (Q1 : site_Qh w hu cu g == U T) by (rewrite site_Qh_eq, Ex, A; ring).
  pose proof site_cascade_ends as CE. unfold U in *.
  pose proof (heat_above_le_duty hu T Wh). pose proof (heat_above_nonneg cu T Wc).
  pose proof (heat_above_le_duty cu T Wc). pose proof (heat_above_nonneg hu T Wh). split; lra.
Qed.

(* C09 lower bound: if at every temperature the utilities release at least the site's net deficit above it
   (feasibility of every zone's utility profile, summed over the partition), the total-site hot utility target is
   at least the site's own direct-integration target (and symmetrically the cold one, through the balances) *)
Theorem site_Qh_ge_direct hotS coldS :
  (forall T, Dnet hotS coldS T <= U T) -> forall T, Dnet hotS coldS T <= site_Qh w hu cu g.
Proof.
  intros F T. eapply Qle_trans; [apply F|].
  assert (Cv : covers g (eps_all cu hu)).
  { intros e He. apply Hcov. unfold eps_all in *. apply in_app_or in He. apply in_or_app. tauto. }
  assert (UD : forall T0, U T0 == Dnet cu hu T0) by (intro; unfold U, Dnet; reflexivity).
  assert (G : forall T', In T' g -> U T' <= site_Qh w hu cu g).
  { intros T' HT'. rewrite site_Qh_eq.
    assert (HTp : In T' (pT p)) by (unfold p, pta; cbn [pT]; rewrite raw_rows_T; exact HT').
    destruct (In_nth_error _ _ HTp) as [i Hi].
    assert (L : List.length (pT p) = List.length h) by (unfold h, p, pta; cbn [pT pHn]; rewrite !map_length; reflexivity).
    assert (Hl : (i < List.length (pT p))%nat) by (apply nth_error_Some; congruence).
    destruct (nth_error h i) as [x|] eqn:En; [|apply nth_error_None in En; lia].
    destruct (h_rows i T' x Hi En) as [A _]. pose proof (mx_ge x (nth_error_In _ _ En)). lra. }
  destruct (sup_on_grid cu hu Wc Wh g Hd Hne Cv T) as [K|[T' [HT' K]]].
  - change (Dnet cu hu T) with (U T) in K. destruct site_targets_nonneg as [P _]. lra.
  - change (Dnet cu hu T) with (U T) in K. change (Dnet cu hu T') with (U T') in K. pose proof (G T' HT'). lra.
Qed.
End SiteCascade.

(* C09: heat-recovery identity of the total-site record (definitional in the code, stated for completeness) *)
Theorem site_Qr_identity sum_qr sum_qh qh_ts : site_Qr sum_qr sum_qh qh_ts == sum_qr + (sum_qh - qh_ts).
Proof. unfold site_Qr. rewrite radd_eq, rsub_eq. reflexivity. Qed.

(* C02 for the total-site record: if every zone is balanced, its utilities sum to its targets (C03), and the site utility
   streams carry those sums, then the total-site record closes the balance of all site streams *)
Theorem site_record_balanced hot cold sqh sqc sqr qh_ts qc_ts dhu dcu :
  balanced hot cold sqh sqc sqr -> dhu == sqh -> dcu == sqc -> qh_ts - qc_ts == dhu - dcu ->
  balanced hot cold qh_ts qc_ts (site_Qr sqr sqh qh_ts).
Proof. unfold balanced. intros [B1 B2] E1 E2 E3. rewrite site_Qr_identity. split; lra. Qed.

Theorem di_balanced hot cold extra : wfs hot -> wfs cold -> hot ++ cold <> [] ->
  on_lattice (endpoints (hot ++ cold ++ extra)) ->
  gaps_b act_window (grid_of (endpoints (hot ++ cold ++ extra))) = true ->
  let p := stage_model act_window hot cold extra in
  balanced hot cold (Qh_of p) (Qc_of p) (Qr_of p) /\ 0 <= Qh_of p /\ 0 <= Qc_of p /\ 0 <= Qr_of p.
Proof.
  intros H H0 H1 H2 H3 p. destruct (stage_balance hot cold extra H H0 H1 H2 H3) as [A [B C]].
  fold p in A, B, C. unfold balanced. repeat split; try apply C; lra.
Qed.
