(* The model's own grid (sorted, duplicate-free, 6-decimal rounding) satisfies the hypotheses of the exactness theorems
   for inputs on the rounding lattice; instantiation at the generated window constant. *)
From OP Require Import gen.Consts model.Base model.Cascade proofs.BaseFacts proofs.CascadeSpec proofs.CascadeExact proofs.CascadeTargets.
From Coq Require Import Lqa Lia.
Local Open Scope Q_scope.

Definition on_lattice (es : list Q) : Prop := Forall (fun e => round_dp grid_round_dp e == e) es.

Lemma grid_of_desc es : desc (grid_of es).
Proof. unfold grid_of. apply (sorted_of_desc (map (round_dp grid_round_dp) es)). Qed.
Lemma grid_of_covers es : on_lattice es -> covers (grid_of es) es.
Proof.
  intros L e He. unfold on_lattice in L. rewrite Forall_forall in L. specialize (L e He).
  destruct (sorted_of_has (map (round_dp grid_round_dp) es) (round_dp grid_round_dp e) ltac:(apply in_map; exact He)) as [z [Hz Ez]].
  exists z. split; [exact Hz|]. rewrite Ez. exact L.
Qed.
Lemma grid_of_ne es : es <> [] -> grid_of es <> [].
Proof.
  destruct es as [|e es']; [contradiction|]. intros _ E.
  destruct (sorted_of_has (map (round_dp grid_round_dp) (e :: es')) (round_dp grid_round_dp e) ltac:(left; reflexivity)) as [z [Hz _]].
  unfold grid_of in E. unfold sorted_of in Hz. rewrite E in Hz. destruct Hz.
Qed.

Lemma window_pos : 0 < act_window.
Proof. unfold act_window. reflexivity. Qed.

(* decidable form of the Robust hypothesis *)
Fixpoint gaps_b (w : Q) (l : list Q) : bool :=
  match l with a :: ((b :: _) as t) => qltb (b + w) a && gaps_b w t | _ => true end.
Lemma gaps_b_ok w l : gaps_b w l = true -> gaps_ok w l.
Proof.
  induction l as [|a t IH]; simpl; [auto|]. destruct t as [|b t'].
  - intros _. split; [exact I|exact I].
  - rewrite andb_true_iff, qltb_true. intros [H1 H2]. split; [exact H1|apply IH; exact H2].
Qed.

Section Stage.
Variables hot cold extra : list view.
Hypothesis Wh : wfs hot.
Hypothesis Wc : wfs cold.
Hypothesis Hne : hot ++ cold <> [].
Let es := endpoints (hot ++ cold ++ extra).
Hypothesis Hlat : on_lattice es.
Hypothesis Hrob : gaps_b act_window (grid_of es) = true.
Let p := stage_model act_window hot cold extra.

Lemma es_ne : es <> [].
Proof. unfold es. destruct hot as [|s ?]; [destruct cold as [|s' ?]; [exfalso; apply Hne; reflexivity|]|]; simpl; discriminate. Qed.
Lemma stage_covers : covers (grid_of es) (eps_all hot cold).
Proof.
  intros e He. apply grid_of_covers; [exact Hlat|]. unfold es, endpoints, eps_all, endpoints in *.
  rewrite !flat_map_app. apply in_app_or in He. destruct He as [He|He]; apply in_or_app; [left; exact He|right; apply in_or_app; left; exact He].
Qed.

Theorem stage_targets_exact :
  Qh_of p == Qh_star hot cold /\ Qc_of p == Qc_star hot cold /\ Qr_of p == Qr_star hot cold.
Proof.
  pose proof (gaps_b_ok _ _ Hrob) as G.
  repeat split; symmetry; [apply Qh_star_eq|apply Qc_star_eq|apply Qr_star_eq];
    try exact window_pos; try assumption; try apply grid_of_desc; try (apply grid_of_ne; apply es_ne); try apply stage_covers.
Qed.

Theorem stage_Qh_is_sup :
  (forall T, Dnet hot cold T <= Qh_of p) /\ (exists T, In T (grid_of es) /\ Dnet hot cold T == Qh_of p).
Proof.
  pose proof (gaps_b_ok _ _ Hrob) as G.
  apply Qh_is_sup; try exact window_pos; try assumption; try apply grid_of_desc; try (apply grid_of_ne; apply es_ne); try apply stage_covers.
Qed.

Theorem stage_balance :
  Qc_of p == Qh_of p - duty cold + duty hot /\ Qr_of p == duty hot - Qc_of p /\ 0 <= Qh_of p /\ 0 <= Qc_of p /\ 0 <= Qr_of p.
Proof.
  pose proof (gaps_b_ok _ _ Hrob) as G.
  split; [|split].
  - apply Qc_balance; try exact window_pos; try assumption; try apply grid_of_desc; try (apply grid_of_ne; apply es_ne); try apply stage_covers.
  - apply Qr_balance; try exact window_pos; try assumption; try apply grid_of_desc; try (apply grid_of_ne; apply es_ne); try apply stage_covers.
  - apply targets_nonneg; try exact window_pos; try assumption; try apply grid_of_desc; try (apply grid_of_ne; apply es_ne); try apply stage_covers.
Qed.

Theorem stage_curves_exact i T hh hc hn :
  nth_error (pT p) i = Some T -> nth_error (pHh p) i = Some hh -> nth_error (pHc p) i = Some hc -> nth_error (pHn p) i = Some hn ->
  hh == heat_below hot T /\ hc == Qc_of p + heat_below cold T /\ hn == hc - hh /\ hn == Qh_of p - Dnet hot cold T /\ 0 <= hn.
Proof.
  pose proof (gaps_b_ok _ _ Hrob) as G.
  apply curves_exact; try exact window_pos; try assumption; try apply grid_of_desc; try (apply grid_of_ne; apply es_ne); try apply stage_covers.
Qed.
Theorem stage_net_touches_zero : exists i hn, nth_error (pHn p) i = Some hn /\ hn == 0.
Proof.
  pose proof (gaps_b_ok _ _ Hrob) as G.
  apply net_touches_zero; try exact window_pos; try assumption; try apply grid_of_desc; try (apply grid_of_ne; apply es_ne); try apply stage_covers.
Qed.
Theorem stage_spans_exact : hd 0 (pHh p) == duty hot /\ lastq (pHh p) == 0 /\ hd 0 (pHc p) - lastq (pHc p) == duty cold.
Proof.
  pose proof (gaps_b_ok _ _ Hrob) as G.
  apply spans_exact; try exact window_pos; try assumption; try apply grid_of_desc; try (apply grid_of_ne; apply es_ne); try apply stage_covers.
Qed.
End Stage.

(* non-vacuity: the classic four-stream problem on the shifted scale satisfies every hypothesis; Qh = 20, Qc = 60 *)
Definition ex_hot : list view := [mkV 35 245 (3#20); mkV 75 195 (1#4)].
Definition ex_cold : list view := [mkV 25 185 (1#5); mkV 145 235 (2#5)].
Example ex_hyps : gaps_b act_window (grid_of (endpoints (ex_hot ++ ex_cold ++ []))) = true
  /\ forallb (fun e => qeqb (round_dp grid_round_dp e) e) (endpoints (ex_hot ++ ex_cold ++ [])) = true.
Proof. vm_compute. split; reflexivity. Qed.
Example ex_values : (Qh_of (stage_model act_window ex_hot ex_cold []), Qc_of (stage_model act_window ex_hot ex_cold []),
                     Qh_star ex_hot ex_cold, Qc_star ex_hot ex_cold) = (33 # 2, 10, 33 # 2, 10).
Proof. vm_compute. reflexivity. Qed.

(* D44: without the Robust hypothesis the statement is false of the faithful model: a stream narrower than the window *)
Definition narrow_cold : list view := [mkV 100 (100 + (4 # 1000000)) 2500000].
Definition narrow_hot : list view := [mkV 150 200 1].
Lemma window_refuted :
  Qc_of (stage_model act_window narrow_hot narrow_cold []) == 50 /\ Qc_star narrow_hot narrow_cold == 40
  /\ gaps_b act_window (grid_of (endpoints (narrow_hot ++ narrow_cold ++ []))) = false.
Proof. vm_compute. repeat split; reflexivity. Qed.
