(* The model's own grid (sorted, duplicate-free, 6-decimal rounding) satisfies the hypotheses of the exactness theorems
   for inputs on the rounding lattice; instantiation at the generated window constant. *)
From OP Require Import gen.Consts model.Base model.Cascade proofs.BaseFacts proofs.CascadeSpec proofs.CascadeExact proofs.CascadeTargets.
From Coq Require Import Lqa Lia.
Local Open Scope Q_scope.

Definition on_lattice (es : list Q) : Prop := Forall (fun e => round_dp grid_round_dp e == e) es.

Lemma grid_of_desc es : desc (grid_of es).
Proof. unfold grid_of. apply (sorted_of_desc (map (round_dp grid_round_dp) es)). Qed.
Lemma grid_of_covers es : on_lattice es -> covers (grid_of es) es.
Proof.
  intros L e He. unfold on_lattice in L. rewrite Forall_forall in L. specialize (L e He).
  destruct (sorted_of_has (map (round_dp grid_round_dp) es) (round_dp grid_round_dp e) ltac:(apply in_map; exact He)) as [z [Hz Ez]].
  exists z. split; [exact Hz|]. rewrite Ez. exact L.
Qed.
Lemma grid_of_ne es : es <> [] -> grid_of es <> [].
Proof.
  destruct es as [|e es']; [contradiction|]. intros _ E.
  destruct (sorted_of_has (map (round_dp grid_round_dp) (e :: es')) (round_dp grid_round_dp e) ltac:(left; reflexivity)) as [z [Hz _]].
  unfold grid_of in E. unfold sorted_of in Hz. rewrite E in Hz. destruct Hz.
Qed.

Lemma window_pos : 0 < act_window.
Proof. unfold act_window. reflexivity. Qed.
Lemma Qle_refl0 : 0 <= 0. Proof. lra. Qed.

(* decidable form of the Robust hypothesis *)
Fixpoint gaps_b (w : Q) (l : list Q) : bool :=
  match l with a :: ((b :: _) as t) => qltb (b + w) a && gaps_b w t | _ => true end.
Lemma gaps_b_ok w l : gaps_b w l = true -> gaps_ok w 0 l.
Proof.
  induction l as [|a t IH]; simpl; [auto|]. destruct t as [|b t'].
  - intros _. split; [exact I|exact I].
  - rewrite andb_true_iff, qltb_true. intros [H1 H2]. split; [lra|apply IH; exact H2].
Qed.
Lemma gaps_b_ok_d w d l : gaps_b (w + d) l = true -> gaps_ok w d l.
Proof.
  induction l as [|a t IH]; simpl; [auto|]. destruct t as [|b t'].
  - intros _. split; [exact I|exact I].
  - rewrite andb_true_iff, qltb_true. intros [H1 H2]. split; [lra|apply IH; exact H2].
Qed.

Section Stage.
Variables hot cold extra : list view.
Hypothesis Wh : wfs hot.
Hypothesis Wc : wfs cold.
Hypothesis Hne : hot ++ cold <> [].
Let es := endpoints (hot ++ cold ++ extra).
Hypothesis Hlat : on_lattice es.
Hypothesis Hrob : gaps_b act_window (grid_of es) = true.
Let p := stage_model act_window hot cold extra.

Lemma es_ne : es <> [].
Proof. unfold es. destruct hot as [|s ?]; [destruct cold as [|s' ?]; [exfalso; apply Hne; reflexivity|]|]; simpl; discriminate. Qed.
Lemma stage_covers : covers (grid_of es) (eps_all hot cold).
Proof.
  intros e He. apply grid_of_covers; [exact Hlat|]. unfold es, endpoints, eps_all, endpoints in *.
  rewrite !flat_map_app. apply in_app_or in He. destruct He as [He|He]; apply in_or_app; [left; exact He|right; apply in_or_app; left; exact He].
Qed.

Theorem stage_targets_exact :
  Qh_of p == Qh_star hot cold /\ Qc_of p == Qc_star hot cold /\ Qr_of p == Qr_star hot cold.
Proof.
  pose proof (gaps_b_ok _ _ Hrob) as G.
  repeat split; symmetry; [apply Qh_star_eq with (d := 0) (hot := hot) (cold := cold) (hotR := hot) (coldR := cold)|apply Qc_star_eq with (d := 0) (hot := hot) (cold := cold) (hotR := hot) (coldR := cold)|apply Qr_star_eq with (d := 0) (hot := hot) (cold := cold) (hotR := hot) (coldR := cold)];
    try exact Qle_refl0; try exact window_pos; try apply nearv_refl; try assumption; try apply grid_of_desc; try (apply grid_of_ne; apply es_ne); try apply stage_covers.
Qed.

Theorem stage_Qh_is_sup :
  (forall T, Dnet hot cold T <= Qh_of p) /\ (exists T, In T (grid_of es) /\ Dnet hot cold T == Qh_of p).
Proof.
  pose proof (gaps_b_ok _ _ Hrob) as G.
  apply Qh_is_sup with (d := 0) (hot := hot) (cold := cold) (hotR := hot) (coldR := cold); try exact Qle_refl0; try exact window_pos; try apply nearv_refl; try assumption; try apply grid_of_desc; try (apply grid_of_ne; apply es_ne); try apply stage_covers.
Qed.

Theorem stage_balance :
  Qc_of p == Qh_of p - duty cold + duty hot /\ Qr_of p == duty hot - Qc_of p /\ 0 <= Qh_of p /\ 0 <= Qc_of p /\ 0 <= Qr_of p.
Proof.
  pose proof (gaps_b_ok _ _ Hrob) as G.
  split; [|split].
  - apply Qc_balance with (d := 0) (hot := hot) (cold := cold) (hotR := hot) (coldR := cold); try exact Qle_refl0; try exact window_pos; try apply nearv_refl; try assumption; try apply grid_of_desc; try (apply grid_of_ne; apply es_ne); try apply stage_covers.
  - apply Qr_balance with (d := 0) (hot := hot) (cold := cold) (hotR := hot) (coldR := cold); try exact Qle_refl0; try exact window_pos; try apply nearv_refl; try assumption; try apply grid_of_desc; try (apply grid_of_ne; apply es_ne); try apply stage_covers.
  - apply targets_nonneg with (d := 0) (hot := hot) (cold := cold) (hotR := hot) (coldR := cold); try exact Qle_refl0; try exact window_pos; try apply nearv_refl; try assumption; try apply grid_of_desc; try (apply grid_of_ne; apply es_ne); try apply stage_covers.
Qed.

Theorem stage_curves_exact i T hh hc hn :
  nth_error (pT p) i = Some T -> nth_error (pHh p) i = Some hh -> nth_error (pHc p) i = Some hc -> nth_error (pHn p) i = Some hn ->
  hh == heat_below hot T /\ hc == Qc_of p + heat_below cold T /\ hn == hc - hh /\ hn == Qh_of p - Dnet hot cold T /\ 0 <= hn.
Proof.
  pose proof (gaps_b_ok _ _ Hrob) as G.
  apply curves_exact with (d := 0) (hot := hot) (cold := cold) (hotR := hot) (coldR := cold); try exact Qle_refl0; try exact window_pos; try apply nearv_refl; try assumption; try apply grid_of_desc; try (apply grid_of_ne; apply es_ne); try apply stage_covers.
Qed.
Theorem stage_net_touches_zero : exists i hn, nth_error (pHn p) i = Some hn /\ hn == 0.
Proof.
  pose proof (gaps_b_ok _ _ Hrob) as G.
  apply net_touches_zero with (d := 0) (hot := hot) (cold := cold) (hotR := hot) (coldR := cold); try exact Qle_refl0; try exact window_pos; try apply nearv_refl; try assumption; try apply grid_of_desc; try (apply grid_of_ne; apply es_ne); try apply stage_covers.
Qed.
Theorem stage_spans_exact : hd 0 (pHh p) == duty hot /\ lastq (pHh p) == 0 /\ hd 0 (pHc p) - lastq (pHc p) == duty cold.
Proof.
  pose proof (gaps_b_ok _ _ Hrob) as G.
  apply spans_exact with (d := 0) (hot := hot) (cold := cold) (hotR := hot) (coldR := cold); try exact Qle_refl0; try exact window_pos; try apply nearv_refl; try assumption; try apply grid_of_desc; try (apply grid_of_ne; apply es_ne); try apply stage_covers.
Qed.
End Stage.

(* non-vacuity: the classic four-stream problem on the shifted scale satisfies every hypothesis; Qh = 20, Qc = 60 *)
Definition ex_hot : list view := [mkV 35 245 (3#20); mkV 75 195 (1#4)].
Definition ex_cold : list view := [mkV 25 185 (1#5); mkV 145 235 (2#5)].
Example ex_hyps : gaps_b act_window (grid_of (endpoints (ex_hot ++ ex_cold ++ []))) = true
  /\ forallb (fun e => qeqb (round_dp grid_round_dp e) e) (endpoints (ex_hot ++ ex_cold ++ [])) = true.
Proof. vm_compute. split; reflexivity. Qed.
Example ex_values : (Qh_of (stage_model act_window ex_hot ex_cold []), Qc_of (stage_model act_window ex_hot ex_cold []),
                     Qh_star ex_hot ex_cold, Qc_star ex_hot ex_cold) = (33 # 2, 10, 33 # 2, 10).
Proof. vm_compute. reflexivity. Qed.

(* D44: without the Robust hypothesis the statement is false of the faithful model: a stream narrower than the window *)
Definition narrow_cold : list view := [mkV 100 (100 + (4 # 1000000)) 2500000].
Definition narrow_hot : list view := [mkV 150 200 1].
Lemma window_refuted :
  Qc_of (stage_model act_window narrow_hot narrow_cold []) == 50 /\ Qc_star narrow_hot narrow_cold == 40
  /\ gaps_b act_window (grid_of (endpoints (narrow_hot ++ narrow_cold ++ []))) = false.
Proof. vm_compute. repeat split; reflexivity. Qed.

(* ---------- arbitrary doubles: the model equals the exact optimum of the streams rounded to the grid's 6 decimals ---------- *)
Lemma rhe_near y : - (1 # 2) <= inject_Z (round_half_even y) - y <= 1 # 2.
Proof.
  unfold round_half_even. pose proof (Qfloor_le y) as L. pose proof (Qlt_floor y) as U.
  set (f := Qfloor y) in *. rewrite inject_Z_plus in U. change (inject_Z 1) with 1 in U.
  destruct (Qcompare (y - inject_Z f) (1 # 2)) eqn:C.
  - apply Qeq_alt in C. destruct (Z.even f); [lra|]. rewrite inject_Z_plus. change (inject_Z 1) with 1. lra.
  - apply Qlt_alt in C. lra.
  - apply Qgt_alt in C. rewrite inject_Z_plus. change (inject_Z 1) with 1. lra.
Qed.
Definition round_err (dp : nat) : Q := (1 # 2) / inject_Z (pow10 dp).
Lemma pow10_pos dp : (0 < pow10 dp)%Z.
Proof. unfold pow10. apply Z.pow_pos_nonneg; lia. Qed.
Lemma round_dp_near dp x : - round_err dp <= round_dp dp x - x <= round_err dp.
Proof.
  unfold round_dp, round_err. rewrite Qred_correct. pose proof (pow10_pos dp) as Pp.
  set (P := pow10 dp) in *. pose proof (rhe_near (x * inject_Z P)) as H.
  set (r := inject_Z (round_half_even (x * inject_Z P))) in *.
  assert (PQ : 0 < inject_Z P) by (unfold Qlt; simpl; lia).
  set (q := inject_Z P) in *.
  assert (Iq : 0 < / q) by (apply Qinv_lt_0_compat; exact PQ).
  assert (E : q * / q == 1) by (apply Qmult_inv_r; lra).
  unfold Qdiv. set (i := / q) in *.
  assert (A1 : 0 <= (r - x * q + (1 # 2)) * i) by (apply Qmult_le_0_compat; lra).
  assert (A2 : 0 <= ((1 # 2) - (r - x * q)) * i) by (apply Qmult_le_0_compat; lra).
  assert (X : x * q * i == x) by (rewrite <- Qmult_assoc, E; ring).
  split; nra.
Qed.

(* round the end points of a stream to the grid's decimals *)
Definition roundv (s : view) : view := mkV (round_dp grid_round_dp (lo s)) (round_dp grid_round_dp (hi s)) (vcp s).
Definition delta6 : Q := round_err grid_round_dp.
Lemma nearv_round ss : Forall2 (nearv delta6) ss (map roundv ss).
Proof.
  induction ss as [|s ss IH]; simpl; constructor; [|exact IH]. unfold nearv, roundv, delta6; simpl.
  pose proof (round_dp_near grid_round_dp (lo s)). pose proof (round_dp_near grid_round_dp (hi s)). repeat split; lra.
Qed.
Lemma delta6_facts : 0 <= delta6 /\ delta6 < act_window.
Proof. unfold delta6, round_err, act_window. vm_compute. split; [discriminate|reflexivity]. Qed.

Definition wfs_b (ss : list view) : bool := forallb (fun s => qltb (lo s) (hi s) && qleb 0 (vcp s)) ss.
Lemma wfs_b_ok ss : wfs_b ss = true -> wfs ss.
Proof.
  unfold wfs_b, wfs. rewrite forallb_forall, Forall_forall. intros H s Hs. specialize (H s Hs).
  apply andb_true_iff in H. destruct H as [A B]. apply qltb_true in A. apply qleb_true in B. split; assumption.
Qed.

Section StageRounded.
Variables hot cold extra : list view.
Let hotR := map roundv hot.
Let coldR := map roundv cold.
Hypothesis Wh : wfs_b hotR = true.          (* rounded spans still positive, CP >= 0 *)
Hypothesis Wc : wfs_b coldR = true.
Hypothesis Hne : hot ++ cold <> [].
Let es := endpoints (hot ++ cold ++ extra).
Hypothesis Hrob : gaps_b (act_window + delta6) (grid_of es) = true.
Let p := stage_model act_window hot cold extra.

Lemma esR_ne : es <> [].
Proof. unfold es. destruct hot as [|s ?]; [destruct cold as [|s' ?]; [exfalso; apply Hne; reflexivity|]|]; simpl; discriminate. Qed.
Lemma endpoints_round ss e : In e (endpoints (map roundv ss)) -> exists e0, In e0 (endpoints ss) /\ e = round_dp grid_round_dp e0.
Proof.
  unfold endpoints. rewrite flat_map_concat_map, map_map, <- flat_map_concat_map. intro H. apply in_flat_map in H.
  destruct H as [s [Hs He]]. simpl in He. destruct He as [E|[E|[]]]; subst.
  - exists (lo s). split; [apply in_flat_map; exists s; split; [exact Hs|left; reflexivity]|reflexivity].
  - exists (hi s). split; [apply in_flat_map; exists s; split; [exact Hs|right; left; reflexivity]|reflexivity].
Qed.
Lemma stageR_covers : covers (grid_of es) (eps_all hotR coldR).
Proof.
  intros e He. unfold eps_all in He. apply in_app_or in He.
  assert (K : exists e0, In e0 es /\ e = round_dp grid_round_dp e0).
  { destruct He as [He|He]; destruct (endpoints_round _ e He) as [e0 [H0 E]]; exists e0; (split; [|exact E]);
    unfold es, endpoints in *; rewrite !flat_map_app; apply in_or_app; [left; exact H0|right; apply in_or_app; left; exact H0]. }
  destruct K as [e0 [H0 E]]. subst e. unfold grid_of. apply sorted_of_has. apply in_map. exact H0.
Qed.

Theorem stage_rounded_targets_exact :
  Qh_of p == Qh_star hotR coldR /\ Qc_of p == Qc_star hotR coldR /\ Qr_of p == Qr_star hotR coldR.
Proof.
  destruct delta6_facts as [D0 D1]. pose proof (gaps_b_ok_d _ _ _ Hrob) as G.
  pose proof (wfs_b_ok _ Wh) as WH. pose proof (wfs_b_ok _ Wc) as WC.
  repeat split; symmetry;
    [apply Qh_star_eq with (d := delta6) (hot := hot) (cold := cold)
    |apply Qc_star_eq with (d := delta6) (hot := hot) (cold := cold)
    |apply Qr_star_eq with (d := delta6) (hot := hot) (cold := cold)];
    try assumption; try apply nearv_round; try apply grid_of_desc; try (apply grid_of_ne; apply esR_ne); try apply stageR_covers.
Qed.
Theorem stage_rounded_Qh_is_sup :
  (forall T, Dnet hotR coldR T <= Qh_of p) /\ (exists T, In T (grid_of es) /\ Dnet hotR coldR T == Qh_of p).
Proof.
  destruct delta6_facts as [D0 D1]. pose proof (gaps_b_ok_d _ _ _ Hrob) as G.
  pose proof (wfs_b_ok _ Wh) as WH. pose proof (wfs_b_ok _ Wc) as WC.
  apply Qh_is_sup with (d := delta6) (hot := hot) (cold := cold) (hotR := hotR) (coldR := coldR);
    try assumption; try apply nearv_round; try apply grid_of_desc; try (apply grid_of_ne; apply esR_ne); try apply stageR_covers.
Qed.
End StageRounded.

(* non-vacuity off the lattice: end points with 7 decimals *)
Example ex_rounded :
  let hot := [mkV (350000004 # 10000000) 245 (3#20)] in let cold := [mkV 25 (1850000006 # 10000000) (1#5)] in
  wfs_b (map roundv hot) = true /\ wfs_b (map roundv cold) = true
  /\ gaps_b (act_window + delta6) (grid_of (endpoints (hot ++ cold ++ []))) = true
  /\ forallb (fun e => qeqb (round_dp grid_round_dp e) e) (endpoints (hot ++ cold)) = false.
Proof. vm_compute. repeat split; reflexivity. Qed.

Lemma any_covering_grid w hot cold g : 0 < w -> wfs hot -> wfs cold -> desc g -> g <> [] -> covers g (eps_all hot cold) -> gaps_ok w 0 g ->
  Qh_star hot cold == Qh_of (pta w hot cold g) /\ Qc_star hot cold == Qc_of (pta w hot cold g)
  /\ Qr_star hot cold == Qr_of (pta w hot cold g).
Proof.
  intros. repeat split;
    [apply Qh_star_eq with (d := 0) (hot := hot) (cold := cold)|apply Qc_star_eq with (d := 0) (hot := hot) (cold := cold)
    |apply Qr_star_eq with (d := 0) (hot := hot) (cold := cold)]; try assumption; try apply nearv_refl; try exact Qle_refl0.
Qed.
