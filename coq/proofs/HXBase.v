(* Reflection lemmas for the boolean comparisons of gen/Scalar.v and a few exp/ln/Rpower facts
   used by the HX*, LMTD* and Cost* proof files. *)
From Coq Require Import Reals Lra Psatz Bool ZArith Lia.
From OP Require Import gen.Consts gen.HxDispatch gen.Scalar.
Local Open Scope R_scope.

Lemma Reqb_true a b : Reqb a b = true <-> a = b.
Proof. unfold Reqb. destruct (Req_EM_T a b); split; intro; try reflexivity; try assumption; try discriminate; contradiction. Qed.
Lemma Reqb_false a b : Reqb a b = false <-> a <> b.
Proof. unfold Reqb. destruct (Req_EM_T a b); split; intro; try reflexivity; try assumption; try discriminate; contradiction. Qed.
Lemma Rneqb_true a b : Rneqb a b = true <-> a <> b.
Proof. unfold Rneqb. rewrite negb_true_iff. apply Reqb_false. Qed.
Lemma Rneqb_false a b : Rneqb a b = false <-> a = b.
Proof. unfold Rneqb. rewrite negb_false_iff. apply Reqb_true. Qed.
Lemma Rltb_true a b : Rltb a b = true <-> a < b.
Proof. unfold Rltb. destruct (Rlt_dec a b); split; intro; try reflexivity; try assumption; try discriminate; contradiction. Qed.
Lemma Rltb_false a b : Rltb a b = false <-> b <= a.
Proof. unfold Rltb. destruct (Rlt_dec a b); split; intro; try reflexivity; try discriminate; lra. Qed.
Lemma Rleb_true a b : Rleb a b = true <-> a <= b.
Proof. unfold Rleb. destruct (Rle_dec a b); split; intro; try reflexivity; try assumption; try discriminate; contradiction. Qed.
Lemma Rleb_false a b : Rleb a b = false <-> b < a.
Proof. unfold Rleb. destruct (Rle_dec a b); split; intro; try reflexivity; try discriminate; lra. Qed.
Lemma Rgtb_true a b : Rgtb a b = true <-> a > b.
Proof. unfold Rgtb. rewrite Rltb_true. lra. Qed.
Lemma Rgtb_false a b : Rgtb a b = false <-> a <= b.
Proof. unfold Rgtb. apply Rltb_false. Qed.
Lemma Rgeb_true a b : Rgeb a b = true <-> a >= b.
Proof. unfold Rgeb. rewrite Rleb_true. lra. Qed.
Lemma Rgeb_false a b : Rgeb a b = false <-> a < b.
Proof. unfold Rgeb. apply Rleb_false. Qed.

(* turn a boolean guard into the corresponding fact (used as `rewrite (proj2 (Rxxb_true _ _))`) *)
Ltac btrue H := first
  [ rewrite (proj2 (Reqb_true _ _) H) | rewrite (proj2 (Rneqb_true _ _) H) | rewrite (proj2 (Rltb_true _ _) H)
  | rewrite (proj2 (Rleb_true _ _) H) | rewrite (proj2 (Rgtb_true _ _) H) | rewrite (proj2 (Rgeb_true _ _) H) ].
Ltac bfalse H := first
  [ rewrite (proj2 (Reqb_false _ _) H) | rewrite (proj2 (Rneqb_false _ _) H) | rewrite (proj2 (Rltb_false _ _) H)
  | rewrite (proj2 (Rleb_false _ _) H) | rewrite (proj2 (Rgtb_false _ _) H) | rewrite (proj2 (Rgeb_false _ _) H) ].

(* exp facts *)
Lemma exp_neg_lt1 x : 0 < x -> exp (- x) < 1.
Proof. intro H. rewrite <- exp_0. apply exp_increasing. lra. Qed.
Lemma exp_neg_le1 x : 0 <= x -> exp (- x) <= 1.
Proof. intro H. destruct H as [H| <-]. left. now apply exp_neg_lt1. rewrite Ropp_0, exp_0. lra. Qed.
Lemma exp_gt1 x : 0 < x -> 1 < exp x.
Proof. intro H. rewrite <- exp_0. apply exp_increasing. lra. Qed.
Lemma exp_le_mono x y : x <= y -> exp x <= exp y.
Proof. intros [H| ->]. left. now apply exp_increasing. lra. Qed.
Lemma ln_exp_neg x : ln (exp (- x)) = - x.
Proof. apply ln_exp. Qed.
Lemma ln_lt0 x : 0 < x -> x < 1 -> ln x < 0.
Proof. intros H0 H1. rewrite <- ln_1. apply ln_increasing; lra. Qed.
Lemma ln_gt0 x : 1 < x -> 0 < ln x.
Proof. intros H1. rewrite <- ln_1. apply ln_increasing; lra. Qed.
Lemma ln_le0 x : 0 < x -> x <= 1 -> ln x <= 0.
Proof. intros H0 [H1| ->]. left. now apply ln_lt0. rewrite ln_1. lra. Qed.

(* Rpower facts *)
Lemma Rpower_pos x y : 0 < Rpower x y.
Proof. unfold Rpower. apply exp_pos. Qed.
Lemma Rpower_ge1 x y : 1 <= x -> 0 <= y -> 1 <= Rpower x y.
Proof.
  intros Hx Hy. unfold Rpower. rewrite <- exp_0. apply exp_le_mono.
  apply Rmult_le_pos; [exact Hy|]. destruct Hx as [Hx| <-]. left. now apply ln_gt0. rewrite ln_1. lra.
Qed.
Lemma Rpower_gt1 x y : 1 < x -> 0 < y -> 1 < Rpower x y.
Proof.
  intros Hx Hy. unfold Rpower. apply exp_gt1. apply Rmult_lt_0_compat; [exact Hy|]. now apply ln_gt0.
Qed.
Lemma Rpower_inv_exp x y : 0 < y -> Rpower (Rpower x y) (1 / y) = Rpower x 1.
Proof. intro Hy. rewrite Rpower_mult. f_equal. field. lra. Qed.
Lemma Rpower_1' x : 0 < x -> Rpower x 1 = x.
Proof. apply Rpower_1. Qed.

(* np.round as modelled in the prelude of gen/Scalar.v *)
Lemma rnd_half_even_nonpos y : y <= 0 -> (rnd_half_even y <= 0)%Z.
Proof.
  intro Hy. unfold rnd_half_even. destruct (base_Int_part y) as [B1 B2]. set (f := Int_part y) in *.
  assert (Hf : (f <= 0)%Z). { apply le_IZR. lra. }
  destruct (Z.eq_dec f 0) as [E|NE].
  - rewrite E in *. simpl in *. assert (y = 0) by lra. subst y.
    rewrite (proj2 (Rltb_true _ _)) by lra. lia.
  - destruct (Rltb (y - IZR f) (1 / 2)); [lia|]. destruct (Rltb (1 / 2) (y - IZR f)); [lia|]. destruct (Z.even f); lia.
Qed.

Lemma round_dp_nonpos n x : x <= 0 -> round_dp n x <= 0.
Proof.
  intro Hx. unfold round_dp. assert (Hp : 0 < 10 ^ n) by (apply pow_lt; lra).
  assert (Hy : x * 10 ^ n <= 0) by nra. pose proof (rnd_half_even_nonpos _ Hy) as Hz. apply IZR_le in Hz.
  unfold Rdiv. assert (0 < / 10 ^ n) by (apply Rinv_0_lt_compat; exact Hp). nra.
Qed.


Lemma rnd_half_even_pos y : 1 / 2 < y -> (1 <= rnd_half_even y)%Z.
Proof.
  intro Hy. unfold rnd_half_even. destruct (base_Int_part y) as [B1 B2]. set (f := Int_part y) in *.
  assert (Hf : (0 <= f)%Z). { apply Z.lt_succ_r. apply lt_IZR. rewrite succ_IZR. lra. }
  destruct (Z.eq_dec f 0) as [E|NE].
  - rewrite E in *. simpl in *. rewrite (proj2 (Rltb_false _ _)) by lra. rewrite (proj2 (Rltb_true _ _)) by lra. lia.
  - destruct (Rltb (y - IZR f) (1 / 2)); [lia|]. destruct (Rltb (1 / 2) (y - IZR f)); [lia|]. destruct (Z.even f); lia.
Qed.

Lemma round_dp_pos n x : 1 / 2 < x * 10 ^ n -> 0 < round_dp n x.
Proof.
  intro Hx. unfold round_dp. assert (Hp : 0 < 10 ^ n) by (apply pow_lt; lra).
  pose proof (rnd_half_even_pos _ Hx) as Hz. apply IZR_le in Hz. apply Rdiv_lt_0_compat; lra.
Qed.

Lemma round_dp_small n x : 0 <= x * 10 ^ n < 1 / 2 -> round_dp n x = 0.
Proof.
  intros [H0 H1]. unfold round_dp, rnd_half_even.
  assert (E : Int_part (x * 10 ^ n) = 0%Z).
  { destruct (base_Int_part (x * 10 ^ n)) as [B1 B2]. set (f := Int_part (x * 10 ^ n)) in *.
    assert (f < 1)%Z by (apply lt_IZR; lra). assert (-1 < f)%Z by (apply lt_IZR; lra). lia. }
  rewrite E. simpl. rewrite (proj2 (Rltb_true _ _)) by lra. simpl. unfold Rdiv. apply Rmult_0_l.
Qed.
