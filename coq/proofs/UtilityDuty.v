(* C03/C04, concrete layer: `max_duty` (= _maximise_utility_duty) and `assign_loop` (= the loop of _assign_utility)
   of model/Utility.v satisfy the abstract allocation relation of UtilityLadder.v.  Any interval list, any ladder. *)
From OP Require Import gen.Consts model.Base model.Utility proofs.BaseFacts proofs.UtilityLadder.
From Coq Require Import Lqa Lia.
Local Open Scope Q_scope.

(* ---- maxl / omin ---- *)
Lemma maxl_ge_hd l : forall x, x <= maxl x l.
Proof. induction l as [|y l IH]; intro x; simpl; [lra|apply qmax_ub_l]. Qed.
Lemma maxl_ge l : forall x y, In y l -> y <= maxl x l.
Proof.
  induction l as [|z l IH]; intros x y H; [inversion H|]. simpl. destruct H as [->|H].
  - eapply Qle_trans; [apply maxl_ge_hd|apply qmax_ub_r].
  - eapply Qle_trans; [apply (IH z y H)|apply qmax_ub_r].
Qed.
Lemma maxl_le l : forall x B, x <= B -> (forall y, In y l -> y <= B) -> maxl x l <= B.
Proof.
  induction l as [|z l IH]; intros x B Hx Hl; simpl; [exact Hx|].
  apply qmax_lub; [exact Hx|]. apply IH; [apply Hl; left; reflexivity|intros y Hy; apply Hl; right; exact Hy].
Qed.
Lemma omin_nonneg l : (forall x, In (Some x) l -> 0 <= x) -> forall m, omin l = Some m -> 0 <= m.
Proof.
  induction l as [|o l IH]; intros Hl m Hm; simpl in Hm; [discriminate|].
  destruct o as [x|].
  - assert (Hx : 0 <= x) by (apply Hl; left; reflexivity).
    destruct (omin l) as [y|] eqn:E.
    + inversion Hm; subst. assert (0 <= y) by (apply IH; [intros z Hz; apply Hl; right; exact Hz|reflexivity]).
      destruct (qmin_cases x y) as [[? Em]|[? Em]]; lra.
    + inversion Hm; subst. exact Hx.
  - apply IH; [intros z Hz; apply Hl; right; exact Hz|exact Hm].
Qed.
Lemma omin_all_none l : (forall o, In o l -> o = None) -> omin l = None.
Proof.
  induction l as [|o l IH]; intro H; simpl; [reflexivity|].
  rewrite (H o (or_introl eq_refl)). apply IH. intros o' Ho'. apply H. right. exact Ho'.
Qed.

Section Duty.
Variable tolv : Q.
Hypothesis tol_pos : 0 < tolv.

(* ---- pgen: the largest enthalpy reachable from a supply coordinate ---- *)
Lemma pgen_nonneg ivs s : 0 <= pgen tolv ivs s.
Proof. unfold pgen. induction (filter (reachv tolv s) ivs) as [|v l IH]; simpl; [lra|]. eapply Qle_trans; [exact IH|apply qmax_ub_r]. Qed.
Lemma pgen_ge ivs s v : In v ivs -> reachv tolv s v = true -> hadj v <= pgen tolv ivs s.
Proof.
  intros Hin Hr. assert (Hf : In v (filter (reachv tolv s) ivs)) by (apply filter_In; split; assumption).
  unfold pgen. induction (filter (reachv tolv s) ivs) as [|w l IH]; [inversion Hf|]. simpl. destruct Hf as [->|Hf].
  - apply qmax_ub_l.  - eapply Qle_trans; [apply IH; exact Hf|apply qmax_ub_r].
Qed.
Lemma pgen_attained ivs s :
  pgen tolv ivs s == 0 \/ exists w, In w ivs /\ reachv tolv s w = true /\ pgen tolv ivs s == hadj w.
Proof.
  unfold pgen.
  assert (G : forall l, (forall w, In w l -> In w ivs /\ reachv tolv s w = true) ->
            fold_right (fun v m => Qmax (hadj v) m) 0 l == 0 \/
            exists w, In w ivs /\ reachv tolv s w = true /\ fold_right (fun v m => Qmax (hadj v) m) 0 l == hadj w).
  { induction l as [|v l IH]; intro Hl; simpl; [left; reflexivity|].
    destruct (qmax_cases (hadj v) (fold_right (fun v m => Qmax (hadj v) m) 0 l)) as [[Hle E]|[Hle E]].
    - destruct IH as [IH|[w [H1 [H2 H3]]]]; [intros w Hw; apply Hl; right; exact Hw| |].
      + left. lra.  + right. exists w. repeat split; auto. lra.
    - right. exists v. destruct (Hl v (or_introl eq_refl)) as [H1 H2]. repeat split; auto. }
  apply G. intros w Hw. apply filter_In in Hw. exact Hw.
Qed.
Lemma pgen_le ivs s B : 0 <= B -> (forall v, In v ivs -> hadj v <= B) -> pgen tolv ivs s <= B.
Proof.
  intros HB H. destruct (pgen_attained ivs s) as [E|[w [H1 [_ E]]]]; [lra|]. rewrite E. apply H. exact H1.
Qed.
(* a higher supply coordinate reaches at least as much: pgen is monotone in s, for ANY profile *)
Lemma reachv_mono s s' v : s <= s' -> reachv tolv s v = true -> reachv tolv s' v = true.
Proof.
  unfold reachv, dsup. intros H Hr. apply andb_true_iff in Hr. destruct Hr as [Hc Hd]. apply andb_true_iff. split; [exact Hc|].
  apply qleb_true in Hd. apply qleb_true. rewrite rsub_eq in *. lra.
Qed.
Lemma pgen_mono ivs s s' : s <= s' -> pgen tolv ivs s <= pgen tolv ivs s'.
Proof.
  intro H. destruct (pgen_attained ivs s) as [E|[w [H1 [H2 E]]]].
  - rewrite E. apply pgen_nonneg.
  - rewrite E. apply pgen_ge; [exact H1|eapply reachv_mono; eauto].
Qed.

Lemma valid_spec s qa v : valid tolv s qa v = true <-> reachv tolv s v = true /\ tolv < hadj v - qa.
Proof.
  unfold valid, qpot. rewrite andb_true_iff, qltb_true, rsub_eq. tauto.
Qed.

(* ---- _maximise_utility_duty: bounds that hold for EVERY utility (glide or not) ---- *)
Lemma max_duty_cases ivs s t qa :
  max_duty tolv ivs s t qa = 0 \/
  exists v0 vr, filter (valid tolv s qa) ivs = v0 :: vr /\
    let qts := maxl (qpot qa v0) (map (qpot qa) vr) in
    (max_duty tolv ivs s t qa = qts \/
     exists m, omin (map (qtt_of tolv s t qa) (v0 :: vr)) = Some m /\ max_duty tolv ivs s t qa = Qmin qts m).
Proof.
  unfold max_duty. destruct (filter (valid tolv s qa) ivs) as [|v0 vr] eqn:E; [left; reflexivity|].
  destruct (qltb (maxl (dtar t v0) (map (dtar t) vr)) 0); [left; reflexivity|].
  right. exists v0, vr. split; [reflexivity|]. cbv zeta.
  destruct (omin (map (qtt_of tolv s t qa) (v0 :: vr))) as [m|]; [right; exists m; split; reflexivity|left; reflexivity].
Qed.

Lemma qts_bounds ivs s qa v0 vr :
  filter (valid tolv s qa) ivs = v0 :: vr ->
  let qts := maxl (qpot qa v0) (map (qpot qa) vr) in
  tolv < qts /\ qts <= pgen tolv ivs s - qa /\ In v0 ivs /\ valid tolv s qa v0 = true.
Proof.
  intros E qts.
  assert (Hv : forall v, In v (v0 :: vr) -> In v ivs /\ valid tolv s qa v = true).
  { intros v Hv. rewrite <- E in Hv. apply filter_In in Hv. exact Hv. }
  destruct (Hv v0 (or_introl eq_refl)) as [Hin0 Hv0]. repeat split; auto.
  - apply valid_spec in Hv0. destruct Hv0 as [_ H0]. unfold qts.
    eapply Qlt_le_trans; [|apply maxl_ge_hd]. unfold qpot. rewrite rsub_eq. exact H0.
  - unfold qts. apply maxl_le.
    + apply valid_spec in Hv0. destruct Hv0 as [Hr _]. unfold qpot. rewrite rsub_eq.
      pose proof (pgen_ge ivs s v0 Hin0 Hr). lra.
    + intros y Hy. apply in_map_iff in Hy. destruct Hy as [v [<- Hvin]].
      destruct (Hv v (or_intror Hvin)) as [Hin Hval]. apply valid_spec in Hval. destruct Hval as [Hr _].
      unfold qpot. rewrite rsub_eq. pose proof (pgen_ge ivs s v Hin Hr). lra.
Qed.

Lemma qtt_nonneg s t qa v x : valid tolv s qa v = true -> qtt_of tolv s t qa v = Some x -> 0 <= x.
Proof.
  unfold qtt_of. pose proof (Qabs_nonneg (t - s)) as Ha. generalize dependent (Qabs (t - s)). intros A Ha Hv H.
  destruct (qltb tolv (- dtar t v)) eqn:E; [|discriminate]. injection H as Hx. subst x.
  apply qltb_true in E. apply valid_spec in Hv. destruct Hv as [_ Hq].
  rewrite rmul_eq, rdiv_eq. unfold qpot. rewrite rsub_eq.
  apply Qmult_le_0_compat; [|exact Ha].
  unfold Qdiv. apply Qmult_le_0_compat; [lra|]. apply Qinv_le_0_compat. lra.
Qed.

Theorem max_duty_bounds ivs s t qa :
  0 <= max_duty tolv ivs s t qa /\ max_duty tolv ivs s t qa <= thr tolv (pgen tolv ivs s - qa).
Proof.
  destruct (max_duty_cases ivs s t qa) as [E|[v0 [vr [Ef H]]]].
  - rewrite E. split; [lra|apply thr_nonneg; exact tol_pos].
  - cbv zeta in H. destruct (qts_bounds ivs s qa v0 vr Ef) as [H1 [H2 [H3 H4]]]. cbv zeta in H1, H2.
    set (qts := maxl (qpot qa v0) (map (qpot qa) vr)) in *.
    assert (Ht : thr tolv (pgen tolv ivs s - qa) = pgen tolv ivs s - qa).
    { destruct (thr_cases tolv (pgen tolv ivs s - qa)) as [[_ E]|[Hc _]]; [exact E|lra]. }
    rewrite Ht. destruct H as [E|[m [Em E]]]; rewrite E.
    + split; lra.
    + assert (Hm : 0 <= m).
      { eapply omin_nonneg; [|exact Em]. intros x Hx. apply in_map_iff in Hx. destruct Hx as [v [Hq Hvin]].
        assert (Hval : valid tolv s qa v = true).
        { rewrite <- Ef in Hvin. apply filter_In in Hvin. apply Hvin. }
        eapply qtt_nonneg; eauto. }
      destruct (qmin_cases qts m) as [[? Eq]|[? Eq]]; split; lra.
Qed.

(* a utility that receives duty can reach unmet demand: some reachable interval carries more than what is assigned *)
Theorem max_duty_pos_reach ivs s t qa :
  0 < max_duty tolv ivs s t qa -> exists v, In v ivs /\ reachv tolv s v = true /\ tolv < hadj v - qa.
Proof.
  intro Hp. destruct (max_duty_cases ivs s t qa) as [E|[v0 [vr [Ef _]]]]; [rewrite E in Hp; lra|].
  destruct (qts_bounds ivs s qa v0 vr Ef) as [_ [_ [H3 H4]]]. exists v0. split; [exact H3|]. apply valid_spec. exact H4.
Qed.

(* ---- utilities clear of the grid: every reachable interval ends at or below the target coordinate.
        Then the early return and the slope bound never act: duty = thr (pgen - assigned) ---- *)
Definition ivclear (ivs : list iv) (s t : Q) : Prop := forall v, In v ivs -> reachv tolv s v = true -> ib v <= t.

Theorem max_duty_clear ivs s t qa :
  ivclear ivs s t -> 0 <= qa -> max_duty tolv ivs s t qa == thr tolv (pgen tolv ivs s - qa).
Proof.
  intros Hc Hqa. unfold max_duty. destruct (filter (valid tolv s qa) ivs) as [|v0 vr] eqn:E.
  - (* nothing valid: every reachable enthalpy is within tol of what is assigned *)
    destruct (thr_cases tolv (pgen tolv ivs s - qa)) as [[Ht _]|[_ Et]]; [|rewrite Et; reflexivity].
    exfalso. destruct (pgen_attained ivs s) as [E0|[w [H1 [H2 E0]]]]; [lra|].
    assert (Hv : valid tolv s qa w = true) by (apply valid_spec; split; [exact H2|lra]).
    assert (Hin : In w (filter (valid tolv s qa) ivs)) by (apply filter_In; split; assumption).
    rewrite E in Hin. inversion Hin.
  - assert (Hv : forall v, In v (v0 :: vr) -> In v ivs /\ valid tolv s qa v = true).
    { intros v Hv. rewrite <- E in Hv. apply filter_In in Hv. exact Hv. }
    assert (Hd : forall v, In v (v0 :: vr) -> 0 <= dtar t v).
    { intros v Hvin. destruct (Hv v Hvin) as [Hin Hval]. apply valid_spec in Hval. destruct Hval as [Hr _].
      unfold dtar. rewrite rsub_eq. specialize (Hc v Hin Hr). lra. }
    assert (Hm : qltb (maxl (dtar t v0) (map (dtar t) vr)) 0 = false).
    { apply qltb_false. eapply Qle_trans; [apply (Hd v0 (or_introl eq_refl))|apply maxl_ge_hd]. }
    rewrite Hm.
    assert (Ho : omin (map (qtt_of tolv s t qa) (v0 :: vr)) = None).
    { apply omin_all_none. intros o Ho. apply in_map_iff in Ho. destruct Ho as [v [<- Hvin]].
      unfold qtt_of. assert (Hq : qltb tolv (- dtar t v) = false) by (apply qltb_false; specialize (Hd v Hvin); lra).
      rewrite Hq. reflexivity. }
    rewrite Ho.
    destruct (qts_bounds ivs s qa v0 vr E) as [H1 [H2 [H3 H4]]]. cbv zeta in H1, H2.
    set (qts := maxl (qpot qa v0) (map (qpot qa) vr)) in *.
    assert (Ht : thr tolv (pgen tolv ivs s - qa) = pgen tolv ivs s - qa).
    { destruct (thr_cases tolv (pgen tolv ivs s - qa)) as [[_ Et]|[Hc' _]]; [exact Et|lra]. }
    rewrite Ht. apply Qle_antisym; [exact H2|].
    destruct (pgen_attained ivs s) as [E0|[w [W1 [W2 E0]]]]; [lra|].
    assert (Hw : valid tolv s qa w = true) by (apply valid_spec; split; [exact W2|lra]).
    assert (Hin : In w (v0 :: vr)) by (rewrite <- E; apply filter_In; split; assumption).
    assert (Hq : qpot qa w <= qts).
    { destruct Hin as [->|Hin]; [apply maxl_ge_hd|]. apply maxl_ge. apply in_map. exact Hin. }
    unfold qpot in Hq. rewrite rsub_eq in Hq. lra.
Qed.

(* ---- the loop of _assign_utility is an allocation in the sense of UtilityLadder.v ---- *)
Definition capsof (ivs : list iv) (e : ut -> bool) (l : list ut) : list (Q * bool) :=
  map (fun u => (pgen tolv ivs (us u), e u)) l.

Lemma alloc_zeros (ivs : list iv) e a (l : list ut) :
  (forall u, In u l -> pgen tolv ivs (us u) - a <= tolv) -> Alloc tolv a (capsof ivs e l) (zeros l).
Proof.
  induction l as [|u l IH]; intro H; [constructor|].
  change (zeros (u :: l)) with (0 :: zeros l). unfold capsof. cbn [map].
  assert (Ht : thr tolv (pgen tolv ivs (us u) - a) = 0).
  { destruct (thr_cases tolv (pgen tolv ivs (us u) - a)) as [[Hc _]|[_ E]]; [|exact E].
    specialize (H u (or_introl eq_refl)). lra. }
  apply Alloc_cons with (a' := a).
  - lra.
  - rewrite Ht. lra.
  - intros _. rewrite Ht. reflexivity.
  - lra.
  - apply IH. intros u' Hu'. apply H. right. exact Hu'.
Qed.

Theorem assign_alloc ivs limit e :
  (forall u, e u = true -> ivclear ivs (us u) (utg u)) ->
  0 <= limit -> (forall v, In v ivs -> hadj v <= limit) ->
  forall l qa, 0 <= qa -> Alloc tolv qa (capsof ivs e l) (assign_loop tolv ivs limit l qa).
Proof.
  intros He Hl0 Hlim. induction l as [|u l IH]; intros qa Hqa; [constructor|].
  cbn [assign_loop]. unfold capsof. cbn [map].
  set (q := max_duty tolv ivs (us u) (utg u) qa).
  destruct (max_duty_bounds ivs (us u) (utg u) qa) as [Hq0 Hq1]. fold q in Hq0, Hq1.
  destruct (qltb tolv q) eqn:Eset.
  - (* duty set *)
    apply qltb_true in Eset.
    apply Alloc_cons with (a' := radd qa q); try assumption.
    + intro Hex. unfold q. apply max_duty_clear; [apply He; exact Hex|exact Hqa].
    + apply radd_eq.
    + destruct (qltb (Qabs (rsub limit (radd qa q))) tolv) eqn:Eb.
      * apply alloc_zeros. intros u' _. apply qltb_true in Eb. rewrite rsub_eq, radd_eq in Eb.
        pose proof (pgen_le ivs (us u') limit Hl0 Hlim). rewrite radd_eq.
        assert (limit - (qa + q) <= Qabs (limit - (qa + q))) by apply Qle_Qabs. lra.
      * apply IH. rewrite radd_eq. lra.
  - (* duty not set *)
    apply qltb_false in Eset.
    assert (Ht : e u = true -> thr tolv (pgen tolv ivs (us u) - qa) == 0).
    { intro Hex. assert (Hc := max_duty_clear ivs (us u) (utg u) qa (He u Hex) Hqa). fold q in Hc.
      destruct (thr_cases tolv (pgen tolv ivs (us u) - qa)) as [[Hc1 E1]|[_ E1]]; rewrite E1 in *; lra. }
    apply Alloc_cons with (a' := qa).
    + lra.
    + apply thr_nonneg. exact tol_pos.
    + intro Hex. rewrite (Ht Hex). reflexivity.
    + lra.
    + destruct (qltb (Qabs (rsub limit qa)) tolv) eqn:Eb.
      * apply alloc_zeros. intros u' _. apply qltb_true in Eb. rewrite rsub_eq in Eb.
        pose proof (pgen_le ivs (us u') limit Hl0 Hlim).
        assert (limit - qa <= Qabs (limit - qa)) by apply Qle_Qabs. lra.
      * apply IH. exact Hqa.
Qed.

(* ---- consequences for the loop itself ---- *)
Theorem assign_nonneg ivs limit l qa : Forall (fun q => 0 <= q) (assign_loop tolv ivs limit l qa).
Proof.
  revert qa. induction l as [|u l IH]; intro qa; cbn [assign_loop]; constructor.
  - destruct (qltb tolv (max_duty tolv ivs (us u) (utg u) qa)) eqn:E; [apply qltb_true in E; lra|lra].
  - destruct (qltb (Qabs (rsub limit (if qltb tolv (max_duty tolv ivs (us u) (utg u) qa) then radd qa (max_duty tolv ivs (us u) (utg u) qa) else qa))) tolv).
    + clear. induction l; constructor; [lra|assumption].
    + apply IH.
Qed.

Theorem assign_reach ivs limit l : forall qa, 0 <= qa ->
  Forall2 (fun u q => 0 < q -> exists v, In v ivs /\ reachv tolv (us u) v = true /\ tolv < hadj v)
          l (assign_loop tolv ivs limit l qa).
Proof.
  induction l as [|u l IH]; intros qa Hqa; cbn [assign_loop]; constructor.
  - intro Hp. destruct (qltb tolv (max_duty tolv ivs (us u) (utg u) qa)) eqn:E; [|lra].
    destruct (max_duty_pos_reach ivs (us u) (utg u) qa Hp) as [v [H1 [H2 H3]]]. exists v. repeat split; auto. lra.
  - destruct (max_duty_bounds ivs (us u) (utg u) qa) as [Hq0 _].
    destruct (qltb (Qabs (rsub limit (if qltb tolv (max_duty tolv ivs (us u) (utg u) qa) then radd qa (max_duty tolv ivs (us u) (utg u) qa) else qa))) tolv).
    + clear. induction l; constructor; [intro; lra|assumption].
    + apply IH. destruct (qltb tolv (max_duty tolv ivs (us u) (utg u) qa)); [rewrite radd_eq; lra|exact Hqa].
Qed.

Lemma capsof_le ivs e l limit : 0 <= limit -> (forall v, In v ivs -> hadj v <= limit) ->
  Forall (fun c => c <= limit) (caps (capsof ivs e l)).
Proof.
  intros H0 H. unfold caps, capsof. rewrite map_map. cbn [fst]. apply Forall_forall. intros c Hc.
  apply in_map_iff in Hc. destruct Hc as [u [<- _]]. apply pgen_le; assumption.
Qed.

(* never over-allocated: for EVERY ladder (gliding utilities included) the duties sum to at most the segment limit *)
Theorem assign_sum_le ivs limit l :
  0 <= limit -> (forall v, In v ivs -> hadj v <= limit) -> qsum (assign_loop tolv ivs limit l 0) <= limit.
Proof.
  intros H0 H.
  assert (A := assign_alloc ivs limit (fun _ => false) (fun u Hu => ltac:(discriminate)) H0 H l 0 (Qle_refl 0)).
  pose proof (alloc_total_le tolv 0 _ _ limit A H0 (capsof_le ivs _ l limit H0 H)). lra.
Qed.

(* the sum closes (to tol) as soon as ONE utility of the ladder is clear of the grid and reaches the whole demand *)
Theorem assign_sum_closes ivs limit l u :
  0 <= limit -> (forall v, In v ivs -> hadj v <= limit) ->
  In u l -> ivclear ivs (us u) (utg u) -> pgen tolv ivs (us u) == limit ->
  limit - tolv <= qsum (assign_loop tolv ivs limit l 0) /\ qsum (assign_loop tolv ivs limit l 0) <= limit.
Proof.
  intros H0 H Hin Hc Hp. split; [|apply assign_sum_le; assumption].
  set (e := fun u' : ut => if Qeq_dec (us u') (us u) then if Qeq_dec (utg u') (utg u) then true else false else false).
  assert (He : forall u', e u' = true -> ivclear ivs (us u') (utg u')).
  { intros u' Hu'. unfold e in Hu'. destruct (Qeq_dec (us u') (us u)) as [E1|]; [|discriminate].
    destruct (Qeq_dec (utg u') (utg u)) as [E2|]; [|discriminate].
    intros v Hv Hr. rewrite E2. apply (Hc v Hv).
    unfold reachv, dsup in *. apply andb_true_iff in Hr. destruct Hr as [Hr1 Hr2]. apply andb_true_iff. split; [exact Hr1|].
    apply qleb_true in Hr2. apply qleb_true. rewrite rsub_eq in *. lra. }
  assert (A := assign_alloc ivs limit e He H0 H l 0 (Qle_refl 0)).
  assert (Hin' : In (pgen tolv ivs (us u), true) (capsof ivs e l)).
  { unfold capsof. apply in_map_iff. exists u. split; [|exact Hin]. f_equal. unfold e.
    destruct (Qeq_dec (us u) (us u)) as [_|N]; [|exfalso; apply N; reflexivity].
    destruct (Qeq_dec (utg u) (utg u)) as [_|N]; [reflexivity|exfalso; apply N; reflexivity]. }
  pose proof (alloc_total_reach tolv tol_pos 0 _ _ _ A Hin'). lra.
Qed.

(* every utility clear of the grid: the loop computes exactly the lowest-grade-first closed form on the reachable demands *)
Theorem assign_eq_greedy ivs limit l :
  0 <= limit -> (forall v, In v ivs -> hadj v <= limit) ->
  (forall u, In u l -> ivclear ivs (us u) (utg u)) ->
  Forall2 Qeq (assign_loop tolv ivs limit l 0) (greedy tolv 0 (map (fun u => pgen tolv ivs (us u)) l)).
Proof.
  intros H0 H Hc.
  (* flag = membership in l is not decidable on Q-records up to ==; use the constant-true flag on the sublist by
     strengthening ivclear to all utilities met by the loop: done by induction over a suffix *)
  assert (G : forall l' qa, (forall u, In u l' -> ivclear ivs (us u) (utg u)) -> 0 <= qa ->
            Alloc tolv qa (map (fun u => (pgen tolv ivs (us u), true)) l') (assign_loop tolv ivs limit l' qa)).
  { induction l' as [|u l' IH]; intros qa Hcl Hqa; [constructor|].
    cbn [assign_loop map].
    set (q := max_duty tolv ivs (us u) (utg u) qa).
    destruct (max_duty_bounds ivs (us u) (utg u) qa) as [Hq0 Hq1]. fold q in Hq0, Hq1.
    assert (Hex : q == thr tolv (pgen tolv ivs (us u) - qa)).
    { unfold q. apply max_duty_clear; [apply Hcl; left; reflexivity|exact Hqa]. }
    assert (Hz : forall a (l2 : list ut), (forall u', In u' l2 -> pgen tolv ivs (us u') - a <= tolv) ->
                 Alloc tolv a (map (fun u => (pgen tolv ivs (us u), true)) l2) (zeros l2)).
    { intros a l2 Hz. exact (alloc_zeros ivs (fun _ => true) a l2 Hz). }
    destruct (qltb tolv q) eqn:Eset.
    - apply qltb_true in Eset. apply Alloc_cons with (a' := radd qa q); try assumption.
      + intros _. exact Hex.
      + apply radd_eq.
      + destruct (qltb (Qabs (rsub limit (radd qa q))) tolv) eqn:Eb.
        * apply Hz. intros u' _. apply qltb_true in Eb. rewrite rsub_eq, radd_eq in Eb.
          pose proof (pgen_le ivs (us u') limit H0 H). rewrite radd_eq.
          assert (limit - (qa + q) <= Qabs (limit - (qa + q))) by apply Qle_Qabs. lra.
        * apply IH; [intros u' Hu'; apply Hcl; right; exact Hu'|rewrite radd_eq; lra].
    - apply qltb_false in Eset.
      assert (Ht : thr tolv (pgen tolv ivs (us u) - qa) == 0).
      { destruct (thr_cases tolv (pgen tolv ivs (us u) - qa)) as [[Hc1 E1]|[_ E1]]; rewrite E1 in *; lra. }
      apply Alloc_cons with (a' := qa).
      + lra.
      + apply thr_nonneg. exact tol_pos.
      + intros _. rewrite Ht. reflexivity.
      + lra.
      + destruct (qltb (Qabs (rsub limit qa)) tolv) eqn:Eb.
        * apply Hz. intros u' _. apply qltb_true in Eb. rewrite rsub_eq in Eb.
          pose proof (pgen_le ivs (us u') limit H0 H).
          assert (limit - qa <= Qabs (limit - qa)) by apply Qle_Qabs. lra.
        * apply IH; [intros u' Hu'; apply Hcl; right; exact Hu'|exact Hqa]. }
  specialize (G l 0 Hc (Qle_refl 0)).
  pose proof (greedy_alloc tolv tol_pos (map (fun u => pgen tolv ivs (us u)) l) 0) as G'.
  rewrite map_map in G'. cbn beta in G'.
  eapply (alloc_exact_unique tolv tol_pos _ 0 0); [reflexivity| |exact G|exact G'].
  unfold all_exact. apply Forall_forall. intros p Hp. apply in_map_iff in Hp. destruct Hp as [u' [<- _]]. reflexivity.
Qed.

(* feasibility at a level, for ANY profile and ANY ladder: the utilities whose supply coordinate is at or below x
   carry together at most the largest enthalpy reachable from x *)
Theorem assign_level_feasible ivs limit l x :
  0 <= limit -> (forall v, In v ivs -> hadj v <= limit) ->
  msum (map (fun u => qleb (us u) x) l) (assign_loop tolv ivs limit l 0) <= pgen tolv ivs x.
Proof.
  intros H0 H.
  assert (A := assign_alloc ivs limit (fun _ => false) (fun u Hu => ltac:(discriminate)) H0 H l 0 (Qle_refl 0)).
  assert (M := alloc_masked tolv 0 _ _ (pgen tolv ivs x) A (map (fun u => qleb (us u) x) l)).
  assert (Hm : Forall2 (fun (b : bool) p => b = true -> fst p <= pgen tolv ivs x) (map (fun u => qleb (us u) x) l)
                       (capsof ivs (fun _ => false) l)).
  { clear. induction l as [|u l IH]; simpl; constructor; [|exact IH].
    intro Hb. apply qleb_true in Hb. simpl. apply pgen_mono. exact Hb. }
  specialize (M Hm). pose proof (pgen_nonneg ivs x).
  destruct (qmax_cases 0 (pgen tolv ivs x - 0)) as [[? E]|[? E]]; lra.
Qed.
End Duty.
