(* C07: the net heating / cooling load profiles (get_seperated_gcc_heat_load_profiles).
   Monotone and zero at the pinch side for EVERY input column; ending at Qh / Qc for every column that falls
   (in steps that are zero or larger than tol) to a zero and rises again -- which the pocket-free curve does. *)
From OP Require Import gen.Consts model.Base model.Pockets proofs.BaseFacts proofs.PocketsPL.
From Coq Require Import Lia Lqa.
Local Open Scope Q_scope.

Fixpoint chainQ (R : Q -> Q -> Prop) (l : list Q) : Prop :=
  match l with a :: ((b :: _) as r) => R a b /\ chainQ R r | _ => True end.
Lemma chainQ_tail (R : Q -> Q -> Prop) a l : chainQ R (a :: l) -> chainQ R l.
Proof. destruct l; simpl; [auto|]. intros [_ H]; exact H. Qed.
Lemma chainQ_map (R R' : Q -> Q -> Prop) (f : Q -> Q) l : (forall a b, R a b -> R' (f a) (f b)) -> chainQ R l -> chainQ R' (map f l).
Proof.
  intros Hf. induction l as [|a l IH]; intros H; [exact I|]. destruct l as [|b l]; [exact I|].
  destruct H as [H1 H2]. split; [apply Hf; exact H1|apply IH; exact H2].
Qed.
Lemma noninc_b_chain l : noninc_b l = true <-> chainQ (fun a b => b <= a) l.
Proof.
  induction l as [|a l IH]; [simpl; tauto|]. destruct l as [|b l]; [simpl; tauto|].
  change (noninc_b (a :: b :: l)) with (qleb b a && noninc_b (b :: l)). rewrite andb_true_iff, qleb_true, IH. simpl. tauto.
Qed.

Lemma cumsum_cons acc x r : cumsum acc (x :: r) = radd acc x :: cumsum (radd acc x) r.
Proof. reflexivity. Qed.
Lemma cumsum_up : forall l acc, Forall (fun x => 0 <= x) l -> chainQ (fun a b => a <= b) (acc :: cumsum acc l).
Proof.
  induction l as [|x l IH]; intros acc H; [exact I|]. inversion H as [|? ? H1 H2]; subst.
  rewrite cumsum_cons. split; [rewrite radd_eq; lra|apply IH; exact H2].
Qed.
Lemma cumsum_down : forall l acc, Forall (fun x => x <= 0) l -> chainQ (fun a b => b <= a) (acc :: cumsum acc l).
Proof.
  induction l as [|x l IH]; intros acc H; [exact I|]. inversion H as [|? ? H1 H2]; subst.
  rewrite cumsum_cons. split; [rewrite radd_eq; lra|apply IH; exact H2].
Qed.

(* THE PROFILES ARE MONOTONE, whatever the column *)
Theorem profiles_monotone tq np : noninc_b (fst (profiles tq np)) = true /\ noninc_b (snd (profiles tq np)) = true.
Proof.
  unfold profiles. cbn [fst snd]. split; apply noninc_b_chain.
  - apply (chainQ_map (fun a b => b <= a) (fun a b => b <= a) Qred); [intros a b H; rewrite !Qred_correct; exact H|].
    apply (chainQ_map (fun a b => a <= b) (fun a b => b <= a) Qopp); [intros a b H; lra|].
    apply (chainQ_tail _ 0). apply cumsum_up.
    rewrite Forall_map. rewrite Forall_forall. intros d _. destruct (qleb d 0) eqn:E; [apply qleb_true in E; lra|lra].
  - apply (chainQ_map (fun a b => b <= a) (fun a b => b <= a)); [intros a b H; rewrite !radd_eq; lra|].
    apply (chainQ_tail _ 0). apply cumsum_down.
    rewrite Forall_map. rewrite Forall_forall. intros d _. destruct (qleb d 0) eqn:E; [lra|apply qleb_false in E; lra].
Qed.

(* both profiles are zero at the pinch side: the heating profile starts at 0, the cooling profile ends at 0 *)
Lemma delta0_cons tq x r : delta0 tq (x :: r) = 0 :: deltas tq x r.
Proof. reflexivity. Qed.
Lemma last_map_any {A B} (f : A -> B) (l : list A) d d' : l <> [] -> last (map f l) d' = f (last l d).
Proof.
  induction l as [|a l IH]; intros H; [congruence|]. destruct l as [|b l]; [reflexivity|].
  change (map f (a :: b :: l)) with (f a :: f b :: map f l). rewrite !last_cons2. apply IH. discriminate.
Qed.
Theorem profiles_zero_side tq np : np <> [] ->
  hd 1 (fst (profiles tq np)) == 0 /\ last (snd (profiles tq np)) 1 == 0.
Proof.
  intros Hne. destruct np as [|x r]; [congruence|]. unfold profiles. cbn [fst snd]. rewrite delta0_cons. split.
  - cbn [map]. rewrite cumsum_cons. cbn [map hd]. rewrite Qred_correct, radd_eq.
    assert (E : qleb 0 0 = true) by reflexivity. rewrite E. ring.
  - set (c0 := cumsum 0 (map (fun d => if qleb d 0 then 0 else - d) (0 :: deltas tq x r))).
    assert (Hc : c0 <> []) by (unfold c0; cbn [map]; rewrite cumsum_cons; discriminate).
    rewrite (last_map_any _ c0 0 1 Hc). rewrite radd_eq. ring.
Qed.

(* ---------- ending at Qh / Qc ---------- *)
(* a step of the column: equal, or apart by more than tq *)
Definition Down (tq a b : Q) : Prop := b == a \/ b + tq < a.
Definition Up (tq a b : Q) : Prop := b == a \/ a + tq < b.

Definition zsmall (tq d : Q) : Q := if qleb (Qabs d) tq then 0 else d.
Lemma deltas_cons tq prev x r : deltas tq prev (x :: r) = zsmall tq (rsub prev x) :: deltas tq x r.
Proof. reflexivity. Qed.
Lemma zsmall_down tq a b : 0 < tq -> Down tq a b -> zsmall tq (rsub a b) == a - b /\ 0 <= a - b.
Proof.
  intros Ht H. pose proof (rsub_eq a b) as Ed. set (d := rsub a b) in *. unfold zsmall.
  destruct (qleb (Qabs d) tq) eqn:Eq.
  - apply qleb_true in Eq. destruct H as [E|E]; [lra|]. rewrite Qabs_pos in Eq by lra. lra.
  - destruct H as [E|E]; lra.
Qed.
Lemma zsmall_up tq a b : 0 < tq -> Up tq a b -> zsmall tq (rsub a b) == a - b /\ a - b <= 0.
Proof.
  intros Ht H. pose proof (rsub_eq a b) as Ed. set (d := rsub a b) in *. unfold zsmall.
  destruct (qleb (Qabs d) tq) eqn:Eq.
  - apply qleb_true in Eq. destruct H as [E|E]; [lra|]. rewrite Qabs_neg in Eq by lra. lra.
  - destruct H as [E|E]; lra.
Qed.

(* sums of the positive / non-positive increments, as the code accumulates them *)
Definition pos_inc (d : Q) : Q := if qleb d 0 then 0 else - d.
Definition neg_inc (d : Q) : Q := if qleb d 0 then - d else 0.
Lemma last_cumsum : forall l acc, last (cumsum acc l) acc == acc + qsum l.
Proof.
  induction l as [|x l IH]; intros acc; [simpl; ring|]. rewrite cumsum_cons.
  destruct l as [|y l].
  - cbn [cumsum last]. unfold qsum. cbn [fold_right]. rewrite radd_eq, Qred_correct. ring.
  - rewrite cumsum_cons, last_cons2. rewrite <- cumsum_cons.
    rewrite (last_dflt (cumsum (radd acc x) (y :: l)) acc (radd acc x)) by (rewrite cumsum_cons; discriminate).
    rewrite IH. rewrite radd_eq. change (qsum (x :: y :: l)) with (Qred (x + qsum (y :: l))). rewrite Qred_correct. ring.
Qed.

Lemma sums_down tq : 0 < tq -> forall l a, chainQ (Down tq) (a :: l) ->
  qsum (map pos_inc (deltas tq a l)) == - (a - last l a) /\ qsum (map neg_inc (deltas tq a l)) == 0.
Proof.
  intros Ht. induction l as [|b l IH]; intros a H; [simpl; split; ring|].
  destruct H as [H1 H2]. rewrite deltas_cons. cbn [map]. destruct (zsmall_down tq a b Ht H1) as [E1 E2].
  destruct (IH b (H2 : chainQ (Down tq) (b :: l))) as [I1 I2].
  change (qsum (?x :: ?r)) with (Qred (x + qsum r)). rewrite !Qred_correct, I1, I2.
  assert (El : last (b :: l) a == last l b).
  { destruct l as [|c l]; [reflexivity|]. rewrite last_cons2. rewrite (last_dflt (c :: l) a b) by discriminate. reflexivity. }
  rewrite El. unfold pos_inc, neg_inc.
  destruct (qleb (zsmall tq (rsub a b)) 0) eqn:Eq.
  - apply qleb_true in Eq. split; lra.
  - split; lra.
Qed.
Lemma sums_up tq : 0 < tq -> forall l a, chainQ (Up tq) (a :: l) ->
  qsum (map pos_inc (deltas tq a l)) == 0 /\ qsum (map neg_inc (deltas tq a l)) == last l a - a.
Proof.
  intros Ht. induction l as [|b l IH]; intros a H; [simpl; split; ring|].
  destruct H as [H1 H2]. rewrite deltas_cons. cbn [map]. destruct (zsmall_up tq a b Ht H1) as [E1 E2].
  destruct (IH b (H2 : chainQ (Up tq) (b :: l))) as [I1 I2].
  change (qsum (?x :: ?r)) with (Qred (x + qsum r)). rewrite !Qred_correct, I1, I2.
  assert (El : last (b :: l) a == last l b).
  { destruct l as [|c l]; [reflexivity|]. rewrite last_cons2. rewrite (last_dflt (c :: l) a b) by discriminate. reflexivity. }
  rewrite El. unfold pos_inc, neg_inc.
  destruct (qleb (zsmall tq (rsub a b)) 0) eqn:Eq.
  - split; lra.
  - apply qleb_false in Eq. split; lra.
Qed.
Lemma deltas_app tq : forall l1 a m l2, deltas tq a (l1 ++ m :: l2) = deltas tq a (l1 ++ [m]) ++ deltas tq m l2.
Proof.
  induction l1 as [|b l1 IH]; intros a m l2; [reflexivity|].
  simpl app. rewrite !deltas_cons. simpl app. f_equal. apply IH.
Qed.
Lemma qsum_app l1 l2 : qsum (l1 ++ l2) == qsum l1 + qsum l2.
Proof.
  induction l1 as [|x l1 IH]; [simpl; ring|]. simpl app. change (qsum (?x :: ?r)) with (Qred (x + qsum r)).
  rewrite !Qred_correct, IH. ring.
Qed.

(* the two end values in terms of the sums of the increments *)
Lemma profiles_from_sums tq a rest :
  hd 0 (snd (profiles tq (a :: rest))) == - qsum (map pos_inc (deltas tq a rest))
  /\ - last (fst (profiles tq (a :: rest))) 0 == qsum (map neg_inc (deltas tq a rest)).
Proof.
  unfold profiles. cbn [fst snd]. rewrite delta0_cons. fold pos_inc neg_inc.
  assert (E : qleb 0 0 = true) by reflexivity.
  split.
  - set (incs := map pos_inc (0 :: deltas tq a rest)).
    change (map (fun d => if qleb d 0 then 0 else - d) (0 :: deltas tq a rest)) with incs.
    assert (Hs : qsum incs == qsum (map pos_inc (deltas tq a rest))).
    { unfold incs. cbn [map]. change (qsum (?x :: ?r)) with (Qred (x + qsum r)). rewrite Qred_correct. unfold pos_inc at 1. rewrite E. lra. }
    assert (Hl : last (cumsum 0 incs) 0 == 0 + qsum incs) by apply last_cumsum.
    assert (Ec : exists C', cumsum 0 incs = radd 0 (pos_inc 0) :: C') by (unfold incs; cbn [map]; rewrite cumsum_cons; eexists; reflexivity).
    destruct Ec as [C' Ec]. rewrite Ec in *. cbn [map hd]. rewrite !radd_eq. rewrite Hl, Hs.
    unfold pos_inc at 1. rewrite E. rewrite ?radd_eq. lra.
  - set (incs := map neg_inc (0 :: deltas tq a rest)).
    change (map (fun d => if qleb d 0 then - d else 0) (0 :: deltas tq a rest)) with incs.
    assert (Hs : qsum incs == qsum (map neg_inc (deltas tq a rest))).
    { unfold incs. cbn [map]. change (qsum (?x :: ?r)) with (Qred (x + qsum r)). rewrite Qred_correct. unfold neg_inc at 1. rewrite E. lra. }
    assert (Hne : cumsum 0 incs <> []) by (unfold incs; cbn [map]; rewrite cumsum_cons; discriminate).
    rewrite (last_map_any Qred _ 0 0) by (destruct (cumsum 0 incs); [congruence|discriminate]).
    rewrite (last_map_any Qopp _ 0 0 Hne). rewrite Qred_correct.
    rewrite (last_cumsum incs 0). rewrite Hs. lra.
Qed.

(* a column that falls (from its first row, or not at all) to a zero m and rises again *)
Theorem profiles_ends_valley tq l1 m l2 : 0 < tq -> m == 0 ->
  chainQ (Down tq) (l1 ++ [m]) -> chainQ (Up tq) (m :: l2) ->
  let np := l1 ++ m :: l2 in
  hd 0 (snd (profiles tq np)) == hd m l1 /\ - last (fst (profiles tq np)) 0 == last l2 m.
Proof.
  intros Ht Em Hd Hu np. unfold np. destruct (sums_up tq Ht l2 m Hu) as [U1 U2].
  destruct l1 as [|a l1].
  - cbn [app hd]. destruct (profiles_from_sums tq m l2) as [P1 P2]. rewrite P1, P2, U1, U2. split; lra.
  - cbn [app hd] in *. destruct (profiles_from_sums tq a (l1 ++ m :: l2)) as [P1 P2]. rewrite P1, P2.
    rewrite deltas_app, !map_app, !qsum_app.
    destruct (sums_down tq Ht (l1 ++ [m]) a Hd) as [D1 D2]. rewrite last_last in D1.
    rewrite D1, D2, U1, U2. split; lra.
Qed.
