(* C15 -- cost laws of utils/costing.py as generated in gen/Scalar.v. *)
From Coq Require Import Reals Lra Psatz.
From OP Require Import gen.Consts gen.HxDispatch gen.Scalar proofs.HXBase.
Local Open Scope R_scope.

(* capital cost = N (a + b (A/N)^c) *)
Lemma capital_cost_def A N a b c : compute_capital_cost_R A N a b c = N * (a + b * Rpower (A / N) c).
Proof. unfold compute_capital_cost_R. ring. Qed.

Lemma annual_cost_def K i n : compute_annual_capital_cost_R K i n = K * compute_capital_recovery_factor_R i n.
Proof. reflexivity. Qed.

Lemma crf_form i n : compute_capital_recovery_factor_R i n = i * Rpower (1 + i) n / (Rpower (1 + i) n - 1).
Proof. reflexivity. Qed.

(* integer service life: Rpower is the ordinary power *)
Lemma crf_nat i (n : nat) : 0 < i -> compute_capital_recovery_factor_R i (INR n) = i * (1 + i) ^ n / ((1 + i) ^ n - 1).
Proof. intro Hi. rewrite crf_form, Rpower_pow by lra. reflexivity. Qed.

(* discounted annuities: sum_{k=1..n} (1+i)^-k *)
Fixpoint annuity (i : R) (n : nat) : R := match n with O => 0 | S k => annuity i k + / (1 + i) ^ (S k) end.

Lemma annuity_closed i n : 0 < i -> annuity i n = (1 - / (1 + i) ^ n) / i.
Proof.
  intro Hi. induction n as [|k IH].
  - simpl. rewrite Rinv_1. unfold Rdiv. ring.
  - change (annuity i (S k)) with (annuity i k + / (1 + i) ^ (S k)). rewrite IH.
    assert (Hp : (1 + i) ^ k <> 0) by (apply pow_nonzero; lra). simpl. field. repeat split; try lra; assumption.
Qed.

Lemma pow_gt1 x n : 1 < x -> (1 <= n)%nat -> 1 < x ^ n.
Proof.
  intros Hx Hn. induction n as [|k IH]; [inversion Hn|]. destruct k.
  - simpl. lra.
  - assert (1 < x ^ S k) by (apply IH; auto with arith). simpl in *. nra.
Qed.

(* the capital-recovery factor is the payment whose discounted annuities sum to one *)
Theorem crf_annuity i (n : nat) : 0 < i -> (1 <= n)%nat -> compute_capital_recovery_factor_R i (INR n) * annuity i n = 1.
Proof.
  intros Hi Hn. rewrite crf_nat by exact Hi. rewrite annuity_closed by exact Hi.
  pose proof (pow_gt1 (1 + i) n ltac:(lra) Hn) as Hp. field. repeat split; lra.
Qed.

(* real-valued service life: the factor is positive and exceeds the interest rate (no annuity sum is defined) *)
Theorem crf_real_partial i n : 0 < i -> 0 < n -> i < compute_capital_recovery_factor_R i n.
Proof.
  intros Hi Hn. rewrite crf_form. pose proof (Rpower_gt1 (1 + i) n ltac:(lra) Hn) as Hq. set (q := Rpower (1 + i) n) in *.
  apply (Rmult_lt_reg_r (q - 1)); [lra|]. unfold Rdiv. rewrite Rmult_assoc, Rinv_l by lra. nra.
Qed.

(* both costs increase with area (b, c > 0, N > 0) *)
Theorem cost_increasing_in_area A1 A2 N a b c : 0 < A1 -> A1 < A2 -> 0 < N -> 0 < b -> 0 < c ->
  compute_capital_cost_R A1 N a b c < compute_capital_cost_R A2 N a b c.
Proof.
  intros H1 H12 HN Hb Hc. rewrite !capital_cost_def.
  assert (Hx : A1 / N < A2 / N) by (unfold Rdiv; apply Rmult_lt_compat_r; [apply Rinv_0_lt_compat|]; lra).
  assert (H0 : 0 < A1 / N) by (apply Rdiv_lt_0_compat; lra).
  assert (Rpower (A1 / N) c < Rpower (A2 / N) c) by (apply Rlt_Rpower_l; lra).
  apply Rmult_lt_compat_l; [exact HN|]. apply Rplus_lt_compat_l. apply Rmult_lt_compat_l; assumption.
Qed.

Theorem annual_cost_increasing A1 A2 N a b c i n : 0 < A1 -> A1 < A2 -> 0 < N -> 0 < b -> 0 < c -> 0 < i -> 0 < n ->
  compute_annual_capital_cost_R (compute_capital_cost_R A1 N a b c) i n < compute_annual_capital_cost_R (compute_capital_cost_R A2 N a b c) i n.
Proof.
  intros H1 H12 HN Hb Hc Hi Hn. rewrite !annual_cost_def. apply Rmult_lt_compat_r.
  - pose proof (crf_real_partial i n Hi Hn). lra.
  - apply cost_increasing_in_area; assumption.
Qed.
