(* C06, composed: what ProblemTable.pinch_idx / pinch_temperatures report on the table of the cascade model, stated about the
   EXACT residual R(T) = Qh* - Dnet(T) of the streams at EVERY real temperature T (not only at table rows).

   Pieces that existed: proofs/PinchFacts.v (pinch_idx on ANY column: the two rows are zeros of the column, ordered, other
   zeros lie between them or in a zero run touching an end), proofs/CascadeTargets.v (the H_net column of the model table IS
   the exact residual on every row; Qh is the supremum of the net deficit), proofs/PinchResidual.v (an exact zero strictly
   between two rows forces exact zeros on both rows).  Here they are composed, generically for a grid that covers the end
   points of grid-aligned streams (`pinch_composed`), then instantiated for inputs on the rounding lattice
   (`stage_pinch_composed`) and for arbitrary doubles via the streams rounded to the grid's decimals
   (`stage_rounded_pinch_composed`). *)
From OP Require Import gen.Consts model.Base model.Cascade model.Pinch proofs.BaseFacts proofs.CascadeSpec proofs.CascadeExact
  proofs.CascadeTargets proofs.CascadeGrid proofs.PinchFacts proofs.PinchResidual.
From Coq Require Import Lqa Lia.
Local Open Scope Q_scope.
Local Arguments Qred : simpl never.

(* ------------------------------------------------------------------ positions in a descending list *)
Lemma desc_nth_lt g : desc g -> forall i j, (i < j)%nat -> (j < List.length g)%nat -> nth j g 0 < nth i g 0.
Proof.
  induction g as [|a t IH]; intros Hd i j Hij Hj; [simpl in Hj; lia|]. destruct j as [|j]; [lia|]. simpl in Hj.
  destruct i as [|i].
  - simpl. pose proof (desc_tail_lt a t Hd) as F. rewrite Forall_forall in F. apply F. apply nth_In. lia.
  - simpl. apply IH; [apply Hd|lia|lia].
Qed.
Lemma desc_nth_le g : desc g -> forall i j, (i <= j)%nat -> (j < List.length g)%nat -> nth j g 0 <= nth i g 0.
Proof.
  intros Hd i j Hij Hj. destruct (Nat.eq_dec i j) as [E|E]; [subst; lra|].
  pose proof (desc_nth_lt g Hd i j ltac:(lia) Hj). lra.
Qed.
Lemma desc_nth_idx g : desc g -> forall i j, (i < List.length g)%nat -> (j < List.length g)%nat -> nth j g 0 < nth i g 0 -> (i < j)%nat.
Proof.
  intros Hd i j Hi Hj H. destruct (Nat.lt_ge_cases i j) as [L|L]; [exact L|].
  pose proof (desc_nth_le g Hd j i L Hi). lra.
Qed.
Lemma split_at (g : list Q) : forall k, (S k < List.length g)%nat ->
  g = firstn k g ++ nth k g 0 :: nth (S k) g 0 :: skipn (S (S k)) g.
Proof.
  induction g as [|a t IH]; intros k H; [simpl in H; lia|]. destruct k as [|k].
  - destruct t as [|b t']; [simpl in H; lia|]. reflexivity.
  - simpl in H. change (a :: t = a :: (firstn k t ++ nth k t 0 :: nth (S k) t 0 :: skipn (S (S k)) t)).
    f_equal. apply IH. lia.
Qed.
(* a temperature inside the range of the grid lies in one interval between consecutive rows *)
Lemma locate_lo g : desc g -> forall T, nth (List.length g - 1) g 0 <= T -> T < nth 0 g 0 ->
  exists k, (S k < List.length g)%nat /\ nth (S k) g 0 <= T /\ T < nth k g 0.
Proof.
  induction g as [|a t IH]; intros Hd T H1 H2; [simpl in *; lra|]. destruct t as [|b t'].
  - simpl in *. lra.
  - destruct (Qlt_le_dec T b) as [L|L].
    + destruct (IH (proj2 Hd) T) as [k [K1 [K2 K3]]].
      * replace (List.length (a :: b :: t') - 1)%nat with (S (List.length (b :: t') - 1)) in H1 by (simpl; lia). exact H1.
      * exact L.
      * exists (S k). split; [simpl in *; lia|]. split; assumption.
    + exists O. split; [simpl; lia|]. split; [exact L|exact H2].
Qed.
Lemma locate_hi g : desc g -> forall T, nth (List.length g - 1) g 0 < T -> T <= nth 0 g 0 ->
  exists k, (S k < List.length g)%nat /\ nth (S k) g 0 < T /\ T <= nth k g 0.
Proof.
  induction g as [|a t IH]; intros Hd T H1 H2; [simpl in *; lra|]. destruct t as [|b t'].
  - simpl in *. lra.
  - destruct (Qlt_le_dec b T) as [L|L].
    + exists O. split; [simpl; lia|]. split; [exact L|exact H2].
    + destruct (IH (proj2 Hd) T) as [k [K1 [K2 K3]]].
      * replace (List.length (a :: b :: t') - 1)%nat with (S (List.length (b :: t') - 1)) in H1 by (simpl; lia). exact H1.
      * exact L.
      * exists (S k). split; [simpl in *; lia|]. split; assumption.
Qed.
Lemma hd_nth0 (g : list Q) : hd 0 g = nth 0 g 0.
Proof. destruct g; reflexivity. Qed.
Lemma last_nth_len (g : list Q) : last g 0 = nth (List.length g - 1) g 0.
Proof.
  induction g as [|a t IH]; [reflexivity|]. destruct t as [|b t']; [reflexivity|].
  change (last (a :: b :: t') 0) with (last (b :: t') 0). rewrite IH. simpl. rewrite Nat.sub_0_r. reflexivity.
Qed.

(* ------------------------------------------------------------------ the composed specification *)
(* R: the exact residual as a function of temperature; g: the row temperatures; rh, rc: the reported pinch rows.
   1 the rows exist and are ordered; 2/3 the residual is a zero (0 <= R < tolv) at both reported temperatures; 4 hot >= cold;
   5 a near-zero at a real temperature ABOVE the hot pinch: either the residual is a zero at EVERY temperature from the hot
     pinch upwards (a zero run touching the top: threshold problem), or that temperature lies in the one interval directly
     above the hot pinch row, whose upper row is not a zero;      6 symmetrically below the cold pinch;
   7/8 an EXACT zero above the hot / below the cold pinch is only possible in the first way;
   9/10 threshold: when the residual is a zero at the top (bottom) of the grid, the hot (cold) pinch is the process-side end
     of that run: zero everywhere from it to the end, and the next row beyond it is not a zero. *)
Definition pinch_real_spec (tolv : Q) (R : Q -> Q) (g : list Q) (rh rc : nat) : Prop :=
  let n := List.length g in let Th := nth rh g 0 in let Tc := nth rc g 0 in
  ((rh <= rc)%nat /\ (rc < n)%nat)
  /\ (0 <= R Th /\ R Th < tolv)
  /\ (0 <= R Tc /\ R Tc < tolv)
  /\ Tc <= Th
  /\ (forall T, Th < T -> R T < tolv ->
        (forall T', Th <= T' -> R T' < tolv)
        \/ ((0 < rh)%nat /\ T < nth (rh - 1) g 0 /\ tolv <= R (nth (rh - 1) g 0)))
  /\ (forall T, T < Tc -> R T < tolv ->
        (forall T', T' <= Tc -> R T' < tolv)
        \/ ((S rc < n)%nat /\ nth (S rc) g 0 < T /\ tolv <= R (nth (S rc) g 0)))
  /\ (forall T, Th < T -> R T == 0 -> forall T', Th <= T' -> R T' < tolv)
  /\ (forall T, T < Tc -> R T == 0 -> forall T', T' <= Tc -> R T' < tolv)
  /\ (R (nth 0 g 0) < tolv -> (forall T', Th <= T' -> R T' < tolv) /\ (S rh < n)%nat /\ tolv <= R (nth (S rh) g 0))
  /\ (R (nth (n - 1) g 0) < tolv -> (forall T', T' <= Tc -> R T' < tolv) /\ (0 < rc)%nat /\ tolv <= R (nth (rc - 1) g 0)).

Section Composed.
Variable tolv : Q.
Hypothesis tol_pos : 0 < tolv.
Variables w d : Q.
Hypothesis d_nonneg : 0 <= d.
Hypothesis d_lt_w : d < w.
(* hot/cold: the streams as the code's activity test sees them; hotR/coldR: the same streams aligned with the grid *)
Variables hot cold hotR coldR : list view.
Hypothesis Fh : Forall2 (nearv d) hot hotR.
Hypothesis Fc : Forall2 (nearv d) cold coldR.
Hypothesis Wh : wfs hotR.
Hypothesis Wc : wfs coldR.
Variable g : list Q.
Hypothesis Hd : desc g.
Hypothesis Hne : g <> [].
Hypothesis Hcov : covers g (eps_all hotR coldR).
Hypothesis Hgap : gaps_ok w d g.

Let p := pta w hot cold g.
Let h := pHn p.
Let n := List.length g.
Let D := Dnet hotR coldR.
Notation R := (residual hotR coldR).

Lemma Qs_eq : Qh_star hotR coldR == Qh_of p.
Proof. apply (Qh_star_eq w d d_nonneg d_lt_w hot cold hotR coldR); assumption. Qed.
Lemma D_le_Qs T : D T <= Qh_star hotR coldR.
Proof. rewrite Qs_eq. apply (Qh_is_sup w d d_nonneg d_lt_w hot cold hotR coldR Fh Fc Wh Wc g Hd Hne Hcov Hgap). Qed.
Lemma R_nonneg T : 0 <= R T.
Proof. unfold residual. pose proof (D_le_Qs T). unfold D in *. lra. Qed.
Lemma pT_g : pT p = g.
Proof. unfold p, pta. cbn [pT]. apply raw_rows_T. Qed.
Lemma len_rs : List.length (raw_rows w hot cold g) = n.
Proof. pose proof (f_equal (@List.length Q) (raw_rows_T w hot cold g)) as E. rewrite map_length in E. exact E. Qed.
Lemma len_h : List.length h = n.
Proof. unfold h, p, pta. cbn [pHn]. rewrite !map_length. apply len_rs. Qed.
Lemma n_pos : (0 < n)%nat.
Proof. unfold n. destruct g; [congruence|simpl; lia]. Qed.

(* the H_net cell of row i is the exact residual at the temperature of row i *)
Lemma h_R i : (i < n)%nat -> nth i h 1 == R (nth i g 0).
Proof.
  intro Hi.
  assert (L1 : (i < List.length (pT p))%nat) by (rewrite pT_g; exact Hi).
  assert (L2 : (i < List.length (pHh p))%nat) by (unfold p, pta; cbn [pHh]; rewrite !map_length, len_rs; exact Hi).
  assert (L3 : (i < List.length (pHc p))%nat) by (unfold p, pta; cbn [pHc]; rewrite !map_length, len_rs; exact Hi).
  assert (L4 : (i < List.length h)%nat) by (rewrite len_h; exact Hi).
  destruct (curves_exact w d d_nonneg d_lt_w hot cold hotR coldR Fh Fc Wh Wc g Hd Hne Hcov Hgap i
              (nth i (pT p) 0) (nth i (pHh p) 0) (nth i (pHc p) 0) (nth i h 1)
              (nth_error_nth' _ 0 L1) (nth_error_nth' _ 0 L2) (nth_error_nth' _ 0 L3) (nth_error_nth' _ 1 L4)) as [_ [_ [_ [E _]]]].
  rewrite E. fold p. rewrite pT_g. unfold residual. rewrite Qs_eq. reflexivity.
Qed.
Lemma zb_R i : (i < n)%nat -> (zb tolv h i = true <-> R (nth i g 0) < tolv).
Proof.
  intro Hi. unfold zb, isz. rewrite qltb_true. rewrite (h_R i Hi). rewrite (Qabs_pos _ (R_nonneg _)). tauto.
Qed.
Lemma zb_R_false i : (i < n)%nat -> (zb tolv h i = false <-> tolv <= R (nth i g 0)).
Proof.
  intro Hi. pose proof (zb_R i Hi) as Z. destruct (zb tolv h i).
  - split; [discriminate|]. intro L. assert (R (nth i g 0) < tolv) by (apply Z; reflexivity). lra.
  - split; [|reflexivity]. intros _. destruct (Qlt_le_dec (R (nth i g 0)) tolv) as [L|L]; [|exact L].
    apply Z in L. discriminate.
Qed.

(* between two consecutive rows the net deficit is linear *)
Lemma D_seg k T : (S k < n)%nat -> nth (S k) g 0 <= T -> T <= nth k g 0 ->
  exists K, D T - D (nth k g 0) == (nth k g 0 - T) * K /\ D (nth (S k) g 0) - D (nth k g 0) == (nth k g 0 - nth (S k) g 0) * K
            /\ nth (S k) g 0 < nth k g 0.
Proof.
  intros Hk H1 H2. pose proof (split_at g k Hk) as E.
  assert (Hab : nth (S k) g 0 < nth k g 0) by (apply desc_nth_lt; [exact Hd|lia|exact Hk]).
  exists (spansum coldR (nth k g 0) (nth (S k) g 0) - spansum hotR (nth k g 0) (nth (S k) g 0)). split; [|split; [|exact Hab]].
  - apply (D_lin hotR coldR Wh Wc g _ _ _ _ T E Hd Hcov H1 H2).
  - apply (D_lin hotR coldR Wh Wc g _ _ _ _ (nth (S k) g 0) E Hd Hcov); lra.
Qed.
Lemma R_seg k T : (S k < n)%nat -> nth (S k) g 0 <= T -> T <= nth k g 0 ->
  (R (nth k g 0) <= R T \/ R (nth (S k) g 0) <= R T) /\ (R T <= R (nth k g 0) \/ R T <= R (nth (S k) g 0)).
Proof.
  intros Hk H1 H2. destruct (D_seg k T Hk H1 H2) as [K [E1 [E2 Hab]]]. unfold residual. fold D.
  set (a := nth k g 0) in *. set (b := nth (S k) g 0) in *.
  destruct (Qlt_le_dec K 0) as [Kn|Kp].
  - split; [left|right]; nra.
  - split; [right|left]; nra.
Qed.
Lemma R_seg_zero k T : (S k < n)%nat -> nth (S k) g 0 < T -> T < nth k g 0 -> R T == 0 ->
  R (nth k g 0) == 0 /\ R (nth (S k) g 0) == 0.
Proof.
  intros Hk H1 H2 Z. pose proof (split_at g k Hk) as E.
  destruct (residual_zero_on_rows hotR coldR g _ _ _ _ T (Qh_star hotR coldR) Wh Wc E Hd Hcov H1 H2
              (D_le_Qs _) (D_le_Qs _)) as [A B].
  - unfold residual in Z. lra.
  - unfold residual. split; lra.
Qed.

Lemma top_bounds ss : covers g (endpoints ss) -> forall s, In s ss -> hi s <= nth 0 g 0.
Proof.
  intros C s Hs. destruct (C (hi s) (proj2 (endpoints_in ss s Hs))) as [z [Hz Ez]].
  destruct g as [|a t]; [destruct Hz|]. pose proof (desc_le_head a t z Hd Hz). simpl. lra.
Qed.
Lemma bot_bounds ss : covers g (endpoints ss) -> forall s, In s ss -> nth (n - 1) g 0 <= lo s.
Proof.
  intros C s Hs. destruct (C (lo s) (proj1 (endpoints_in ss s Hs))) as [z [Hz Ez]].
  pose proof (desc_ge_last g z Hd Hz) as L. rewrite last_nth_len in L. fold n in L. lra.
Qed.
(* at and above the first row / at and below the last row the residual is constant *)
Lemma R_above T : nth 0 g 0 <= T -> R T == R (nth 0 g 0).
Proof.
  intro H. destruct (covers_split hotR coldR g Hcov) as [Ch Cc]. unfold residual, Dnet.
  rewrite (heat_above_top hotR T) by (intros s Hs; pose proof (top_bounds hotR Ch s Hs); lra).
  rewrite (heat_above_top coldR T) by (intros s Hs; pose proof (top_bounds coldR Cc s Hs); lra).
  rewrite (heat_above_top hotR (nth 0 g 0)) by (apply top_bounds; exact Ch).
  rewrite (heat_above_top coldR (nth 0 g 0)) by (apply top_bounds; exact Cc). reflexivity.
Qed.
Lemma R_below T : T <= nth (n - 1) g 0 -> R T == R (nth (n - 1) g 0).
Proof.
  intro H. destruct (covers_split hotR coldR g Hcov) as [Ch Cc]. unfold residual, Dnet.
  rewrite (heat_above_bottom hotR T Wh) by (intros s Hs; pose proof (bot_bounds hotR Ch s Hs); lra).
  rewrite (heat_above_bottom coldR T Wc) by (intros s Hs; pose proof (bot_bounds coldR Cc s Hs); lra).
  rewrite (heat_above_bottom hotR (nth (n - 1) g 0) Wh) by (apply bot_bounds; exact Ch).
  rewrite (heat_above_bottom coldR (nth (n - 1) g 0) Wc) by (apply bot_bounds; exact Cc). reflexivity.
Qed.

(* a run of zero ROWS from the top down to row rh is a run of zeros at every real temperature from T_rh upwards *)
Lemma run_top rh : (rh < n)%nat -> (forall j, (j <= rh)%nat -> zb tolv h j = true) ->
  forall T', nth rh g 0 <= T' -> R T' < tolv.
Proof.
  intros Hrh Run T' HT. destruct (Qlt_le_dec T' (nth 0 g 0)) as [L|L].
  - assert (Lb : nth (List.length g - 1) g 0 <= T').
    { fold n. pose proof (desc_nth_le g Hd rh (n - 1)%nat ltac:(lia) ltac:(unfold n in *; lia)). lra. }
    destruct (locate_lo g Hd T' Lb L) as [k [K1 [K2 K3]]]. fold n in K1.
    assert (Hk : (k < rh)%nat) by (apply (desc_nth_idx g Hd); [unfold n in *; lia|exact Hrh|lra]).
    destruct (R_seg k T' K1 K2 ltac:(lra)) as [_ [U|U]].
    + pose proof (proj1 (zb_R k ltac:(lia)) (Run k ltac:(lia))). lra.
    + pose proof (proj1 (zb_R (S k) K1) (Run (S k) ltac:(lia))). lra.
  - rewrite (R_above T' L). apply (zb_R O n_pos). apply Run. lia.
Qed.
Lemma run_bot rc : (rc < n)%nat -> (forall j, (rc <= j)%nat -> (j < n)%nat -> zb tolv h j = true) ->
  forall T', T' <= nth rc g 0 -> R T' < tolv.
Proof.
  intros Hrc Run T' HT. destruct (Qlt_le_dec (nth (n - 1) g 0) T') as [L|L].
  - assert (Lt : T' <= nth 0 g 0).
    { pose proof (desc_nth_le g Hd O rc ltac:(lia) Hrc). lra. }
    destruct (locate_hi g Hd T' L Lt) as [k [K1 [K2 K3]]]. fold n in K1.
    assert (Hk : (rc < S k)%nat) by (apply (desc_nth_idx g Hd); [exact Hrc|exact K1|lra]).
    destruct (R_seg k T' K1 ltac:(lra) K3) as [_ [U|U]].
    + pose proof (proj1 (zb_R k ltac:(lia)) (Run k ltac:(lia) ltac:(lia))). lra.
    + pose proof (proj1 (zb_R (S k) K1) (Run (S k) ltac:(lia) K1)). lra.
  - rewrite (R_below T' L). apply (zb_R (n - 1)%nat ltac:(pose proof n_pos; lia)). apply Run; pose proof n_pos; lia.
Qed.

(* THE COMPOSED THEOREM (generic grid) *)
Theorem pinch_composed :
  (exists T, In T g /\ R T < tolv) -> (exists T, In T g /\ tolv <= R T) ->
  exists rh rc, pinch_idx tolv h = (rh, rc, true)
    /\ pinch_temperatures tolv g h = Some (nth rh g 0, nth rc g 0)
    /\ pinch_real_spec tolv R g rh rc.
Proof.
  intros [Tz [Hz1 Hz2]] [Tn [Hn1 Hn2]].
  destruct (In_nth g Tz 0 Hz1) as [iz [Iz Ez]]. destruct (In_nth g Tn 0 Hn1) as [inz [In_ En]]. fold n in Iz, In_.
  assert (Zz : zb tolv h iz = true) by (apply zb_R; [exact Iz|rewrite Ez; exact Hz2]).
  assert (Zn : zb tolv h inz = false) by (apply zb_R_false; [exact In_|rewrite En; exact Hn2]).
  assert (Has : existsb (isz tolv) h = true).
  { apply existsb_exists. exists (nth iz h 1). split; [apply nth_In; rewrite len_h; exact Iz|exact Zz]. }
  assert (Nall : forallb (isz tolv) h = false).
  { destruct (forallb (isz tolv) h) eqn:E; [|reflexivity].
    pose proof (forallb_true_nth _ _ E inz ltac:(rewrite len_h; exact In_)) as X. unfold zb in Zn. congruence. }
  destruct (pinch_idx_spec tolv h Has Nall) as [rh [rc [E S]]]. exists rh, rc. split; [exact E|]. split.
  { unfold pinch_temperatures. rewrite E. reflexivity. }
  unfold pinch_rows_spec in S. rewrite len_h in S.
  destruct S as [S1 [S2 [S3 [S4 [S5 [S6 [S7 [S8 S9]]]]]]]].
  assert (Rh := proj1 (zb_R rh S1) S3). assert (Rc := proj1 (zb_R rc S2) S4).
  (* the near-zero clauses *)
  assert (Hot : forall T, nth rh g 0 < T -> R T < tolv ->
            (forall T', nth rh g 0 <= T' -> R T' < tolv)
            \/ ((0 < rh)%nat /\ T < nth (rh - 1) g 0 /\ tolv <= R (nth (rh - 1) g 0))).
  { intros T HT Z. destruct (Qlt_le_dec T (nth 0 g 0)) as [L|L].
    - assert (Lb : nth (List.length g - 1) g 0 <= T).
      { fold n. pose proof (desc_nth_le g Hd rh (n - 1)%nat ltac:(lia) ltac:(unfold n in *; lia)). lra. }
      destruct (locate_lo g Hd T Lb L) as [k [K1 [K2 K3]]]. fold n in K1.
      assert (Hk : (k < rh)%nat) by (apply (desc_nth_idx g Hd); [unfold n in *; lia|exact S1|lra]).
      destruct (Qlt_le_dec (R (nth k g 0)) tolv) as [Zk|Zk].
      + left. apply (run_top rh S1). apply (S6 k Hk). apply zb_R; [lia|exact Zk].
      + destruct (R_seg k T K1 K2 ltac:(lra)) as [[U|U] _]; [lra|].
        destruct (Nat.eq_dec (S k) rh) as [Ek|Ek].
        * right. subst rh. replace (S k - 1)%nat with k by lia. split; [lia|]. split; assumption.
        * left. apply (run_top rh S1). apply (S6 (S k) ltac:(lia)). apply zb_R; [exact K1|lra].
    - left. apply (run_top rh S1). destruct (Nat.eq_dec rh 0) as [E0|E0].
      + intros j Hj. replace j with rh by lia. exact S3.
      + apply (S6 O ltac:(lia)). apply (zb_R O n_pos). rewrite <- (R_above T L). exact Z. }
  assert (Cold : forall T, T < nth rc g 0 -> R T < tolv ->
            (forall T', T' <= nth rc g 0 -> R T' < tolv)
            \/ ((S rc < n)%nat /\ nth (S rc) g 0 < T /\ tolv <= R (nth (S rc) g 0))).
  { intros T HT Z. destruct (Qlt_le_dec (nth (n - 1) g 0) T) as [L|L].
    - assert (Lt : T <= nth 0 g 0).
      { pose proof (desc_nth_le g Hd O rc ltac:(lia) S2). lra. }
      destruct (locate_hi g Hd T L Lt) as [k [K1 [K2 K3]]]. fold n in K1.
      assert (Hk : (rc < S k)%nat) by (apply (desc_nth_idx g Hd); [exact S2|exact K1|lra]).
      destruct (Qlt_le_dec (R (nth (S k) g 0)) tolv) as [Zk|Zk].
      + left. apply (run_bot rc S2). apply (S7 (S k) Hk K1). apply zb_R; [exact K1|exact Zk].
      + destruct (R_seg k T K1 ltac:(lra) K3) as [[U|U] _]; [|lra].
        destruct (Nat.eq_dec k rc) as [Ek|Ek].
        * right. subst rc. split; [exact K1|]. split; assumption.
        * left. apply (run_bot rc S2). apply (S7 k ltac:(lia) ltac:(lia)). apply zb_R; [lia|lra].
    - left. apply (run_bot rc S2). destruct (Nat.eq_dec rc (n - 1)) as [E0|E0].
      + intros j Hj1 Hj2. replace j with rc by lia. exact S4.
      + apply (S7 (n - 1)%nat ltac:(lia) ltac:(lia)). apply (zb_R (n - 1)%nat ltac:(lia)). rewrite <- (R_below T L). exact Z. }
  unfold pinch_real_spec. fold n.
  split; [split; assumption|]. split; [split; [apply R_nonneg|exact Rh]|]. split; [split; [apply R_nonneg|exact Rc]|].
  split; [apply desc_nth_le; [exact Hd|exact S5|exact S2]|].
  split; [exact Hot|]. split; [exact Cold|]. split; [|split; [|split]].
  - (* exact zero above the hot pinch *)
    intros T HT Z. destruct (Hot T HT ltac:(lra)) as [Run|[P1 [P2 P3]]]; [exact Run|]. exfalso.
    assert (K1 : (S (rh - 1) < n)%nat) by lia.
    destruct (R_seg_zero (rh - 1)%nat T K1 ltac:(replace (S (rh - 1)) with rh by lia; exact HT) P2 Z) as [A _]. lra.
  - (* exact zero below the cold pinch *)
    intros T HT Z. destruct (Cold T HT ltac:(lra)) as [Run|[P1 [P2 P3]]]; [exact Run|]. exfalso.
    destruct (R_seg_zero rc T P1 P2 HT Z) as [_ B]. lra.
  - (* threshold at the top *)
    intro Z. assert (Z0 : zb tolv h 0 = true) by (apply (zb_R O n_pos); exact Z).
    destruct (S8 Z0) as [Run NZ]. split; [apply (run_top rh S1 Run)|].
    assert (Hlt : (S rh < n)%nat).
    { destruct (Nat.lt_ge_cases rh inz) as [X|X]; [lia|]. rewrite (Run inz X) in Zn. discriminate. }
    split; [exact Hlt|]. apply zb_R_false; assumption.
  - (* threshold at the bottom *)
    intro Z. assert (Z0 : zb tolv h (n - 1) = true) by (apply (zb_R (n - 1)%nat ltac:(lia)); exact Z).
    destruct (S9 Z0) as [Run [P NZ]]. split; [apply (run_bot rc S2 Run)|]. split; [exact P|].
    apply zb_R_false; [lia|exact NZ].
Qed.

(* absent: no pinch is reported exactly when no row is a zero of the exact residual -- or (D18) every row is *)
Theorem pinch_absent_iff : (2 <= n)%nat ->
  (snd (pinch_idx tolv h) = false <-> ((forall T, In T g -> tolv <= R T) \/ (forall T, In T g -> R T < tolv))).
Proof.
  intro Hn. rewrite (absent_iff tolv h ltac:(rewrite len_h; exact Hn)). split.
  - intros [E|E].
    + left. intros T HT. destruct (In_nth g T 0 HT) as [i [Hi Ei]]. fold n in Hi. rewrite <- Ei. apply zb_R_false; [exact Hi|].
      unfold zb. destruct (isz tolv (nth i h 1)) eqn:X; [|reflexivity].
      assert (existsb (isz tolv) h = true) by (apply existsb_exists; exists (nth i h 1); split; [apply nth_In; rewrite len_h; exact Hi|exact X]).
      congruence.
    + right. intros T HT. destruct (In_nth g T 0 HT) as [i [Hi Ei]]. fold n in Hi. rewrite <- Ei. apply zb_R; [exact Hi|].
      apply (forallb_true_nth _ _ E). rewrite len_h. exact Hi.
  - intros [A|A].
    + left. destruct (existsb (isz tolv) h) eqn:X; [|reflexivity]. destruct (existsb_nth _ _ X) as [j [Hj Fj]].
      rewrite len_h in Hj. pose proof (A (nth j g 0) (nth_In g 0 Hj)) as L.
      pose proof (proj1 (zb_R j Hj) Fj). lra.
    + right. destruct (forallb (isz tolv) h) eqn:X; [reflexivity|]. destruct (forallb_false_nth h _ _ X) as [j [Hj Fj]].
      rewrite len_h in Hj. pose proof (A (nth j g 0) (nth_In g 0 Hj)) as L.
      pose proof (proj1 (zb_R_false j Hj) Fj). lra.
Qed.

(* a grid that contains the two end points of a (well-formed) stream has at least two rows *)
Lemma grid_two_rows : hotR ++ coldR <> [] -> (2 <= n)%nat.
Proof.
  intro N. assert (X : exists s, In s (hotR ++ coldR)) by (destruct (hotR ++ coldR) as [|s l]; [congruence|exists s; left; reflexivity]).
  destruct X as [s Hs]. destruct (covers_split hotR coldR g Hcov) as [Ch Cc].
  assert (Y : lo s < hi s /\ InQ (lo s) g /\ InQ (hi s) g).
  { apply in_app_or in Hs. destruct Hs as [Hs|Hs].
    - pose proof Wh as W. unfold wfs in W. rewrite Forall_forall in W. destruct (W s Hs) as [L _].
      split; [exact L|]. split; [apply Ch|apply Ch]; apply (endpoints_in hotR s Hs).
    - pose proof Wc as W. unfold wfs in W. rewrite Forall_forall in W. destruct (W s Hs) as [L _].
      split; [exact L|]. split; [apply Cc|apply Cc]; apply (endpoints_in coldR s Hs). }
  destruct Y as [L [[z1 [H1 E1]] [z2 [H2 E2]]]]. unfold n.
  destruct (In_nth g z1 0 H1) as [i1 [I1 N1]]. destruct (In_nth g z2 0 H2) as [i2 [I2 N2]].
  assert (i1 <> i2) by (intro X; subst i2; rewrite N1 in N2; subst z2; lra). lia.
Qed.
End Composed.

(* ------------------------------------------------------------------ the stage model, inputs on the rounding lattice *)
Lemma tol_pos : 0 < tol.
Proof. reflexivity. Qed.

Section Stage.
Variables hot cold extra : list view.
Hypothesis Wh : wfs hot.
Hypothesis Wc : wfs cold.
Hypothesis Hne : hot ++ cold <> [].
Let es := endpoints (hot ++ cold ++ extra).
Hypothesis Hlat : on_lattice es.
Hypothesis Hrob : gaps_b act_window (grid_of es) = true.
Let p := stage_model act_window hot cold extra.

Theorem stage_pinch_composed :
  (exists T, In T (pT p) /\ residual hot cold T < tol) -> (exists T, In T (pT p) /\ tol <= residual hot cold T) ->
  exists rh rc, pinch_idx tol (pHn p) = (rh, rc, true)
    /\ pinch_temperatures tol (pT p) (pHn p) = Some (nth rh (pT p) 0, nth rc (pT p) 0)
    /\ pinch_real_spec tol (residual hot cold) (pT p) rh rc.
Proof.
  pose proof (gaps_b_ok _ _ Hrob) as G.
  assert (E : pT p = grid_of es) by (unfold p, stage_model, pta; cbn [pT]; apply raw_rows_T).
  rewrite E. unfold p, stage_model. fold es.
  apply (pinch_composed tol tol_pos act_window 0 Qle_refl0 window_pos hot cold hot cold (nearv_refl hot) (nearv_refl cold) Wh Wc
           (grid_of es) (grid_of_desc es) (grid_of_ne es (es_ne hot cold extra Wh Wc Hne Hlat Hrob)) (stage_covers hot cold extra Hlat) G).
Qed.
Theorem stage_pinch_absent_iff :
  (snd (pinch_idx tol (pHn p)) = false <->
   ((forall T, In T (pT p) -> tol <= residual hot cold T) \/ (forall T, In T (pT p) -> residual hot cold T < tol))).
Proof.
  pose proof (gaps_b_ok _ _ Hrob) as G.
  assert (E : pT p = grid_of es) by (unfold p, stage_model, pta; cbn [pT]; apply raw_rows_T).
  rewrite E. unfold p, stage_model. fold es.
  apply pinch_absent_iff with (d := 0); try exact Qle_refl0; try exact window_pos; try apply nearv_refl; try assumption;
    try apply grid_of_desc; try (apply grid_of_ne; apply (es_ne hot cold extra); assumption); try (apply stage_covers; exact Hlat).
  apply grid_two_rows with (hotR := hot) (coldR := cold); try assumption; apply stage_covers; exact Hlat.
Qed.
End Stage.

(* ------------------------------------------------------------------ arbitrary doubles: the residual of the streams rounded to the grid *)
Section StageRounded.
Variables hot cold extra : list view.
Let hotR := map roundv hot.
Let coldR := map roundv cold.
Hypothesis Wh : wfs_b hotR = true.
Hypothesis Wc : wfs_b coldR = true.
Hypothesis Hne : hot ++ cold <> [].
Let es := endpoints (hot ++ cold ++ extra).
Hypothesis Hrob : gaps_b (act_window + delta6) (grid_of es) = true.
Let p := stage_model act_window hot cold extra.

Lemma roundedR_ne : hotR ++ coldR <> [].
Proof. unfold hotR, coldR. destruct hot as [|s ?]; [destruct cold as [|s' ?]; [exfalso; apply Hne; reflexivity|]|]; simpl; discriminate. Qed.

Theorem stage_rounded_pinch_composed :
  (exists T, In T (pT p) /\ residual hotR coldR T < tol) -> (exists T, In T (pT p) /\ tol <= residual hotR coldR T) ->
  exists rh rc, pinch_idx tol (pHn p) = (rh, rc, true)
    /\ pinch_temperatures tol (pT p) (pHn p) = Some (nth rh (pT p) 0, nth rc (pT p) 0)
    /\ pinch_real_spec tol (residual hotR coldR) (pT p) rh rc.
Proof.
  destruct delta6_facts as [D0 D1]. pose proof (gaps_b_ok_d _ _ _ Hrob) as G.
  pose proof (wfs_b_ok _ Wh) as WH. pose proof (wfs_b_ok _ Wc) as WC.
  assert (E : pT p = grid_of es) by (unfold p, stage_model, pta; cbn [pT]; apply raw_rows_T).
  rewrite E. unfold p, stage_model. fold es.
  apply pinch_composed with (d := delta6); try exact tol_pos; try assumption; try apply nearv_round; try apply grid_of_desc;
    try (apply grid_of_ne; apply (esR_ne hot cold extra); assumption); try apply stageR_covers.
Qed.
Theorem stage_rounded_pinch_absent_iff :
  (snd (pinch_idx tol (pHn p)) = false <->
   ((forall T, In T (pT p) -> tol <= residual hotR coldR T) \/ (forall T, In T (pT p) -> residual hotR coldR T < tol))).
Proof.
  destruct delta6_facts as [D0 D1]. pose proof (gaps_b_ok_d _ _ _ Hrob) as G.
  pose proof (wfs_b_ok _ Wh) as WH. pose proof (wfs_b_ok _ Wc) as WC.
  assert (E : pT p = grid_of es) by (unfold p, stage_model, pta; cbn [pT]; apply raw_rows_T).
  rewrite E. unfold p, stage_model. fold es.
  apply pinch_absent_iff with (d := delta6); try assumption; try apply nearv_round; try apply grid_of_desc;
    try (apply grid_of_ne; apply (esR_ne hot cold extra); assumption); try apply stageR_covers.
  apply grid_two_rows with (hotR := hotR) (coldR := coldR); try assumption; try apply stageR_covers; apply roundedR_ne.
Qed.
End StageRounded.

(* ------------------------------------------------------------------ non-vacuity: a two-pinch problem (shifted scale) *)
(* net deficit above T: 0 at 300, 10 at 250, 5 at 200, 10 at 150, 0 at 100: Qh = 10, the residual vanishes at 250 and at 150 *)
Definition ex2_hot : list view := [mkV 100 250 (3 # 10)].
Definition ex2_cold : list view := [mkV 150 300 (1 # 5); mkV 150 200 (1 # 5); mkV 100 150 (1 # 10)].
Example ex2_two_pinches :
  let p := stage_model act_window ex2_hot ex2_cold [] in
  wfs_b ex2_hot = true /\ wfs_b ex2_cold = true
  /\ forallb (fun e => qeqb (round_dp grid_round_dp e) e) (endpoints (ex2_hot ++ ex2_cold ++ [])) = true
  /\ gaps_b act_window (grid_of (endpoints (ex2_hot ++ ex2_cold ++ []))) = true
  /\ pT p = [300; 250; 200; 150; 100] /\ pHn p = [10; 0; 5; 0; 10]
  /\ map (fun T => Qred (residual ex2_hot ex2_cold T)) (pT p) = [10; 0; 5; 0; 10]
  /\ pinch_idx tol (pHn p) = (1%nat, 3%nat, true)
  /\ pinch_temperatures tol (pT p) (pHn p) = Some (250, 150)
  /\ Qred (residual ex2_hot ex2_cold 225) = 5 # 2.
Proof. vm_compute. repeat split; reflexivity. Qed.
(* ... and a threshold problem: no hot utility (Qh = 0), the residual is zero from the top down to 250 *)
Definition ex3_hot : list view := [mkV 100 300 (3 # 10)].
Definition ex3_cold : list view := [mkV 250 300 (3 # 10); mkV 100 250 (1 # 5)].
Example ex3_threshold :
  let p := stage_model act_window ex3_hot ex3_cold [] in
  gaps_b act_window (grid_of (endpoints (ex3_hot ++ ex3_cold ++ []))) = true
  /\ pT p = [300; 250; 100] /\ pHn p = [0; 0; 15]
  /\ pinch_temperatures tol (pT p) (pHn p) = Some (250, 250).
Proof. vm_compute. repeat split; reflexivity. Qed.
