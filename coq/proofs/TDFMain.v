(* C15 -- statements about the result of tdf_core (model/TDF.v) assembled from TDFGrid / TDFBlock / TDFInterp. *)
From OP Require Import gen.Consts model.Base model.Area model.TDF proofs.BaseFacts proofs.TDFGrid proofs.TDFBlock proofs.TDFInterp.
From Coq Require Import Lqa Lia Sorted.
Local Open Scope Q_scope.

Lemma interp_with_plateaus_np tolv s h t xs : length h = length t ->
  interp_with_plateaus tolv s h t xs = map (np_interp (make_monotonic tolv s h) t) xs.
Proof.
  intro L. unfold interp_with_plateaus. destruct h as [|a [|b r]]; destruct t as [|c [|d r']]; try discriminate; try reflexivity.
  apply map_ext. intro x. destruct s; unfold make_monotonic, np_interp; simpl; destruct (qltb x _); reflexivity.
Qed.

Lemma combine_map_In {A B} (f : A -> B) : forall xs x v, In (x, v) (combine xs (map f xs)) -> v = f x.
Proof. induction xs as [|a r IH]; intros x v H; [destruct H|]. destruct H as [E|H]; [injection E as <- <-; reflexivity|apply IH; exact H]. Qed.

(* the four temperature arrays are interp_with_plateaus of the normalised curves at the interval starts (side right) and
   ends (side left) *)
Lemma tdf_core_temps tolv mindt Th Hh Tc Hc :
  let o := tdf_core tolv mindt Th Hh Tc Hc in
  let '(hh, th) := normalise tolv Hh Th in let '(hc, tc) := normalise tolv Hc Tc in
  o_th1 o = interp_with_plateaus tolv SRight hh th (starts (o_h o)) /\ o_th2 o = interp_with_plateaus tolv SLeft hh th (ends (o_h o)) /\
  o_tc1 o = interp_with_plateaus tolv SRight hc tc (starts (o_h o)) /\ o_tc2 o = interp_with_plateaus tolv SLeft hc tc (ends (o_h o)).
Proof. unfold tdf_core. destruct (normalise tolv Hh Th) as [hh th]. destruct (normalise tolv Hc Tc) as [hc tc]. simpl. repeat split. Qed.

(* ------------------------------------------------------------------ grid *)
Theorem tdf_grid tolv mindt Th Hh Tc Hc :
  let o := tdf_core tolv mindt Th Hh Tc Hc in
  let bps := fst (normalise tolv Hh Th) ++ fst (normalise tolv Hc Tc) in
  StronglySorted Qlt (o_h o)
  /\ (forall x, In x bps -> exists y, In y (o_h o) /\ y == x)
  /\ (forall y, In y (o_h o) -> In y bps)
  /\ Forall (fun d => 0 < d) (o_dh o)
  /\ (bps <> [] -> sumQ (o_dh o) == last (o_h o) 0 - hd 0 (o_h o))
  /\ (forall a b, In (a, b) (combine (starts (o_h o)) (ends (o_h o))) -> a < b /\ forall x, In x bps -> ~ (a < x /\ x < b)).
Proof.
  intros o bps. destruct (tdf_core_shape tolv mindt Th Hh Tc Hc) as (Eh & Edh & _). fold o in Eh, Edh. fold bps in Eh.
  rewrite Edh, Eh. split; [apply grid_sorted|]. split; [intros x Hx; apply grid_complete; exact Hx|]. split; [apply grid_sound|].
  split; [apply cdiffs_pos; apply grid_sorted|]. split.
  - intro Hne. apply cdiffs_sum. apply grid_nonempty. exact Hne.
  - intros a b H. rewrite adj_is_intervals in H. apply no_breakpoint_inside. exact H.
Qed.

Theorem tdf_grid_ends tolv mindt Th Hh Tc Hc S :
  let o := tdf_core tolv mindt Th Hh Tc Hc in
  let bps := fst (normalise tolv Hh Th) ++ fst (normalise tolv Hc Tc) in
  In 0 bps -> In S bps -> (forall x, In x bps -> 0 <= x <= S) -> hd 0 (o_h o) == 0 /\ last (o_h o) 0 == S /\ sumQ (o_dh o) == S.
Proof.
  intros o bps H0 HS B. destruct (tdf_core_shape tolv mindt Th Hh Tc Hc) as (Eh & Edh & _). fold o in Eh, Edh. fold bps in Eh.
  destruct (grid_from_0_to_span bps S H0 HS B) as [A1 A2]. rewrite Eh. split; [exact A1|]. split; [exact A2|].
  rewrite Edh, Eh, cdiffs_sum. rewrite A1, A2. ring. apply grid_nonempty. intro E. rewrite E in H0. destruct H0.
Qed.

(* ------------------------------------------------------------------ one-sided limits at own break points *)
Theorem tdf_hot_right_limit tolv mindt Th Hh Tc Hc l1 g l2 f1 fg f2 v :
  normalise tolv Hh Th = (l1 ++ g :: l2, f1 ++ fg :: f2) ->
  0 <= tolv -> length f1 = length l1 -> length f2 = length l2 -> Forall (fun y => y <= g) l1 ->
  (l2 = [] \/ g + tolv * inject_Z (Z.of_nat (length (l1 ++ g :: l2))) < hd 0 l2) ->
  let o := tdf_core tolv mindt Th Hh Tc Hc in
  In (g, v) (combine (starts (o_h o)) (o_th1 o)) -> v = fg.
Proof.
  intros N Ht L1 L2 F Hn o H. pose proof (tdf_core_temps tolv mindt Th Hh Tc Hc) as T. fold o in T. rewrite N in T.
  destruct (normalise tolv Hc Tc) as [hc tc]. destruct T as (E1 & _).
  rewrite interp_with_plateaus_np in E1 by (rewrite !app_length; simpl; lia). rewrite E1 in H.
  rewrite (combine_map_In _ _ _ _ H). apply right_limit_exact; assumption.
Qed.
Theorem tdf_hot_left_limit tolv mindt Th Hh Tc Hc l1 g l2 f1 fg f2 v :
  normalise tolv Hh Th = (l1 ++ g :: l2, f1 ++ fg :: f2) ->
  0 < tolv -> length f1 = length l1 -> length f2 = length l2 ->
  Forall (fun y => y + tolv * inject_Z (Z.of_nat (length (l1 ++ g :: l2))) < g) l1 -> (l2 = [] \/ g <= hd 0 l2) ->
  let o := tdf_core tolv mindt Th Hh Tc Hc in
  In (g, v) (combine (ends (o_h o)) (o_th2 o)) -> v = fg.
Proof.
  intros N Ht L1 L2 F Hn o H. pose proof (tdf_core_temps tolv mindt Th Hh Tc Hc) as T. fold o in T. rewrite N in T.
  destruct (normalise tolv Hc Tc) as [hc tc]. destruct T as (_ & E2 & _).
  rewrite interp_with_plateaus_np in E2 by (rewrite !app_length; simpl; lia). rewrite E2 in H.
  rewrite (combine_map_In _ _ _ _ H). apply left_limit_exact; assumption.
Qed.
Theorem tdf_cold_right_limit tolv mindt Th Hh Tc Hc l1 g l2 f1 fg f2 v :
  normalise tolv Hc Tc = (l1 ++ g :: l2, f1 ++ fg :: f2) ->
  0 <= tolv -> length f1 = length l1 -> length f2 = length l2 -> Forall (fun y => y <= g) l1 ->
  (l2 = [] \/ g + tolv * inject_Z (Z.of_nat (length (l1 ++ g :: l2))) < hd 0 l2) ->
  let o := tdf_core tolv mindt Th Hh Tc Hc in
  In (g, v) (combine (starts (o_h o)) (o_tc1 o)) -> v = fg.
Proof.
  intros N Ht L1 L2 F Hn o H. pose proof (tdf_core_temps tolv mindt Th Hh Tc Hc) as T. fold o in T. rewrite N in T.
  destruct (normalise tolv Hh Th) as [hh th]. destruct T as (_ & _ & E3 & _).
  rewrite interp_with_plateaus_np in E3 by (rewrite !app_length; simpl; lia). rewrite E3 in H.
  rewrite (combine_map_In _ _ _ _ H). apply right_limit_exact; assumption.
Qed.
Theorem tdf_cold_left_limit tolv mindt Th Hh Tc Hc l1 g l2 f1 fg f2 v :
  normalise tolv Hc Tc = (l1 ++ g :: l2, f1 ++ fg :: f2) ->
  0 < tolv -> length f1 = length l1 -> length f2 = length l2 ->
  Forall (fun y => y + tolv * inject_Z (Z.of_nat (length (l1 ++ g :: l2))) < g) l1 -> (l2 = [] \/ g <= hd 0 l2) ->
  let o := tdf_core tolv mindt Th Hh Tc Hc in
  In (g, v) (combine (ends (o_h o)) (o_tc2 o)) -> v = fg.
Proof.
  intros N Ht L1 L2 F Hn o H. pose proof (tdf_core_temps tolv mindt Th Hh Tc Hc) as T. fold o in T. rewrite N in T.
  destruct (normalise tolv Hh Th) as [hh th]. destruct T as (_ & _ & _ & E4).
  rewrite interp_with_plateaus_np in E4 by (rewrite !app_length; simpl; lia). rewrite E4 in H.
  rewrite (combine_map_In _ _ _ _ H). apply left_limit_exact; assumption.
Qed.

(* ------------------------------------------------------------------ end differences and the discontinuity block *)
Lemma iwp_length tolv s h t xs : length (interp_with_plateaus tolv s h t xs) = length xs.
Proof. unfold interp_with_plateaus. destruct h as [|a [|b r]]; destruct t as [|c [|d r']]; apply map_length. Qed.
Lemma vsub_length : forall a b, length a = length b -> length (vsub a b) = length a.
Proof. induction a as [|x r IH]; intros b L; destruct b; try discriminate; [reflexivity|]. simpl in *. f_equal. apply IH. lia. Qed.
Lemma raw2_length tolv mindt Th Hh Tc Hc : let o := tdf_core tolv mindt Th Hh Tc Hc in length (ends (o_h o)) = length (o_raw2 o).
Proof.
  intro o. destruct (tdf_core_shape tolv mindt Th Hh Tc Hc) as (_ & _ & Er & _). fold o in Er.
  pose proof (tdf_core_temps tolv mindt Th Hh Tc Hc) as T. fold o in T.
  destruct (normalise tolv Hh Th) as [hh th]. destruct (normalise tolv Hc Tc) as [hc tc]. destruct T as (_ & E2 & _ & E4).
  rewrite Er, vsub_length; rewrite E2, ?E4, !iwp_length; reflexivity.
Qed.

Theorem tdf_deltas tolv mindt Th Hh Tc Hc :
  let o := tdf_core tolv mindt Th Hh Tc Hc in
  let ds := disc_values tolv (fst (normalise tolv Hh Th)) ++ disc_values tolv (fst (normalise tolv Hc Tc)) in
  o_raw2 o = vsub (o_th2 o) (o_tc2 o)
  /\ o_d1 o = map (fun x => rsub x mindt) (vsub (o_th1 o) (o_tc1 o))
  /\ (exists low, PM tolv ds (ends (o_h o)) (o_raw2 o) low /\ Forall2 Qle low (o_raw2 o) /\ o_d2 o = map (fun x => rsub x mindt) low)
  /\ (ds = [] -> o_d2 o = map (fun x => rsub x mindt) (o_raw2 o)).
Proof.
  intros o ds. destruct (tdf_core_shape tolv mindt Th Hh Tc Hc) as (_ & _ & Er & E1 & E2). fold o in Er, E1, E2. fold ds in E2.
  pose proof (raw2_length tolv mindt Th Hh Tc Hc) as L. fold o in L.
  split; [exact Er|]. split; [exact E1|]. split.
  - exists (prop_min tolv ds (ends (o_h o)) (o_raw2 o)). pose proof (prop_min_PM tolv ds _ _ L) as P.
    split; [exact P|]. split; [apply (PM_only_lowers _ _ _ _ _ P)|exact E2].
  - intros Ed. rewrite E2. pose proof (prop_min_PM tolv ds _ _ L) as P. rewrite Ed in P. rewrite Ed. rewrite (PM_no_disc _ _ _ _ P). reflexivity.
Qed.

(* ------------------------------------------------------------------ the three guards, in the order of the source *)
Theorem tdf_guards tolv mindt Th Hh Tc Hc :
  let rT := map round_dp Th in let rH := map round_dp Hh in let rt := map round_dp Tc in let rh := map round_dp Hc in
  ((length Th <> length Hh \/ length Tc <> length Hc) -> tdf tolv mindt Th Hh Tc Hc = TErr TLen)
  /\ (length Th = length Hh -> length Tc = length Hc -> (Th = [] \/ Tc = []) -> tdf tolv mindt Th Hh Tc Hc = TErr TEmpty)
  /\ (length Th = length Hh -> length Tc = length Hc -> Th <> [] -> Tc <> [] ->
      (tolv < Qabs ((lmax rH - lmin rH) - (lmax rh - lmin rh)) -> tdf tolv mindt Th Hh Tc Hc = TErr TUnbalanced)
      /\ (Qabs ((lmax rH - lmin rH) - (lmax rh - lmin rh)) <= tolv -> tdf tolv mindt Th Hh Tc Hc = TOk (tdf_core tolv mindt rT rH rt rh))).
Proof.
  intros rT rH rt rh. unfold tdf. fold rT rH rt rh. unfold rT, rH, rt, rh. rewrite !map_length.
  split; [|split].
  - intros [H|H]; apply Nat.eqb_neq in H; rewrite H; [reflexivity|]. rewrite orb_true_r. reflexivity.
  - intros L1 L2 H. rewrite (proj2 (Nat.eqb_eq _ _) L1), (proj2 (Nat.eqb_eq _ _) L2). simpl.
    destruct H as [->| ->]; simpl; [reflexivity|]. rewrite orb_true_r. reflexivity.
  - intros L1 L2 N1 N2. rewrite (proj2 (Nat.eqb_eq _ _) L1), (proj2 (Nat.eqb_eq _ _) L2). simpl.
    destruct Th as [|a r]; [congruence|]. destruct Tc as [|b r']; [congruence|]. simpl isnil. simpl orb. cbv iota. split; intro H.
    + rewrite (proj2 (qltb_true _ _) H). reflexivity.
    + rewrite (proj2 (qltb_false _ _) H). reflexivity.
Qed.
