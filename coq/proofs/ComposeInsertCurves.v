(* Composition of the C08 model (model/Insert.v: ProblemTable.insert_temperature_interval) with the graph assembly of C13 / C17
   (model/Curves.v: clean_composite_curve, the polyline `plr` a table column denotes).

   props/C13.v left OPEN `pipeline_rows_exact`: "rows inserted by the problem-table insertions are exactly collinear, so that
   the hypothesis of C13_exact_collinear_recovers (every table row lies exactly on the polyline through the emitted rows)
   holds for every table the pipeline produces".  Proved here, on the exact (unrounded) tables of the insertion model:

   1. `inserted_rows_collinear`: every row of the table after ANY history of insertions lies exactly on the polyline through
      the ORIGINAL rows -- inside rows on the chord of their old neighbours, outside rows on the constant continuation;
   2. `pl_refine`: adding points that lie on a polyline (anywhere: between its points, above its first or below its last
      one) does not change the polyline as a function (generalises Curves.pl_go_thin: no condition on the end points);
   3. `pipeline_rows_exact`: for ANY in-order selection `kept` of rows of the table after the history: if the ORIGINAL
      rows lie on the polyline through `kept`, then EVERY row does (the hypothesis of C13_exact_collinear_recovers needs
      checking on the original rows only), and the polyline through `kept` is the column at every temperature;
   4. `pipeline_clean_exact`: the same with `kept` = what clean_composite_curve emits for that column. *)
From OP Require Import gen.Consts gen.CurvesConsts model.Base model.RDP model.Curves proofs.BaseFacts proofs.RDP proofs.Curves.
From OP Require Import model.Insert proofs.Insert proofs.InsertCurve proofs.InsertSeq proofs.InsertPL.
From Coq Require Import Lqa Lia.
Local Open Scope Q_scope.
Local Arguments Qred : simpl never.

(* ------------------------------------------------------------------ the two polyline definitions are the same function *)
Lemma plgo_plr l : forall prev y, plgo prev l y = pl_go prev l y.
Proof. induction l as [|r l IH]; intros prev y; simpl; [reflexivity|]. rewrite IH. reflexivity. Qed.
Lemma pl_plr l y : pl l y = plr l y.
Proof. destruct l as [|p0 l]; simpl; [reflexivity|]. rewrite plgo_plr. reflexivity. Qed.
Lemma dfrom_desc_from l : forall p, dfrom p l <-> desc_from p l.
Proof. induction l as [|a l IH]; intro p; simpl; [tauto|]. rewrite IH. tauto. Qed.
Lemma sdesc_strictly_desc l : sdesc l <-> strictly_desc l.
Proof. destruct l as [|a l]; simpl; [tauto|]. apply dfrom_desc_from. Qed.

(* ------------------------------------------------------------------ sub-sequences *)
Lemma subseq_app_r {A} (pre k l : list A) : subseq k l -> subseq k (pre ++ l).
Proof. intro H. induction pre as [|a pre IH]; simpl; [exact H|apply ss_skip; exact IH]. Qed.
Lemma subseq_map {A B} (f : A -> B) (k l : list A) : subseq k l -> subseq (map f k) (map f l).
Proof. induction 1; simpl; constructor; assumption. Qed.
Lemma subseq_dfrom M L : subseq M L -> forall p, dfrom p L -> dfrom p M.
Proof.
  induction 1 as [l|x k l S IH|x k l S IH]; intros p D.
  - exact I.
  - destruct D as [D1 D2]. split; [exact D1|apply IH; exact D2].
  - destruct D as [D1 D2]. apply IH. apply (dfrom_weaken l (fst x)); [exact D2|lra].
Qed.
Lemma subseq_sdesc M L : subseq M L -> sdesc L -> sdesc M.
Proof.
  induction 1 as [l|x k l S IH|x k l S IH]; intro D.
  - exact I.
  - simpl in *. apply (subseq_dfrom k l S). exact D.
  - apply IH. apply (sdesc_tail x l). exact D.
Qed.
(* two in-order selections of one list have a common in-order refinement made of their elements only *)
Lemma subseq_union {A} (L : list A) : forall X Y, subseq X L -> subseq Y L ->
  exists M, subseq X M /\ subseq Y M /\ subseq M L /\ forall z, In z M -> In z X \/ In z Y.
Proof.
  induction L as [|a L IH]; intros X Y SX SY.
  - inversion SX; inversion SY; subst. exists []. split; [constructor|]. split; [constructor|]. split; [constructor|]. intros u [].
  - destruct X as [|x X'].
    { exists Y. split; [constructor|]. split; [apply subseq_refl|]. split; [exact SY|]. intros u Hu; right; exact Hu. }
    destruct Y as [|y Y'].
    { exists (x :: X'). split; [apply subseq_refl|]. split; [constructor|]. split; [exact SX|]. intros u Hu; left; exact Hu. }
    inversion SX as [|x0 k l SX'|x0 k l SX']; inversion SY as [|y0 k' l' SY'|y0 k' l' SY']; subst.
    + destruct (IH X' Y' SX' SY') as [M [H1 [H2 [H3 H4]]]]. exists (a :: M).
      split; [constructor; exact H1|]. split; [constructor; exact H2|]. split; [constructor; exact H3|].
      intros u [E|Hu]; [left; left; exact E|]. destruct (H4 u Hu); [left; right; assumption|right; right; assumption].
    + destruct (IH X' (y :: Y') SX' SY') as [M [H1 [H2 [H3 H4]]]]. exists (a :: M).
      split; [constructor; exact H1|]. split; [apply ss_skip; exact H2|]. split; [constructor; exact H3|].
      intros u [E|Hu]; [left; left; exact E|]. destruct (H4 u Hu); [left; right; assumption|right; assumption].
    + destruct (IH (x :: X') Y' SX' SY') as [M [H1 [H2 [H3 H4]]]]. exists (a :: M).
      split; [apply ss_skip; exact H1|]. split; [constructor; exact H2|]. split; [constructor; exact H3|].
      intros u [E|Hu]; [right; left; exact E|]. destruct (H4 u Hu); [left; assumption|right; right; assumption].
    + destruct (IH (x :: X') (y :: Y') SX' SY') as [M [H1 [H2 [H3 H4]]]]. exists M.
      split; [exact H1|]. split; [exact H2|]. split; [apply ss_skip; exact H3|exact H4].
Qed.

(* ------------------------------------------------------------------ refining a polyline by points that lie on it *)
Lemma lin_on_line_upper a b p y : fst b < fst a -> fst p < fst a -> snd p == lin a b (fst p) -> lin a p y == lin a b y.
Proof. intros H1 H2 Hp. unfold lin at 1. rewrite Hp. unfold lin. field. split; intro E; lra. Qed.

Lemma plgo_refine : forall M prev P, dfrom (fst prev) M -> subseq P M ->
  (forall m, In m M -> snd m == plgo prev P (fst m)) -> forall y, plgo prev M y == plgo prev P y.
Proof.
  induction M as [|r rs IH]; intros prev P D S On y.
  - inversion S; subst. reflexivity.
  - destruct D as [Dr Drs]. pose proof (dfrom_lt rs (fst r) Drs) as Below.
    destruct P as [|k0 k'].
    { simpl plgo at 2. apply plgo_flat; [reflexivity|]. intros q Hq. rewrite (On q Hq). reflexivity. }
    inversion S as [|x k l S'|x k l S']; subst.
    + (* r is a point of P *)
      simpl. destruct (Qle_bool (fst r) y) eqn:E; [reflexivity|]. apply IH; [exact Drs|exact S'|].
      intros m Hm. rewrite (On m (or_intror Hm)). simpl.
      assert (F : Qle_bool (fst r) (fst m) = false) by (apply InsertCurve.Qle_bool_false; apply Below; exact Hm).
      rewrite F. reflexivity.
    + (* r is an added point: it lies on the chord from prev to the next point k0 of P *)
      assert (K0 : fst k0 < fst r) by (apply Below; eapply subseq_In; [exact S'|left; reflexivity]).
      assert (Onr : snd r == lin prev k0 (fst r)).
      { rewrite (On r (or_introl eq_refl)). simpl.
        assert (Ek : Qle_bool (fst k0) (fst r) = true) by (apply Qle_bool_iff; lra). rewrite Ek. reflexivity. }
      assert (I1 : forall z, lin prev r z == lin prev k0 z) by (intro z; apply lin_on_line_upper; [lra|exact Dr|exact Onr]).
      assert (I2 : forall z, lin r k0 z == lin prev k0 z) by (intro z; apply lin_on_line_lower; [lra|exact K0|exact Onr]).
      assert (IHr : forall z, plgo r rs z == plgo r (k0 :: k') z).
      { apply IH; [exact Drs|exact S'|]. intros m Hm. rewrite (On m (or_intror Hm)). simpl.
        destruct (Qle_bool (fst k0) (fst m)); [|reflexivity]. rewrite I2. reflexivity. }
      change (plgo prev (r :: rs) y) with (if Qle_bool (fst r) y then lin prev r y else plgo r rs y).
      destruct (Qle_bool (fst r) y) eqn:E.
      * apply Qle_bool_iff in E. simpl. assert (Ek : Qle_bool (fst k0) y = true) by (apply Qle_bool_iff; lra).
        rewrite Ek. apply I1.
      * rewrite IHr. simpl. destruct (Qle_bool (fst k0) y); [|reflexivity]. apply I2.
Qed.

(* points added above the first point of P carry its value *)
Lemma plgo_flat_refine p0 P' : forall M prev, dfrom (fst prev) M -> subseq (p0 :: P') M -> snd prev == snd p0 ->
  (forall m, In m M -> snd m == pl (p0 :: P') (fst m)) -> forall y, plgo prev M y == pl (p0 :: P') y.
Proof.
  induction M as [|r rs IH]; intros prev D S Hp On y; [inversion S|].
  destruct D as [Dr Drs]. pose proof (dfrom_lt rs (fst r) Drs) as Below.
  inversion S as [|x k l S'|x k l S']; subst.
  - simpl plgo. simpl pl. destruct (Qle_bool _ y) eqn:E.
    + apply lin_flat; [exact Hp|reflexivity].
    + apply plgo_refine; [exact Drs|exact S'|]. intros m Hm. rewrite (On m (or_intror Hm)). simpl.
      match goal with |- context [Qle_bool ?a (fst m)] =>
        assert (F : Qle_bool a (fst m) = false) by (apply InsertCurve.Qle_bool_false; apply Below; exact Hm) end.
      rewrite F. reflexivity.
  - assert (K0 : fst p0 < fst r) by (apply Below; eapply subseq_In; [exact S'|left; reflexivity]).
    assert (Vr : snd r == snd p0).
    { rewrite (On r (or_introl eq_refl)). simpl.
      assert (Ek : Qle_bool (fst p0) (fst r) = true) by (apply Qle_bool_iff; lra). rewrite Ek. reflexivity. }
    simpl plgo. destruct (Qle_bool (fst r) y) eqn:E.
    + apply Qle_bool_iff in E. simpl pl. assert (Ek : Qle_bool (fst p0) y = true) by (apply Qle_bool_iff; lra).
      rewrite Ek. apply lin_flat; assumption.
    + apply IH; [exact Drs|exact S'|exact Vr|]. intros m Hm. apply On. right. exact Hm.
Qed.

(* M: strictly descending abscissas; P: a non-empty in-order selection of M; every point of M lies on the polyline through P
   (constant continuation outside)  ==>  the polylines through M and through P are the same function.  No condition on the
   first / last point: M may extend beyond P on either side. *)
Theorem pl_refine M P : sdesc M -> subseq P M -> P <> [] -> (forall m, In m M -> snd m == pl P (fst m)) ->
  forall y, pl M y == pl P y.
Proof.
  intros D S NE On y. destruct P as [|p0 P']; [congruence|]. destruct M as [|m0 M']; [inversion S|].
  simpl in D. pose proof (dfrom_lt M' (fst m0) D) as Below.
  inversion S as [|x k l S'|x k l S']; subst.
  - simpl. destruct (Qle_bool _ y) eqn:E; [reflexivity|]. apply plgo_refine; [exact D|exact S'|].
    intros m Hm. rewrite (On m (or_intror Hm)). simpl.
    match goal with |- context [Qle_bool ?a (fst m)] =>
      assert (F : Qle_bool a (fst m) = false) by (apply InsertCurve.Qle_bool_false; apply Below; exact Hm) end.
    rewrite F. reflexivity.
  - assert (K0 : fst p0 < fst m0) by (apply Below; eapply subseq_In; [exact S'|left; reflexivity]).
    assert (V0 : snd m0 == snd p0).
    { rewrite (On m0 (or_introl eq_refl)). simpl.
      assert (Ek : Qle_bool (fst p0) (fst m0) = true) by (apply Qle_bool_iff; lra). rewrite Ek. reflexivity. }
    change (pl (m0 :: M') y) with (if Qle_bool (fst m0) y then snd m0 else plgo m0 M' y).
    destruct (Qle_bool (fst m0) y) eqn:E.
    + apply Qle_bool_iff in E. simpl pl. assert (Ek : Qle_bool (fst p0) y = true) by (apply Qle_bool_iff; lra).
      rewrite Ek. exact V0.
    + apply plgo_flat_refine; [exact D|exact S'|exact V0|]. intros m Hm. apply On. right. exact Hm.
Qed.

(* in the vocabulary of model/Curves.v: C13_exact_collinear_recovers without its two end-point hypotheses (rows cut off at
   either end are covered by the constant continuation of the polyline through the kept rows) *)
Theorem exact_collinear_recovers_any_ends rows kept :
  strictly_desc rows -> subseq kept rows -> kept <> [] ->
  (forall r, In r rows -> snd r == plr kept (fst r)) ->
  forall y, plr kept y == plr rows y.
Proof.
  intros D S NE On y. rewrite <- (pl_plr kept), <- (pl_plr rows). symmetry.
  apply pl_refine; [apply sdesc_strictly_desc; exact D|exact S|exact NE|].
  intros m Hm. rewrite (pl_plr kept). apply On. exact Hm.
Qed.

(* ------------------------------------------------------------------ the original rows stay, in order *)
Definition cpt (j : nat) (c : Q * list cell * list cell * list cell) : Q * Q :=
  let '(T, H, _, _) := c in (T, cv (nth j H None)).
Lemma pts_cpt j t : pts j t = map (cpt j) (map core t).
Proof. rewrite map_map. unfold pts. apply map_ext. intro r. reflexivity. Qed.

Section Tol.
Variable tolv : Q.
Hypothesis Htol : 0 <= tolv.

Lemma walk_subseq rest : forall prev xs, subseq rest (walk tolv prev rest xs).
Proof.
  induction rest as [|r rs IH]; intros prev xs; [constructor|]. simpl.
  destruct (span (fun x => qleb (rT r) x) xs) as [here below]. apply subseq_app_r. constructor. apply IH.
Qed.
Lemma merge_subseq t xs : subseq t (merge tolv t xs).
Proof.
  destruct t as [|r0 rs]; [constructor|]. unfold merge. destruct (span (fun x => qltb (rT r0) x) xs) as [tops others].
  apply subseq_app_r. constructor. apply walk_subseq.
Qed.
Lemma insert_subseq_core t reqs : subseq (map core t) (map core (fst (insert_t tolv t reqs))).
Proof.
  unfold insert_t. destruct (plan tolv t reqs) as [|x xs]; simpl fst; [apply subseq_refl|].
  rewrite build_core. apply subseq_map. apply merge_subseq.
Qed.
Lemma history_subseq_core t0 reqss : subseq (map core t0) (map core (fst (run_t tolv t0 reqss))).
Proof.
  apply (run_ind tolv (fun t _ => subseq (map core t0) (map core t))); [apply subseq_refl|].
  intros t' n reqs H. eapply subseq_trans; [exact H|apply insert_subseq_core].
Qed.
(* every interpolated column of the original table is an in-order selection of the column after the history *)
Lemma history_subseq_pts j t0 reqss : subseq (pts j t0) (pts j (fst (run_t tolv t0 reqss))).
Proof. rewrite !pts_cpt. apply subseq_map. apply history_subseq_core. Qed.

Section Pipeline.
Variable j : nat.
Variable t0 : table.
Hypothesis W : WF tolv t0.
Hypothesis P : populated j t0.
Variable reqss : list (list Q).
Let t' := fst (run_t tolv t0 reqss).
Let rows := pts j t'.
Let old := pts j t0.

(* 1. rows added by insertions are exactly collinear with the original rows *)
Theorem inserted_rows_collinear r : In r t' -> exists q, hcell j r = Some q /\ q == plr old (rT r).
Proof.
  intro Hr. destruct (history_row_on_pl tolv Htol j t0 reqss r W P Hr) as [q [H1 H2]]. exists q. split; [exact H1|].
  rewrite H2. unfold old. rewrite pl_plr. reflexivity.
Qed.
Lemma rows_on_old m : In m rows -> snd m == pl old (fst m).
Proof.
  intro Hm. unfold rows in Hm. rewrite pts_map in Hm. apply in_map_iff in Hm. destruct Hm as [r [E Hr]]. subst m.
  destruct (history_row_on_pl tolv Htol j t0 reqss r W P Hr) as [q [H1 H2]]. unfold InsertCurve.pt. cbn [fst snd].
  rewrite H1. cbn [cv]. exact H2.
Qed.
Lemma rows_sdesc : sdesc rows.
Proof. destruct (history_pl tolv Htol j t0 reqss W P) as [W' _]. apply (WF_sdesc tolv Htol). exact W'. Qed.
Lemma old_ne : old <> [].
Proof. unfold old. destruct W as [N _]. destruct t0; [congruence|discriminate]. Qed.

(* 3. THE PIPELINE THEOREM.  kept: any in-order selection of the rows after the history (the points a cleaning step emits).
   If the ORIGINAL rows lie on the polyline through kept, then every row -- inserted ones included -- lies on it, the
   polyline through kept is the column at every temperature, and that column is still the original one. *)
Theorem pipeline_rows_exact kept : subseq kept rows -> kept <> [] ->
  (forall r, In r old -> snd r == plr kept (fst r)) ->
  strictly_desc rows
  /\ (forall r, In r rows -> snd r == plr kept (fst r))
  /\ (forall y, plr kept y == plr rows y)
  /\ (forall y, plr rows y == plr old y).
Proof.
  intros S NE On.
  pose proof rows_sdesc as D. pose proof (history_subseq_pts j t0 reqss) as So. fold t' in So. fold rows in So. fold old in So.
  destruct (subseq_union rows kept old S So) as [M [SK [SO [SM HM]]]].
  pose proof (subseq_sdesc M rows SM D) as DM. pose proof (subseq_sdesc kept rows S D) as DK.
  assert (E1 : forall y, pl M y == pl kept y).
  { apply pl_refine; [exact DM|exact SK|exact NE|]. intros m Hm. destruct (HM m Hm) as [Hk|Ho].
    - symmetry. apply pl_at; assumption.
    - rewrite (pl_plr kept). exact (On m Ho). }
  assert (E2 : forall y, pl M y == pl old y).
  { apply pl_refine; [exact DM|exact SO|exact old_ne|]. intros m Hm. apply rows_on_old. eapply subseq_In; [exact SM|exact Hm]. }
  assert (E3 : forall y, pl rows y == pl old y).
  { intro y. destruct (history_pl tolv Htol j t0 reqss W P) as [_ [_ E]]. apply E. }
  split; [apply sdesc_strictly_desc; exact D|]. split; [|split].
  - intros r Hr. rewrite (rows_on_old r Hr). rewrite <- (pl_plr kept). rewrite <- E1, E2. reflexivity.
  - intro y. rewrite <- (pl_plr kept), <- (pl_plr rows). rewrite <- E1, E2, E3. reflexivity.
  - intro y. rewrite <- (pl_plr rows), <- (pl_plr old). apply E3.
Qed.

(* 4. with kept = the points clean_composite_curve emits for the column.  The graph code works on points (enthalpy,
   temperature); the polyline is read as a function of temperature, hence the swap. *)
Definition swap (p : Q * Q) : Q * Q := (snd p, fst p).
Lemma swap_swap l : map swap (map swap l) = l.
Proof. rewrite map_map. rewrite <- (map_id l) at 2. apply map_ext. intros [a b]. reflexivity. Qed.
Theorem pipeline_clean_exact ctol out : clean_curve ctol (map swap rows) = Ok out -> out <> [] ->
  (forall r, In r old -> snd r == plr (map swap out) (fst r)) ->
  (forall r, In r rows -> snd r == plr (map swap out) (fst r)) /\ (forall y, plr (map swap out) y == plr rows y).
Proof.
  intros C NE On. pose proof (clean_subseq ctol _ _ C) as S. apply (subseq_map swap) in S. rewrite swap_swap in S.
  assert (NE' : map swap out <> []) by (destruct out; [congruence|discriminate]).
  destruct (pipeline_rows_exact (map swap out) S NE' On) as [_ [H1 [H2 _]]]. split; assumption.
Qed.
End Pipeline.
End Tol.

(* ------------------------------------------------------------------ non-vacuity *)
(* the four-row table of proofs/InsertSeq.v after one call that adds a row inside (50), above (120) and two below (-10, -30);
   keeping only the two outermost and the three kinked original rows still reproduces all eight rows *)
Example ex_pipeline :
  let rows := pts 0 (fst (run ex_t [[50; 120; -10; -30]])) in
  let kept := [(120, 130); (60, 50); (20, 10); (-30, 0)] in
  rows = [(120, 130); (100, 130); (60, 50); (50, 40); (20, 10); (0, 0); (-10, 0); (-30, 0)]
  /\ forallb (fun r => qeqb (snd r) (plr kept (fst r))) (pts 0 ex_t) = false
  /\ forallb (fun r => qeqb (snd r) (plr [(120, 130); (100, 130); (60, 50); (20, 10); (0, 0); (-30, 0)] (fst r))) (pts 0 ex_t) = true
  /\ forallb (fun r => qeqb (snd r) (plr [(120, 130); (100, 130); (60, 50); (20, 10); (0, 0); (-30, 0)] (fst r))) rows = true.
Proof. vm_compute. repeat split; reflexivity. Qed.

(* ... and clean_composite_curve applied to that column (as (enthalpy, temperature) points) emits exactly the four ORIGINAL rows:
   the flat end rows and the collinear inside row added by the insertions are the ones it removes *)
Example ex_pipeline_clean :
  clean_curve tol (map swap (pts 0 (fst (run ex_t [[50; 120; -10; -30]])))) = Ok (map swap (pts 0 ex_t)).
Proof. vm_compute. reflexivity. Qed.
