(* "never exceeds the counter-flow value": parallel flow <= counter flow for every NTU > 0 and capacity ratio in [0,1]
   (reduces to sinh(c N) <= c sinh N; mean-value theorem from Coquelicot). *)
From Coq Require Import Reals Lra Psatz Bool.
From Coquelicot Require Import Coquelicot.
From OP Require Import gen.Consts gen.HxDispatch gen.Scalar model.HX proofs.HXBase proofs.HXBranch proofs.HXShell proofs.HXFull.
Local Open Scope R_scope.

(* cosh is non-decreasing on [0, oo), without calculus *)
Lemma cosh2_mono a b : 0 <= b -> b <= a -> exp b + exp (- b) <= exp a + exp (- a).
Proof.
  intros Hb Hab. rewrite !exp_Ropp.
  assert (HB : 1 <= exp b) by (rewrite <- exp_0; apply exp_le_mono; exact Hb).
  assert (HA : exp b <= exp a) by (apply exp_le_mono; exact Hab).
  set (A := exp a) in *. set (B := exp b) in *.
  apply (Rmult_le_reg_r (A * B)); [nra|].
  replace ((B + / B) * (A * B)) with (B * B * A + A) by (field; lra).
  replace ((A + / A) * (A * B)) with (A * A * B + B) by (field; lra).
  assert (0 <= (A - B) * (A * B - 1)) by (apply Rmult_le_pos; nra). nra.
Qed.

Definition sg (c t : R) : R := c * (exp t - exp (- t)) - (exp (c * t) - exp (- (c * t))).
Definition sdg (c t : R) : R := c * (exp t + exp (- t)) - (c * exp (c * t) + c * exp (- (c * t))).
Lemma sg_deriv c t : is_derive (sg c) t (sdg c t).
Proof. unfold sg, sdg. auto_derive; [exact I|]. ring. Qed.

(* 2 sinh(c N) <= c * 2 sinh N *)
Lemma sinh_scale c N : 0 <= c <= 1 -> 0 <= N -> exp (c * N) - exp (- (c * N)) <= c * (exp N - exp (- N)).
Proof.
  intros [Hc0 Hc1] HN. destruct (Req_dec N 0) as [->|NE].
  - rewrite Rmult_0_r, Ropp_0, exp_0. lra.
  - assert (HN' : 0 < N) by lra.
    destruct (MVT_gen (sg c) 0 N (sdg c)) as [t [Ht E]].
    + intros y _. apply sg_deriv.
    + intros y _. apply continuity_pt_filterlim. apply (ex_derive_continuous (sg c) y). exists (sdg c y). apply sg_deriv.
    + rewrite Rmin_left, Rmax_right in Ht by lra.
      assert (G0 : sg c 0 = 0). { unfold sg. rewrite Rmult_0_r, Ropp_0, exp_0. ring. }
      assert (D : 0 <= sdg c t).
      { unfold sdg. assert (0 <= c * t) by (apply Rmult_le_pos; lra). assert (c * t <= t) by nra.
        pose proof (cosh2_mono t (c * t) ltac:(lra) ltac:(lra)). nra. }
      assert (0 <= sdg c t * (N - 0)) by (apply Rmult_le_pos; lra).
      rewrite G0 in E. unfold sg in E at 1. lra.
Qed.

(* c = 1:  (1 - exp(-2N))/2 <= N/(1+N) *)
Definition hg (t : R) : R := (1 + t) * exp (- (2 * t)) - (1 - t).
Definition hdg (t : R) : R := 1 - (1 + 2 * t) * exp (- (2 * t)).
Lemma hg_deriv t : is_derive hg t (hdg t).
Proof. unfold hg, hdg. auto_derive; [exact I|]. ring. Qed.
Lemma hg_nonneg N : 0 <= N -> 0 <= hg N.
Proof.
  intro HN. destruct (Req_dec N 0) as [->|NE].
  - unfold hg. replace (2 * 0) with 0 by ring. rewrite Ropp_0, exp_0. lra.
  - destruct (MVT_gen hg 0 N hdg) as [t [Ht E]].
    + intros y _. apply hg_deriv.
    + intros y _. apply continuity_pt_filterlim. apply (ex_derive_continuous hg y). exists (hdg y). apply hg_deriv.
    + rewrite Rmin_left, Rmax_right in Ht by lra.
      assert (G0 : hg 0 = 0). { unfold hg. replace (2 * 0) with 0 by ring. rewrite Ropp_0, exp_0. ring. }
      assert (D : 0 <= hdg t).
      { unfold hdg. destruct (Req_dec t 0) as [->|Nt].
        - replace (2 * 0) with 0 by ring. rewrite Ropp_0, exp_0. lra.
        - pose proof (exp_ineq1 (2 * t) ltac:(lra)) as X. rewrite exp_Ropp. pose proof (exp_pos (2 * t)) as P.
          assert ((1 + 2 * t) * / exp (2 * t) <= 1); [|lra].
          apply (Rmult_le_reg_r (exp (2 * t))); [exact P|]. rewrite Rmult_assoc, Rinv_l by lra. lra. }
      assert (0 <= hdg t * (N - 0)) by (apply Rmult_le_pos; lra).
      rewrite G0 in E. lra.
Qed.

Theorem eff_PF_le_CF N c : 0 < N -> 0 <= c <= 1 -> eff_PF N c <= eff_CF N c.
Proof.
  intros HN [Hc0 Hc1]. rewrite eff_PF_form. destruct (Req_dec c 1) as [E|NE].
  - rewrite (eff_CF_1_form N c E). subst c. pose proof (hg_nonneg N ltac:(lra)) as H. unfold hg in H.
    replace (N * (1 + 1)) with (2 * N) by ring.
    apply (Rmult_le_reg_r ((1 + 1) * (1 + N))); [nra|].
    replace ((1 - exp (- (2 * N))) / (1 + 1) * ((1 + 1) * (1 + N))) with ((1 - exp (- (2 * N))) * (1 + N)) by (field; lra).
    replace (N / (1 + N) * ((1 + 1) * (1 + N))) with (2 * N) by (field; lra). nra.
  - assert (Hc : c < 1) by lra. rewrite (eff_CF_lt1_form N c HN Hc0 Hc).
    pose proof (sinh_scale c N (conj Hc0 Hc1) ltac:(lra)) as S.
    (* s = exp(-N), u = exp(cN) *)
    assert (Ex : exp (- (N * (1 - c))) = exp (- N) * exp (c * N)) by (rewrite <- exp_plus; f_equal; ring).
    assert (Ey : exp (- (N * (1 + c))) = exp (- N) * exp (- (c * N))) by (rewrite <- exp_plus; f_equal; ring).
    rewrite Ex, Ey.
    assert (Hs0 : 0 < exp (- N)) by apply exp_pos. assert (Hs1 : exp (- N) < 1) by (apply exp_neg_lt1; exact HN).
    assert (EN : exp N = / exp (- N)) by (rewrite exp_Ropp, Rinv_inv; reflexivity).
    assert (Eu : exp (- (c * N)) = / exp (c * N)) by apply exp_Ropp.
    assert (Hu : 1 <= exp (c * N)). { rewrite <- exp_0. apply exp_le_mono. apply Rmult_le_pos; lra. }
    set (s := exp (- N)) in *. set (u := exp (c * N)) in *. rewrite Eu, EN in S. rewrite Eu.
    assert (Hx : s * u < 1).
    { unfold s, u. rewrite <- exp_plus. replace (- N + c * N) with (- (N * (1 - c))) by ring. apply exp_neg_lt1. apply Rmult_lt_0_compat; lra. }
    assert (Hd : 0 < 1 - c * (s * u)) by nra.
    (* S : u - /u <= c (/s - s);  goal: (1 - s/u)/(1+c) <= (1 - s u)/(1 - c s u) *)
    assert (Su : 0 < u) by lra.
    assert (S' : s * (u - / u) <= c * (1 - s * s)).
    { apply (Rmult_le_compat_l s) in S; [|lra]. replace (s * (c * (/ s - s))) with (c * (1 - s * s)) in S by (field; lra). exact S. }
    apply (Rmult_le_reg_r ((1 + c) * (1 - c * (s * u)))); [apply Rmult_lt_0_compat; lra|].
    replace ((1 - s * / u) / (1 + c) * ((1 + c) * (1 - c * (s * u)))) with ((1 - s * / u) * (1 - c * (s * u))) by (field; lra).
    replace ((1 - s * u) / (1 - c * (s * u)) * ((1 + c) * (1 - c * (s * u)))) with ((1 - s * u) * (1 + c)) by (field; lra).
    assert (Einv : u * / u = 1) by (apply Rinv_r; lra).
    (* (1 - s u)(1+c) - (1 - s/u)(1 - c s u) = c (1 - s^2) - s (u - 1/u) *)
    assert (K : (1 - s * u) * (1 + c) - (1 - s * / u) * (1 - c * (s * u)) = c * (1 - s * s) - s * (u - / u)).
    { replace ((1 - s * / u) * (1 - c * (s * u))) with (1 - c * s * u - s * / u + c * s * s * (u * / u)) by ring. rewrite Einv. ring. }
    lra.
Qed.

Lemma eff_le_cf_PF_CondEvap N c : 0 < N -> 0 <= c <= 1 -> eff_PF N c <= eff_CF N c /\ eff_CondEvap N c = eff_CF N 0.
Proof. intros HN Hc. split. apply eff_PF_le_CF; assumption. apply eff_CondEvap_cf0; assumption. Qed.
