(* C16, label normalisation: wkbook_to_json._normalize_label and the record filter of _validate_stream_data
   (model/Channels.v).  The generated literals (label_dot, label_dash, the two prefixes) enter only through the
   constant facts of the first section, each proved by computation.  No axioms. *)
From Coq Require Import String Ascii List Arith Lia Bool.
From OP Require Import gen.Consts gen.ChannelsGen model.Base model.Channels.
Import ListNotations.
Local Open Scope string_scope.
Local Open Scope nat_scope.

Local Notation nodot := (fun c => negb (is_char label_dot c)).
Local Notation R := (replace_char label_dot label_dash).
(* the per-character map of text.replace(".", "-") *)
Definition rc (c : ascii) : ascii := if is_char label_dot c then chr label_dash else c.
Lemma R_rc s : R s = smap rc s.
Proof. reflexivity. Qed.

Definition prefix_ok (p : string) : Prop :=
  sall is_digit_py p = false /\ sall (fun c => negb (is_char label_dot c)) p = true /\ first_is is_space p = false.

(* ================================================================== constant facts (by computation) *)
Lemma F_dot_space : is_space (chr label_dot) = false.
Proof. vm_compute; reflexivity. Qed.
Lemma F_dash_space : is_space (chr label_dash) = false.
Proof. vm_compute; reflexivity. Qed.
(* the replacement character is not the replaced one (label_dot <> label_dash, and label_dash is a character code) *)
Lemma F_dash_nodot : is_char label_dot (chr label_dash) = false.
Proof. vm_compute; reflexivity. Qed.
Lemma F_zone_ok : prefix_ok (str_of_codes label_prefix_zone).
Proof. repeat split; vm_compute; reflexivity. Qed.
Lemma F_name_ok : prefix_ok (str_of_codes label_prefix_name).
Proof. repeat split; vm_compute; reflexivity. Qed.
(* the default zone label is not blank and is left alone by the normalisation *)
Lemma F_default_zone : blank default_zone = false
  /\ normalize_label (str_of_codes label_prefix_zone) default_zone = default_zone.
Proof. split; vm_compute; reflexivity. Qed.

#[local] Opaque label_dot label_dash label_prefix_zone label_prefix_name.

(* ================================================================== characters *)
Lemma is_char_eq k c : is_char k c = true -> c = chr k.
Proof.
  unfold is_char, code, chr. intros H. apply Nat.eqb_eq in H. rewrite <- H.
  symmetry. apply ascii_nat_embedding.
Qed.
Lemma rc_space c : is_space (rc c) = is_space c.
Proof.
  unfold rc. destruct (is_char label_dot c) eqn:E; [|reflexivity].
  apply is_char_eq in E. subst. rewrite F_dot_space, F_dash_space. reflexivity.
Qed.
Lemma rc_nodot c : is_char label_dot (rc c) = false.
Proof. unfold rc. destruct (is_char label_dot c) eqn:E; [apply F_dash_nodot|exact E]. Qed.
Lemma rc_idem c : rc (rc c) = rc c.
Proof. unfold rc at 1. rewrite (rc_nodot c). reflexivity. Qed.
Lemma digit_not_space c : is_digit_py c = true -> is_space c = false.
Proof.
  unfold is_digit_py, is_space. cbv zeta. intros H.
  rewrite !orb_true_iff, !andb_true_iff, !Nat.leb_le, !Nat.eqb_eq in H.
  apply not_true_is_false. intros G.
  rewrite !orb_true_iff, !andb_true_iff, !Nat.leb_le, !Nat.eqb_eq in G. lia.
Qed.

(* ================================================================== strings *)
Lemma sall_app p a b : sall p (a ++ b) = sall p a && sall p b.
Proof. induction a; simpl; auto. rewrite IHa. apply andb_assoc. Qed.
Lemma app_nonempty a b : b <> "" -> a ++ b <> "".
Proof. destruct a; simpl; congruence. Qed.
Lemma is_empty_false s : is_empty s = false <-> s <> "".
Proof. destruct s; simpl; split; congruence. Qed.
Lemma last_is_cons p c s : s <> "" -> last_is p (String c s) = last_is p s.
Proof. destruct s; [congruence|reflexivity]. Qed.
Lemma last_is_app p a b : b <> "" -> last_is p (a ++ b) = last_is p b.
Proof.
  intros Hb. induction a as [|c a IH]; [reflexivity|].
  change (String c a ++ b) with (String c (a ++ b)).
  rewrite last_is_cons; [exact IH|apply app_nonempty; exact Hb].
Qed.
(* a string of q-characters, none of which is a p-character, does not end with a p-character *)
Lemma last_is_sall p q s : (forall c, q c = true -> p c = false) -> sall q s = true -> last_is p s = false.
Proof.
  intros Hqp. induction s as [|c r IH]; [reflexivity|]. cbn [sall]. intros H.
  apply andb_true_iff in H as [H1 H2]. destruct r as [|c' r'].
  - simpl. apply Hqp, H1.
  - rewrite last_is_cons by congruence. apply IH, H2.
Qed.

Lemma rstrip_cons p c r : rstrip p (String c r) =
  match rstrip p r with EmptyString => if p c then EmptyString else String c EmptyString | r' => String c r' end.
Proof. reflexivity. Qed.
Lemma rstrip_last p s : last_is p (rstrip p s) = false.
Proof.
  induction s as [|c r IH]; [reflexivity|]. rewrite rstrip_cons.
  destruct (rstrip p r) as [|c' r'] eqn:E.
  - destruct (p c) eqn:Pc; simpl; auto.
  - rewrite last_is_cons; [exact IH|congruence].
Qed.
Lemma rstrip_first q p s : first_is q s = false -> first_is q (rstrip p s) = false.
Proof.
  destruct s as [|c r]; [reflexivity|]. rewrite rstrip_cons. cbn [first_is]. intros H.
  destruct (rstrip p r); [destruct (p c)|]; simpl; auto.
Qed.
(* rstrip removes everything only from the empty string, when the first character stays *)
Lemma rstrip_id p s : last_is p s = false -> rstrip p s = s.
Proof.
  induction s as [|c r IH]; [reflexivity|]. intros H. destruct r as [|c' r'].
  - simpl in *. rewrite H. reflexivity.
  - rewrite last_is_cons in H by congruence. rewrite rstrip_cons, (IH H). reflexivity.
Qed.
Lemma rstrip_empty p s : first_is p s = false -> rstrip p s = "" -> s = "".
Proof.
  destruct s as [|c r]; [reflexivity|]. rewrite rstrip_cons. cbn [first_is]. intros H.
  destruct (rstrip p r); [rewrite H|]; discriminate.
Qed.
Lemma lstrip_first p s : first_is p (lstrip p s) = false.
Proof. induction s as [|c r IH]; simpl; auto. destruct (p c) eqn:E; [exact IH|simpl; exact E]. Qed.
Lemma lstrip_id p s : first_is p s = false -> lstrip p s = s.
Proof. destruct s as [|c r]; [reflexivity|]. simpl. intros H. rewrite H. reflexivity. Qed.
Lemma strip_first p s : first_is p (strip p s) = false.
Proof. unfold strip. apply rstrip_first, lstrip_first. Qed.
Lemma strip_last p s : last_is p (strip p s) = false.
Proof. unfold strip. apply rstrip_last. Qed.
Lemma strip_id p s : first_is p s = false -> last_is p s = false -> strip p s = s.
Proof. intros H1 H2. unfold strip. rewrite (lstrip_id _ _ H1). apply rstrip_id, H2. Qed.
Lemma strip_idem p s : strip p (strip p s) = strip p s.
Proof. apply strip_id; [apply strip_first|apply strip_last]. Qed.

Lemma smap_app f a b : smap f (a ++ b) = smap f a ++ smap f b.
Proof. induction a; simpl; congruence. Qed.
Lemma smap_idem f s : (forall c, f (f c) = f c) -> smap f (smap f s) = smap f s.
Proof. intros H. induction s; simpl; congruence. Qed.
Lemma is_empty_smap f s : is_empty (smap f s) = is_empty s.
Proof. destruct s; reflexivity. Qed.
Lemma lstrip_smap p f s : (forall c, p (f c) = p c) -> lstrip p (smap f s) = smap f (lstrip p s).
Proof.
  intros H. induction s as [|c r IH]; [reflexivity|]. simpl. rewrite H, IH.
  destruct (p c); reflexivity.
Qed.
Lemma rstrip_smap p f s : (forall c, p (f c) = p c) -> rstrip p (smap f s) = smap f (rstrip p s).
Proof.
  intros H. induction s as [|c r IH]; [reflexivity|]. cbn [smap]. rewrite !rstrip_cons, IH.
  destruct (rstrip p r) as [|c' r'].
  - cbn [smap]. rewrite H. destruct (p c); reflexivity.
  - reflexivity.
Qed.
Lemma strip_smap p f s : (forall c, p (f c) = p c) -> strip p (smap f s) = smap f (strip p s).
Proof. intros H. unfold strip. rewrite lstrip_smap, rstrip_smap by exact H. reflexivity. Qed.

(* ================================================================== replace "." by "-" *)
Lemma R_strip s : strip is_space (R s) = R (strip is_space s).
Proof. rewrite !R_rc. apply strip_smap. intros c. apply rc_space. Qed.
Lemma R_idem s : R (R s) = R s.
Proof. rewrite !R_rc. apply smap_idem. intros c. apply rc_idem. Qed.
Lemma R_nodot s : sall nodot (R s) = true.
Proof.
  rewrite R_rc. induction s as [|c r IH]; [reflexivity|]. cbn [smap sall].
  rewrite IH, rc_nodot. reflexivity.
Qed.
Lemma R_id s : sall nodot s = true -> R s = s.
Proof.
  rewrite R_rc. induction s as [|c r IH]; [reflexivity|]. cbn [smap sall]. intros H.
  apply andb_true_iff in H as [H1 H2]. apply negb_true_iff in H1. unfold rc at 1. rewrite H1, (IH H2). reflexivity.
Qed.
Lemma R_app a b : R (a ++ b) = R a ++ R b.
Proof. rewrite !R_rc. apply smap_app. Qed.

(* ================================================================== normalize_label *)
(* a stripped, dot-free text that is not a digit string is a fixed point *)
Lemma normalize_fix prefix t : strip is_space t = t -> R t = t -> all_digits t = false -> normalize_label prefix t = t.
Proof. intros H1 H2 H3. unfold normalize_label. cbv zeta. rewrite H1, H2, H3. reflexivity. Qed.

Theorem normalize_label_id : forall prefix t, strip is_space t = t -> sall (fun c => negb (is_char label_dot c)) t = true -> all_digits t = false -> normalize_label prefix t = t.
Proof. intros prefix t H1 H2 H3. apply normalize_fix; [exact H1|apply R_id, H2|exact H3]. Qed.

Lemma prefix_nonempty p : prefix_ok p -> p <> "".
Proof. intros [H _]. destruct p; [discriminate|congruence]. Qed.

(* every result is stripped, dot-free and not a digit string; it is blank only if the input was *)
Lemma normalize_shape prefix t : prefix_ok prefix ->
  let r := normalize_label prefix t in
  strip is_space r = r /\ R r = r /\ all_digits r = false /\ (blank t = false -> r <> "").
Proof.
  intros P. pose proof (prefix_nonempty _ P) as Pne. destruct P as (Pd & Pn & Ps).
  unfold normalize_label. cbv zeta. set (x := R (strip is_space t)).
  assert (X1 : strip is_space x = x) by (unfold x; rewrite R_strip, strip_idem; reflexivity).
  assert (X2 : R x = x) by (unfold x; apply R_idem).
  destruct (all_digits x) eqn:D.
  - unfold all_digits in D. apply andb_true_iff in D as [D1 D2].
    apply negb_true_iff, is_empty_false in D1.
    repeat split.
    + apply strip_id.
      * destruct prefix; [congruence|exact Ps].
      * rewrite last_is_app by exact D1. apply (last_is_sall _ is_digit_py); [apply digit_not_space|exact D2].
    + rewrite R_app, X2, (R_id _ Pn). reflexivity.
    + unfold all_digits. rewrite sall_app, Pd. apply andb_false_r.
    + intros _. apply app_nonempty, D1.
  - repeat split; auto. unfold blank. intros B. apply is_empty_false.
    unfold x. rewrite R_rc, is_empty_smap. exact B.
Qed.

Theorem normalize_label_idem : forall prefix t, prefix_ok prefix -> normalize_label prefix (normalize_label prefix t) = normalize_label prefix t.
Proof. intros prefix t P. destruct (normalize_shape prefix t P) as (H1 & H2 & H3 & _). apply normalize_fix; assumption. Qed.

Theorem normalize_zone_idem : forall t, let p := str_of_codes label_prefix_zone in normalize_label p (normalize_label p t) = normalize_label p t.
Proof. intros t p. apply normalize_label_idem, F_zone_ok. Qed.
Theorem normalize_name_idem : forall t, let p := str_of_codes label_prefix_name in normalize_label p (normalize_label p t) = normalize_label p t.
Proof. intros t p. apply normalize_label_idem, F_name_ok. Qed.

Theorem normalize_label_no_dot : forall prefix t, sall (fun c => negb (is_char label_dot c)) prefix = true -> sall (fun c => negb (is_char label_dot c)) (normalize_label prefix t) = true.
Proof.
  intros prefix t P. unfold normalize_label. cbv zeta.
  destruct (all_digits (R (strip is_space t))); [rewrite sall_app, P|]; rewrite R_nodot; reflexivity.
Qed.

Lemma normalize_nonblank prefix t : prefix_ok prefix -> blank t = false -> blank (normalize_label prefix t) = false.
Proof.
  intros P B. destruct (normalize_shape prefix t P) as (H1 & _ & _ & H4).
  unfold blank. rewrite H1. apply is_empty_false, H4, B.
Qed.

(* ================================================================== the record filter *)
Theorem validate_record_idem : forall z n z' n', validate_record z n = Some (z', n') -> validate_record (Some z') (Some n') = Some (z', n').
Proof.
  intros z n z' n'. unfold validate_record at 1.
  destruct n as [n0|]; [|discriminate]. destruct (blank n0) eqn:Bn; [discriminate|].
  intros E. injection E as Ez En.
  assert (HN : blank n' = false /\ normalize_label (str_of_codes label_prefix_name) n' = n').
  { subst n'. split; [apply normalize_nonblank; [apply F_name_ok|exact Bn]|apply normalize_name_idem]. }
  assert (HZ : blank z' = false /\ normalize_label (str_of_codes label_prefix_zone) z' = z').
  { destruct z as [z0|]; [destruct (blank z0) eqn:Bz|]; subst z'; try apply F_default_zone.
    split; [apply normalize_nonblank; [apply F_zone_ok|exact Bz]|apply normalize_zone_idem]. }
  clear Ez En. destruct HN as [N1 N2]. destruct HZ as [Z1 Z2].
  unfold validate_record. rewrite N1, Z1, N2, Z2. reflexivity.
Qed.

(* non-vacuity: the numeric branch, the dot replacement, and a record that goes through both *)
Example normalize_examples :
  normalize_label (str_of_codes label_prefix_zone) " 12 " = "Z12"
  /\ normalize_label (str_of_codes label_prefix_zone) "Z12" = "Z12"
  /\ normalize_label (str_of_codes label_prefix_name) "1.5" = "1-5"
  /\ validate_record (Some " 3 ") (Some "7") = Some ("Z3", "S7")
  /\ validate_record None (Some " a.b ") = Some ("Process Zone", "a-b")
  /\ validate_record (Some "Z3") (Some "  ") = None.
Proof. vm_compute. repeat split. Qed.

Print Assumptions normalize_label_idem.
Print Assumptions normalize_zone_idem.
Print Assumptions normalize_name_idem.
Print Assumptions normalize_label_id.
Print Assumptions normalize_label_no_dot.
Print Assumptions validate_record_idem.
Print Assumptions normalize_examples.
