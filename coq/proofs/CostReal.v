From Coq Require Import Reals Lra Psatz.
From OP Require Import gen.Consts gen.HxDispatch gen.Scalar proofs.HXBase proofs.Cost.
Local Open Scope R_scope.

(* present value of a unit annuity over a REAL service life n: (1 - (1+i)^-n) / i.  For an integer life it is the discounted
   sum `annuity`, so the theorem below is the real-valued extension of crf_annuity. *)
Definition annuity_factor (i n : R) : R := (1 - Rpower (1 + i) (- n)) / i.

Lemma annuity_factor_nat i (n : nat) : 0 < i -> annuity_factor i (INR n) = annuity i n.
Proof.
  intro Hi. unfold annuity_factor. rewrite annuity_closed by exact Hi.
  rewrite Rpower_Ropp, Rpower_pow by lra. reflexivity.
Qed.

Theorem crf_annuity_real i n : 0 < i -> 0 < n -> compute_capital_recovery_factor_R i n * annuity_factor i n = 1.
Proof.
  intros Hi Hn. rewrite crf_form. unfold annuity_factor. rewrite Rpower_Ropp.
  pose proof (Rpower_gt1 (1 + i) n ltac:(lra) Hn) as Hq. set (q := Rpower (1 + i) n) in *.
  field. repeat split; lra.
Qed.

(* a longer life lowers the yearly charge: the factor strictly decreases with the service life *)
Theorem crf_decreasing_in_life i n1 n2 : 0 < i -> 0 < n1 -> n1 < n2 ->
  compute_capital_recovery_factor_R i n2 < compute_capital_recovery_factor_R i n1.
Proof.
  intros Hi H1 H12. rewrite !crf_form.
  pose proof (Rpower_gt1 (1 + i) n1 ltac:(lra) H1) as Hq1.
  assert (Hq : Rpower (1 + i) n1 < Rpower (1 + i) n2) by (apply Rpower_lt; lra).
  set (q1 := Rpower (1 + i) n1) in *. set (q2 := Rpower (1 + i) n2) in *.
  assert (E : forall q, 1 < q -> i * q / (q - 1) = i + i * / (q - 1)) by (intros q Hq'; field; lra).
  rewrite (E q1), (E q2) by lra. apply Rplus_lt_compat_l. apply Rmult_lt_compat_l; [exact Hi|].
  apply Rinv_lt_contravar; [nra|lra].
Qed.

(* and the annualised cost never exceeds ... the capital itself times (i + 1/n)?  Not claimed.  What is claimed: the annual
   charge of a positive capital is positive and below the capital when the factor is below one. *)
Theorem annual_cost_positive K i n : 0 < K -> 0 < i -> 0 < n -> 0 < compute_annual_capital_cost_R K i n.
Proof.
  intros HK Hi Hn. rewrite annual_cost_def. pose proof (crf_real_partial i n Hi Hn). apply Rmult_lt_0_compat; lra.
Qed.

(* the yearly charge exceeds straight-line repayment K/n: with crf_real_partial the factor is bracketed from below by
   max(i, 1/n) for every real life *)
Theorem crf_above_straight_line i n : 0 < i -> 0 < n -> / n < compute_capital_recovery_factor_R i n.
Proof.
  intros Hi Hn. rewrite crf_form.
  pose proof (Rpower_gt1 (1 + i) n ltac:(lra) Hn) as Hq1.
  assert (Hl : 0 < ln (1 + i)) by (rewrite <- ln_1; apply ln_increasing; lra).
  assert (Hli : ln (1 + i) <= i).
  { pose proof (exp_ineq1_le i) as He. destruct He as [He|He].
    - left. rewrite <- (ln_exp i) at 2. apply ln_increasing; lra.
    - right. rewrite He, ln_exp. reflexivity. }
  set (x := n * ln (1 + i)). assert (Hx : 0 < x) by (unfold x; apply Rmult_lt_0_compat; lra).
  assert (Hxi : x <= n * i) by (unfold x; apply Rmult_le_compat_l; lra).
  assert (Hq : Rpower (1 + i) n = exp x) by reflexivity. rewrite Hq in *. clear Hq.
  pose proof (exp_ineq1 (- x) ltac:(lra)) as Hm. rewrite exp_Ropp in Hm.
  set (q := exp x) in *.
  assert (Hqx : q - 1 < x * q).
  { assert (q * (1 + - x) < q * / q) by (apply Rmult_lt_compat_l; lra). rewrite Rinv_r in H by lra. nra. }
  assert (Hniq : q - 1 < n * i * q) by nra.
  apply (Rmult_lt_reg_r (n * (q - 1))); [nra|].
  replace (/ n * (n * (q - 1))) with (q - 1) by (field; lra).
  replace (i * q / (q - 1) * (n * (q - 1))) with (n * i * q) by (field; lra). exact Hniq.
Qed.
