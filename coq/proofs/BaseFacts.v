(* Facts about model/Base.v used by every proof file. *)
From OP Require Import model.Base.
From Coq Require Import Lqa Lia.
Local Open Scope Q_scope.

Lemma radd_eq a b : radd a b == a + b. Proof. unfold radd. apply Qred_correct. Qed.
Lemma rsub_eq a b : rsub a b == a - b. Proof. unfold rsub. apply Qred_correct. Qed.
Lemma rmul_eq a b : rmul a b == a * b. Proof. unfold rmul. apply Qred_correct. Qed.
Lemma rdiv_eq a b : rdiv a b == a / b. Proof. unfold rdiv. apply Qred_correct. Qed.

Lemma qltb_true a b : qltb a b = true <-> a < b.
Proof. unfold qltb. destruct (Qlt_le_dec a b) as [H|H]; split; intro K; try reflexivity; try assumption; try discriminate.
  exfalso. apply (Qlt_irrefl a). eapply Qlt_le_trans; eauto. Qed.
Lemma qltb_false a b : qltb a b = false <-> b <= a.
Proof. unfold qltb. destruct (Qlt_le_dec a b) as [H|H]; split; intro K; try reflexivity; try assumption; try discriminate.
  exfalso. apply (Qlt_irrefl a). eapply Qlt_le_trans; eauto. Qed.
Lemma qleb_true a b : qleb a b = true <-> a <= b.
Proof. unfold qleb. apply Qle_bool_iff. Qed.
Lemma qleb_false a b : qleb a b = false <-> b < a.
Proof. unfold qleb. split; intro H.
  - apply Qnot_le_lt. intro K. apply Qle_bool_iff in K. congruence.
  - destruct (Qle_bool a b) eqn:E; [|reflexivity]. apply Qle_bool_iff in E. exfalso. apply (Qlt_irrefl b). eapply Qlt_le_trans; eauto. Qed.
Lemma qeqb_true a b : qeqb a b = true <-> a == b.
Proof. unfold qeqb. apply Qeq_bool_iff. Qed.
Lemma qeqb_false a b : qeqb a b = false <-> ~ a == b.
Proof. unfold qeqb. split; intro H.
  - intro K. apply Qeq_bool_iff in K. congruence.
  - destruct (Qeq_bool a b) eqn:E; [|reflexivity]. apply Qeq_bool_iff in E. contradiction. Qed.
Lemma is_zero_true a : is_zero a = true <-> a == 0. Proof. apply qeqb_true. Qed.
Lemma is_zero_false a : is_zero a = false <-> ~ a == 0. Proof. apply qeqb_false. Qed.

Lemma close_abs_spec eps a b : close_abs eps a b = true <-> - eps <= a - b <= eps.
Proof. unfold close_abs. rewrite qleb_true. apply Qabs_Qle_condition. Qed.
Lemma close0_eq a b : close 0 a b = true <-> a == b.
Proof. unfold close. rewrite qleb_true, Qmult_0_l, Qabs_Qle_condition. split; intro H; lra. Qed.
Lemma close_spec eps a b : close eps a b = true <-> - (eps * qscale a b) <= a - b <= eps * qscale a b.
Proof. unfold close. rewrite qleb_true. apply Qabs_Qle_condition. Qed.
Lemma qscale_ge1 a b : 1 <= qscale a b.
Proof. unfold qscale. apply Q.le_max_l. Qed.
