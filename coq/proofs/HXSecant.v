(* The numerical inversion used for the two cross-flow arrangements without a closed-form NTU. *)
From Coq Require Import Reals Lra Psatz Bool.
From Interval Require Import Tactic.
From OP Require Import gen.Consts gen.HxDispatch gen.Scalar proofs.HXBase.
Local Open Scope R_scope.

Lemma secant_loop_post g e fuel : forall n1 f1 n2 f2 n, secant_loop g e fuel n1 f1 n2 f2 = Some n -> Rabs (e - g n) <= sec_eps.
Proof.
  induction fuel as [|k IH]; intros n1 f1 n2 f2 n; simpl; [discriminate|].
  destruct (Reqb (n1 - n2) 0); [discriminate|].
  destruct (Reqb ((f1 - f2) / (n1 - n2)) 0); [discriminate|].
  set (n3 := - (f1 - (f1 - f2) / (n1 - n2) * n1) / ((f1 - f2) / (n1 - n2))).
  destruct (Rgtb (Rabs (e - g n3)) sec_eps) eqn:G.
  - apply IH.
  - intro K. injection K as <-. apply Rgtb_false in G. exact G.
Qed.

(* whatever function is inverted: if the solver returns n, the residual is within the tolerance read from the source *)
Theorem secant_postcondition g e n : secant g e = Some n -> Rabs (e - g n) <= sec_eps.
Proof. unfold secant. destruct (Rgtb sec_f0 sec_eps); [apply secant_loop_post|discriminate]. Qed.

Lemma sec_eps_value : Rabs (sec_eps - 1 / 100000) <= 1 / 10 ^ 20.
Proof. unfold sec_eps. interval. Qed.

Theorem HX_NTU_Numerical_post l e c n : HX_NTU_Numerical_R l e c = Some n -> Rabs (e - HX_Eff_R l n c 1) <= sec_eps.
Proof. unfold HX_NTU_Numerical_R. apply (secant_postcondition (fun n => HX_Eff_R l n c 1)). Qed.
