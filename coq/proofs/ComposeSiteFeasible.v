(* C09 lower bound with DATA hypotheses only.

   proofs/ComposeSiteBound.v reduced the feasibility hypothesis of site_Qh_ge_direct to zonal statements (the hot sum
   closes; the utility step profile lies under the zone's GCC at the break points).  Here those zonal statements are
   DERIVED, for the duties the model of get_utility_targets assigns (di_duties: pinch_idx, sep_hot / sep_cold, flip, the entry
   tests, the two loops) on the output table of the model of get_GCC_without_pockets (gcc_np), from

     (d1) the zone's GCC column is the exact residual  Hs[i] == Hs[0] - Dnet hot cold Ts[i]     (C06_table_residual_is_exact;
          `zone_of_stage` below discharges it for the stage model on lattice inputs with rows more than the window apart),
     (d2) the GCC (Ts, Hs) is Robust and has a pinch, and gcc_np returns the table `out`           (C07's data hypotheses),
     (d3) every utility is gridded on the rows of `out` (0.1 K wide, clear of the rows, both ends rows: C04's data hypothesis),
     (d4) one hot utility reaches the top row and one cold utility the bottom row (the default utilities do),
     (d5) every end point of a stream or utility of the zone is (==) a row of the GCC  (create_problem_table_with_t_int puts
          them there: ComposeGridUtility.model_grid_rows).

   Chain of the proof, per zone:  C07 (np_rows, rows_on_curve, breakpoints: every input row is kept and H_np <= H_net there)
   -> ComposePocketsUtility.gcc_demand_columns (the two demand columns are monotone, add up to H_np, vanish across the pinch)
   -> C04 level feasibility in step form (ComposeSiteBound.hut_step_le_profiles) + the row value of the level demands
   -> C03 sums close (assign_hot_sum_closes / assign_cold_sum_closes) -> ComposeSiteBound.zone_feasible.
   Then zones_sum / U_merged / site_Qh_ge_direct and the site cascade balance give, for ANY number of zones,

        Qh*(all site streams) <= Qh_TS + 2 n tol        Qc*(all site streams) <= Qc_TS + 4 n tol

   with Qh*, Qc* the exact direct-integration optimum of C01 and n the number of zones (each zonal sum closes only to tol,
   twice: at the pinch row and at the entry test; the slack is explicit, not hidden). *)
From OP Require Import gen.Consts model.Base model.Stream model.Cascade model.CascadeE2E model.Site
  proofs.BaseFacts proofs.CascadeSpec proofs.CascadeExact proofs.CascadeTargets proofs.CascadeGrid proofs.SiteFacts.
From OP Require Import model.Pockets proofs.PocketsPL proofs.PocketsZ proofs.PocketsSim proofs.PocketsSpec proofs.PocketsTop
  proofs.PocketsProfiles proofs.PocketsValley proofs.PocketsGreatest proofs.PocketsBreakpoints.
From OP Require Import model.Utility proofs.UtilityLadder proofs.UtilityDuty proofs.UtilityProfile proofs.UtilityWitness
  proofs.UtilityRows proofs.ComposePocketsUtility proofs.ComposeGridUtility proofs.ComposeSiteBound.
From Coq Require Import Lqa Lia.
Local Open Scope Q_scope.
Local Arguments Qred : simpl never.

(* ====================================================================================================================== *)
(* list facts                                                                                                             *)
(* ====================================================================================================================== *)
Lemma noninc_nth l : noninc l = true -> forall i j, (i <= j)%nat -> (j < List.length l)%nat -> nth j l 0 <= nth i l 0.
Proof.
  induction l as [|a l IH]; intros H i j Hij Hj; [simpl in Hj; lia|].
  destruct j as [|j]; [assert (i = 0%nat) by lia; subst; lra|]. simpl in Hj.
  destruct i as [|i].
  - cbn [nth]. apply (noninc_le a l); [exact H|apply nth_In; lia].
  - cbn [nth]. apply IH; [exact (noninc_tail _ _ H)|lia|lia].
Qed.
Lemma nondec_nth l : noninc (rev l) = true -> forall i j, (i <= j)%nat -> (j < List.length l)%nat -> nth i l 0 <= nth j l 0.
Proof.
  intros H i j Hij Hj.
  assert (E : forall k, (k < List.length l)%nat -> nth k l 0 = nth (List.length l - S k) (rev l) 0).
  { intros k Hk. rewrite rev_nth by lia. f_equal. lia. }
  rewrite (E i) by lia. rewrite (E j) by lia. apply noninc_nth; [exact H|lia|rewrite rev_length; lia].
Qed.
Lemma noninc_app_l l1 l2 : noninc (l1 ++ l2) = true -> noninc l1 = true.
Proof. rewrite !noninc_chain. apply PocketsValley.chainQ_app_l. Qed.
Lemma noninc_app_r l1 l2 : noninc (l1 ++ l2) = true -> noninc l2 = true.
Proof. rewrite !noninc_chain. apply PocketsValley.chainQ_app_r. Qed.
Lemma noninc_firstn n l : noninc l = true -> noninc (firstn n l) = true.
Proof. intro H. rewrite <- (firstn_skipn n l) in H. exact (noninc_app_l _ _ H). Qed.
Lemma noninc_rev_skipn k l : noninc (rev l) = true -> noninc (rev (skipn k l)) = true.
Proof. intro H. rewrite <- (firstn_skipn k l), rev_app_distr in H. exact (noninc_app_l _ _ H). Qed.
Lemma lastq_nth (l : list Q) : Utility.lastq l = nth (List.length l - 1) l 0.
Proof.
  unfold Utility.lastq. induction l as [|a l IH]; [reflexivity|]. destruct l as [|b l]; [reflexivity|].
  rewrite last_cons2, IH. cbn [List.length]. replace (S (S (List.length l)) - 1)%nat with (S (S (List.length l) - 1)) by lia. reflexivity.
Qed.
Lemma headq_nth (l : list Q) : headq l = nth 0 l 0.
Proof. destruct l; reflexivity. Qed.
Lemma lastq_firstn_nth n : forall l : list Q, (n < List.length l)%nat -> Utility.lastq (firstn (S n) l) = nth n l 0.
Proof. intros l H. rewrite lastq_nth, firstn_length, Nat.min_l by lia. replace (S n - 1)%nat with n by lia.
  clear H. revert l. induction n as [|n IH]; intros [|a l]; try reflexivity. cbn [firstn nth]. apply (IH l). Qed.
Lemma headq_skipn k (l : list Q) : headq (skipn k l) = nth k l 0.
Proof. rewrite headq_nth, nth_skipn_Q. f_equal. lia. Qed.
Lemma strict_desc_firstn n l : strict_desc l = true -> strict_desc (firstn n l) = true.
Proof.
  revert l. induction n as [|n IH]; intros [|a [|b l]] H; try reflexivity; [destruct n; reflexivity|].
  destruct n as [|n']; [reflexivity|]. specialize (IH (b :: l) (strict_desc_tail _ _ H)).
  change (firstn (S (S n')) (a :: b :: l)) with (a :: firstn (S n') (b :: l)).
  change (firstn (S n') (b :: l)) with (b :: firstn n' l) in *.
  cbn [strict_desc] in *. apply andb_true_iff in H. destruct H as [H1 _]. rewrite H1. exact IH.
Qed.

(* boolean comparisons, the step profile and the net deficit respect == *)
Lemma qleb_compat_r a x y : x == y -> qleb a x = qleb a y.
Proof. intro E. destruct (qleb a x) eqn:E1; destruct (qleb a y) eqn:E2; try reflexivity; bprop; lra. Qed.
Lemma qleb_compat_l a x y : x == y -> qleb x a = qleb y a.
Proof. intro E. destruct (qleb x a) eqn:E1; destruct (qleb y a) eqn:E2; try reflexivity; bprop; lra. Qed.
Lemma hut_step_compat x y hus cus dh dc : x == y -> hut_step x hus cus dh dc = hut_step y hus cus dh dc.
Proof.
  intro E. unfold hut_step. f_equal; f_equal; apply map_ext; intro p;
    [rewrite (qleb_compat_r _ x y E)|rewrite (qleb_compat_l _ x y E)]; reflexivity.
Qed.
Lemma above_compat s T T' : T == T' -> Cascade.above s T == Cascade.above s T'.
Proof. intro E. unfold Cascade.above. qmax_cases. split_cases; lra. Qed.
Lemma heat_above_compat ss T T' : T == T' -> heat_above ss T == heat_above ss T'.
Proof. intro E. induction ss as [|s ss IH]; [reflexivity|]. rewrite !heat_above_cons, IH, (above_compat s T T' E). reflexivity. Qed.
Lemma Dnet_compat hot cold T T' : T == T' -> Dnet hot cold T == Dnet hot cold T'.
Proof. intro E. unfold Dnet. rewrite (heat_above_compat hot T T' E), (heat_above_compat cold T T' E). reflexivity. Qed.

(* ====================================================================================================================== *)
(* C07 on a Robust GCC with a pinch: input rows are kept, and H_net_np <= H_net on every row                              *)
(* ====================================================================================================================== *)
Section GccFacts.
Variables (Ts Hs : list Q) (out : list row).
Hypothesis Hrob : robust_b tol Ts Hs = true.
Hypothesis Hhas : has_pinch tol Hs = true.
Hypothesis Hout : gcc_np tol Ts Hs = Ok out.

Lemma rob_len : List.length Ts = List.length Hs.
Proof. exact (proj1 (robust_b_P tol Ts Hs Hrob)). Qed.
Lemma rob_nonneg : Forall (fun h => 0 <= h) Hs.
Proof.
  destruct (robust_b_P tol Ts Hs Hrob) as [Hlen [_ R]]. pose proof tol_pos as Ht.
  pose proof (rp_zero tol Hs _ R) as Hz. rewrite Forall_forall in *. intros h Hh.
  rewrite <- (init_rows_rH Ts Hs Hlen) in Hh. apply in_map_iff in Hh. destruct Hh as [r [E Hr]]. subst h. destruct (Hz r Hr); lra.
Qed.
Lemma spec_le_gcc x : spec_np tol Ts Hs x <= gcc_at Ts Hs x.
Proof.
  unfold spec_np. destruct (zero_Ts tol Ts Hs) as [|th zr]; [lra|].
  destruct (qleb th x); [apply qmin_list_le_dflt|]. destruct (qleb x (last zr th)); [apply qmin_list_le_dflt|].
  rewrite (gcc_at_plw Ts Hs x rob_len). apply plw_nonneg.
  pose proof rob_nonneg as N. rewrite Forall_forall in *. intros [t h] Hp. cbn [snd]. apply N. exact (in_combine_r _ _ _ _ Hp).
Qed.
Lemma np_le_H r : In r out -> rNP r <= rH r.
Proof.
  intro Hr. rewrite (np_rows tol Ts Hs out tol_pos Hrob Hhas Hout r Hr), (rows_on_curve tol Ts Hs out tol_pos Hrob Hhas Hout r Hr).
  apply spec_le_gcc.
Qed.
(* every input row (t, h) is a row of the output table, with the same temperature, and H_np <= h there *)
Lemma kept_row t h : In (t, h) (combine Ts Hs) ->
  exists i, (i < List.length out)%nat /\ nth i (map rT out) 0 = t /\ nth i (map rNP out) 0 <= h.
Proof.
  intro Hp. assert (Hi : In (mkR t h h) (init_rows Ts Hs)).
  { unfold init_rows. apply in_map_iff. exists (t, h). split; [reflexivity|exact Hp]. }
  destruct (breakpoints tol Ts Hs out tol_pos Hrob Hhas Hout) as [bps [W _]].
  destruct (Weave_in_inp _ _ _ _ W Hi) as [r' [Hr' [E1 E2]]]. cbn [rT rH] in E1, E2.
  destruct (In_nth out r' r0 Hr') as [i [Hi1 Hi2]]. exists i. split; [exact Hi1|].
  change 0 with (rT r0) at 1. rewrite map_nth, Hi2. split; [exact E1|].
  change 0 with (rNP r0). rewrite map_nth, Hi2, <- E2. apply np_le_H. exact Hr'.
Qed.
Lemma out_ne : out <> [].
Proof. destruct (res_ends tol Ts Hs out tol_pos Hrob Hhas Hout) as [? [? [_ [_ [_ [_ N]]]]]]. exact N. Qed.
Lemma out_hd_T : List.hd 0 (map rT out) = List.hd 0 Ts.
Proof. pose proof out_ne. destruct (np_keeps_ends tol Ts Hs out tol_pos Hrob Hhas Hout) as [_ [_ [E _]]]. destruct out; [contradiction|exact E]. Qed.
Lemma out_hd_NP : nth 0 (map rNP out) 0 == List.hd 0 Hs.
Proof. pose proof out_ne. destruct (np_keeps_ends tol Ts Hs out tol_pos Hrob Hhas Hout) as [E _]. destruct out; [contradiction|exact E]. Qed.
Lemma out_last_NP : nth (List.length out - 1) (map rNP out) 0 == List.last Hs 0.
Proof.
  pose proof out_ne as N. destruct (np_keeps_ends tol Ts Hs out tol_pos Hrob Hhas Hout) as [_ [E _]].
  change 0 with (rNP r0) at 1. rewrite map_nth. rewrite <- (last_nth_len out r0 N). exact E.
Qed.
End GccFacts.

(* ====================================================================================================================== *)
(* ProblemTable.pinch_idx (utility model): the COLD pinch row is a zero row of the column too                              *)
(* ====================================================================================================================== *)
Lemma pinch_idx_rc tolv h i0 : (i0 < List.length h)%nat -> nth i0 (zmask tolv h) false = true ->
  let rc := snd (fst (Utility.pinch_idx tolv h)) in (rc < List.length h)%nat /\ nth rc (zmask tolv h) false = true.
Proof.
  intros Hi0 Hz. cbv zeta. unfold Utility.pinch_idx.
  set (m := zmask tolv h) in *.
  assert (Hn : List.length m = List.length h) by (unfold m, zmask; apply map_length).
  pose proof (fi_spec true m) as S1. pose proof (fi_spec false m) as S2.
  pose proof (fi_spec true (rev m)) as S3. pose proof (fi_spec false (rev m)) as S4.
  cbn [negb] in *.
  destruct (Utility.first_idx true m) as [fz|]; destruct (Utility.first_idx false m) as [fnz|];
  destruct (Utility.first_idx true (rev m)) as [lzr|]; destruct (Utility.first_idx false (rev m)) as [lnzr|]; cbn [fst snd];
  try (solve [ exfalso; specialize (S1 i0); congruence
             | exfalso; specialize (S3 (List.length m - S i0)%nat); rewrite rev_nth in S3 by lia;
               replace (List.length m - S (List.length m - S i0))%nat with i0 in S3 by lia; congruence
             | split; [lia|]; rewrite (nth_indep m false true) by lia; apply S2
             | split; [lia|]; specialize (S4 (List.length m - 1)%nat); rewrite rev_nth in S4 by lia;
               rewrite (nth_indep m false true) by lia;
               replace (List.length m - S (List.length m - 1))%nat with 0%nat in S4 by lia; exact S4 ]).
  destruct S3 as [C1 [C2 C3]]. destruct S4 as [D1 [D2 D3]]. rewrite rev_length in C1, D1.
  destruct (List.length m - 1 - lzr <? List.length m - 1)%nat eqn:E0.
  - split; [lia|]. rewrite rev_nth in C2 by lia. replace (List.length m - 1 - lzr)%nat with (List.length m - S lzr)%nat by lia. exact C2.
  - apply Nat.ltb_ge in E0. assert (lzr = 0%nat) by lia. subst lzr.
    assert (Hf : lnzr <> 0%nat).
    { intro Z. subst lnzr. rewrite (nth_indep (rev m) true false) in D2 by (rewrite rev_length; lia). congruence. }
    split; [lia|]. specialize (D3 (lnzr - 1)%nat ltac:(lia)). rewrite rev_nth in D3 by lia.
    replace (List.length m - S (lnzr - 1))%nat with (List.length m - lnzr)%nat in D3 by lia.
    rewrite (nth_indep m false true) by lia. exact D3.
Qed.

Lemma Forall2_in_combine {A B} (P : A -> B -> Prop) l1 l2 a : Forall2 P l1 l2 -> In a l1 -> exists b, In (a, b) (combine l1 l2) /\ P a b.
Proof.
  induction 1 as [|x y l l' Hxy _ IH]; intro Hin; [destruct Hin|]. destruct Hin as [<-|Hin].
  - exists y. split; [left; reflexivity|exact Hxy].
  - destruct (IH Hin) as [b [H1 H2]]. exists b. split; [right; exact H1|exact H2].
Qed.
Lemma Forall2_last_Q (P : Q -> Q -> Prop) l1 l2 : Forall2 P l1 l2 -> l1 <> [] -> P (last l1 0) (last l2 0).
Proof.
  induction 1 as [|x y l l' Hxy Hl IH]; intro N; [contradiction|]. destruct Hl as [|x2 y2 l l' H2 Hl]; [exact Hxy|].
  rewrite !last_cons2. apply IH. discriminate.
Qed.
Lemma desc_gap_desc tq : 0 <= tq -> forall ts, desc_gap tq ts = true -> desc ts.
Proof.
  intros Ht. induction ts as [|a [|b r] IH]; intro H; [exact I|split; exact I|].
  cbn [desc_gap] in H. apply andb_true_iff in H. destruct H as [H1 H2]. apply qltb_true in H1.
  split; [cbn [lt_head]; lra|apply IH; exact H2].
Qed.
Lemma robust_desc Ts Hs : robust_b tol Ts Hs = true -> desc Ts.
Proof.
  unfold robust_b. intro H. repeat (apply andb_true_iff in H; destruct H as [H ?]).
  apply (desc_gap_desc tol); [apply Qlt_le_weak; exact tol_pos|assumption].
Qed.
Lemma zmask_nth tolv h i : (i < List.length h)%nat -> nth i (zmask tolv h) false = qltb (Qabs (nth i h 0)) tolv.
Proof.
  intro Hi. unfold zmask. rewrite (nth_indep _ false (qltb (Qabs 0) tolv)) by (rewrite map_length; exact Hi).
  apply (map_nth (fun x => qltb (Qabs x) tolv)).
Qed.

(* ====================================================================================================================== *)
(* ONE ZONE: from the data (d1)..(d5) to  Dnet <= U + 2 tol  and to the closing of both sums                               *)
(* ====================================================================================================================== *)
Section Zone.
Variables (hot cold : list view) (hus cus : list ustar) (Ts Hs : list Q) (out : list row) (uh uc : ustar).
Let T := map rT out.
Let HA := map rNP out.
Let Hh := flip tol (sep_cold HA).
Let Hc := flip tol (sep_hot HA).
Let rh := fst (fst (Utility.pinch_idx tol HA)).
Let rc := snd (fst (Utility.pinch_idx tol HA)).
Let k := Nat.max (rc - 1) 0.
Let dd := di_duties tol T HA (sep_hot HA) (sep_cold HA) hus cus.
Let dh := fst dd.
Let dc := snd dd.
Let Qh := List.hd 0 Hs.
Let Qc := List.last Hs 0.
Hypothesis Wh : wfs hot.
Hypothesis Wc : wfs cold.
Hypothesis Hres : Forall2 (fun t h => h == List.hd 0 Hs - Dnet hot cold t) Ts Hs.
Hypothesis Hrob : robust_b tol Ts Hs = true.
Hypothesis Hhas : has_pinch tol Hs = true.
Hypothesis Hout : gcc_np tol Ts Hs = Ok out.
Hypothesis Hgh : forall v, In v hus -> gridded_hot tol T v.
Hypothesis Hgc : forall v, In v cus -> gridded_cold tol T v.
Hypothesis Huh : In uh hus /\ - tol <= u_tmaxs uh - List.hd 0 Ts.
Hypothesis Huc : In uc cus /\ u_tmins uc <= List.last Ts 0 + tol.
Hypothesis Hbp : forall e, In e (bps hot cold (uviews hus dh) (uviews cus dc)) -> exists t, In t Ts /\ t == e.

Let n := List.length out.
Lemma zn_lenT : List.length T = n. Proof. apply map_length. Qed.
Lemma zn_lenHA : List.length HA = n. Proof. apply map_length. Qed.

(* the facts of ComposePocketsUtility.gcc_demand_columns, with the cold pinch row added *)
Lemma zn_cols :
  gapped tol T = true /\ List.length Hh = n /\ List.length Hc = n /\ noninc Hh = true /\ noninc (rev Hc) = true
  /\ (forall i, 0 <= nth i Hh 0 /\ 0 <= nth i Hc 0 /\ nth i Hh 0 + nth i Hc 0 == nth i HA 0)
  /\ (rh < n)%nat /\ Qabs (nth rh HA 0) < tol /\ (rc < n)%nat /\ Qabs (nth rc HA 0) < tol.
Proof.
  destruct (gcc_demand_columns Ts Hs out Hrob Hhas Hout) as [Gp [L1 [L2 [N1 [N2 [Sum [Rh [Zrh _]]]]]]]].
  fold HA Hh Hc rh T in Gp, L1, L2, N1, N2, Sum, Rh, Zrh. rewrite zn_lenHA in *.
  assert (Hz : nth rh (zmask tol HA) false = true) by (rewrite zmask_nth by (rewrite zn_lenHA; exact Rh); apply qltb_true; exact Zrh).
  destruct (pinch_idx_rc tol HA rh ltac:(rewrite zn_lenHA; exact Rh) Hz) as [Rc Zrc]. fold rc in Rc, Zrc. rewrite zn_lenHA in Rc.
  rewrite zmask_nth in Zrc by (rewrite zn_lenHA; exact Rc). apply qltb_true in Zrc.
  repeat split; try assumption; apply Sum.
Qed.

Lemma zn_sdT : strict_desc T = true.
Proof. apply (gapped_strict tol tol_pos). apply zn_cols. Qed.
Lemma zn_Hh_le i : nth i Hh 0 <= nth i HA 0.
Proof. destruct zn_cols as [_ [_ [_ [_ [_ [Sum _]]]]]]. destruct (Sum i) as [A [B C]]. lra. Qed.
Lemma zn_Hc_le i : nth i Hc 0 <= nth i HA 0.
Proof. destruct zn_cols as [_ [_ [_ [_ [_ [Sum _]]]]]]. destruct (Sum i) as [A [B C]]. lra. Qed.
Lemma zn_abs_lt x : Qabs x < tol -> x < tol.
Proof. intro H. eapply Qle_lt_trans; [apply Qle_Qabs|exact H]. Qed.
(* heating demand within tol of zero from the hot pinch row down, cooling demand within tol of zero down to the cold pinch row *)
Lemma zn_Hh_small j : (rh <= j)%nat -> (j < n)%nat -> nth j Hh 0 < tol.
Proof.
  intros H1 H2. destruct zn_cols as [_ [L1 [_ [N1 [_ [_ [Rh [Zrh _]]]]]]]].
  pose proof (noninc_nth Hh N1 rh j H1 ltac:(lia)). pose proof (zn_Hh_le rh). pose proof (zn_abs_lt _ Zrh). lra.
Qed.
Lemma zn_Hc_small j : (j <= rc)%nat -> nth j Hc 0 < tol.
Proof.
  intros H1. destruct zn_cols as [_ [_ [L2 [_ [N2 [_ [_ [_ [Rc Zrc]]]]]]]]].
  pose proof (nondec_nth Hc N2 j rc H1 ltac:(lia)). pose proof (zn_Hc_le rc). pose proof (zn_abs_lt _ Zrc). lra.
Qed.

(* the hypotheses of the C03 / C04 theorems about the two segments *)
Lemma zn_seg_hot :
  strict_desc (firstn (S rh) T) = true /\ noninc (firstn (S rh) Hh) = true
  /\ List.length (firstn (S rh) T) = List.length (firstn (S rh) Hh)
  /\ 0 <= Utility.lastq (firstn (S rh) Hh) /\ Utility.lastq (firstn (S rh) Hh) <= tol
  /\ headq (firstn (S rh) Hh) = nth 0 Hh 0.
Proof.
  destruct zn_cols as [_ [L1 [_ [N1 [_ [Sum [Rh _]]]]]]].
  split; [apply strict_desc_firstn; exact zn_sdT|]. split; [apply noninc_firstn; exact N1|].
  split; [rewrite !firstn_length, zn_lenT, L1; reflexivity|].
  rewrite (lastq_firstn_nth rh Hh) by lia. split; [apply Sum|]. split; [apply Qlt_le_weak; apply zn_Hh_small; lia|].
  rewrite headq_firstn. apply headq_nth.
Qed.
Lemma zn_k_le : (k <= rc)%nat. Proof. unfold k. lia. Qed.
Lemma zn_seg_cold :
  strict_desc (skipn k T) = true /\ noninc (rev (skipn k Hc)) = true
  /\ List.length (skipn k T) = List.length (skipn k Hc)
  /\ 0 <= headq (skipn k Hc) /\ headq (skipn k Hc) <= tol
  /\ Utility.lastq (skipn k Hc) = nth (n - 1) Hc 0.
Proof.
  destruct zn_cols as [_ [_ [L2 [_ [N2 [Sum [_ [_ [Rc _]]]]]]]]]. pose proof zn_k_le as Hk.
  split; [apply strict_desc_skipn; exact zn_sdT|]. split; [apply noninc_rev_skipn; exact N2|].
  split; [rewrite !skipn_length, zn_lenT, L2; reflexivity|].
  rewrite headq_skipn. split; [apply Sum|]. split; [apply Qlt_le_weak; apply zn_Hc_small; exact Hk|].
  rewrite lastq_skipn; [rewrite lastq_nth, L2; reflexivity|].
  intro E. apply (f_equal (@List.length Q)) in E. rewrite skipn_length, L2 in E. simpl in E. lia.
Qed.

(* di_duties = the two assignment loops on the two demand columns *)
Lemma zn_duties : dh = assign_hot tol T Hh rh hus /\ dc = assign_cold tol T Hc rc cus.
Proof.
  destruct zn_seg_hot as [A1 [A2 [_ [_ [_ A6]]]]]. destruct zn_seg_cold as [B1 [B2 [_ [_ [_ B6]]]]].
  destruct zn_cols as [_ [_ [_ [_ [_ [Sum _]]]]]].
  assert (E1 : target_hot tol T (sep_cold HA) rh hus = assign_hot tol T Hh rh hus).
  { apply target_hot_is_assign; [exact A1|exact A2|]. fold Hh. rewrite headq_nth. apply Sum. }
  assert (E2 : target_cold tol T (sep_hot HA) rc cus = assign_cold tol T Hc rc cus).
  { apply target_cold_is_assign; [exact B1|exact B2|]. fold Hc. rewrite lastq_nth. apply Sum. }
  unfold dh, dc, dd, di_duties. unfold rh, rc in E1, E2.
  destruct (Utility.pinch_idx tol HA) as [[a b] c]. cbn [fst snd] in *. split; assumption.
Qed.

(* C04 in step form, at a row: the utility step profile is at most the pocket-free column *)
Lemma zn_step_row i : (i < n)%nat -> hut_step (nth i T 0) hus cus dh dc <= nth i HA 0.
Proof.
  intro Hi. destruct zn_duties as [-> ->].
  destruct zn_seg_hot as [A1 [A2 [A3 [A4 _]]]]. destruct zn_seg_cold as [B1 [B2 [B3 [B4 _]]]].
  destruct zn_cols as [Gp [L1 [L2 [_ [_ [Sum _]]]]]].
  eapply Qle_trans; [apply (hut_step_le_profiles T Hh Hc rh rc hus cus (nth i T 0) A1 A2 A3 A4 B1 B2 B3 B4)|].
  rewrite (prow_firstn_row tol tol_pos T Hh (S rh) i Gp) by (rewrite ?zn_lenT, ?L1; (reflexivity || exact Hi)).
  fold k. rewrite (prow_cold_skipn_row tol tol_pos T Hc k i Gp) by (rewrite ?zn_lenT, ?L2; (reflexivity || exact Hi)).
  destruct (Sum i) as [S1 [S2 S3]]. destruct (i <? S rh)%nat; destruct (k <=? i)%nat; lra.
Qed.

(* C03: both sums close, to within 2 tol of the zone's targets Qh = H_net[0], Qc = H_net[last] *)
Lemma zn_hot_sum : Qh - 2 * tol <= qsum dh /\ qsum dh <= Qh /\ Forall (fun q => 0 <= q) dh /\ List.length hus = List.length dh.
Proof.
  destruct zn_duties as [E _]. rewrite E. pose proof tol_pos as Ht.
  destruct zn_seg_hot as [A1 [A2 [A3 [A4 [A5 A6]]]]]. destruct zn_cols as [_ [_ [_ [_ [_ [Sum [Rh _]]]]]]].
  pose proof (out_hd_NP Ts Hs out Hrob Hhas Hout) as E0. fold HA Qh in E0.
  destruct (Sum 0%nat) as [S1 [S2 S3]]. pose proof (zn_Hc_small 0 ltac:(lia)) as Hc0.
  pose proof (assign_hot_nonneg tol tol_pos T Hh rh hus) as Nn.
  assert (Up : qsum (assign_hot tol T Hh rh hus) <= nth 0 Hh 0).
  { rewrite <- A6. apply (assign_hot_sum_le tol tol_pos T Hh rh hus A1 A2). rewrite A6. exact S1. }
  split; [|split; [lra|split; [exact Nn|symmetry; apply assign_hot_length]]].
  destruct (Qlt_le_dec tol (nth 0 Hh 0)) as [Hbig|Hsmall].
  - destruct Huh as [Hin Hreach]. destruct (Hgh uh Hin) as [[I1 _] [_ [_ Hcl]]].
    destruct (assign_hot_sum_closes tol tol_pos T Hh rh hus uh A1 A2 A3 A4 A5 ltac:(rewrite A6; exact Hbig) Hin (Qlt_le_weak _ _ I1)) as [Lo _].
    + apply forallb_firstn. exact Hcl.
    + rewrite hd_firstn. unfold T. rewrite (out_hd_T Ts Hs out Hrob Hhas Hout). exact Hreach.
    + rewrite A6 in Lo. lra.
  - pose proof (qsum_nonneg _ Nn). lra.
Qed.

Lemma zn_T_ge_last y : In y T -> List.last Ts 0 <= y.
Proof.
  intro Hy. pose proof (strict_desc_last_le T y zn_sdT Hy) as H. unfold Utility.lastq in H.
  destruct (np_keeps_ends tol Ts Hs out tol_pos Hrob Hhas Hout) as [_ [_ [_ E]]].
  unfold T in H. change 0 with (rT r0) in H at 1. rewrite (PocketsSpec.last_map rT) in H. rewrite E in H. exact H.
Qed.

Lemma zn_cold_sum : Qc - 2 * tol <= qsum dc /\ qsum dc <= Qc /\ Forall (fun q => 0 <= q) dc /\ List.length cus = List.length dc.
Proof.
  destruct zn_duties as [_ E]. rewrite E. pose proof tol_pos as Ht.
  destruct zn_seg_cold as [B1 [B2 [B3 [B4 [B5 B6]]]]]. destruct zn_cols as [_ [_ [_ [_ [_ [Sum [Rh _]]]]]]].
  pose proof (out_last_NP Ts Hs out Hrob Hhas Hout) as E0. fold HA Qc n in E0.
  pose proof (out_ne Ts Hs out Hrob Hhas Hout) as One.
  assert (Hn : (0 < n)%nat) by (unfold n; destruct out; [contradiction|simpl; lia]).
  destruct (Sum (n - 1)%nat) as [S1 [S2 S3]]. pose proof (zn_Hh_small (n - 1) ltac:(lia) ltac:(lia)) as Hh0.
  pose proof (assign_cold_nonneg tol tol_pos T Hc rc cus) as Nn.
  assert (Up : qsum (assign_cold tol T Hc rc cus) <= nth (n - 1) Hc 0).
  { rewrite <- B6. apply (assign_cold_sum_le tol tol_pos T Hc rc cus B1 B2). fold k. rewrite B6. exact S2. }
  split; [|split; [lra|split; [exact Nn|symmetry; apply assign_cold_length]]].
  destruct (Qlt_le_dec tol (nth (n - 1) Hc 0)) as [Hbig|Hsmall].
  - destruct Huc as [Hin Hreach]. destruct (Hgc uc Hin) as [[I1 _] [_ [_ Hcl]]].
    destruct (assign_cold_sum_closes tol tol_pos T Hc rc cus uc B1 B2 B3 B4 B5 ltac:(fold k; rewrite B6; exact Hbig) Hin (Qlt_le_weak _ _ I1)) as [Lo _].
    + apply forallb_skipn. exact Hcl.
    + intros y Hy. apply In_skipn in Hy. pose proof (zn_T_ge_last y Hy). lra.
    + fold k in Lo. rewrite B6 in Lo. lra.
  - pose proof (qsum_nonneg _ Nn). lra.
Qed.

(* every row of the GCC is a row of the output table: no break point lies strictly inside a gridded utility *)
Lemma zn_row_of_Ts t : In t Ts -> exists i h, (i < n)%nat /\ nth i T 0 = t /\ nth i HA 0 <= h /\ h == Qh - Dnet hot cold t.
Proof.
  intro Ht. destruct (Forall2_in_combine _ _ _ t Hres Ht) as [h [Hp Eh]].
  destruct (kept_row Ts Hs out Hrob Hhas Hout t h Hp) as [i [Hi [E1 E2]]]. exists i, h. repeat split; assumption.
Qed.
Lemma zn_clear e v : In e (bps hot cold (uviews hus dh) (uviews cus dc)) -> In v (hus ++ cus) -> pt_clear e v.
Proof.
  intros He Hv. destruct (Hbp e He) as [t [Ht Et]]. destruct (zn_row_of_Ts t Ht) as [i [h [Hi [E1 _]]]].
  assert (HtT : In t T) by (rewrite <- E1; apply nth_In; rewrite zn_lenT; exact Hi).
  unfold pt_clear. apply in_app_or in Hv. destruct Hv as [Hv|Hv].
  - destruct (Hgh v Hv) as [_ [_ [_ Hcl]]]. destruct (clear_hot_rows tol T v Hcl t HtT); [left|right]; lra.
  - destruct (Hgc v Hv) as [_ [_ [_ Hcl]]]. destruct (clear_cold_rows tol T v Hcl t HtT); [left|right]; lra.
Qed.

(* THE ZONE THEOREM *)
Theorem zone_from_gcc :
  (forall x, Dnet hot cold x <= U (uviews hus dh) (uviews cus dc) x + 2 * tol)
  /\ (Qh - 2 * tol <= qsum dh /\ qsum dh <= Qh /\ Forall (fun q => 0 <= q) dh /\ List.length hus = List.length dh)
  /\ (Qc - 2 * tol <= qsum dc /\ qsum dc <= Qc /\ Forall (fun q => 0 <= q) dc /\ List.length cus = List.length dc).
Proof.
  split; [|split; [exact zn_hot_sum|exact zn_cold_sum]].
  destruct zn_hot_sum as [H1 [H2 [H3 H4]]]. destruct zn_cold_sum as [C1 [C2 [C3 C4]]]. pose proof tol_pos as Ht.
  apply (zone_feasible hot cold hus cus dh dc Qh (2 * tol)); try assumption; try lra.
  - intros v Hv. destruct (Hgh v Hv) as [[I1 _] _]. exact I1.
  - intros v Hv. destruct (Hgc v Hv) as [[I1 _] _]. exact I1.
  - intros e v He Hv. exact (zn_clear e v He Hv).
  - intros e He. destruct (Hbp e He) as [t [Ht' Et]]. destruct (zn_row_of_Ts t Ht') as [i [h [Hi [E1 [E2 E3]]]]].
    rewrite <- (hut_step_compat t e hus cus dh dc Et), <- (Dnet_compat hot cold t e Et), <- E1.
    pose proof (zn_step_row i Hi) as S. rewrite E1 in *. lra.
Qed.

(* the zone's own balance (C02), from the exact residual at the last row *)
Lemma zone_balance : Qh - Qc == duty cold - duty hot.
Proof.
  pose proof (robust_desc Ts Hs Hrob) as Hd.
  assert (TsNe : Ts <> []).
  { destruct (robust_b_P tol Ts Hs Hrob) as [_ [Hpos _]]. intro E. rewrite E in Hpos. simpl in Hpos. lia. }
  pose proof (Forall2_last_Q _ _ _ Hres TsNe) as E. cbv beta in E. fold Qh Qc in E.
  assert (Hlo : forall ss, (forall s, In s ss -> In (lo s) (bps hot cold (uviews hus dh) (uviews cus dc))) -> forall s, In s ss -> last Ts 0 <= lo s).
  { intros ss Hin s Hs'. destruct (Hbp _ (Hin s Hs')) as [t [Ht Et]]. pose proof (desc_ge_last Ts t Hd Ht). lra. }
  assert (Bh : heat_above hot (last Ts 0) == duty hot).
  { apply heat_above_bottom; [exact Wh|]. apply Hlo. intros s Hs'. unfold bps. apply in_or_app. left. rewrite endpoints_app.
    apply in_or_app. left. apply (endpoints_in hot s Hs'). }
  assert (Bc : heat_above cold (last Ts 0) == duty cold).
  { apply heat_above_bottom; [exact Wc|]. apply Hlo. intros s Hs'. unfold bps. apply in_or_app. right. rewrite endpoints_app.
    apply in_or_app. left. apply (endpoints_in cold s Hs'). }
  unfold Dnet in E. rewrite Bh, Bc in E. lra.
Qed.
End Zone.

(* ====================================================================================================================== *)
(* THE SITE: any number of zones                                                                                          *)
(* ====================================================================================================================== *)
(* a zone: process streams (shifted views), its GCC rows (Ts, Hs) and the output table of gcc_np on them *)
Record zgcc := mkZg { zg_hot : list view; zg_cold : list view; zg_Ts : list Q; zg_Hs : list Q; zg_out : list row }.
Definition zg_dd (hus cus : list ustar) (z : zgcc) : list Q * list Q :=
  let T := map rT (zg_out z) in let HA := map rNP (zg_out z) in di_duties tol T HA (sep_hot HA) (sep_cold HA) hus cus.
Definition zg_dh hus cus z := fst (zg_dd hus cus z).
Definition zg_dc hus cus z := snd (zg_dd hus cus z).

(* THE DATA HYPOTHESES on one zone (hus / cus: the site's utility lists, every zone is targeted against them) *)
Definition zone_data (hus cus : list ustar) (z : zgcc) : Prop :=
  wfs (zg_hot z) /\ wfs (zg_cold z)
  (* d1 *) /\ Forall2 (fun t h => h == List.hd 0 (zg_Hs z) - Dnet (zg_hot z) (zg_cold z) t) (zg_Ts z) (zg_Hs z)
  (* d2 *) /\ robust_b tol (zg_Ts z) (zg_Hs z) = true /\ has_pinch tol (zg_Hs z) = true /\ gcc_np tol (zg_Ts z) (zg_Hs z) = Ok (zg_out z)
  (* d3 *) /\ (forall v, In v hus -> gridded_hot tol (map rT (zg_out z)) v) /\ (forall v, In v cus -> gridded_cold tol (map rT (zg_out z)) v)
  (* d4 *) /\ (exists uh, In uh hus /\ - tol <= u_tmaxs uh - List.hd 0 (zg_Ts z)) /\ (exists uc, In uc cus /\ u_tmins uc <= List.last (zg_Ts z) 0 + tol)
  (* d5 *) /\ (forall e, In e (bps (zg_hot z) (zg_cold z) (uviews hus (zg_dh hus cus z)) (uviews cus (zg_dc hus cus z))) ->
                         exists t, In t (zg_Ts z) /\ t == e).

(* the site utilities carry the sums of the zonal duties, utility by utility (Total Process Target rule) *)
Definition site_hu hus cus (zs : list zgcc) : list view := uviews hus (vsum (map (zg_dh hus cus) zs) (List.length hus)).
Definition site_cu hus cus (zs : list zgcc) : list view := uviews cus (vsum (map (zg_dc hus cus) zs) (List.length cus)).
Definition nq (n : nat) : Q := inject_Z (Z.of_nat n).
Lemma nq_S n : nq (S n) == nq n + 1.
Proof. unfold nq. rewrite Nat2Z.inj_succ. unfold Z.succ. rewrite inject_Z_plus. reflexivity. Qed.
Lemma nq_nonneg n : 0 <= nq n.
Proof. unfold nq. change 0 with (inject_Z 0). rewrite <- Zle_Qle. lia. Qed.

Lemma flat_map_map {A B C} (f : A -> B) (g : B -> list C) l : flat_map g (map f l) = flat_map (fun x => g (f x)) l.
Proof. induction l as [|a l IH]; [reflexivity|]. cbn [map flat_map]. rewrite IH. reflexivity. Qed.
Lemma duty_flat {A} (f : A -> list view) (zs : list A) : duty (flat_map f zs) == fold_right (fun z a => duty (f z) + a) 0 zs.
Proof. induction zs as [|z zs IH]; [reflexivity|]. cbn [flat_map fold_right]. rewrite duty_app, IH. reflexivity. Qed.
Lemma duty_cons s ss : duty (s :: ss) = vcp s * (hi s - lo s) + duty ss. Proof. reflexivity. Qed.
Lemma duty_uviews us : forall d, ladder_ok us -> List.length us = List.length d -> duty (uviews us d) == qsum d.
Proof.
  unfold uviews. induction us as [|u us IH]; intros [|q d] L H; try discriminate; [reflexivity|].
  cbn [combine map fst snd]. rewrite duty_cons, qsum_cons, IH by (try (intros v Hv; apply L; right; exact Hv); simpl in H; lia).
  unfold uview. cbn [vcp hi lo]. pose proof (L u (or_introl eq_refl)). setoid_replace (q / (u_tmaxs u - u_tmins u) * (u_tmaxs u - u_tmins u)) with q by (field; lra). reflexivity.
Qed.
Lemma qsum_repeat0 n : qsum (repeat 0 n) == 0.
Proof. induction n as [|n IH]; [reflexivity|]. cbn [repeat]. rewrite qsum_cons, IH. lra. Qed.
Lemma qsum_padd : forall d1 d2, List.length d1 = List.length d2 -> qsum (map (fun p => fst p + snd p) (combine d1 d2)) == qsum d1 + qsum d2.
Proof.
  induction d1 as [|a d1 IH]; intros [|b d2] H; try discriminate; [cbn [combine map]; rewrite !qsum_nil; lra|].
  cbn [combine map fst snd]. rewrite !qsum_cons, IH by (simpl in H; lia). lra.
Qed.
Lemma qsum_vsum ls n : Forall (fun l => List.length l = n) ls -> qsum (vsum ls n) == fold_right (fun l a => qsum l + a) 0 ls.
Proof.
  induction 1 as [|l ls Hl F IH]; cbn [vsum fold_right]; [apply qsum_repeat0|].
  rewrite qsum_padd by (rewrite vsum_length; assumption). rewrite IH. reflexivity.
Qed.
Lemma Qh_star_le hot cold B : 0 <= B -> (forall T, Dnet hot cold T <= B) -> Qh_star hot cold <= B.
Proof.
  intros HB H. unfold Qh_star. rewrite Qred_correct.
  destruct (qmax_list_attained (map (Dnet hot cold) (endpoints hot ++ endpoints cold)) 0) as [E|[y [Hy E]]]; rewrite E; [exact HB|].
  apply in_map_iff in Hy. destruct Hy as [e [<- _]]. apply H.
Qed.

Theorem site_targets_ge_direct w hus cus (zs : list zgcc) g :
  let hu := site_hu hus cus zs in let cu := site_cu hus cus zs in
  let hotS := flat_map zg_hot zs in let coldS := flat_map zg_cold zs in
  0 < w -> ladder_ok hus -> ladder_ok cus -> desc g -> g <> [] -> covers g (eps_all hu cu) -> gaps_ok w 0 g ->
  Forall (zone_data hus cus) zs ->
  Qh_star hotS coldS <= site_Qh w hu cu g + nq (List.length zs) * (2 * tol)
  /\ Qc_star hotS coldS <= site_Qc w hu cu g + nq (List.length zs) * (4 * tol)
  /\ (forall T, Dnet hotS coldS T <= site_Qh w hu cu g + nq (List.length zs) * (2 * tol)).
Proof.
  intros hu cu hotS coldS Hw Lh Lc Hd Hne Hcov Hgap Hz. pose proof tol_pos as Ht.
  (* per zone: the zone theorem *)
  assert (Z : Forall (fun z =>
      (forall x, Dnet (zg_hot z) (zg_cold z) x <= U (uviews hus (zg_dh hus cus z)) (uviews cus (zg_dc hus cus z)) x + 2 * tol)
      /\ (List.hd 0 (zg_Hs z) - 2 * tol <= qsum (zg_dh hus cus z) /\ qsum (zg_dh hus cus z) <= List.hd 0 (zg_Hs z)
          /\ Forall (fun q => 0 <= q) (zg_dh hus cus z) /\ List.length hus = List.length (zg_dh hus cus z))
      /\ (List.last (zg_Hs z) 0 - 2 * tol <= qsum (zg_dc hus cus z) /\ qsum (zg_dc hus cus z) <= List.last (zg_Hs z) 0
          /\ Forall (fun q => 0 <= q) (zg_dc hus cus z) /\ List.length cus = List.length (zg_dc hus cus z))
      /\ List.hd 0 (zg_Hs z) - List.last (zg_Hs z) 0 == duty (zg_cold z) - duty (zg_hot z)) zs).
  { eapply Forall_impl; [|exact Hz]. intros z [Wh [Wc [D1 [R [P [O [Gh [Gc [[uh Uh] [[uc Uc] Bp]]]]]]]]]].
    destruct (zone_from_gcc (zg_hot z) (zg_cold z) hus cus (zg_Ts z) (zg_Hs z) (zg_out z) uh uc Wh Wc D1 R P O Gh Gc Uh Uc Bp) as [A [B C]].
    split; [exact A|]. split; [exact B|]. split; [exact C|].
    exact (zone_balance (zg_hot z) (zg_cold z) hus cus (zg_Ts z) (zg_Hs z) (zg_out z) Wh Wc D1 R Bp). }
  set (zd := map (fun z => mkZd (zg_hot z) (zg_cold z) (zg_dh hus cus z) (zg_dc hus cus z) (2 * tol)) zs).
  assert (Eh : map zd_dh zd = map (zg_dh hus cus) zs) by (unfold zd; rewrite map_map; reflexivity).
  assert (Ec : map zd_dc zd = map (zg_dc hus cus) zs) by (unfold zd; rewrite map_map; reflexivity).
  assert (Fh : flat_map zd_hot zd = hotS) by (unfold zd; rewrite flat_map_map; reflexivity).
  assert (Fc : flat_map zd_cold zd = coldS) by (unfold zd; rewrite flat_map_map; reflexivity).
  assert (Es : zsum zd_err zd == nq (List.length zs) * (2 * tol)).
  { unfold zd. clear. induction zs as [|z l IH]; [unfold nq; simpl; ring|]. cbn [map zsum fold_right List.length zd_err].
    unfold zsum in IH. rewrite IH, nq_S. ring. }
  (* hot side *)
  assert (R0 : forall T, Dnet hotS coldS T <= site_Qh w hu cu g + nq (List.length zs) * (2 * tol)).
  { intro T. rewrite <- Es, <- Fh, <- Fc. unfold hu, cu, site_hu, site_cu. rewrite <- Eh, <- Ec.
    apply (site_lower_bound_from_zones w hus cus zd g Hw Lh Lc Hd Hne); try assumption.
    - rewrite Eh, Ec. exact Hcov.
    - unfold zd. rewrite Forall_map. eapply Forall_impl; [|exact Z]. intros z [_ [[_ [_ [N1 L1]]] [[_ [_ [N2 L2]]] _]]].
      cbn [zd_dh zd_dc]. repeat split; try assumption; symmetry; assumption.
    - unfold zd. rewrite Forall_map. eapply Forall_impl; [|exact Z]. intros z [A _]. cbn [zd_hot zd_cold zd_dh zd_dc zd_err]. exact A. }
  assert (Whu : wfs hu).
  { apply uviews_wfs; [exact Lh|]. apply vsum_nonneg. apply Forall_map. eapply Forall_impl; [|exact Z]. intros z [_ [[_ [_ [N1 _]]] _]]. exact N1. }
  assert (Wcu : wfs cu).
  { apply uviews_wfs; [exact Lc|]. apply vsum_nonneg. apply Forall_map. eapply Forall_impl; [|exact Z]. intros z [_ [_ [[_ [_ [N2 _]]] _]]]. exact N2. }
  destruct (site_targets_nonneg w hu cu g Hne) as [P1 P2].
  assert (R1 : Qh_star hotS coldS <= site_Qh w hu cu g + nq (List.length zs) * (2 * tol)).
  { apply Qh_star_le; [|exact R0]. pose proof (nq_nonneg (List.length zs)). nra. }
  split; [exact R1|]. split; [|exact R0].
  (* cold side: the site cascade balance and the zonal balances *)
  pose proof (site_cascade_ends w Hw hu cu Whu Wcu g Hd Hne Hcov Hgap) as CE.
  assert (Dh : duty hu == fold_right (fun z a => qsum (zg_dh hus cus z) + a) 0 zs).
  { unfold hu, site_hu. rewrite duty_uviews; [|exact Lh|].
    - rewrite qsum_vsum; [clear; induction zs as [|z l IH]; [reflexivity|cbn [map fold_right]; rewrite IH; reflexivity]|].
      apply Forall_map. eapply Forall_impl; [|exact Z]. intros z [_ [[_ [_ [_ L1]]] _]]. symmetry; exact L1.
    - rewrite vsum_length; [reflexivity|]. apply Forall_map. eapply Forall_impl; [|exact Z]. intros z [_ [[_ [_ [_ L1]]] _]]. symmetry; exact L1. }
  assert (Dc : duty cu == fold_right (fun z a => qsum (zg_dc hus cus z) + a) 0 zs).
  { unfold cu, site_cu. rewrite duty_uviews; [|exact Lc|].
    - rewrite qsum_vsum; [clear; induction zs as [|z l IH]; [reflexivity|cbn [map fold_right]; rewrite IH; reflexivity]|].
      apply Forall_map. eapply Forall_impl; [|exact Z]. intros z [_ [_ [[_ [_ [_ L2]]] _]]]. symmetry; exact L2.
    - rewrite vsum_length; [reflexivity|]. apply Forall_map. eapply Forall_impl; [|exact Z]. intros z [_ [_ [[_ [_ [_ L2]]] _]]]. symmetry; exact L2. }
  assert (Bal : fold_right (fun z a => qsum (zg_dh hus cus z) + a) 0 zs - fold_right (fun z a => qsum (zg_dc hus cus z) + a) 0 zs
                <= duty coldS - duty hotS + nq (List.length zs) * (2 * tol)).
  { unfold hotS, coldS. rewrite !duty_flat. clear - Z Ht. induction Z as [|z l Hz _ IH]; [unfold nq; cbn [fold_right List.length Z.of_nat]; change (inject_Z 0) with 0; lra|].
    cbn [fold_right List.length]. rewrite nq_S. destruct Hz as [_ [[_ [H2 _]] [[C1 _] B]]]. nra. }
  unfold Qc_star. rewrite Qred_correct. nra.
Qed.

(* ====================================================================================================================== *)
(* (d1) and (d5) are facts of the problem-table model: for the stage model of a zone whose grid contributors are the       *)
(* site's utilities, on lattice inputs with rows more than the activity window apart, they are DERIVED                    *)
(* ====================================================================================================================== *)
Definition ladder_views (us : list ustar) : list view := map (fun u => mkV (u_tmins u) (u_tmaxs u) 0) us.

Lemma Forall2_nth_error {A B} (P : A -> B -> Prop) : forall l1 l2, List.length l1 = List.length l2 ->
  (forall i a b, nth_error l1 i = Some a -> nth_error l2 i = Some b -> P a b) -> Forall2 P l1 l2.
Proof.
  induction l1 as [|a l1 IH]; intros [|b l2] Hl H; try discriminate; constructor.
  - exact (H 0%nat a b eq_refl eq_refl).
  - apply IH; [simpl in Hl; lia|]. intros i x y Hx Hy. exact (H (S i) x y Hx Hy).
Qed.
Lemma uviews_endpoint us d e : In e (endpoints (uviews us d)) -> exists u, In u us /\ (e = u_tmins u \/ e = u_tmaxs u).
Proof.
  unfold endpoints, uviews. intro H. apply in_flat_map in H. destruct H as [v [Hv He]]. apply in_map_iff in Hv.
  destruct Hv as [[u q] [<- Hp]]. exists u. split; [exact (in_combine_l _ _ _ _ Hp)|].
  cbn [uview fst snd lo hi] in He. destruct He as [E|[E|[]]]; [left|right]; symmetry; exact E.
Qed.

Theorem stage_zone_data hot cold hus cus out :
  let extra := ladder_views (hus ++ cus) in
  let p := stage_model act_window hot cold extra in
  wfs hot -> wfs cold -> hot ++ cold <> [] ->
  on_lattice (endpoints (hot ++ cold ++ extra)) -> gaps_b act_window (grid_of (endpoints (hot ++ cold ++ extra))) = true ->
  robust_b tol (pT p) (pHn p) = true -> has_pinch tol (pHn p) = true -> gcc_np tol (pT p) (pHn p) = Ok out ->
  (forall v, In v hus -> gridded_hot tol (map rT out) v) -> (forall v, In v cus -> gridded_cold tol (map rT out) v) ->
  (exists uh, In uh hus /\ - tol <= u_tmaxs uh - List.hd 0 (pT p)) -> (exists uc, In uc cus /\ u_tmins uc <= List.last (pT p) 0 + tol) ->
  zone_data hus cus (mkZg hot cold (pT p) (pHn p) out).
Proof.
  intros extra p Wh Wc Hne Hlat Hgap Hrob Hhas Hout Hgh Hgc Huh Huc.
  unfold zone_data. cbn [zg_hot zg_cold zg_Ts zg_Hs zg_out].
  split; [exact Wh|]. split; [exact Wc|]. split.
  { (* d1: the residual column is exact (C06_table_residual_is_exact) *)
    assert (L : List.length (pT p) = List.length (pHn p) /\ List.length (pT p) = List.length (pHh p) /\ List.length (pT p) = List.length (pHc p)).
    { unfold p, stage_model, pta. cbn [pT pHn pHh pHc]. rewrite !map_length. repeat split; reflexivity. }
    destruct L as [L1 [L2 L3]]. apply Forall2_nth_error; [exact L1|]. intros i t h Et Eh.
    assert (Hi : (i < List.length (pT p))%nat) by (apply nth_error_Some; congruence).
    destruct (nth_error (pHh p) i) as [hh|] eqn:E1; [|apply nth_error_None in E1; lia].
    destruct (nth_error (pHc p) i) as [hc|] eqn:E2; [|apply nth_error_None in E2; lia].
    destruct (stage_curves_exact hot cold extra Wh Wc Hne Hlat Hgap i t hh hc h Et E1 E2 Eh) as [_ [_ [_ [A _]]]].
    rewrite A. unfold Qh_of. reflexivity. }
  split; [exact Hrob|]. split; [exact Hhas|]. split; [exact Hout|]. split; [exact Hgh|]. split; [exact Hgc|].
  split; [exact Huh|]. split; [exact Huc|].
  (* d5: every end point of a stream or utility is a row of the grid *)
  intros e He. unfold p. rewrite (model_grid_is_table_T act_window hot cold extra). unfold model_grid.
  apply (grid_of_covers _ Hlat). unfold bps in He. rewrite !endpoints_app in *.
  assert (Hu : forall us d, (forall u, In u us -> In u (hus ++ cus)) -> In e (endpoints (uviews us d)) -> In e (endpoints extra)).
  { intros us d Hsub H. destruct (uviews_endpoint us d e H) as [u [Hu' E]]. unfold extra, ladder_views, endpoints.
    apply in_flat_map. exists (mkV (u_tmins u) (u_tmaxs u) 0). split; [apply in_map_iff; exists u; split; [reflexivity|apply Hsub; exact Hu']|].
    cbn [lo hi]. destruct E as [->| ->]; [left|right; left]; reflexivity. }
  apply in_app_or in He. destruct He as [He|He]; apply in_app_or in He; destruct He as [He|He].
  - apply in_or_app. left. exact He.
  - apply in_or_app. right. apply in_or_app. right. apply (Hu hus _ (fun u H => in_or_app _ _ _ (or_introl H)) He).
  - apply in_or_app. right. apply in_or_app. left. exact He.
  - apply in_or_app. right. apply in_or_app. right. apply (Hu cus _ (fun u H => in_or_app _ _ _ (or_intror H)) He).
Qed.

(* ====================================================================================================================== *)
(* non-vacuity: TWO ZONES WITH INTER-ZONE HEAT RECOVERY THROUGH AN INTERMEDIATE UTILITY LEVEL                              *)
(*   site utilities: hot 300 (top) and 140 (intermediate), cold 150 (intermediate) and 10 (bottom), all 0.1 K wide        *)
(*   zone 1: one hot stream 200 -> 160, CP 1: Qh = 0, Qc = 40, all of it to the 150-degree cold utility (steam raising)    *)
(*   zone 2: one cold stream 100 -> 130, CP 1: Qh = 30, Qc = 0, all of it from the 140-degree hot utility                  *)
(*   site: the cold utility level lies above the hot one, so the 30 kW are recovered: Qh_TS = 0 = Qh*, Qc_TS = 10 = Qc*    *)
(*   (sum of the zonal targets: 30 and 40).  Every data hypothesis (d1)..(d5) holds, via stage_zone_data.                  *)
(* ====================================================================================================================== *)
Lemma on_lattice_b es : forallb (fun e => qeqb (round_dp grid_round_dp e) e) es = true -> on_lattice es.
Proof. unfold on_lattice. rewrite forallb_forall, Forall_forall. intros H e He. apply qeqb_true. exact (H e He). Qed.
Lemma covers_b g es : forallb (fun e => existsb (fun y => qeqb y e) g) es = true -> covers g es.
Proof.
  rewrite forallb_forall. intros H e He. specialize (H e He). apply existsb_exists in H. destruct H as [y [Hy E]].
  exists y. split; [exact Hy|apply qeqb_true; exact E].
Qed.

Definition rz_hus : list ustar := [mkUS 300 (3001 # 10) (1 # 10); mkUS 140 (1401 # 10) (1 # 10)].
Definition rz_cus : list ustar := [mkUS 150 (1501 # 10) (1 # 10); mkUS 10 (101 # 10) (1 # 10)].
Definition rz_h1 : list view := [mkV 160 200 1].
Definition rz_c2 : list view := [mkV 100 130 1].
Definition rz_extra : list view := ladder_views (rz_hus ++ rz_cus).
Definition rz_p1 : ptab := stage_model act_window rz_h1 [] rz_extra.
Definition rz_p2 : ptab := stage_model act_window [] rz_c2 rz_extra.
Definition rz_o1 : list row := match gcc_np tol (pT rz_p1) (pHn rz_p1) with Ok o => o | Err _ => [] end.
Definition rz_o2 : list row := match gcc_np tol (pT rz_p2) (pHn rz_p2) with Ok o => o | Err _ => [] end.
Definition rz_z1 : zgcc := mkZg rz_h1 [] (pT rz_p1) (pHn rz_p1) rz_o1.
Definition rz_z2 : zgcc := mkZg [] rz_c2 (pT rz_p2) (pHn rz_p2) rz_o2.
Definition rz_g : list Q := [3001 # 10; 300; 1501 # 10; 150; 1401 # 10; 140; 101 # 10; 10].

Ltac rz_gridded :=
  split; [split; [vm_compute; reflexivity|split; [vm_compute; reflexivity|vm_compute; reflexivity]]|
  split; [apply In_exact; vm_compute; reflexivity|split; [apply In_exact; vm_compute; reflexivity|vm_compute; reflexivity]]].

Lemma rz_zone1 : zone_data rz_hus rz_cus rz_z1.
Proof.
  apply (stage_zone_data rz_h1 [] rz_hus rz_cus rz_o1).
  - apply wfs_b_ok. vm_compute. reflexivity.
  - constructor.
  - discriminate.
  - apply on_lattice_b. vm_compute. reflexivity.
  - vm_compute. reflexivity.
  - vm_compute. reflexivity.
  - vm_compute. reflexivity.
  - vm_compute. reflexivity.
  - intros v [<-|[<-|[]]]; unfold gridded_hot, iso; cbn [u_tmins u_tmaxs u_span]; rz_gridded.
  - intros v [<-|[<-|[]]]; unfold gridded_cold, iso; cbn [u_tmins u_tmaxs u_span]; rz_gridded.
  - exists (mkUS 300 (3001 # 10) (1 # 10)). split; [left; reflexivity|vm_compute; discriminate].
  - exists (mkUS 10 (101 # 10) (1 # 10)). split; [right; left; reflexivity|vm_compute; discriminate].
Qed.
Lemma rz_zone2 : zone_data rz_hus rz_cus rz_z2.
Proof.
  apply (stage_zone_data [] rz_c2 rz_hus rz_cus rz_o2).
  - constructor.
  - apply wfs_b_ok. vm_compute. reflexivity.
  - discriminate.
  - apply on_lattice_b. vm_compute. reflexivity.
  - vm_compute. reflexivity.
  - vm_compute. reflexivity.
  - vm_compute. reflexivity.
  - vm_compute. reflexivity.
  - intros v [<-|[<-|[]]]; unfold gridded_hot, iso; cbn [u_tmins u_tmaxs u_span]; rz_gridded.
  - intros v [<-|[<-|[]]]; unfold gridded_cold, iso; cbn [u_tmins u_tmaxs u_span]; rz_gridded.
  - exists (mkUS 300 (3001 # 10) (1 # 10)). split; [left; reflexivity|vm_compute; discriminate].
  - exists (mkUS 10 (101 # 10) (1 # 10)). split; [right; left; reflexivity|vm_compute; discriminate].
Qed.

Example two_zones_with_recovery :
  let zs := [rz_z1; rz_z2] in
  let hu := site_hu rz_hus rz_cus zs in let cu := site_cu rz_hus rz_cus zs in
  Forall (zone_data rz_hus rz_cus) zs
  /\ map (zg_dd rz_hus rz_cus) zs = [([0; 0], [40; 0]); ([0; 30], [0; 0])]
  /\ (List.hd 0 (zg_Hs rz_z1), List.last (zg_Hs rz_z1) 0, List.hd 0 (zg_Hs rz_z2), List.last (zg_Hs rz_z2) 0) = (0, 40, 30, 0)
  /\ (site_Qh act_window hu cu rz_g, site_Qc act_window hu cu rz_g) = (0, 10)
  /\ (Qh_star (rz_h1 ++ []) ([] ++ rz_c2), Qc_star (rz_h1 ++ []) ([] ++ rz_c2)) = (0, 10)
  /\ desc rz_g /\ covers rz_g (eps_all hu cu) /\ gaps_ok act_window 0 rz_g.
Proof.
  cbv zeta. split; [constructor; [exact rz_zone1|constructor; [exact rz_zone2|constructor]]|].
  split; [vm_compute; reflexivity|]. split; [vm_compute; reflexivity|]. split; [vm_compute; reflexivity|].
  split; [vm_compute; reflexivity|]. split; [apply desc_b_desc; vm_compute; reflexivity|].
  split; [apply covers_b; vm_compute; reflexivity|apply gaps_b_ok; vm_compute; reflexivity].
Qed.
(* ... and the theorem applies to it *)
Example two_zones_bound :
  let zs := [rz_z1; rz_z2] in
  let hu := site_hu rz_hus rz_cus zs in let cu := site_cu rz_hus rz_cus zs in
  Qh_star (rz_h1 ++ []) ([] ++ rz_c2) <= site_Qh act_window hu cu rz_g + nq 2 * (2 * tol)
  /\ Qc_star (rz_h1 ++ []) ([] ++ rz_c2) <= site_Qc act_window hu cu rz_g + nq 2 * (4 * tol).
Proof.
  cbv zeta. destruct two_zones_with_recovery as [Hz [_ [_ [_ [_ [Hd [Hc Hg]]]]]]].
  destruct (site_targets_ge_direct act_window rz_hus rz_cus [rz_z1; rz_z2] rz_g window_pos) as [A [B _]]; try assumption.
  - intros u [<-|[<-|[]]]; vm_compute; reflexivity.
  - intros u [<-|[<-|[]]]; vm_compute; reflexivity.
  - discriminate.
  - split; [exact A|exact B].
Qed.

(* ====================================================================================================================== *)
(* C02: the total-site record closes the first-law balance of ALL site streams, from the same data hypotheses             *)
(* ====================================================================================================================== *)
Definition zg_qh (z : zgcc) : Q := List.hd 0 (zg_Hs z).                 (* the zone's hot utility target  H_net[0]    *)
Definition zg_qc (z : zgcc) : Q := List.last (zg_Hs z) 0.               (* the zone's cold utility target H_net[last] *)
Definition zg_qr (z : zgcc) : Q := duty (zg_hot z) - zg_qc z.           (* its heat recovery                          *)
Definition zgsum (f : zgcc -> Q) (zs : list zgcc) : Q := fold_right (fun z a => f z + a) 0 zs.

Lemma zone_data_facts hus cus z : zone_data hus cus z ->
  (zg_qh z - 2 * tol <= qsum (zg_dh hus cus z) /\ qsum (zg_dh hus cus z) <= zg_qh z
   /\ Forall (fun q => 0 <= q) (zg_dh hus cus z) /\ List.length hus = List.length (zg_dh hus cus z))
  /\ (zg_qc z - 2 * tol <= qsum (zg_dc hus cus z) /\ qsum (zg_dc hus cus z) <= zg_qc z
      /\ Forall (fun q => 0 <= q) (zg_dc hus cus z) /\ List.length cus = List.length (zg_dc hus cus z))
  /\ balanced (zg_hot z) (zg_cold z) (zg_qh z) (zg_qc z) (zg_qr z).
Proof.
  intros [Wh [Wc [D1 [R [P [O [Gh [Gc [[uh Uh] [[uc Uc] Bp]]]]]]]]]].
  destruct (zone_from_gcc (zg_hot z) (zg_cold z) hus cus (zg_Ts z) (zg_Hs z) (zg_out z) uh uc Wh Wc D1 R P O Gh Gc Uh Uc Bp) as [_ [B C]].
  split; [exact B|]. split; [exact C|]. unfold balanced, zg_qr. split; [|reflexivity].
  exact (zone_balance (zg_hot z) (zg_cold z) hus cus (zg_Ts z) (zg_Hs z) (zg_out z) Wh Wc D1 R Bp).
Qed.

Theorem site_record_balanced_from_gccs w hus cus (zs : list zgcc) g :
  let hu := site_hu hus cus zs in let cu := site_cu hus cus zs in
  let hotS := flat_map zg_hot zs in let coldS := flat_map zg_cold zs in
  let qh_ts := site_Qh w hu cu g in let qc_ts := site_Qc w hu cu g in
  let qr_ts := site_Qr (zgsum zg_qr zs) (zgsum zg_qh zs) qh_ts in
  0 < w -> ladder_ok hus -> ladder_ok cus -> desc g -> g <> [] -> covers g (eps_all hu cu) -> gaps_ok w 0 g ->
  Forall (zone_data hus cus) zs ->
  (* total-process record: exactly balanced *)
  balanced hotS coldS (zgsum zg_qh zs) (zgsum zg_qc zs) (zgsum zg_qr zs)
  (* total-site record: balanced up to the zonal closing errors *)
  /\ Qabs ((qh_ts - qc_ts) - (duty coldS - duty hotS)) <= nq (List.length zs) * (2 * tol)
  /\ Qabs (qr_ts - (duty hotS - qc_ts)) <= nq (List.length zs) * (2 * tol)
  /\ 0 <= qh_ts /\ 0 <= qc_ts.
Proof.
  intros hu cu hotS coldS qh_ts qc_ts qr_ts Hw Lh Lc Hd Hne Hcov Hgap Hz. pose proof tol_pos as Ht.
  assert (Z : Forall (fun z => (zg_qh z - 2 * tol <= qsum (zg_dh hus cus z) /\ qsum (zg_dh hus cus z) <= zg_qh z
                                /\ Forall (fun q => 0 <= q) (zg_dh hus cus z) /\ List.length hus = List.length (zg_dh hus cus z))
                            /\ (zg_qc z - 2 * tol <= qsum (zg_dc hus cus z) /\ qsum (zg_dc hus cus z) <= zg_qc z
                                /\ Forall (fun q => 0 <= q) (zg_dc hus cus z) /\ List.length cus = List.length (zg_dc hus cus z))
                            /\ balanced (zg_hot z) (zg_cold z) (zg_qh z) (zg_qc z) (zg_qr z)) zs)
    by (eapply Forall_impl; [|exact Hz]; intros z Hzd; exact (zone_data_facts hus cus z Hzd)).
  assert (Whu : wfs hu).
  { apply uviews_wfs; [exact Lh|]. apply vsum_nonneg. apply Forall_map. eapply Forall_impl; [|exact Z]. intros z [[_ [_ [N1 _]]] _]. exact N1. }
  assert (Wcu : wfs cu).
  { apply uviews_wfs; [exact Lc|]. apply vsum_nonneg. apply Forall_map. eapply Forall_impl; [|exact Z]. intros z [_ [[_ [_ [N2 _]]] _]]. exact N2. }
  destruct (site_targets_nonneg w hu cu g Hne) as [P1 P2].
  pose proof (site_cascade_ends w Hw hu cu Whu Wcu g Hd Hne Hcov Hgap) as CE.
  assert (Dh : duty hu == zgsum (fun z => qsum (zg_dh hus cus z)) zs).
  { unfold hu, site_hu. rewrite duty_uviews; [|exact Lh|].
    - rewrite qsum_vsum; [clear; induction zs as [|z l IH]; [reflexivity|cbn [map fold_right zgsum]; unfold zgsum in IH; rewrite IH; reflexivity]|].
      apply Forall_map. eapply Forall_impl; [|exact Z]. intros z [[_ [_ [_ L1]]] _]. symmetry; exact L1.
    - rewrite vsum_length; [reflexivity|]. apply Forall_map. eapply Forall_impl; [|exact Z]. intros z [[_ [_ [_ L1]]] _]. symmetry; exact L1. }
  assert (Dc : duty cu == zgsum (fun z => qsum (zg_dc hus cus z)) zs).
  { unfold cu, site_cu. rewrite duty_uviews; [|exact Lc|].
    - rewrite qsum_vsum; [clear; induction zs as [|z l IH]; [reflexivity|cbn [map fold_right zgsum]; unfold zgsum in IH; rewrite IH; reflexivity]|].
      apply Forall_map. eapply Forall_impl; [|exact Z]. intros z [_ [[_ [_ [_ L2]]] _]]. symmetry; exact L2.
    - rewrite vsum_length; [reflexivity|]. apply Forall_map. eapply Forall_impl; [|exact Z]. intros z [_ [[_ [_ [_ L2]]] _]]. symmetry; exact L2. }
  assert (S : zgsum zg_qh zs - nq (List.length zs) * (2 * tol) <= zgsum (fun z => qsum (zg_dh hus cus z)) zs
              /\ zgsum (fun z => qsum (zg_dh hus cus z)) zs <= zgsum zg_qh zs
              /\ zgsum zg_qc zs - nq (List.length zs) * (2 * tol) <= zgsum (fun z => qsum (zg_dc hus cus z)) zs
              /\ zgsum (fun z => qsum (zg_dc hus cus z)) zs <= zgsum zg_qc zs
              /\ balanced hotS coldS (zgsum zg_qh zs) (zgsum zg_qc zs) (zgsum zg_qr zs)).
  { unfold hotS, coldS, balanced. rewrite !duty_flat. clear - Z Ht.
    induction Z as [|z l Hz _ IH]; [unfold nq, zgsum; cbn [fold_right List.length Z.of_nat]; change (inject_Z 0) with 0; repeat split; lra|].
    cbn [fold_right List.length zgsum]. unfold zgsum in IH. rewrite nq_S.
    destruct Hz as [[H1 [H2 _]] [[C1 [C2 _]] [B1 B2]]]. destruct IH as [I1 [I2 [I3 [I4 [I5 I6]]]]]. repeat split; nra. }
  destruct S as [S1 [S2 [S3 [S4 [B1 B2]]]]].
  split; [split; assumption|]. unfold qr_ts. rewrite site_Qr_identity. fold qh_ts qc_ts in CE, P1, P2.
  split; [apply Qabs_Qle_condition; split; lra|]. split; [apply Qabs_Qle_condition; split; lra|]. split; assumption.
Qed.

(* the slack cannot be removed without a data hypothesis that excludes sub-tol demands (Robust GCCs do: every level is 0 or
   more than tol): a heating demand of tol/2 is below the entry test of _target_utility, nothing is assigned, and the listed
   hot utilities sum to 0, not to the target -- the exact premise `dhu == sqh` of C02_total_site_balanced is false there *)
Definition half_tol : Q := Qred (tol / 2).
Example exact_sum_refuted :
  let T := [3001 # 10; 300; 100] in let HA := [half_tol; half_tol; 0] in
  di_duties tol T HA (sep_hot HA) (sep_cold HA) [mkUS 300 (3001 # 10) (1 # 10)] [] = ([0], [])
  /\ ~ qsum [0] == List.hd 0 HA
  /\ gridded_hot tol T (mkUS 300 (3001 # 10) (1 # 10)).
Proof.
  cbv zeta. split; [vm_compute; reflexivity|]. split; [vm_compute; discriminate|].
  unfold gridded_hot, iso; cbn [u_tmins u_tmaxs u_span]; rz_gridded.
Qed.

(* the two-zone example again: total-process record (30, 40, 0) and total-site record (0, 10, 30) both close the balance of the
   site's streams  duty cold - duty hot = 30 - 40  exactly (no sub-tol demand in it) *)
Example two_zones_balanced :
  let zs := [rz_z1; rz_z2] in
  let hu := site_hu rz_hus rz_cus zs in let cu := site_cu rz_hus rz_cus zs in
  let qh_ts := site_Qh act_window hu cu rz_g in let qc_ts := site_Qc act_window hu cu rz_g in
  (zgsum zg_qh zs, zgsum zg_qc zs, zgsum zg_qr zs) = (30, 40, 0)
  /\ (qh_ts, qc_ts, site_Qr (zgsum zg_qr zs) (zgsum zg_qh zs) qh_ts) = (0, 10, 30)
  /\ (duty ([] ++ rz_c2), duty (rz_h1 ++ [])) = (30, 40)
  /\ Qabs ((qh_ts - qc_ts) - (duty ([] ++ rz_c2) - duty (rz_h1 ++ []))) <= nq 2 * (2 * tol).
Proof.
  cbv zeta. split; [vm_compute; reflexivity|]. split; [vm_compute; reflexivity|]. split; [vm_compute; reflexivity|].
  destruct two_zones_with_recovery as [Hz [_ [_ [_ [_ [Hd [Hc Hg]]]]]]].
  destruct (site_record_balanced_from_gccs act_window rz_hus rz_cus [rz_z1; rz_z2] rz_g window_pos) as [_ [A _]]; try assumption.
  - intros u [<-|[<-|[]]]; vm_compute; reflexivity.
  - intros u [<-|[<-|[]]]; vm_compute; reflexivity.
  - discriminate.
Qed.
