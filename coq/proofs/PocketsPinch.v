(* C07: what ProblemTable.pinch_idx returns (model: Pockets.pinch_idx) on a curve that has a zero row. *)
From OP Require Import gen.Consts model.Base model.Pockets proofs.BaseFacts.
From Coq Require Import Lia Lqa.
Local Open Scope Q_scope.

Lemma first_idx_some (f : Q -> bool) : forall l i k, first_idx f l i = Some k ->
  (i <= k)%nat /\ (k - i < List.length l)%nat /\ f (nth (k - i) l 0) = true
  /\ forall j, (j < k - i)%nat -> f (nth j l 0) = false.
Proof.
  induction l as [|x l IH]; intros i k E; simpl in E; [discriminate|].
  destruct (f x) eqn:Fx.
  - inversion E; subst. rewrite Nat.sub_diag. simpl. split; [lia|]. split; [lia|]. split; [exact Fx|]. intros j Hj. lia.
  - destruct (IH (S i) k E) as [H1 [H2 [H3 H4]]].
    replace (k - i)%nat with (S (k - S i)) by lia. simpl. split; [lia|]. split; [lia|]. split; [exact H3|].
    intros j Hj. destruct j as [|j]; [exact Fx|]. apply H4. lia.
Qed.
Lemma first_idx_none (f : Q -> bool) : forall l i, first_idx f l i = None -> forall j, (j < List.length l)%nat -> f (nth j l 0) = false.
Proof.
  induction l as [|x l IH]; intros i E j Hj; simpl in *; [lia|].
  destruct (f x) eqn:Fx; [discriminate|]. destruct j as [|j]; [exact Fx|]. apply (IH (S i) E). lia.
Qed.
Lemma existsb_first_idx (f : Q -> bool) l i : existsb f l = true -> exists k, first_idx f l i = Some k.
Proof.
  revert i. induction l as [|x l IH]; intros i E; simpl in *; [discriminate|].
  destruct (f x); [eexists; reflexivity|]. apply IH. exact E.
Qed.
Lemma forallb_nth (f : Q -> bool) l : forallb f l = true -> forall j, (j < List.length l)%nat -> f (nth j l 0) = true.
Proof.
  intros H j Hj. rewrite forallb_forall in H. apply H. apply nth_In. exact Hj.
Qed.
Lemma not_forallb_first (f : Q -> bool) l i : forallb f l = false -> exists k, first_idx (fun x => negb (f x)) l i = Some k.
Proof.
  revert i. induction l as [|x l IH]; intros i E; simpl in *; [discriminate|].
  destruct (f x); simpl in *; [apply IH; exact E|eexists; reflexivity].
Qed.

(* facts used by the proofs about the sweep *)
Record PinchFacts (tq : Q) (hs : list Q) (hp cp : nat) : Prop := {
  pf_le : (hp <= cp)%nat;
  pf_lt : (cp < List.length hs)%nat;
  pf_hp : isz tq (nth hp hs 0) = true;
  pf_cp : isz tq (nth cp hs 0) = true;
  pf_above : isz tq (nth 0 hs 0) = false -> forall j, (j < hp)%nat -> isz tq (nth j hs 0) = false;
  pf_below : isz tq (nth (List.length hs - 1) hs 0) = false -> forall j, (cp < j < List.length hs)%nat -> isz tq (nth j hs 0) = false;
  pf_lead : isz tq (nth 0 hs 0) = true -> forall j, (j <= hp)%nat -> isz tq (nth j hs 0) = true;
  pf_trail : isz tq (nth (List.length hs - 1) hs 0) = true -> forall j, (cp <= j < List.length hs)%nat -> isz tq (nth j hs 0) = true
}.

Lemma rev_nth0 (l : list Q) j : (j < List.length l)%nat -> nth j (rev l) 0 = nth (List.length l - 1 - j) l 0.
Proof. intros H. rewrite rev_nth by exact H. f_equal. lia. Qed.

Lemma pinch_idx_facts tq hs hp cp : existsb (isz tq) hs = true -> pinch_idx tq hs = (hp, cp, true) -> PinchFacts tq hs hp cp.
Proof.
  intros Hhas E. unfold pinch_idx in E. rewrite Hhas in E.
  set (n := List.length hs) in *.
  assert (Hn : (0 < n)%nat) by (unfold n; destruct hs; [discriminate|simpl; lia]).
  destruct (forallb (isz tq) hs) eqn:Hall; cbn [negb andb] in E.
  - (* every row is zero: (n-1, 0), valid only for a single row *)
    inversion E as [[E1 E2 E3]]. apply Nat.leb_le in E3. assert (n = 1)%nat by lia.
    pose proof (forallb_nth _ _ Hall) as Hz.
    replace (n - 1)%nat with 0%nat in * by lia.
    constructor; try lia; try (apply Hz; fold n; lia).
    + intros _ j Hj. apply Hz. fold n. lia.
    + intros _ j Hj. apply Hz. fold n. lia.
  - destruct (existsb_first_idx (isz tq) hs 0 Hhas) as [fz Efz]. rewrite Efz in E.
    destruct (first_idx_some _ _ _ _ Efz) as [_ [F2 [F3 F4]]]. rewrite Nat.sub_0_r in F2, F3, F4. fold n in F2.
    assert (Hhas' : existsb (isz tq) (rev hs) = true).
    { apply existsb_exists. apply existsb_exists in Hhas. destruct Hhas as [x [Hx Fx]]. exists x. split; [apply in_rev; rewrite rev_involutive; exact Hx|exact Fx]. }
    destruct (existsb_first_idx (isz tq) (rev hs) 0 Hhas') as [kz Ekz].
    unfold last_idx in E. rewrite Ekz in E. fold n in E.
    destruct (first_idx_some _ _ _ _ Ekz) as [_ [L2 [L3 L4]]]. rewrite Nat.sub_0_r in L2, L3, L4. rewrite rev_length in L2. fold n in L2.
    rewrite rev_nth0 in L3 by (fold n; lia). fold n in L3.
    assert (L4' : forall j, (n - 1 - kz < j < n)%nat -> isz tq (nth j hs 0) = false).
    { intros j Hj. specialize (L4 (n - 1 - j)%nat ltac:(lia)). rewrite rev_nth0 in L4 by (fold n; lia). fold n in L4.
      replace (n - 1 - (n - 1 - j))%nat with j in L4 by lia. exact L4. }
    destruct (not_forallb_first (isz tq) hs 0 Hall) as [e Ee]. rewrite Ee in E.
    destruct (first_idx_some _ _ _ _ Ee) as [_ [N2 [N3 N4]]]. rewrite Nat.sub_0_r in N2, N3, N4. fold n in N2.
    assert (Hall' : forallb (isz tq) (rev hs) = false).
    { destruct (forallb (isz tq) (rev hs)) eqn:Er; [|reflexivity]. exfalso.
      assert (forallb (isz tq) hs = true); [|congruence].
      apply forallb_forall. intros x Hx. rewrite forallb_forall in Er. apply Er. apply in_rev. rewrite rev_involutive. exact Hx. }
    destruct (not_forallb_first (isz tq) (rev hs) 0 Hall') as [e' Ee']. rewrite Ee' in E.
    destruct (first_idx_some _ _ _ _ Ee') as [_ [M2 [M3 M4]]]. rewrite Nat.sub_0_r in M2, M3, M4. rewrite rev_length in M2. fold n in M2.
    rewrite rev_nth0 in M3 by (fold n; lia). fold n in M3.
    assert (M4' : forall j, (n - 1 - e' < j < n)%nat -> isz tq (nth j hs 0) = true).
    { intros j Hj. specialize (M4 (n - 1 - j)%nat ltac:(lia)). rewrite rev_nth0 in M4 by (fold n; lia). fold n in M4.
      replace (n - 1 - (n - 1 - j))%nat with j in M4 by lia. apply negb_false_iff in M4. exact M4. }
    assert (N4' : forall j, (j < e)%nat -> isz tq (nth j hs 0) = true).
    { intros j Hj. apply negb_false_iff. apply N4. exact Hj. }
    apply negb_true_iff in N3, M3.
    inversion E as [[E1 E2 E3]]. clear E. apply Nat.leb_le in E3.
    (* hot side *)
    assert (Hhp : isz tq (nth hp hs 0) = true /\ (isz tq (nth 0 hs 0) = false -> forall j, (j < hp)%nat -> isz tq (nth j hs 0) = false)
                  /\ (isz tq (nth 0 hs 0) = true -> forall j, (j <= hp)%nat -> isz tq (nth j hs 0) = true) /\ (hp < n)%nat).
    { destruct (0 <? fz)%nat eqn:Z1.
      - apply Nat.ltb_lt in Z1. subst hp. repeat split; try assumption; try lia.
        + intros _ j Hj. apply F4. exact Hj.
        + intros Hc. rewrite (F4 0%nat Z1) in Hc. discriminate.
      - apply Nat.ltb_ge in Z1. assert (fz = 0)%nat by lia. subst fz.
        assert (He : (1 <= e)%nat) by (destruct e; [rewrite F3 in N3; discriminate|lia]).
        subst hp. repeat split; try lia.
        + apply N4'. lia.
        + intros Hc. rewrite F3 in Hc. discriminate.
        + intros _ j Hj. apply N4'. lia. }
    (* cold side *)
    assert (Hcp : isz tq (nth cp hs 0) = true /\ (isz tq (nth (n - 1) hs 0) = false -> forall j, (cp < j < n)%nat -> isz tq (nth j hs 0) = false)
                  /\ (isz tq (nth (n - 1) hs 0) = true -> forall j, (cp <= j < n)%nat -> isz tq (nth j hs 0) = true) /\ (cp < n)%nat).
    { destruct (n - 1 - kz <? n - 1)%nat eqn:Z1.
      - apply Nat.ltb_lt in Z1. subst cp. repeat split; try assumption; try lia.
        + intros _ j Hj. apply L4'. lia.
        + intros Hc. rewrite (L4' (n - 1)%nat ltac:(lia)) in Hc. discriminate.
      - apply Nat.ltb_ge in Z1. assert (kz = 0)%nat by lia. subst kz.
        replace (n - 1 - 0)%nat with (n - 1)%nat in * by lia.
        assert (He : (1 <= e')%nat) by (destruct e'; [replace (n - 1 - 0)%nat with (n - 1)%nat in M3 by lia; rewrite L3 in M3; discriminate|lia]).
        subst cp. repeat split; try lia.
        + apply M4'. lia.
        + intros Hc. rewrite L3 in Hc. discriminate.
        + intros _ j Hj. apply M4'. lia. }
    destruct Hhp as [A1 [A2 [A3 A4]]]. destruct Hcp as [C1 [C2 [C3 C4]]].
    constructor; fold n; rewrite ?E1, ?E2; try assumption; try lia.
Qed.

(* a curve with a zero row that is not identically zero always has a valid pinch *)
Lemma pinch_idx_valid tq hs : existsb (isz tq) hs = true -> forallb (isz tq) hs = false -> snd (pinch_idx tq hs) = true.
Proof.
  intros Hhas Hall. unfold pinch_idx. rewrite Hhas, Hall. cbn [negb andb].
  set (n := List.length hs) in *.
  assert (Hn : (0 < n)%nat) by (unfold n; destruct hs; [discriminate|simpl; lia]).
  destruct (existsb_first_idx (isz tq) hs 0 Hhas) as [fz Efz]. rewrite Efz.
  destruct (first_idx_some _ _ _ _ Efz) as [_ [F2 [F3 F4]]]. rewrite Nat.sub_0_r in F2, F3, F4. fold n in F2.
  assert (Hhas' : existsb (isz tq) (rev hs) = true).
  { apply existsb_exists. apply existsb_exists in Hhas. destruct Hhas as [x [Hx Fx]]. exists x. split; [apply in_rev; rewrite rev_involutive; exact Hx|exact Fx]. }
  destruct (existsb_first_idx (isz tq) (rev hs) 0 Hhas') as [kz Ekz].
  unfold last_idx. rewrite Ekz. fold n.
  destruct (first_idx_some _ _ _ _ Ekz) as [_ [L2 [L3 L4]]]. rewrite Nat.sub_0_r in L2, L3, L4. rewrite rev_length in L2. fold n in L2.
  rewrite rev_nth0 in L3 by (fold n; lia). fold n in L3.
  assert (L4' : forall j, (n - 1 - kz < j < n)%nat -> isz tq (nth j hs 0) = false).
  { intros j Hj. specialize (L4 (n - 1 - j)%nat ltac:(lia)). rewrite rev_nth0 in L4 by (fold n; lia). fold n in L4.
    replace (n - 1 - (n - 1 - j))%nat with j in L4 by lia. exact L4. }
  destruct (not_forallb_first (isz tq) hs 0 Hall) as [e Ee]. rewrite Ee.
  destruct (first_idx_some _ _ _ _ Ee) as [_ [N2 [N3 N4]]]. rewrite Nat.sub_0_r in N2, N3, N4. fold n in N2.
  assert (Hall' : forallb (isz tq) (rev hs) = false).
  { destruct (forallb (isz tq) (rev hs)) eqn:Er; [|reflexivity]. exfalso.
    assert (forallb (isz tq) hs = true); [|congruence].
    apply forallb_forall. intros x Hx. rewrite forallb_forall in Er. apply Er. apply in_rev. rewrite rev_involutive. exact Hx. }
  destruct (not_forallb_first (isz tq) (rev hs) 0 Hall') as [e' Ee']. rewrite Ee'.
  destruct (first_idx_some _ _ _ _ Ee') as [_ [M2 [M3 M4]]]. rewrite Nat.sub_0_r in M2, M3, M4. rewrite rev_length in M2. fold n in M2.
  rewrite rev_nth0 in M3 by (fold n; lia). fold n in M3.
  assert (M4' : forall j, (n - 1 - e' < j < n)%nat -> isz tq (nth j hs 0) = true).
  { intros j Hj. specialize (M4 (n - 1 - j)%nat ltac:(lia)). rewrite rev_nth0 in M4 by (fold n; lia). fold n in M4.
    replace (n - 1 - (n - 1 - j))%nat with j in M4 by lia. apply negb_false_iff in M4. exact M4. }
  assert (N4' : forall j, (j < e)%nat -> isz tq (nth j hs 0) = true).
  { intros j Hj. apply negb_false_iff. apply N4. exact Hj. }
  apply negb_true_iff in N3, M3.
  cbn [snd]. apply Nat.leb_le.
  (* order facts *)
  assert (A1 : (fz <= n - 1 - kz)%nat).
  { destruct (Nat.le_gt_cases fz (n - 1 - kz)) as [H|H]; [exact H|]. rewrite (F4 _ H) in L3. discriminate. }
  assert (A2 : (e <= n - 1 - e')%nat).
  { destruct (Nat.le_gt_cases e (n - 1 - e')) as [H|H]; [exact H|]. rewrite (M4' e ltac:(lia)) in N3. discriminate. }
  assert (A3 : (0 < fz -> fz <= n - e')%nat).
  { intros Hf. destruct (Nat.le_gt_cases fz (n - e')) as [H|H]; [exact H|].
    assert (He' : (1 <= e')%nat).
    { destruct e'; [|lia]. exfalso. replace (n - 0)%nat with n in H by lia. lia. }
    assert (Hz : isz tq (nth (n - e') hs 0) = true) by (apply M4'; lia).
    rewrite (F4 _ H) in Hz. discriminate. }
  assert (A4 : (n - 1 - kz < n - 1 -> e - 1 <= n - 1 - kz)%nat).
  { intros Hk. destruct (Nat.le_gt_cases (e - 1) (n - 1 - kz)) as [H|H]; [exact H|].
    assert (Hz : isz tq (nth (e - 1) hs 0) = true) by (apply N4'; lia).
    rewrite (L4' (e - 1)%nat ltac:(lia)) in Hz. discriminate. }
  destruct (0 <? fz)%nat eqn:Z1; destruct (n - 1 - kz <? n - 1)%nat eqn:Z2;
    try apply Nat.ltb_lt in Z1; try apply Nat.ltb_lt in Z2; try apply Nat.ltb_ge in Z1; try apply Nat.ltb_ge in Z2; lia.
Qed.
