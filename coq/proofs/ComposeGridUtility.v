(* Composition of the grid model (model/Cascade.v: grid_of, stage_model) with the utility-targeting model
   (model/Utility.v: clear_hot / clear_cold, assign_hot / assign_cold).

   The C03/C04 theorems of proofs/UtilityProfile.v speak about an arbitrary temperature column T and ask that the
   reaching utility be `clear` of it.  Here T is the model's own grid, `grid_of (endpoints (hot ++ cold ++ extra))`
   with `extra` the zone's utilities, and the hypotheses "strictly descending" and "clear of the grid" are discharged
   from / reduced to statements about the INPUT end points:

   * the grid is strictly descending, every row is the 6-decimal rounding of an input end point, and both rounded end
     points of every utility view in `extra` are rows                                  (model_grid_rows);
   * `clear_hot tol (grid) u` is EQUIVALENT to the data-level condition `isolated_hot`: no input end point rounds
     strictly inside the utility's range nor within tol above its top                  (clear_hot_grid_iff);
     [being a row is NOT enough for being clear: another stream's end point may round into the 0.1 K range of an
      "isothermal" utility; the slope bound of _maximise_utility_duty then acts and the sum may stay short -- the same
      mechanism as D24/D38.  So isolation is the precise residual hypothesis, and it is decidable on the input.]
   * hence, on the model grid, the hot duties sum to Qh (to tol) and the cold ones to Qc as soon as ONE utility of the
     ladder is isolated and extreme                                                    (sum_hot/cold_closes_on_model_grid),
     and the loop is the lowest-grade-first closed form when every utility is isolated (closed_form_*_on_model_grid). *)
From OP Require Import gen.Consts model.Base model.Cascade proofs.BaseFacts proofs.CascadeSpec proofs.CascadeExact proofs.CascadeGrid.
From OP Require Import model.Stream model.Utility proofs.UtilityLadder proofs.UtilityDuty proofs.UtilityProfile proofs.UtilityWitness.
From Coq Require Import Lqa Lia.
Local Open Scope Q_scope.
Local Arguments Qred : simpl never.

(* rounding of the grid, the model grid of a zone (hot, cold process views; extra = utility views) *)
Definition rnd (e : Q) : Q := round_dp grid_round_dp e.
Definition model_grid (hot cold extra : list view) : list Q := grid_of (endpoints (hot ++ cold ++ extra)).

(* it IS the temperature column of the problem table model *)
Lemma model_grid_is_table_T w hot cold extra : pT (stage_model w hot cold extra) = model_grid hot cold extra.
Proof. unfold stage_model, pta. cbn [pT]. apply raw_rows_T. Qed.

(* ---------- Prop-level `desc` of CascadeSpec.v  =>  boolean `strict_desc` of Utility.v ---------- *)
Lemma desc_strict_desc l : desc l -> strict_desc l = true.
Proof.
  induction l as [|a t IH]; [reflexivity|]. intros [H1 H2]. destruct t as [|b t']; [reflexivity|].
  change (strict_desc (a :: b :: t')) with (qltb b a && strict_desc (b :: t')).
  apply andb_true_iff. split; [apply qltb_true; exact H1|apply IH; exact H2].
Qed.
Lemma desc_app l1 l2 : desc (l1 ++ l2) -> desc l1 /\ desc l2.
Proof.
  induction l1 as [|x l1 IH]; cbn [app]; intro H; [split; [exact I|exact H]|].
  destruct H as [H1 H2]. destruct (IH H2) as [A B]. split; [|exact B]. split; [|exact A].
  destruct l1; [exact I|exact H1].
Qed.
Lemma desc_firstn n l : desc l -> desc (firstn n l).
Proof. intro H. rewrite <- (firstn_skipn n l) in H. apply (desc_app _ _ H). Qed.
Lemma desc_skipn n l : desc l -> desc (skipn n l).
Proof. intro H. rewrite <- (firstn_skipn n l) in H. apply (desc_app _ _ H). Qed.
Lemma forallb_firstn {A} (f : A -> bool) n l : forallb f l = true -> forallb f (firstn n l) = true.
Proof. intro H. rewrite <- (firstn_skipn n l), forallb_app in H. apply andb_true_iff in H. apply H. Qed.
Lemma forallb_skipn {A} (f : A -> bool) n l : forallb f l = true -> forallb f (skipn n l) = true.
Proof. intro H. rewrite <- (firstn_skipn n l), forallb_app in H. apply andb_true_iff in H. apply H. Qed.
Lemma In_firstn {A} n (l : list A) x : In x (firstn n l) -> In x l.
Proof. intro H. rewrite <- (firstn_skipn n l). apply in_or_app. left. exact H. Qed.
Lemma In_skipn {A} n (l : list A) x : In x (skipn n l) -> In x l.
Proof. intro H. rewrite <- (firstn_skipn n l). apply in_or_app. right. exact H. Qed.

(* ---------- rows of the grid = rounded input end points ---------- *)
Lemma grid_row_is_rounded es x : In x (grid_of es) -> exists e, In e es /\ x = rnd e.
Proof.
  unfold grid_of. intro H. apply (sorted_of_only (map (round_dp grid_round_dp) es)) in H.
  apply in_map_iff in H. destruct H as [e [E He]]. exists e. split; [exact He|symmetry; exact E].
Qed.
Lemma grid_has_rounded es e : In e es -> InQ (rnd e) (grid_of es).
Proof. intro H. unfold grid_of. apply (sorted_of_has (map (round_dp grid_round_dp) es)). apply in_map. exact H. Qed.
Lemma grid_strict_desc es : strict_desc (grid_of es) = true.
Proof. apply desc_strict_desc. apply grid_of_desc. Qed.

Lemma extra_endpoints hot cold extra v : In v extra ->
  In (lo v) (endpoints (hot ++ cold ++ extra)) /\ In (hi v) (endpoints (hot ++ cold ++ extra)).
Proof. intro H. apply endpoints_in. apply in_or_app. right. apply in_or_app. right. exact H. Qed.

(* THE MISSING STEP of C03's OPEN note, part (i): for every stream set and every utility list, with no lattice
   hypothesis: the model grid is strictly descending, consists of rounded input end points only, and contains both
   rounded end points of every utility view *)
Theorem model_grid_rows hot cold extra :
  strict_desc (model_grid hot cold extra) = true
  /\ (forall x, In x (model_grid hot cold extra) -> exists e, In e (endpoints (hot ++ cold ++ extra)) /\ x = rnd e)
  /\ (forall v, In v extra -> InQ (rnd (lo v)) (model_grid hot cold extra) /\ InQ (rnd (hi v)) (model_grid hot cold extra)).
Proof.
  unfold model_grid. split; [apply grid_strict_desc|]. split; [intros x Hx; apply grid_row_is_rounded; exact Hx|].
  intros v Hv. destruct (extra_endpoints hot cold extra v Hv) as [A B]. split; apply grid_has_rounded; assumption.
Qed.

(* a utility as the targeting sees it (ustar) is the view v of the grid construction *)
Definition is_view_of (u : ustar) (v : view) : Prop := rnd (lo v) == u_tmins u /\ rnd (hi v) == u_tmaxs u.
Corollary utility_levels_are_rows hot cold extra u v : In v extra -> is_view_of u v ->
  InQ (u_tmins u) (model_grid hot cold extra) /\ InQ (u_tmaxs u) (model_grid hot cold extra).
Proof.
  intros Hv [E1 E2]. destruct (model_grid_rows hot cold extra) as [_ [_ R]]. destruct (R v Hv) as [[y [Hy Ey]] [z [Hz Ez]]].
  split; [exists y|exists z]; (split; [assumption|lra]).
Qed.

(* ---------- `clear of the grid`  <->  `isolated among the input end points` ---------- *)
Lemma clear_row_iff tolv s t x : clear_row tolv s t x = true <-> (x <= t \/ (s <= x /\ (x <= s \/ s + tolv < x))).
Proof. unfold clear_row. rewrite orb_true_iff, andb_true_iff, orb_true_iff, !qleb_true, qltb_true. tauto. Qed.
Lemma clear_row_compat tolv s t x y : x == y -> clear_row tolv s t x = true -> clear_row tolv s t y = true.
Proof.
  intros E H. apply clear_row_iff in H. apply clear_row_iff.
  destruct H as [H|[H1 [H2|H2]]]; [left; lra|right; split; [lra|left; lra]|right; split; [lra|right; lra]].
Qed.

(* no input end point rounds strictly inside the utility's range [tmin, tmax] nor into (tmax, tmax + tol]
   (hot side; mirrored for the cold side).  The utility's own end points satisfy it when they are on the lattice. *)
Definition isolated_hot (tolv : Q) (es : list Q) (u : ustar) : bool :=
  forallb (fun e => clear_row tolv (u_tmaxs u) (u_tmins u) (rnd e)) es.
Definition isolated_cold (tolv : Q) (es : list Q) (u : ustar) : bool :=
  forallb (fun e => clear_row tolv (- u_tmins u) (- u_tmaxs u) (- rnd e)) es.

Theorem clear_hot_grid_iff tolv es u : clear_hot tolv (grid_of es) u = true <-> isolated_hot tolv es u = true.
Proof.
  unfold clear_hot, isolated_hot. rewrite !forallb_forall. split; intros H x Hx.
  - destruct (grid_has_rounded es x Hx) as [y [Hy Ey]]. apply (clear_row_compat tolv _ _ y); [exact Ey|apply H; exact Hy].
  - destruct (grid_row_is_rounded es x Hx) as [e [He ->]]. apply H. exact He.
Qed.
Theorem clear_cold_grid_iff tolv es u : clear_cold tolv (grid_of es) u = true <-> isolated_cold tolv es u = true.
Proof.
  unfold clear_cold, isolated_cold. rewrite !forallb_forall. split; intros H x Hx.
  - destruct (grid_has_rounded es x Hx) as [y [Hy Ey]]. apply (clear_row_compat tolv _ _ (- y)); [lra|apply H; exact Hy].
  - destruct (grid_row_is_rounded es x Hx) as [e [He ->]]. apply H. exact He.
Qed.

(* the own end points of a lattice utility never break its isolation *)
Lemma own_endpoints_isolated tolv u : 0 < tolv -> u_tmins u <= u_tmaxs u ->
  clear_row tolv (u_tmaxs u) (u_tmins u) (u_tmins u) = true /\ clear_row tolv (u_tmaxs u) (u_tmins u) (u_tmaxs u) = true
  /\ clear_row tolv (- u_tmins u) (- u_tmaxs u) (- u_tmins u) = true /\ clear_row tolv (- u_tmins u) (- u_tmaxs u) (- u_tmaxs u) = true.
Proof. intros Ht H. repeat split; apply clear_row_iff; lra. Qed.

Lemma hd_firstn (n : nat) (l : list Q) : List.hd 0 (firstn (S n) l) = List.hd 0 l.
Proof. destruct l; reflexivity. Qed.
(* a utility at or above every input end point (up to tol) reaches the top row of the grid *)
Lemma top_row_reached tolv es u n (Hs : list Q) :
  List.length (firstn (S n) (grid_of es)) = List.length Hs -> Hs <> [] ->
  (forall e, In e es -> rnd e <= u_tmaxs u + tolv) -> - tolv <= u_tmaxs u - List.hd 0 (firstn (S n) (grid_of es)).
Proof.
  intros Hl Hne Htop. rewrite hd_firstn. destruct (grid_of es) as [|t0 Tr] eqn:E.
  - exfalso. cbn [firstn List.length] in Hl. destruct Hs; [apply Hne; reflexivity|discriminate].
  - cbn [List.hd]. assert (Hr : In t0 (grid_of es)) by (rewrite E; left; reflexivity).
    destruct (grid_row_is_rounded es t0 Hr) as [e [He ->]]. specialize (Htop e He). lra.
Qed.

(* ================================ C03 on the model grid ================================ *)
Section OnGrid.
Variables hot cold extra : list view.
Let es := endpoints (hot ++ cold ++ extra).
Let T := model_grid hot cold extra.


(* HOT: one utility of the ladder that is isolated among the input end points and at (or above) every end point, up to tol,
   closes the hot sum on the model grid -- whatever the other utilities of the ladder are.  The remaining hypotheses are about
   the demand profile H only (pocket-free, ends within tol of zero at the pinch row, more than tol to supply). *)
Theorem sum_hot_closes_on_model_grid H rh hus u :
  let Ts := firstn (S rh) T in let Hs := firstn (S rh) H in
  noninc Hs = true -> List.length Ts = List.length Hs -> 0 <= Utility.lastq Hs -> Utility.lastq Hs <= tol -> tol < headq Hs ->
  In u hus -> u_tmins u <= u_tmaxs u ->
  isolated_hot tol es u = true -> (forall e, In e es -> rnd e <= u_tmaxs u + tol) ->
  headq Hs - tol <= qsum (assign_hot tol T H rh hus) /\ qsum (assign_hot tol T H rh hus) <= headq Hs.
Proof.
  intros Ts Hs Hn Hl H0 H1 Hent Hin Hu Hiso Htop.
  apply (assign_hot_sum_closes tol tol_pos T H rh hus u); try assumption.
  - apply desc_strict_desc. apply desc_firstn. apply grid_of_desc.
  - apply forallb_firstn. apply (proj2 (clear_hot_grid_iff tol es u)). exact Hiso.
  - apply (top_row_reached tol es u rh Hs); [exact Hl| |exact Htop].
    intro E. rewrite E in Hent. unfold headq in Hent. cbn [List.hd] in Hent. pose proof tol_pos. lra.
Qed.

(* COLD: symmetric, Qc = last entry of the profile *)
Theorem sum_cold_closes_on_model_grid H rc cus u :
  let k := Nat.max (rc - 1) 0 in let Ts := skipn k T in let Hs := skipn k H in
  noninc (rev Hs) = true -> List.length Ts = List.length Hs -> 0 <= headq Hs -> headq Hs <= tol -> tol < Utility.lastq Hs ->
  In u cus -> u_tmins u <= u_tmaxs u ->
  isolated_cold tol es u = true -> (forall e, In e es -> u_tmins u - tol <= rnd e) ->
  Utility.lastq Hs - tol <= qsum (assign_cold tol T H rc cus) /\ qsum (assign_cold tol T H rc cus) <= Utility.lastq Hs.
Proof.
  intros k Ts Hs Hn Hl H0 H1 Hent Hin Hu Hiso Hbot.
  apply (assign_cold_sum_closes tol tol_pos T H rc cus u); try assumption.
  - apply desc_strict_desc. apply desc_skipn. apply grid_of_desc.
  - apply forallb_skipn. apply (proj2 (clear_cold_grid_iff tol es u)). exact Hiso.
  - intros y Hy. apply In_skipn in Hy. destruct (grid_row_is_rounded es y Hy) as [e [He ->]]. specialize (Hbot e He). lra.
Qed.

(* every utility of the ladder isolated: the loop IS the lowest-grade-first closed form on the model grid *)
Theorem closed_form_hot_on_model_grid H rh hus :
  let Ts := firstn (S rh) T in let Hs := firstn (S rh) H in
  noninc Hs = true -> List.length Ts = List.length Hs -> 0 <= Utility.lastq Hs -> Utility.lastq Hs <= tol ->
  (forall u, In u hus -> u_tmins u <= u_tmaxs u /\ isolated_hot tol es u = true) ->
  Forall2 Qeq (assign_hot tol T H rh hus) (spec_hot tol T H rh hus).
Proof.
  intros Ts Hs Hn Hl H0 H1 Hc. apply (assign_hot_closed_form tol tol_pos T H rh hus); try assumption.
  - apply desc_strict_desc. apply desc_firstn. apply grid_of_desc.
  - intros u Hu. destruct (Hc u Hu) as [A B]. split; [exact A|].
    apply forallb_firstn. apply (proj2 (clear_hot_grid_iff tol es u)). exact B.
Qed.
Theorem closed_form_cold_on_model_grid H rc cus :
  let k := Nat.max (rc - 1) 0 in let Ts := skipn k T in let Hs := skipn k H in
  noninc (rev Hs) = true -> List.length Ts = List.length Hs -> 0 <= headq Hs -> headq Hs <= tol ->
  (forall u, In u cus -> u_tmins u <= u_tmaxs u /\ isolated_cold tol es u = true) ->
  Forall2 Qeq (assign_cold tol T H rc cus) (spec_cold tol T H rc cus).
Proof.
  intros k Ts Hs Hn Hl H0 H1 Hc. apply (assign_cold_closed_form tol tol_pos T H rc cus); try assumption.
  - apply desc_strict_desc. apply desc_skipn. apply grid_of_desc.
  - intros u Hu. destruct (Hc u Hu) as [A B]. split; [exact A|].
    apply forallb_skipn. apply (proj2 (clear_cold_grid_iff tol es u)). exact B.
Qed.

(* The ENTRY POINT of the targeting (target_hot = _target_utility for the hot side: sign flip, the |H[0]| > tol test, then the
   loop): no `more than tol to supply` hypothesis any more -- when the demand is within tol the code assigns nothing and the
   sum is still within tol of it.  `flip tol H = H`: the profile handed over is not negative (no sign flip). *)
Theorem target_hot_sum_closes_on_model_grid H rh hus u :
  let Ts := firstn (S rh) T in let Hs := firstn (S rh) H in
  flip tol H = H -> noninc Hs = true -> List.length Ts = List.length Hs -> 0 <= Utility.lastq Hs -> Utility.lastq Hs <= tol ->
  In u hus -> u_tmins u <= u_tmaxs u ->
  isolated_hot tol es u = true -> (forall e, In e es -> rnd e <= u_tmaxs u + tol) ->
  headq H - tol <= qsum (target_hot tol T H rh hus) /\ qsum (target_hot tol T H rh hus) <= headq H.
Proof.
  intros Ts Hs Hf Hn Hl H0 H1 Hin Hu Hiso Htop.
  assert (Eh : headq Hs = headq H) by (unfold headq, Hs; apply hd_firstn).
  assert (Hh0 : 0 <= headq H).
  { rewrite <- Eh. destruct Hs as [|h r]; [unfold headq; cbn [List.hd]; lra|].
    pose proof (noninc_last_le h r Hn). unfold headq; cbn [List.hd]. lra. }
  unfold target_hot. destruct hus as [|u0 hr] eqn:Eu; [destruct Hin|]. rewrite <- Eu in *. rewrite Hf.
  destruct (qltb tol (Qabs (headq H))) eqn:E.
  - apply qltb_true in E. rewrite (Qabs_pos _ Hh0) in E. rewrite <- Eh.
    apply (sum_hot_closes_on_model_grid H rh hus u); try assumption. fold Hs. rewrite Eh. exact E.
  - apply qltb_false in E. rewrite (Qabs_pos _ Hh0) in E. rewrite qsum_zeros. split; lra.
Qed.

Lemma last_skipn (k : nat) : forall l : list Q, skipn k l <> [] -> List.last (skipn k l) 0 = List.last l 0.
Proof.
  induction k as [|k IH]; intros l Hne; [reflexivity|]. destruct l as [|x l]; [reflexivity|].
  cbn [skipn] in *. rewrite (IH l Hne). destruct l as [|y l']; [destruct k; exfalso; apply Hne; reflexivity|reflexivity].
Qed.

Theorem target_cold_sum_closes_on_model_grid H rc cus u :
  let k := Nat.max (rc - 1) 0 in let Ts := skipn k T in let Hs := skipn k H in
  flip tol H = H -> Hs <> [] ->
  noninc (rev Hs) = true -> List.length Ts = List.length Hs -> 0 <= headq Hs -> headq Hs <= tol ->
  In u cus -> u_tmins u <= u_tmaxs u ->
  isolated_cold tol es u = true -> (forall e, In e es -> u_tmins u - tol <= rnd e) ->
  Utility.lastq H - tol <= qsum (target_cold tol T H rc cus) /\ qsum (target_cold tol T H rc cus) <= Utility.lastq H.
Proof.
  intros k Ts Hs Hf Hne Hn Hl H0 H1 Hin Hu Hiso Hbot.
  assert (El : Utility.lastq Hs = Utility.lastq H) by (unfold Utility.lastq, Hs; apply last_skipn; exact Hne).
  assert (Hl0 : 0 <= Utility.lastq H).
  { rewrite <- El. destruct Hs as [|h r] eqn:E; [exfalso; apply Hne; reflexivity|]. unfold headq in H0. cbn [List.hd] in H0.
    pose proof (noninc_rev_last (h :: r) h Hn (or_introl eq_refl)). lra. }
  unfold target_cold. destruct cus as [|u0 cr] eqn:Eu; [destruct Hin|]. rewrite <- Eu in *. rewrite Hf.
  destruct (qltb tol (Qabs (Utility.lastq H))) eqn:E.
  - apply qltb_true in E. rewrite (Qabs_pos _ Hl0) in E. rewrite <- El.
    apply (sum_cold_closes_on_model_grid H rc cus u); try assumption. fold k. fold Hs. rewrite El. exact E.
  - apply qltb_false in E. rewrite (Qabs_pos _ Hl0) in E. rewrite qsum_zeros. split; lra.
Qed.
End OnGrid.

(* ---------- non-vacuity: the classic four-stream problem (shifted scale) with a 0.1 K hot utility on top and a 0.1 K cold
   utility at the bottom: both isolated, both extreme; the grid has the utility end points as its first two / last two rows ---------- *)
Definition nv_hot : list view := [mkV 35 245 (3#20); mkV 75 195 (1#4)].
Definition nv_cold : list view := [mkV 25 185 (1#5); mkV 145 235 (2#5)].
Definition nv_extra : list view := [mkV 245 (2451 # 10) 0; mkV (249 # 10) 25 0].
Definition nv_hu : ustar := mkUS 245 (2451 # 10) (1 # 10).
Definition nv_cu : ustar := mkUS (249 # 10) 25 (1 # 10).
Example on_grid_nonvacuous :
  model_grid nv_hot nv_cold nv_extra = [2451 # 10; 245; 235; 195; 185; 145; 75; 35; 25; 249 # 10]
  /\ isolated_hot tol (endpoints (nv_hot ++ nv_cold ++ nv_extra)) nv_hu = true
  /\ isolated_cold tol (endpoints (nv_hot ++ nv_cold ++ nv_extra)) nv_cu = true
  /\ forallb (fun e => qleb (rnd e) (u_tmaxs nv_hu + tol) && qleb (u_tmins nv_cu - tol) (rnd e))
             (endpoints (nv_hot ++ nv_cold ++ nv_extra)) = true
  (* and isolation is a real restriction: a stream end point inside the utility's 0.1 K range breaks it *)
  /\ isolated_hot tol (endpoints ([mkV 35 (24505 # 100) 1] ++ nv_cold ++ nv_extra)) nv_hu = false.
Proof. vm_compute. repeat split; reflexivity. Qed.
