(* ln x >= 2 (x-1)/(x+1) for x >= 1 (mean-value theorem, Coquelicot) and ln x <= x - 1:
   the two inequalities behind  min <= LMTD <= arithmetic mean. *)
From Coq Require Import Reals Lra Psatz.
From Coquelicot Require Import Coquelicot.
Local Open Scope R_scope.

Definition lnf (x : R) : R := ln x - 2 * (x - 1) / (x + 1).
Definition lndf (x : R) : R := (x - 1) ^ 2 / (x * (x + 1) ^ 2).

Lemma lnf_deriv x : 0 < x -> is_derive lnf x (lndf x).
Proof.
  intros Hx. unfold lnf, lndf. auto_derive; [split; [lra|split; [lra|auto]]|].
  field. split; lra.
Qed.

Lemma ln_lower x : 1 <= x -> 2 * (x - 1) / (x + 1) <= ln x.
Proof.
  intros Hx. destruct (Req_dec x 1) as [->|Hne].
  - rewrite ln_1. replace (2 * (1 - 1) / (1 + 1)) with 0 by field. lra.
  - assert (H1 : 1 < x) by lra.
    destruct (MVT_gen lnf 1 x lndf) as [c [Hc E]].
    + intros y Hy. rewrite Rmin_left, Rmax_right in Hy by lra. apply lnf_deriv. lra.
    + intros y Hy. rewrite Rmin_left, Rmax_right in Hy by lra.
      apply continuity_pt_filterlim. apply (ex_derive_continuous lnf y). exists (lndf y). apply lnf_deriv. lra.
    + rewrite Rmin_left, Rmax_right in Hc by lra.
      assert (F1 : lnf 1 = 0). { unfold lnf. rewrite ln_1. field. }
      assert (Dc : 0 <= lndf c).
      { unfold lndf. apply Rmult_le_pos; [apply pow2_ge_0|]. left. apply Rinv_0_lt_compat.
        apply Rmult_lt_0_compat; [lra|]. apply pow_lt. lra. }
      assert (0 <= lndf c * (x - 1)) by (apply Rmult_le_pos; lra).
      unfold lnf in E at 1. rewrite F1 in E. lra.
Qed.

Lemma ln_upper x : 0 < x -> ln x <= x - 1.
Proof.
  intro Hx. destruct (Req_dec x 1) as [->|Hne]. rewrite ln_1. lra.
  left. apply exp_lt_inv. rewrite exp_ln by lra. pose proof (exp_ineq1 (x - 1) ltac:(lra)). lra.
Qed.
