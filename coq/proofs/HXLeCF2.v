(* "never exceeds the counter-flow value" for the remaining closed forms: cross flow with one fluid mixed (both variants)
   and the one-shell-pass shell-and-tube correlation, for every NTU > 0 and every capacity ratio 0 < c <= 1; lifted to
   the whole function HX_Eff_R (any number of passes).  Range of the both-mixed cross-flow correlation.
   Method: each inequality is put in a division-free / logarithm-free form G(N) >= 0 with G(0) = 0 and G' >= 0
   (Coquelicot's mean-value theorem); the sign of every derivative comes from 1 + x <= exp x. *)
From Coq Require Import Reals Lra Psatz Bool.
From Coquelicot Require Import Coquelicot.
From OP Require Import gen.Consts gen.HxDispatch gen.Scalar model.HX proofs.HXBase proofs.HXBranch proofs.HXShell proofs.HXFull proofs.HXLeCF.
Local Open Scope R_scope.

(* ------------------------------------------------------------------ tools *)
(* a function with non-negative derivative on [a,b] does not decrease from a to b *)
Lemma nondecr_from_deriv (f df : R -> R) a b : a <= b ->
  (forall t, a <= t <= b -> is_derive f t (df t)) -> (forall t, a <= t <= b -> 0 <= df t) -> f a <= f b.
Proof.
  intros Hab Hd Hp. destruct (Req_dec a b) as [->|NE]; [lra|].
  destruct (MVT_gen f a b df) as [t [Ht E]].
  - rewrite Rmin_left, Rmax_right by lra. intros y Hy. apply Hd. lra.
  - rewrite Rmin_left, Rmax_right by lra. intros y Hy. apply continuity_pt_filterlim.
    apply (ex_derive_continuous f y). exists (df y). apply Hd. exact Hy.
  - rewrite Rmin_left, Rmax_right in Ht by lra. pose proof (Hp t Ht).
    assert (0 <= df t * (b - a)) by (apply Rmult_le_pos; lra). lra.
Qed.

(* weighted tangent-line inequality: (1-c) e^{ct} + c e^{-(1-c)t} >= 1 *)
Lemma tangent_mix c t : 0 <= c <= 1 -> 1 <= (1 - c) * exp (c * t) + c * exp (- ((1 - c) * t)).
Proof.
  intros [Hc0 Hc1]. pose proof (exp_ineq1_le (c * t)) as A. pose proof (exp_ineq1_le (- ((1 - c) * t))) as B.
  assert (0 <= (1 - c) * (exp (c * t) - (1 + c * t))) by (apply Rmult_le_pos; lra).
  assert (0 <= c * (exp (- ((1 - c) * t)) - (1 + - ((1 - c) * t)))) by (apply Rmult_le_pos; lra).
  lra.
Qed.

(* the same, multiplied by e^{-ct}:  (1-c) - e^{-ct} + c e^{-t} >= 0 *)
Lemma tangent_mix' c t : 0 <= c <= 1 -> 0 <= (1 - c) - exp (- (c * t)) + c * exp (- t).
Proof.
  intros Hc. pose proof (tangent_mix c t Hc) as H. pose proof (exp_pos (- (c * t))) as P.
  assert (E1 : exp (- (c * t)) * exp (c * t) = 1) by (rewrite <- exp_plus; replace (- (c * t) + c * t) with 0 by ring; apply exp_0).
  assert (E2 : exp (- (c * t)) * exp (- ((1 - c) * t)) = exp (- t)) by (rewrite <- exp_plus; f_equal; ring).
  assert (K : 0 <= exp (- (c * t)) * ((1 - c) * exp (c * t) + c * exp (- ((1 - c) * t)) - 1)) by (apply Rmult_le_pos; lra).
  replace (exp (- (c * t)) * ((1 - c) * exp (c * t) + c * exp (- ((1 - c) * t)) - 1))
    with ((1 - c) * (exp (- (c * t)) * exp (c * t)) + c * (exp (- (c * t)) * exp (- ((1 - c) * t))) - exp (- (c * t))) in K by ring.
  rewrite E1, E2 in K. lra.
Qed.

(* ------------------------------------------------------------------ cross flow, Cmax unmixed (Cmin mixed), c < 1 *)
(* G(t) = exp(t(1-c) - (1-e^{-ct})/c) (1 - c e^{-t(1-c)}) - (1-c) *)
Definition gmax (c t : R) : R := exp (t * (1 - c) - (1 - exp (- (c * t))) / c) * (1 - c * exp (- (t * (1 - c)))) - (1 - c).
Definition dgmax (c t : R) : R := exp (t * (1 - c) - (1 - exp (- (c * t))) / c) * ((1 - c) - exp (- (c * t)) + c * exp (- t)).
Lemma gmax_deriv c t : c <> 0 -> is_derive (gmax c) t (dgmax c t).
Proof.
  intro Hc. unfold gmax, dgmax. auto_derive; [exact I|].
  assert (E : exp (- t) = exp (- (c * t)) * exp (- (t * (1 - c)))) by (rewrite <- exp_plus; f_equal; ring).
  rewrite E. unfold Rminus, Rdiv. field. exact Hc.
Qed.

Lemma gmax_nonneg c N : 0 < c <= 1 -> 0 <= N -> 0 <= gmax c N.
Proof.
  intros Hc HN.
  assert (G0 : gmax c 0 = 0).
  { unfold gmax. rewrite !Rmult_0_l, Rmult_0_r, !Ropp_0, exp_0. replace (0 - (1 - 1) / c) with 0 by (field; lra). rewrite exp_0. ring. }
  rewrite <- G0. apply (nondecr_from_deriv (gmax c) (dgmax c)); [exact HN| |].
  - intros t _. apply gmax_deriv. lra.
  - intros t _. unfold dgmax. apply Rmult_le_pos; [left; apply exp_pos|]. apply tangent_mix'. lra.
Qed.

Theorem eff_CrFMUmax_le_CF N c : 0 < N -> 0 < c <= 1 -> eff_CrFMUmax N c <= eff_CF N c.
Proof.
  intros HN [Hc0 Hc1]. rewrite eff_CrFMUmax_form by lra. destruct (Req_dec c 1) as [E1|NE].
  - rewrite (eff_CF_1_form N c E1). subst c.
    (* J(t) = (1+t) exp(-(1-e^{-t})) - 1 *)
    set (J := fun t => (1 + t) * exp (- (1 - exp (- t))) - 1).
    set (dJ := fun t => exp (- (1 - exp (- t))) * (1 - (1 + t) * exp (- t))).
    assert (HJ : J 0 <= J N).
    { apply (nondecr_from_deriv J dJ); [lra| |].
      - intros t _. unfold J, dJ. auto_derive; [exact I|]. unfold Rminus. ring.
      - intros t Ht. unfold dJ. apply Rmult_le_pos; [left; apply exp_pos|].
        pose proof (exp_ineq1_le t). pose proof (exp_pos (- t)) as P.
        assert (Ei : exp (- t) * exp t = 1) by (rewrite <- exp_plus; replace (- t + t) with 0 by ring; apply exp_0).
        assert (0 <= exp (- t) * (exp t - (1 + t))) by (apply Rmult_le_pos; lra). nra. }
    unfold J in HJ. rewrite Ropp_0, exp_0 in HJ. replace (1 - 1) with 0 in HJ by ring. rewrite Ropp_0, exp_0 in HJ.
    replace (N * 1) with N by ring. replace ((1 - exp (- N)) / 1) with (1 - exp (- N)) by field.
    set (X := exp (- (1 - exp (- N)))) in *.
    apply (Rmult_le_reg_r (1 + N)); [lra|]. replace (N / (1 + N) * (1 + N)) with N by (field; lra). lra.
  - assert (Hc : c < 1) by lra. rewrite (eff_CF_lt1_form N c HN ltac:(lra) Hc).
    pose proof (gmax_nonneg c N ltac:(lra) ltac:(lra)) as G. unfold gmax in G.
    replace (N * c) with (c * N) by ring.
    assert (Hp : 0 < N * (1 - c)) by (apply Rmult_lt_0_compat; lra).
    pose proof (exp_neg_lt1 _ Hp) as HE1. pose proof (exp_pos (- (N * (1 - c)))) as HE0.
    assert (Ex : exp (N * (1 - c) - (1 - exp (- (c * N))) / c) = exp (- ((1 - exp (- (c * N))) / c)) * / exp (- (N * (1 - c)))).
    { rewrite <- exp_Ropp, <- exp_plus. f_equal. ring. }
    rewrite Ex in G. set (X := exp (- ((1 - exp (- (c * N))) / c))) in *. set (E := exp (- (N * (1 - c)))) in *.
    assert (Hd : 0 < 1 - c * E) by nra.
    (* G : X / E * (1 - c E) >= 1 - c, i.e. X (1 - c E) >= (1 - c) E *)
    assert (G' : (1 - c) * E <= X * (1 - c * E)).
    { apply (Rmult_le_reg_r (/ E)); [apply Rinv_0_lt_compat; exact HE0|].
      replace ((1 - c) * E * / E) with (1 - c) by (field; lra). lra. }
    apply (Rmult_le_reg_r (1 - c * E)); [exact Hd|].
    replace ((1 - E) / (1 - c * E) * (1 - c * E)) with (1 - E) by (field; lra). lra.
Qed.

(* ------------------------------------------------------------------ cross flow, Cmin unmixed (Cmax mixed), c < 1 *)
(* H(t) = exp(-c(1-e^{-t})) (1 - c e^{-t(1-c)}) - (1-c) *)
Definition gmin (c t : R) : R := exp (- (c * (1 - exp (- t)))) * (1 - c * exp (- (t * (1 - c)))) - (1 - c).
Definition dgmin (c t : R) : R :=
  c * exp (- (c * (1 - exp (- t)))) * exp (- t) * ((1 - c) * exp (c * t) + c * exp (- ((1 - c) * t)) - 1).
Lemma gmin_deriv c t : is_derive (gmin c) t (dgmin c t).
Proof.
  unfold gmin, dgmin. auto_derive; [exact I|].
  assert (E : exp (- (t * (1 - c))) = exp (- t) * exp (c * t)) by (rewrite <- exp_plus; f_equal; ring).
  assert (E2 : exp (- ((1 - c) * t)) = exp (- t) * exp (c * t)) by (rewrite <- exp_plus; f_equal; ring).
  rewrite E, E2. unfold Rminus. ring.
Qed.

Lemma gmin_nonneg c N : 0 <= c <= 1 -> 0 <= N -> 0 <= gmin c N.
Proof.
  intros Hc HN.
  assert (G0 : gmin c 0 = 0).
  { unfold gmin. rewrite Rmult_0_l, !Ropp_0, exp_0. replace (c * (1 - 1)) with 0 by ring. rewrite Ropp_0, exp_0. ring. }
  rewrite <- G0. apply (nondecr_from_deriv (gmin c) (dgmin c)); [exact HN| |].
  - intros t _. apply gmin_deriv.
  - intros t _. unfold dgmin. pose proof (tangent_mix c t Hc).
    apply Rmult_le_pos; [|lra]. apply Rmult_le_pos; [|left; apply exp_pos]. apply Rmult_le_pos; [lra|left; apply exp_pos].
Qed.

Theorem eff_CrFMUmin_le_CF N c : 0 < N -> 0 < c <= 1 -> eff_CrFMUmin N c <= eff_CF N c.
Proof.
  intros HN [Hc0 Hc1]. destruct (Req_dec c 1) as [E1|NE].
  - (* at c = 1 the two one-fluid-mixed correlations coincide *)
    assert (Eq : eff_CrFMUmin N c = eff_CrFMUmax N c).
    { rewrite eff_CrFMUmin_form, eff_CrFMUmax_form by lra. subst c.
      replace (N * 1) with N by ring. replace (1 * (1 - exp (- N))) with (1 - exp (- N)) by ring.
      replace ((1 - exp (- N)) / 1) with (1 - exp (- N)) by field. field. }
    rewrite Eq. apply eff_CrFMUmax_le_CF; lra.
  - assert (Hc : c < 1) by lra. rewrite eff_CrFMUmin_form, (eff_CF_lt1_form N c HN ltac:(lra) Hc).
    pose proof (gmin_nonneg c N ltac:(lra) ltac:(lra)) as G. unfold gmin in G.
    assert (Hp : 0 < N * (1 - c)) by (apply Rmult_lt_0_compat; lra).
    pose proof (exp_neg_lt1 _ Hp) as HE1. pose proof (exp_pos (- (N * (1 - c)))) as HE0.
    set (Y := exp (- (c * (1 - exp (- N))))) in *. set (E := exp (- (N * (1 - c)))) in *.
    assert (Hd : 0 < 1 - c * E) by nra.
    apply (Rmult_le_reg_r (c * (1 - c * E))); [apply Rmult_lt_0_compat; lra|].
    replace ((1 - Y) / c * (c * (1 - c * E))) with ((1 - Y) * (1 - c * E)) by (field; lra).
    replace ((1 - E) / (1 - c * E) * (c * (1 - c * E))) with ((1 - E) * c) by (field; lra). lra.
Qed.

(* ------------------------------------------------------------------ shell and tube (one shell pass) *)
(* kk u = u coth u *)
Definition kk (u : R) : R := u * (exp (2 * u) + 1) / (exp (2 * u) - 1).
Definition dkk (u : R) : R := ((exp (2 * u) + 1) * (exp (2 * u) - 1) - 4 * u * exp (2 * u)) / (exp (2 * u) - 1) ^ 2.

Lemma kk_coth x : kk x = x * Coth_R x.
Proof. unfold kk, Coth_R, Rdiv. ring. Qed.

(* 2 sinh(2u) >= 4u *)
Lemma sinh2_ge u : 0 <= u -> 4 * u <= exp (2 * u) - exp (- (2 * u)).
Proof.
  intro Hu. set (S := fun t => exp (2 * t) - exp (- (2 * t)) - 4 * t). set (dS := fun t => 2 * exp (2 * t) + 2 * exp (- (2 * t)) - 4).
  assert (H : S 0 <= S u).
  { apply (nondecr_from_deriv S dS); [exact Hu| |].
    - intros t _. unfold S, dS. auto_derive; [exact I|]. unfold Rminus. ring.
    - intros t _. unfold dS. rewrite exp_Ropp. pose proof (exp_pos (2 * t)) as P. set (w := exp (2 * t)) in *.
      assert (2 <= w + / w); [|lra]. apply (Rmult_le_reg_r w); [exact P|].
      replace ((w + / w) * w) with (w * w + 1) by (field; lra).
      pose proof (Rle_0_sqr (w - 1)) as Q. unfold Rsqr in Q. clearbody w. nra. }
  unfold S in H. replace (2 * 0) with 0 in H by ring. rewrite Ropp_0, exp_0 in H. lra.
Qed.

Lemma kk_num_nonneg u : 0 <= u -> 0 <= (exp (2 * u) + 1) * (exp (2 * u) - 1) - 4 * u * exp (2 * u).
Proof.
  intro Hu. pose proof (sinh2_ge u Hu) as H. rewrite exp_Ropp in H. pose proof (exp_pos (2 * u)) as P. set (w := exp (2 * u)) in *.
  assert (K : 0 <= w * (w - / w - 4 * u)) by (apply Rmult_le_pos; lra).
  replace (w * (w - / w - 4 * u)) with (w * w - 1 - 4 * u * w) in K by (field; lra). lra.
Qed.

Lemma kk_deriv u : 0 < u -> is_derive kk u (dkk u).
Proof.
  intro Hu. assert (Hw : 1 < exp (2 * u)) by (apply exp_gt1; lra).
  unfold kk, dkk. auto_derive; [lra|]. unfold Rminus. field. lra.
Qed.

Lemma kk_mono u1 u2 : 0 < u1 -> u1 <= u2 -> kk u1 <= kk u2.
Proof.
  intros H1 H12. apply (nondecr_from_deriv kk dkk); [exact H12| |].
  - intros t Ht. apply kk_deriv. lra.
  - intros t Ht. unfold dkk. assert (Hw : 1 < exp (2 * t)) by (apply exp_gt1; lra).
    apply Rmult_le_pos; [apply kk_num_nonneg; lra|]. left. apply Rinv_0_lt_compat. apply pow_lt. lra.
Qed.

(* u coth u >= 1 *)
Lemma kk_ge1 u : 0 < u -> 1 <= kk u.
Proof.
  intro Hu. set (M := fun t => t * (exp (2 * t) + 1) - exp (2 * t) + 1). set (dM := fun t => exp (2 * t) * (exp (- (2 * t)) - (1 + - (2 * t)))).
  assert (H : M 0 <= M u).
  { apply (nondecr_from_deriv M dM); [lra| |].
    - intros t _. unfold M, dM. auto_derive; [exact I|].
      assert (E : exp (2 * t) * exp (- (2 * t)) = 1) by (rewrite <- exp_plus; replace (2 * t + - (2 * t)) with 0 by ring; apply exp_0).
      replace (exp (2 * t) * (exp (- (2 * t)) - (1 + - (2 * t)))) with (exp (2 * t) * exp (- (2 * t)) - exp (2 * t) * (1 + - (2 * t))) by ring.
      rewrite E. unfold Rminus. ring.
    - intros t _. unfold dM. apply Rmult_le_pos; [left; apply exp_pos|]. pose proof (exp_ineq1_le (- (2 * t))). lra. }
  unfold M in H. replace (2 * 0) with 0 in H by ring. rewrite exp_0 in H.
  assert (Hw : 1 < exp (2 * u)) by (apply exp_gt1; lra). unfold kk. set (w := exp (2 * u)) in *.
  apply (Rmult_le_reg_r (w - 1)); [lra|]. replace (u * (w + 1) / (w - 1) * (w - 1)) with (u * (w + 1)) by (field; lra). lra.
Qed.

Lemma eff_ShellTube_coth N c : eff_ShellTube N c = 2 / (1 + c + st_d c * Coth_R (N * st_d c / 2)).
Proof. reflexivity. Qed.

(* counter flow in the same shape: 2 / (1 + c + (1-c) coth(N (1-c) / 2)) *)
Lemma eff_CF_coth N c : 0 < N -> 0 <= c -> c < 1 -> eff_CF N c = 2 / (1 + c + (1 - c) * Coth_R (N * (1 - c) / 2)).
Proof.
  intros HN Hc0 Hc. rewrite (eff_CF_lt1_form N c HN Hc0 Hc). unfold Coth_R.
  replace (2 * (N * (1 - c) / 2)) with (N * (1 - c)) by field. rewrite exp_Ropp.
  assert (Hp : 0 < N * (1 - c)) by (apply Rmult_lt_0_compat; lra). pose proof (exp_gt1 _ Hp) as Hz. set (z := exp (N * (1 - c))) in *.
  assert (z - c <> 0) by lra. assert (z - 1 <> 0) by lra.
  assert ((1 + c) * (z - 1) + (1 - c) * (z + 1) <> 0) by nra.
  field. repeat split; try lra; try nra.
Qed.

Theorem eff_ShellTube_le_CF N c : 0 < N -> 0 <= c <= 1 -> eff_ShellTube N c <= eff_CF N c.
Proof.
  intros HN [Hc0 Hc1]. rewrite eff_ShellTube_coth. pose proof (st_d_ge1 c) as Hd. set (d := st_d c) in *.
  assert (Hx2 : 0 < N * d / 2) by nra.
  assert (X2 : d * Coth_R (N * d / 2) = 2 / N * kk (N * d / 2)) by (rewrite kk_coth; field; lra).
  rewrite X2. pose proof (kk_ge1 _ Hx2) as K2. assert (HiN : 0 < 2 / N) by (apply Rdiv_lt_0_compat; lra).
  destruct (Req_dec c 1) as [E1|NE].
  - rewrite (eff_CF_1_form N c E1).
    assert (L : 2 / N <= 2 / N * kk (N * d / 2)) by nra. set (X := 2 / N * kk (N * d / 2)) in *.
    assert (HX : 0 < X) by lra.
    apply (Rmult_le_reg_r ((1 + c + X) * (1 + N))); [apply Rmult_lt_0_compat; lra|].
    replace (2 / (1 + c + X) * ((1 + c + X) * (1 + N))) with (2 * (1 + N)) by (field; lra).
    replace (N / (1 + N) * ((1 + c + X) * (1 + N))) with (N * (1 + c + X)) by (field; lra).
    assert (2 <= N * X). { apply (Rmult_le_compat_l N) in L; [|lra]. replace (N * (2 / N)) with 2 in L by (field; lra). exact L. }
    subst c. lra.
  - assert (Hc : c < 1) by lra. rewrite (eff_CF_coth N c HN Hc0 Hc).
    assert (Hx1 : 0 < N * (1 - c) / 2) by nra.
    assert (X1 : (1 - c) * Coth_R (N * (1 - c) / 2) = 2 / N * kk (N * (1 - c) / 2)) by (rewrite kk_coth; field; lra).
    rewrite X1. pose proof (kk_ge1 _ Hx1) as K1.
    assert (M : kk (N * (1 - c) / 2) <= kk (N * d / 2)) by (apply kk_mono; [exact Hx1|nra]).
    assert (L : 2 / N * kk (N * (1 - c) / 2) <= 2 / N * kk (N * d / 2)) by (apply Rmult_le_compat_l; lra).
    assert (P1 : 0 < 2 / N * kk (N * (1 - c) / 2)) by (apply Rmult_lt_0_compat; lra).
    set (A := 2 / N * kk (N * (1 - c) / 2)) in *. set (B := 2 / N * kk (N * d / 2)) in *.
    apply (Rmult_le_reg_r ((1 + c + A) * (1 + c + B))); [apply Rmult_lt_0_compat; lra|].
    replace (2 / (1 + c + B) * ((1 + c + A) * (1 + c + B))) with (2 * (1 + c + A)) by (field; lra).
    replace (2 / (1 + c + A) * ((1 + c + A) * (1 + c + B))) with (2 * (1 + c + B)) by (field; lra). lra.
Qed.

(* the three together: the statement that was OPEN in props/C20.v *)
Theorem eff_le_cf_closed_forms N c : 0 < N -> 0 < c <= 1 ->
  eff_CrFMUmax N c <= eff_CF N c /\ eff_CrFMUmin N c <= eff_CF N c /\ eff_ShellTube N c <= eff_CF N c.
Proof.
  intros HN Hc. repeat split. apply eff_CrFMUmax_le_CF; assumption. apply eff_CrFMUmin_le_CF; assumption. apply eff_ShellTube_le_CF; lra.
Qed.

(* ------------------------------------------------------------------ cross flow, both mixed: range *)
Theorem eff_CrFMM_range N c : 0 < N -> 0 < c -> 0 < eff_CrFMM N c < 1.
Proof.
  intros HN Hc. unfold eff_CrFMM. replace (- N * c) with (- (N * c)) by ring.
  assert (Hp : 0 < N * c) by (apply Rmult_lt_0_compat; lra).
  pose proof (exp_neg_lt1 _ HN) as Hs1. pose proof (exp_pos (- N)) as Hs0.
  pose proof (exp_neg_lt1 _ Hp) as Hr1. pose proof (exp_ineq1 (- (N * c)) ltac:(lra)) as Hr2.
  set (s := exp (- N)) in *. set (r := exp (- (N * c))) in *.
  assert (A : 1 < 1 / (1 - s)).
  { apply (Rmult_lt_reg_r (1 - s)); [lra|]. replace (1 / (1 - s) * (1 - s)) with 1 by (field; lra). lra. }
  assert (B : 1 / N < c / (1 - r)).
  { apply (Rmult_lt_reg_r (N * (1 - r))); [apply Rmult_lt_0_compat; lra|].
    replace (1 / N * (N * (1 - r))) with (1 - r) by (field; lra).
    replace (c / (1 - r) * (N * (1 - r))) with (N * c) by (field; lra). lra. }
  assert (D : 1 < 1 / (1 - s) + c / (1 - r) - 1 / N) by lra.
  split; [apply Rinv_0_lt_compat; lra|].
  apply (Rlt_le_trans _ (/ 1)); [apply Rinv_lt_contravar; lra|rewrite Rinv_1; lra].
Qed.

(* 1/(1 - e^{-x}) = (1 + coth(x/2))/2 *)
Lemma inv_one_minus_exp x : 0 < x -> 1 / (1 - exp (- x)) = (1 + Coth_R (x / 2)) / 2.
Proof.
  intro Hx. unfold Coth_R. replace (2 * (x / 2)) with x by field. rewrite exp_Ropp. pose proof (exp_gt1 _ Hx) as Hz.
  set (z := exp x) in *. field. repeat split; lra.
Qed.

(* both mixed <= counter flow: with phi(u) = u coth u - 1 >= 0 non-decreasing, the claim is phi((1-c)a) <= phi(a) + phi(ca), a = N/2 *)
Lemma eff_CrFMM_denominator N c : 0 < N -> 0 < c ->
  1 / (1 - exp (- N)) + c / (1 - exp (- N * c)) - 1 / N = (1 + c) / 2 + (kk (N / 2) + kk (N * c / 2) - 1) / N.
Proof.
  intros HN Hc. assert (Hp : 0 < N * c) by (apply Rmult_lt_0_compat; lra).
  replace (- N * c) with (- (N * c)) by ring.
  replace (c / (1 - exp (- (N * c)))) with (c * (1 / (1 - exp (- (N * c))))) by (unfold Rdiv; ring).
  rewrite (inv_one_minus_exp N HN), (inv_one_minus_exp (N * c) Hp), !kk_coth. field. lra.
Qed.

Theorem eff_CrFMM_le_CF N c : 0 < N -> 0 < c <= 1 -> eff_CrFMM N c <= eff_CF N c.
Proof.
  intros HN [Hc0 Hc1]. unfold eff_CrFMM. rewrite (eff_CrFMM_denominator N c HN Hc0).
  assert (Ha : 0 < N / 2) by lra. assert (Hb : 0 < N * c / 2) by nra.
  pose proof (kk_ge1 _ Ha) as Ka. pose proof (kk_ge1 _ Hb) as Kb.
  destruct (Req_dec c 1) as [E1|NE].
  - rewrite (eff_CF_1_form N c E1). set (D := (1 + c) / 2 + (kk (N / 2) + kk (N * c / 2) - 1) / N).
    assert (HD : (1 + N) / N <= D).
    { unfold D. subst c. replace ((1 + N) / N) with ((1 + 1) / 2 + 1 / N) by (field; lra).
      apply Rplus_le_compat_l. unfold Rdiv. apply Rmult_le_compat_r; [left; apply Rinv_0_lt_compat; lra|lra]. }
    assert (HN1 : 0 < (1 + N) / N) by (apply Rdiv_lt_0_compat; lra).
    replace (N / (1 + N)) with (/ ((1 + N) / N)) by (field; lra).
    destruct HD as [HD| <-]; [left; apply Rinv_lt_contravar; [apply Rmult_lt_0_compat; lra|exact HD]|lra].
  - assert (Hc : c < 1) by lra. rewrite (eff_CF_coth N c HN ltac:(lra) Hc).
    assert (Hx1 : 0 < N * (1 - c) / 2) by nra.
    assert (X1 : (1 - c) * Coth_R (N * (1 - c) / 2) = 2 / N * kk (N * (1 - c) / 2)) by (rewrite kk_coth; field; lra).
    rewrite X1. pose proof (kk_ge1 _ Hx1) as K1.
    assert (M : kk (N * (1 - c) / 2) <= kk (N / 2)) by (apply kk_mono; [exact Hx1|nra]).
    set (k1 := kk (N * (1 - c) / 2)) in *. set (ka := kk (N / 2)) in *. set (kb := kk (N * c / 2)) in *.
    assert (HiN : 0 < / N) by (apply Rinv_0_lt_compat; lra).
    assert (L : (1 + c) / 2 + k1 / N <= (1 + c) / 2 + (ka + kb - 1) / N).
    { apply Rplus_le_compat_l. unfold Rdiv. apply Rmult_le_compat_r; lra. }
    assert (P1 : 0 < (1 + c) / 2 + k1 / N). { assert (0 < k1 / N) by (apply Rdiv_lt_0_compat; lra). lra. }
    replace (2 / (1 + c + 2 / N * k1)) with (/ ((1 + c) / 2 + k1 / N)).
    2:{ field. split; [lra|]. assert (0 < k1 / N) by (apply Rdiv_lt_0_compat; lra).
        replace (N * c + N + 2 * k1) with (N * (2 * ((1 + c) / 2 + k1 / N))) by (field; lra). nra. }
    destruct L as [L|L]; [left; apply Rinv_lt_contravar; [apply Rmult_lt_0_compat; lra|exact L]|rewrite L; lra].
Qed.

(* ------------------------------------------------------------------ whole function: any label form, any number of passes *)
(* arrangements whose single-pass formula is compared with counter flow at the same capacity ratio
   (CondEvap ignores c: it equals counter flow at c = 0 and therefore EXCEEDS counter flow at the same c > 0) *)
Definition le_cf_form (a : hx) : bool :=
  match a with hx_CF | hx_PF | hx_CrFMM | hx_CrFMUmax | hx_CrFMUmin | hx_ShellTube => true | _ => false end.

(* dispatch of any arrangement's own label (closed form or not) *)
Lemma own_dispatch a f : eff_dispatch (mk_label a f) <> EB_else /\ Some (eff_dispatch (mk_label a f)) = eff_own a.
Proof.
  destruct (dispatch_total a f) as [H1 _]. split; [|exact H1]. intro K. rewrite K in H1. destruct a; discriminate.
Qed.

Lemma MultiPassEff_mono_le e1 e2 c P : 0 < e1 -> e1 <= e2 -> e2 < 1 -> 0 <= c <= 1 -> 0 < P -> MultiPassEff_R e1 c P <= MultiPassEff_R e2 c P.
Proof. intros H1 [H12| ->] H2 Hc HP; [left; apply MultiPassEff_mono; assumption|lra]. Qed.

Lemma effP_le (E1 E2 : R -> R -> R) N c P :
  (forall n c, 0 < n -> 0 < c <= 1 -> 0 < E1 n c < 1) -> (forall n c, 0 < n -> 0 < c <= 1 -> 0 < E2 n c < 1) ->
  (forall n c, 0 < n -> 0 < c <= 1 -> E1 n c <= E2 n c) ->
  0 < N -> 0 <= c <= 1 -> 0 < P -> effP E1 N c P <= effP E2 N c P.
Proof.
  intros R1 R2 L HN Hc HP. rewrite !effP_eq by assumption. assert (Hn : 0 < N / P) by (apply Rdiv_lt_0_compat; lra).
  pose proof (eff0_range E1 R1 _ c Hn Hc) as Q1. pose proof (eff0_range E2 R2 _ c Hn Hc) as Q2.
  assert (L0 : eff0 E1 (N / P) c <= eff0 E2 (N / P) c).
  { unfold eff0. destruct (Req_dec c 0) as [E0|NE].
    - rewrite (proj2 (Reqb_true c 0) E0). lra.
    - rewrite (proj2 (Reqb_false c 0) NE). apply L; lra. }
  destruct (Rgtb P 1); [apply MultiPassEff_mono_le; lra|exact L0].
Qed.

(* same number of passes on both sides *)
Theorem HX_eff_le_cf a f f' N c P : le_cf_form a = true -> 0 < N -> 0 <= c <= 1 -> 0 < P ->
  HX_Eff_R (mk_label a f) N c P <= HX_Eff_R (mk_label hx_CF f') N c P.
Proof.
  intros H HN Hc HP.
  destruct (own_dispatch a f) as (Hne & He). destruct (own_dispatch hx_CF f') as (Hne' & He').
  rewrite (HX_Eff_R_shape _ _ _ _ Hne), (HX_Eff_R_shape _ _ _ _ Hne'). simpl in He'. injection He' as ->.
  destruct a; try discriminate H; simpl in He; injection He as ->; simpl eff_br; apply effP_le; try assumption; intros;
    try (apply eff_CF_range; lra).
  - lra.
  - split; [apply eff_PF_range|apply eff_PF_lt1]; lra.
  - apply eff_PF_le_CF; lra.
  - apply eff_CrFMM_range; lra.
  - apply eff_CrFMM_le_CF; lra.
  - split; [apply eff_CrFMUmax_range|apply eff_CrFMUmax_lt1]; lra.
  - apply eff_CrFMUmax_le_CF; lra.
  - split; [apply eff_CrFMUmin_range|apply eff_CrFMUmin_lt1]; lra.
  - apply eff_CrFMUmin_le_CF; lra.
  - split; [apply eff_ShellTube_range|apply eff_ShellTube_lt1]; lra.
  - apply eff_ShellTube_le_CF; lra.
Qed.

(* P counter-flow passes in series are one counter-flow exchanger with the total NTU *)
Lemma MultiPass_CF n c P : 0 < n -> 0 <= c <= 1 -> 0 < P -> MultiPassEff_R (eff_CF n c) c P = eff_CF (n * P) c.
Proof.
  intros Hn [Hc0 Hc1] HP. assert (HnP : 0 < n * P) by (apply Rmult_lt_0_compat; lra). unfold MultiPassEff_R.
  destruct (Req_dec c 1) as [E1|NE].
  - rewrite (proj2 (Rneqb_false c 1) E1), !(eff_CF_1_form _ c E1). field. repeat split; nra.
  - rewrite (proj2 (Rneqb_true c 1) NE). assert (Hc : c < 1) by lra.
    rewrite (eff_CF_lt1_form n c Hn Hc0 Hc), (eff_CF_lt1_form (n * P) c HnP Hc0 Hc).
    assert (Hp : 0 < n * (1 - c)) by (apply Rmult_lt_0_compat; lra).
    pose proof (exp_neg_lt1 _ Hp) as HE1. pose proof (exp_pos (- (n * (1 - c)))) as HE0.
    assert (Er : (1 - (1 - exp (- (n * (1 - c)))) / (1 - c * exp (- (n * (1 - c)))) * c) / (1 - (1 - exp (- (n * (1 - c)))) / (1 - c * exp (- (n * (1 - c)))))
                 = exp (n * (1 - c))).
    { replace (n * (1 - c)) with (- - (n * (1 - c))) at 5 by ring. rewrite (exp_Ropp (- (n * (1 - c)))).
      set (E := exp (- (n * (1 - c)))) in *. assert (0 < 1 - c * E) by nra. field. repeat split; try lra. nra. }
    rewrite Er. unfold Rpower. rewrite ln_exp. replace (- (n * P * (1 - c))) with (- (P * (n * (1 - c)))) by ring.
    rewrite exp_Ropp. assert (HQ : 0 < P * (n * (1 - c))) by (apply Rmult_lt_0_compat; lra).
    pose proof (exp_gt1 _ HQ) as Hq. set (q := exp (P * (n * (1 - c)))) in *. field. split; lra.
Qed.

Lemma HX_Eff_CF_passes f N c P : 0 < N -> 0 <= c <= 1 -> 1 <= P -> HX_Eff_R (mk_label hx_CF f) N c P = HX_Eff_R (mk_label hx_CF f) N c 1.
Proof.
  intros HN Hc HP1. destruct (Req_dec c 0) as [E0|NE0]; [subst c; rewrite !HX_Eff_c0 by lra; reflexivity|].
  destruct (closed_dispatch hx_CF f eq_refl) as (Hne & _ & He & _). rewrite !(HX_Eff_R_shape _ _ _ _ Hne). simpl in He. injection He as ->.
  simpl eff_br. rewrite !effP_eq by (try assumption; lra). rewrite (proj2 (Rgtb_false 1 1)) by lra. replace (N / 1) with N by field.
  unfold eff0. rewrite (proj2 (Reqb_false c 0) NE0). destruct (Rgtb P 1) eqn:G.
  - assert (Hn : 0 < N / P) by (apply Rdiv_lt_0_compat; lra). rewrite MultiPass_CF by (try assumption; lra).
    replace (N / P * P) with N by (field; lra). reflexivity.
  - apply Rgtb_false in G. replace P with 1 by lra. replace (N / 1) with N by field. reflexivity.
Qed.

(* what the sweep evaluates: an arrangement with P passes against single-pass counter flow at the same total NTU *)
Theorem HX_eff_le_cf1 a f f' N c P : le_cf_form a = true -> 0 < N -> 0 <= c <= 1 -> 1 <= P ->
  HX_Eff_R (mk_label a f) N c P <= HX_Eff_R (mk_label hx_CF f') N c 1.
Proof.
  intros H HN Hc HP. rewrite <- (HX_Eff_CF_passes f' N c P HN Hc HP). apply HX_eff_le_cf; try assumption. lra.
Qed.

(* CondEvap: single pass, any c: equal to counter flow at c = 0 (whole-function form of eff_CondEvap_cf0) *)
Theorem HX_eff_CondEvap_cf0 f f' N c : 0 < N -> 0 <= c <= 1 ->
  HX_Eff_R (mk_label hx_CondEvap f) N c 1 = HX_Eff_R (mk_label hx_CF f') N 0 1.
Proof.
  intros HN Hc. rewrite (HX_Eff_c0 _ N 1 HN) by lra.
  destruct (closed_dispatch hx_CondEvap f eq_refl) as (Hne & _ & He & _). rewrite (HX_Eff_R_shape _ _ _ _ Hne). simpl in He. injection He as ->.
  simpl eff_br. rewrite effP_eq by (try assumption; lra). rewrite (proj2 (Rgtb_false 1 1)) by lra. replace (N / 1) with N by field.
  unfold eff0, eff_CondEvap. destruct (Reqb c 0); reflexivity.
Qed.

(* range of the both-mixed cross-flow arrangement through the whole function (either label form, any passes) *)
Theorem HX_eff_range_CrFMM f N c P : 0 < N -> 0 <= c <= 1 -> 0 < P -> 0 < HX_Eff_R (mk_label hx_CrFMM f) N c P < 1.
Proof.
  intros HN Hc HP. destruct (own_dispatch hx_CrFMM f) as (Hne & He). rewrite (HX_Eff_R_shape _ _ _ _ Hne). simpl in He. injection He as ->.
  simpl eff_br. apply effP_range; try assumption. intros. apply eff_CrFMM_range; lra.
Qed.

Lemma le_cf_form_spec a : le_cf_form a = true <-> (a <> hx_CrFUU /\ a <> hx_CondEvap).
Proof. destruct a; simpl; split; intro H; try reflexivity; try discriminate H; try (split; discriminate); destruct H as [H1 H2]; congruence. Qed.

(* ------------------------------------------------------------------ CondEvap against counter flow at the SAME c *)
(* the condensing/evaporating formula ignores c, so for c > 0 it lies strictly ABOVE counter flow at that c: the clause
   "never exceeds the counter-flow value" can only be meant against counter flow at c = 0 for this arrangement *)
Lemma tangent_mix_strict c t : 0 < c < 1 -> t <> 0 -> 0 < (1 - c) - exp (- (c * t)) + c * exp (- t).
Proof.
  intros [Hc0 Hc1] Ht. assert (Hct : c * t <> 0) by (apply Rmult_integral_contrapositive_currified; lra).
  pose proof (exp_ineq1 (c * t) Hct) as A. pose proof (exp_ineq1_le (- ((1 - c) * t))) as B. pose proof (exp_pos (- (c * t))) as P.
  assert (E1 : exp (- (c * t)) * exp (c * t) = 1) by (rewrite <- exp_plus; replace (- (c * t) + c * t) with 0 by ring; apply exp_0).
  assert (E2 : exp (- (c * t)) * exp (- ((1 - c) * t)) = exp (- t)) by (rewrite <- exp_plus; f_equal; ring).
  assert (K1 : 0 < (1 - c) * (exp (c * t) - (1 + c * t))) by (apply Rmult_lt_0_compat; lra).
  assert (K2 : 0 <= c * (exp (- ((1 - c) * t)) - (1 + - ((1 - c) * t)))) by (apply Rmult_le_pos; lra).
  assert (K : 0 < exp (- (c * t)) * ((1 - c) * exp (c * t) + c * exp (- ((1 - c) * t)) - 1)) by (apply Rmult_lt_0_compat; lra).
  replace (exp (- (c * t)) * ((1 - c) * exp (c * t) + c * exp (- ((1 - c) * t)) - 1))
    with ((1 - c) * (exp (- (c * t)) * exp (c * t)) + c * (exp (- (c * t)) * exp (- ((1 - c) * t))) - exp (- (c * t))) in K by ring.
  rewrite E1, E2 in K. lra.
Qed.

Theorem eff_CF_lt_CondEvap N c : 0 < N -> 0 < c <= 1 -> eff_CF N c < eff_CondEvap N c.
Proof.
  intros HN [Hc0 Hc1]. unfold eff_CondEvap. destruct (Req_dec c 1) as [E1|NE].
  - rewrite (eff_CF_1_form N c E1). pose proof (exp_ineq1 N ltac:(lra)) as H. pose proof (exp_pos (- N)) as P.
    assert (E : exp (- N) * exp N = 1) by (rewrite <- exp_plus; replace (- N + N) with 0 by ring; apply exp_0).
    apply (Rmult_lt_reg_r (1 + N)); [lra|]. replace (N / (1 + N) * (1 + N)) with N by (field; lra).
    assert (exp (- N) * (1 + N) < exp (- N) * exp N) by (apply Rmult_lt_compat_l; lra). lra.
  - assert (Hc : c < 1) by lra. rewrite (eff_CF_lt1_form N c HN ltac:(lra) Hc).
    pose proof (tangent_mix_strict c N ltac:(lra) ltac:(lra)) as T.
    assert (Hp : 0 < N * (1 - c)) by (apply Rmult_lt_0_compat; lra).
    pose proof (exp_neg_lt1 _ Hp) as HE1. pose proof (exp_pos (- (N * (1 - c)))) as HE0.
    assert (Eb : exp (- N) = exp (- (c * N)) * exp (- (N * (1 - c)))) by (rewrite <- exp_plus; f_equal; ring).
    set (a := exp (- (c * N))) in *. set (E := exp (- (N * (1 - c)))) in *. rewrite Eb in *.
    assert (Hd : 0 < 1 - c * E) by nra.
    apply (Rmult_lt_reg_r (1 - c * E)); [exact Hd|]. replace ((1 - E) / (1 - c * E) * (1 - c * E)) with (1 - E) by (field; lra).
    assert (0 < E * (1 - c - a + c * (a * E))) by (apply Rmult_lt_0_compat; lra). nra.
Qed.

Theorem eff_le_cf_CondEvap_same_c_refuted : ~ (forall N c, 0 < N -> 0 <= c <= 1 -> eff_CondEvap N c <= eff_CF N c).
Proof. intro H. specialize (H 1 1 ltac:(lra) ltac:(lra)). pose proof (eff_CF_lt_CondEvap 1 1 ltac:(lra) ltac:(lra)). lra. Qed.
