(* C07: the pocket-free curve (zipper form, hence the code's sweep) equals the independent specification
   spec_np -- running minimum of the INPUT curve towards the far end of the side, zero between the pinches --
   at EVERY temperature of the table's range. *)
From OP Require Import gen.Consts model.Base model.Pockets proofs.BaseFacts proofs.PocketsPL proofs.PocketsZ
  proofs.PocketsFuel proofs.PocketsSim proofs.PocketsPinch proofs.PocketsTop.
From Coq Require Import Lia Lqa.
Local Open Scope Q_scope.

(* ---------- more about plw ---------- *)
Lemma plw_all_zero d (pts : list pt) x : Forall (fun p => snd p == 0) pts -> plw d pts x == 0.
Proof.
  induction pts as [|a l IH]; intros H; [reflexivity|]. inversion H as [|? ? Ha Hl]; subst.
  destruct l as [|b l]; [exact Ha|]. rewrite plw_cons2. inversion Hl as [|? ? Hb _]; subst.
  destruct (sle d (fst a) x); [exact Ha|]. destruct (sle d (fst b) x); [|apply IH; exact Hl].
  unfold seg. rewrite Ha, Hb. unfold Qdiv. ring.
Qed.
Lemma plw_nonneg d (pts : list pt) x : Forall (fun p => 0 <= snd p) pts -> 0 <= plw d pts x.
Proof.
  induction pts as [|a l IH]; intros H; [simpl; lra|]. inversion H as [|? ? Ha Hl]; subst.
  destruct l as [|b l]; [exact Ha|]. rewrite plw_cons2. inversion Hl as [|? ? Hb _]; subst.
  destruct (sle d (fst a) x) eqn:E1; [exact Ha|]. destruct (sle d (fst b) x) eqn:E2; [|apply IH; exact Hl].
  apply sle_false in E1. apply sle_true in E2.
  apply seg_ge; [destruct d; simpl in *; lra|destruct d; simpl in *; lra|exact Ha|exact Hb].
Qed.
Lemma mono_same_fst d tq : forall (l1 l2 : list pt), map fst l1 = map fst l2 -> mono d tq l1 -> mono d tq l2.
Proof.
  induction l1 as [|a l1 IH]; intros [|a2 l2] E H; simpl in E; try discriminate; [exact I|].
  inversion E as [[E1 E2]]. destruct l1 as [|b l1]; destruct l2 as [|b2 l2]; simpl in E2; try discriminate; [exact I|].
  inversion E2 as [[E3 E4]]. destruct H as [G H]. split.
  - unfold sgap in *. rewrite <- E1, <- E3. exact G.
  - apply (IH (b2 :: l2)); [simpl; rewrite E3, E4; reflexivity|exact H].
Qed.
Lemma mono_weaken d tq (l : list pt) : 0 <= tq -> mono d tq l -> mono d 0 l.
Proof.
  intros Ht. induction l as [|a l IH]; intros H; [exact I|]. destruct l as [|b l]; [exact I|].
  destruct H as [G H]. split; [destruct d; simpl in *; lra|apply IH; exact H].
Qed.
Lemma plw_at_point d tq l1 (a : pt) l2 : 0 <= tq -> mono d tq (l1 ++ a :: l2) -> plw d (l1 ++ a :: l2) (fst a) == snd a.
Proof.
  intros Ht Hm. rewrite (plw_app_l d tq l1 a l2 (fst a) Ht Hm) by (destruct d; simpl; lra).
  rewrite (plw_last d (l1 ++ [a]) a (fst a)).
  - rewrite last_last. reflexivity.
  - destruct l1; discriminate.
  - rewrite last_last. reflexivity.
  - apply (mono_weaken d tq); [exact Ht|]. apply mono_app_l with (l2 := l2). rewrite <- app_assoc. exact Hm.
Qed.

Lemma combine_fst (Ts Hs : list Q) : List.length Ts = List.length Hs -> map fst (combine Ts Hs) = Ts.
Proof. revert Hs. induction Ts as [|a ts IH]; intros [|h hs] E; simpl in *; try lia; [reflexivity|]. f_equal. apply IH. lia. Qed.
Lemma combine_snd (Ts Hs : list Q) : List.length Ts = List.length Hs -> map snd (combine Ts Hs) = Hs.
Proof. revert Hs. induction Ts as [|a ts IH]; intros [|h hs] E; simpl in *; try lia; [reflexivity|]. f_equal. apply IH. lia. Qed.
Lemma gcc_at_plw Ts Hs x : List.length Ts = List.length Hs -> gcc_at Ts Hs x == plw true (combine Ts Hs) x.
Proof. intros E. unfold gcc_at. rewrite plw_pl_desc, combine_fst, combine_snd by exact E. reflexivity. Qed.

(* ---------- the specification near a zero row ---------- *)
Lemma qmin_list_nonneg dflt l : 0 <= dflt -> Forall (fun z => 0 <= z) l -> 0 <= qmin_list dflt l.
Proof. intros Hd. induction 1 as [|z l Hz _ IH]; [exact Hd|]. change (qmin_list dflt (z :: l)) with (Qmin z (qmin_list dflt l)). qmin. Qed.
Lemma qmin_list_zero dflt l : 0 <= dflt -> Forall (fun z => 0 <= z) l -> Exists (fun z => z == 0) l -> qmin_list dflt l == 0.
Proof.
  intros Hd Hall Hex. induction Hex as [z l Hz|z l _ IH]; inversion Hall as [|? ? H1 H2]; subst;
    change (qmin_list dflt (z :: l)) with (Qmin z (qmin_list dflt l)).
  - pose proof (qmin_list_nonneg dflt l Hd H2) as Hn. qmin.
  - specialize (IH H2). qmin.
Qed.
Lemma vals_where_in f Ts Hs z : In z (vals_where f Ts Hs) -> In z Hs.
Proof.
  unfold vals_where. intros H. apply in_map_iff in H. destruct H as [[t h] [E Hin]]. simpl in E. subst.
  apply filter_In in Hin. destruct Hin as [Hin _]. eapply in_combine_r. exact Hin.
Qed.
Lemma runmin_above_nonneg Ts Hs x : List.length Ts = List.length Hs -> Forall (fun h => 0 <= h) Hs -> 0 <= runmin_above Ts Hs x.
Proof.
  intros E H. unfold runmin_above. apply qmin_list_nonneg.
  - rewrite gcc_at_plw by exact E. apply plw_nonneg. rewrite Forall_forall in *. intros [t h] Hin. simpl. apply H. eapply in_combine_r. exact Hin.
  - rewrite Forall_forall in *. intros z Hz. apply H. eapply vals_where_in. exact Hz.
Qed.
Lemma runmin_below_nonneg Ts Hs x : List.length Ts = List.length Hs -> Forall (fun h => 0 <= h) Hs -> 0 <= runmin_below Ts Hs x.
Proof.
  intros E H. unfold runmin_below. apply qmin_list_nonneg.
  - rewrite gcc_at_plw by exact E. apply plw_nonneg. rewrite Forall_forall in *. intros [t h] Hin. simpl. apply H. eapply in_combine_r. exact Hin.
  - rewrite Forall_forall in *. intros z Hz. apply H. eapply vals_where_in. exact Hz.
Qed.
Lemma runmin_above_zero Ts Hs x t h : List.length Ts = List.length Hs -> Forall (fun h => 0 <= h) Hs ->
  In (t, h) (combine Ts Hs) -> x <= t -> h == 0 -> runmin_above Ts Hs x == 0.
Proof.
  intros E H Hin Hx Hh. unfold runmin_above. apply qmin_list_zero.
  - rewrite gcc_at_plw by exact E. apply plw_nonneg. rewrite Forall_forall in *. intros [t' h'] Hin'. simpl. apply H. eapply in_combine_r. exact Hin'.
  - rewrite Forall_forall in *. intros z Hz. apply H. eapply vals_where_in. exact Hz.
  - apply Exists_exists. exists h. split; [|exact Hh]. unfold vals_where. apply in_map_iff. exists (t, h). split; [reflexivity|].
    apply filter_In. split; [exact Hin|]. simpl. apply qleb_true. exact Hx.
Qed.
Lemma runmin_below_zero Ts Hs x t h : List.length Ts = List.length Hs -> Forall (fun h => 0 <= h) Hs ->
  In (t, h) (combine Ts Hs) -> t <= x -> h == 0 -> runmin_below Ts Hs x == 0.
Proof.
  intros E H Hin Hx Hh. unfold runmin_below. apply qmin_list_zero.
  - rewrite gcc_at_plw by exact E. apply plw_nonneg. rewrite Forall_forall in *. intros [t' h'] Hin'. simpl. apply H. eapply in_combine_r. exact Hin'.
  - rewrite Forall_forall in *. intros z Hz. apply H. eapply vals_where_in. exact Hz.
  - apply Exists_exists. exists h. split; [|exact Hh]. unfold vals_where. apply in_map_iff. exists (t, h). split; [reflexivity|].
    apply filter_In. split; [exact Hin|]. simpl. apply qleb_true. exact Hx.
Qed.

Lemma vals_w_app d x (A B : list pt) : vals_w d x (A ++ B) = vals_w d x A ++ vals_w d x B.
Proof. unfold vals_w. rewrite filter_app, map_app. reflexivity. Qed.
Lemma map_ptN_ptH (l : list row) : Forall (fun r => rNP r = rH r) l -> map ptN l = map ptH l.
Proof. induction 1 as [|r l E _ IH]; [reflexivity|]. simpl. rewrite IH. unfold ptN, ptH. rewrite E. reflexivity. Qed.
Lemma map_fst_ptN (l : list row) : map fst (map ptN l) = map rT l.
Proof. rewrite map_map. reflexivity. Qed.
Lemma map_fst_ptH (l : list row) : map fst (map ptH l) = map rT l.
Proof. rewrite map_map. reflexivity. Qed.
Lemma map_snd_ptN (l : list row) : map snd (map ptN l) = map rNP l.
Proof. rewrite map_map. reflexivity. Qed.
Lemma mono_ptN d tq (l : list row) : mono d tq (map ptH l) -> mono d tq (map ptN l).
Proof. apply mono_same_fst. rewrite map_fst_ptN, map_fst_ptH. reflexivity. Qed.

Section Everywhere.
Variables (tq : Q) (Ts Hs : list Q).
Hypothesis Ht : 0 < tq.
Hypothesis Hlen : List.length Ts = List.length Hs.
Let t0 := init_rows Ts Hs.
Hypothesis R : RobustP tq Hs t0.
Variables hp cp : nat.
Hypothesis PF : PinchFacts tq (map rH t0) hp cp.

Let above := firstn (S hp) t0.
Let below := skipn cp t0.
Let ph := nth hp t0 r0.
Let pc := nth cp t0 r0.

Lemma ev_len : (cp < List.length t0)%nat /\ (hp <= cp)%nat.
Proof. destruct PF. rewrite map_length in *. split; assumption. Qed.
Lemma ev_nonneg : Forall (fun h => 0 <= h) Hs.
Proof.
  pose proof (rp_zero tq Hs t0 R) as Hz. rewrite Forall_forall in *. intros h Hh.
  assert (EH : map rH t0 = Hs) by (apply init_rows_rH; exact Hlen).
  rewrite <- EH in Hh. apply in_map_iff in Hh. destruct Hh as [r [E Hr]]. subst h. destruct (Hz r Hr); lra.
Qed.
Lemma ev_combine : combine Ts Hs = map ptH t0.
Proof. symmetry. apply init_rows_ptH. Qed.
Lemma ev_row_zero j : (j < List.length t0)%nat -> isz tq (nth j (map rH t0) 0) = true -> rH (nth j t0 r0) == 0.
Proof.
  intros Hj Hi. rewrite nth_map_rH in Hi. pose proof (rp_zero tq Hs t0 R) as Hz. rewrite Forall_forall in Hz.
  apply (zero_cases tq Ht _ (Hz _ (nth_In t0 r0 Hj))). exact Hi.
Qed.
Lemma ev_row_in j : (j < List.length t0)%nat -> In (rT (nth j t0 r0), rH (nth j t0 r0)) (combine Ts Hs).
Proof. intros Hj. rewrite ev_combine. apply (in_map ptH). apply nth_In. exact Hj. Qed.
Lemma ev_ph_zero : rH ph == 0.
Proof. destruct ev_len. apply ev_row_zero; [lia|apply (pf_hp _ _ _ _ PF)]. Qed.
Lemma ev_pc_zero : rH pc == 0.
Proof. destruct ev_len. apply ev_row_zero; [lia|apply (pf_cp _ _ _ _ PF)]. Qed.

(* zero rows at or beyond x make the running minimum vanish *)
Lemma ev_above_zero_via j x : (j < List.length t0)%nat -> isz tq (nth j (map rH t0) 0) = true -> x <= rT (nth j t0 r0) -> runmin_above Ts Hs x == 0.
Proof. intros Hj Hi Hx. eapply runmin_above_zero; [exact Hlen|exact ev_nonneg|apply (ev_row_in j Hj)|exact Hx|apply ev_row_zero; assumption]. Qed.
Lemma ev_below_zero_via j x : (j < List.length t0)%nat -> isz tq (nth j (map rH t0) 0) = true -> rT (nth j t0 r0) <= x -> runmin_below Ts Hs x == 0.
Proof. intros Hj Hi Hx. eapply runmin_below_zero; [exact Hlen|exact ev_nonneg|apply (ev_row_in j Hj)|exact Hx|apply ev_row_zero; assumption]. Qed.

(* ---------- the side above the pinch ---------- *)
Lemma ev_above_split : t0 = above ++ skipn (S hp) t0 /\ above = firstn hp t0 ++ [ph].
Proof.
  destruct ev_len. split; [symmetry; apply firstn_skipn|]. unfold above, ph. apply firstn_S_snoc. lia.
Qed.

Lemma ev_up_value c0 mu x : above = c0 :: mu -> rT ph <= x -> x <= rT c0 ->
  plw true (map ptN (zside tq (mk_up tq) above)) x == (if qltb (rH c0) tq then 0 else runmin_above Ts Hs x).
Proof.
  intros Eab Hx1 Hx2. destruct ev_len as [Hl1 Hl2]. destruct ev_above_split as [E0 E1].
  assert (Rab : RobustP tq Hs above) by (apply (RobustP_app_l tq Hs _ (skipn (S hp) t0)); rewrite <- E0; exact R).
  assert (Hc0 : c0 = nth 0 t0 r0).
  { unfold above in Eab. destruct t0 as [|y t0']; [simpl in Hl1; lia|]. simpl in Eab. inversion Eab. reflexivity. }
  rewrite Eab. unfold zside. destruct (qltb (rH c0) tq) eqn:Eq.
  - (* no heating required: rows 0..hp are all zero *)
    rewrite <- Eab. rewrite (map_ptN_ptH above (rp_np tq Hs above Rab)). apply plw_all_zero.
    rewrite Forall_map. unfold above. apply (Forall_firstn_nth _ t0 (S hp) r0). intros j Hj Hjl. simpl.
    apply ev_row_zero; [exact Hjl|]. apply (pf_lead _ _ _ _ PF); [|lia].
    rewrite nth_map_rH, <- Hc0.
    assert (Hd : rH c0 == 0 \/ tq < rH c0).
    { pose proof (rp_zero tq Hs t0 R) as Hz. rewrite Forall_forall in Hz. apply Hz. rewrite Hc0. apply nth_In. lia. }
    destruct (zero_cases tq Ht (rH c0) Hd) as [[Z1 _] [_ Z2]]. apply Z2. apply Z1. exact Eq.
  - (* the sweep: running minimum of the side = running minimum of the whole curve *)
    assert (Pre : SidePre true tq Hs c0 mu) by (apply SidePre_up; rewrite <- Eab; exact Rab).
    assert (Hlast : fst (last (map ptH (c0 :: mu)) (ptH c0)) = rT ph).
    { rewrite <- Eab, E1, map_app. simpl map. rewrite last_last. reflexivity. }
    assert (Hr : in_range true (map ptH (c0 :: mu)) x).
    { split; [exact Hx2|]. rewrite Hlast. exact Hx1. }
    rewrite (zsweep_np true tq (mk_up tq) Ht (mk_up_spec tq ltac:(lra)) Hs (List.length mu) c0 mu (le_n _) Pre x Hr).
    assert (Hm : mono true tq (map ptH (c0 :: mu))) by apply Pre.
    change (rH c0) with (snd (ptH c0)). change (map ptH (c0 :: mu)) with (ptH c0 :: map ptH mu) in *.
    rewrite (rmw_runmin true tq (ptH c0) (map ptH mu) x ltac:(lra) Hm Hr).
    change (ptH c0 :: map ptH mu) with (map ptH (c0 :: mu)). rewrite <- Eab.
    unfold runmin_above.
    assert (Ev : vals_where (fun t => qleb x t) Ts Hs = vals_w true x (map ptH above)).
    { change (vals_where (fun t => qleb x t) Ts Hs) with (vals_w true x (combine Ts Hs)).
      rewrite ev_combine. rewrite E0 at 1. rewrite map_app, vals_w_app.
      assert (En : vals_w true x (map ptH (skipn (S hp) t0)) = []).
      { unfold vals_w. rewrite filter_none; [reflexivity|].
        pose proof (rp_desc tq Hs t0 R) as Htd. unfold Tdesc in Htd. rewrite E0, E1 in Htd.
        rewrite <- app_assoc in Htd. rewrite map_app in Htd. apply mono_app_r in Htd. simpl app in Htd. rewrite map_cons in Htd.
        apply mono_head in Htd; [|lra]. eapply Forall_impl; [|exact Htd]. intros p Hp. cbn [sltP ptH fst] in Hp.
        cbn [sle]. apply qleb_false. lra. }
      rewrite En, app_nil_r. reflexivity. }
    rewrite Ev. apply qmin_list_dflt_eq.
    rewrite gcc_at_plw by exact Hlen. rewrite ev_combine.
    assert (Et : map ptH t0 = map ptH (firstn hp t0) ++ ptH ph :: map ptH (skipn (S hp) t0)).
    { transitivity (map ptH (above ++ skipn (S hp) t0)); [f_equal; exact E0|]. rewrite E1, !map_app. simpl map. list_eq. }
    rewrite Et.
    rewrite (plw_app_l true tq (map ptH (firstn hp t0)) (ptH ph) (map ptH (skipn (S hp) t0)) x); [| lra | | exact Hx1].
    + rewrite E1, map_app. reflexivity.
    + rewrite <- Et. apply (rp_desc tq Hs t0 R).
Qed.

(* ---------- the side below the pinch ---------- *)
Lemma ev_below_split : t0 = firstn cp t0 ++ below /\ below = pc :: skipn (S cp) t0.
Proof. destruct ev_len. split; [symmetry; apply firstn_skipn|]. unfold below, pc. apply skipn_nth_cons. lia. Qed.

Lemma last_map {A B} (f : A -> B) (l : list A) d : last (map f l) (f d) = f (last l d).
Proof. induction l as [|a l IH]; [reflexivity|]. destruct l as [|b l]; [reflexivity|]. simpl map in *. rewrite !last_cons2. exact IH. Qed.

Lemma ev_dn_value cl md x : rev below = cl :: md -> rT cl <= x -> x <= rT pc ->
  plw true (map ptN (rev (zside tq (mk_dn tq) (rev below)))) x == (if qltb (rH cl) tq then 0 else runmin_below Ts Hs x).
Proof.
  intros Er Hx1 Hx2. destruct ev_len as [Hl1 Hl2]. destruct ev_below_split as [E0 E1].
  assert (Rb : RobustP tq Hs below) by (apply (RobustP_app_r tq Hs (firstn cp t0)); rewrite <- E0; exact R).
  assert (Eb : below = rev md ++ [cl]) by (rewrite <- (rev_involutive below), Er; reflexivity).
  assert (Hlastb : last below r0 = cl) by (rewrite Eb; apply last_last).
  assert (Hcl : cl = nth (List.length t0 - 1) t0 r0).
  { rewrite <- Hlastb. rewrite <- (last_nth_len t0 r0) by (intro Z; rewrite Z in Hl1; simpl in Hl1; lia).
    transitivity (last (firstn cp t0 ++ below) r0); [symmetry; apply last_app_ne; rewrite E1; discriminate|]. f_equal. symmetry. exact E0. }
  assert (Hlastrev : last (cl :: md) cl = pc).
  { rewrite <- Er, E1. cbn [rev]. apply last_last. }
  rewrite Er. unfold zside. destruct (qltb (rH cl) tq) eqn:Eq.
  - (* no cooling required: rows cp..n-1 are all zero *)
    rewrite <- Er, rev_involutive. rewrite (map_ptN_ptH below (rp_np tq Hs below Rb)). apply plw_all_zero.
    rewrite Forall_map. unfold below. apply (Forall_skipn_nth _ t0 cp r0). intros j Hj Hjl. simpl.
    apply ev_row_zero; [exact Hjl|]. apply (pf_trail _ _ _ _ PF); [|rewrite map_length; lia].
    rewrite map_length, nth_map_rH, <- Hcl.
    assert (Hd : rH cl == 0 \/ tq < rH cl).
    { pose proof (rp_zero tq Hs t0 R) as Hz. rewrite Forall_forall in Hz. apply Hz. rewrite Hcl. apply nth_In. lia. }
    destruct (zero_cases tq Ht (rH cl) Hd) as [[Z1 _] [_ Z2]]. apply Z2. apply Z1. exact Eq.
  - assert (Pre : SidePre false tq Hs cl md) by (eapply SidePre_dn; [exact Rb|exact Er]).
    set (S := cl :: zsweep tq (mk_dn tq) (List.length md) cl md).
    assert (HmS : mono false tq (map ptN S)).
    { apply mono_ptN. apply (zsweep_mono false tq (mk_dn tq) Ht (mk_dn_spec tq ltac:(lra)) Hs (List.length md) cl md (le_n _) Pre). }
    assert (HlS : fst (last (map ptN S) (ptN cl)) = rT pc).
    { rewrite (last_map ptN S cl). unfold S. cbn [fst ptN].
      rewrite (zsweep_lastT tq (mk_dn tq) (List.length md) cl md (le_n _)). rewrite Hlastrev. reflexivity. }
    assert (HrS : in_range false (map ptN S) x).
    { unfold S at 1. cbn [map in_range]. split; [cbn [sleP ptN fst]; exact Hx1|].
      change (ptN cl :: map ptN (zsweep tq (mk_dn tq) (List.length md) cl md)) with (map ptN S). rewrite HlS. cbn [sleP]. exact Hx2. }
    rewrite map_rev. rewrite (plw_rev false tq (map ptN S) x ltac:(lra) HmS HrS).
    assert (HlH : fst (last (map ptH (cl :: md)) (ptH cl)) = rT pc) by (rewrite (last_map ptH (cl :: md) cl), Hlastrev; reflexivity).
    assert (HrH : in_range false (map ptH (cl :: md)) x).
    { cbn [map in_range]. split; [cbn [sleP ptH fst]; exact Hx1|].
      change (ptH cl :: map ptH md) with (map ptH (cl :: md)). rewrite HlH. cbn [sleP]. exact Hx2. }
    unfold S. rewrite (zsweep_np false tq (mk_dn tq) Ht (mk_dn_spec tq ltac:(lra)) Hs (List.length md) cl md (le_n _) Pre x HrH).
    assert (Hm : mono false tq (map ptH (cl :: md))) by apply Pre.
    change (rH cl) with (snd (ptH cl)). change (map ptH (cl :: md)) with (ptH cl :: map ptH md) in *.
    rewrite (rmw_runmin false tq (ptH cl) (map ptH md) x ltac:(lra) Hm HrH).
    change (ptH cl :: map ptH md) with (map ptH (cl :: md)) in *. rewrite <- Er in *. rewrite map_rev in *.
    (* the points of the side, in table order, are a suffix of the input curve *)
    assert (Htd : mono true tq (map ptH t0)) by apply (rp_desc tq Hs t0 R).
    assert (Et : map ptH t0 = map ptH (firstn cp t0) ++ ptH pc :: map ptH (skipn (Datatypes.S cp) t0)).
    { transitivity (map ptH (firstn cp t0 ++ below)); [f_equal; exact E0|]. rewrite E1, map_app. reflexivity. }
    assert (Hmb : mono true tq (map ptH below)) by apply (rp_desc tq Hs below Rb).
    assert (Hrb : in_range true (map ptH below) x).
    { rewrite E1. cbn [map in_range]. split; [cbn [sleP ptH fst]; exact Hx2|].
      change (ptH pc :: map ptH (skipn (Datatypes.S cp) t0)) with (map ptH (pc :: skipn (Datatypes.S cp) t0)). rewrite <- E1.
      rewrite (last_dflt (map ptH below) (ptH pc) (ptH r0)) by (rewrite E1; discriminate).
      rewrite (last_map ptH below r0), Hlastb. cbn [sleP ptH fst]. exact Hx1. }
    unfold runmin_below.
    assert (Ev : vals_where (fun t => qleb t x) Ts Hs = vals_w false x (map ptH below)).
    { change (vals_where (fun t => qleb t x) Ts Hs) with (vals_w false x (combine Ts Hs)).
      rewrite ev_combine. transitivity (vals_w false x (map ptH (firstn cp t0 ++ below))); [do 2 f_equal; exact E0|].
      rewrite map_app, vals_w_app.
      assert (En : vals_w false x (map ptH (firstn cp t0)) = []).
      { unfold vals_w. rewrite filter_none; [reflexivity|].
        pose proof (mono_rev true tq _ Htd) as Hr. rewrite Et in Hr. rewrite rev_app_distr in Hr. cbn [rev] in Hr.
        rewrite <- app_assoc in Hr. apply mono_app_r in Hr. cbn [app negb] in Hr.
        apply mono_head in Hr; [|lra]. rewrite Forall_forall in *. intros p Hp. specialize (Hr p ltac:(apply in_rev; rewrite rev_involutive; exact Hp)).
        cbn [sltP ptH fst] in Hr. cbn [sle]. apply qleb_false. lra. }
      rewrite En. reflexivity. }
    rewrite Ev. unfold vals_w at 1. rewrite filter_rev', map_rev, qmin_list_rev.
    apply qmin_list_dflt_eq.
    rewrite (plw_rev true tq (map ptH below) x ltac:(lra) Hmb Hrb).
    rewrite gcc_at_plw by exact Hlen. rewrite ev_combine, Et.
    rewrite (plw_app_r true tq (map ptH (firstn cp t0)) (ptH pc) (map ptH (skipn (Datatypes.S cp) t0)) x ltac:(lra)); [|rewrite <- Et; exact Htd|exact Hx2].
    rewrite E1. reflexivity.
Qed.
End Everywhere.

(* ---------- zero rows named by the specification ---------- *)
Lemma zero_Ts_in tq Ts Hs t : In t (zero_Ts tq Ts Hs) -> exists h, In (t, h) (combine Ts Hs) /\ isz tq h = true.
Proof.
  unfold zero_Ts. intros H. apply in_map_iff in H. destruct H as [[t' h] [E Hin]]. simpl in E. subst t'.
  apply filter_In in Hin. destruct Hin as [Hin Hz]. exists h. split; assumption.
Qed.
Lemma zero_Ts_nonempty tq Ts Hs : List.length Ts = List.length Hs -> existsb (isz tq) Hs = true -> zero_Ts tq Ts Hs <> [].
Proof.
  intros E H. apply existsb_exists in H. destruct H as [h [Hin Hz]].
  rewrite <- (combine_snd Ts Hs E) in Hin. apply in_map_iff in Hin. destruct Hin as [[t h'] [E2 Hin]]. simpl in E2. subst h'.
  intro Z. unfold zero_Ts in Z. apply map_eq_nil in Z.
  assert (Hf : In (t, h) (filter (fun p => isz tq (snd p)) (combine Ts Hs))) by (apply filter_In; split; assumption).
  rewrite Z in Hf. destruct Hf.
Qed.

Section Final.
Variables (tq : Q) (Ts Hs : list Q).
Hypothesis Ht : 0 < tq.
Hypothesis Hlen : List.length Ts = List.length Hs.
Hypothesis Hpos : (0 < List.length Ts)%nat.
Let t0 := init_rows Ts Hs.
Hypothesis R : RobustP tq Hs t0.
Hypothesis Hhas : existsb (isz tq) Hs = true.

Lemma fin_dich h : In h Hs -> h == 0 \/ tq < h.
Proof.
  intros Hh. pose proof (rp_zero tq Hs t0 R) as Hz. rewrite Forall_forall in Hz.
  assert (EH : map rH t0 = Hs) by (apply init_rows_rH; exact Hlen).
  rewrite <- EH in Hh. apply in_map_iff in Hh. destruct Hh as [r [E Hr]]. subst h. apply Hz. exact Hr.
Qed.
Lemma fin_above0 x t : In t (zero_Ts tq Ts Hs) -> x <= t -> runmin_above Ts Hs x == 0.
Proof.
  intros Hin Hx. destruct (zero_Ts_in tq Ts Hs t Hin) as [h [H1 H2]].
  eapply runmin_above_zero; [exact Hlen|apply (ev_nonneg tq Ts Hs Ht Hlen R)|exact H1|exact Hx|].
  apply (zero_cases tq Ht h (fin_dich h (in_combine_r _ _ _ _ H1))). exact H2.
Qed.
Lemma fin_below0 x t : In t (zero_Ts tq Ts Hs) -> t <= x -> runmin_below Ts Hs x == 0.
Proof.
  intros Hin Hx. destruct (zero_Ts_in tq Ts Hs t Hin) as [h [H1 H2]].
  eapply runmin_below_zero; [exact Hlen|apply (ev_nonneg tq Ts Hs Ht Hlen R)|exact H1|exact Hx|].
  apply (zero_cases tq Ht h (fin_dich h (in_combine_r _ _ _ _ H1))). exact H2.
Qed.
Lemma fin_row_zero_T j : (j < List.length t0)%nat -> isz tq (nth j (map rH t0) 0) = true -> In (rT (nth j t0 r0)) (zero_Ts tq Ts Hs).
Proof.
  intros Hj Hi. unfold zero_Ts. apply in_map_iff. exists (rT (nth j t0 r0), rH (nth j t0 r0)). split; [reflexivity|].
  apply filter_In. split; [apply (ev_row_in Ts Hs j Hj)|]. simpl. rewrite <- nth_map_rH. exact Hi.
Qed.

(* the specification is 0 wherever a zero row lies on either side of x *)
Lemma fin_spec_mid x ta tb : In ta (zero_Ts tq Ts Hs) -> In tb (zero_Ts tq Ts Hs) -> tb <= x -> x <= ta -> spec_np tq Ts Hs x == 0.
Proof.
  intros Ha Hb H1 H2. unfold spec_np. destruct (zero_Ts tq Ts Hs) as [|th zr] eqn:Ez; [destruct Ha|].
  destruct (qleb th x); [apply (fin_above0 x ta); [rewrite Ez; exact Ha|exact H2]|].
  destruct (qleb x (last zr th)); [apply (fin_below0 x tb); [rewrite Ez; exact Hb|exact H1]|reflexivity].
Qed.
(* on the hot side it is the running minimum from the top, or 0 *)
Lemma fin_spec_hot x tb : In tb (zero_Ts tq Ts Hs) -> tb <= x ->
  spec_np tq Ts Hs x == runmin_above Ts Hs x.
Proof.
  intros Hb H1. unfold spec_np. destruct (zero_Ts tq Ts Hs) as [|th zr] eqn:Ez; [destruct Hb|].
  destruct (qleb th x) eqn:E1; [reflexivity|]. apply qleb_false in E1.
  assert (Hth : In th (zero_Ts tq Ts Hs)) by (rewrite Ez; left; reflexivity).
  rewrite (fin_above0 x th Hth) by lra.
  destruct (qleb x (last zr th)); [apply (fin_below0 x tb); [rewrite Ez; exact Hb|exact H1]|reflexivity].
Qed.
Lemma fin_spec_cold x ta : In ta (zero_Ts tq Ts Hs) -> x <= ta ->
  spec_np tq Ts Hs x == runmin_below Ts Hs x.
Proof.
  intros Ha H2. unfold spec_np. destruct (zero_Ts tq Ts Hs) as [|th zr] eqn:Ez; [destruct Ha|].
  assert (Hth : In th (zero_Ts tq Ts Hs)) by (rewrite Ez; left; reflexivity).
  assert (Htc : In (last zr th) (zero_Ts tq Ts Hs)).
  { rewrite Ez. destruct zr as [|z zr']; [left; reflexivity|]. right. apply last_in. discriminate. }
  destruct (qleb th x) eqn:E1.
  - apply qleb_true in E1. rewrite (fin_above0 x ta) by (rewrite ?Ez; assumption).
    symmetry. apply (fin_below0 x th Hth E1).
  - destruct (qleb x (last zr th)) eqn:E2; [reflexivity|]. apply qleb_false in E2.
    symmetry. apply (fin_below0 x (last zr th) Htc). lra.
Qed.
End Final.

(* ---------- ends of the table ---------- *)
Lemma init_rows_T0 Ts Hs : List.length Ts = List.length Hs -> rT (nth 0 (init_rows Ts Hs) r0) = hd 0 Ts.
Proof.
  intros E. pose proof (init_rows_rT Ts Hs E) as H. set (t := init_rows Ts Hs) in *. rewrite <- H. destruct t; reflexivity.
Qed.
Lemma init_rows_Tlast Ts Hs : List.length Ts = List.length Hs -> (0 < List.length Ts)%nat ->
  rT (nth (List.length (init_rows Ts Hs) - 1) (init_rows Ts Hs) r0) = last Ts 0.
Proof.
  intros E Hp. pose proof (init_rows_rT Ts Hs E) as H. pose proof (init_rows_length Ts Hs E) as Hl.
  set (t := init_rows Ts Hs) in *. rewrite <- H.
  rewrite <- (last_nth_len t r0) by (intro Z; rewrite Z in Hl; simpl in Hl; lia).
  change 0 with (rT r0). rewrite (last_map rT). reflexivity.
Qed.

Lemma pl_desc_ext x : forall xs ys ys', Forall2 Qeq ys ys' -> pl_desc xs ys x == pl_desc xs ys' x.
Proof.
  induction xs as [|x0 xs IH]; intros ys ys' H.
  - destruct H; reflexivity.
  - destruct H as [|y0 y0' ys ys' E0 H]; [destruct xs; reflexivity|].
    destruct xs as [|x1 xs].
    + destruct H; [exact E0|reflexivity].
    + destruct H as [|y1 y1' ys ys' E1 H]; [reflexivity|].
      rewrite !pl_desc_cons2. destruct (qleb x0 x); [exact E0|]. destruct (qleb x1 x).
      * rewrite !Qred_correct. rewrite E0, E1. reflexivity.
      * apply IH. constructor; assumption.
Qed.

Lemma rows_eqv_rT a b : rows_eqv a b -> map rT a = map rT b.
Proof. induction 1 as [|x y a b [E1 _] _ IH]; [reflexivity|]. simpl. rewrite IH, E1. reflexivity. Qed.
Lemma rows_eqv_rNP a b : rows_eqv a b -> Forall2 Qeq (map rNP a) (map rNP b).
Proof. induction 1 as [|x y a b [_ [_ E]] _ IH]; [constructor|]. simpl. constructor; assumption. Qed.

(* THE POCKET-FREE CURVE IS THE SPECIFICATION AT EVERY TEMPERATURE (zipper form) *)
Theorem np_everywhere_z tq Ts Hs : 0 < tq -> robust_b tq Ts Hs = true -> has_pinch tq Hs = true ->
  forall x, last Ts 0 <= x <= hd 0 Ts -> plw true (map ptN (gcc_np_z tq Ts Hs)) x == spec_np tq Ts Hs x.
Proof.
  intros Ht Hrob Hhas x [Hxl Hxh].
  destruct (gcc_np_zipper tq Ht Ts Hs Hrob Hhas) as [out [Eout [Heqv Tz]]].
  destruct (robust_b_P tq Ts Hs Hrob) as [Hlen [Hpos R]].
  unfold has_pinch in Hhas.
  unfold gcc_np_z in *. set (t0 := init_rows Ts Hs) in *.
  assert (Hl0 : List.length t0 = List.length Ts) by (apply init_rows_length; exact Hlen).
  assert (EH : map rH t0 = Hs) by (apply init_rows_rH; exact Hlen).
  assert (ET0 : rT (nth 0 t0 r0) = hd 0 Ts) by (apply init_rows_T0; exact Hlen).
  assert (ETl : rT (nth (List.length t0 - 1) t0 r0) = last Ts 0) by (apply init_rows_Tlast; assumption).
  destruct (pinch_idx tq (map rH t0)) as [[hp cp] valid] eqn:Epi.
  destruct valid; cbn [negb] in *.
  2:{ (* no valid pinch although a zero row exists: the curve is identically zero *)
    assert (Hall : forallb (isz tq) (map rH t0) = true).
    { destruct (forallb (isz tq) (map rH t0)) eqn:E; [reflexivity|].
      pose proof (pinch_idx_valid tq (map rH t0) ltac:(rewrite EH; exact Hhas) E) as Hv. rewrite Epi in Hv. discriminate. }
    rewrite (map_ptN_ptH t0 (rp_np tq Hs t0 R)). rewrite plw_all_zero.
    - symmetry. apply (fin_spec_mid tq Ts Hs Ht Hlen R x (hd 0 Ts) (last Ts 0)); try assumption.
      + rewrite <- ET0. apply (fin_row_zero_T tq Ts Hs); [fold t0; lia|]. apply forallb_nth; [exact Hall|rewrite map_length; fold t0; lia].
      + rewrite <- ETl. apply (fin_row_zero_T tq Ts Hs); [fold t0; lia|]. apply forallb_nth; [exact Hall|rewrite map_length; fold t0; lia].
    - rewrite Forall_map. rewrite Forall_forall. intros r Hr. simpl.
      destruct (In_nth t0 r r0 Hr) as [j [Hj Ej]]. rewrite <- Ej.
      apply (ev_row_zero tq Ts Hs Ht R j Hj). apply forallb_nth; [exact Hall|rewrite map_length; exact Hj]. }
  assert (PF : PinchFacts tq (map rH t0) hp cp) by (apply pinch_idx_facts; [rewrite EH; exact Hhas|exact Epi]).
  pose proof (pf_le _ _ _ _ PF) as Hle. pose proof (pf_lt _ _ _ _ PF) as Hlt. rewrite map_length in Hlt.
  set (above := firstn (S hp) t0) in *. set (midr := firstn (cp - S hp) (skipn (S hp) t0)) in *. set (below := skipn cp t0) in *.
  set (ph := nth hp t0 r0). set (pc := nth cp t0 r0).
  assert (Habove : exists c0 mu, above = c0 :: mu /\ c0 = nth 0 t0 r0).
  { unfold above. destruct t0 as [|y t0']; [simpl in Hlt; lia|]. exists y, (firstn hp t0'). split; reflexivity. }
  destruct Habove as [c0 [mu [Eab Ec0]]].
  assert (Hbelow : exists cl md, rev below = cl :: md).
  { unfold below. rewrite (skipn_nth_cons t0 cp r0 Hlt). cbn [rev].
    destruct (rev (skipn (S cp) t0)) as [|y l]; [exists (nth cp t0 r0), []; reflexivity|exists y, (l ++ [nth cp t0 r0]); reflexivity]. }
  destruct Hbelow as [cl [md Ebl]].
  assert (Ecl : rT cl = last Ts 0).
  { rewrite <- ETl. f_equal.
    assert (Hlb : last below r0 = cl) by (rewrite <- (rev_involutive below), Ebl; cbn [rev]; apply last_last).
    rewrite <- Hlb. rewrite <- (last_nth_len t0 r0) by (intro Z; rewrite Z in Hlt; simpl in Hlt; lia).
    transitivity (last (firstn cp t0 ++ below) r0); [symmetry; apply last_app_ne; unfold below; rewrite (skipn_nth_cons t0 cp r0 Hlt); discriminate|].
    f_equal. apply firstn_skipn. }
  pose proof (side_up_pre tq Ht Hs t0 hp cp R PF c0 mu Eab) as Hup.
  pose proof (side_dn_pre tq Ht Hs t0 hp cp R PF cl md Ebl) as Hdn.
  destruct (zside_last tq (mk_up tq) c0 mu (fun H => proj2 (Hup H))) as [X [EX _]].
  assert (Elast_up : last (c0 :: mu) c0 = ph).
  { rewrite <- Eab. unfold above, ph. rewrite (firstn_S_snoc t0 hp r0) by lia. apply last_last. }
  rewrite Elast_up in EX. rewrite <- Eab in EX.
  destruct (zside_last tq (mk_dn tq) cl md (fun H => proj2 (Hdn H))) as [Y [EY _]].
  assert (Elast_dn : last (cl :: md) cl = pc).
  { rewrite <- Ebl. unfold below, pc. rewrite (skipn_nth_cons t0 cp r0 Hlt). cbn [rev]. apply last_last. }
  rewrite Elast_dn in EY. rewrite <- Ebl in EY.
  assert (Edn : rev (zside tq (mk_dn tq) (rev below)) = pc :: rev Y) by (rewrite EY, rev_app_distr; reflexivity).
  (* zero rows *)
  assert (Zph : In (rT ph) (zero_Ts tq Ts Hs)) by (apply (fin_row_zero_T tq Ts Hs); [fold t0; lia|apply (pf_hp _ _ _ _ PF)]).
  assert (Zpc : In (rT pc) (zero_Ts tq Ts Hs)) by (apply (fin_row_zero_T tq Ts Hs); [fold t0; lia|apply (pf_cp _ _ _ _ PF)]).
  assert (Hdich : forall j, (j < List.length t0)%nat -> rH (nth j t0 r0) == 0 \/ tq < rH (nth j t0 r0)).
  { intros j Hj. pose proof (rp_zero tq Hs t0 R) as Hz. rewrite Forall_forall in Hz. apply Hz. apply nth_In. exact Hj. }
  set (z := zside tq (mk_up tq) above ++ map (fun r => with_np r 0) midr ++ (if (hp <? cp)%nat then rev (zside tq (mk_dn tq) (rev below)) else List.tl (rev (zside tq (mk_dn tq) (rev below))))) in *.
  assert (Hmz : mono true tq (map ptN z)) by (apply mono_ptN; exact Tz).
  destruct (Qlt_le_dec x (rT ph)) as [HxA|HxA].
  2:{ (* ---- at or above the hot pinch ---- *)
    assert (Ez : map ptN z = map ptN X ++ ptN ph :: map ptN (map (fun r => with_np r 0) midr ++ (if (hp <? cp)%nat then rev (zside tq (mk_dn tq) (rev below)) else List.tl (rev (zside tq (mk_dn tq) (rev below)))))).
    { unfold z. rewrite EX. rewrite !map_app. cbn [map]. list_eq. }
    rewrite Ez in *. rewrite (plw_app_l true tq _ _ _ x ltac:(lra) Hmz) by (cbn [sleP ptN fst]; exact HxA).
    replace (map ptN X ++ [ptN ph]) with (map ptN (zside tq (mk_up tq) above)) by (rewrite EX, map_app; reflexivity).
    assert (Hc0x : x <= rT c0) by (rewrite Ec0; fold t0; rewrite ET0; exact Hxh).
    transitivity (if qltb (rH c0) tq then 0 else runmin_above Ts Hs x); [exact (ev_up_value tq Ts Hs Ht Hlen R hp cp PF c0 mu x Eab HxA Hc0x)|].
    rewrite (fin_spec_hot tq Ts Hs Ht Hlen R x (rT ph) Zph HxA).
    destruct (qltb (rH c0) tq) eqn:Eq; [|reflexivity].
    symmetry. apply (fin_above0 tq Ts Hs Ht Hlen R x (rT c0)); [|rewrite Ec0; fold t0; rewrite ET0; exact Hxh].
    rewrite Ec0. apply (fin_row_zero_T tq Ts Hs); [fold t0; lia|]. rewrite nth_map_rH. fold t0. rewrite <- Ec0.
    destruct (zero_cases tq Ht (rH c0)) as [[Z1 _] [_ Z2]]; [rewrite Ec0; apply Hdich; lia|]. apply Z2, Z1, Eq. }
  destruct (Qlt_le_dec (rT pc) x) as [HxC|HxC].
  - (* ---- strictly between the pinches ---- *)
    assert (Hne : hp <> cp) by (intro E; unfold ph, pc in *; rewrite E in HxA; lra).
    assert (E2 : (hp <? cp)%nat = true) by (apply Nat.ltb_lt; lia).
    assert (Ez : map ptN z = map ptN X ++ ptN ph :: (map ptN (flat 0 midr) ++ ptN pc :: map ptN (rev Y))).
    { unfold z. rewrite E2, EX, Edn. rewrite !map_app. cbn [map]. unfold flat. list_eq. }
    rewrite Ez in *.
    rewrite (plw_app_r true tq _ _ _ x ltac:(lra) Hmz) by (cbn [sleP ptN fst]; lra).
    apply mono_app_r in Hmz.
    change (ptN ph :: map ptN (flat 0 midr) ++ ptN pc :: map ptN (rev Y)) with ((ptN ph :: map ptN (flat 0 midr)) ++ ptN pc :: map ptN (rev Y)) in *.
    rewrite (plw_app_l true tq _ _ _ x ltac:(lra) Hmz) by (cbn [sleP ptN fst]; lra).
    rewrite plw_all_zero.
    + symmetry. apply (fin_spec_mid tq Ts Hs Ht Hlen R x (rT ph) (rT pc) Zph Zpc); lra.
    + apply Forall_app. split; [constructor|].
      * cbn [ptN snd]. pose proof (rp_np tq Hs t0 R) as Hnp. rewrite Forall_forall in Hnp. rewrite (Hnp ph) by (apply nth_In; lia).
        apply (ev_ph_zero tq Ts Hs Ht Hlen R hp cp PF).
      * rewrite Forall_map. unfold flat. rewrite Forall_map. rewrite Forall_forall. intros r _. reflexivity.
      * constructor; [|constructor]. cbn [ptN snd]. pose proof (rp_np tq Hs t0 R) as Hnp. rewrite Forall_forall in Hnp. rewrite (Hnp pc) by (apply nth_In; lia).
        apply (ev_pc_zero tq Ts Hs Ht Hlen R hp cp PF).
  - (* ---- at or below the cold pinch ---- *)
    assert (Ez : exists preC, map ptN z = preC ++ ptN pc :: map ptN (rev Y)).
    { destruct (hp <? cp)%nat eqn:E2.
      - exists (map ptN (zside tq (mk_up tq) above ++ flat 0 midr)). unfold z. rewrite ?E2, Edn. rewrite !map_app. unfold flat. list_eq.
      - apply Nat.ltb_ge in E2. assert (Ehc : hp = cp) by lia.
        exists (map ptN X). unfold z. rewrite ?E2, Edn, EX. cbn [List.tl].
        assert (Em : midr = []) by (unfold midr; replace (cp - S hp)%nat with 0%nat by lia; reflexivity). rewrite Em.
        unfold ph, pc. rewrite Ehc. cbn [map app]. rewrite !map_app. cbn [map]. list_eq. }
    destruct Ez as [preC Ez]. rewrite Ez in *.
    rewrite (plw_app_r true tq _ _ _ x ltac:(lra) Hmz) by (cbn [sleP ptN fst]; exact HxC).
    replace (ptN pc :: map ptN (rev Y)) with (map ptN (rev (zside tq (mk_dn tq) (rev below)))) by (rewrite Edn; reflexivity).
    assert (Hclx : rT cl <= x) by (rewrite Ecl; exact Hxl).
    transitivity (if qltb (rH cl) tq then 0 else runmin_below Ts Hs x); [exact (ev_dn_value tq Ts Hs Ht Hlen R hp cp PF cl md x Ebl Hclx HxC)|].
    rewrite (fin_spec_cold tq Ts Hs Ht Hlen R x (rT pc) Zpc HxC).
    destruct (qltb (rH cl) tq) eqn:Eq; [|reflexivity].
    symmetry. apply (fin_below0 tq Ts Hs Ht Hlen R x (rT cl)); [|rewrite Ecl; exact Hxl].
    assert (Hcl : cl = nth (List.length t0 - 1) t0 r0).
    { assert (Hlb : last below r0 = cl) by (rewrite <- (rev_involutive below), Ebl; cbn [rev]; apply last_last).
      rewrite <- Hlb. rewrite <- (last_nth_len t0 r0) by (intro Z; rewrite Z in Hlt; simpl in Hlt; lia).
      transitivity (last (firstn cp t0 ++ below) r0); [symmetry; apply last_app_ne; unfold below; rewrite (skipn_nth_cons t0 cp r0 Hlt); discriminate|].
      f_equal. apply firstn_skipn. }
    rewrite Hcl. apply (fin_row_zero_T tq Ts Hs); [fold t0; lia|]. rewrite nth_map_rH. fold t0. rewrite <- Hcl.
    destruct (zero_cases tq Ht (rH cl)) as [[Z1 _] [_ Z2]]; [rewrite Hcl; apply Hdich; lia|]. apply Z2, Z1, Eq.
Qed.

(* ---------- first and last row ---------- *)
Lemma zside_head tq mk c0 mu : exists W, zside tq mk (c0 :: mu) = c0 :: W /\ (W = [] -> mu = []).
Proof.
  unfold zside. destruct (qltb (rH c0) tq); [exists mu; split; auto|].
  exists (zsweep tq mk (List.length mu) c0 mu). split; [reflexivity|].
  intros E. destruct mu as [|y mu]; [reflexivity|]. exfalso.
  apply (zsweep_nonempty tq mk (List.length (y :: mu)) c0 (y :: mu)); [lia|discriminate|exact E].
Qed.

Theorem gcc_np_z_ends tq Ts Hs : 0 < tq -> robust_b tq Ts Hs = true -> has_pinch tq Hs = true ->
  let t0 := init_rows Ts Hs in
  hd r0 (gcc_np_z tq Ts Hs) = nth 0 t0 r0 /\ last (gcc_np_z tq Ts Hs) r0 = nth (List.length t0 - 1) t0 r0.
Proof.
  intros Ht Hrob Hhas t0.
  destruct (robust_b_P tq Ts Hs Hrob) as [Hlen [Hpos R]]. fold t0 in R.
  unfold has_pinch in Hhas. unfold gcc_np_z. fold t0.
  assert (Hl0 : List.length t0 = List.length Ts) by (apply init_rows_length; exact Hlen).
  assert (EH : map rH t0 = Hs) by (apply init_rows_rH; exact Hlen).
  assert (Hne : t0 <> []) by (intro Z; rewrite Z in Hl0; simpl in Hl0; lia).
  destruct (pinch_idx tq (map rH t0)) as [[hp cp] valid] eqn:Epi.
  destruct valid; cbn [negb].
  2:{ split; [destruct t0; [congruence|reflexivity]|apply last_nth_len; exact Hne]. }
  assert (PF : PinchFacts tq (map rH t0) hp cp) by (apply pinch_idx_facts; [rewrite EH; exact Hhas|exact Epi]).
  pose proof (pf_le _ _ _ _ PF) as Hle. pose proof (pf_lt _ _ _ _ PF) as Hlt. rewrite map_length in Hlt.
  set (above := firstn (S hp) t0). set (midr := firstn (cp - S hp) (skipn (S hp) t0)). set (below := skipn cp t0).
  assert (Habove : exists mu, above = nth 0 t0 r0 :: mu).
  { unfold above. destruct t0 as [|y t0']; [simpl in Hlt; lia|]. exists (firstn hp t0'). reflexivity. }
  destruct Habove as [mu Eab].
  assert (Eb1 : below = nth cp t0 r0 :: skipn (S cp) t0) by (apply skipn_nth_cons; exact Hlt).
  assert (Hlb : last below r0 = nth (List.length t0 - 1) t0 r0).
  { rewrite <- (last_nth_len t0 r0 Hne). transitivity (last (firstn cp t0 ++ below) r0); [symmetry; apply last_app_ne; rewrite Eb1; discriminate|].
    f_equal. apply firstn_skipn. }
  set (cl := nth (List.length t0 - 1) t0 r0) in *.
  assert (Hbelow : exists md, rev below = cl :: md).
  { destruct (exists_last (l := below) ltac:(rewrite Eb1; discriminate)) as [bl [y Ey]].
    exists (rev bl). rewrite Ey in Hlb. rewrite last_last in Hlb. subst y. rewrite Ey, rev_app_distr. reflexivity. }
  destruct Hbelow as [md Ebl].
  destruct (zside_head tq (mk_up tq) (nth 0 t0 r0) mu) as [W [EW _]]. rewrite Eab, EW.
  split; [reflexivity|].
  destruct (zside_head tq (mk_dn tq) cl md) as [V [EV HV]]. rewrite Ebl, EV. cbn [rev].
  destruct (hp <? cp)%nat eqn:E2.
  - rewrite !app_assoc. apply last_last.
  - apply Nat.ltb_ge in E2. assert (Ehc : hp = cp) by lia.
    assert (Em : midr = []) by (unfold midr; replace (cp - S hp)%nat with 0%nat by lia; reflexivity). rewrite Em. cbn [map app].
    destruct (rev V) as [|y V'] eqn:ErV.
    + (* the side below the pinch is the pinch row alone *)
      cbn [app List.tl]. rewrite app_nil_r.
      assert (EVn : V = []) by (rewrite <- (rev_involutive V), ErV; reflexivity).
      specialize (HV EVn). subst md.
      assert (Eb2 : below = [cl]) by (rewrite <- (rev_involutive below), Ebl; reflexivity).
      rewrite <- EW, <- Eab.
      pose proof (side_up_pre tq Ht Hs t0 hp cp R PF (nth 0 t0 r0) mu Eab) as Hup.
      destruct (zside_last tq (mk_up tq) (nth 0 t0 r0) mu (fun H => proj2 (Hup H))) as [X [EX _]].
      rewrite Eab, EX, last_last. rewrite <- Eab. unfold above. rewrite (firstn_S_snoc t0 hp r0) by lia. rewrite last_last.
      rewrite Ehc. rewrite Eb1 in Eb2. inversion Eb2. reflexivity.
    + cbn [app List.tl]. rewrite app_assoc, app_comm_cons. apply last_last.
Qed.

Lemma mono_bounds tq (a : pt) l : 0 <= tq -> mono true tq (a :: l) -> forall p, In p (a :: l) -> fst (last (a :: l) a) <= fst p <= fst a.
Proof.
  intros Ht Hm p Hp. split.
  - pose proof (mono_rev true tq _ Hm) as Hr. cbn [negb] in Hr.
    rewrite (app_removelast_last a (l := a :: l)) in Hr at 1 by discriminate. rewrite rev_app_distr in Hr. cbn [rev app] in Hr.
    apply mono_head in Hr; [|exact Ht]. rewrite Forall_forall in Hr.
    rewrite (app_removelast_last a (l := a :: l)) in Hp at 1 by discriminate. apply in_app_or in Hp. destruct Hp as [Hp|[Hp|[]]].
    + specialize (Hr p ltac:(apply in_rev; rewrite rev_involutive; exact Hp)). cbn [sltP] in Hr. lra.
    + subst p. lra.
  - destruct Hp as [Hp|Hp]; [subst; lra|]. apply mono_head in Hm; [|exact Ht]. rewrite Forall_forall in Hm.
    specialize (Hm p Hp). cbn [sltP] in Hm. lra.
Qed.
Lemma Forall2_in_l {A B} (P : A -> B -> Prop) l1 l2 a : Forall2 P l1 l2 -> In a l1 -> exists b, In b l2 /\ P a b.
Proof.
  induction 1 as [|x y l1 l2 Hxy _ IH]; intros Hin; [destruct Hin|].
  destruct Hin as [E|Hin]; [subst; exists y; split; [left; reflexivity|exact Hxy]|].
  destruct (IH Hin) as [b [Hb Pb]]. exists b. split; [right; exact Hb|exact Pb].
Qed.

Lemma rows_eqv_hd_last o z : rows_eqv o z -> z <> [] ->
  np_eqv (hd r0 o) (hd r0 z) /\ np_eqv (last o r0) (last z r0) /\ o <> [].
Proof.
  intros H Hz. revert Hz. destruct H as [|a b l1 l2 Hab Hl12]; intros Hz; [congruence|]. clear Hz. split; [exact Hab|]. split; [|discriminate].
  revert a b Hab. induction Hl12 as [|a' b' l1 l2 Hab' _ IH]; intros a b Hab; [exact Hab|].
  rewrite !last_cons2. apply IH. exact Hab'.
Qed.
Section Results.
Variables (tq : Q) (Ts Hs : list Q) (out : list row).
Hypothesis Ht : 0 < tq.
Hypothesis Hrob : robust_b tq Ts Hs = true.
Hypothesis Hhas : has_pinch tq Hs = true.
Hypothesis Hout : gcc_np tq Ts Hs = Ok out.

Lemma res_eqv : rows_eqv out (gcc_np_z tq Ts Hs) /\ Tdesc tq (gcc_np_z tq Ts Hs).
Proof.
  destruct (gcc_np_zipper tq Ht Ts Hs Hrob Hhas) as [out' [E [H1 H2]]]. rewrite Hout in E. inversion E. subst. split; assumption.
Qed.

(* H_net_np, read as a piecewise-linear function of temperature, IS the specification on the whole range *)
Theorem np_everywhere x : last Ts 0 <= x <= hd 0 Ts ->
  pl_desc (map rT out) (map rNP out) x == spec_np tq Ts Hs x.
Proof.
  intros Hx. destruct res_eqv as [Heq _].
  rewrite (rows_eqv_rT _ _ Heq). rewrite (pl_desc_ext x _ _ _ (rows_eqv_rNP _ _ Heq)).
  rewrite <- map_fst_ptN, <- map_snd_ptN. rewrite <- plw_pl_desc.
  apply np_everywhere_z; assumption.
Qed.

Lemma res_ends : exists o1 o2, hd r0 out = o1 /\ last out r0 = o2
  /\ np_eqv o1 (nth 0 (init_rows Ts Hs) r0) /\ np_eqv o2 (nth (List.length (init_rows Ts Hs) - 1) (init_rows Ts Hs) r0) /\ out <> [].
Proof.
  destruct res_eqv as [Heq _]. destruct (gcc_np_z_ends tq Ts Hs Ht Hrob Hhas) as [E1 E2]. cbv zeta in E1, E2.
  destruct (robust_b_P tq Ts Hs Hrob) as [Hlen [Hpos _]].
  pose proof (init_rows_length Ts Hs Hlen) as Hl.
  assert (Hz : gcc_np_z tq Ts Hs <> []).
  { intro Z. rewrite Z in E1. simpl in E1. destruct (init_rows Ts Hs) as [|y l] eqn:Ei; [simpl in Hl; lia|].
    unfold gcc_np_z in Z. rewrite Ei in Z.
    destruct (pinch_idx tq (map rH (y :: l))) as [[hp cp] v]. destruct v; cbn [negb] in Z; [|discriminate].
    cbn [firstn] in Z. destruct (zside_head tq (mk_up tq) y (firstn hp l)) as [W [EW _]]. rewrite EW in Z. discriminate. }
  exists (hd r0 out), (last out r0). split; [reflexivity|]. split; [reflexivity|].
  destruct (rows_eqv_hd_last _ _ Heq Hz) as [Q1 [Q2 Q3]]. rewrite E1 in Q1. rewrite E2 in Q2. repeat split; try apply Q1; try apply Q2; exact Q3.
Qed.

(* the ends keep Qh and Qc (and their temperatures) *)
Theorem np_keeps_ends : rNP (hd r0 out) == hd 0 Hs /\ rNP (last out r0) == last Hs 0
  /\ rT (hd r0 out) = hd 0 Ts /\ rT (last out r0) = last Ts 0.
Proof.
  destruct res_ends as [o1 [o2 [E1 [E2 [[A1 [A2 A3]] [[B1 [B2 B3]] _]]]]]]. rewrite E1, E2.
  destruct (robust_b_P tq Ts Hs Hrob) as [Hlen [Hpos R]].
  pose proof (init_rows_np Ts Hs) as Hnp. rewrite Forall_forall in Hnp.
  pose proof (init_rows_length Ts Hs Hlen) as Hl.
  assert (H0 : rH (nth 0 (init_rows Ts Hs) r0) = hd 0 Hs).
  { pose proof (init_rows_rH Ts Hs Hlen) as H. set (t := init_rows Ts Hs) in *. rewrite <- H. destruct t; reflexivity. }
  assert (Hl2 : rH (nth (List.length (init_rows Ts Hs) - 1) (init_rows Ts Hs) r0) = last Hs 0).
  { pose proof (init_rows_rH Ts Hs Hlen) as H. set (t := init_rows Ts Hs) in *. rewrite <- H.
    rewrite <- (last_nth_len t r0) by (intro Z; rewrite Z in Hl; simpl in Hl; lia).
    change 0 with (rH r0). rewrite (last_map rH). reflexivity. }
  split; [rewrite A3, Hnp by (apply nth_In; lia); rewrite H0; reflexivity|].
  split; [rewrite B3, Hnp by (apply nth_In; lia); rewrite Hl2; reflexivity|].
  split; [rewrite A1; apply init_rows_T0; exact Hlen|rewrite B1; apply init_rows_Tlast; assumption].
Qed.

(* every emitted row (input rows and inserted breakpoints alike) carries the running minimum of the input curve *)
Theorem np_rows r : In r out -> rNP r == spec_np tq Ts Hs (rT r).
Proof.
  intros Hin. destruct res_eqv as [Heq Tz].
  destruct (Forall2_in_l _ _ _ _ Heq Hin) as [r' [Hin' [E1 [_ E3]]]].
  rewrite E3, E1.
  apply in_split in Hin'. destruct Hin' as [l1 [l2 Ez]].
  assert (Hm : mono true tq (map ptN (gcc_np_z tq Ts Hs))) by (apply mono_ptN; exact Tz).
  rewrite <- (np_everywhere_z tq Ts Hs Ht Hrob Hhas (rT r')).
  - rewrite Ez in *. rewrite map_app in *. cbn [map] in *. symmetry. apply (plw_at_point true tq (map ptN l1) (ptN r') (map ptN l2)); [lra|exact Hm].
  - (* rT r' lies between the last and the first temperature *)
    destruct (gcc_np_z_ends tq Ts Hs Ht Hrob Hhas) as [G1 G2]. cbv zeta in G1, G2.
    destruct (robust_b_P tq Ts Hs Hrob) as [Hlen [Hpos R]].
    destruct (gcc_np_z tq Ts Hs) as [|a zl] eqn:Egz; [destruct l1; discriminate|].
    cbn [map] in Hm. pose proof (mono_bounds tq (ptN a) (map ptN zl) ltac:(lra) Hm (ptN r')) as Hb.
    assert (Hinr : In (ptN r') (ptN a :: map ptN zl)).
    { change (ptN a :: map ptN zl) with (map ptN (a :: zl)). apply in_map. rewrite Ez. apply in_or_app. right. left. reflexivity. }
    specialize (Hb Hinr). cbn [ptN fst] in Hb.
    change (ptN a :: map ptN zl) with (map ptN (a :: zl)) in Hb. rewrite (last_map ptN) in Hb. cbn [ptN fst] in Hb.
    rewrite (last_dflt (a :: zl) a r0) in Hb by discriminate. rewrite G2 in Hb. simpl in G1. rewrite G1 in Hb.
    rewrite (init_rows_T0 Ts Hs Hlen) in Hb. rewrite (init_rows_Tlast Ts Hs Hlen Hpos) in Hb. exact Hb.
Qed.
End Results.
