(* Theorems about model/Curves.v: clean_composite_curve(_ends) and the graph assembly of graph_data.py. *)
From OP Require Import gen.Consts gen.CurvesConsts model.Base model.RDP model.Curves proofs.BaseFacts proofs.RDP.
From Coq Require Import Lqa Lia.
Local Open Scope Q_scope.

(* ------------------------------------------------------------------ list facts *)
Lemma last_indep {A} (l : list A) d d' : l <> [] -> last l d = last l d'.
Proof.
  induction l as [|a r IH]; intros H; [contradiction|]. destruct r as [|b r']; [reflexivity|].
  change (last (b :: r') d = last (b :: r') d'). apply IH. discriminate.
Qed.
Lemma firstn_subseq {A} : forall n (l : list A), subseq (firstn n l) l.
Proof. induction n; intros l; simpl; [constructor|]. destruct l; constructor. apply IHn. Qed.
Lemma skipn_subseq {A} : forall n (l : list A), subseq (skipn n l) l.
Proof. induction n; intros l; simpl; [apply subseq_refl|]. destruct l; [constructor|]. apply ss_skip. apply IHn. Qed.
Lemma slice_subseq {A} i j (l : list A) : subseq (slice i j l) l.
Proof. unfold slice. eapply subseq_trans; [apply firstn_subseq|apply skipn_subseq]. Qed.
Lemma removelast_subseq {A} : forall (l : list A), subseq (removelast l) l.
Proof. induction l as [|a r IH]; simpl; [constructor|]. destruct r; [constructor|]. constructor. exact IH. Qed.
Lemma rev_tl_rev {A} (l : list A) a r : rev l = a :: r -> rev r = removelast l.
Proof.
  intros H. assert (E : l = rev r ++ [a]). { rewrite <- (rev_involutive l), H. reflexivity. }
  rewrite E. rewrite removelast_last. reflexivity.
Qed.

Lemma skipn_skipn' {A} : forall m n (l : list A), skipn n (skipn m l) = skipn (m + n) l.
Proof. induction m; intros n l; simpl; [reflexivity|]. destruct l; [destruct n; reflexivity|]. apply IHm. Qed.
Lemma skipn_map' {A B} (f : A -> B) : forall n l, skipn n (map f l) = map f (skipn n l).
Proof. induction n; intros l; simpl; [reflexivity|]. destruct l; simpl; [reflexivity|apply IHn]. Qed.
Lemma firstn_map' {A B} (f : A -> B) : forall n l, firstn n (map f l) = map f (firstn n l).
Proof. induction n; intros l; simpl; [reflexivity|]. destruct l; simpl; [reflexivity|]. f_equal. apply IHn. Qed.

(* ------------------------------------------------------------------ kept points are a subsequence *)
Lemma interior_keep_subseq tolv : forall l p1 p2,
  subseq (interior_keep tolv (p1 :: p2 :: l) ++ [last (p2 :: l) p2]) (p2 :: l).
Proof.
  induction l as [|p3 r IH]; intros p1 p2.
  - simpl. apply subseq_refl.
  - specialize (IH p2 p3).
    assert (L : last (p2 :: p3 :: r) p2 = last (p3 :: r) p3).
    { change (last (p2 :: p3 :: r) p2) with (last (p3 :: r) p2). apply last_indep. discriminate. }
    rewrite L. simpl interior_keep. destruct (keep_mid tolv p1 p2 p3).
    + simpl. apply ss_take. exact IH.
    + apply ss_skip. exact IH.
Qed.
Lemma clean_core_subseq tolv t : subseq (clean_core tolv t) t.
Proof.
  destruct t as [|p0 [|p1 [|p2 r]]]; try apply subseq_refl.
  unfold clean_core. apply ss_take.
  assert (L : last (p0 :: p1 :: p2 :: r) p0 = last (p1 :: p2 :: r) p1).
  { change (last (p0 :: p1 :: p2 :: r) p0) with (last (p1 :: p2 :: r) p0). apply last_indep. discriminate. }
  rewrite L. apply interior_keep_subseq.
Qed.
Lemma pop_first_subseq tolv l : subseq (pop_first tolv l) l.
Proof.
  destruct l as [|p0 [|p1 r]]; try apply subseq_refl. unfold pop_first.
  destruct (qltb _ _); [apply ss_skip|]; apply subseq_refl.
Qed.
Lemma pop_last_subseq tolv l : subseq (pop_last tolv l) l.
Proof.
  unfold pop_last. destruct (rev l) as [|pl [|pk r]] eqn:E.
  - apply subseq_refl.
  - destruct (qltb 0 tolv); [constructor|apply subseq_refl].
  - destruct (qltb _ _); [|apply subseq_refl].
    rewrite (rev_tl_rev l pl (pk :: r) E). apply removelast_subseq.
Qed.
Lemma clean_ends_subseq tolv c t : clean_ends tolv c = Ok t -> subseq t c.
Proof.
  unfold clean_ends. destruct (map fst c) as [|x0 xs] eqn:M.
  - intros H. inversion H. constructor.
  - destruct (_ || _).
    + intros H. inversion H. constructor.
    + destruct (find_first _ _ _) as [i|]; [|discriminate].
      destruct (find_last _ _ _ _) as [j|]; [|discriminate].
      intros H. inversion H. apply slice_subseq.
Qed.

(* clean_composite_curve returns points of the curve, in the curve's order *)
Theorem clean_subseq tolv c out : clean_curve tolv c = Ok out -> subseq out c.
Proof.
  unfold clean_curve. destruct (clean_ends tolv c) as [t|e] eqn:E; [|discriminate].
  pose proof (clean_ends_subseq tolv c t E) as S0.
  assert (K : forall t', subseq (pop_last tolv (pop_first tolv (clean_core tolv t'))) t').
  { intros t'. eapply subseq_trans; [apply pop_last_subseq|]. eapply subseq_trans; [apply pop_first_subseq|]. apply clean_core_subseq. }
  destruct t as [|p0 [|p1 [|p2 r]]]; intros H.
  - assert (E0 : out = []) by congruence. subst. exact S0.
  - assert (E0 : out = [p0]) by congruence. subst. exact S0.
  - assert (E0 : out = [p0; p1]) by congruence. subst. exact S0.
  - assert (E0 : out = pop_last tolv (pop_first tolv (clean_core tolv (p0 :: p1 :: p2 :: r)))) by congruence.
    rewrite E0. eapply subseq_trans; [apply K|exact S0].
Qed.


(* before the two end pops the first and the last point of the trimmed curve are kept *)
Theorem clean_core_ends tolv t d : t <> [] -> hd d (clean_core tolv t) = hd d t /\ last (clean_core tolv t) d = last t d.
Proof.
  destruct t as [|p0 [|p1 [|p2 r]]]; intros H; try contradiction; try (split; reflexivity).
  unfold clean_core. split; [reflexivity|].
  change (p0 :: interior_keep tolv (p0 :: p1 :: p2 :: r) ++ [last (p0 :: p1 :: p2 :: r) p0])
    with ((p0 :: interior_keep tolv (p0 :: p1 :: p2 :: r)) ++ [last (p0 :: p1 :: p2 :: r) p0]).
  rewrite last_last. apply last_indep. discriminate.
Qed.
(* the pops only fire when the first (last) two kept points are closer than tol in x *)
Theorem pop_first_robust tolv (l : list pt) (p0 p1 : pt) (r : list pt) : l = p0 :: p1 :: r -> tolv <= Qabs (rsub (fst p0) (fst p1)) -> pop_first tolv l = l.
Proof. intros E H. subst. unfold pop_first. apply qltb_false in H. rewrite H. reflexivity. Qed.
Theorem pop_last_robust tolv (l : list pt) (pl pk : pt) (r : list pt) : rev l = pl :: pk :: r -> tolv <= Qabs (rsub (fst pl) (fst pk)) -> pop_last tolv l = l.
Proof. intros E H. unfold pop_last. rewrite E. apply qltb_false in H. rewrite H. reflexivity. Qed.

(* ------------------------------------------------------------------ end trimming removes only isclose-flat end points *)
Lemma find_first_spec {A} (f : A -> bool) : forall l k i, find_first f k l = Some i ->
  exists j, i = (k + j)%nat /\ Forall (fun a => f a = false) (firstn j l) /\ (j < List.length l)%nat.
Proof.
  induction l as [|a r IH]; intros k i; simpl; [discriminate|].
  destruct (f a) eqn:E.
  - intros H. inversion H; subst. exists O. split; [lia|]. split; [constructor|simpl; lia].
  - intros H. destruct (IH (S k) i H) as [j [E1 [E2 E3]]]. exists (S j). split; [lia|]. split; [|simpl; lia].
    simpl. constructor; assumption.
Qed.
Lemma find_last_spec {A} (f : A -> bool) : forall l k acc j, find_last f k l acc = Some j ->
  (exists m, j = (k + m)%nat /\ (m < List.length l)%nat /\ Forall (fun a => f a = false) (skipn (S m) l))
  \/ (acc = Some j /\ Forall (fun a => f a = false) l).
Proof.
  induction l as [|a r IH]; intros k acc j; simpl.
  - intros H. right. split; [exact H|constructor].
  - intros H. destruct (IH (S k) _ j H) as [[m [E1 [E2 E3]]]|[E1 E2]].
    + left. exists (S m). split; [lia|]. split; [lia|]. exact E3.
    + destruct (f a) eqn:Fa.
      * inversion E1; subst. left. exists O. split; [lia|]. split; [lia|]. simpl. exact E2.
      * right. split; [exact E1|]. constructor; assumption.
Qed.
Lemma Forall_map_fst (P : Q -> Prop) (l : list pt) : Forall P (map fst l) -> Forall (fun p => P (fst p)) l.
Proof. induction l; simpl; intros H; [constructor|]. inversion H; subst. constructor; auto. Qed.
Lemma firstn_le_Forall {A} (P : A -> Prop) : forall n m (l : list A), (n <= m)%nat -> Forall P (firstn m l) -> Forall P (firstn n l).
Proof.
  induction n; intros m l L H; simpl; [constructor|]. destruct l; [constructor|]. destruct m; [lia|].
  simpl in H. inversion H; subst. constructor; [assumption|]. apply (IHn m); [lia|assumption].
Qed.
Lemma skipn_ge_Forall {A} (P : A -> Prop) : forall n m (l : list A), (n <= m)%nat -> Forall P (skipn n l) -> Forall P (skipn m l).
Proof.
  induction n; intros m l L H.
  - simpl in H. revert l H. induction m; intros l H; [exact H|]. destruct l; [constructor|]. simpl. apply IHm; [lia|].
    inversion H; assumption.
  - destruct m; [lia|]. destruct l; [constructor|]. simpl in *. apply (IHn m); [lia|exact H].
Qed.

(* whatever clean_composite_curve_ends cuts off the front is np.isclose to the first abscissa, whatever it cuts off the
   back is np.isclose to the last abscissa: only flat end points (in numpy's sense, atol = tol PLUS rtol*|x|) go *)
Theorem clean_ends_trims_flat tolv c t : clean_ends tolv c = Ok t -> t <> [] ->
  exists pre post, c = pre ++ t ++ post
    /\ Forall (fun p => isclose_np tolv (fst p) (fst (hd (0, 0) c)) = true) pre
    /\ Forall (fun p => isclose_np tolv (fst p) (fst (last c (0, 0))) = true) post.
Proof.
  unfold clean_ends. destruct (map fst c) as [|x0 xs] eqn:M.
  - intros H. inversion H; subst. contradiction.
  - destruct (_ || _); [intros H; inversion H; subst; contradiction|].
    rewrite <- M.
    destruct (find_first _ 0 (map fst c)) as [i|] eqn:F1; [|discriminate].
    destruct (find_last _ 0 (map fst c) None) as [j|] eqn:F2; [|discriminate].
    intros H NE. injection H as Ht.
    destruct (find_first_spec _ _ _ _ F1) as [i' [Ei [Fi Li]]]. simpl in Ei. subst i'.
    destruct (find_last_spec _ _ _ _ _ F2) as [[m [Em [Lm Fm]]]|[Bad _]]; [|discriminate]. simpl in Em. subst m.
    unfold slice in Ht.
    exists (firstn (i - 1) c), (skipn (j + 2) c).
    assert (X0 : x0 = fst (hd (0, 0) c)). { destruct c; simpl in M; [discriminate|]. inversion M. reflexivity. }
    assert (XL : last (map fst c) 0 = fst (last c (0, 0))).
    { clear. induction c as [|a r IH]; [reflexivity|]. destruct r; [reflexivity|]. simpl in *. exact IH. }
    assert (GE : (i - 1 <= j + 2)%nat).
    { destruct (Nat.le_gt_cases (i - 1) (j + 2)) as [G|G]; [exact G|].
      exfalso. apply NE. rewrite <- Ht. replace (j + 2 - (i - 1))%nat with O by lia. reflexivity. }
    split; [|split].
    + rewrite <- Ht.
      rewrite <- (firstn_skipn (i - 1) c) at 1. f_equal.
      rewrite <- (firstn_skipn (j + 2 - (i - 1)) (skipn (i - 1) c)) at 1. f_equal.
      rewrite skipn_skipn'. f_equal. lia.
    + rewrite <- X0. apply Forall_map_fst with (P := fun x => isclose_np tolv x x0 = true).
      rewrite <- firstn_map'. apply (firstn_le_Forall _ (i - 1) i); [lia|].
      eapply Forall_impl; [|exact Fi]. intros a Ha. simpl in Ha. apply negb_false_iff in Ha. exact Ha.
    + rewrite <- XL. apply Forall_map_fst with (P := fun x => isclose_np tolv x (last (map fst c) 0) = true).
      rewrite <- skipn_map'. apply (skipn_ge_Forall _ (S j) (j + 2)); [lia|].
      eapply Forall_impl; [|exact Fm]. intros a Ha. simpl in Ha. apply negb_false_iff in Ha. exact Ha.
Qed.

(* ------------------------------------------------------------------ exactly collinear drops leave the curve unchanged *)
Lemma Qle_bool_false a b : Qle_bool a b = false <-> b < a.
Proof. apply qleb_false. Qed.
Lemma interp2_split a b p y : fst b < fst p -> fst p < fst a -> snd p == interp2 a b (fst p) ->
  interp2 a p y == interp2 a b y /\ interp2 p b y == interp2 a b y.
Proof.
  intros H1 H2 E. unfold interp2 in *. destruct a as [xa ya], b as [xb yb], p as [xp yp]. simpl in *.
  rewrite E. split; field; split; intro Z; lra.
Qed.
Lemma desc_below : forall l t, desc_from t l -> forall z, In z l -> fst z < t.
Proof.
  induction l as [|a l IH]; intros t D z Hz; [contradiction|]. destruct D as [D1 D2].
  destruct Hz as [Hz|Hz]; [subst; exact D1|]. eapply Qlt_trans; [apply (IH (fst a) D2 z Hz)|exact D1].
Qed.
Lemma last_In {A} : forall (l : list A) d, l <> [] -> In (last l d) l.
Proof.
  induction l as [|a l IH]; intros d H; [contradiction|]. destruct l as [|b l']; [left; reflexivity|].
  right. change (In (last (b :: l') d) (b :: l')). apply IH. discriminate.
Qed.
Lemma last_cons2 {A} (a b : A) l d : last (a :: b :: l) d = last (b :: l) d.
Proof. reflexivity. Qed.
Lemma pl_go_below prev r rest y : y < fst r -> pl_go prev (r :: rest) y = pl_go r rest y.
Proof. intros H. simpl. apply Qle_bool_false in H. rewrite H. reflexivity. Qed.

(* rows: strictly descending abscissas below prev; kept: an in-order subsequence ending with the same row; every row
   lies exactly on the polyline through prev and the kept rows  ==>  both polylines are the same function *)
Lemma pl_go_thin : forall rows prev kept,
  desc_from (fst prev) rows -> subseq kept rows -> kept <> [] -> last kept prev = last rows prev ->
  (forall r, In r rows -> snd r == pl_go prev kept (fst r)) ->
  forall y, pl_go prev kept y == pl_go prev rows y.
Proof.
  induction rows as [|r rs IH]; intros prev kept D S NE L On y.
  - inversion S; subst. contradiction.
  - destruct D as [Dr Drs]. pose proof (desc_below rs (fst r) Drs) as Below.
    inversion S as [| x k l S' | x k l S']; subst.
    + contradiction.
    + (* r is kept *)
      simpl. destruct (Qle_bool (fst r) y) eqn:E; [reflexivity|].
      destruct k as [|k0 k'].
      * (* r is the last kept row, hence the last row: nothing can follow it *)
        destruct rs as [|r1 rs']; [reflexivity|]. exfalso.
        rewrite last_cons2 in L. change (last [r] prev) with r in L.
        assert (Hin : In (last (r1 :: rs') prev) (r1 :: rs')) by (apply last_In; discriminate).
        rewrite <- L in Hin. specialize (Below r Hin). lra.
      * destruct rs as [|r1 rs']; [inversion S'|].
        apply IH.
        -- exact Drs.
        -- exact S'.
        -- discriminate.
        -- rewrite !last_cons2 in L.
           rewrite (last_indep (k0 :: k') r prev) by discriminate. rewrite (last_indep (r1 :: rs') r prev) by discriminate. exact L.
        -- intros z Hz. rewrite (On z (or_intror Hz)). rewrite pl_go_below; [reflexivity|apply Below; exact Hz].
    + (* r is dropped: it lies on the chord from prev to the next kept row k0 *)
      destruct kept as [|k0 k']; [contradiction|].
      destruct rs as [|r1 rs']; [inversion S'|].
      assert (K0 : fst k0 < fst r) by (apply Below; eapply subseq_In; [exact S'|left; reflexivity]).
      assert (Onr : snd r == interp2 prev k0 (fst r)).
      { rewrite (On r (or_introl eq_refl)). simpl.
        assert (Ek : Qle_bool (fst k0) (fst r) = true) by (apply Qle_bool_iff; lra). rewrite Ek. reflexivity. }
      destruct (interp2_split prev k0 r y K0 Dr Onr) as [I1 I2].
      assert (IHr : forall y, pl_go r (k0 :: k') y == pl_go r (r1 :: rs') y).
      { apply IH.
        - exact Drs.
        - exact S'.
        - discriminate.
        - rewrite last_cons2 in L.
          rewrite (last_indep (k0 :: k') r prev) by discriminate. rewrite (last_indep (r1 :: rs') r prev) by discriminate. exact L.
        - intros z Hz. rewrite (On z (or_intror Hz)). simpl.
          destruct (Qle_bool (fst k0) (fst z)); [|reflexivity].
          destruct (interp2_split prev k0 r (fst z) K0 Dr Onr) as [_ J2]. rewrite J2. reflexivity. }
      change (pl_go prev (r :: r1 :: rs') y) with (if Qle_bool (fst r) y then interp2 prev r y else pl_go r (r1 :: rs') y).
      destruct (Qle_bool (fst r) y) eqn:E.
      * apply Qle_bool_iff in E. simpl. assert (Ek : Qle_bool (fst k0) y = true) by (apply Qle_bool_iff; lra).
        rewrite Ek. rewrite I1. reflexivity.
      * rewrite <- IHr. simpl. destruct (Qle_bool (fst k0) y); [|reflexivity]. rewrite I2. reflexivity.
Qed.

(* C13/C17 exact_collinear_recovers: rows with strictly descending abscissas; kept = in-order subsequence with the same
   first and last row; if every row lies EXACTLY on the polyline through the kept rows, the two piecewise-linear
   functions coincide at every abscissa *)
Theorem exact_collinear_recovers rows kept :
  strictly_desc rows -> subseq kept rows -> kept <> [] ->
  hd (0, 0) kept = hd (0, 0) rows -> last kept (0, 0) = last rows (0, 0) ->
  (forall r, In r rows -> snd r == plr kept (fst r)) ->
  forall y, plr kept y == plr rows y.
Proof.
  intros D S NE Hh Hl On y.
  destruct rows as [|r0 rs]; [inversion S; subst; contradiction|].
  destruct kept as [|k0 k']; [contradiction|]. simpl in Hh. subst k0. simpl in D.
  pose proof (desc_below rs (fst r0) D) as Below.
  inversion S as [| x k l S' | x k l S']; subst.
  2:{ exfalso. assert (Hin : In r0 rs) by (eapply subseq_In; [exact S'|left; reflexivity]). specialize (Below r0 Hin). lra. }
  simpl. destruct (Qle_bool (fst r0) y) eqn:E; [reflexivity|].
  destruct k' as [|k1 k''].
  - destruct rs as [|r1 rs']; [reflexivity|]. exfalso.
    rewrite last_cons2 in Hl. change (last [r0] (0, 0)) with r0 in Hl.
    assert (Hin : In (last (r1 :: rs') (0, 0)) (r1 :: rs')) by (apply last_In; discriminate).
    rewrite <- Hl in Hin. specialize (Below r0 Hin). lra.
  - destruct rs as [|r1 rs']; [inversion S'|].
    apply pl_go_thin.
    + exact D.
    + exact S'.
    + discriminate.
    + rewrite !last_cons2 in Hl.
      rewrite (last_indep (k1 :: k'') r0 (0, 0)) by discriminate. rewrite (last_indep (r1 :: rs') r0 (0, 0)) by discriminate. exact Hl.
    + intros z Hz. rewrite (On z (or_intror Hz)). simpl.
      assert (Ez : Qle_bool (fst r0) (fst z) = false) by (apply Qle_bool_false; apply Below; exact Hz). rewrite Ez. reflexivity.
Qed.

(* ------------------------------------------------------------------ rounding *)
Lemma pow10_pos dp : 0 < pow10 dp.
Proof.
  unfold pow10. assert (0 < 10 ^ Z.of_nat dp)%Z by (apply Z.pow_pos_nonneg; lia).
  unfold Qlt. simpl. lia.
Qed.
(* |round_dp dp v - v| <= 1/2 * 10^-dp *)
Theorem round_dp_error dp v : Qabs (round_dp dp v - v) <= (1 # 2) / pow10 dp.
Proof.
  unfold round_dp. set (s := pow10 dp). pose proof (pow10_pos dp) as Sp. fold s in Sp.
  set (w := Qred (v * s)). assert (Ew : w == v * s) by (apply Qred_correct).
  set (f := Qfloor w). pose proof (Qfloor_le w) as F1. pose proof (Qlt_floor w) as F2. fold f in F1, F2.
  set (r := Qred (w - inject_Z f)). assert (Er : r == w - inject_Z f) by (apply Qred_correct).
  assert (F2' : w < inject_Z f + 1). { rewrite inject_Z_plus in F2. exact F2. }
  set (k := if qltb r (1 # 2) then f else if qltb (1 # 2) r then (f + 1)%Z else if Z.even f then f else (f + 1)%Z).
  assert (K : Qabs (inject_Z k - w) <= 1 # 2).
  { unfold k. destruct (qltb r (1 # 2)) eqn:E1.
    - apply qltb_true in E1. apply Qabs_Qle_condition. split; lra.
    - apply qltb_false in E1. destruct (qltb (1 # 2) r) eqn:E2.
      + apply qltb_true in E2. rewrite inject_Z_plus. apply Qabs_Qle_condition. change (inject_Z 1) with 1; split; lra.
      + apply qltb_false in E2. destruct (Z.even f).
        * apply Qabs_Qle_condition. split; lra.
        * rewrite inject_Z_plus. apply Qabs_Qle_condition. change (inject_Z 1) with 1; split; lra. }
  rewrite Qred_correct.
  assert (E : inject_Z k / s - v == (inject_Z k - w) / s). { rewrite Ew. field. lra. }
  rewrite E. unfold Qdiv. rewrite Qabs_Qmult. rewrite (Qabs_pos (/ s)).
  - apply Qmult_le_compat_r; [exact K|]. apply Qlt_le_weak. apply Qinv_lt_0_compat. exact Sp.
  - apply Qlt_le_weak. apply Qinv_lt_0_compat. exact Sp.
Qed.

(* with the decimal places read from the source (graph_DECIMAL_PLACES) this is the property's display rounding 0.01 *)
Theorem display_rounding v : Qabs (round_dp graph_DECIMAL_PLACES v - v) <= 1 # 200.
Proof. eapply Qle_trans; [apply round_dp_error|]. apply Qle_bool_iff. vm_compute. reflexivity. Qed.

(* ------------------------------------------------------------------ classification follows the sign *)
Theorem classification_sign vtol d util : 0 <= vtol ->
  (classify vtol d util = (if util then ColdU else HotS) <-> d < - vtol)
  /\ (classify vtol d util = (if util then HotU else ColdS) <-> vtol < d)
  /\ (classify vtol d util = Unassigned <-> Qabs d <= vtol).
Proof.
  intros V. unfold classify.
  destruct (qleb (Qabs d) vtol) eqn:E1.
  - apply qleb_true in E1. pose proof E1 as E1'. apply Qabs_Qle_condition in E1'.
    repeat split; intros H; try (destruct util; discriminate); try lra; try reflexivity; try exact E1.
  - apply qleb_false in E1.
    assert (C : d < - vtol \/ vtol < d).
    { destruct (Qlt_le_dec d 0) as [N|N].
      - left. rewrite (Qabs_neg d) in E1 by lra. lra.
      - right. rewrite (Qabs_pos d) in E1 by lra. lra. }
    destruct (qltb 0 d) eqn:E2.
    + apply qltb_true in E2. repeat split; intros H; try (destruct util; discriminate); try lra; try reflexivity.
    + apply qltb_false in E2. destruct (qltb d 0) eqn:E3.
      * apply qltb_true in E3. repeat split; intros H; try (destruct util; discriminate); try lra; try reflexivity.
      * apply qltb_false in E3. exfalso. destruct C; lra.
Qed.

(* ------------------------------------------------------------------ segment slices partition the curve *)
Lemma glue_cons s rest : s <> [] -> List.concat (map (@tl pt) (s :: rest)) = tl (glue (s :: rest)).
Proof. intros H. destruct s; [contradiction|]. reflexivity. Qed.

Definition seg_pts (l : list (sloc * list pt)) : list (list pt) := map snd l.
Lemma group_segs_head_nonempty vtol util : forall l prev c rv,
  rv <> [] -> exists s rest, seg_pts (group_segs vtol util (Some (c, rv)) prev l) = s :: rest /\ s <> [].
Proof.
  induction l as [|q r IH]; intros prev c rv H; simpl.
  - exists (rev rv), []. split; [reflexivity|]. intro E. apply H. rewrite <- (rev_involutive rv), E. reflexivity.
  - destruct (sloc_eqb _ _).
    + apply IH. discriminate.
    + exists (rev rv), (seg_pts (group_segs vtol util (Some (classify vtol (rsub (fst prev) (fst q)) util, [q; prev])) q r)).
      split; [reflexivity|]. intro E. apply H. rewrite <- (rev_involutive rv), E. reflexivity.
Qed.
Lemma group_segs_glue vtol util : forall l prev c rv, rv <> [] ->
  glue (seg_pts (group_segs vtol util (Some (c, rv)) prev l)) = rev rv ++ l.
Proof.
  induction l as [|q r IH]; intros prev c rv H; simpl.
  - reflexivity.
  - destruct (sloc_eqb _ _).
    + rewrite IH by discriminate. simpl. rewrite <- app_assoc. reflexivity.
    + set (c' := classify vtol (rsub (fst prev) (fst q)) util).
      destruct (group_segs_head_nonempty vtol util r q c' [q; prev] ltac:(discriminate)) as [s [rest [E NE]]].
      change (glue (seg_pts ((c, rev rv) :: group_segs vtol util (Some (c', [q; prev])) q r)))
        with (rev rv ++ List.concat (map (@tl pt) (seg_pts (group_segs vtol util (Some (c', [q; prev])) q r)))).
      rewrite E. rewrite (glue_cons s rest NE). rewrite <- E. rewrite IH by discriminate. reflexivity.
Qed.
(* segments_partition: the slices of _iter_gcc_segment_slices, glued at their shared end points, are exactly the points
   start..end (contiguous, sharing end points, covering everything) *)
Theorem segments_partition vtol util p q r :
  glue (seg_pts (group_segs vtol util None p (q :: r))) = p :: q :: r.
Proof. simpl. rewrite group_segs_glue by discriminate. reflexivity. Qed.

(* every enthalpy change inside a slice carries the slice's own classification *)
Definition diffs_class (vtol : Q) (util : bool) (c : sloc) (s : list pt) : Prop :=
  forall u v, consecutive u v s -> classify vtol (rsub (fst u) (fst v)) util = c.
Lemma consecutive_snoc (u v : pt) l x y : consecutive u v (l ++ [x; y]) -> consecutive u v (l ++ [x]) \/ (u = x /\ v = y).
Proof.
  intros [l1 [l2 E]]. destruct l2 as [|z l2'] using rev_ind.
  - right. assert (E' : (l ++ [x]) ++ [y] = (l1 ++ [u]) ++ [v]) by (rewrite <- !app_assoc; exact E).
    apply app_inj_tail in E'. destruct E' as [E1 E2]. apply app_inj_tail in E1. destruct E1 as [_ E3]. split; congruence.
  - left. clear IHl2'. exists l1, l2'.
    assert (E' : (l ++ [x]) ++ [y] = (l1 ++ u :: v :: l2') ++ [z]).
    { rewrite <- !app_assoc. simpl. exact E. }
    apply app_inj_tail in E'. destruct E' as [E1 _]. exact E1.
Qed.
Lemma group_segs_classes vtol util : forall l prev c rv,
  (exists rv', rv = prev :: rv') -> diffs_class vtol util c (rev rv) ->
  Forall (fun s : sloc * list pt => diffs_class vtol util (fst s) (snd s)) (group_segs vtol util (Some (c, rv)) prev l).
Proof.
  induction l as [|q r IH]; intros prev c rv [rv' Erv] D; simpl.
  - constructor; [exact D|constructor].
  - destruct (sloc_eqb (classify vtol (rsub (fst prev) (fst q)) util) c) eqn:E.
    + apply IH; [exists rv; reflexivity|]. subst rv. simpl. intros u v Cuv.
      rewrite <- app_assoc in Cuv. simpl in Cuv. apply consecutive_snoc in Cuv. destruct Cuv as [Cuv|[Eu Ev]].
      * apply D. simpl. exact Cuv.
      * subst. unfold sloc_eqb in E. apply Z.eqb_eq in E.
        destruct (classify vtol (rsub (fst prev) (fst q)) util), c; simpl in E; try discriminate; reflexivity.
    + constructor; [exact D|]. apply IH; [exists [prev]; reflexivity|].
      simpl. intros u v [l1 [l2 Euv]]. destruct l1 as [|a l1']; simpl in Euv.
      * inversion Euv; subst. reflexivity.
      * destruct l1' as [|b l1'']; simpl in Euv; [discriminate|]. destruct l1''; discriminate.
Qed.
Theorem segments_classified vtol util p l :
  Forall (fun s : sloc * list pt => diffs_class vtol util (fst s) (snd s)) (group_segs vtol util None p l).
Proof.
  destruct l as [|q r]; simpl; [constructor|].
  apply group_segs_classes; [exists [p]; reflexivity|].
  simpl. intros u v [l1 [l2 Euv]]. destruct l1 as [|a l1']; simpl in Euv.
  - inversion Euv; subst. reflexivity.
  - destruct l1' as [|b l1'']; simpl in Euv; [discriminate|]. destruct l1''; discriminate.
Qed.

(* ------------------------------------------------------------------ emitted points are rounded table rows, in table order *)
Lemma gcc_slices_glue tolv vtol util pts :
  subseq (glue (seg_pts (gcc_slices tolv vtol util pts))) pts.
Proof.
  unfold gcc_slices. destruct pts as [|p0 pr]; [constructor|].
  destruct (segment_bounds tolv (map fst (p0 :: pr))) as [s e].
  destruct (slice s (S e) (p0 :: pr)) as [|p r] eqn:E; [constructor|].
  destruct r as [|q r'].
  - simpl. constructor.
  - rewrite segments_partition. rewrite <- E. apply slice_subseq.
Qed.

(* C13 points_subseq, composite curves: the one emitted curve is the rounding of an in-order subsequence of the rows *)
Theorem cc_points_subseq tolv vtol dp util loc pref rows segs :
  graph_curve tolv vtol dp false util loc pref (Col rows) = Ok segs ->
  exists kept, subseq kept rows /\ segs = [(loc, false, map (round_pt dp) kept)].
Proof.
  unfold graph_curve, graph_cc_raw. destruct (clean_curve tolv rows) as [c|e] eqn:E; [|discriminate].
  intros H. injection H as H. exists c. split; [eapply clean_subseq; exact E|]. rewrite <- H. reflexivity.
Qed.
(* C13 points_subseq, grand composite series: the emitted segments, glued at their shared end points, are the rounding of
   an in-order subsequence of the rows *)
Lemma glue_map_round dp (l : list (list pt)) : glue (map (map (round_pt dp)) l) = map (round_pt dp) (glue l).
Proof.
  destruct l as [|s r]; [reflexivity|]. simpl. rewrite map_app. f_equal.
  induction r as [|a r IH]; [reflexivity|]. simpl. rewrite map_app, <- IH. f_equal. destruct a; reflexivity.
Qed.
Theorem gcc_points_subseq tolv vtol dp util loc pref rows segs :
  graph_curve tolv vtol dp true util loc pref (Col rows) = Ok segs ->
  exists kept, subseq kept rows /\ glue (map (fun s : seg => snd s) segs) = map (round_pt dp) kept.
Proof.
  unfold graph_curve, graph_gcc_raw. destruct (clean_curve tolv rows) as [c|e] eqn:E; [|discriminate].
  intros H. injection H as H.
  exists (glue (seg_pts (gcc_slices tolv vtol util c))). split.
  - eapply subseq_trans; [apply gcc_slices_glue|]. eapply clean_subseq. exact E.
  - rewrite <- H. unfold round_segs, seg_pts. rewrite <- glue_map_round. f_equal.
    rewrite !map_map. apply map_ext. intros [raw pts]. reflexivity.
Qed.

(* ------------------------------------------------------------------ first / last trimmed points survive when no pop fires *)
Theorem clean_ends_kept tolv c t out d : clean_ends tolv c = Ok t -> clean_curve tolv c = Ok out -> t <> [] ->
  pop_first tolv (clean_core tolv t) = clean_core tolv t ->
  pop_last tolv (clean_core tolv t) = clean_core tolv t ->
  hd d out = hd d t /\ last out d = last t d.
Proof.
  intros E C NE P1 P2. unfold clean_curve in C. rewrite E in C.
  assert (O : out = clean_core tolv t).
  { destruct t as [|p0 [|p1 [|p2 r]]]; try (injection C as C; subst; reflexivity).
    rewrite P1, P2 in C. congruence. }
  subst out. apply clean_core_ends. exact NE.
Qed.

(* ------------------------------------------------------------------ refutations (witnesses replayed on the real code) *)
(* D16: y = 4e-7 x^2 on 500 unit steps.  Every interior point is within tol of the chord of its ORIGINAL neighbours
   (second difference 8e-7 < tol), so all 499 are removed; the remaining chord is 0.025 away at x = 250. *)
Definition d16_curve : list pt := map (fun i : nat => let z := inject_Z (Z.of_nat i) in (z, Qred (4 * z * z / 10000000))) (List.seq 0 501).
Lemma d16_witness :
  res_pts_eqb (clean_curve tol d16_curve) (Ok [(0, 0); (500, 1 # 10)]) = true
  /\ monotone2_b d16_curve = true
  /\ existsb (pt_eqb (250, 1 # 40)) d16_curve = true
  /\ chord_excess (0, 0) (500, 1 # 10) (250, 1 # 40) = Some (1 # 40).
Proof. vm_compute. repeat split; reflexivity. Qed.
(* the same drift on four points: (498, .) and (499, .) are each within tol of the chord of their original neighbours,
   together they are not *)
Definition d16_small : list pt :=
  [(496, 615040 # 6250000); (498, 620010 # 6250000); (499, 6225025 # 62500000); (500, 1 # 10)].
Lemma d16_small_witness :
  clean_curve tol d16_small = Ok [(496, 615040 # 6250000); (500, 1 # 10)]
  /\ P_clean_code tol d16_small [(496, 615040 # 6250000); (500, 1 # 10)] = 6%Z.
Proof. vm_compute. split; reflexivity. Qed.

Theorem clean_1e6_bound_refuted :
  exists (c out : list pt) (a b p : pt) (d : Q),
    monotone2_b c = true /\ res_pts_eqb (clean_curve tol c) (Ok out) = true /\ consecutive a b out
    /\ existsb (pt_eqb p) c = true /\ chord_excess a b p = Some d /\ 1000 * tol < Qabs d.
Proof.
  exists d16_curve, [(0, 0); (500, 1 # 10)], (0, 0), (500, 1 # 10), (250, 1 # 40), (1 # 40).
  destruct d16_witness as [H1 [H2 [H3 H4]]].
  split; [exact H2|]. split; [exact H1|]. split; [exists [], []; reflexivity|]. split; [exact H3|]. split; [exact H4|].
  vm_compute. reflexivity.
Qed.

(* end trimming uses np.isclose with numpy's default RELATIVE tolerance: a first point 0.5 away from the second one
   (500000 * tol) is cut off when the abscissas are of the order 1e5 *)
Theorem clean_trim_relative_refuted :
  exists (c t : list pt) (p0 p1 : pt),
    clean_ends tol c = Ok t /\ c = p0 :: t /\ hd p0 t = p1 /\ 100000 * tol < Qabs (fst p0 - fst p1).
Proof.
  exists [(100000, 4); (199999 # 2, 3); (50000, 2); (0, 1)], [(199999 # 2, 3); (50000, 2); (0, 1)], (100000, 4), (199999 # 2, 3).
  vm_compute. repeat split; reflexivity.
Qed.

(* the variance early return drops a whole curve whose abscissas differ by 244 * tol *)
Theorem clean_variance_early_return_refuted :
  exists (c : list pt), clean_curve tol c = Ok [] /\ 100 * tol < spread (map fst c).
Proof.
  exists [(3 # 4096, 7); (1 # 1024, 9)]. vm_compute. split; reflexivity.
Qed.

(* ... and when EVERY abscissa is inside that relative band of the first one (while the variance is not below tol) the
   function does not return at all: np.flatnonzero(mask)[0] raises IndexError *)
Theorem clean_relative_band_raises_refuted :
  exists (c : list pt), clean_curve tol c = Err EIndex /\ 100000 * tol < spread (map fst c).
Proof.
  exists [(256001 # 4, 310); (64000, 300); (64000, 40)]. vm_compute. split; reflexivity.
Qed.
