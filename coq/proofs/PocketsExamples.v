(* C07: non-vacuity of the hypotheses and pinned evaluations of the model (closed computations). *)
From OP Require Import gen.Consts model.Base model.Pockets.
Local Open Scope Q_scope.

(* D2 (repaired by 8b8d0cb): three pockets above the pinch; the unrepaired loop left a pocket at T = 100 *)
Definition d2_T : list Q := [200; 180; 160; 140; 120; 100; 80; 60].
Definition d2_H : list Q := [50; 70; 40; 60; 20; 30; 0; 10].

Lemma d2_robust : robust_b tol d2_T d2_H = true /\ has_pinch tol d2_H = true.
Proof. split; vm_compute; reflexivity. Qed.
Lemma d2_model : gcc_np tol d2_T d2_H =
  Ok [mkR 200 50 50; mkR 180 70 50; mkR (500 # 3) 50 50; mkR 160 40 40; mkR 140 60 40; mkR 130 40 40;
      mkR 120 20 20; mkR 100 30 20; mkR (280 # 3) 20 20; mkR 80 0 0; mkR 60 10 10].
Proof. vm_compute. reflexivity. Qed.
Lemma d2_predicate : model_ok d2_T d2_H = true.
Proof. vm_compute. reflexivity. Qed.

(* pockets on both sides, nested, closing exactly on a row, next to the pinch, two pinches *)
Definition ex2_T : list Q := [300; 280; 260; 240; 220; 200; 180; 160; 140; 120; 100].
Definition ex2_H : list Q := [40; 80; 60; 90; 40; 70; 0; 50; 20; 60; 20].
Lemma ex2_robust : robust_b tol ex2_T ex2_H = true /\ has_pinch tol ex2_H = true /\ model_ok ex2_T ex2_H = true.
Proof. repeat split; vm_compute; reflexivity. Qed.

(* a curve that is NOT Robust (two levels 1e-7 apart): the predicate rejects it *)
Lemma not_robust_example : robust_b tol [30; 20; 10] [5; (50000001 # 10000000); 0] = false.
Proof. vm_compute. reflexivity. Qed.
(* D56 (repaired by 90f934d): below the pinch a pocket closes within tol of an existing row, so no breakpoint is inserted;
   the exit row (T = 174.9995, H = 39.999) must be flattened to the pocket level 20 all the same.  The input is NOT Robust. *)
Definition d56_T : list Q := [285; 275; 175; (17499975 # 100000); (1749995 # 10000); 165; 130; 105].
Definition d56_H : list Q := [200; 200; 0; (199995 # 10000); (39999 # 1000); 20; 20; (105 # 4)].
Lemma d56_model : robust_b tol d56_T d56_H = false /\
  match gcc_np tol d56_T d56_H with Ok m => map rNP m | Err _ => [] end = [200; 200; 0; (199995 # 10000); 20; 20; 20; (105 # 4)].
Proof. split; vm_compute; reflexivity. Qed.
Lemma examples_predicate : model_ok d2_T d2_H = true /\ model_ok ex2_T ex2_H = true.
Proof. split; [exact d2_predicate|exact (proj2 (proj2 ex2_robust))]. Qed.
