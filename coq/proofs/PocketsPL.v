(* C07: piecewise-linear curves in sweep order.
   A side of the pinch is visited from its far end towards the pinch: temperatures fall along the sweep above the
   pinch (d = true) and rise below it (d = false).  `plw d pts x` evaluates the curve through pts at x, `rmw d M pts x`
   is the running minimum at x of the curve (started with M); both are tied to Base.pl_desc and to the filter-based
   specification (runmin_above / runmin_below) at the end of the file. *)
From OP Require Import gen.Consts model.Base model.Pockets proofs.BaseFacts.
From Coq Require Import Lia Lqa.
Local Open Scope Q_scope.

(* ---------- Qmin by cases ---------- *)
Ltac qmin_cases :=
  repeat match goal with
  | |- context [Qmin ?a ?b] =>
      let H := fresh "Hmin" in let m := fresh "m" in
      pose proof (Q.min_spec a b) as H; set (m := Qmin a b) in *; clearbody m
  | _ : context [Qmin ?a ?b] |- _ =>
      let H := fresh "Hmin" in let m := fresh "m" in
      pose proof (Q.min_spec a b) as H; set (m := Qmin a b) in *; clearbody m
  end;
  repeat match goal with H : (_ /\ _) \/ (_ /\ _) |- _ => destruct H as [[? ?]|[? ?]] end.
Ltac qmin := qmin_cases; try lra.

(* ---------- direction ---------- *)
Definition sle (d : bool) (a b : Q) : bool := if d then qleb a b else qleb b a.      (* a not before b *)
Definition sleP (d : bool) (a b : Q) : Prop := if d then a <= b else b <= a.
Definition sltP (d : bool) (a b : Q) : Prop := if d then a < b else b < a.
Lemma sle_true d a b : sle d a b = true <-> sleP d a b.
Proof. destruct d; simpl; apply qleb_true. Qed.
Lemma sle_false d a b : sle d a b = false <-> sltP d b a.
Proof. destruct d; simpl; apply qleb_false. Qed.

Definition pt := (Q * Q)%type.
Implicit Types a b c : pt.
(* consecutive points are more than tq apart, in sweep direction *)
Definition sgap (d : bool) (tq : Q) (a b : pt) : Prop := if d then tq < fst a - fst b else tq < fst b - fst a.
Fixpoint mono (d : bool) (tq : Q) (pts : list pt) : Prop :=
  match pts with
  | a :: ((b :: _) as r) => sgap d tq a b /\ mono d tq r
  | _ => True
  end.
Lemma mono_tail d tq a l : mono d tq (a :: l) -> mono d tq l.
Proof. destruct l as [|b l]; simpl; [auto|]. intros [_ H]; exact H. Qed.
Lemma mono_head d tq a l : 0 <= tq -> mono d tq (a :: l) -> Forall (fun b => sltP d (fst b) (fst a)) l.
Proof.
  intros Ht. revert a. induction l as [|b l IH]; intros a H; [constructor|].
  destruct H as [G H]. constructor.
  - destruct d; simpl in *; lra.
  - specialize (IH b H). eapply Forall_impl; [|exact IH]. intros c Hc. destruct d; simpl in *; lra.
Qed.
Lemma mono_app_r d tq l1 l2 : mono d tq (l1 ++ l2) -> mono d tq l2.
Proof. induction l1 as [|a l1 IH]; [auto|]. intros H. apply IH. eapply mono_tail. exact H. Qed.
Lemma mono_app_l d tq l1 l2 : mono d tq (l1 ++ l2) -> mono d tq l1.
Proof.
  induction l1 as [|a l1 IH]; [simpl; auto|]. intros H.
  destruct l1 as [|b l1]; [exact I|]. destruct H as [G H]. split; [exact G|]. apply IH. exact H.
Qed.

(* ---------- one segment ---------- *)
Definition seg (a b : pt) (x : Q) : Q := snd a + (snd b - snd a) * ((x - fst a) / (fst b - fst a)).

Lemma seg_at_a a b x : ~ fst b == fst a -> x == fst a -> seg a b x == snd a.
Proof. intros Hn E. unfold seg. rewrite E. field. lra. Qed.
Lemma seg_at_b a b x : ~ fst b == fst a -> x == fst b -> seg a b x == snd b.
Proof. intros Hn E. unfold seg. rewrite E. field. lra. Qed.
Lemma seg_sym a b x : ~ fst b == fst a -> seg a b x == seg b a x.
Proof. intros Hn. unfold seg. field. split; lra. Qed.
(* value as a convex combination *)
Lemma seg_minus a b x L : ~ fst b == fst a ->
  seg a b x - L == ((snd a - L) * (fst b - x) + (snd b - L) * (x - fst a)) / (fst b - fst a).
Proof. intros Hn. unfold seg. field. lra. Qed.
Lemma between_cases a b x : (fst b <= x <= fst a \/ fst a <= x <= fst b) -> ~ fst b == fst a ->
  (0 <= (fst b - x) / (fst b - fst a)) /\ (0 <= (x - fst a) / (fst b - fst a)).
Proof.
  intros Hb Hn. destruct (Qlt_le_dec (fst a) (fst b)) as [Hl|Hl].
  - assert (Hx : fst a <= x <= fst b) by (destruct Hb; lra).
    split; apply Qle_shift_div_l; lra.
  - assert (Hl' : fst b < fst a) by (destruct (Qeq_dec (fst b) (fst a)); [contradiction|lra]).
    assert (Hx : fst b <= x <= fst a) by (destruct Hb; lra).
    assert (P : 0 < fst a - fst b) by lra.
    split.
    + setoid_replace ((fst b - x) / (fst b - fst a)) with ((x - fst b) / (fst a - fst b)) by (field; split; lra).
      apply Qle_shift_div_l; lra.
    + setoid_replace ((x - fst a) / (fst b - fst a)) with ((fst a - x) / (fst a - fst b)) by (field; split; lra).
      apply Qle_shift_div_l; lra.
Qed.
Lemma seg_ge a b x L : (fst b <= x <= fst a \/ fst a <= x <= fst b) -> ~ fst b == fst a ->
  L <= snd a -> L <= snd b -> L <= seg a b x.
Proof.
  intros Hb Hn Ha Hbb. destruct (between_cases a b x Hb Hn) as [P1 P2].
  assert (E : seg a b x - L == (snd a - L) * ((fst b - x) / (fst b - fst a)) + (snd b - L) * ((x - fst a) / (fst b - fst a))).
  { unfold seg. field. lra. }
  assert (0 <= (snd a - L) * ((fst b - x) / (fst b - fst a))) by (apply Qmult_le_0_compat; lra).
  assert (0 <= (snd b - L) * ((x - fst a) / (fst b - fst a))) by (apply Qmult_le_0_compat; lra).
  lra.
Qed.
Lemma seg_le a b x L : (fst b <= x <= fst a \/ fst a <= x <= fst b) -> ~ fst b == fst a ->
  snd a <= L -> snd b <= L -> seg a b x <= L.
Proof.
  intros Hb Hn Ha Hbb. destruct (between_cases a b x Hb Hn) as [P1 P2].
  assert (E : L - seg a b x == (L - snd a) * ((fst b - x) / (fst b - fst a)) + (L - snd b) * ((x - fst a) / (fst b - fst a))).
  { unfold seg. field. lra. }
  assert (0 <= (L - snd a) * ((fst b - x) / (fst b - fst a))) by (apply Qmult_le_0_compat; lra).
  assert (0 <= (L - snd b) * ((x - fst a) / (fst b - fst a))) by (apply Qmult_le_0_compat; lra).
  lra.
Qed.
(* a point c on the segment a-b splits it into two segments of the same line *)
Lemma seg_split_r a b c x : ~ fst b == fst a -> ~ fst b == fst c -> snd c == seg a b (fst c) -> seg c b x == seg a b x.
Proof. intros H1 H2 E. unfold seg in *. rewrite E. field. split; lra. Qed.
Lemma seg_split_l a b c x : ~ fst b == fst a -> ~ fst c == fst a -> snd c == seg a b (fst c) -> seg a c x == seg a b x.
Proof. intros H1 H2 E. unfold seg in *. rewrite E. field. split; lra. Qed.
Lemma seg_ext a b (a' b' : pt) x x' : fst a == fst a' -> snd a == snd a' -> fst b == fst b' -> snd b == snd b' -> x == x' ->
  seg a b x == seg a' b' x'.
Proof. intros E1 E2 E3 E4 E5. unfold seg. rewrite E1, E2, E3, E4, E5. reflexivity. Qed.

(* ---------- curve through points, in sweep order ---------- *)
Fixpoint plw (d : bool) (pts : list pt) (x : Q) : Q :=
  match pts with
  | a :: ((b :: _) as r) => if sle d (fst a) x then snd a else if sle d (fst b) x then seg a b x else plw d r x
  | [a] => snd a
  | [] => 0
  end.
(* running minimum of the curve from the first point to x, started with M *)
Fixpoint rmw (d : bool) (M : Q) (pts : list pt) (x : Q) : Q :=
  match pts with
  | a :: ((b :: _) as r) => if sle d (fst b) x then Qmin M (seg a b x) else rmw d (Qmin M (snd b)) r x
  | _ => M
  end.

Lemma plw_cons2 d a b l x :
  plw d (a :: b :: l) x = if sle d (fst a) x then snd a else if sle d (fst b) x then seg a b x else plw d (b :: l) x.
Proof. reflexivity. Qed.
Lemma rmw_cons2 d M a b l x :
  rmw d M (a :: b :: l) x = if sle d (fst b) x then Qmin M (seg a b x) else rmw d (Qmin M (snd b)) (b :: l) x.
Proof. reflexivity. Qed.
Lemma rmw_M_eq d M M' pts x : M == M' -> rmw d M pts x == rmw d M' pts x.
Proof.
  revert M M'. induction pts as [|a l IH]; intros M M' E; simpl; [exact E|].
  destruct l as [|b l]; [exact E|].
  destruct (sle d (fst b) x); [rewrite E; reflexivity|]. apply IH. rewrite E. reflexivity.
Qed.
Lemma rmw_le_M d M pts x : rmw d M pts x <= M.
Proof.
  revert M. induction pts as [|a l IH]; intros M; simpl; [lra|].
  destruct l as [|b l]; [lra|].
  destruct (sle d (fst b) x); [qmin|]. specialize (IH (Qmin M (snd b))). qmin.
Qed.

(* x is on the curve's range *)
Definition in_range (d : bool) (pts : list pt) (x : Q) : Prop :=
  match pts with [] => False | a :: _ => sleP d x (fst a) /\ sleP d (fst (last pts a)) x end.

Lemma plw_app_l d tq l1 m l2 x : 0 <= tq -> mono d tq (l1 ++ m :: l2) -> sleP d (fst m) x ->
  plw d (l1 ++ m :: l2) x == plw d (l1 ++ [m]) x.
Proof.
  intros Ht. induction l1 as [|a l1 IH]; intros Hm Hx.
  - simpl. destruct l2 as [|b l2]; [reflexivity|]. apply sle_true in Hx. rewrite Hx. reflexivity.
  - destruct l1 as [|b l1].
    + simpl. destruct (sle d (fst a) x); [reflexivity|]. apply sle_true in Hx. rewrite Hx.
      destruct l2; reflexivity.
    + change (plw d (a :: b :: l1 ++ m :: l2) x == plw d (a :: b :: l1 ++ [m]) x).
      rewrite !plw_cons2. destruct (sle d (fst a) x); [reflexivity|]. destruct (sle d (fst b) x); [reflexivity|].
      apply IH; [|exact Hx]. apply (mono_tail d tq a). exact Hm.
Qed.
Lemma plw_app_r d tq l1 m l2 x : 0 <= tq -> mono d tq (l1 ++ m :: l2) -> sleP d x (fst m) ->
  plw d (l1 ++ m :: l2) x == plw d (m :: l2) x.
Proof.
  intros Ht. induction l1 as [|a l1 IH]; intros Hm Hx; [reflexivity|].
  pose proof (mono_head d tq a (l1 ++ m :: l2) Ht Hm) as Hall.
  assert (Ham : sltP d (fst m) (fst a)).
  { rewrite Forall_forall in Hall. apply Hall. apply in_or_app. right. left. reflexivity. }
  assert (Ea : sle d (fst a) x = false) by (apply sle_false; destruct d; simpl in *; lra).
  destruct l1 as [|b l1].
  - simpl app. cbn [plw]. rewrite Ea.
    destruct (sle d (fst m) x) eqn:Em.
    + apply sle_true in Em. assert (Ex : x == fst m) by (destruct d; simpl in *; lra).
      rewrite seg_at_b; [|destruct d; simpl in *; lra|exact Ex].
      destruct l2 as [|c l2]; reflexivity.
    + destruct l2 as [|c l2].
      * apply sle_false in Em. destruct d; simpl in *; lra.
      * reflexivity.
  - change (plw d (a :: b :: l1 ++ m :: l2) x == plw d (m :: l2) x). rewrite plw_cons2. rewrite Ea.
    pose proof (mono_tail d tq a _ Hm) as Hm'.
    pose proof (mono_head d tq b (l1 ++ m :: l2) Ht Hm') as Hallb.
    assert (Hbm : sltP d (fst m) (fst b)).
    { rewrite Forall_forall in Hallb. apply Hallb. apply in_or_app. right. left. reflexivity. }
    assert (Eb : sle d (fst b) x = false) by (apply sle_false; destruct d; simpl in *; lra).
    rewrite Eb. apply IH; assumption.
Qed.
Lemma last_in {A} (l : list A) d : l <> [] -> In (last l d) l.
Proof.
  induction l as [|x l IH]; intros H; [congruence|]. destruct l as [|y l]; [left; reflexivity|].
  right. apply IH. discriminate.
Qed.
Lemma plw_last d pts a x : pts <> [] -> x == fst (last pts a) -> mono d 0 pts -> plw d pts x == snd (last pts a).
Proof.
  revert a. induction pts as [|p l IH]; intros a Hne Ex Hm; [congruence|].
  destruct l as [|b l]; [reflexivity|].
  change (last (p :: b :: l) a) with (last (b :: l) a) in *.
  pose proof (mono_head d 0 p (b :: l) ltac:(lra) Hm) as Hall. rewrite Forall_forall in Hall.
  assert (Hin : In (last (b :: l) a) (b :: l)) by (apply last_in; discriminate).
  specialize (Hall _ Hin).
  rewrite plw_cons2.
  assert (E1 : sle d (fst p) x = false) by (apply sle_false; destruct d; simpl in *; lra).
  rewrite E1.
  destruct (sle d (fst b) x) eqn:E2.
  - apply sle_true in E2. destruct l as [|c l].
    + simpl in *. apply seg_at_b; [|exact Ex]. destruct d; simpl in *; lra.
    + exfalso. pose proof (mono_head d 0 b (c :: l) ltac:(lra) (mono_tail _ _ _ _ Hm)) as Hb. rewrite Forall_forall in Hb.
      assert (Hin2 : In (last (b :: c :: l) a) (c :: l)).
      { change (last (b :: c :: l) a) with (last (c :: l) a). apply last_in. discriminate. }
      specialize (Hb _ Hin2). destruct d; simpl in *; lra.
  - apply IH; [discriminate|exact Ex|]. eapply mono_tail; exact Hm.
Qed.

(* ---------- reversal ---------- *)
Lemma mono_app d tq l1 m l2 : mono d tq (l1 ++ [m]) -> mono d tq (m :: l2) -> mono d tq (l1 ++ m :: l2).
Proof.
  induction l1 as [|a l1 IH]; intros H1 H2; [exact H2|].
  destruct l1 as [|b l1].
  - simpl in *. destruct H1 as [G _]. split; [exact G|exact H2].
  - change (mono d tq (a :: b :: l1 ++ m :: l2)). destruct H1 as [G H1]. split; [exact G|]. apply IH; assumption.
Qed.
Lemma sgap_neg d tq a b : sgap d tq a b -> sgap (negb d) tq b a.
Proof. destruct d; simpl; auto. Qed.
Lemma mono_rev d tq l : mono d tq l -> mono (negb d) tq (rev l).
Proof.
  induction l as [|a l IH]; intros H; [exact I|].
  destruct l as [|b l]; [exact I|]. destruct H as [G H].
  change (rev (a :: b :: l)) with ((rev l ++ [b]) ++ [a]). rewrite <- app_assoc. simpl app.
  apply mono_app.
  - apply IH. exact H.
  - simpl. split; [apply sgap_neg; exact G|exact I].
Qed.
Lemma sleP_neg d (a b : Q) : sleP (negb d) a b <-> sleP d b a.
Proof. destruct d; simpl; tauto. Qed.
Lemma sltP_neg d (a b : Q) : sltP (negb d) a b <-> sltP d b a.
Proof. destruct d; simpl; tauto. Qed.
Lemma sle_neg d (a b : Q) : sle (negb d) a b = sle d b a.
Proof. destruct d; reflexivity. Qed.
Lemma sgap_ne d tq a b : 0 <= tq -> sgap d tq a b -> ~ fst b == fst a.
Proof. destruct d; simpl; intros; lra. Qed.
Lemma sgap_lt d tq a b : 0 <= tq -> sgap d tq a b -> sltP d (fst b) (fst a).
Proof. destruct d; simpl; intros; lra. Qed.
Lemma sle_total d (a b : Q) : sleP d a b \/ sltP d b a.
Proof. destruct d; simpl; destruct (Qlt_le_dec b a); lra. Qed.

Lemma last_cons2 {A} (y z : A) l d0 : last (y :: z :: l) d0 = last (z :: l) d0.
Proof. reflexivity. Qed.

Lemma last_dflt {A} (l : list A) d1 d2 : l <> [] -> last l d1 = last l d2.
Proof.
  induction l as [|y l IH]; intros H; [congruence|]. destruct l as [|z l]; [reflexivity|].
  rewrite !last_cons2. apply IH. discriminate.
Qed.
(* the same curve read from the other end *)
Lemma plw_rev d tq l x : 0 <= tq -> mono d tq l -> in_range d l x -> plw (negb d) (rev l) x == plw d l x.
Proof.
  intros Ht. induction l as [|a l IH]; intros Hm Hr; [reflexivity|].
  destruct l as [|b l]; [reflexivity|].
  pose proof Hm as [G Hm'].
  pose proof (sgap_ne d tq a b Ht G) as Hne. pose proof (sgap_lt d tq a b Ht G) as Hlt.
  change (rev (a :: b :: l)) with ((rev l ++ [b]) ++ [a]). rewrite <- app_assoc. simpl app.
  assert (Hmr : mono (negb d) tq (rev l ++ [b; a])).
  { pose proof (mono_rev d tq _ Hm) as Hq. change (rev (a :: b :: l)) with ((rev l ++ [b]) ++ [a]) in Hq.
    rewrite <- app_assoc in Hq. exact Hq. }
  destruct Hr as [Hr1 Hr2]. rewrite last_cons2 in Hr2. simpl fst in Hr1.
  rewrite plw_cons2.
  destruct (sle_total d (fst b) x) as [Hbx|Hbx].
  - (* x between a and b *)
    rewrite (plw_app_r (negb d) tq (rev l) b [a] x Ht Hmr) by (apply sleP_neg; exact Hbx).
    rewrite plw_cons2. rewrite !sle_neg.
    destruct (sle d (fst a) x) eqn:Ea.
    + apply sle_true in Ea. assert (Ex : x == fst a) by (destruct d; simpl in *; lra).
      assert (E1 : sle d x (fst b) = false) by (apply sle_false; destruct d; simpl in *; lra).
      assert (E2 : sle d x (fst a) = true) by (apply sle_true; destruct d; simpl in *; lra).
      rewrite E1, E2. apply seg_at_b; [lra|exact Ex].
    + assert (Eb : sle d (fst b) x = true) by (apply sle_true; exact Hbx). rewrite Eb.
      destruct (sle d x (fst b)) eqn:E1.
      * apply sle_true in E1. assert (Ex : x == fst b) by (destruct d; simpl in *; lra).
        symmetry. apply seg_at_b; [exact Hne|exact Ex].
      * assert (E2 : sle d x (fst a) = true) by (apply sle_true; exact Hr1). rewrite E2.
        apply seg_sym. lra.
  - (* x beyond b *)
    assert (Ea : sle d (fst a) x = false) by (apply sle_false; destruct d; simpl in *; lra).
    assert (Eb : sle d (fst b) x = false) by (apply sle_false; exact Hbx).
    rewrite Ea, Eb.
    rewrite (plw_app_l (negb d) tq (rev l) b [a] x Ht Hmr) by (apply sleP_neg; destruct d; simpl in *; lra).
    change (rev l ++ [b]) with (rev (b :: l)). apply IH; [exact Hm'|].
    split; [simpl; destruct d; simpl in *; lra|rewrite (last_dflt (b :: l) b a) by discriminate; exact Hr2].
Qed.

(* ---------- Base.pl_desc is plw in the falling direction ---------- *)
Lemma pl_desc_cons2 x0 x1 xr y0 y1 yr x :
  pl_desc (x0 :: x1 :: xr) (y0 :: y1 :: yr) x =
  if qleb x0 x then y0 else if qleb x1 x then Qred (y0 + (y1 - y0) * ((x - x0) / (x1 - x0))) else pl_desc (x1 :: xr) (y1 :: yr) x.
Proof. reflexivity. Qed.
Lemma plw_pl_desc pts x : plw true pts x == pl_desc (map fst pts) (map snd pts) x.
Proof.
  induction pts as [|a l IH]; [reflexivity|].
  destruct l as [|b l]; [reflexivity|].
  rewrite plw_cons2. change (map fst (a :: b :: l)) with (fst a :: fst b :: map fst l).
  change (map snd (a :: b :: l)) with (snd a :: snd b :: map snd l).
  rewrite pl_desc_cons2. unfold sle.
  destruct (qleb (fst a) x); [reflexivity|]. destruct (qleb (fst b) x); [rewrite Qred_correct; reflexivity|].
  exact IH.
Qed.

(* ---------- the running minimum, filter form ---------- *)
Definition vals_w (d : bool) (x : Q) (pts : list pt) : list Q := map snd (filter (fun p => sle d x (fst p)) pts).
Lemma filter_none {A} (f : A -> bool) l : Forall (fun z => f z = false) l -> filter f l = [].
Proof. induction 1 as [|z l Hz _ IH]; simpl; [reflexivity|]. rewrite Hz. exact IH. Qed.

Lemma rmw_filter d tq : 0 <= tq -> forall rest a M x, mono d tq (a :: rest) -> in_range d (a :: rest) x -> M <= snd a ->
  rmw d M (a :: rest) x == Qmin M (qmin_list (plw d (a :: rest) x) (vals_w d x rest)).
Proof.
  intros Ht. induction rest as [|b r IH]; intros a M x Hm Hr HM.
  - simpl. qmin.
  - pose proof Hm as [G Hm']. pose proof (sgap_ne d tq a b Ht G) as Hne. pose proof (sgap_lt d tq a b Ht G) as Hlt.
    destruct Hr as [Hr1 Hr2]. rewrite last_cons2 in Hr2. simpl fst in Hr1.
    rewrite rmw_cons2, plw_cons2.
    pose proof (mono_head d tq b r Ht Hm') as Hbr.
    destruct (sle d (fst b) x) eqn:Eb.
    + apply sle_true in Eb.
      assert (Hnone : filter (fun p => sle d x (fst p)) r = []).
      { apply filter_none. eapply Forall_impl; [|exact Hbr]. intros c Hc. apply sle_false. destruct d; simpl in *; lra. }
      unfold vals_w. cbn [filter]. rewrite Hnone.
      destruct (sle d (fst a) x) eqn:Ea.
      * apply sle_true in Ea. assert (Ex : x == fst a) by (destruct d; simpl in *; lra).
        assert (E1 : sle d x (fst b) = false) by (apply sle_false; destruct d; simpl in *; lra).
        rewrite E1. simpl. rewrite (seg_at_a a b x Hne Ex). reflexivity.
      * destruct (sle d x (fst b)) eqn:E1; simpl; [|reflexivity].
        apply sle_true in E1. assert (Ex : x == fst b) by (destruct d; simpl in *; lra).
        rewrite (seg_at_b a b x Hne Ex). qmin.
    + apply sle_false in Eb.
      assert (Ea : sle d (fst a) x = false) by (apply sle_false; destruct d; simpl in *; lra).
      rewrite Ea.
      assert (E1 : sle d x (fst b) = true) by (apply sle_true; destruct d; simpl in *; lra).
      unfold vals_w. cbn [filter]. rewrite E1. cbn [map qmin_list fold_right].
      rewrite (IH b (Qmin M (snd b)) x Hm').
      * unfold vals_w, qmin_list. rewrite Q.min_assoc. reflexivity.
      * split; [simpl; destruct d; simpl in *; lra|rewrite (last_dflt (b :: r) b a) by discriminate; exact Hr2].
      * qmin.
Qed.
Lemma rmw_runmin d tq a rest x : 0 <= tq -> mono d tq (a :: rest) -> in_range d (a :: rest) x ->
  rmw d (snd a) (a :: rest) x == qmin_list (plw d (a :: rest) x) (vals_w d x (a :: rest)).
Proof.
  intros Ht Hm Hr. rewrite (rmw_filter d tq Ht rest a (snd a) x Hm Hr) by lra.
  destruct Hr as [Hr1 _]. simpl fst in Hr1. apply sle_true in Hr1.
  unfold vals_w. cbn [filter]. rewrite Hr1. reflexivity.
Qed.

Lemma qmin_list_snoc dflt l z : qmin_list dflt (l ++ [z]) == Qmin z (qmin_list dflt l).
Proof.
  induction l as [|y l IH]; simpl; [reflexivity|]. unfold qmin_list in IH. rewrite IH.
  rewrite !Q.min_assoc. rewrite (Q.min_comm y z). reflexivity.
Qed.
Lemma qmin_list_rev dflt l : qmin_list dflt (rev l) == qmin_list dflt l.
Proof. induction l as [|y l IH]; simpl; [reflexivity|]. rewrite qmin_list_snoc. unfold qmin_list in *. rewrite IH. reflexivity. Qed.
Lemma qmin_list_dflt_eq d1 d2 l : d1 == d2 -> qmin_list d1 l == qmin_list d2 l.
Proof. intros E. induction l as [|y l IH]; simpl; [exact E|]. unfold qmin_list in IH. rewrite IH. reflexivity. Qed.
Lemma filter_rev' {A} (f : A -> bool) l : filter f (rev l) = rev (filter f l).
Proof.
  induction l as [|y l IH]; [reflexivity|]. simpl. rewrite filter_app, IH. simpl.
  destruct (f y); simpl; [reflexivity|rewrite app_nil_r; reflexivity].
Qed.
