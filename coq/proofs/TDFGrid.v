(* C15 -- the unified enthalpy grid of model/TDF.v (np.union1d): strictly ascending, made exactly of the break points of both
   curves, its intervals partition the enthalpy range, no break point lies strictly inside an interval. *)
From OP Require Import gen.Consts model.Base model.Area model.TDF proofs.BaseFacts.
From Coq Require Import Lqa Lia Sorted.
Local Open Scope Q_scope.

Definition grid (l : list Q) : list Q := fold_right ins [] l.
Definition InQ (x : Q) (l : list Q) : Prop := exists y, In y l /\ y == x.

(* ------------------------------------------------------------------ ins *)
Lemma ins_In z x l : In z (ins x l) -> z = x \/ In z l.
Proof.
  induction l as [|y r IH]; simpl.
  - intros [H|[]]. left. symmetry. exact H.
  - destruct (qltb x y). { intros [H|H]. left; symmetry; exact H. right; exact H. }
    destruct (qeqb x y). { intro H. right. exact H. }
    intros [H|H]. right; left; exact H. destruct (IH H) as [E|E]; [left; exact E|right; right; exact E].
Qed.

Lemma ins_keeps z x l : In z l -> In z (ins x l).
Proof.
  induction l as [|y r IH]; simpl; [tauto|].
  destruct (qltb x y); [intro H; right; exact H|]. destruct (qeqb x y); [intro H; exact H|].
  intros [H|H]; [left; exact H|right; apply IH; exact H].
Qed.

Lemma ins_has x l : InQ x (ins x l).
Proof.
  induction l as [|y r IH]; simpl.
  - exists x. split; [left; reflexivity|reflexivity].
  - destruct (qltb x y) eqn:E1. { exists x. split; [left; reflexivity|reflexivity]. }
    destruct (qeqb x y) eqn:E2. { apply qeqb_true in E2. exists y. split; [left; reflexivity|symmetry; exact E2]. }
    destruct IH as (w & Hw & Ew). exists w. split; [right; exact Hw|exact Ew].
Qed.

Lemma ins_sorted x l : StronglySorted Qlt l -> StronglySorted Qlt (ins x l).
Proof.
  induction l as [|y r IH]; intro S; simpl.
  - constructor; constructor.
  - inversion S as [|? ? Sr Fr]; subst.
    destruct (qltb x y) eqn:E1.
    + apply qltb_true in E1. constructor; [exact S|]. constructor; [exact E1|].
      rewrite Forall_forall in *. intros z Hz. eapply Qlt_trans; [exact E1|apply Fr; exact Hz].
    + apply qltb_false in E1. destruct (qeqb x y) eqn:E2; [exact S|]. apply qeqb_false in E2.
      assert (Hyx : y < x). { destruct (Qlt_le_dec y x) as [L|L]; [exact L|]. exfalso. apply E2. apply Qle_antisym; assumption. }
      constructor; [apply IH; exact Sr|]. rewrite Forall_forall in *. intros z Hz.
      destruct (ins_In _ _ _ Hz) as [->|Hz']; [exact Hyx|apply Fr; exact Hz'].
Qed.

(* ------------------------------------------------------------------ the grid *)
Theorem grid_sorted l : StronglySorted Qlt (grid l).
Proof. induction l as [|x l IH]; simpl; [constructor|apply ins_sorted; exact IH]. Qed.

(* every break point is on the grid ... *)
Theorem grid_complete l x : In x l -> InQ x (grid l).
Proof.
  induction l as [|y l IH]; simpl; [tauto|]. intros [->|H].
  - apply ins_has.
  - destruct (IH H) as (w & Hw & Ew). exists w. split; [apply ins_keeps; exact Hw|exact Ew].
Qed.
(* ... and the grid has nothing else *)
Theorem grid_sound l y : In y (grid l) -> In y l.
Proof.
  induction l as [|x l IH]; simpl; [tauto|]. intro H. destruct (ins_In _ _ _ H) as [->|H']; [left; reflexivity|right; apply IH; exact H'].
Qed.

Lemma sorted_hd_le l d : StronglySorted Qlt l -> forall z, In z l -> hd d l <= z.
Proof.
  intros S z Hz. destruct l as [|a r]; [destruct Hz|]. inversion S as [|? ? _ F]; subst. simpl. destruct Hz as [<-|Hz]; [apply Qle_refl|].
  rewrite Forall_forall in F. apply Qlt_le_weak. apply F. exact Hz.
Qed.
Lemma sorted_last_ge l d : StronglySorted Qlt l -> forall z, In z l -> z <= last l d.
Proof.
  induction l as [|a r IH]; intros S z Hz; [destruct Hz|]. inversion S as [|? ? Sr F]; subst.
  destruct r as [|b r']. { destruct Hz as [<-|[]]. simpl. apply Qle_refl. }
  change (last (a :: b :: r') d) with (last (b :: r') d). destruct Hz as [<-|Hz].
  - rewrite Forall_forall in F. apply Qle_trans with b; [apply Qlt_le_weak; apply F; left; reflexivity|apply IH; [exact Sr|left; reflexivity]].
  - apply IH; assumption.
Qed.
Lemma hd_In (l : list Q) d : l <> [] -> In (hd d l) l.
Proof. destruct l; [congruence|left; reflexivity]. Qed.
Lemma last_In (l : list Q) d : l <> [] -> In (last l d) l.
Proof.
  induction l as [|a r IH]; [congruence|]. intros _. destruct r as [|b r']; [left; reflexivity|].
  right. apply IH. discriminate.
Qed.
Lemma grid_nonempty l : l <> [] -> grid l <> [].
Proof. destruct l as [|x l]; [congruence|]. intros _ E. pose proof (ins_has x (grid l)) as (w & Hw & _). simpl in E. rewrite E in Hw. destruct Hw. Qed.

(* the grid starts at the smallest and ends at the largest break point; in particular at 0 and at the common span S when
   both normalised curves run from 0 to S *)
Theorem grid_hd_min l : l <> [] -> In (hd 0 (grid l)) l /\ forall x, In x l -> hd 0 (grid l) <= x.
Proof.
  intro Hne. split.
  - apply grid_sound. apply hd_In. apply grid_nonempty. exact Hne.
  - intros x Hx. destruct (grid_complete l x Hx) as (w & Hw & Ew). rewrite <- Ew. apply sorted_hd_le; [apply grid_sorted|exact Hw].
Qed.
Theorem grid_last_max l : l <> [] -> In (last (grid l) 0) l /\ forall x, In x l -> x <= last (grid l) 0.
Proof.
  intro Hne. split.
  - apply grid_sound. apply last_In. apply grid_nonempty. exact Hne.
  - intros x Hx. destruct (grid_complete l x Hx) as (w & Hw & Ew). rewrite <- Ew. apply sorted_last_ge; [apply grid_sorted|exact Hw].
Qed.
Corollary grid_from_0_to_span l S : In 0 l -> In S l -> (forall x, In x l -> 0 <= x <= S) ->
  hd 0 (grid l) == 0 /\ last (grid l) 0 == S.
Proof.
  intros H0 HS B. assert (Hne : l <> []) by (intro E; rewrite E in H0; destruct H0).
  destruct (grid_hd_min l Hne) as [A1 A2]. destruct (grid_last_max l Hne) as [B1 B2]. split.
  - apply Qle_antisym; [apply A2; exact H0|apply B; exact A1].
  - apply Qle_antisym; [apply B; exact B1|apply B2; exact HS].
Qed.

(* ------------------------------------------------------------------ interval widths *)
Fixpoint cdiffs (l : list Q) : list Q := match l with a :: ((b :: _) as r) => rsub b a :: cdiffs r | _ => [] end.
Lemma dh_is_cdiffs l : vsub (ends l) (starts l) = cdiffs l.
Proof.
  unfold ends, starts. induction l as [|a r IH]; [reflexivity|]. destruct r as [|b r']; [reflexivity|].
  change (tl (a :: b :: r')) with (b :: r'). change (removelast (a :: b :: r')) with (a :: removelast (b :: r')).
  destruct r' as [|c r'']; [reflexivity|]. simpl in IH |- *. f_equal. exact IH.
Qed.

Fixpoint sumQ (l : list Q) : Q := match l with x :: r => x + sumQ r | [] => 0 end.

(* every interval has positive width, and the widths add up to the whole range: the intervals partition it *)
Theorem cdiffs_pos l : StronglySorted Qlt l -> Forall (fun d => 0 < d) (cdiffs l).
Proof.
  induction l as [|a r IH]; intro S; [constructor|]. inversion S as [|? ? Sr F]; subst. destruct r as [|b r']; [constructor|].
  simpl. constructor; [|apply IH; exact Sr]. rewrite rsub_eq. rewrite Forall_forall in F. specialize (F b (or_introl eq_refl)). lra.
Qed.
Theorem cdiffs_sum l : l <> [] -> sumQ (cdiffs l) == last l 0 - hd 0 l.
Proof.
  induction l as [|a r IH]; [congruence|]. intros _. destruct r as [|b r']; [simpl; lra|].
  change (cdiffs (a :: b :: r')) with (rsub b a :: cdiffs (b :: r')). change (last (a :: b :: r') 0) with (last (b :: r') 0).
  simpl sumQ. rewrite rsub_eq, IH by discriminate. simpl hd. lra.
Qed.

(* ------------------------------------------------------------------ no break point strictly inside an interval *)
Fixpoint adj (l : list Q) : list (Q * Q) := match l with a :: ((b :: _) as r) => (a, b) :: adj r | _ => [] end.
Lemma adj_is_intervals l : combine (starts l) (ends l) = adj l.
Proof.
  unfold ends, starts. induction l as [|a r IH]; [reflexivity|]. destruct r as [|b r']; [reflexivity|].
  change (tl (a :: b :: r')) with (b :: r'). change (removelast (a :: b :: r')) with (a :: removelast (b :: r')).
  destruct r' as [|c r'']; [reflexivity|]. simpl in IH |- *. f_equal. exact IH.
Qed.
Lemma adj_sep l : StronglySorted Qlt l -> forall a b, In (a, b) (adj l) -> a < b /\ forall z, In z l -> z <= a \/ b <= z.
Proof.
  induction l as [|x r IH]; intros S a b H; [destruct H|]. inversion S as [|? ? Sr F]; subst. rewrite Forall_forall in F.
  destruct r as [|y r']; [destruct H|]. destruct H as [E|H].
  - injection E as <- <-. split; [apply F; left; reflexivity|]. intros z [<-|[<-|Hz]].
    + left. apply Qle_refl.
    + right. apply Qle_refl.
    + right. inversion Sr as [|? ? _ Fy]; subst. rewrite Forall_forall in Fy. apply Qlt_le_weak. apply Fy. exact Hz.
  - destruct (IH Sr a b H) as [Lab Hsep]. split; [exact Lab|]. intros z [<-|Hz]; [|apply Hsep; exact Hz].
    left. assert (Ha : In a (y :: r')).
    { clear - H. revert H. generalize (y :: r'). induction l as [|p q IHl]; intro H; [destruct H|]. destruct q as [|p' q']; [destruct H|].
      destruct H as [E|H]; [injection E as <- _; left; reflexivity|right; apply IHl; exact H]. }
    apply Qlt_le_weak. apply F. exact Ha.
Qed.
(* both composite curves have all their break points ON the grid, none strictly between two neighbouring grid values: each
   curve is affine on every interval *)
Theorem no_breakpoint_inside l a b : In (a, b) (adj (grid l)) -> a < b /\ forall x, In x l -> ~ (a < x /\ x < b).
Proof.
  intro H. destruct (adj_sep _ (grid_sorted l) a b H) as [Lab Hsep]. split; [exact Lab|]. intros x Hx [L1 L2].
  destruct (grid_complete l x Hx) as (w & Hw & Ew). destruct (Hsep w Hw) as [K|K]; rewrite Ew in K; lra.
Qed.
