(* C06 (table half): what ProblemTable.pinch_idx returns, for every residual column. *)
From OP Require Import model.Base model.Cascade model.Pinch proofs.BaseFacts.
From Coq Require Import Lia.
Local Open Scope Q_scope.

Section F.
Variable tolv : Q.
Variable h : list Q.
Let n := List.length h.
Definition zb (j : nat) : bool := isz tolv (nth j h 1).

Lemma first_idx_some f l : forall i k, first_idx f l i = Some k ->
  (i <= k)%nat /\ (k - i < List.length l)%nat /\ f (nth (k - i) l 1) = true /\ forall j, (j < k - i)%nat -> f (nth j l 1) = false.
Proof.
  induction l as [|x r IH]; intros i k E; simpl in E; [discriminate|]. destruct (f x) eqn:F.
  - inversion E; subst. replace (k - k)%nat with O by lia. simpl. repeat split; try lia; auto; intros j Hj; lia.
  - destruct (IH (S i) k E) as [A [B [C D]]]. replace (k - i)%nat with (S (k - S i)) by lia. simpl.
    repeat split; try lia; auto. intros j Hj. destruct j as [|j]; [exact F|]. apply D. lia.
Qed.
Lemma first_idx_none f l : forall i, first_idx f l i = None -> forall j, (j < List.length l)%nat -> f (nth j l 1) = false.
Proof.
  induction l as [|x r IH]; intros i E j Hj; simpl in *; [lia|]. destruct (f x) eqn:F; [discriminate|].
  destruct j as [|j]; [exact F|]. apply (IH (S i) E). lia.
Qed.
Lemma existsb_nth f (l : list Q) : existsb f l = true -> exists j, (j < List.length l)%nat /\ f (nth j l 1) = true.
Proof.
  intro H. apply existsb_exists in H. destruct H as [x [Hx Fx]]. destruct (In_nth l x 1 Hx) as [j [Hj E]].
  exists j. split; [exact Hj|]. rewrite E. exact Fx.
Qed.
Lemma forallb_false_nth f (l : list Q) : forallb f l = false -> exists j, (j < List.length l)%nat /\ f (nth j l 1) = false.
Proof.
  induction l as [|x r IH]; simpl; [discriminate|]. destruct (f x) eqn:F; simpl.
  - intro H. destruct (IH H) as [j [Hj E]]. exists (S j). split; [lia|exact E].
  - intros _. exists O. split; [lia|exact F].
Qed.
Lemma forallb_true_nth f (l : list Q) : forallb f l = true -> forall j, (j < List.length l)%nat -> f (nth j l 1) = true.
Proof. intros H j Hj. rewrite forallb_forall in H. apply H. apply nth_In. exact Hj. Qed.

(* characterisation of the four scans used by pinch_idx *)
Hypothesis Hhas : existsb (isz tolv) h = true.
Hypothesis Hnall : forallb (isz tolv) h = false.

Lemma fz_spec : exists k0, first_idx (isz tolv) h 0 = Some k0 /\ (k0 < n)%nat /\ zb k0 = true /\ forall j, (j < k0)%nat -> zb j = false.
Proof.
  destruct (first_idx (isz tolv) h 0) as [k|] eqn:E.
  - destruct (first_idx_some _ _ _ _ E) as [_ [B [C D]]]. rewrite Nat.sub_0_r in *. exists k. repeat split; auto.
  - destruct (existsb_nth _ _ Hhas) as [j [Hj Fj]]. rewrite (first_idx_none _ _ _ E j Hj) in Fj. discriminate.
Qed.
Lemma nzf_spec : exists k1, first_idx (nz tolv) h 0 = Some k1 /\ (k1 < n)%nat /\ zb k1 = false /\ forall j, (j < k1)%nat -> zb j = true.
Proof.
  destruct (first_idx (nz tolv) h 0) as [k|] eqn:E.
  - destruct (first_idx_some _ _ _ _ E) as [_ [B [C D]]]. rewrite Nat.sub_0_r in *. exists k. unfold nz in *. repeat split; auto.
    + unfold zb. destruct (isz tolv (nth k h 1)); [discriminate|reflexivity].
    + intros j Hj. specialize (D j Hj). unfold zb. destruct (isz tolv (nth j h 1)); [reflexivity|discriminate].
  - destruct (forallb_false_nth _ _ Hnall) as [j [Hj Fj]]. pose proof (first_idx_none _ _ _ E j Hj) as X. unfold nz in X. rewrite Fj in X. discriminate.
Qed.
Lemma rev_zb k : (k < n)%nat -> isz tolv (nth k (rev h) 1) = zb (n - 1 - k).
Proof. intro H. unfold zb. rewrite rev_nth by exact H. f_equal. f_equal. unfold n. lia. Qed.
Lemma lz_spec : exists k2, first_idx (isz tolv) (rev h) 0 = Some k2 /\ (k2 < n)%nat /\ zb (n - 1 - k2) = true
  /\ forall j, (n - 1 - k2 < j)%nat -> (j < n)%nat -> zb j = false.
Proof.
  destruct (first_idx (isz tolv) (rev h) 0) as [k|] eqn:E.
  - destruct (first_idx_some _ _ _ _ E) as [_ [B [C D]]]. rewrite Nat.sub_0_r, rev_length in *. fold n in B. exists k.
    split; [reflexivity|]. split; [exact B|]. split; [rewrite <- rev_zb by exact B; exact C|].
    intros j H1 H2. specialize (D (n - 1 - j)%nat ltac:(lia)). rewrite rev_zb in D by lia. replace (n - 1 - (n - 1 - j))%nat with j in D by lia. exact D.
  - destruct (existsb_nth _ _ Hhas) as [j [Hj Fj]]. fold n in Hj.
    pose proof (first_idx_none _ _ _ E (n - 1 - j)%nat ltac:(rewrite rev_length; fold n; lia)) as X.
    rewrite rev_zb in X by lia. replace (n - 1 - (n - 1 - j))%nat with j in X by lia. unfold zb in X. rewrite Fj in X. discriminate.
Qed.
Lemma nzl_spec : exists k3, first_idx (nz tolv) (rev h) 0 = Some k3 /\ (k3 < n)%nat /\ zb (n - 1 - k3) = false
  /\ forall j, (n - 1 - k3 < j)%nat -> (j < n)%nat -> zb j = true.
Proof.
  destruct (first_idx (nz tolv) (rev h) 0) as [k|] eqn:E.
  - destruct (first_idx_some _ _ _ _ E) as [_ [B [C D]]]. rewrite Nat.sub_0_r, rev_length in *. fold n in B. exists k.
    split; [reflexivity|]. split; [exact B|]. unfold nz in C, D. split.
    + rewrite <- rev_zb by exact B. destruct (isz tolv (nth k (rev h) 1)); [discriminate|reflexivity].
    + intros j H1 H2. specialize (D (n - 1 - j)%nat ltac:(lia)). rewrite rev_zb in D by lia.
      replace (n - 1 - (n - 1 - j))%nat with j in D by lia. destruct (zb j); [reflexivity|discriminate].
  - destruct (forallb_false_nth _ _ Hnall) as [j [Hj Fj]]. fold n in Hj.
    pose proof (first_idx_none _ _ _ E (n - 1 - j)%nat ltac:(rewrite rev_length; fold n; lia)) as X. unfold nz in X.
    rewrite rev_zb in X by lia. replace (n - 1 - (n - 1 - j))%nat with j in X by lia. unfold zb in X. rewrite Fj in X. discriminate.
Qed.

(* the specification of the two pinch rows *)
Definition pinch_rows_spec (rh rc : nat) : Prop :=
  (rh < n)%nat /\ (rc < n)%nat /\ zb rh = true /\ zb rc = true /\ (rh <= rc)%nat /\
  (* zeros above the hot pinch row form a run that reaches the top; symmetrically below the cold pinch row *)
  (forall k, (k < rh)%nat -> zb k = true -> forall j, (j <= rh)%nat -> zb j = true) /\
  (forall k, (rc < k)%nat -> (k < n)%nat -> zb k = true -> forall j, (rc <= j)%nat -> (j < n)%nat -> zb j = true) /\
  (* threshold: if the top row is a zero, the hot pinch row is the last row of that top run *)
  (zb 0 = true -> (forall j, (j <= rh)%nat -> zb j = true) /\ zb (S rh) = false) /\
  (zb (n - 1) = true -> (forall j, (rc <= j)%nat -> (j < n)%nat -> zb j = true) /\ (0 < rc)%nat /\ zb (rc - 1) = false).

Theorem pinch_idx_spec : exists rh rc, pinch_idx tolv h = (rh, rc, true) /\ pinch_rows_spec rh rc.
Proof.
  destruct fz_spec as [k0 [E0 [B0 [Z0 N0]]]]. destruct nzf_spec as [k1 [E1 [B1 [Z1 N1]]]].
  destruct lz_spec as [k2 [E2 [B2 [Z2 N2]]]]. destruct nzl_spec as [k3 [E3 [B3 [Z3 N3]]]].
  unfold pinch_idx. fold n. rewrite Hhas, Hnall, E0, E1, E2, E3. cbn [andb negb].
  set (rh := if (0 <? k0)%nat then k0 else (k1 - 1)%nat).
  set (lz := (n - 1 - k2)%nat).
  set (rc := if (lz <? n - 1)%nat then lz else (n - k3)%nat).
  (* facts about rh *)
  assert (Hrh : (rh < n)%nat /\ zb rh = true /\ (k0 <= rh)%nat /\ (rh < k1 \/ 0 < k0)%nat /\
                (k0 = 0%nat -> rh = (k1 - 1)%nat /\ (0 < k1)%nat) /\ ((0 < k0)%nat -> rh = k0)).
  { unfold rh. destruct (0 <? k0)%nat eqn:C; [apply Nat.ltb_lt in C|apply Nat.ltb_ge in C].
    - repeat split; try lia; auto.
    - assert (k0 = 0)%nat by lia. subst k0. assert (0 < k1)%nat.
      { destruct k1; [rewrite Z0 in Z1; discriminate|lia]. }
      repeat split; try lia. apply N1. lia. }
  destruct Hrh as [R1 [R2 [R3 [R4 [R5 R6]]]]].
  assert (Hrc : (rc < n)%nat /\ zb rc = true /\ (rc <= lz)%nat /\
                (lz = (n - 1)%nat -> rc = (n - k3)%nat /\ (0 < k3)%nat) /\ ((lz < n - 1)%nat -> rc = lz)).
  { unfold rc. destruct (lz <? n - 1)%nat eqn:C; [apply Nat.ltb_lt in C|apply Nat.ltb_ge in C].
    - unfold lz in *. repeat split; try lia; auto.
    - assert (k2 = 0)%nat by (unfold lz in C; lia). subst k2. assert (0 < k3)%nat.
      { destruct k3; [rewrite Nat.sub_0_r in *; rewrite Z2 in Z3; discriminate|lia]. }
      unfold lz. repeat split; try lia. apply N3; lia. }
  destruct Hrc as [C1 [C2 [C3 [C4 C5]]]].
  assert (Hord : (rh <= rc)%nat).
  { destruct (Nat.eq_dec k0 0) as [K|K]; destruct (Nat.eq_dec lz (n - 1)) as [L|L].
    - destruct (R5 K) as [-> P1]. destruct (C4 L) as [-> P3].
      (* k1 is a non-zero row, rows >= n-k3 are zeros *)
      destruct (Nat.lt_ge_cases k1 (n - k3)) as [X|X]; [lia|]. rewrite (N3 k1 ltac:(lia) B1) in Z1. discriminate.
    - destruct (R5 K) as [-> P1]. rewrite (C5 ltac:(lia)).
      destruct (Nat.lt_ge_cases lz (k1 - 1)) as [X|X]; [|lia]. unfold lz in X. exfalso.
      assert (H : zb (k1 - 1) = true) by (apply N1; lia). rewrite (N2 (k1 - 1)%nat ltac:(lia) ltac:(lia)) in H. discriminate.
    - rewrite (R6 ltac:(lia)). destruct (C4 L) as [-> P3].
      destruct (Nat.lt_ge_cases (n - k3) k0) as [X|X]; [|lia]. exfalso.
      assert (H : zb (n - k3) = true) by (apply N3; lia). rewrite (N0 (n - k3)%nat X) in H. discriminate.
    - rewrite (R6 ltac:(lia)), (C5 ltac:(lia)).
      destruct (Nat.lt_ge_cases lz k0) as [X|X]; [|lia]. unfold lz in X. rewrite (N2 k0 ltac:(lia) B0) in Z0. discriminate. }
  exists rh, rc. split.
  - assert (Hb : (rh <=? rc)%nat = true) by (apply Nat.leb_le; exact Hord). rewrite Hb. reflexivity.
  - unfold pinch_rows_spec. repeat split; auto.
    + (* zeros above rh *) intros k Hk Zk j Hj. destruct (Nat.eq_dec k0 0) as [K|K].
      * destruct (R5 K) as [E P1]. apply N1. lia.
      * rewrite (R6 ltac:(lia)) in Hk. rewrite (N0 k Hk) in Zk. discriminate.
    + (* zeros below rc *) intros k Hk Hkn Zk j Hj Hjn. destruct (Nat.eq_dec lz (n - 1)) as [L|L].
      * destruct (C4 L) as [E P3]. apply N3; lia.
      * rewrite (C5 ltac:(lia)) in Hk. unfold lz in Hk. rewrite (N2 k Hk Hkn) in Zk. discriminate.
    + intros j Hj. assert (k0 = 0)%nat by (destruct k0; [reflexivity|rewrite (N0 O ltac:(lia)) in H; discriminate]).
      destruct (R5 H0) as [E P1]. apply N1. lia.
    + assert (k0 = 0)%nat by (destruct k0; [reflexivity|rewrite (N0 O ltac:(lia)) in H; discriminate]).
      destruct (R5 H0) as [E P1]. rewrite E. replace (S (k1 - 1)) with k1 by lia. exact Z1.
    + intros j Hj Hjn. assert (L : lz = (n - 1)%nat).
      { unfold lz. destruct k2; [lia|]. rewrite (N2 (n - 1)%nat ltac:(lia) ltac:(lia)) in H. discriminate. }
      destruct (C4 L) as [E P3]. apply N3; lia.
    + assert (L : lz = (n - 1)%nat).
      { unfold lz. destruct k2; [lia|]. rewrite (N2 (n - 1)%nat ltac:(lia) ltac:(lia)) in H. discriminate. }
      destruct (C4 L) as [E P3]. lia.
    + assert (L : lz = (n - 1)%nat).
      { unfold lz. destruct k2; [lia|]. rewrite (N2 (n - 1)%nat ltac:(lia) ltac:(lia)) in H. discriminate. }
      destruct (C4 L) as [E P3]. rewrite E. replace (n - k3 - 1)%nat with (n - 1 - k3)%nat by lia. exact Z3.
Qed.
End F.

(* a pinch is reported as absent exactly when the residual column has no zero, or (D18) is zero on every row *)
Theorem absent_iff tolv h : (2 <= List.length h)%nat ->
  (snd (pinch_idx tolv h) = false <-> (existsb (isz tolv) h = false \/ forallb (isz tolv) h = true)).
Proof.
  intro Hn. destruct (existsb (isz tolv) h) eqn:Hh; destruct (forallb (isz tolv) h) eqn:Ha.
  - split; [intros _; right; reflexivity|]. intros _. unfold pinch_idx. rewrite Hh, Ha. simpl.
    apply Nat.leb_gt. lia.
  - destruct (pinch_idx_spec tolv h Hh Ha) as [rh [rc [E _]]]. rewrite E. simpl. split; [discriminate|intros [X|X]; discriminate].
  - split; [intros _; left; reflexivity|]. intros _. unfold pinch_idx. rewrite Hh. simpl. apply Nat.leb_gt. lia.
  - split; [intros _; left; reflexivity|]. intros _. unfold pinch_idx. rewrite Hh. simpl. apply Nat.leb_gt. lia.
Qed.
