(* C03/C04, abstract layer: a utility ladder as a list of "caps" (the demand reachable by each utility, in the order
   the code visits them).  `Alloc a cs qs` says: starting from the assigned total `a`, every duty q_k is non-negative and
   at most thr (c_k - assigned so far); utilities flagged exact get exactly that.  Every result below is by induction
   over the ladder: no bound on its length. *)
From OP Require Import gen.Consts model.Base model.Utility proofs.BaseFacts.
From Coq Require Import Lqa Lia.
Local Open Scope Q_scope.

Lemma qmax_cases a b : (a <= b /\ Qmax a b == b) \/ (b <= a /\ Qmax a b == a).
Proof. destruct (Q.max_spec a b) as [[H E]|[H E]]; [left|right]; split; try lra; exact E. Qed.
Lemma qmin_cases a b : (a <= b /\ Qmin a b == a) \/ (b <= a /\ Qmin a b == b).
Proof. destruct (Q.min_spec a b) as [[H E]|[H E]]; [left|right]; split; try lra; exact E. Qed.
Lemma qmax_ub_l a b : a <= Qmax a b. Proof. destruct (qmax_cases a b) as [[? E]|[? E]]; lra. Qed.
Lemma qmax_ub_r a b : b <= Qmax a b. Proof. destruct (qmax_cases a b) as [[? E]|[? E]]; lra. Qed.
Lemma qmax_lub a b c : a <= c -> b <= c -> Qmax a b <= c.
Proof. intros. destruct (qmax_cases a b) as [[? E]|[? E]]; lra. Qed.
Lemma qmax_eq_compat a a' b b' : a == a' -> b == b' -> Qmax a b == Qmax a' b'.
Proof. intros. destruct (qmax_cases a b) as [[? E]|[? E]], (qmax_cases a' b') as [[? E']|[? E']]; lra. Qed.

Lemma qsum_cons x l : qsum (x :: l) == x + qsum l.
Proof. unfold qsum. cbn [fold_right]. apply Qred_correct. Qed.
Lemma qsum_nil : qsum [] == 0. Proof. reflexivity. Qed.
Lemma qsum_nonneg l : Forall (fun q => 0 <= q) l -> 0 <= qsum l.
Proof. induction 1 as [|x l Hx _ IH]; [rewrite qsum_nil; lra|rewrite qsum_cons; lra]. Qed.
Lemma qsum_zeros {A} (l : list A) : qsum (zeros l) == 0.
Proof. induction l as [|x l IH]; [reflexivity|]. change (zeros (x :: l)) with (0 :: zeros l). rewrite qsum_cons, IH. lra. Qed.
Lemma qsum_app l1 l2 : qsum (l1 ++ l2) == qsum l1 + qsum l2.
Proof. induction l1 as [|x l IH]; cbn [app]; [rewrite qsum_nil; lra|rewrite !qsum_cons, IH; lra]. Qed.
Lemma qsum_rev l : qsum (rev l) == qsum l.
Proof. induction l as [|x l IH]; cbn [rev]; [reflexivity|]. rewrite qsum_app, !qsum_cons, qsum_nil, IH. lra. Qed.

Section Ladder.
Variable tolv : Q.
Hypothesis tol_pos : 0 < tolv.

Lemma thr_cases x : (tolv < x /\ thr tolv x = x) \/ (x <= tolv /\ thr tolv x = 0).
Proof. unfold thr. destruct (qltb tolv x) eqn:E; [left|right]; split; auto.
  - apply qltb_true; exact E.  - apply qltb_false; exact E. Qed.
Lemma thr_nonneg x : 0 <= thr tolv x.
Proof. destruct (thr_cases x) as [[H E]|[H E]]; rewrite E; lra. Qed.
Lemma thr_eq x y : x == y -> thr tolv x == thr tolv y.
Proof. intro H. destruct (thr_cases x) as [[H1 E1]|[H1 E1]], (thr_cases y) as [[H2 E2]|[H2 E2]]; rewrite E1, E2; lra. Qed.

(* caps carry a flag: true = the utility gets exactly thr (cap - assigned) *)
Inductive Alloc : Q -> list (Q * bool) -> list Q -> Prop :=
| Alloc_nil a : Alloc a [] []
| Alloc_cons a a' c e q cs qs :
    0 <= q -> q <= thr tolv (c - a) -> (e = true -> q == thr tolv (c - a)) -> a' == a + q ->
    Alloc a' cs qs -> Alloc a ((c, e) :: cs) (q :: qs).

Definition caps (cs : list (Q * bool)) : list Q := map fst cs.
Definition all_exact (cs : list (Q * bool)) : Prop := Forall (fun p => snd p = true) cs.

Lemma alloc_eq a b cs qs : a == b -> Alloc a cs qs -> Alloc b cs qs.
Proof.
  intros E H. destruct H as [|a a' c e q cs qs H0 H1 H2 H3 H4]; [constructor|].
  apply Alloc_cons with (a' := a'); auto.
  - rewrite <- (thr_eq (c - a) (c - b)) by lra. exact H1.
  - intro He. rewrite <- (thr_eq (c - a) (c - b)) by lra. auto.
  - lra.
Qed.

Lemma alloc_length a cs qs : Alloc a cs qs -> List.length qs = List.length cs.
Proof. induction 1; simpl; congruence. Qed.

(* the design spike's loop is an allocation in which every step is exact *)
Lemma greedy_alloc P : forall a, Alloc a (map (fun c => (c, true)) P) (greedy tolv a P).
Proof.
  induction P as [|p r IH]; intro a; simpl; [constructor|].
  apply Alloc_cons with (a' := a + thr tolv (p - a)).
  - apply thr_nonneg.  - apply Qle_refl.  - intros _. reflexivity.  - reflexivity.  - apply IH.
Qed.

(* ---- duties are non-negative ---- *)
Lemma alloc_nonneg a cs qs : Alloc a cs qs -> Forall (fun q => 0 <= q) qs.
Proof. induction 1; constructor; auto. Qed.

(* ---- running maximum ---- *)
Lemma runmax_mono l : forall a b, a <= b -> Forall2 Qle (runmax a l) (runmax b l).
Proof.
  induction l as [|x l IH]; intros a b H; simpl; constructor.
  - destruct (qmax_cases a x) as [[? E]|[? E]], (qmax_cases b x) as [[? E']|[? E']]; lra.
  - apply IH. destruct (qmax_cases a x) as [[? E]|[? E]], (qmax_cases b x) as [[? E']|[? E']]; lra.
Qed.
Lemma runmax_eq l : forall a b, a == b -> Forall2 Qeq (runmax a l) (runmax b l).
Proof.
  induction l as [|x l IH]; intros a b H; simpl; constructor.
  - apply qmax_eq_compat; [exact H|reflexivity].
  - apply IH. apply qmax_eq_compat; [exact H|reflexivity].
Qed.
Lemma Forall2_le_trans l1 : forall l2 l3, Forall2 Qle l1 l2 -> Forall2 Qle l2 l3 -> Forall2 Qle l1 l3.
Proof. induction l1; intros l2 l3 H1 H2; inversion H1; subst; inversion H2; subst; constructor; [lra|eauto]. Qed.
Lemma prefix_eq l : forall a b, a == b -> Forall2 Qeq (prefix_sums a l) (prefix_sums b l).
Proof. induction l as [|x l IH]; intros a b H; simpl; constructor; [lra|apply IH; lra]. Qed.
Lemma prefix_le l : forall a b, a <= b -> Forall2 Qle (prefix_sums a l) (prefix_sums b l).
Proof. induction l as [|x l IH]; intros a b H; simpl; constructor; [lra|apply IH; lra]. Qed.
Lemma Forall2_eq_le_trans l1 : forall l2 l3, Forall2 Qeq l1 l2 -> Forall2 Qle l2 l3 -> Forall2 Qle l1 l3.
Proof. induction l1; intros l2 l3 H1 H2; inversion H1; subst; inversion H2; subst; constructor; [lra|eauto]. Qed.

(* ---- upper bound: after utility k the assigned total is at most the running maximum of the caps.
        Holds for every ladder (gliding utilities included): nothing is ever over-allocated. ---- *)
Lemma alloc_prefix_le a cs qs : Alloc a cs qs -> Forall2 Qle (prefix_sums a qs) (runmax a (caps cs)).
Proof.
  induction 1 as [|a a' c e q cs qs H0 H1 H2 H3 H4 IH]; simpl; [constructor|].
  assert (Hle : a + q <= Qmax a c).
  { destruct (thr_cases (c - a)) as [[Ht E]|[Ht E]]; rewrite E in H1;
    destruct (qmax_cases a c) as [[? Em]|[? Em]]; lra. }
  constructor; [exact Hle|].
  eapply Forall2_eq_le_trans; [apply prefix_eq with (b := a'); lra|].
  eapply Forall2_le_trans; [exact IH|]. apply runmax_mono. lra.
Qed.

Lemma alloc_total_le a cs qs B : Alloc a cs qs -> a <= B -> Forall (fun c => c <= B) (caps cs) -> a + qsum qs <= B.
Proof.
  induction 1 as [|a a' c e q cs qs H0 H1 H2 H3 H4 IH]; intros Ha Hc.
  - rewrite qsum_nil. lra.
  - unfold caps in Hc. cbn [map fst] in Hc. inversion Hc as [|x l Hx Hl]; subst. rewrite qsum_cons.
    assert (a' <= B). { destruct (thr_cases (c - a)) as [[Ht E]|[Ht E]]; rewrite E in H1; lra. }
    specialize (IH H Hl). lra.
Qed.

Lemma alloc_total_ge a cs qs : Alloc a cs qs -> a <= a + qsum qs.
Proof. intro H. pose proof (qsum_nonneg _ (alloc_nonneg _ _ _ H)). lra. Qed.

(* ---- lower bound: once an exact utility with cap c has been served, at least c - tol is assigned ---- *)
Lemma alloc_total_reach a cs qs c : Alloc a cs qs -> In (c, true) cs -> c - tolv <= a + qsum qs.
Proof.
  induction 1 as [|a a' c0 e q cs qs H0 H1 H2 H3 H4 IH]; intros Hin; [inversion Hin|].
  rewrite qsum_cons. destruct Hin as [Heq|Hin].
  - inversion Heq; subst. specialize (H2 eq_refl).
    pose proof (alloc_total_ge _ _ _ H4).
    destruct (thr_cases (c - a)) as [[Ht E]|[Ht E]]; rewrite E in H2; lra.
  - specialize (IH Hin). lra.
Qed.

(* ---- the C03 sum, tolerance form: if some exact utility reaches the whole demand B and no cap exceeds B, the duties sum
        to B up to tol -- whatever the other (possibly gliding) utilities of the ladder do ---- *)
Theorem alloc_sum_closes cs qs B :
  Alloc 0 cs qs -> 0 <= B -> Forall (fun c => c <= B) (caps cs) -> In (B, true) cs -> B - tolv <= qsum qs <= B.
Proof.
  intros H HB Hc Hin. pose proof (alloc_total_le _ _ _ B H HB Hc). pose proof (alloc_total_reach _ _ _ B H Hin). lra.
Qed.

(* ---- all utilities exact: prefix sums are the running maximum, up to tol without any robustness hypothesis ---- *)
Lemma alloc_exact_prefix_tol a m cs qs :
  Alloc a cs qs -> all_exact cs -> m - tolv <= a -> a <= m ->
  Forall2 (fun s r => r - tolv <= s /\ s <= r) (prefix_sums a qs) (runmax m (caps cs)).
Proof.
  intros H. revert m. induction H as [|a a' c e q cs qs H0 H1 H2 H3 H4 IH]; intros m Hex Hlo Hhi; simpl; [constructor|].
  inversion Hex as [|x l Hx Hl]; subst. simpl in Hx. specialize (H2 Hx).
  assert (Hb : Qmax m c - tolv <= a + q /\ a + q <= Qmax m c).
  { destruct (thr_cases (c - a)) as [[Ht E]|[Ht E]]; rewrite E in H2;
    destruct (qmax_cases m c) as [[? Em]|[? Em]]; lra. }
  constructor; [exact Hb|].
  assert (IH' := IH (Qmax m c) Hl). clear IH.
  assert (Hp : Forall2 Qeq (prefix_sums (a + q) qs) (prefix_sums a' qs)) by (apply prefix_eq; lra).
  assert (G : Forall2 (fun s r => r - tolv <= s /\ s <= r) (prefix_sums a' qs) (runmax (Qmax m c) (caps cs))) by (apply IH'; lra).
  clear - Hp G. revert Hp G. generalize (prefix_sums (a + q) qs) (prefix_sums a' qs) (runmax (Qmax m c) (caps cs)).
  induction l as [|x l IHl]; intros l2 l3 Hp G; inversion Hp; subst; inversion G; subst; constructor; [lra|eauto].
Qed.

(* Robust ladder: every cap is either not above what is already assigned or more than tol above it *)
Fixpoint steps_ok (prev : Q) (P : list Q) : Prop :=
  match P with [] => True | p :: r => (p <= prev \/ prev + tolv < p) /\ steps_ok (Qmax prev p) r end.
Lemma steps_ok_eq P : forall a b, a == b -> steps_ok a P -> steps_ok b P.
Proof.
  induction P as [|p r IH]; intros a b E H; simpl in *; [exact I|]. destruct H as [H1 H2]. split.
  - destruct H1; [left|right]; lra.
  - eapply IH; [|exact H2]. apply qmax_eq_compat; [exact E|reflexivity].
Qed.

Lemma alloc_exact_prefix a cs qs :
  Alloc a cs qs -> all_exact cs -> steps_ok a (caps cs) -> Forall2 Qeq (prefix_sums a qs) (runmax a (caps cs)).
Proof.
  induction 1 as [|a a' c e q cs qs H0 H1 H2 H3 H4 IH]; intros Hex Hs; simpl; [constructor|].
  inversion Hex as [|x l Hx Hl]; subst. simpl in Hx. specialize (H2 Hx). simpl in Hs. destruct Hs as [Hs1 Hs2].
  assert (Hb : a + q == Qmax a c).
  { destruct (thr_cases (c - a)) as [[Ht E]|[Ht E]]; rewrite E in H2;
    destruct (qmax_cases a c) as [[? Em]|[? Em]]; destruct Hs1; lra. }
  constructor; [exact Hb|].
  assert (E' : a' == Qmax a c) by lra.
  assert (G := IH Hl (steps_ok_eq _ _ _ (Qeq_sym _ _ E') Hs2)).
  assert (Hp : Forall2 Qeq (prefix_sums (a + q) qs) (prefix_sums a' qs)) by (apply prefix_eq; lra).
  assert (Hr : Forall2 Qeq (runmax a' (caps cs)) (runmax (Qmax a c) (caps cs))) by (apply runmax_eq; exact E').
  clear - Hp G Hr. revert Hp G Hr.
  generalize (prefix_sums (a + q) qs) (prefix_sums a' qs) (runmax a' (caps cs)) (runmax (Qmax a c) (caps cs)).
  induction l as [|x l IHl]; intros l2 l3 l4 Hp G Hr; inversion Hp; subst; inversion G; subst; inversion Hr; subst; constructor; [lra|eauto].
Qed.

(* closed form of the duties themselves: increase of the running maximum; P_k - P_{k-1} on an ascending ladder *)
Lemma alloc_exact_incs a cs qs :
  Alloc a cs qs -> all_exact cs -> steps_ok a (caps cs) -> Forall2 Qeq qs (incs a (caps cs)).
Proof.
  induction 1 as [|a a' c e q cs qs H0 H1 H2 H3 H4 IH]; intros Hex Hs; simpl; [constructor|].
  inversion Hex as [|x l Hx Hl]; subst. simpl in Hx. specialize (H2 Hx). simpl in Hs. destruct Hs as [Hs1 Hs2].
  assert (Hb : a + q == Qmax a c).
  { destruct (thr_cases (c - a)) as [[Ht E]|[Ht E]]; rewrite E in H2;
    destruct (qmax_cases a c) as [[? Em]|[? Em]]; destruct Hs1; lra. }
  constructor; [lra|].
  assert (E' : a' == Qmax a c) by lra.
  assert (G := IH Hl (steps_ok_eq _ _ _ (Qeq_sym _ _ E') Hs2)).
  assert (Hi : forall l x y, x == y -> Forall2 Qeq (incs x l) (incs y l)).
  { clear. induction l as [|p l IHl]; intros x y E; simpl; constructor.
    - pose proof (qmax_eq_compat x y p p E (Qeq_refl p)). lra.
    - apply IHl. apply qmax_eq_compat; [exact E|reflexivity]. }
  specialize (Hi (caps cs) _ _ E').
  clear - G Hi. revert G Hi. generalize (incs a' (caps cs)) (incs (Qmax a c) (caps cs)).
  induction qs as [|x l IHl]; intros l2 l3 G Hi; inversion G; subst; inversion Hi; subst; constructor; [lra|eauto].
Qed.

Fixpoint ascending (prev : Q) (P : list Q) : Prop :=
  match P with [] => True | p :: r => prev <= p /\ ascending p r end.
Lemma incs_diffs P : forall a, ascending a P -> Forall2 Qeq (incs a P) (diffs a P).
Proof.
  induction P as [|p r IH]; intros a H; simpl in *; [constructor|]. destruct H as [H1 H2].
  destruct (qmax_cases a p) as [[? E]|[? E]]; constructor; try lra.
  - assert (G := IH p H2).
    assert (Hi : forall l x y, x == y -> Forall2 Qeq (incs x l) (incs y l)).
    { clear. induction l as [|q l IHl]; intros x y E; simpl; constructor.
      - pose proof (qmax_eq_compat x y q q E (Qeq_refl q)). lra.
      - apply IHl. apply qmax_eq_compat; [exact E|reflexivity]. }
    specialize (Hi r _ _ E). clear - G Hi. revert G Hi. generalize (incs (Qmax a p) r) (incs p r) (diffs p r).
    induction l as [|x l IHl]; intros l2 l3 G Hi; inversion Hi; subst; inversion G; subst; constructor; [lra|eauto].
  - assert (Ep : a == p) by lra.
    assert (G := IH p H2).
    assert (Hi : forall l x y, x == y -> Forall2 Qeq (incs x l) (incs y l)).
    { clear. induction l as [|q l IHl]; intros x y E0; simpl; constructor.
      - pose proof (qmax_eq_compat x y q q E0 (Qeq_refl q)). lra.
      - apply IHl. apply qmax_eq_compat; [exact E0|reflexivity]. }
    assert (Em : Qmax a p == p) by lra.
    specialize (Hi r _ _ Em). clear - G Hi. revert G Hi. generalize (incs (Qmax a p) r) (incs p r) (diffs p r).
    induction l as [|x l IHl]; intros l2 l3 G Hi; inversion Hi; subst; inversion G; subst; constructor; [lra|eauto].
Qed.

Lemma Forall2_eq_trans l1 : forall l2 l3, Forall2 Qeq l1 l2 -> Forall2 Qeq l2 l3 -> Forall2 Qeq l1 l3.
Proof. induction l1; intros l2 l3 H1 H2; inversion H1; subst; inversion H2; subst; constructor; [lra|eauto]. Qed.
Lemma Forall2_eq_sym l1 : forall l2, Forall2 Qeq l1 l2 -> Forall2 Qeq l2 l1.
Proof. induction l1; intros l2 H1; inversion H1; subst; constructor; [lra|eauto]. Qed.

Theorem alloc_closed_form a cs qs :
  Alloc a cs qs -> all_exact cs -> steps_ok a (caps cs) -> ascending a (caps cs) -> Forall2 Qeq qs (diffs a (caps cs)).
Proof. intros H He Hs Ha. eapply Forall2_eq_trans; [apply alloc_exact_incs; eauto|apply incs_diffs; exact Ha]. Qed.

(* exact allocations from equal starting totals give equal duties: the implementation's loop equals the spec loop *)
Lemma alloc_exact_unique cs : forall a b qs qs', a == b -> all_exact cs -> Alloc a cs qs -> Alloc b cs qs' -> Forall2 Qeq qs qs'.
Proof.
  induction cs as [|[c e] cs IH]; intros a b qs qs' E Hex H1 H2.
  - inversion H1; subst; inversion H2; subst; constructor.
  - inversion H1 as [|a1 a1' c1 e1 q1 cs1 qs1 A0 A1 A2 A3 A4]; subst.
    inversion H2 as [|b1 b1' c2 e2 q2 cs2 qs2 B0 B1 B2 B3 B4]; subst.
    inversion Hex as [|x l Hx Hl]; subst. simpl in Hx.
    assert (Eq : q1 == q2). { rewrite (A2 Hx), (B2 Hx). apply thr_eq. lra. }
    constructor; [exact Eq|]. eapply (IH a1' b1'); [lra|exact Hl|exact A4|exact B4].
Qed.

(* ---- masked sums (feasibility at a level): the utilities whose cap is at most B carry together at most B ---- *)
Fixpoint msum (mask : list bool) (l : list Q) : Q :=
  match mask, l with b :: m, x :: r => (if b then x else 0) + msum m r | _, _ => 0 end.

Lemma alloc_masked a cs qs B : Alloc a cs qs ->
  forall mask, Forall2 (fun (b : bool) p => b = true -> fst p <= B) mask cs -> msum mask qs <= Qmax 0 (B - a).
Proof.
  induction 1 as [|a a' c e q cs qs H0 H1 H2 H3 H4 IH]; intros mask Hm.
  - inversion Hm; subst. simpl. apply qmax_ub_l.
  - inversion Hm as [|b p l l' Hb Hl]; subst. simpl. specialize (IH _ Hl). simpl in Hb.
    destruct (qmax_cases 0 (B - a')) as [[? E']|[? E']]; destruct (qmax_cases 0 (B - a)) as [[? E]|[? E]];
      destruct (thr_cases (c - a)) as [[Ht Et]|[Ht Et]]; rewrite Et in H1; destruct b; try specialize (Hb eq_refl); lra.
Qed.

(* ---- optimality: an exact (lowest-grade-first) allocation dominates, prefix by prefix, every allocation whose prefix
        sums stay under the running maximum of the reachable demand (for an ascending ladder: under P itself) ---- *)
Theorem alloc_dominates a cs qs q' :
  Alloc a cs qs -> all_exact cs -> steps_ok a (caps cs) ->
  Forall2 Qle (prefix_sums a q') (runmax a (caps cs)) ->
  Forall2 (fun s s' => s' <= s) (prefix_sums a qs) (prefix_sums a q').
Proof.
  intros H He Hs Hf. pose proof (alloc_exact_prefix _ _ _ H He Hs) as Hc.
  revert Hc Hf. generalize (prefix_sums a qs) (prefix_sums a q') (runmax a (caps cs)). clear.
  induction l as [|x l IH]; intros l2 l3 Hc Hf; inversion Hc; subst; inversion Hf; subst; constructor; [lra|eauto].
Qed.
Theorem alloc_dominates_tol a cs qs q' :
  Alloc a cs qs -> all_exact cs ->
  Forall2 Qle (prefix_sums a q') (runmax a (caps cs)) ->
  Forall2 (fun s s' => s' - tolv <= s) (prefix_sums a qs) (prefix_sums a q').
Proof.
  intros H He Hf. assert (Hc := alloc_exact_prefix_tol a a cs qs H He).
  assert (Hc' : Forall2 (fun s r => r - tolv <= s /\ s <= r) (prefix_sums a qs) (runmax a (caps cs))) by (apply Hc; lra).
  revert Hc' Hf. generalize (prefix_sums a qs) (prefix_sums a q') (runmax a (caps cs)). clear.
  induction l as [|x l IH]; intros l2 l3 Hc Hf; inversion Hc; subst; inversion Hf; subst; constructor; [lra|eauto].
Qed.
Lemma runmax_ascending P : forall a, ascending a P -> Forall2 Qeq (runmax a P) P.
Proof.
  induction P as [|p r IH]; intros a H; simpl in *; [constructor|]. destruct H as [H1 H2].
  destruct (qmax_cases a p) as [[? E]|[? E]]; constructor; try lra.
  - eapply Forall2_eq_trans; [apply runmax_eq; exact E|apply IH; exact H2].
  - eapply Forall2_eq_trans; [apply runmax_eq with (b := p); lra|apply IH; exact H2].
Qed.

(* ---- the same facts stated for the specification loop `greedy` itself (the design spike's statements) ---- *)
Lemma caps_map P : caps (map (fun c : Q => (c, true)) P) = P.
Proof. unfold caps. rewrite map_map. cbn [fst]. apply map_id. Qed.
Lemma all_exact_map P : all_exact (map (fun c : Q => (c, true)) P).
Proof. unfold all_exact. apply Forall_forall. intros p Hp. apply in_map_iff in Hp. destruct Hp as [c [<- _]]. reflexivity. Qed.

Theorem greedy_nonneg a P : Forall (fun q => 0 <= q) (greedy tolv a P).
Proof. exact (alloc_nonneg _ _ _ (greedy_alloc P a)). Qed.
Theorem greedy_prefix a P : steps_ok a P -> Forall2 Qeq (prefix_sums a (greedy tolv a P)) (runmax a P).
Proof. intro H. rewrite <- (caps_map P) at 2. apply alloc_exact_prefix; [apply greedy_alloc|apply all_exact_map|rewrite caps_map; exact H]. Qed.
Theorem greedy_prefix_tol a P : Forall2 (fun s r => r - tolv <= s /\ s <= r) (prefix_sums a (greedy tolv a P)) (runmax a P).
Proof. rewrite <- (caps_map P) at 2. apply alloc_exact_prefix_tol; [apply greedy_alloc|apply all_exact_map|lra|lra]. Qed.
Theorem greedy_incs a P : steps_ok a P -> Forall2 Qeq (greedy tolv a P) (incs a P).
Proof. intro H. rewrite <- (caps_map P) at 2. apply alloc_exact_incs; [apply greedy_alloc|apply all_exact_map|rewrite caps_map; exact H]. Qed.
Theorem greedy_diffs a P : steps_ok a P -> ascending a P -> Forall2 Qeq (greedy tolv a P) (diffs a P).
Proof. intros H Ha. rewrite <- (caps_map P) at 2. apply alloc_closed_form; [apply greedy_alloc|apply all_exact_map|rewrite caps_map; exact H|rewrite caps_map; exact Ha]. Qed.
Theorem greedy_dominates a P q' : steps_ok a P -> Forall2 Qle (prefix_sums a q') (runmax a P) ->
  Forall2 (fun s s' => s' <= s) (prefix_sums a (greedy tolv a P)) (prefix_sums a q').
Proof. intros H Hf. apply alloc_dominates with (cs := map (fun c => (c, true)) P); [apply greedy_alloc|apply all_exact_map|rewrite caps_map; exact H|rewrite caps_map; exact Hf]. Qed.
Theorem greedy_dominates_tol a P q' : Forall2 Qle (prefix_sums a q') (runmax a P) ->
  Forall2 (fun s s' => s' - tolv <= s) (prefix_sums a (greedy tolv a P)) (prefix_sums a q').
Proof. intros Hf. apply alloc_dominates_tol with (cs := map (fun c => (c, true)) P); [apply greedy_alloc|apply all_exact_map|rewrite caps_map; exact Hf]. Qed.
(* ascending ladder (distinct levels, lowest grade first): feasibility of q' = prefix sums under P itself *)
Theorem greedy_dominates_ascending a P q' : steps_ok a P -> ascending a P -> Forall2 Qle (prefix_sums a q') P ->
  Forall2 (fun s s' => s' <= s) (prefix_sums a (greedy tolv a P)) (prefix_sums a q').
Proof.
  intros H Ha Hf. apply greedy_dominates; [exact H|].
  pose proof (runmax_ascending P a Ha) as Hr. revert Hf Hr. generalize (prefix_sums a q') (runmax a P). clear.
  intros l1 l2. revert l1 l2. induction P as [|p r IH]; intros l1 l2 Hf Hr; inversion Hf; subst; inversion Hr; subst; constructor; [lra|eauto].
Qed.
Theorem greedy_sum P B : 0 <= B -> Forall (fun c => c <= B) P -> In B P -> B - tolv <= qsum (greedy tolv 0 P) <= B.
Proof.
  intros HB Hc Hin. apply alloc_sum_closes with (cs := map (fun c => (c, true)) P); [apply greedy_alloc|exact HB|rewrite caps_map; exact Hc|].
  apply in_map_iff. exists B. split; [reflexivity|exact Hin].
Qed.
End Ladder.
