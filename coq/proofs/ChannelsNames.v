(* C16, sheet-name allocation: _sanitize_sheet_name / _unique_sheet_name / the `used` loop of _write_problem_tables
   (model/Channels.v).  Every generated constant (gen/ChannelsGen.v) enters only through the "constant facts" of the
   first section, each proved by computation; if a literal of the source changes so that a fact becomes false, the
   fact fails to compile.  No axioms. *)
From Coq Require Import String Ascii List Arith Lia Bool DecimalString Decimal DecimalNat FinFun.
From OP Require Import gen.Consts gen.ChannelsGen model.Base model.Channels.
Import ListNotations.
Local Open Scope string_scope.
Local Open Scope nat_scope.

Local Notation nf := (fun c => negb (forbidden_b c)).
Local Notation apo := (is_char apostrophe).
Local Notation slen := String.length.

(* decimal digit '0'..'9' *)
Definition is_dec (c : ascii) : bool := (48 <=? code c) && (code c <=? 57).

(* ================================================================== constant facts (by computation) *)
Lemma F_strip_char : sheet_strip_char = apostrophe.
Proof. vm_compute; reflexivity. Qed.
Lemma F_rstrip_char : sheet_rstrip_char = apostrophe.
Proof. vm_compute; reflexivity. Qed.
Lemma F_trunc_le : sheet_trunc <= excel_max_len.
Proof. apply Nat.leb_le; vm_compute; reflexivity. Qed.
Lemma F_budget_limit : sheet_budget <= sheet_limit.
Proof. apply Nat.leb_le; vm_compute; reflexivity. Qed.
Lemma F_limit_le : sheet_limit <= excel_max_len.
Proof. apply Nat.leb_le; vm_compute; reflexivity. Qed.
(* every character Excel forbids is in the regex class that gets replaced *)
Lemma F_class_covers : forallb (fun n => existsb (Nat.eqb n) sheet_class) excel_forbidden = true.
Proof. vm_compute; reflexivity. Qed.
(* the replacement text itself is harmless *)
Lemma F_repl_ok : sall nf (str_of_codes sheet_repl) = true.
Proof. vm_compute; reflexivity. Qed.
Lemma F_fallback_s_ok : name_ok_b (str_of_codes sheet_fallback_s) = true.
Proof. vm_compute; reflexivity. Qed.
Lemma F_fallback_u_ok : name_ok_b (str_of_codes sheet_fallback_u) = true.
Proof. vm_compute; reflexivity. Qed.
(* finite sweep over every index the loop can use *)
Definition sfx_ok (k : nat) : bool :=
  let s := suffix k in
  (1 <=? slen s) && (slen s <=? sheet_budget) && sall nf s
  && negb (first_is apo s) && negb (last_is apo s) && sall is_dec (nat_str k).
Lemma F_sfx : forallb sfx_ok (seq sheet_lo (sheet_hi - sheet_lo)) = true.
Proof. vm_compute; reflexivity. Qed.
(* the text before the number ends with a non-digit *)
Lemma F_pre_last :
  match rev (list_ascii_of_string (str_of_codes sheet_sfx_pre)) with a :: _ => negb (is_dec a) | [] => false end = true.
Proof. vm_compute; reflexivity. Qed.

(* from here on the generated constants are never unfolded *)
#[local] Opaque sheet_trunc sheet_limit sheet_budget sheet_lo sheet_hi sheet_rstrip_char sheet_fallback_u
  sheet_sfx_pre sheet_sfx_post sheet_class sheet_repl sheet_strip_char sheet_fallback_s.

(* ================================================================== strings *)
Lemma slen_app a b : slen (a ++ b) = slen a + slen b.
Proof. induction a; simpl; auto. Qed.
Lemma sall_app p a b : sall p (a ++ b) = sall p a && sall p b.
Proof. induction a; simpl; auto. rewrite IHa. apply andb_assoc. Qed.
Lemma app_nonempty a b : b <> "" -> a ++ b <> "".
Proof. destruct a; simpl; congruence. Qed.
Lemma slen_nonempty s : 1 <= slen s -> s <> "".
Proof. destruct s; simpl; [lia|congruence]. Qed.
Lemma nonempty_slen s : s <> "" -> 1 <= slen s.
Proof. destruct s; simpl; [congruence|lia]. Qed.
Lemma is_empty_false s : is_empty s = false <-> s <> "".
Proof. destruct s; simpl; split; congruence. Qed.

Lemma take_len n s : slen (take n s) <= n.
Proof. revert s; induction n; intros [|c r]; simpl; try lia. specialize (IHn r). lia. Qed.
Lemma take_len_s n s : slen (take n s) <= slen s.
Proof. revert s; induction n; intros [|c r]; simpl; try lia. specialize (IHn r). lia. Qed.
Lemma take_sall p n s : sall p s = true -> sall p (take n s) = true.
Proof.
  revert s; induction n; intros [|c r]; simpl; auto.
  intros H. apply andb_true_iff in H as [H1 H2]. rewrite H1; simpl; auto.
Qed.
Lemma take_first p n s : first_is p s = false -> first_is p (take n s) = false.
Proof. destruct n, s; simpl; auto. Qed.

Lemma last_is_cons p c s : s <> "" -> last_is p (String c s) = last_is p s.
Proof. destruct s; [congruence|reflexivity]. Qed.
Lemma last_is_app p a b : b <> "" -> last_is p (a ++ b) = last_is p b.
Proof.
  intros Hb. induction a as [|c a IH]; [reflexivity|].
  change (String c a ++ b) with (String c (a ++ b)).
  rewrite last_is_cons; [exact IH|apply app_nonempty; exact Hb].
Qed.
Lemma first_is_app p a b : first_is p (a ++ b) = if is_empty a then first_is p b else first_is p a.
Proof. destruct a; reflexivity. Qed.

Lemma rstrip_last p s : last_is p (rstrip p s) = false.
Proof.
  induction s as [|c r IH]; [reflexivity|]. cbn [rstrip].
  destruct (rstrip p r) as [|c' r'] eqn:E.
  - destruct (p c) eqn:Pc; simpl; auto.
  - rewrite last_is_cons; [exact IH|congruence].
Qed.
Lemma rstrip_sall q p s : sall q s = true -> sall q (rstrip p s) = true.
Proof.
  induction s as [|c r IH]; [reflexivity|]. cbn [rstrip sall]. intros H.
  apply andb_true_iff in H as [H1 H2]. specialize (IH H2).
  destruct (rstrip p r) as [|c' r'] eqn:E.
  - destruct (p c); simpl; auto. rewrite H1; reflexivity.
  - cbn [sall]. cbn [sall] in IH. rewrite H1, IH. reflexivity.
Qed.
Lemma rstrip_first q p s : first_is q s = false -> first_is q (rstrip p s) = false.
Proof.
  destruct s as [|c r]; [reflexivity|]. cbn [rstrip first_is]. intros H.
  destruct (rstrip p r); [destruct (p c)|]; simpl; auto.
Qed.
Lemma rstrip_len p s : slen (rstrip p s) <= slen s.
Proof.
  induction s as [|c r IH]; [simpl; lia|]. cbn [rstrip].
  destruct (rstrip p r) as [|c' r'].
  - destruct (p c); simpl; lia.
  - simpl in *. lia.
Qed.
Lemma lstrip_first p s : first_is p (lstrip p s) = false.
Proof. induction s as [|c r IH]; simpl; auto. destruct (p c) eqn:E; [exact IH|simpl; exact E]. Qed.
Lemma lstrip_sall q p s : sall q s = true -> sall q (lstrip p s) = true.
Proof.
  induction s as [|c r IH]; simpl; auto. intros H. destruct (p c); auto.
  apply andb_true_iff in H as [_ H]. auto.
Qed.
Lemma strip_sall q p s : sall q s = true -> sall q (strip p s) = true.
Proof. intros H. unfold strip. apply rstrip_sall, lstrip_sall, H. Qed.
Lemma strip_first p s : first_is p (strip p s) = false.
Proof. unfold strip. apply rstrip_first, lstrip_first. Qed.
Lemma strip_last p s : last_is p (strip p s) = false.
Proof. unfold strip. apply rstrip_last. Qed.

Lemma list_ascii_app a b : list_ascii_of_string (a ++ b) = (list_ascii_of_string a ++ list_ascii_of_string b)%list.
Proof. induction a; simpl; congruence. Qed.
Lemma sall_forall p s : sall p s = true <-> forall c, In c (list_ascii_of_string s) -> p c = true.
Proof.
  induction s as [|a s IH]; simpl.
  - split; [intros _ c []|reflexivity].
  - rewrite andb_true_iff, IH. split.
    + intros [H1 H2] c [E|H]; [subst; exact H1|auto].
    + intros H; split; auto.
Qed.
Lemma smem_In k l : smem k l = true <-> In k l.
Proof.
  unfold smem. rewrite existsb_exists. split.
  - intros [x [Hx E]]. apply String.eqb_eq in E. subst. exact Hx.
  - intros H. exists k. split; [exact H|apply String.eqb_refl].
Qed.
Lemma smem_false k l : smem k l = false <-> ~ In k l.
Proof. rewrite <- smem_In. destruct (smem k l); split; congruence. Qed.

(* ================================================================== the predicate *)
Lemma name_ok_parts n : name_ok_b n = true <->
  (1 <= slen n /\ slen n <= excel_max_len /\ sall nf n = true /\ first_is apo n = false /\ last_is apo n = false).
Proof. unfold name_ok_b. rewrite !andb_true_iff, !negb_true_iff, !Nat.leb_le. tauto. Qed.

Lemma forbidden_b_In c : forbidden_b c = true <-> In (code c) excel_forbidden.
Proof.
  unfold forbidden_b. rewrite existsb_exists. split.
  - intros [x [H E]]. apply Nat.eqb_eq in E. rewrite E. exact H.
  - intros H. exists (code c). split; [exact H|apply Nat.eqb_refl].
Qed.

Lemma name_ok_b_spec : forall n, name_ok_b n = true <->
   (1 <= String.length n <= excel_max_len
    /\ (forall c, In c (list_ascii_of_string n) -> ~ In (code c) excel_forbidden)
    /\ first_is (is_char apostrophe) n = false /\ last_is (is_char apostrophe) n = false).
Proof.
  intros n. rewrite name_ok_parts, sall_forall.
  assert (E : (forall c, In c (list_ascii_of_string n) -> negb (forbidden_b c) = true) <->
              (forall c, In c (list_ascii_of_string n) -> ~ In (code c) excel_forbidden)).
  { split; intros H c Hc; specialize (H c Hc).
    - rewrite <- forbidden_b_In. apply negb_true_iff in H. congruence.
    - rewrite <- forbidden_b_In in H. destruct (forbidden_b c); [exfalso; auto|reflexivity]. }
  rewrite E. tauto.
Qed.

(* ================================================================== sanitize *)
Lemma forbidden_in_class c : forbidden_b c = true -> in_class c = true.
Proof.
  intros H. apply forbidden_b_In in H.
  pose proof F_class_covers as F. rewrite forallb_forall in F. exact (F _ H).
Qed.
Lemma subst_class_ok s : sall nf (subst_class s) = true.
Proof.
  induction s as [|c r IH]; [reflexivity|]. cbn [subst_class].
  destruct (in_class c) eqn:E.
  - rewrite sall_app, F_repl_ok, IH. reflexivity.
  - cbn [sall]. rewrite IH, andb_true_r. destruct (forbidden_b c) eqn:Fb; [|reflexivity].
    apply forbidden_in_class in Fb. congruence.
Qed.

Lemma sanitize_ok : forall name, sanitize name <> EmptyString /\ sall (fun c => negb (forbidden_b c)) (sanitize name) = true
   /\ first_is (is_char apostrophe) (sanitize name) = false /\ last_is (is_char apostrophe) (sanitize name) = false.
Proof.
  intros name. unfold sanitize. rewrite F_strip_char.
  set (s := strip apo (strip is_space (subst_class name))).
  unfold or_fallback. destruct (is_empty s) eqn:E.
  - pose proof F_fallback_s_ok as F. apply name_ok_parts in F as (F1 & _ & F3 & F4 & F5).
    repeat split; auto. apply slen_nonempty, F1.
  - repeat split.
    + apply is_empty_false, E.
    + unfold s. apply strip_sall, strip_sall, subst_class_ok.
    + apply strip_first.
    + apply strip_last.
Qed.

(* ================================================================== candidate, alt *)
Theorem candidate_ok : forall b, name_ok_b (candidate b) = true.
Proof.
  intros b. unfold candidate. rewrite F_rstrip_char.
  destruct (sanitize_ok b) as (_ & S2 & S3 & _).
  set (s := rstrip apo (take sheet_trunc (sanitize b))).
  unfold or_fallback. destruct (is_empty s) eqn:E; [apply F_fallback_u_ok|].
  apply name_ok_parts. repeat split.
  - apply nonempty_slen, is_empty_false, E.
  - unfold s. pose proof (rstrip_len apo (take sheet_trunc (sanitize b))).
    pose proof (take_len sheet_trunc (sanitize b)). pose proof F_trunc_le. lia.
  - apply rstrip_sall, take_sall, S2.
  - apply rstrip_first, take_first, S3.
  - apply rstrip_last.
Qed.

Lemma sfx_facts k : sheet_lo <= k < sheet_hi ->
  1 <= slen (suffix k) /\ slen (suffix k) <= sheet_budget /\ sall nf (suffix k) = true
  /\ first_is apo (suffix k) = false /\ last_is apo (suffix k) = false /\ sall is_dec (nat_str k) = true.
Proof.
  intros H. pose proof F_sfx as F. rewrite forallb_forall in F.
  assert (Hin : In k (seq sheet_lo (sheet_hi - sheet_lo))) by (apply in_seq; lia).
  apply F in Hin. unfold sfx_ok in Hin. cbv zeta in Hin.
  rewrite !andb_true_iff, !negb_true_iff, !Nat.leb_le in Hin. tauto.
Qed.

Theorem alt_ok : forall c k, name_ok_b c = true -> sheet_lo <= k < sheet_hi -> name_ok_b (alt c k) = true.
Proof.
  intros c k Hc Hk. destruct (sfx_facts k Hk) as (L1 & L2 & S & Fi & La & _).
  apply name_ok_parts in Hc as (C1 & C2 & C3 & C4 & C5).
  unfold alt. cbv zeta. set (sfx := suffix k) in *.
  set (T := if sheet_limit <? slen c + slen sfx then take (sheet_budget - slen sfx) c else c).
  assert (TL : slen T + slen sfx <= excel_max_len).
  { unfold T. destruct (Nat.ltb_spec sheet_limit (slen c + slen sfx)).
    - pose proof (take_len (sheet_budget - slen sfx) c). pose proof F_budget_limit. pose proof F_limit_le. lia.
    - pose proof F_limit_le. lia. }
  assert (TS : sall nf T = true).
  { unfold T. destruct (sheet_limit <? slen c + slen sfx); auto using take_sall. }
  assert (TF : first_is apo T = false).
  { unfold T. destruct (sheet_limit <? slen c + slen sfx); auto using take_first. }
  apply name_ok_parts.
  rewrite slen_app, sall_app, first_is_app, last_is_app by (apply slen_nonempty, L1).
  repeat split; try lia.
  - rewrite TS, S. reflexivity.
  - destruct (is_empty T); assumption.
  - exact La.
Qed.

(* ================================================================== the loop *)
Lemma try_alts_some fuel k c used a : try_alts fuel k c used = Some a ->
  ~ In a used /\ exists i, i < fuel /\ a = alt c (k + i).
Proof.
  revert k; induction fuel as [|f IH]; intros k E; cbn [try_alts] in E; [discriminate|]. cbv zeta in E.
  destruct (smem (alt c k) used) eqn:M.
  - apply IH in E as [H [i [Hi Ea]]]. split; auto. exists (S i). split; [lia|].
    rewrite Ea. f_equal. lia.
  - inversion E; subst. split; [apply smem_false, M|]. exists 0. split; [lia|]. f_equal. lia.
Qed.
Lemma try_alts_none fuel k c used : try_alts fuel k c used = None <->
  forall i, i < fuel -> In (alt c (k + i)) used.
Proof.
  revert k; induction fuel as [|f IH]; intros k; cbn [try_alts]; cbv zeta.
  - split; [intros _ i Hi; lia|reflexivity].
  - destruct (smem (alt c k) used) eqn:M.
    + rewrite IH. split.
      * intros H [|i] Hi; [rewrite Nat.add_0_r; apply smem_In, M|].
        replace (k + S i) with (S k + i) by lia. apply H. lia.
      * intros H i Hi. replace (S k + i) with (k + S i) by lia. apply H. lia.
    + split; [discriminate|]. intros H. exfalso. apply smem_false in M. apply M.
      specialize (H 0). rewrite Nat.add_0_r in H. apply H. lia.
Qed.
Lemma In_alts a c : In a (alts c) <-> exists i, i < sheet_hi - sheet_lo /\ a = alt c (sheet_lo + i).
Proof.
  unfold alts. rewrite in_map_iff. split.
  - intros [k [E H]]. apply in_seq in H. exists (k - sheet_lo). split; [lia|].
    subst. f_equal. lia.
  - intros [i [Hi E]]. exists (sheet_lo + i). split; [auto|]. apply in_seq. lia.
Qed.
Lemma alts_ok c a : name_ok_b c = true -> In a (alts c) -> name_ok_b a = true.
Proof. intros Hc H. apply In_alts in H as [i [Hi E]]. subst. apply alt_ok; [exact Hc|lia]. Qed.

Theorem unique_sheet_sound : forall b used n used', unique_sheet b used = Ok (n, used') ->
   used' = n :: used /\ ~ In n used /\ name_ok_b n = true /\ (n = candidate b \/ In n (alts (candidate b))).
Proof.
  intros b used n used'. unfold unique_sheet. cbv zeta.
  destruct (smem (candidate b) used) eqn:M; cbn [negb].
  - destruct (try_alts (sheet_hi - sheet_lo) sheet_lo (candidate b) used) as [a|] eqn:T; intros E; inversion E; subst.
    apply try_alts_some in T as [Hn [i [Hi Ea]]].
    assert (Hin : In n (alts (candidate b))) by (apply In_alts; eauto).
    repeat split; auto. eapply alts_ok; [apply candidate_ok|exact Hin].
  - intros E; inversion E; subst. repeat split; auto.
    + apply smem_false, M.
    + apply candidate_ok.
Qed.

Lemma alloc_cons_ok b r used names : alloc (b :: r) used = Ok names ->
  exists n ns, unique_sheet b used = Ok (n, n :: used) /\ alloc r (n :: used) = Ok ns /\ names = n :: ns.
Proof.
  cbn [alloc]. destruct (unique_sheet b used) as [[n u]|e] eqn:U; [|discriminate].
  destruct (unique_sheet_sound _ _ _ _ U) as [Eu _]. subst u.
  destruct (alloc r (n :: used)) as [ns|e] eqn:A; [|discriminate].
  intros E; inversion E; subst. eauto.
Qed.

(* names come from the bases, in order *)
Lemma alloc_origin : forall bases used names, alloc bases used = Ok names ->
  forall n, In n names -> exists b, In b bases /\ (n = candidate b \/ In n (alts (candidate b))).
Proof.
  induction bases as [|b r IH]; intros used names E n Hn.
  - cbn in E. inversion E; subst. destruct Hn.
  - apply alloc_cons_ok in E as (m & ns & U & A & ->).
    destruct Hn as [->|Hn].
    + exists b. split; [left; reflexivity|]. apply (unique_sheet_sound _ _ _ _ U).
    + destruct (IH _ _ A n Hn) as [b' [Hb' H]]. exists b'. split; [right; exact Hb'|exact H].
Qed.

Theorem alloc_sound : forall bases used names, alloc bases used = Ok names ->
   List.length names = List.length bases /\ NoDup names /\ (forall n, In n names -> ~ In n used /\ name_ok_b n = true).
Proof.
  induction bases as [|b r IH]; intros used names E.
  - cbn in E. inversion E; subst. repeat split; [constructor|destruct H|destruct H].
  - apply alloc_cons_ok in E as (m & ns & U & A & ->).
    destruct (unique_sheet_sound _ _ _ _ U) as (_ & Hm & Okm & _).
    destruct (IH _ _ A) as (L & ND & Hall). split; [|split].
    + simpl. rewrite L. reflexivity.
    + constructor; [|exact ND]. intros Hin. apply Hall in Hin as [Hin _]. apply Hin. left; reflexivity.
    + intros n [->|Hn]; [split; assumption|].
      apply Hall in Hn as [Hn Okn]. split; [|exact Okn]. intros H. apply Hn. right; exact H.
Qed.

(* ================================================================== the alternatives are pairwise different *)
Lemma alts_length : forall c, List.length (alts c) = sheet_hi - sheet_lo.
Proof. intros c. unfold alts. rewrite map_length, seq_length. reflexivity. Qed.

Lemma nat_str_inj a b : nat_str a = nat_str b -> a = b.
Proof.
  unfold nat_str. intros E.
  assert (E2 : NilEmpty.uint_of_string (NilEmpty.string_of_uint (Nat.to_uint a)) =
               NilEmpty.uint_of_string (NilEmpty.string_of_uint (Nat.to_uint b))) by (rewrite E; reflexivity).
  rewrite !NilEmpty.usu in E2. inversion E2 as [E3].
  rewrite <- (Unsigned.of_to a), <- (Unsigned.of_to b), E3. reflexivity.
Qed.

(* a maximal run of P-characters at the head of a list is determined by the list *)
Lemma head_run_unique (P : ascii -> bool) : forall d1 d2 a1 r1 a2 r2,
  forallb P d1 = true -> forallb P d2 = true -> P a1 = false -> P a2 = false ->
  (d1 ++ a1 :: r1)%list = (d2 ++ a2 :: r2)%list -> d1 = d2.
Proof.
  induction d1 as [|x d1 IH]; intros [|y d2] a1 r1 a2 r2 H1 H2 P1 P2 E; simpl in *.
  - reflexivity.
  - inversion E; subst. apply andb_true_iff in H2 as [H2 _]. congruence.
  - inversion E; subst. apply andb_true_iff in H1 as [H1 _]. congruence.
  - inversion E; subst. apply andb_true_iff in H1 as [_ H1]. apply andb_true_iff in H2 as [_ H2].
    f_equal. apply (IH d2 a1 r1 a2 r2); assumption.
Qed.
Lemma forallb_rev_string p s : sall p s = true -> forallb p (rev (list_ascii_of_string s)) = true.
Proof.
  intros H. apply forallb_forall. intros c Hc. apply in_rev in Hc.
  rewrite sall_forall in H. auto.
Qed.
Lemma list_ascii_inj a b : list_ascii_of_string a = list_ascii_of_string b -> a = b.
Proof.
  intros E. rewrite <- (string_of_list_ascii_of_string a), <- (string_of_list_ascii_of_string b), E. reflexivity.
Qed.

Lemma alt_shape c k : exists T, alt c k = T ++ str_of_codes sheet_sfx_pre ++ nat_str k ++ str_of_codes sheet_sfx_post.
Proof. unfold alt, suffix. cbv zeta. eexists; reflexivity. Qed.

Lemma alt_inj c j k : sheet_lo <= j < sheet_hi -> sheet_lo <= k < sheet_hi -> alt c j = alt c k -> j = k.
Proof.
  intros Hj Hk E.
  destruct (sfx_facts j Hj) as (_ & _ & _ & _ & _ & Dj).
  destruct (sfx_facts k Hk) as (_ & _ & _ & _ & _ & Dk).
  destruct (alt_shape c j) as [Tj Ej]. destruct (alt_shape c k) as [Tk Ek]. rewrite Ej, Ek in E.
  apply (f_equal list_ascii_of_string) in E. apply (f_equal (@rev ascii)) in E.
  rewrite !list_ascii_app, !rev_app_distr, <- !app_assoc in E.
  apply app_inv_head in E.
  pose proof F_pre_last as Fp.
  destruct (rev (list_ascii_of_string (str_of_codes sheet_sfx_pre))) as [|a r]; [discriminate|].
  apply negb_true_iff in Fp. cbn [app] in E.
  apply (head_run_unique is_dec) in E; auto using forallb_rev_string.
  apply (f_equal (@rev ascii)) in E. rewrite !rev_involutive in E.
  apply nat_str_inj, list_ascii_inj, E.
Qed.

Lemma NoDup_map_inj_in {A B} (f : A -> B) (l : list A) :
  (forall x y, In x l -> In y l -> f x = f y -> x = y) -> NoDup l -> NoDup (map f l).
Proof.
  induction l as [|a l IH]; intros Hinj ND; simpl; [constructor|].
  inversion ND as [|? ? Hna ND']; subst. constructor.
  - rewrite in_map_iff. intros [y [E Hy]]. apply Hna.
    assert (y = a) by (apply Hinj; [right; exact Hy|left; reflexivity|exact E]). subst. exact Hy.
  - apply IH; [|exact ND']. intros x y Hx Hy. apply Hinj; right; assumption.
Qed.

Theorem alts_nodup : forall c, NoDup (alts c).
Proof.
  intros c. unfold alts. apply NoDup_map_inj_in; [|apply seq_NoDup].
  intros x y Hx Hy. apply in_seq in Hx. apply in_seq in Hy. apply alt_inj; lia.
Qed.

(* ================================================================== failure *)
Theorem unique_sheet_err_iff : forall b used, unique_sheet b used = Err EValue <->
   (In (candidate b) used /\ forall a, In a (alts (candidate b)) -> In a used).
Proof.
  intros b used. unfold unique_sheet. cbv zeta.
  destruct (smem (candidate b) used) eqn:M; cbn [negb].
  - destruct (try_alts (sheet_hi - sheet_lo) sheet_lo (candidate b) used) as [a|] eqn:T.
    + split; [discriminate|]. intros [_ H]. exfalso.
      apply try_alts_some in T as [Hn [i [Hi Ea]]]. apply Hn, H, In_alts. eauto.
    + split; [|reflexivity]. intros _. split; [apply smem_In, M|].
      intros a Ha. apply In_alts in Ha as [i [Hi ->]].
      rewrite try_alts_none in T. apply T, Hi.
  - split; [discriminate|]. intros [H _]. apply smem_false in M. contradiction.
Qed.
Lemma unique_sheet_only_value_error : forall b used e, unique_sheet b used = Err e -> e = EValue.
Proof.
  intros b used e. unfold unique_sheet. cbv zeta.
  destruct (negb (smem (candidate b) used)); [discriminate|].
  destruct (try_alts (sheet_hi - sheet_lo) sheet_lo (candidate b) used); [discriminate|].
  intros E; inversion E; reflexivity.
Qed.

Definition collisions (b : string) (used : list string) : nat :=
  List.length (filter (fun u => smem u (alts (candidate b))) used).

Lemma filter_len_le {A} (f : A -> bool) l : List.length (filter f l) <= List.length l.
Proof. induction l as [|a l IH]; simpl; [lia|]. destruct (f a); simpl; lia. Qed.
Lemma collisions_le b used : collisions b used <= List.length used.
Proof. apply filter_len_le. Qed.

(* the loop gives up only when the candidate and every one of the sheet_hi - sheet_lo alternatives is taken *)
Lemma err_collisions b used e : unique_sheet b used = Err e ->
  e = EValue /\ In (candidate b) used /\ sheet_hi - sheet_lo <= collisions b used.
Proof.
  intros U. pose proof (unique_sheet_only_value_error _ _ _ U) as ->. split; [reflexivity|].
  apply unique_sheet_err_iff in U as [Hc Hall]. split; [exact Hc|].
  rewrite <- (alts_length (candidate b)). unfold collisions.
  apply NoDup_incl_length; [apply alts_nodup|].
  intros a Ha. apply filter_In. split; [apply Hall, Ha|apply smem_In, Ha].
Qed.

Theorem unique_sheet_total : forall b used, collisions b used < sheet_hi - sheet_lo -> exists n, unique_sheet b used = Ok (n, n :: used).
Proof.
  intros b used H. destruct (unique_sheet b used) as [[n u]|e] eqn:U.
  - destruct (unique_sheet_sound _ _ _ _ U) as [-> _]. eauto.
  - apply err_collisions in U as (_ & _ & U). lia.
Qed.

Theorem alloc_total : forall bases used, List.length used + List.length bases <= sheet_hi - sheet_lo -> exists names, alloc bases used = Ok names.
Proof.
  induction bases as [|b r IH]; intros used H; cbn [alloc]; [eauto|].
  simpl in H. destruct (unique_sheet_total b used) as [n U].
  { pose proof (collisions_le b used). lia. }
  rewrite U. destruct (IH (n :: used)) as [ns A]; [simpl; lia|]. rewrite A. eauto.
Qed.

Theorem alloc_fails_only_beyond_bound : forall bases used e, alloc bases used = Err e ->
   e = EValue /\ exists pre b post names, bases = (pre ++ b :: post)%list /\ alloc pre used = Ok names
      /\ In (candidate b) (rev names ++ used)%list /\ sheet_hi - sheet_lo <= collisions b (rev names ++ used)%list.
Proof.
  induction bases as [|b0 r IH]; intros used e E; cbn [alloc] in E; [discriminate|].
  destruct (unique_sheet b0 used) as [[n u]|e0] eqn:U.
  - destruct (unique_sheet_sound _ _ _ _ U) as [-> _].
    destruct (alloc r (n :: used)) as [ns|e1] eqn:A; [discriminate|]. inversion E; subst e1.
    destruct (IH _ _ A) as (Ee & pre & b & post & names & -> & Ap & Hc & Hcol).
    split; [exact Ee|]. exists (b0 :: pre), b, post, (n :: names).
    cbn [alloc]. rewrite U, Ap. cbn [rev]. rewrite <- app_assoc. cbn [app].
    repeat split; assumption.
  - inversion E; subst e0. apply err_collisions in U as (Ee & Hc & Hcol).
    split; [exact Ee|]. exists [], b0, r, []. repeat split; assumption.
Qed.

Lemma alloc_only_value_error bases used e : alloc bases used = Err e -> e = EValue.
Proof. intros E. apply alloc_fails_only_beyond_bound in E as [E _]. exact E. Qed.

Theorem alloc_repeat_raises : forall b used, alloc (repeat b (S (S (sheet_hi - sheet_lo)))) used = Err EValue.
Proof.
  intros b used. destruct (alloc (repeat b (S (S (sheet_hi - sheet_lo)))) used) as [names|e] eqn:A.
  - exfalso. destruct (alloc_sound _ _ _ A) as (L & ND & _). rewrite repeat_length in L.
    assert (Hincl : incl names (candidate b :: alts (candidate b))).
    { intros n Hn. destruct (alloc_origin _ _ _ A n Hn) as [b' [Hb' H]].
      apply repeat_spec in Hb'. subst b'. destruct H as [->|H]; [left; reflexivity|right; exact H]. }
    pose proof (NoDup_incl_length ND Hincl) as Hlen. cbn [List.length] in Hlen.
    rewrite alts_length in Hlen. lia.
  - f_equal. eapply alloc_only_value_error; eauto.
Qed.

(* ================================================================== examples (concrete values: these do compute) *)
Example tight_bound_example : let c := "AAAAAAAAAAAAAAAAAAAAAAAAA (100)"%string in
   candidate c = c /\ alt c 100 = c /\ List.length (alts c) = 998 /\ unique_sheet c (alts c) = Err EValue.
Proof. vm_compute. repeat split. Qed.

(* non-vacuity (regression for the trailing-apostrophe defect): truncation alone leaves a name Excel rejects,
   the rstrip after the truncation repairs it *)
Example prefix_trailing_apostrophe_example :
  let b := "'Zone'''''''''''''''''''''''''''''''''x"%string in
  sanitize b = "Zone'''''''''''''''''''''''''''''''''x"%string
  /\ take sheet_trunc (sanitize b) = "Zone'''''''''''''''''''''''''''"%string
  /\ name_ok_b (take sheet_trunc (sanitize b)) = false
  /\ candidate b = "Zone"%string /\ name_ok_b (candidate b) = true
  /\ alt (candidate b) 2 = "Zone (2)"%string.
Proof. vm_compute. repeat split. Qed.

Print Assumptions name_ok_b_spec.
Print Assumptions sanitize_ok.
Print Assumptions candidate_ok.
Print Assumptions alt_ok.
Print Assumptions unique_sheet_sound.
Print Assumptions alloc_sound.
Print Assumptions alts_length.
Print Assumptions alts_nodup.
Print Assumptions unique_sheet_err_iff.
Print Assumptions unique_sheet_only_value_error.
Print Assumptions unique_sheet_total.
Print Assumptions alloc_total.
Print Assumptions alloc_fails_only_beyond_bound.
Print Assumptions alloc_repeat_raises.
Print Assumptions tight_bound_example.
Print Assumptions prefix_trailing_apostrophe_example.
