(* C15 -- facts about model/Area.v (rational part of area targeting). *)
From OP Require Import gen.Consts model.Base model.Area proofs.BaseFacts.
From Coq Require Import Lqa Lia.
Local Open Scope Q_scope.

(* ------------------------------------------------------------------ the final sum *)
Fixpoint sum3 (dh R lm : list Q) : Q :=
  match dh, R, lm with q :: r1, r :: r2, l :: r3 => q * r / l + sum3 r1 r2 r3 | _, _, _ => 0 end.

(* area = sum_i q_i R_i / LMTD_i over the code's own interval data, when every interval carries a resistance above tol *)
Lemma area_sum_is_sum tolv : forall dh R lm, (forall r, In r R -> tolv < r) -> area_sum tolv dh R lm == sum3 dh R lm.
Proof.
  induction dh as [|q dh IH]; intros R lm HR; [reflexivity|].
  destruct R as [|r R]; [reflexivity|]. destruct lm as [|l lm]; [reflexivity|].
  simpl. rewrite radd_eq, rdiv_eq, rmul_eq. rewrite (proj2 (qltb_true tolv r)) by (apply HR; left; reflexivity).
  rewrite IH by (intros x Hx; apply HR; right; exact Hx). reflexivity.
Qed.

(* in general: intervals whose resistance is not above tol are counted with U = 1 *)
Fixpoint sum3u (tolv : Q) (dh R lm : list Q) : Q :=
  match dh, R, lm with q :: r1, r :: r2, l :: r3 => q * (if qltb tolv r then r else 1) / l + sum3u tolv r1 r2 r3 | _, _, _ => 0 end.
Lemma area_sum_general tolv : forall dh R lm, area_sum tolv dh R lm == sum3u tolv dh R lm.
Proof.
  induction dh as [|q dh IH]; intros R lm; [reflexivity|].
  destruct R as [|r R]; [reflexivity|]. destruct lm as [|l lm]; [reflexivity|].
  simpl. rewrite radd_eq, rdiv_eq, rmul_eq, IH. reflexivity.
Qed.

Lemma Qdiv_pos a b : 0 < a -> 0 < b -> 0 < a / b.
Proof. intros Ha Hb. unfold Qdiv. apply Qmult_lt_0_compat; [exact Ha|]. apply Qinv_lt_0_compat. exact Hb. Qed.
Lemma Qdiv_nonneg a b : 0 <= a -> 0 < b -> 0 <= a / b.
Proof. intros Ha Hb. unfold Qdiv. apply Qmult_le_0_compat; [exact Ha|]. apply Qlt_le_weak. apply Qinv_lt_0_compat. exact Hb. Qed.

Lemma div_antimono x a b : 0 <= x -> 0 < a -> a <= b -> x / b <= x / a.
Proof.
  intros Hx Ha Hab. apply Qle_shift_div_r; [lra|].
  assert (E : x / a * a == x) by (field; lra). assert (N : 0 <= x / a) by (apply Qdiv_nonneg; assumption).
  nra.
Qed.

(* finite and positive: positive duties, positive LMTDs, at least one interval *)
Lemma area_sum_pos tolv : 0 <= tolv -> forall dh R lm, dh <> [] -> length R = length dh -> length lm = length dh ->
  (forall q, In q dh -> 0 < q) -> (forall l, In l lm -> 0 < l) -> 0 < area_sum tolv dh R lm.
Proof.
  intros Ht dh R lm Hne HlR Hll Hq Hl. rewrite area_sum_general.
  revert R lm Hne HlR Hll Hq Hl. induction dh as [|q dh IH]; intros R lm Hne HlR Hll Hq Hl; [contradiction|].
  destruct R as [|r R]; [discriminate|]. destruct lm as [|l lm]; [discriminate|]. simpl.
  assert (H1 : 0 < q * (if qltb tolv r then r else 1) / l).
  { apply Qdiv_pos; [|apply Hl; left; reflexivity]. apply Qmult_lt_0_compat; [apply Hq; left; reflexivity|].
    destruct (qltb tolv r) eqn:E; [|reflexivity]. apply qltb_true in E. eapply Qle_lt_trans; eauto. }
  destruct dh as [|q' dh'].
  - destruct R; [|discriminate]. destruct lm; [|discriminate]. simpl. lra.
  - assert (0 < sum3u tolv (q' :: dh') R lm).
    { apply IH; try discriminate; simpl in *; try lia; intros; [apply Hq|apply Hl]; right; assumption. }
    lra.
Qed.

(* ------------------------------------------------------------------ balanced composite curves *)
Lemma last_vadd : forall a b, length a = length b -> last (vadd a b) 0 == last a 0 + last b 0.
Proof.
  induction a as [|x a IH]; intros b Hl; destruct b as [|y b]; try discriminate; [simpl; lra|].
  destruct a as [|x' a']; destruct b as [|y' b']; try discriminate.
  - simpl. apply radd_eq.
  - change (vadd (x :: x' :: a') (y :: y' :: b')) with (radd x y :: vadd (x' :: a') (y' :: b')).
    change (last (radd x y :: vadd (x' :: a') (y' :: b')) 0) with (last (vadd (x' :: a') (y' :: b')) 0).
    rewrite IH by (simpl in *; lia). reflexivity.
Qed.

Lemma span_vadd a b : length a = length b -> span (vadd a b) == span a + span b.
Proof.
  intro Hl. unfold span. rewrite !rsub_eq, last_vadd by exact Hl.
  destruct a as [|x a]; destruct b as [|y b]; try discriminate; simpl; [lra|]. rewrite radd_eq. lra.
Qed.

(* "the balanced composite curves have equal enthalpy spans": the balanced columns are the sums of the process and
   utility columns, so their spans are equal exactly when process + utility duties balance (C02/C03) *)
Theorem balanced_spans_equal tolv Hh Hc Hhu Hcu dT a b c d :
  length Hh = length Hhu -> length Hc = length Hcu ->
  span Hh + span Hhu == span Hc + span Hcu ->
  let m := balanced_cc tolv Hh Hc Hhu Hcu dT a b c d in span (b_hhot m) == span (b_hcold m).
Proof. intros L1 L2 E. simpl. rewrite !span_vadd by assumption. exact E. Qed.

(* ------------------------------------------------------------------ specification with an abstract LMTD *)
Section AbstractLMTD.
Variable lmtd : Q -> Q -> Q.
Hypothesis lmtd_lo : forall a b, 0 < a -> 0 < b -> Qmin a b <= lmtd a b.
Hypothesis lmtd_hi : forall a b, 0 < a -> 0 < b -> lmtd a b <= (a + b) / 2.

Definition lmtds_of (iv : list ival) : list Q := map (fun i => lmtd (i_d1 i) (i_d2 i)) iv.
Fixpoint sum_iv (f : ival -> Q) (iv : list ival) : Q := match iv with i :: r => f i + sum_iv f r | [] => 0 end.

Lemma spec_area_eq iv : spec_area iv (lmtds_of iv) == sum_iv (fun i => i_q i * i_R i / lmtd (i_d1 i) (i_d2 i)) iv.
Proof. induction iv as [|i r IH]; [reflexivity|]. simpl. rewrite radd_eq, rdiv_eq, rmul_eq, IH. reflexivity. Qed.

Definition iv_ok (i : ival) : Prop := 0 <= i_q i /\ 0 <= i_R i /\ 0 < i_d1 i /\ 0 < i_d2 i.

Lemma Qmin_pos a b : 0 < a -> 0 < b -> 0 < Qmin a b.
Proof. intros. destruct (Q.min_spec a b) as [[_ E]|[_ E]]; rewrite E; assumption. Qed.

(* the area specification lies between the arithmetic-mean and the minimum-approach estimates *)
Theorem spec_area_bounds iv : (forall i, In i iv -> iv_ok i) ->
  sum_iv (fun i => i_q i * i_R i / ((i_d1 i + i_d2 i) / 2)) iv <= spec_area iv (lmtds_of iv)
  /\ spec_area iv (lmtds_of iv) <= sum_iv (fun i => i_q i * i_R i / Qmin (i_d1 i) (i_d2 i)) iv.
Proof.
  intro H. rewrite spec_area_eq. induction iv as [|i r IH]; [simpl; split; lra|].
  destruct (H i (or_introl eq_refl)) as (Hq & HR & H1 & H2).
  destruct IH as [IH1 IH2]; [intros j Hj; apply H; right; exact Hj|].
  pose proof (lmtd_lo _ _ H1 H2) as Lo. pose proof (lmtd_hi _ _ H1 H2) as Hi. pose proof (Qmin_pos _ _ H1 H2) as Mp.
  assert (Lp : 0 < lmtd (i_d1 i) (i_d2 i)) by (eapply Qlt_le_trans; eauto).
  assert (Ap : 0 < (i_d1 i + i_d2 i) / 2) by (eapply Qlt_le_trans; eauto).
  assert (N : 0 <= i_q i * i_R i) by (apply Qmult_le_0_compat; assumption).
  simpl. split.
  - apply Qplus_le_compat; [|exact IH1]. apply div_antimono; assumption.
  - apply Qplus_le_compat; [|exact IH2]. apply div_antimono; assumption.
Qed.
End AbstractLMTD.
