(* C07: termination of the pocket sweep as it is coded (index model), for EVERY table and without any
   robustness assumption: the distance between the cursor and the pinch strictly decreases in every iteration,
   also across row insertions and across the di = 0 iterations. *)
From OP Require Import gen.Consts model.Base model.Pockets proofs.BaseFacts.
From Coq Require Import Lia Lqa.
Local Open Scope Q_scope.

Lemma tol_pos : 0 < tol.
Proof. reflexivity. Qed.

(* ---------- lengths ---------- *)
Lemma set_np_length t a b v : List.length (set_np t a b v) = List.length t.
Proof.
  revert a b. induction t as [|r rs IH]; intros a b; simpl; [reflexivity|].
  destruct b as [|b']; [reflexivity|]. destruct a as [|a']; simpl; rewrite IH; reflexivity.
Qed.
Lemma ins_sorted_length tq t0 prev l : (List.length l <= List.length (ins_sorted tq t0 prev l))%nat.
Proof.
  revert prev. induction l as [|r rs IH]; intros prev; simpl.
  - destruct prev; simpl; lia.
  - destruct (qltb (rT r) t0).
    + destruct prev; simpl; lia.
    + simpl. specialize (IH (Some r)). lia.
Qed.
Lemma insert_T_length tq t t0 t1 n : insert_T tq t t0 = (t1, n) -> (List.length t <= List.length t1)%nat.
Proof.
  unfold insert_T. destruct (far_from tq t0 t); intros E; inversion E; subst; [apply ins_sorted_length|lia].
Qed.

(* ---------- _pocket_exit_index stays strictly between the cursor and the pinch ---------- *)
Lemma scan_up_bounds tq L hs i p : (i <= S p)%nat -> (i - 1 <= scan_up tq L hs i p <= p)%nat.
Proof.
  revert i. induction hs as [|h r IH]; intros i Hi; simpl; [lia|].
  destruct (p <? i)%nat eqn:E1; [apply Nat.ltb_lt in E1; lia|]. apply Nat.ltb_ge in E1.
  destruct (qleb (h + tq) L); [lia|].
  specialize (IH (S i)). lia.
Qed.
Lemma skipn_map_nth (t : list row) k :
  skipn k (map rH t) = [] \/ skipn k (map rH t) = Hat t k :: skipn (S k) (map rH t).
Proof.
  revert k. induction t as [|r rs IH]; intros k.
  - left. destruct k; reflexivity.
  - destruct k as [|k]; [right; reflexivity|]. simpl. destruct (IH k) as [E|E]; [left; exact E|right].
    rewrite E. unfold Hat. simpl. reflexivity.
Qed.
Lemma exit_up_bounds tq t i0 p : 0 < tq -> (i0 < p)%nat -> Hat t i0 < Hat t (S i0) - tq ->
  (S i0 <= exit_up tq t i0 p <= p)%nat.
Proof.
  intros Ht Hp He. unfold exit_up.
  destruct (skipn_map_nth t (S i0)) as [E|E]; rewrite E; [simpl; lia|]. cbn [scan_up].
  destruct (p <? S i0)%nat eqn:E1; [apply Nat.ltb_lt in E1; lia|].
  destruct (qleb (Hat t (S i0) + tq) (Hat t i0)) eqn:E2; [apply qleb_true in E2; lra|].
  pose proof (scan_up_bounds tq (Hat t i0) (skipn (S (S i0)) (map rH t)) (S (S i0)) p). lia.
Qed.

Lemma scan_dn_bounds tq L hs k p : (p <= k)%nat -> (p <= scan_dn tq L hs k p <= k)%nat.
Proof.
  revert k. induction hs as [|h r IH]; intros k Hk; simpl; [lia|].
  destruct (k <=? p)%nat eqn:E1; [lia|]. apply Nat.leb_gt in E1.
  destruct (qleb (h + tq) L); [lia|].
  specialize (IH (k - 1)%nat). lia.
Qed.
Lemma firstn_S_snoc {A} (l : list A) k d : (k < List.length l)%nat -> firstn (S k) l = firstn k l ++ [nth k l d].
Proof.
  revert k. induction l as [|x xs IH]; intros k Hk; simpl in Hk; [lia|].
  destruct k as [|k]; [reflexivity|].
  change (x :: firstn (S k) xs = x :: (firstn k xs ++ [nth k xs d])). f_equal. apply IH. lia.
Qed.
Lemma exit_dn_bounds tq t i0 p : 0 < tq -> (p < i0)%nat -> (i0 < List.length t)%nat -> Hat t i0 < Hat t (i0 - 1) - tq ->
  (p <= exit_dn tq t i0 p <= i0 - 1)%nat.
Proof.
  intros Ht Hp Hl He. unfold exit_dn.
  destruct i0 as [|j]; [lia|]. replace (S j - 1)%nat with j in * by lia.
  rewrite (firstn_S_snoc (map rH t) j 0) by (rewrite map_length; lia).
  rewrite rev_app_distr. cbn [rev app scan_dn].
  destruct (S j <=? p)%nat eqn:E1; [apply Nat.leb_le in E1; lia|].
  assert (En : nth j (map rH t) 0 = Hat t j).
  { unfold Hat. change 0 with (rH r0). apply map_nth. }
  rewrite En.
  destruct (qleb (Hat t j + tq) (Hat t (S j))) eqn:E2; [apply qleb_true in E2; lra|].
  replace (S j - 1)%nat with j by lia.
  pose proof (scan_dn_bounds tq (Hat t (S j)) (rev (firstn j (map rH t))) j p). lia.
Qed.

(* ---------- the loops never run out of fuel ---------- *)
Lemma loop_up_total tq : 0 < tq -> forall fuel t i hp cp p, (p - i < fuel)%nat ->
  exists r, loop_up tq fuel t i hp cp p = Ok r.
Proof.
  intros Ht. induction fuel as [|f IH]; intros t i hp cp p Hm; [lia|]. simpl.
  destruct (p <=? i)%nat eqn:E1; [eexists; reflexivity|]. apply Nat.leb_gt in E1.
  destruct (qltb (Hat t i) (Hat t (S i) - tq)) eqn:E2.
  - apply qltb_true in E2. pose proof (exit_up_bounds tq t i p Ht E1 E2) as Hb.
    destruct (if (exit_up tq t i p =? p)%nat then (t, 0%nat) else _) as [t1 n].
    destruct (0 <? n)%nat; apply IH; lia.
  - apply IH. lia.
Qed.
Lemma loop_up_length tq : forall fuel t i hp cp p t' hp' cp',
  loop_up tq fuel t i hp cp p = Ok (t', hp', cp') -> (List.length t <= List.length t')%nat.
Proof.
  induction fuel as [|f IH]; intros t i hp cp p t' hp' cp' E; simpl in E; [discriminate|].
  destruct (p <=? i)%nat; [inversion E; subst; lia|].
  destruct (qltb (Hat t i) (Hat t (S i) - tq)).
  - destruct (if (exit_up tq t i p =? p)%nat then (t, 0%nat) else _) as [t1 n] eqn:E3.
    assert (Hl : (List.length t <= List.length t1)%nat).
    { destruct (exit_up tq t i p =? p)%nat; [inversion E3; subst; lia|]. eapply insert_T_length; eauto. }
    destruct (0 <? n)%nat; apply IH in E; rewrite set_np_length in E; lia.
  - apply IH in E. exact E.
Qed.
Lemma loop_dn_total tq : 0 < tq -> forall fuel t i hp cp p, (i - p < fuel)%nat -> (i < List.length t)%nat ->
  exists r, loop_dn tq fuel t i hp cp p = Ok r.
Proof.
  intros Ht. induction fuel as [|f IH]; intros t i hp cp p Hm Hl; [lia|]. simpl.
  destruct (i <=? p)%nat eqn:E1; [eexists; reflexivity|]. apply Nat.leb_gt in E1.
  destruct (qltb (Hat t i) (Hat t (i - 1) - tq)) eqn:E2.
  - apply qltb_true in E2. pose proof (exit_dn_bounds tq t i p Ht E1 Hl E2) as Hb.
    destruct (if (exit_dn tq t i p =? p)%nat then (t, 0%nat) else _) as [t1 n] eqn:E3.
    assert (Hl1 : (List.length t <= List.length t1)%nat).
    { destruct (exit_dn tq t i p =? p)%nat; [inversion E3; subst; lia|]. eapply insert_T_length; eauto. }
    apply IH; [lia|rewrite set_np_length; lia].
  - apply IH; lia.
Qed.

(* get_GCC_without_pockets terminates on every non-empty table: the model never returns EFuel (nor any error) *)
Theorem gcc_np_total tq Ts Hs : 0 < tq -> init_rows Ts Hs <> [] -> exists out, gcc_np tq Ts Hs = Ok out.
Proof.
  intros Ht Hne. unfold gcc_np.
  destruct (init_rows Ts Hs) as [|r0' rs0] eqn:E0; [congruence|].
  destruct (pinch_idx tq (map rH (r0' :: rs0))) as [[hp cp] valid].
  destruct valid; simpl negb; cbv iota; [|eexists; reflexivity].
  set (t1 := if (hp + 1 <? cp)%nat then set_np (r0' :: rs0) (hp + 1) cp 0 else r0' :: rs0).
  assert (L1 : (0 < List.length t1)%nat).
  { unfold t1. destruct (hp + 1 <? cp)%nat; [rewrite set_np_length|]; simpl; lia. }
  assert (Hup : exists t2 hp2 cp2, remove_up tq t1 hp cp = Ok (t2, hp2, cp2) /\ (List.length t1 <= List.length t2)%nat).
  { unfold remove_up. destruct (qltb (Hat t1 0) tq); [exists t1, hp, cp; split; [reflexivity|lia]|].
    destruct (loop_up_total tq Ht (S hp) t1 0%nat hp cp hp ltac:(lia)) as [[[t2 hp2] cp2] E].
    exists t2, hp2, cp2. split; [exact E|]. eapply loop_up_length; eauto. }
  destruct Hup as [t2 [hp2 [cp2 [E2 L2]]]]. rewrite E2. simpl.
  unfold remove_dn. destruct (qltb (Hat t2 (List.length t2 - 1)) tq); [simpl; eexists; reflexivity|].
  destruct (loop_dn_total tq Ht (S (List.length t2 - 1 - cp2)) t2 (List.length t2 - 1)%nat hp2 cp2 cp2 ltac:(lia) ltac:(lia))
    as [[[t3 hp3] cp3] E3].
  rewrite E3. simpl. eexists; reflexivity.
Qed.

(* ---------- linear_interpolation is never called with x1 == x2 (its ValueError is unreachable) ---------- *)
Lemma scan_up_cons tq L h r i p :
  scan_up tq L (h :: r) i p = if (p <? i)%nat then p else if qleb (h + tq) L then (i - 1)%nat else scan_up tq L r (S i) p.
Proof. reflexivity. Qed.
Lemma scan_dn_cons tq L h r k p :
  scan_dn tq L (h :: r) k p = if (k <=? p)%nat then p else if qleb (h + tq) L then k else scan_dn tq L r (k - 1)%nat p.
Proof. reflexivity. Qed.
Lemma nth_S_cons {A} (x : A) l k d : nth (S k) (x :: l) d = nth k l d.
Proof. reflexivity. Qed.

Lemma scan_up_found tq L : forall hs i p r, (1 <= i)%nat -> (i <= S p)%nat -> scan_up tq L hs i p = r -> r <> p ->
  nth (S r - i) hs 0 + tq <= L /\ (forall j, (i <= j <= r)%nat -> L < nth (j - i) hs 0 + tq).
Proof.
  induction hs as [|h rest IH]; intros i p r Hi Hp Er Hr; [simpl in Er; congruence|].
  rewrite scan_up_cons in Er.
  destruct (p <? i)%nat eqn:E1; [congruence|]. apply Nat.ltb_ge in E1.
  destruct (qleb (h + tq) L) eqn:E2.
  - apply qleb_true in E2. subst r. replace (S (i - 1) - i)%nat with 0%nat by lia. split; [exact E2|]. intros j Hj. lia.
  - apply qleb_false in E2. destruct (IH (S i) p r ltac:(lia) ltac:(lia) Er Hr) as [I1 I2].
    pose proof (scan_up_bounds tq L rest (S i) p ltac:(lia)) as Hb. rewrite Er in Hb.
    split.
    + replace (S r - i)%nat with (S (S r - S i)) by lia. rewrite nth_S_cons. exact I1.
    + intros j Hj. destruct (Nat.eq_dec j i) as [->|Hne]; [rewrite Nat.sub_diag; exact E2|].
      replace (j - i)%nat with (S (j - S i)) by lia. rewrite nth_S_cons. apply I2. lia.
Qed.
Lemma nth_skipn_map (t : list row) a k : nth k (skipn a (map rH t)) 0 = Hat t (a + k).
Proof.
  revert a. induction t as [|x t IH]; intros a; [rewrite skipn_nil; unfold Hat; destruct k; destruct (a + _)%nat; reflexivity|].
  destruct a as [|a].
  - unfold Hat. cbn [skipn Nat.add]. change 0 with (rH r0) at 1. apply map_nth.
  - simpl. rewrite IH. reflexivity.
Qed.
Theorem exit_up_gap tq t i0 p : 0 < tq -> (i0 < p)%nat -> Hat t i0 < Hat t (S i0) - tq ->
  exit_up tq t i0 p <> p -> Hat t (S (exit_up tq t i0 p)) < Hat t (exit_up tq t i0 p).
Proof.
  intros Ht Hp He Hne. pose proof (exit_up_bounds tq t i0 p Ht Hp He) as Hb.
  set (r := exit_up tq t i0 p) in *.
  destruct (scan_up_found tq (Hat t i0) (skipn (S i0) (map rH t)) (S i0) p r ltac:(lia) ltac:(lia) eq_refl Hne) as [F1 F2].
  rewrite nth_skipn_map in F1. specialize (F2 r ltac:(lia)). rewrite nth_skipn_map in F2.
  replace (S i0 + (S r - S i0))%nat with (S r) in F1 by lia. replace (S i0 + (r - S i0))%nat with r in F2 by lia. lra.
Qed.

Lemma scan_dn_found tq L : forall hs k p r, scan_dn tq L hs k p = r -> r <> p ->
  (r <= k)%nat /\ nth (k - r) hs 0 + tq <= L /\ (forall j, (j < k - r)%nat -> L < nth j hs 0 + tq).
Proof.
  induction hs as [|h rest IH]; intros k p r Er Hr; [simpl in Er; congruence|].
  rewrite scan_dn_cons in Er.
  destruct (k <=? p)%nat eqn:E1; [congruence|]. apply Nat.leb_gt in E1.
  destruct (qleb (h + tq) L) eqn:E2.
  - apply qleb_true in E2. subst r. rewrite Nat.sub_diag. split; [lia|]. split; [exact E2|]. intros j Hj. lia.
  - apply qleb_false in E2. destruct (IH (k - 1)%nat p r Er Hr) as [I0 [I1 I2]].
    split; [lia|]. split.
    + replace (k - r)%nat with (S (k - 1 - r)) by lia. rewrite nth_S_cons. exact I1.
    + intros j Hj. destruct j as [|j]; [exact E2|]. rewrite nth_S_cons. apply I2. lia.
Qed.
Lemma nth_firstn_lt {A} (l : list A) n k d : (k < n)%nat -> nth k (firstn n l) d = nth k l d.
Proof.
  revert n k. induction l as [|x l IH]; intros n k H; [rewrite firstn_nil; reflexivity|].
  destruct n as [|n]; [lia|]. destruct k as [|k]; [reflexivity|]. simpl. apply IH. lia.
Qed.
Lemma nth_rev_firstn_map (t : list row) i0 j : (i0 <= List.length t)%nat -> (j < i0)%nat ->
  nth j (rev (firstn i0 (map rH t))) 0 = Hat t (i0 - 1 - j).
Proof.
  intros Hl Hj. rewrite rev_nth by (rewrite firstn_length, map_length; lia).
  rewrite firstn_length, map_length. replace (Nat.min i0 (List.length t)) with i0 by lia.
  rewrite nth_firstn_lt by lia. unfold Hat. change 0 with (rH r0). rewrite map_nth. f_equal. f_equal. lia.
Qed.
Theorem exit_dn_gap tq t i0 p : 0 < tq -> (p < i0)%nat -> (i0 < List.length t)%nat -> Hat t i0 < Hat t (i0 - 1) - tq ->
  exit_dn tq t i0 p <> p -> Hat t (exit_dn tq t i0 p - 1) < Hat t (exit_dn tq t i0 p).
Proof.
  intros Ht Hp Hl He Hne. pose proof (exit_dn_bounds tq t i0 p Ht Hp Hl He) as Hb.
  set (r := exit_dn tq t i0 p) in *.
  destruct (scan_dn_found tq (Hat t i0) (rev (firstn i0 (map rH t))) i0 p r eq_refl Hne) as [F0 [F1 F2]].
  rewrite nth_rev_firstn_map in F1 by lia.
  specialize (F2 (i0 - r - 1)%nat ltac:(lia)). rewrite nth_rev_firstn_map in F2 by lia.
  replace (i0 - 1 - (i0 - r))%nat with (r - 1)%nat in F1 by lia.
  replace (i0 - 1 - (i0 - r - 1))%nat with r in F2 by lia. lra.
Qed.
