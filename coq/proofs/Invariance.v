(* C12 on the specification: the exact net-deficit function is invariant under equivalent descriptions of the problem;
   since Qh is its supremum over all temperatures (C01), the targets are invariant too. *)
From OP Require Import model.Base model.Cascade proofs.BaseFacts proofs.CascadeSpec.
From Coq Require Import Lqa Lia Permutation.
Local Open Scope Q_scope.

(* order of the streams *)
Lemma heat_above_perm ss ss' T : Permutation ss ss' -> heat_above ss T == heat_above ss' T.
Proof. intro P. induction P; simpl; try lra. Qed.
Theorem Dnet_perm hot hot' cold cold' T : Permutation hot hot' -> Permutation cold cold' -> Dnet hot cold T == Dnet hot' cold' T.
Proof. intros P1 P2. unfold Dnet. rewrite (heat_above_perm _ _ T P1), (heat_above_perm _ _ T P2). reflexivity. Qed.

(* a stream split at an intermediate temperature *)
Lemma above_split l m h c T : l <= m -> m <= h ->
  above (mkV l h c) T == above (mkV l m c) T + above (mkV m h c) T.
Proof. intros H1 H2. unfold above; simpl. qmax_cases. split_cases; lra. Qed.
Theorem heat_above_split l m h c rest T : l <= m -> m <= h ->
  heat_above (mkV l h c :: rest) T == heat_above (mkV l m c :: mkV m h c :: rest) T.
Proof. intros H1 H2. unfold heat_above. cbn [fold_right vcp]. rewrite (above_split l m h c T H1 H2). ring. Qed.

(* a stream split into parallel branches of the same range *)
Theorem heat_above_branches l h c1 c2 rest T :
  heat_above (mkV l h (c1 + c2) :: rest) T == heat_above (mkV l h c1 :: mkV l h c2 :: rest) T.
Proof. unfold heat_above. cbn [fold_right vcp]. unfold above. cbn [lo hi]. ring. Qed.

(* uniform temperature shift *)
Definition shiftv (d : Q) (s : view) : view := mkV (lo s + d) (hi s + d) (vcp s).
Lemma above_shift d s T : above (shiftv d s) (T + d) == above s T.
Proof. unfold above, shiftv; simpl. qmax_cases. split_cases; lra. Qed.
Theorem heat_above_shift d ss T : heat_above (map (shiftv d) ss) (T + d) == heat_above ss T.
Proof. induction ss as [|s ss IH]; simpl; [reflexivity|]. rewrite IH, above_shift. reflexivity. Qed.
Theorem Dnet_shift d hot cold T : Dnet (map (shiftv d) hot) (map (shiftv d) cold) (T + d) == Dnet hot cold T.
Proof. unfold Dnet. rewrite !heat_above_shift. reflexivity. Qed.

(* uniform scaling of the duties *)
Definition scalev (k : Q) (s : view) : view := mkV (lo s) (hi s) (k * vcp s).
Theorem heat_above_scale k ss T : heat_above (map (scalev k) ss) T == k * heat_above ss T.
Proof. induction ss as [|s ss IH]; simpl; [ring|]. rewrite IH. unfold above, scalev; simpl. ring. Qed.
Theorem Dnet_scale k hot cold T : Dnet (map (scalev k) hot) (map (scalev k) cold) T == k * Dnet hot cold T.
Proof. unfold Dnet. rewrite !heat_above_scale. ring. Qed.

(* mirroring the temperature axis swaps hot and cold *)
Definition mirrorv (s : view) : view := mkV (- hi s) (- lo s) (vcp s).
Lemma above_mirror s T : above (mirrorv s) (- T) == below s T.
Proof. unfold above, below, mirrorv; simpl. qmax_cases. split_cases; lra. Qed.
Lemma heat_above_mirror ss T : heat_above (map mirrorv ss) (- T) == heat_below ss T.
Proof. induction ss as [|s ss IH]; simpl; [reflexivity|]. rewrite IH, above_mirror. reflexivity. Qed.
Lemma duty_mirror ss : duty (map mirrorv ss) == duty ss.
Proof. induction ss as [|s ss IH]; simpl; [reflexivity|]. rewrite IH. ring. Qed.
(* the mirrored problem has hot streams = mirrored cold streams and vice versa *)
Theorem Dnet_mirror hot cold T : wfs hot -> wfs cold ->
  Dnet (map mirrorv cold) (map mirrorv hot) (- T) == Dnet hot cold T + duty hot - duty cold.
Proof.
  intros Wh Wc. unfold Dnet. rewrite !heat_above_mirror.
  pose proof (heat_above_below hot T Wh). pose proof (heat_above_below cold T Wc). lra.
Qed.

(* transfer: two descriptions with the same deficit function (up to an additive constant c and a factor k) have the same
   supremum; with C01 (Qh is the attained supremum of the deficit) this moves every invariance above to the targets *)
Theorem sup_transfer (D1 D2 : Q -> Q) (f : Q -> Q) (k c q1 q2 : Q) :
  0 < k -> (forall T, D2 (f T) == k * D1 T + c) -> (forall T, exists T', f T' == T \/ D2 T <= D2 (f T')) ->
  (forall T, D1 T <= q1) -> (exists T, D1 T == q1) -> (forall T, D2 T <= q2) -> (exists T, D2 T == q2) ->
  (forall a b, a == b -> D2 a == D2 b) ->
  q2 == k * q1 + c.
Proof.
  intros Hk E Hs U1 [T1 A1] U2 [T2 A2] Pr. apply Qle_antisym.
  - destruct (Hs T2) as [T' [K|K]].
    + rewrite <- A2, <- (Pr _ _ K), E. specialize (U1 T'). nra.
    + rewrite <- A2. eapply Qle_trans; [exact K|]. rewrite E. specialize (U1 T'). nra.
  - rewrite <- A1. specialize (U2 (f T1)). rewrite E in U2. lra.
Qed.
