(* C03/C04, profile layer: on a pocket-free (monotone) demand profile the reachable enthalpy `pgen` is the value of the
   profile at the utility's level (`prow`), utilities whose end points are rows are clear of the grid, the segment
   limit is the profile's maximum; hence the closed forms, the sum theorems and the default-utility lemma. *)
From OP Require Import gen.Consts model.Base model.Stream model.Utility proofs.BaseFacts proofs.UtilityLadder proofs.UtilityDuty.
From Coq Require Import Lqa Lia.
Local Open Scope Q_scope.

Section Profile.
Variable tolv : Q.
Hypothesis tol_pos : 0 < tolv.

(* ---- structure of the interval lists ---- *)
Lemma strict_desc_tail a l : strict_desc (a :: l) = true -> strict_desc l = true.
Proof. destruct l as [|b r]; simpl; [reflexivity|]. intro H. apply andb_true_iff in H. apply H. Qed.
Lemma strict_desc_lt a l x : strict_desc (a :: l) = true -> In x l -> x < a.
Proof.
  revert a. induction l as [|b r IH]; intros a H Hx; [inversion Hx|].
  simpl in H. apply andb_true_iff in H. destruct H as [H1 H2]. apply qltb_true in H1.
  destruct Hx as [->|Hx]; [exact H1|]. specialize (IH b H2 Hx). lra.
Qed.
Lemma noninc_tail a l : noninc (a :: l) = true -> noninc l = true.
Proof. destruct l as [|b r]; simpl; [reflexivity|]. intro H. apply andb_true_iff in H. apply H. Qed.
Lemma noninc_le a l x : noninc (a :: l) = true -> In x l -> x <= a.
Proof.
  revert a. induction l as [|b r IH]; intros a H Hx; [inversion Hx|].
  simpl in H. apply andb_true_iff in H. destruct H as [H1 H2]. apply qleb_true in H1.
  destruct Hx as [->|Hx]; [exact H1|]. specialize (IH b H2 Hx). lra.
Qed.
Lemma lastq_cons a b l : lastq (a :: b :: l) = lastq (b :: l).
Proof. reflexivity. Qed.
Lemma lastq_in a l : lastq (a :: l) = a \/ In (lastq (a :: l)) l.
Proof.
  revert a. induction l as [|b r IH]; intro a; [left; reflexivity|].
  rewrite lastq_cons. destruct (IH b) as [E|E]; right; [left; symmetry; exact E|right; exact E].
Qed.

Lemma ivs_hot_in T : forall H v, In v (ivs_hot T H) ->
  strict_desc T = true ->
  In (ia v) T /\ In (ib v) T /\ ib v < ia v /\ ia v <= List.hd 0 T /\ In (hadj v) (removelast H).
Proof.
  induction T as [|t0 Tr IH]; intros H v Hv Hs; [destruct H; inversion Hv|].
  destruct Tr as [|t1 Tr']; [destruct H as [|? [|? ?]]; inversion Hv|].
  destruct H as [|h0 [|h1 Hr]]; try (inversion Hv; fail).
  cbn [ivs_hot] in Hv. destruct Hv as [<-|Hv].
  - cbn [ia ib hadj List.hd]. repeat split.
    + left; reflexivity.
    + right; left; reflexivity.
    + simpl in Hs. apply andb_true_iff in Hs. destruct Hs as [Hs _]. apply qltb_true in Hs. exact Hs.
    + lra.
    + left; reflexivity.
  - destruct (IH (h1 :: Hr) v Hv (strict_desc_tail _ _ Hs)) as [H1 [H2 [H3 [H4 H5]]]].
    repeat split.
    + right. exact H1.
    + right. exact H2.
    + exact H3.
    + cbn [List.hd] in *. pose proof (strict_desc_lt t0 (t1 :: Tr') t1 Hs (or_introl eq_refl)). lra.
    + change (removelast (h0 :: h1 :: Hr)) with (h0 :: removelast (h1 :: Hr)). right. exact H5.
Qed.

Lemma ivs_cold_in T : forall H v, In v (ivs_cold T H) ->
  strict_desc T = true ->
  exists xa xb, In xa T /\ In xb T /\ ia v = - xa /\ ib v = - xb /\ xa < xb /\ In (hadj v) (List.tl H).
Proof.
  induction T as [|t0 Tr IH]; intros H v Hv Hs; [destruct H; inversion Hv|].
  destruct Tr as [|t1 Tr']; [destruct H as [|? [|? ?]]; inversion Hv|].
  destruct H as [|h0 [|h1 Hr]]; try (inversion Hv; fail).
  cbn [ivs_cold] in Hv. destruct Hv as [<-|Hv].
  - exists t1, t0. cbn [ia ib hadj List.tl]. repeat split.
    + right; left; reflexivity.
    + left; reflexivity.
    + simpl in Hs. apply andb_true_iff in Hs. destruct Hs as [Hs _]. apply qltb_true in Hs. exact Hs.
    + left; reflexivity.
  - destruct (IH (h1 :: Hr) v Hv (strict_desc_tail _ _ Hs)) as [xa [xb [H1 [H2 [H3 [H4 [H5 H6]]]]]]].
    exists xa, xb. repeat split; auto.
    + right. exact H1.
    + right. exact H2.
    + cbn [List.tl] in *. right. exact H6.
Qed.

(* ---- utilities whose end points are rows (no row strictly inside their range) are clear of the grid ---- *)
Lemma clear_row_spec s t x : clear_row tolv s t x = true -> x <= t \/ (s <= x /\ (x <= s \/ s + tolv < x)).
Proof.
  unfold clear_row. intro H. apply orb_true_iff in H. destruct H as [H|H].
  - left. apply qleb_true. exact H.
  - right. apply andb_true_iff in H. destruct H as [H1 H2]. apply qleb_true in H1. split; [exact H1|].
    apply orb_true_iff in H2. destruct H2 as [H2|H2]; [left; apply qleb_true; exact H2|right; apply qltb_true; exact H2].
Qed.

Theorem ivclear_hot T H s t :
  strict_desc T = true -> t <= s -> forallb (clear_row tolv s t) T = true -> ivclear tolv (ivs_hot T H) s t.
Proof.
  intros Hs Hts Hc v Hv Hr. destruct (ivs_hot_in T H v Hv Hs) as [H1 [H2 [H3 _]]].
  rewrite forallb_forall in Hc.
  unfold reachv, dsup in Hr. apply andb_true_iff in Hr. destruct Hr as [_ Hr]. apply qleb_true in Hr. rewrite rsub_eq in Hr.
  destruct (clear_row_spec s t _ (Hc _ H1)) as [Ha|[Ha1 Ha2]];
  destruct (clear_row_spec s t _ (Hc _ H2)) as [Hb|[Hb1 Hb2]]; lra.
Qed.

Theorem ivclear_cold T H s t :
  strict_desc T = true -> t <= s -> forallb (fun x => clear_row tolv s t (- x)) T = true -> ivclear tolv (ivs_cold T H) s t.
Proof.
  intros Hs Hts Hc v Hv Hr. destruct (ivs_cold_in T H v Hv Hs) as [xa [xb [H1 [H2 [Ea [Eb [H3 _]]]]]]].
  rewrite forallb_forall in Hc.
  unfold reachv, dsup in Hr. apply andb_true_iff in Hr. destruct Hr as [_ Hr]. apply qleb_true in Hr. rewrite rsub_eq in Hr.
  rewrite Ea in Hr. rewrite Eb.
  destruct (clear_row_spec s t _ (Hc _ H1)) as [Ha|[Ha1 Ha2]];
  destruct (clear_row_spec s t _ (Hc _ H2)) as [Hb|[Hb1 Hb2]]; lra.
Qed.

(* ---- the segment limit is the maximum of a monotone profile ---- *)
Lemma in_removelast (l : list Q) x : In x (removelast l) -> In x l.
Proof.
  induction l as [|a [|b r] IH]; intro H; [inversion H|inversion H|].
  change (removelast (a :: b :: r)) with (a :: removelast (b :: r)) in H. destruct H as [->|H]; [left; reflexivity|right; apply IH; exact H].
Qed.
Lemma hot_hadj_le T H v : strict_desc T = true -> noninc H = true -> In v (ivs_hot T H) -> hadj v <= headq H.
Proof.
  intros Hs Hn Hv. destruct (ivs_hot_in T H v Hv Hs) as [_ [_ [_ [_ H5]]]].
  apply in_removelast in H5. destruct H as [|h0 Hr]; [inversion H5|]. unfold headq; simpl.
  destruct H5 as [->|H5]; [lra|]. exact (noninc_le h0 Hr _ Hn H5).
Qed.
Lemma noninc_rev_last (H : list Q) x : noninc (rev H) = true -> In x H -> x <= lastq H.
Proof.
  intros Hn Hx. destruct H as [|h0 Hr] using rev_ind; [inversion Hx|]. clear IHHr.
  unfold lastq. rewrite last_last. rewrite rev_app_distr in Hn. cbn [rev app] in Hn.
  apply in_app_or in Hx. destruct Hx as [Hx|[->|[]]]; [|lra].
  apply (noninc_le h0 (rev Hr) x Hn). apply in_rev in Hx. exact Hx.
Qed.
Lemma cold_hadj_le T H v : strict_desc T = true -> noninc (rev H) = true -> In v (ivs_cold T H) -> hadj v <= lastq H.
Proof.
  intros Hs Hn Hv. destruct (ivs_cold_in T H v Hv Hs) as [xa [xb [_ [_ [_ [_ [_ H6]]]]]]].
  apply noninc_rev_last; [exact Hn|]. destruct H; [inversion H6|]. right. exact H6.
Qed.

(* ---- on a monotone hot-side profile the reachable enthalpy is the value of the profile at the level ---- *)
Lemma noninc_last_le h l : noninc (h :: l) = true -> lastq (h :: l) <= h.
Proof. intro H. destruct (lastq_in h l) as [E|E]; [rewrite E; lra|]. exact (noninc_le h l _ H E). Qed.

Lemma ivs_hot_cons t0 t1 Tr h0 h1 Hr :
  ivs_hot (t0 :: t1 :: Tr) (h0 :: h1 :: Hr) = mkIv t0 t1 h0 h1 :: ivs_hot (t1 :: Tr) (h1 :: Hr).
Proof. reflexivity. Qed.
Lemma pgen_cons v l s :
  pgen tolv (v :: l) s = if reachv tolv s v then Qmax (hadj v) (pgen tolv l s) else pgen tolv l s.
Proof. unfold pgen. cbn [filter]. destruct (reachv tolv s v); reflexivity. Qed.

(* all intervals reachable: maximum over the changing intervals *)
Lemma pgen_all_reach T : forall H s, strict_desc T = true -> noninc H = true -> List.length T = List.length H ->
  (forall x, In x T -> - tolv <= s - x) -> 0 <= lastq H ->
  pgen tolv (ivs_hot T H) s == headq H \/ (pgen tolv (ivs_hot T H) s == 0 /\ headq H == lastq H).
Proof.
  induction T as [|t0 Tr IH]; intros H s Hs Hn Hl Hr H0.
  - destruct H; [|discriminate]. left. reflexivity.
  - destruct H as [|h0 Hr']; [discriminate|]. destruct Tr as [|t1 Tr'].
    + destruct Hr' as [|? ?]; [|discriminate]. right. split; reflexivity.
    + destruct Hr' as [|h1 Hr'']; [discriminate|].
      assert (IH' := IH (h1 :: Hr'') s (strict_desc_tail _ _ Hs) (noninc_tail _ _ Hn) ltac:(simpl in *; lia)
                        (fun x Hx => Hr x (or_intror Hx)) ltac:(rewrite lastq_cons in H0; exact H0)).
      assert (Hle : h1 <= h0) by (simpl in Hn; apply andb_true_iff in Hn; destruct Hn as [Hn _]; apply qleb_true in Hn; exact Hn).
      assert (Hl1 : lastq (h1 :: Hr'') <= h1) by (apply noninc_last_le; exact (noninc_tail _ _ Hn)).
      rewrite lastq_cons in *. unfold headq in *. cbn [List.hd] in *.
      rewrite ivs_hot_cons, pgen_cons.
      assert (Hreach : qleb (- tolv) (dsup s (mkIv t0 t1 h0 h1)) = true).
      { apply qleb_true. unfold dsup. rewrite rsub_eq. cbn [ia]. apply Hr. left. reflexivity. }
      assert (Hrv : reachv tolv s (mkIv t0 t1 h0 h1) = negb (qeqb h0 h1)).
      { unfold reachv. rewrite Hreach, andb_true_r. reflexivity. }
      rewrite !Hrv. cbn [hadj].
      destruct (qeqb h0 h1) eqn:Ec; cbn [negb].
      * apply qeqb_true in Ec. destruct IH' as [E|[E1 E2]]; [left; lra|right; split; lra].
      * apply qeqb_false in Ec.
        left. destruct (qmax_cases h0 (pgen tolv (ivs_hot (t1 :: Tr') (h1 :: Hr'')) s)) as [[Hm E]|[Hm E]]; [|exact E].
        destruct IH' as [E'|[E1 E2]]; lra.
Qed.

Lemma pgen_prow_hot T : forall H s a, strict_desc T = true -> noninc H = true -> List.length T = List.length H ->
  0 <= lastq H -> lastq H <= tolv -> 0 <= a ->
  thr tolv (pgen tolv (ivs_hot T H) s - a) == thr tolv (prow tolv T H s - a).
Proof.
  induction T as [|t0 Tr IH]; intros H s a Hs Hn Hl H0 H1 Ha.
  - destruct H; [|discriminate]. reflexivity.
  - destruct H as [|h0 Hr']; [discriminate|]. cbn [prow].
    destruct (qleb (- tolv) (rsub s t0)) eqn:Er.
    + (* the top row of the segment is reachable: so is every row below it *)
      apply qleb_true in Er. rewrite rsub_eq in Er.
      assert (Hall : forall x, In x (t0 :: Tr) -> - tolv <= s - x).
      { intros x [<-|Hx]; [exact Er|]. pose proof (strict_desc_lt t0 Tr x Hs Hx). lra. }
      destruct (pgen_all_reach (t0 :: Tr) (h0 :: Hr') s Hs Hn Hl Hall H0) as [E|[E1 E2]].
      * unfold headq in E. cbn [List.hd] in E. apply thr_eq; [exact tol_pos|lra].
      * unfold headq in E2. cbn [List.hd] in E2.
        destruct (thr_cases tolv (pgen tolv (ivs_hot (t0 :: Tr) (h0 :: Hr')) s - a)) as [[Hc _]|[_ Ea]]; [lra|].
        destruct (thr_cases tolv (h0 - a)) as [[Hc _]|[_ Eb]]; [lra|]. rewrite Ea, Eb. reflexivity.
    + (* not reachable from the top row: the first interval drops out *)
      destruct Tr as [|t1 Tr'].
      * destruct Hr'; [|discriminate]. reflexivity.
      * destruct Hr' as [|h1 Hr'']; [discriminate|].
        assert (Hp : pgen tolv (ivs_hot (t0 :: t1 :: Tr') (h0 :: h1 :: Hr'')) s = pgen tolv (ivs_hot (t1 :: Tr') (h1 :: Hr'')) s).
        { rewrite ivs_hot_cons, pgen_cons. unfold reachv at 1. unfold dsup. cbn [ia]. rewrite Er, andb_false_r. reflexivity. }
        rewrite Hp. apply IH; [exact (strict_desc_tail _ _ Hs)|exact (noninc_tail _ _ Hn)|simpl in *; lia|exact H0|exact H1|exact Ha].
Qed.

Lemma greedy_conv P : forall P' a b,
  Forall2 (fun p p' => forall x, 0 <= x -> thr tolv (p - x) == thr tolv (p' - x)) P P' -> 0 <= a -> a == b ->
  Forall2 Qeq (greedy tolv a P) (greedy tolv b P').
Proof.
  induction P as [|p r IH]; intros P' a b HF Ha E; inversion HF as [|x y l l' Hxy Hl]; subst; cbn [greedy]; constructor.
  - rewrite (Hxy a Ha). apply thr_eq; [exact tol_pos|lra].
  - apply IH; [exact Hl| |].
    + pose proof (thr_nonneg tolv tol_pos (p - a)). lra.
    + rewrite (Hxy a Ha). rewrite (thr_eq tolv tol_pos (y - a) (y - b)) by lra. lra.
Qed.

(* ---- HOT SIDE, closed form: segment rows Ts strictly descending, pocket-free demand Hs non-increasing down to the
        pinch row (0 <= last <= tol), every utility of the ladder clear of the grid: the duties the loop assigns are
        the lowest-grade-first closed form on P(level) = profile value at the level ---- *)
Theorem hot_closed_form Ts Hs (l : list ut) :
  strict_desc Ts = true -> noninc Hs = true -> List.length Ts = List.length Hs -> 0 <= lastq Hs -> lastq Hs <= tolv ->
  (forall u, In u l -> utg u <= us u /\ forallb (clear_row tolv (us u) (utg u)) Ts = true) ->
  Forall2 Qeq (assign_loop tolv (ivs_hot Ts Hs) (headq Hs) l 0)
              (greedy tolv 0 (map (fun u => prow tolv Ts Hs (us u)) l)).
Proof.
  intros Hs' Hn Hl H0 H1 Hc.
  assert (Hh0 : 0 <= headq Hs).
  { destruct Hs as [|h r]; [unfold headq; simpl; lra|]. pose proof (noninc_last_le h r Hn). unfold headq; simpl. lra. }
  eapply Forall2_eq_trans.
  - apply assign_eq_greedy; [exact tol_pos|exact Hh0| |].
    + intros v Hv. apply hot_hadj_le with (T := Ts); assumption.
    + intros u Hu. destruct (Hc u Hu) as [Hu1 Hu2]. apply ivclear_hot; assumption.
  - apply greedy_conv; [|lra|reflexivity].
    clear Hc. induction l as [|u l IH]; cbn [map]; constructor; [|exact IH].
    intros x Hx. apply pgen_prow_hot; assumption.
Qed.

(* ---- HOT SIDE, the C03 sum: ONE utility clear of the grid whose supply level reaches the top row of the segment closes
        the sum to tol, whatever the other utilities of the ladder are (gliding ones included) ---- *)
Theorem hot_sum_closes Ts Hs (l : list ut) u :
  strict_desc Ts = true -> noninc Hs = true -> List.length Ts = List.length Hs -> 0 <= lastq Hs -> lastq Hs <= tolv ->
  tolv < headq Hs ->
  In u l -> utg u <= us u -> forallb (clear_row tolv (us u) (utg u)) Ts = true -> - tolv <= us u - List.hd 0 Ts ->
  headq Hs - tolv <= qsum (assign_loop tolv (ivs_hot Ts Hs) (headq Hs) l 0) /\
  qsum (assign_loop tolv (ivs_hot Ts Hs) (headq Hs) l 0) <= headq Hs.
Proof.
  intros Hs' Hn Hl H0 H1 Hent Hin Hts Hc Htop.
  apply assign_sum_closes with (u := u); auto.
  - lra.
  - intros v Hv. apply hot_hadj_le with (T := Ts); assumption.
  - apply ivclear_hot; assumption.
  - assert (Hall : forall x, In x Ts -> - tolv <= us u - x).
    { intros x Hx. destruct Ts as [|t0 Tr]; [inversion Hx|]. cbn [List.hd] in Htop. destruct Hx as [<-|Hx]; [exact Htop|].
      pose proof (strict_desc_lt t0 Tr x Hs' Hx). lra. }
    destruct (pgen_all_reach Ts Hs (us u) Hs' Hn Hl Hall H0) as [E|[E1 E2]]; [exact E|lra].
Qed.

(* ---- COLD SIDE: the same on the mirrored coordinate.  Profile non-decreasing going down the rows. ---- *)
Lemma ivs_cold_cons t0 t1 Tr h0 h1 Hr :
  ivs_cold (t0 :: t1 :: Tr) (h0 :: h1 :: Hr) = mkIv (- t1) (- t0) h1 h0 :: ivs_cold (t1 :: Tr) (h1 :: Hr).
Proof. reflexivity. Qed.
Lemma pgen_none ivs s : (forall v, In v ivs -> reachv tolv s v = false) -> pgen tolv ivs s = 0.
Proof.
  intro H. unfold pgen. replace (filter (reachv tolv s) ivs) with (@nil iv); [reflexivity|].
  symmetry. induction ivs as [|v l IH]; [reflexivity|]. cbn [filter]. rewrite (H v (or_introl eq_refl)).
  apply IH. intros w Hw. apply H. right. exact Hw.
Qed.
Lemma nondec_head_le h l x : noninc (rev (h :: l)) = true -> In x l -> h <= x.
Proof.
  intros Hn Hx. cbn [rev] in Hn.
  assert (G : forall (r : list Q) y, noninc (r ++ [h]) = true -> In y r -> h <= y).
  { clear. induction r as [|a r IH]; intros y Hn Hy; [inversion Hy|].
    destruct Hy as [->|Hy].
    - apply (noninc_le y (r ++ [h]) h Hn). apply in_or_app. right. left. reflexivity.
    - apply IH; [|exact Hy]. change ((a :: r) ++ [h]) with (a :: (r ++ [h])) in Hn. exact (noninc_tail _ _ Hn). }
  apply (G (rev l) x Hn). apply in_rev. rewrite rev_involutive. exact Hx.
Qed.
Lemma nondec_tail h l : noninc (rev (h :: l)) = true -> noninc (rev l) = true.
Proof.
  cbn [rev]. generalize (rev l) as r0. clear. induction r0 as [|a r IH]; intro H; [reflexivity|].
  change ((a :: r) ++ [h]) with (a :: (r ++ [h])) in H. destruct r as [|b r'].
  - reflexivity.
  - cbn [app] in H. cbn [noninc] in H. apply andb_true_iff in H. destruct H as [H1 H2].
    cbn [noninc]. apply andb_true_iff. split; [exact H1|]. apply IH. exact H2.
Qed.

Lemma cold_unreach T H x s : strict_desc T = true -> s == - x ->
  (forall y, In y T -> y - x < - tolv) -> pgen tolv (ivs_cold T H) s = 0.
Proof.
  intros Hs Es Hy. apply pgen_none. intros v Hv.
  destruct (ivs_cold_in T H v Hv Hs) as [xa [xb [H1 [_ [Ea _]]]]].
  unfold reachv, dsup. rewrite Ea. apply andb_false_iff. right. apply qleb_false. rewrite rsub_eq. specialize (Hy xa H1). lra.
Qed.

Lemma prow_cold_cons t0 t1 Tr h0 h1 Hr x :
  prow_cold tolv (t0 :: t1 :: Tr) (h0 :: h1 :: Hr) x =
  if qleb (- tolv) (rsub t0 x) then (if qleb (- tolv) (rsub t1 x) then prow_cold tolv (t1 :: Tr) (h1 :: Hr) x else h0) else 0.
Proof. reflexivity. Qed.
Lemma prow_cold_one t0 h0 x : prow_cold tolv [t0] [h0] x = if qleb (- tolv) (rsub t0 x) then h0 else 0.
Proof. reflexivity. Qed.

(* first row reachable *)
Lemma pgen_prow_cold_aux T : forall H x s, strict_desc T = true -> noninc (rev H) = true -> List.length T = List.length H ->
  s == - x -> 0 <= headq H -> - tolv <= List.hd 0 T - x -> T <> [] ->
  (pgen tolv (ivs_cold T H) s == prow_cold tolv T H x /\ headq H <= prow_cold tolv T H x)
  \/ (pgen tolv (ivs_cold T H) s == 0 /\ prow_cold tolv T H x == headq H).
Proof.
  induction T as [|t0 Tr IH]; intros H x s Hs Hn Hl Es H0 Ht Hne; [congruence|].
  destruct H as [|h0 Hr]; [discriminate|]. cbn [List.hd] in Ht. unfold headq in *. cbn [List.hd] in *.
  assert (Er : qleb (- tolv) (rsub t0 x) = true) by (apply qleb_true; rewrite rsub_eq; exact Ht).
  destruct Tr as [|t1 Tr'].
  - destruct Hr; [|discriminate]. right. rewrite prow_cold_one, Er. split; reflexivity.
  - destruct Hr as [|h1 Hr']; [discriminate|]. rewrite prow_cold_cons, Er.
    assert (Hh : h0 <= h1) by (apply (nondec_head_le h0 (h1 :: Hr') h1 Hn); left; reflexivity).
    destruct (qleb (- tolv) (rsub t1 x)) eqn:Er1.
    + (* next row reachable: descend *)
      assert (Ht1 : - tolv <= t1 - x) by (apply qleb_true in Er1; rewrite rsub_eq in Er1; exact Er1).
      assert (IH' := IH (h1 :: Hr') x s (strict_desc_tail _ _ Hs) (nondec_tail _ _ Hn) ltac:(simpl in *; lia) Es
                        ltac:(cbn [List.hd]; lra) ltac:(cbn [List.hd]; exact Ht1) ltac:(discriminate)).
      cbn [List.hd] in IH'.
      rewrite ivs_cold_cons, pgen_cons.
      assert (Hrv : reachv tolv s (mkIv (- t1) (- t0) h1 h0) = negb (qeqb h1 h0)).
      { unfold reachv, changing, dsup. cbn [ia hadj hcur].
        assert (Hq : qleb (- tolv) (rsub s (- t1)) = true) by (apply qleb_true; rewrite rsub_eq; lra).
        rewrite Hq, andb_true_r. reflexivity. }
      rewrite Hrv. cbn [hadj].
      destruct (qeqb h1 h0) eqn:Ec; cbn [negb].
      * apply qeqb_true in Ec. destruct IH' as [[E1 E2]|[E1 E2]]; [left; split; lra|right; split; lra].
      * apply qeqb_false in Ec. left.
        destruct (qmax_cases h1 (pgen tolv (ivs_cold (t1 :: Tr') (h1 :: Hr')) s)) as [[Hm E]|[Hm E]];
          destruct IH' as [[E1 E2]|[E1 E2]]; split; lra.
    + (* next row not reachable: nothing below is *)
      right. split; [|reflexivity].
      assert (Ht1 : t1 - x < - tolv) by (apply qleb_false in Er1; rewrite rsub_eq in Er1; exact Er1).
      assert (Hz : pgen tolv (ivs_cold (t0 :: t1 :: Tr') (h0 :: h1 :: Hr')) s = 0); [|rewrite Hz; reflexivity].
      apply pgen_none. intros v Hv.
      destruct (ivs_cold_in _ _ v Hv Hs) as [xa [xb [H1 [H2 [Ea [_ [Hab _]]]]]]].
      unfold reachv, dsup. rewrite Ea. apply andb_false_iff. right. apply qleb_false. rewrite rsub_eq.
      assert (Hxb : xb <= t0).
      { destruct H2 as [<-|H2]; [lra|]. pose proof (strict_desc_lt t0 (t1 :: Tr') xb Hs H2). lra. }
      assert (xa <= t1).
      { destruct H1 as [<-|[<-|H1]]; [lra|lra|].
        pose proof (strict_desc_lt t1 Tr' xa (strict_desc_tail _ _ Hs) H1). lra. }
      lra.
Qed.

Lemma prow_cold_unreach T H x : (match T with t0 :: _ => t0 - x < - tolv | [] => True end) -> prow_cold tolv T H x = 0.
Proof.
  destruct T as [|t0 Tr]; [reflexivity|]. destruct H as [|h0 Hr]; [reflexivity|]. intro Ht.
  assert (Er : qleb (- tolv) (rsub t0 x) = false) by (apply qleb_false; rewrite rsub_eq; exact Ht).
  cbn [prow_cold]. rewrite Er. reflexivity.
Qed.

Lemma pgen_prow_cold T H x s a : strict_desc T = true -> noninc (rev H) = true -> List.length T = List.length H ->
  s == - x -> 0 <= headq H -> headq H <= tolv -> 0 <= a ->
  thr tolv (pgen tolv (ivs_cold T H) s - a) == thr tolv (prow_cold tolv T H x - a).
Proof.
  intros Hs Hn Hl Es H0 H1 Ha. destruct T as [|t0 Tr].
  - destruct H; [|discriminate]. reflexivity.
  - destruct (Qlt_le_dec (t0 - x) (- tolv)) as [Hlt|Hge].
    + rewrite (prow_cold_unreach (t0 :: Tr) H x Hlt).
      rewrite (cold_unreach (t0 :: Tr) H x s Hs Es); [reflexivity|].
      intros y [<-|Hy]; [exact Hlt|]. pose proof (strict_desc_lt t0 Tr y Hs Hy). lra.
    + destruct (pgen_prow_cold_aux (t0 :: Tr) H x s Hs Hn Hl Es H0 Hge ltac:(discriminate)) as [[E1 E2]|[E1 E2]].
      * apply thr_eq; [exact tol_pos|lra].
      * destruct (thr_cases tolv (pgen tolv (ivs_cold (t0 :: Tr) H) s - a)) as [[Hc _]|[_ Ea]]; [lra|].
        destruct (thr_cases tolv (prow_cold tolv (t0 :: Tr) H x - a)) as [[Hc _]|[_ Eb]]; [lra|]. rewrite Ea, Eb. reflexivity.
Qed.

Lemma prow_cold_all T : forall H x, List.length T = List.length H -> T <> [] ->
  (forall y, In y T -> - tolv <= y - x) -> prow_cold tolv T H x = lastq H.
Proof.
  induction T as [|t0 Tr IH]; intros H x Hl Hne Hall; [congruence|].
  destruct H as [|h0 Hr]; [discriminate|].
  assert (Er : qleb (- tolv) (rsub t0 x) = true) by (apply qleb_true; rewrite rsub_eq; apply Hall; left; reflexivity).
  destruct Tr as [|t1 Tr'].
  - destruct Hr; [|discriminate]. rewrite prow_cold_one, Er. reflexivity.
  - destruct Hr as [|h1 Hr']; [discriminate|]. rewrite prow_cold_cons, Er.
    assert (Er1 : qleb (- tolv) (rsub t1 x) = true) by (apply qleb_true; rewrite rsub_eq; apply Hall; right; left; reflexivity).
    rewrite Er1, lastq_cons. apply IH; [simpl in *; lia|discriminate|intros y Hy; apply Hall; right; exact Hy].
Qed.

Lemma Forall2_rev_eq (l1 l2 : list Q) : Forall2 Qeq l1 l2 -> Forall2 Qeq (rev l1) (rev l2).
Proof.
  induction 1 as [|x y l l' Hxy Hl IH]; [constructor|]. cbn [rev].
  apply Forall2_app; [exact IH|constructor; [exact Hxy|constructor]].
Qed.

(* ================================ theorems about the model's own entry points ================================ *)

(* HOT: assign_hot = spec_hot on a pocket-free segment with a ladder clear of the grid *)
Theorem assign_hot_closed_form T H rh hus :
  let Ts := firstn (S rh) T in let Hs := firstn (S rh) H in
  strict_desc Ts = true -> noninc Hs = true -> List.length Ts = List.length Hs -> 0 <= lastq Hs -> lastq Hs <= tolv ->
  (forall u, In u hus -> u_tmins u <= u_tmaxs u /\ clear_hot tolv Ts u = true) ->
  Forall2 Qeq (assign_hot tolv T H rh hus) (spec_hot tolv T H rh hus).
Proof.
  intros Ts Hs H1 H2 H3 H4 H5 Hc. unfold assign_hot, spec_hot. fold Ts Hs. apply Forall2_rev_eq.
  rewrite <- (map_map (fun u => mkU (u_tmaxs u) (u_tmins u)) (fun v => prow tolv Ts Hs (us v))).
  apply hot_closed_form; auto.
  intros u Hu. apply in_map_iff in Hu. destruct Hu as [w [<- Hw]]. cbn [us utg]. apply Hc. apply in_rev. exact Hw.
Qed.

Theorem assign_cold_closed_form T H rc cus :
  let k := Nat.max (rc - 1) 0 in let Ts := skipn k T in let Hs := skipn k H in
  strict_desc Ts = true -> noninc (rev Hs) = true -> List.length Ts = List.length Hs -> 0 <= headq Hs -> headq Hs <= tolv ->
  (forall u, In u cus -> u_tmins u <= u_tmaxs u /\ clear_cold tolv Ts u = true) ->
  Forall2 Qeq (assign_cold tolv T H rc cus) (spec_cold tolv T H rc cus).
Proof.
  intros k Ts Hs H1 H2 H3 H4 H5 Hc. unfold assign_cold, spec_cold. fold k Ts Hs.
  assert (Hl0 : 0 <= lastq Hs).
  { destruct Hs as [|h r] eqn:E; [unfold lastq; simpl; lra|]. unfold headq in H4. cbn [List.hd] in H4.
    pose proof (noninc_rev_last (h :: r) h H2 (or_introl eq_refl)). lra. }
  eapply Forall2_eq_trans.
  - apply assign_eq_greedy; [exact tol_pos|exact Hl0| |].
    + intros v Hv. apply cold_hadj_le with (T := Ts); assumption.
    + intros u Hu. apply in_map_iff in Hu. destruct Hu as [w [<- Hw]]. cbn [us utg].
      destruct (Hc w Hw) as [Hw1 Hw2]. apply ivclear_cold; [exact H1|lra|exact Hw2].
  - rewrite map_map. cbn [us]. apply greedy_conv; [|lra|reflexivity].
    clear Hc. induction cus as [|u l IH]; cbn [map]; constructor; [|exact IH].
    intros x Hx. apply pgen_prow_cold; auto. reflexivity.
Qed.

(* the duties never exceed the target: ANY ladder (gliding utilities included), pocket-free segment *)
Theorem assign_hot_sum_le T H rh hus :
  let Ts := firstn (S rh) T in let Hs := firstn (S rh) H in
  strict_desc Ts = true -> noninc Hs = true -> 0 <= headq Hs -> qsum (assign_hot tolv T H rh hus) <= headq Hs.
Proof.
  intros Ts Hs H1 H2 H3. unfold assign_hot. fold Ts Hs. rewrite qsum_rev. apply assign_sum_le; [exact tol_pos|exact H3|].
  intros v Hv. apply hot_hadj_le with (T := Ts); assumption.
Qed.
Theorem assign_cold_sum_le T H rc cus :
  let k := Nat.max (rc - 1) 0 in let Ts := skipn k T in let Hs := skipn k H in
  strict_desc Ts = true -> noninc (rev Hs) = true -> 0 <= lastq Hs -> qsum (assign_cold tolv T H rc cus) <= lastq Hs.
Proof.
  intros k Ts Hs H1 H2 H3. unfold assign_cold. fold k Ts Hs. apply assign_sum_le; [exact tol_pos|exact H3|].
  intros v Hv. apply cold_hadj_le with (T := Ts); assumption.
Qed.

(* the sums close: one utility clear of the grid that reaches the extreme row suffices, whatever else is in the ladder *)
Theorem assign_hot_sum_closes T H rh hus u :
  let Ts := firstn (S rh) T in let Hs := firstn (S rh) H in
  strict_desc Ts = true -> noninc Hs = true -> List.length Ts = List.length Hs -> 0 <= lastq Hs -> lastq Hs <= tolv ->
  tolv < headq Hs ->
  In u hus -> u_tmins u <= u_tmaxs u -> clear_hot tolv Ts u = true -> - tolv <= u_tmaxs u - List.hd 0 Ts ->
  headq Hs - tolv <= qsum (assign_hot tolv T H rh hus) /\ qsum (assign_hot tolv T H rh hus) <= headq Hs.
Proof.
  intros Ts Hs H1 H2 H3 H4 H5 H6 Hin Hu1 Hu2 Hu3. unfold assign_hot. fold Ts Hs. rewrite qsum_rev.
  apply hot_sum_closes with (u := mkU (u_tmaxs u) (u_tmins u)); auto.
  apply in_map_iff. exists u. split; [reflexivity|]. apply in_rev. rewrite rev_involutive. exact Hin.
Qed.

Theorem assign_cold_sum_closes T H rc cus u :
  let k := Nat.max (rc - 1) 0 in let Ts := skipn k T in let Hs := skipn k H in
  strict_desc Ts = true -> noninc (rev Hs) = true -> List.length Ts = List.length Hs -> 0 <= headq Hs -> headq Hs <= tolv ->
  tolv < lastq Hs ->
  In u cus -> u_tmins u <= u_tmaxs u -> clear_cold tolv Ts u = true -> (forall y, In y Ts -> - tolv <= y - u_tmins u) ->
  lastq Hs - tolv <= qsum (assign_cold tolv T H rc cus) /\ qsum (assign_cold tolv T H rc cus) <= lastq Hs.
Proof.
  intros k Ts Hs H1 H2 H3 H4 H5 H6 Hin Hu1 Hu2 Hu3. unfold assign_cold. fold k Ts Hs.
  assert (Hne : Ts <> []).
  { intro E. rewrite E in H3. destruct Hs; [|discriminate]. unfold lastq in H6. simpl in H6. lra. }
  apply assign_sum_closes with (u := mkU (- u_tmins u) (- u_tmaxs u)); auto.
  - lra.
  - intros v Hv. apply cold_hadj_le with (T := Ts); assumption.
  - apply in_map_iff. exists u. split; [reflexivity|exact Hin].
  - cbn [us utg]. apply ivclear_cold; [exact H1|lra|exact Hu2].
  - cbn [us].
    assert (Hge : - tolv <= List.hd 0 Ts - u_tmins u).
    { destruct Ts as [|t0 Tr]; [congruence|]. cbn [List.hd]. apply Hu3. left. reflexivity. }
    destruct (pgen_prow_cold_aux Ts Hs (u_tmins u) (- u_tmins u) H1 H2 H3 ltac:(reflexivity) H4 Hge Hne) as [[E1 E2]|[E1 E2]];
      rewrite (prow_cold_all Ts Hs (u_tmins u) H3 Hne Hu3) in *; lra.
Qed.

(* ---- default utilities: after completion some hot utility passes the hot reach test and some cold one the cold test ---- *)
Lemma phase_pos : 0 < cfg_DT_PHASE_CHANGE. Proof. reflexivity. Qed.
Theorem default_reaches ss us :
  let all := with_defaults ss us in
  existsb (reach_hot (fst (extremes ss))) all = true /\ existsb (reach_cold (snd (extremes ss))) all = true.
Proof.
  cbv zeta. unfold with_defaults. destruct (extremes ss) as [hu cu]. cbn [fst snd]. pose proof phase_pos as Hp.
  split.
  - destruct (existsb (reach_hot hu) (map complete us)) eqn:E.
    + rewrite existsb_app, E. reflexivity.
    + rewrite existsb_app, E. cbn [app existsb orb].
      assert (R : reach_hot hu (default_hu hu) = true).
      { unfold reach_hot, default_hu. cbn [uc_type uc_active uc_ts uc_tt uc_dt is_hotish andb].
        apply qleb_true. rewrite rsub_eq.
        destruct (qmin_cases (radd hu (radd cfg_DT_CONT cfg_DT_PHASE_CHANGE)) (radd hu cfg_DT_CONT)) as [[Hle Em]|[Hle Em]];
          rewrite Em; rewrite ?radd_eq in *; lra. }
      rewrite R. reflexivity.
  - destruct (existsb (reach_cold cu) (map complete us)) eqn:E.
    + rewrite existsb_app, E. reflexivity.
    + rewrite existsb_app, E. cbn [orb]. rewrite existsb_app.
      assert (R : reach_cold cu (default_cu cu) = true).
      { unfold reach_cold, default_cu. cbn [uc_type uc_active uc_ts uc_tt uc_dt is_coldish andb].
        apply qleb_true. rewrite radd_eq.
        destruct (qmin_cases (radd cu (- radd cfg_DT_CONT cfg_DT_PHASE_CHANGE)) (radd cu (- cfg_DT_CONT))) as [[Hle Em]|[Hle Em]];
          rewrite Em; rewrite ?radd_eq in *; lra. }
      destruct (existsb (reach_hot hu) (map complete us)); cbn [app existsb]; rewrite R; rewrite ?orb_true_r; reflexivity.
Qed.

Theorem assign_hot_nonneg T H rh hus : Forall (fun q => 0 <= q) (assign_hot tolv T H rh hus).
Proof. unfold assign_hot. apply Forall_rev. apply assign_nonneg. exact tol_pos. Qed.
Theorem assign_cold_nonneg T H rc cus : Forall (fun q => 0 <= q) (assign_cold tolv T H rc cus).
Proof. unfold assign_cold. apply assign_nonneg. exact tol_pos. Qed.

(* ---- feasibility at every level of a pocket-free segment ---- *)
Lemma pgen_le_prow_hot T : forall H s, strict_desc T = true -> noninc H = true -> List.length T = List.length H ->
  0 <= lastq H -> pgen tolv (ivs_hot T H) s <= prow tolv T H s.
Proof.
  induction T as [|t0 Tr IH]; intros H s Hs Hn Hl H0.
  - destruct H; [|discriminate]. unfold pgen; simpl. lra.
  - destruct H as [|h0 Hr']; [discriminate|]. cbn [prow].
    assert (Hh0 : 0 <= h0) by (pose proof (noninc_last_le h0 Hr' Hn); lra).
    destruct (qleb (- tolv) (rsub s t0)) eqn:Er.
    + apply qleb_true in Er. rewrite rsub_eq in Er.
      assert (Hall : forall x, In x (t0 :: Tr) -> - tolv <= s - x).
      { intros x [<-|Hx]; [exact Er|]. pose proof (strict_desc_lt t0 Tr x Hs Hx). lra. }
      destruct (pgen_all_reach (t0 :: Tr) (h0 :: Hr') s Hs Hn Hl Hall H0) as [E|[E1 E2]].
      * unfold headq in E. cbn [List.hd] in E. lra.
      * lra.
    + destruct Tr as [|t1 Tr'].
      * destruct Hr'; [|discriminate]. unfold pgen; simpl. lra.
      * destruct Hr' as [|h1 Hr'']; [discriminate|].
        assert (Hp : pgen tolv (ivs_hot (t0 :: t1 :: Tr') (h0 :: h1 :: Hr'')) s = pgen tolv (ivs_hot (t1 :: Tr') (h1 :: Hr'')) s).
        { rewrite ivs_hot_cons, pgen_cons. unfold reachv at 1. unfold dsup. cbn [ia]. rewrite Er, andb_false_r. reflexivity. }
        rewrite Hp. apply IH; [exact (strict_desc_tail _ _ Hs)|exact (noninc_tail _ _ Hn)|simpl in *; lia|exact H0].
Qed.

Lemma pgen_le_prow_cold T H x s : strict_desc T = true -> noninc (rev H) = true -> List.length T = List.length H ->
  s == - x -> 0 <= headq H -> pgen tolv (ivs_cold T H) s <= prow_cold tolv T H x.
Proof.
  intros Hs Hn Hl Es H0. destruct T as [|t0 Tr].
  - destruct H; [|discriminate]. unfold pgen; simpl. lra.
  - destruct (Qlt_le_dec (t0 - x) (- tolv)) as [Hlt|Hge].
    + rewrite (prow_cold_unreach (t0 :: Tr) H x Hlt).
      rewrite (cold_unreach (t0 :: Tr) H x s Hs Es); [lra|].
      intros y [<-|Hy]; [exact Hlt|]. pose proof (strict_desc_lt t0 Tr y Hs Hy). lra.
    + destruct (pgen_prow_cold_aux (t0 :: Tr) H x s Hs Hn Hl Es H0 Hge ltac:(discriminate)) as [[E1 E2]|[E1 E2]]; lra.
Qed.

(* feasibility at every level of a pocket-free segment, ANY ladder: the utilities whose supply level is at or below x carry
   together at most the demand at x *)
Theorem hot_level_feasible T H rh hus x :
  let Ts := firstn (S rh) T in let Hs := firstn (S rh) H in
  strict_desc Ts = true -> noninc Hs = true -> List.length Ts = List.length Hs -> 0 <= lastq Hs ->
  msum (map (fun u => qleb (u_tmaxs u) x) (rev hus)) (rev (assign_hot tolv T H rh hus)) <= prow tolv Ts Hs x.
Proof.
  intros Ts Hs H1 H2 H3 H4. unfold assign_hot. fold Ts Hs. rewrite rev_involutive.
  assert (Hh0 : 0 <= headq Hs).
  { destruct Hs as [|h r]; [unfold headq; simpl; lra|]. pose proof (noninc_last_le h r H2). unfold headq; simpl. lra. }
  eapply Qle_trans; [|apply pgen_le_prow_hot; assumption].
  pose proof (assign_level_feasible tolv tol_pos (ivs_hot Ts Hs) (headq Hs) (map (fun u => mkU (u_tmaxs u) (u_tmins u)) (rev hus)) x Hh0) as G.
  rewrite map_map in G. cbn [us] in G. apply G.
  intros v Hv. apply hot_hadj_le with (T := Ts); assumption.
Qed.
Theorem cold_level_feasible T H rc cus x :
  let k := Nat.max (rc - 1) 0 in let Ts := skipn k T in let Hs := skipn k H in
  strict_desc Ts = true -> noninc (rev Hs) = true -> List.length Ts = List.length Hs -> 0 <= headq Hs ->
  msum (map (fun u => qleb x (u_tmins u)) cus) (assign_cold tolv T H rc cus) <= prow_cold tolv Ts Hs x.
Proof.
  intros k Ts Hs H1 H2 H3 H4. unfold assign_cold. fold k Ts Hs.
  assert (Hl0 : 0 <= lastq Hs).
  { destruct Hs as [|h r] eqn:E; [unfold lastq; simpl; lra|]. unfold headq in H4. cbn [List.hd] in H4.
    pose proof (noninc_rev_last (h :: r) h H2 (or_introl eq_refl)). lra. }
  eapply Qle_trans; [|apply (pgen_le_prow_cold Ts Hs x (- x)); auto; reflexivity].
  pose proof (assign_level_feasible tolv tol_pos (ivs_cold Ts Hs) (lastq Hs) (map (fun u => mkU (- u_tmins u) (- u_tmaxs u)) cus) (- x) Hl0) as G.
  rewrite map_map in G. cbn [us] in G.
  assert (Em : map (fun u => qleb (- u_tmins u) (- x)) cus = map (fun u => qleb x (u_tmins u)) cus).
  { apply map_ext. intro u. destruct (qleb x (u_tmins u)) eqn:E.
    - apply qleb_true in E. apply qleb_true. lra.
    - apply qleb_false in E. apply qleb_false. lra. }
  rewrite Em in G. apply G.
  intros v Hv. apply cold_hadj_le with (T := Ts); assumption.
Qed.
End Profile.
