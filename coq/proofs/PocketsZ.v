(* C07: the pocket sweep in zipper form computes the running minimum of the curve at EVERY temperature of its side,
   leaves the curve itself unchanged, and keeps the rows ordered.  Generic in the sweep direction d and in the
   function mk that builds a breakpoint row (mk_up above the pinch, mk_dn below it). *)
From OP Require Import gen.Consts model.Base model.Pockets proofs.BaseFacts proofs.PocketsPL.
From Coq Require Import Lia Lqa.
Local Open Scope Q_scope.

Definition ptH (r : row) : pt := (rT r, rH r).
Definition ptN (r : row) : pt := (rT r, rNP r).

(* no level within tq of L unless equal *)
Definition NW (tq L : Q) (rows : list row) : Prop :=
  Forall (fun r => rH r == L \/ rH r + tq < L \/ L + tq < rH r) rows.
Fixpoint NWall (tq : Q) (rows : list row) : Prop :=
  match rows with [] => True | r :: rs => NW tq (rH r) rs /\ NWall tq rs end.
Definition NPH (rows : list row) : Prop := Forall (fun r => rNP r == rH r) rows.
(* a crossing of level L strictly inside the interval prev -> r lies more than tq from both ends *)
Definition CrossW (d : bool) (tq L : Q) (prev r : row) : Prop :=
  rH r < L -> L < rH prev ->
  let t0 := lin_interp L (rH prev) (rH r) (rT prev) (rT r) in
  if d then tq < rT prev - t0 /\ tq < t0 - rT r else tq < t0 - rT prev /\ tq < rT r - t0.
Fixpoint CrossAll (d : bool) (tq : Q) (Ls : list Q) (rows : list row) : Prop :=
  match rows with
  | p :: ((r :: _) as t) => Forall (fun L => CrossW d tq L p r) Ls /\ CrossAll d tq Ls t
  | _ => True
  end.

Lemma NWall_app_r tq l1 l2 : NWall tq (l1 ++ l2) -> NWall tq l2.
Proof. induction l1 as [|a l1 IH]; simpl; [auto|]. intros [_ H]. auto. Qed.
Lemma CrossAll_tail d tq Ls a l : CrossAll d tq Ls (a :: l) -> CrossAll d tq Ls l.
Proof. destruct l as [|b l]; simpl; [auto|]. intros [_ H]; exact H. Qed.
Lemma CrossAll_app_r d tq Ls l1 l2 : CrossAll d tq Ls (l1 ++ l2) -> CrossAll d tq Ls l2.
Proof. induction l1 as [|a l1 IH]; [auto|]. intros H. apply IH. eapply CrossAll_tail. exact H. Qed.
Lemma CrossAll_pair d tq Ls l1 p r l2 : CrossAll d tq Ls (l1 ++ p :: r :: l2) -> Forall (fun L => CrossW d tq L p r) Ls.
Proof. intros H. apply CrossAll_app_r in H. destruct H as [H _]. exact H. Qed.

Ltac unred := unfold radd, rsub, rmul, rdiv; repeat rewrite Qred_correct.
(* ---------- linear_interpolation ---------- *)
Lemma lin_interp_eq xi x1 x2 y1 y2 : ~ x1 == x2 ->
  lin_interp xi x1 x2 y1 y2 == y1 + (y1 - y2) * (xi - x1) / (x1 - x2).
Proof.
  intros Hn. unfold lin_interp. unred. field. lra.
Qed.
(* the crossing temperature lies on the segment prev -> r of the H curve, at level L *)
Lemma cross_on_seg L (prev r : row) : ~ rH prev == rH r -> ~ rT r == rT prev ->
  seg (ptH prev) (ptH r) (lin_interp L (rH prev) (rH r) (rT prev) (rT r)) == L.
Proof.
  intros H1 H2. unfold seg, ptH. simpl. rewrite lin_interp_eq by exact H1. field. split; lra.
Qed.
Lemma cross_at_prev L (prev r : row) : ~ rH prev == rH r -> L == rH prev ->
  lin_interp L (rH prev) (rH r) (rT prev) (rT r) == rT prev.
Proof. intros H1 E. rewrite lin_interp_eq by exact H1. rewrite E. field. lra. Qed.
(* for rH r < L <= rH prev the crossing is between the two temperatures, strictly away from r *)
Lemma cross_between d tq L (prev r : row) : 0 <= tq -> rH r < L -> L <= rH prev -> sgap d tq (ptH prev) (ptH r) ->
  let t0 := lin_interp L (rH prev) (rH r) (rT prev) (rT r) in
  sleP d t0 (rT prev) /\ sltP d (rT r) t0.
Proof.
  intros Ht H1 H2 G t0. unfold t0. clear t0.
  assert (Hn : ~ rH prev == rH r) by lra.
  set (f := (L - rH r) / (rH prev - rH r)).
  assert (Hf0 : 0 < f) by (unfold f; apply Qlt_shift_div_l; lra).
  assert (Hf1 : f <= 1) by (unfold f; apply Qle_shift_div_r; lra).
  assert (E : lin_interp L (rH prev) (rH r) (rT prev) (rT r) == rT r + (rT prev - rT r) * f).
  { rewrite lin_interp_eq by exact Hn. unfold f. field. lra. }
  unfold sgap, ptH in G. simpl in G.
  destruct d; simpl in *.
  - assert (P : 0 < rT prev - rT r) by lra.
    assert (0 < (rT prev - rT r) * f) by (apply Qmult_lt_0_compat; lra).
    assert (0 <= (rT prev - rT r) * (1 - f)) by (apply Qmult_le_0_compat; lra).
    split; lra.
  - assert (P : 0 < rT r - rT prev) by lra.
    assert (0 < (rT r - rT prev) * f) by (apply Qmult_lt_0_compat; lra).
    assert (0 <= (rT r - rT prev) * (1 - f)) by (apply Qmult_le_0_compat; lra).
    split; lra.
Qed.

(* ---------- the breakpoint rows ---------- *)
Definition mk_spec (tq : Q) (mk : row -> row -> Q -> row) : Prop :=
  forall prev r L, tq < Qabs (rT prev - rT r) -> rNP prev == rH prev -> rNP r == rH r -> ~ rH prev == rH r ->
  let t0 := lin_interp L (rH prev) (rH r) (rT prev) (rT r) in
  rT (mk prev r t0) = t0 /\ rH (mk prev r t0) == L /\ rNP (mk prev r t0) == L.

Lemma interp_row_far tq top bot t0 : tq < Qabs (rT top - rT bot) ->
  interp_row tq top bot t0 =
  let ratio := rdiv (rsub t0 (rT bot)) (rsub (rT top) (rT bot)) in
  mkR t0 (radd (rH bot) (rmul ratio (rsub (rH top) (rH bot)))) (radd (rNP bot) (rmul ratio (rsub (rNP top) (rNP bot)))).
Proof.
  intros H. unfold interp_row.
  assert (E : qleb (Qabs (rsub (rT top) (rT bot))) tq = false).
  { apply qleb_false. rewrite rsub_eq. exact H. }
  rewrite E. reflexivity.
Qed.
Lemma Qabs_sym_minus a b : Qabs (a - b) == Qabs (b - a).
Proof. rewrite <- (Qabs_opp (a - b)). apply Qabs_wd. ring. Qed.
Lemma Qabs_gap_ne tq a b : 0 <= tq -> tq < Qabs (a - b) -> ~ a == b.
Proof.
  intros Ht H E. assert (E0 : a - b == 0) by lra. rewrite E0 in H. simpl in H. lra.
Qed.
Lemma mk_up_spec tq : 0 <= tq -> mk_spec tq (mk_up tq).
Proof.
  intros Ht prev r L Hg Ep Er Hn t0. unfold mk_up. rewrite interp_row_far by exact Hg. simpl.
  assert (HT : ~ rT prev == rT r) by (eapply Qabs_gap_ne; eauto).
  split; [reflexivity|].
  assert (E0 : t0 == rT prev + (rT prev - rT r) * (L - rH prev) / (rH prev - rH r)) by (unfold t0; apply lin_interp_eq; exact Hn).
  split.
  - unred. rewrite E0. field. split; lra.
  - unred. rewrite Ep, Er, E0. field. split; lra.
Qed.
Lemma mk_dn_spec tq : 0 <= tq -> mk_spec tq (mk_dn tq).
Proof.
  intros Ht prev r L Hg Ep Er Hn t0. unfold mk_dn.
  assert (Hg' : tq < Qabs (rT r - rT prev)) by (rewrite Qabs_sym_minus; exact Hg).
  rewrite interp_row_far by exact Hg'. simpl.
  assert (HT : ~ rT prev == rT r) by (eapply Qabs_gap_ne; eauto).
  split; [reflexivity|].
  assert (E0 : t0 == rT prev + (rT prev - rT r) * (L - rH prev) / (rH prev - rH r)) by (unfold t0; apply lin_interp_eq; exact Hn).
  split.
  - unred. rewrite E0. field. split; lra.
  - unred. rewrite Ep, Er, E0. field. split; lra.
Qed.

(* ---------- structure of one pocket scan ---------- *)
Definition flat (L : Q) (rows : list row) : list row := map (fun r => with_np r L) rows.
Definition bp_ins (tq : Q) (mk : row -> row -> Q -> row) (L : Q) (pv r' : row) : list row :=
  let t0 := lin_interp L (rH pv) (rH r') (rT pv) (rT r') in
  if qltb tq (Qabs (rT pv - t0)) && qltb tq (Qabs (rT r' - t0)) then [mk pv r' t0] else [].

Lemma zpocket_split tq mk L : forall rest prev out k, zpocket tq mk L prev rest = (out, k) ->
  (k = None /\ out = flat L rest /\ Forall (fun r => L < rH r + tq) rest)
  \/ (exists m1 r' rs', k = Some (r', rs') /\ rest = m1 ++ r' :: rs' /\ out = flat L m1 ++ bp_ins tq mk L (last m1 prev) r'
        /\ Forall (fun r => L < rH r + tq) m1 /\ rH r' + tq <= L).
Proof.
  induction rest as [|r rs IH]; intros prev out k E; simpl in E.
  - inversion E; subst. left. repeat split. constructor.
  - destruct (qleb (rH r + tq) L) eqn:Q1.
    + inversion E; subst. right. exists [], r, rs. simpl. repeat split; [constructor|apply qleb_true; exact Q1].
    + destruct (zpocket tq mk L r rs) as [o2 k2] eqn:E2. inversion E; subst.
      apply qleb_false in Q1.
      destruct (IH r o2 k E2) as [[K1 [K2 K3]]|[m1 [r' [rs' [K1 [K2 [K3 [K4 K5]]]]]]]].
      * left. subst. repeat split. constructor; assumption.
      * right. exists (r :: m1), r', rs'. subst. repeat split; try assumption.
        -- simpl. f_equal. f_equal. f_equal. destruct m1 as [|z m1]; [reflexivity|]. try rewrite last_cons2; apply (last_dflt (z :: m1)); discriminate.
        -- constructor; assumption.
Qed.

Lemma zsweep_S tq mk f cur r rs :
  zsweep tq mk (S f) cur (r :: rs) =
  if qltb (rH cur) (rH r - tq) then
    let '(out, k) := zpocket tq mk (rH cur) cur (r :: rs) in
    match k with None => out | Some (r', rs') => out ++ r' :: zsweep tq mk f r' rs' end
  else r :: zsweep tq mk f r rs.
Proof. reflexivity. Qed.
(* zsweep does not depend on surplus fuel *)
Lemma zsweep_fuel tq mk : forall f1 f2 cur rest, (List.length rest <= f1)%nat -> (List.length rest <= f2)%nat ->
  zsweep tq mk f1 cur rest = zsweep tq mk f2 cur rest.
Proof.
  induction f1 as [|f1 IH]; intros f2 cur rest H1 H2.
  - destruct rest; [|simpl in H1; lia]. destruct f2; reflexivity.
  - destruct f2 as [|f2]; [destruct rest; [reflexivity|simpl in H2; lia]|].
    destruct rest as [|r rs]; [reflexivity|]. simpl in H1, H2. rewrite !zsweep_S.
    destruct (qltb (rH cur) (rH r - tq)).
    + destruct (zpocket tq mk (rH cur) cur (r :: rs)) as [out k] eqn:E.
      destruct (zpocket_split tq mk _ _ _ _ _ E) as [[K1 _]|[m1 [r' [rs' [K1 [K2 _]]]]]]; subst k; [reflexivity|].
      f_equal. f_equal. apply IH.
      * assert (Hl : List.length (r :: rs) = List.length (m1 ++ r' :: rs')) by (rewrite K2; reflexivity).
        rewrite app_length in Hl. simpl in Hl. lia.
      * assert (Hl : List.length (r :: rs) = List.length (m1 ++ r' :: rs')) by (rewrite K2; reflexivity).
        rewrite app_length in Hl. simpl in Hl. lia.
    + f_equal. apply IH; lia.
Qed.

Lemma in_range_tail d (a b : pt) l x : in_range d (a :: b :: l) x -> sleP d x (fst b) -> in_range d (b :: l) x.
Proof.
  intros [_ H2] H. split; [exact H|]. rewrite last_cons2 in H2. rewrite (last_dflt (b :: l) b a) by discriminate. exact H2.
Qed.
Lemma seg_const (a b : pt) x L : ~ fst b == fst a -> snd a == L -> snd b == L -> seg a b x == L.
Proof. intros Hn Ea Eb. unfold seg. rewrite Ea, Eb. field. lra. Qed.
Lemma Qabs_lt_pos tq z : 0 <= z -> tq < Qabs z -> tq < z.
Proof. intros Hz H. rewrite Qabs_pos in H; assumption. Qed.
Lemma Qabs_lt_neg tq z : z <= 0 -> tq < Qabs z -> tq < - z.
Proof. intros Hz H. rewrite Qabs_neg in H; assumption. Qed.
Lemma Qabs_gt_l tq z : tq < z -> tq < Qabs z.
Proof. intros H. eapply Qlt_le_trans; [exact H|apply Qle_Qabs]. Qed.
Lemma Qabs_gt_r tq z : tq < - z -> tq < Qabs z.
Proof. intros H. rewrite <- Qabs_opp. apply Qabs_gt_l. exact H. Qed.

Ltac dsimp := cbn [sleP sltP sgap sle fst snd ptH ptN rT rH rNP with_np] in *.
Section Sweep.
Variables (d : bool) (tq : Q) (mk : row -> row -> Q -> row).
Hypothesis Ht : 0 < tq.
Hypothesis Hmk : mk_spec tq mk.

Definition above_L (L : Q) (r : row) : Prop := L == rH r \/ L + tq < rH r.

Lemma sgap_abs (p r : row) : sgap d tq (ptH p) (ptH r) -> tq < Qabs (rT p - rT r).
Proof. unfold sgap, ptH. cbn [fst snd]. destruct d; intros H; [apply Qabs_gt_l; lra|apply Qabs_gt_r; lra]. Qed.

Lemma bp_ins_cases L pv r' :
  rH r' + tq <= L -> above_L L pv -> sgap d tq (ptH pv) (ptH r') -> rNP pv == rH pv -> rNP r' == rH r' ->
  CrossW d tq L pv r' ->
  (bp_ins tq mk L pv r' = [] /\ L == rH pv)
  \/ (exists bp, bp_ins tq mk L pv r' = [bp] /\ rH bp == L /\ rNP bp == L
        /\ sgap d tq (ptH pv) (ptH bp) /\ sgap d tq (ptH bp) (ptH r') /\ seg (ptH pv) (ptH r') (rT bp) == L).
Proof.
  intros Hr Hp G Ep Er Hc. unfold bp_ins.
  set (t0 := lin_interp L (rH pv) (rH r') (rT pv) (rT r')).
  assert (HnH : ~ rH pv == rH r') by (destruct Hp; lra).
  assert (HLp : L <= rH pv) by (destruct Hp; lra).
  destruct (cross_between d tq L pv r' ltac:(lra) ltac:(lra) HLp G) as [B1 B2]. fold t0 in B1, B2.
  destruct (qltb tq (Qabs (rT pv - t0)) && qltb tq (Qabs (rT r' - t0))) eqn:C.
  - right. apply andb_true_iff in C. destruct C as [C1 C2]. apply qltb_true in C1, C2.
    destruct (Hmk pv r' L (sgap_abs _ _ G) Ep Er HnH) as [M1 [M2 M3]]. fold t0 in M1, M2, M3.
    exists (mk pv r' t0). repeat split; try assumption.
    + unfold sgap, ptH. simpl. rewrite M1. destruct d; dsimp.
      * apply Qabs_lt_pos in C1; lra.
      * apply Qabs_lt_neg in C1; lra.
    + unfold sgap, ptH. simpl. rewrite M1. destruct d; dsimp.
      * apply Qabs_lt_neg in C2; lra.
      * apply Qabs_lt_pos in C2; lra.
    + rewrite M1. unfold t0. apply cross_on_seg; [exact HnH|]. apply (sgap_ne d tq (ptH pv) (ptH r')); [lra|exact G].
  - left. split; [reflexivity|]. destruct Hp as [Hp|Hp]; [exact Hp|]. exfalso.
    assert (C' : qltb tq (Qabs (rT pv - t0)) && qltb tq (Qabs (rT r' - t0)) = true).
    { unfold CrossW in Hc. specialize (Hc ltac:(lra) ltac:(lra)). fold t0 in Hc.
      apply andb_true_iff. destruct d; destruct Hc as [H1 H2]; split; apply qltb_true.
      - apply Qabs_gt_l; lra. - apply Qabs_gt_r; lra. - apply Qabs_gt_r; lra. - apply Qabs_gt_l; lra. }
    congruence.
Qed.

(* a pocket that reaches the end of the side *)
Lemma pocket_none_np L : forall rest prev y0, y0 == L -> Forall (above_L L) rest -> above_L L prev ->
  mono d tq (map ptH (prev :: rest)) ->
  forall x, in_range d (map ptH (prev :: rest)) x ->
  plw d ((rT prev, y0) :: map ptN (flat L rest)) x == rmw d L (map ptH (prev :: rest)) x.
Proof.
  induction rest as [|r rs IH]; intros prev y0 Ey Hall Hp Hm x Hx.
  - simpl. exact Ey.
  - inversion Hall as [|? ? Hr Hrs]; subst.
    change (map ptH (prev :: r :: rs)) with (ptH prev :: ptH r :: map ptH rs) in *.
    change (map ptN (flat L (r :: rs))) with ((rT r, L) :: map ptN (flat L rs)).
    pose proof Hm as [G Hm']. pose proof (sgap_ne d tq _ _ ltac:(lra) G) as Hne. pose proof (sgap_lt d tq _ _ ltac:(lra) G) as Hlt.
    rewrite plw_cons2, rmw_cons2. simpl fst in *. simpl snd in *.
    assert (Hseg : forall z, sleP d (rT r) z -> sleP d z (rT prev) -> L <= seg (ptH prev) (ptH r) z).
    { intros z Z1 Z2. apply seg_ge; simpl; [destruct d; dsimp; lra|exact Hne|destruct Hp; lra|destruct Hr; lra]. }
    destruct Hx as [Hx1 Hx2]. simpl fst in Hx1.
    destruct (sle d (rT prev) x) eqn:E1.
    + apply sle_true in E1.
      assert (E2 : sle d (rT r) x = true) by (apply sle_true; destruct d; dsimp; lra). rewrite E2.
      specialize (Hseg x ltac:(apply sle_true; exact E2) Hx1). rewrite Ey. qmin.
    + destruct (sle d (rT r) x) eqn:E2.
      * apply sle_true in E2. specialize (Hseg x E2 Hx1).
        rewrite (seg_const (rT prev, y0) (rT r, L) x L); [qmin|exact Hne|exact Ey|reflexivity].
      * apply sle_false in E2.
        rewrite (IH r L ltac:(reflexivity) Hrs Hr Hm' x).
        -- apply rmw_M_eq. destruct Hr; qmin.
        -- apply (in_range_tail d (ptH prev) (ptH r)); [split; assumption|destruct d; dsimp; lra].
Qed.

(* a pocket that closes at r' *)
Lemma pocket_some_np L cont r' rs' : rH r' + tq <= L -> rNP r' == rH r' ->
  (forall x, in_range d (map ptH (r' :: rs')) x -> plw d (map ptN (r' :: cont)) x == rmw d (rH r') (map ptH (r' :: rs')) x) ->
  forall m1 prev y0, y0 == L -> Forall (above_L L) m1 -> above_L L prev -> NPH m1 -> rNP prev == rH prev ->
  mono d tq (map ptH (prev :: m1 ++ r' :: rs')) ->
  CrossW d tq L (last m1 prev) r' ->
  forall x, in_range d (map ptH (prev :: m1 ++ r' :: rs')) x ->
  plw d ((rT prev, y0) :: map ptN (flat L m1 ++ bp_ins tq mk L (last m1 prev) r' ++ r' :: cont)) x
  == rmw d L (map ptH (prev :: m1 ++ r' :: rs')) x.
Proof.
  intros Hr' Er' Hcont. induction m1 as [|r1 m1 IH]; intros prev y0 Ey Hall Hp Hnp Ep Hm Hc x Hx.
  - (* the closing interval prev -> r' *)
    simpl last in *. simpl app in *.
    change (map ptH (prev :: r' :: rs')) with (ptH prev :: ptH r' :: map ptH rs') in *.
    pose proof Hm as [G Hm']. pose proof (sgap_ne d tq _ _ ltac:(lra) G) as Hne. pose proof (sgap_lt d tq _ _ ltac:(lra) G) as Hlt.
    simpl fst in Hne, Hlt.
    destruct Hx as [Hx1 Hx2]. simpl fst in Hx1.
    assert (Hbeyond : sltP d x (rT r') ->
       plw d (map ptN (r' :: cont)) x == rmw d (Qmin L (rH r')) (ptH r' :: map ptH rs') x).
    { intros Hb. rewrite Hcont.
      - apply rmw_M_eq. qmin.
      - apply (in_range_tail d (ptH prev) (ptH r')); [split; assumption|destruct d; dsimp; lra]. }
    rewrite rmw_cons2. simpl fst. simpl snd.
    destruct (bp_ins_cases L prev r' Hr' Hp G Ep Er' Hc) as [[Ei EL]|[bp [Ei [B1 [B2 [G1 [G2 B3]]]]]]]; rewrite Ei; simpl app.
    + (* no breakpoint: the pocket closes exactly on the row prev *)
      change (map ptN (r' :: cont)) with (ptN r' :: map ptN cont) in *.
      rewrite plw_cons2. simpl fst. simpl snd.
      destruct (sle d (rT prev) x) eqn:E1.
      * apply sle_true in E1.
        assert (E2 : sle d (rT r') x = true) by (apply sle_true; destruct d; dsimp; lra). rewrite E2.
        assert (Ex : x == rT prev) by (destruct d; dsimp; lra).
        rewrite (seg_at_a (ptH prev) (ptH r') x); [simpl; rewrite Ey; qmin|exact Hne|exact Ex].
      * destruct (sle d (rT r') x) eqn:E2.
        -- apply sle_true in E2.
           assert (Hle : seg (ptH prev) (ptH r') x <= L).
           { apply seg_le; simpl; [destruct d; dsimp; lra|exact Hne|lra|lra]. }
           rewrite (seg_ext (rT prev, y0) (ptN r') (ptH prev) (ptH r') x x); simpl; try reflexivity; [qmin|lra|exact Er'].
        -- apply sle_false in E2. apply Hbeyond. exact E2.
    + (* breakpoint bp strictly inside prev -> r' *)
      change (map ptN (bp :: r' :: cont)) with (ptN bp :: ptN r' :: map ptN cont).
      pose proof (sgap_ne d tq _ _ ltac:(lra) G1) as Hne1. pose proof (sgap_lt d tq _ _ ltac:(lra) G1) as Hlt1.
      pose proof (sgap_ne d tq _ _ ltac:(lra) G2) as Hne2. pose proof (sgap_lt d tq _ _ ltac:(lra) G2) as Hlt2.
      simpl fst in Hne1, Hlt1, Hne2, Hlt2.
      assert (Hc1 : snd (rT bp, L) == seg (ptH prev) (ptH r') (fst (rT bp, L))) by (simpl; rewrite B3; reflexivity).
      rewrite plw_cons2. simpl fst. simpl snd.
      destruct (sle d (rT prev) x) eqn:E1.
      * apply sle_true in E1.
        assert (E2 : sle d (rT r') x = true) by (apply sle_true; destruct d; dsimp; lra). rewrite E2.
        assert (Ex : x == rT prev) by (destruct d; dsimp; lra).
        rewrite (seg_at_a (ptH prev) (ptH r') x); [simpl; rewrite Ey; destruct Hp; qmin|exact Hne|exact Ex].
      * apply sle_false in E1.
        destruct (sle d (rT bp) x) eqn:E3.
        -- apply sle_true in E3.
           assert (E2 : sle d (rT r') x = true) by (apply sle_true; destruct d; dsimp; lra). rewrite E2.
           rewrite (seg_const (rT prev, y0) (ptN bp) x L); [|exact Hne1|exact Ey|exact B2].
           assert (Hge : L <= seg (ptH prev) (ptH r') x).
           { rewrite <- (seg_split_l (ptH prev) (ptH r') (rT bp, L) x); [|exact Hne|exact Hne1|exact Hc1].
             apply seg_ge; simpl; [destruct d; dsimp; lra|exact Hne1|destruct Hp; lra|lra]. }
           qmin.
        -- apply sle_false in E3. rewrite plw_cons2. simpl fst. simpl snd.
           assert (E3' : sle d (rT bp) x = false) by (apply sle_false; exact E3). rewrite E3'.
           destruct (sle d (rT r') x) eqn:E2.
           ++ apply sle_true in E2.
              assert (Eq : seg (ptN bp) (ptN r') x == seg (ptH prev) (ptH r') x).
              { rewrite <- (seg_split_r (ptH prev) (ptH r') (rT bp, L) x); [|exact Hne|exact Hne2|exact Hc1].
                apply seg_ext; simpl; try reflexivity; assumption. }
              assert (Hle : seg (ptH prev) (ptH r') x <= L).
              { rewrite <- (seg_split_r (ptH prev) (ptH r') (rT bp, L) x); [|exact Hne|exact Hne2|exact Hc1].
                apply seg_le; simpl; [destruct d; dsimp; lra|exact Hne2|lra|lra]. }
              rewrite Eq. qmin.
           ++ apply sle_false in E2. apply Hbeyond. exact E2.
  - (* a flattened row r1 inside the pocket *)
    inversion Hall as [|? ? Hr1 Hrs]; subst. inversion Hnp as [|? ? En1 Hnp']; subst.
    change (map ptH (prev :: (r1 :: m1) ++ r' :: rs')) with (ptH prev :: ptH r1 :: map ptH (m1 ++ r' :: rs')) in *.
    change (flat L (r1 :: m1) ++ bp_ins tq mk L (last (r1 :: m1) prev) r' ++ r' :: cont)
      with (with_np r1 L :: (flat L m1 ++ bp_ins tq mk L (last (r1 :: m1) prev) r' ++ r' :: cont)).
    assert (El : last (r1 :: m1) prev = last m1 r1).
    { destruct m1 as [|z m1]; [reflexivity|]. rewrite last_cons2. apply last_dflt. discriminate. }
    rewrite El in *.
    change (map ptN (with_np r1 L :: ?l)) with ((rT r1, L) :: map ptN l).
    pose proof Hm as [G Hm']. pose proof (sgap_ne d tq _ _ ltac:(lra) G) as Hne. pose proof (sgap_lt d tq _ _ ltac:(lra) G) as Hlt.
    simpl fst in Hne, Hlt.
    rewrite plw_cons2, rmw_cons2. simpl fst in *. simpl snd in *.
    assert (Hseg : forall z, sleP d (rT r1) z -> sleP d z (rT prev) -> L <= seg (ptH prev) (ptH r1) z).
    { intros z Z1 Z2. apply seg_ge; simpl; [destruct d; dsimp; lra|exact Hne|destruct Hp; lra|destruct Hr1; lra]. }
    destruct Hx as [Hx1 Hx2]. simpl fst in Hx1.
    destruct (sle d (rT prev) x) eqn:E1.
    + apply sle_true in E1.
      assert (E2 : sle d (rT r1) x = true) by (apply sle_true; destruct d; dsimp; lra). rewrite E2.
      specialize (Hseg x ltac:(apply sle_true; exact E2) Hx1). rewrite Ey. qmin.
    + destruct (sle d (rT r1) x) eqn:E2.
      * apply sle_true in E2. specialize (Hseg x E2 Hx1).
        rewrite (seg_const (rT prev, y0) (rT r1, L) x L); [qmin|exact Hne|exact Ey|reflexivity].
      * apply sle_false in E2.
        rewrite (IH r1 L ltac:(reflexivity) Hrs Hr1 Hnp' En1 Hm' Hc x).
        -- apply rmw_M_eq. destruct Hr1; qmin.
        -- apply (in_range_tail d (ptH prev) (ptH r1)); [split; assumption|destruct d; dsimp; lra].
Qed.
End Sweep.

Section Sweep2.
Variables (d : bool) (tq : Q) (mk : row -> row -> Q -> row).
Hypothesis Ht : 0 < tq.
Hypothesis Hmk : mk_spec tq mk.

(* what the sweep needs of a side (cur = row being visited, rest = rows still to visit, Ls = levels of the side) *)
Definition SidePre (Ls : list Q) (cur : row) (rest : list row) : Prop :=
  rNP cur == rH cur /\ NPH rest /\ NWall tq (cur :: rest) /\ mono d tq (map ptH (cur :: rest))
  /\ CrossAll d tq Ls (cur :: rest) /\ Forall (fun r => In (rH r) Ls) (cur :: rest).

Lemma SidePre_suffix Ls cur rest pre r' rs' : SidePre Ls cur rest -> rest = pre ++ r' :: rs' -> SidePre Ls r' rs'.
Proof.
  intros [P1 [P2 [P3 [P4 [P5 P6]]]]] E. subst rest.
  unfold NPH in P2. apply Forall_app in P2. destruct P2 as [_ P2]. inversion P2 as [|? ? Q1 Q2]; subst.
  split; [exact Q1|]. split; [exact Q2|]. split; [|split; [|split]].
  - apply (NWall_app_r tq (cur :: pre)). exact P3.
  - change (cur :: pre ++ r' :: rs') with ((cur :: pre) ++ r' :: rs') in P4. rewrite map_app in P4. apply mono_app_r in P4. exact P4.
  - apply (CrossAll_app_r d tq Ls (cur :: pre)). exact P5.
  - change (cur :: pre ++ r' :: rs') with ((cur :: pre) ++ r' :: rs') in P6. apply Forall_app in P6. apply P6.
Qed.

Lemma NW_above L rows : NW tq L rows -> Forall (fun r => L < rH r + tq) rows -> Forall (above_L tq L) rows.
Proof.
  intros H1 H2. unfold NW in H1. rewrite Forall_forall in *. intros r Hr. specialize (H1 r Hr). specialize (H2 r Hr). cbv beta in *.
  unfold above_L. destruct H1 as [E|[E|E]]; [left; lra|lra|right; lra].
Qed.

(* THE SWEEP YIELDS THE RUNNING MINIMUM AT EVERY TEMPERATURE OF THE SIDE *)
Theorem zsweep_np Ls : forall fuel cur rest, (List.length rest <= fuel)%nat -> SidePre Ls cur rest ->
  forall x, in_range d (map ptH (cur :: rest)) x ->
  plw d (map ptN (cur :: zsweep tq mk fuel cur rest)) x == rmw d (rH cur) (map ptH (cur :: rest)) x.
Proof.
  induction fuel as [|f IH]; intros cur rest Hl Pre x Hx.
  - destruct rest; [|simpl in Hl; lia]. simpl. apply Pre.
  - destruct rest as [|r rs]; [simpl; apply Pre|]. simpl in Hl. rewrite zsweep_S.
    pose proof Pre as [P1 [P2 [P3 [P4 [P5 P6]]]]].
    destruct (qltb (rH cur) (rH r - tq)) eqn:Ep.
    + (* a pocket opens at cur *)
      apply qltb_true in Ep.
      destruct (zpocket tq mk (rH cur) cur (r :: rs)) as [out k] eqn:Ez.
      destruct P3 as [Pnw P3'].
      assert (Hcur : above_L tq (rH cur) cur) by (left; reflexivity).
      destruct (zpocket_split tq mk _ _ _ _ _ Ez) as [[K1 [K2 K3]]|[m1 [r' [rs' [K1 [K2 [K3 [K4 K5]]]]]]]]; subst k out.
      * change (map ptN (cur :: flat (rH cur) (r :: rs))) with ((rT cur, rNP cur) :: map ptN (flat (rH cur) (r :: rs))).
        apply (pocket_none_np d tq Ht (rH cur) (r :: rs) cur (rNP cur) P1); try assumption.
        apply NW_above; assumption.
      * rewrite K2 in *.
        assert (Pre' : SidePre Ls r' rs') by (eapply SidePre_suffix; [exact Pre|reflexivity]).
        rewrite <- app_assoc.
        change (map ptN (cur :: ?l)) with ((rT cur, rNP cur) :: map ptN l).
        assert (Hnw1 : NW tq (rH cur) m1) by (unfold NW in *; apply Forall_app in Pnw; apply Pnw).
        assert (Hab : Forall (above_L tq (rH cur)) m1) by (apply NW_above; assumption).
        assert (Hnp1 : NPH m1) by (unfold NPH in *; apply Forall_app in P2; apply P2).
        assert (Er' : rNP r' == rH r') by apply Pre'.
        apply (pocket_some_np d tq mk Ht Hmk (rH cur) (zsweep tq mk f r' rs') r' rs' K5 Er'); try assumption.
        -- intros z Hz. apply IH; [|exact Pre'|exact Hz].
           assert (Hlen : List.length (r :: rs) = List.length (m1 ++ r' :: rs')) by (rewrite K2; reflexivity).
           rewrite app_length in Hlen. simpl in Hlen. lia.
        -- (* the crossing hypothesis for the interval that closes the pocket *)
           assert (Hin : In (rH cur) Ls) by (inversion P6; assumption).
           assert (Hpair : Forall (fun L => CrossW d tq L (last m1 cur) r') Ls).
           { destruct (exists_last (l := cur :: m1) ltac:(discriminate)) as [pre [z Epz]].
             assert (Ez' : z = last m1 cur).
             { assert (E2 : last (cur :: m1) cur = z) by (rewrite Epz; apply last_last).
               rewrite <- E2. destruct m1 as [|y m1]; [reflexivity|]. rewrite last_cons2. apply last_dflt. discriminate. }
             subst z. apply (CrossAll_pair d tq Ls pre (last m1 cur) r' rs').
             replace (pre ++ last m1 cur :: r' :: rs') with ((pre ++ [last m1 cur]) ++ r' :: rs') by (rewrite <- app_assoc; reflexivity).
             rewrite <- Epz. exact P5. }
           rewrite Forall_forall in Hpair. apply Hpair. exact Hin.
    + (* no pocket: the curve does not rise from cur to r *)
      apply qltb_false in Ep.
      destruct P3 as [Pnw P3']. inversion Pnw as [|? ? Hr _]; subst.
      assert (Hle : rH r <= rH cur) by (destruct Hr as [E|[E|E]]; lra).
      assert (Pre' : SidePre Ls r rs) by (apply (SidePre_suffix Ls cur (r :: rs) [] r rs Pre); reflexivity).
      assert (Er : rNP r == rH r) by apply Pre'.
      change (map ptN (cur :: r :: ?l)) with (ptN cur :: ptN r :: map ptN l).
      change (map ptH (cur :: r :: rs)) with (ptH cur :: ptH r :: map ptH rs) in *.
      pose proof P4 as [G Hm']. pose proof (sgap_ne d tq _ _ ltac:(lra) G) as Hne. pose proof (sgap_lt d tq _ _ ltac:(lra) G) as Hlt.
      dsimp. rewrite plw_cons2, rmw_cons2. dsimp.
      destruct Hx as [Hx1 Hx2]. dsimp.
      destruct (sle d (rT cur) x) eqn:E1.
      * apply sle_true in E1.
        assert (E2 : sle d (rT r) x = true) by (apply sle_true; destruct d; dsimp; lra). rewrite E2.
        assert (Ex : x == rT cur) by (destruct d; dsimp; lra).
        rewrite (seg_at_a (ptH cur) (ptH r) x); [dsimp; rewrite P1; qmin|exact Hne|exact Ex].
      * destruct (sle d (rT r) x) eqn:E2.
        -- apply sle_true in E2.
           assert (Hseg : seg (ptH cur) (ptH r) x <= rH cur).
           { apply seg_le; dsimp; [destruct d; dsimp; lra|exact Hne|lra|lra]. }
           rewrite (seg_ext (ptN cur) (ptN r) (ptH cur) (ptH r) x x); dsimp; try reflexivity; try assumption. qmin.
        -- apply sle_false in E2.
           change (ptN r :: map ptN (zsweep tq mk f r rs)) with (map ptN (r :: zsweep tq mk f r rs)).
           rewrite IH; [|lia|exact Pre'|].
           ++ apply rmw_M_eq. qmin.
           ++ apply (in_range_tail d (ptH cur) (ptH r)); [split; assumption|destruct d; dsimp; lra].
Qed.
End Sweep2.

(* ---------- the curve itself is unchanged, rows stay ordered, ends stay ---------- *)
Lemma map_ptH_flat L rows : map ptH (flat L rows) = map ptH rows.
Proof. induction rows as [|r rs IH]; simpl; [reflexivity|]. rewrite IH. reflexivity. Qed.
Lemma last_flat_T L rows dflt : rT (last (flat L rows) (with_np dflt L)) = rT (last rows dflt).
Proof.
  induction rows as [|r rs IH]; [reflexivity|]. destruct rs as [|r2 rs]; [reflexivity|].
  change (flat L (r :: r2 :: rs)) with (with_np r L :: with_np r2 L :: flat L rs). rewrite !last_cons2. exact IH.
Qed.

Section Sweep3.
Variables (d : bool) (tq : Q) (mk : row -> row -> Q -> row).
Hypothesis Ht : 0 < tq.
Hypothesis Hmk : mk_spec tq mk.

Lemma pocket_some_H L cont r' rs' : rH r' + tq <= L -> rNP r' == rH r' ->
  (forall x, in_range d (map ptH (r' :: rs')) x -> plw d (map ptH (r' :: cont)) x == plw d (map ptH (r' :: rs')) x) ->
  forall m1 prev, Forall (above_L tq L) m1 -> above_L tq L prev -> NPH m1 -> rNP prev == rH prev ->
  mono d tq (map ptH (prev :: m1 ++ r' :: rs')) ->
  CrossW d tq L (last m1 prev) r' ->
  forall x, in_range d (map ptH (prev :: m1 ++ r' :: rs')) x ->
  plw d (ptH prev :: map ptH (flat L m1 ++ bp_ins tq mk L (last m1 prev) r' ++ r' :: cont)) x
  == plw d (map ptH (prev :: m1 ++ r' :: rs')) x.
Proof.
  intros Hr' Er' Hcont. induction m1 as [|r1 m1 IH]; intros prev Hall Hp Hnp Ep Hm Hc x Hx.
  - simpl last in *. simpl app in *.
    change (map ptH (prev :: r' :: rs')) with (ptH prev :: ptH r' :: map ptH rs') in *.
    pose proof Hm as [G Hm']. pose proof (sgap_ne d tq _ _ ltac:(lra) G) as Hne. pose proof (sgap_lt d tq _ _ ltac:(lra) G) as Hlt.
    dsimp. destruct Hx as [Hx1 Hx2]. dsimp.
    assert (Hbeyond : sltP d x (rT r') -> plw d (map ptH (r' :: cont)) x == plw d (ptH r' :: map ptH rs') x).
    { intros Hb. apply Hcont. apply (in_range_tail d (ptH prev) (ptH r')); [split; assumption|destruct d; dsimp; lra]. }
    rewrite (plw_cons2 d (ptH prev) (ptH r')). dsimp.
    destruct (bp_ins_cases d tq mk Ht Hmk L prev r' Hr' Hp G Ep Er' Hc) as [[Ei EL]|[bp [Ei [B1 [B2 [G1 [G2 B3]]]]]]]; rewrite Ei; simpl app.
    + change (map ptH (r' :: cont)) with (ptH r' :: map ptH cont) in *. rewrite plw_cons2. dsimp.
      destruct (sle d (rT prev) x); [reflexivity|]. destruct (sle d (rT r') x) eqn:E2; [reflexivity|].
      apply sle_false in E2. apply Hbeyond. exact E2.
    + change (map ptH (bp :: r' :: cont)) with (ptH bp :: ptH r' :: map ptH cont).
      pose proof (sgap_ne d tq _ _ ltac:(lra) G1) as Hne1. pose proof (sgap_lt d tq _ _ ltac:(lra) G1) as Hlt1.
      pose proof (sgap_ne d tq _ _ ltac:(lra) G2) as Hne2. pose proof (sgap_lt d tq _ _ ltac:(lra) G2) as Hlt2.
      dsimp.
      assert (Hc1 : snd (ptH bp) == seg (ptH prev) (ptH r') (fst (ptH bp))) by (dsimp; rewrite B3; exact B1).
      rewrite plw_cons2. dsimp.
      destruct (sle d (rT prev) x) eqn:E1.
      * reflexivity.
      * apply sle_false in E1.
        destruct (sle d (rT bp) x) eqn:E3.
        -- apply sle_true in E3.
           assert (E2 : sle d (rT r') x = true) by (apply sle_true; destruct d; dsimp; lra). rewrite E2.
           apply seg_split_l; [exact Hne|exact Hne1|exact Hc1].
        -- apply sle_false in E3. rewrite plw_cons2. dsimp.
           assert (E3' : sle d (rT bp) x = false) by (apply sle_false; exact E3). rewrite E3'.
           destruct (sle d (rT r') x) eqn:E2.
           ++ apply seg_split_r; [exact Hne|exact Hne2|exact Hc1].
           ++ apply sle_false in E2. apply Hbeyond. exact E2.
  - inversion Hall as [|? ? Hr1 Hrs]; subst. inversion Hnp as [|? ? En1 Hnp']; subst.
    change (map ptH (prev :: (r1 :: m1) ++ r' :: rs')) with (ptH prev :: ptH r1 :: map ptH (m1 ++ r' :: rs')) in *.
    change (flat L (r1 :: m1) ++ bp_ins tq mk L (last (r1 :: m1) prev) r' ++ r' :: cont)
      with (with_np r1 L :: (flat L m1 ++ bp_ins tq mk L (last (r1 :: m1) prev) r' ++ r' :: cont)).
    assert (El : last (r1 :: m1) prev = last m1 r1).
    { destruct m1 as [|z m1]; [reflexivity|]. rewrite last_cons2. apply last_dflt. discriminate. }
    rewrite El in *.
    change (map ptH (with_np r1 L :: ?l)) with (ptH r1 :: map ptH l).
    pose proof Hm as [G Hm']. pose proof (sgap_lt d tq _ _ ltac:(lra) G) as Hlt. dsimp.
    rewrite !plw_cons2. dsimp. destruct Hx as [Hx1 Hx2]. dsimp.
    destruct (sle d (rT prev) x); [reflexivity|]. destruct (sle d (rT r1) x) eqn:E2; [reflexivity|].
    apply sle_false in E2.
    apply (IH r1 Hrs Hr1 Hnp' En1 Hm' Hc x).
    apply (in_range_tail d (ptH prev) (ptH r1)); [split; assumption|destruct d; dsimp; lra].
Qed.

Theorem zsweep_H Ls : forall fuel cur rest, (List.length rest <= fuel)%nat -> SidePre d tq Ls cur rest ->
  forall x, in_range d (map ptH (cur :: rest)) x ->
  plw d (map ptH (cur :: zsweep tq mk fuel cur rest)) x == plw d (map ptH (cur :: rest)) x.
Proof.
  induction fuel as [|f IH]; intros cur rest Hl Pre x Hx.
  - destruct rest; [|simpl in Hl; lia]. reflexivity.
  - destruct rest as [|r rs]; [reflexivity|]. simpl in Hl. rewrite zsweep_S.
    pose proof Pre as [P1 [P2 [P3 [P4 [P5 P6]]]]].
    destruct (qltb (rH cur) (rH r - tq)) eqn:Ep.
    + apply qltb_true in Ep.
      destruct (zpocket tq mk (rH cur) cur (r :: rs)) as [out k] eqn:Ez.
      destruct P3 as [Pnw P3'].
      assert (Hcur : above_L tq (rH cur) cur) by (left; reflexivity).
      destruct (zpocket_split tq mk _ _ _ _ _ Ez) as [[K1 [K2 K3]]|[m1 [r' [rs' [K1 [K2 [K3 [K4 K5]]]]]]]]; subst k out.
      * change (map ptH (cur :: flat (rH cur) (r :: rs))) with (ptH cur :: map ptH (flat (rH cur) (r :: rs))).
        rewrite map_ptH_flat. reflexivity.
      * rewrite K2 in *.
        assert (Pre' : SidePre d tq Ls r' rs') by (eapply SidePre_suffix; [exact Pre|reflexivity]).
        rewrite <- app_assoc.
        change (map ptH (cur :: ?l)) with (ptH cur :: map ptH l) at 1.
        assert (Hnw1 : NW tq (rH cur) m1) by (unfold NW in *; apply Forall_app in Pnw; apply Pnw).
        assert (Hab : Forall (above_L tq (rH cur)) m1) by (apply NW_above; assumption).
        assert (Hnp1 : NPH m1) by (unfold NPH in *; apply Forall_app in P2; apply P2).
        assert (Er' : rNP r' == rH r') by apply Pre'.
        apply (pocket_some_H (rH cur) (zsweep tq mk f r' rs') r' rs' K5 Er'); try assumption.
        -- intros z Hz. apply IH; [|exact Pre'|exact Hz].
           assert (Hlen : List.length (r :: rs) = List.length (m1 ++ r' :: rs')) by (rewrite K2; reflexivity).
           rewrite app_length in Hlen. simpl in Hlen. lia.
        -- assert (Hin : In (rH cur) Ls) by (inversion P6; assumption).
           assert (Hpair : Forall (fun L => CrossW d tq L (last m1 cur) r') Ls).
           { destruct (exists_last (l := cur :: m1) ltac:(discriminate)) as [pre [z Epz]].
             assert (Ez' : z = last m1 cur).
             { assert (E2 : last (cur :: m1) cur = z) by (rewrite Epz; apply last_last).
               rewrite <- E2. destruct m1 as [|y m1]; [reflexivity|]. rewrite last_cons2. apply last_dflt. discriminate. }
             subst z. apply (CrossAll_pair d tq Ls pre (last m1 cur) r' rs').
             replace (pre ++ last m1 cur :: r' :: rs') with ((pre ++ [last m1 cur]) ++ r' :: rs') by (rewrite <- app_assoc; reflexivity).
             rewrite <- Epz. exact P5. }
           rewrite Forall_forall in Hpair. apply Hpair. exact Hin.
    + assert (Pre' : SidePre d tq Ls r rs) by (apply (SidePre_suffix d tq Ls cur (r :: rs) [] r rs Pre); reflexivity).
      change (map ptH (cur :: r :: ?l)) with (ptH cur :: ptH r :: map ptH l).
      pose proof P4 as [G Hm']. pose proof (sgap_lt d tq _ _ ltac:(lra) G) as Hlt. dsimp.
      rewrite !plw_cons2. dsimp. destruct Hx as [Hx1 Hx2].
      change (map ptH (cur :: r :: rs)) with (ptH cur :: ptH r :: map ptH rs) in *. dsimp.
      destruct (sle d (rT cur) x); [reflexivity|]. destruct (sle d (rT r) x) eqn:E2; [reflexivity|].
      apply sle_false in E2.
      change (ptH r :: map ptH (zsweep tq mk f r rs)) with (map ptH (r :: zsweep tq mk f r rs)).
      apply IH; [lia|exact Pre'|].
      apply (in_range_tail d (ptH cur) (ptH r)); [split; assumption|destruct d; dsimp; lra].
Qed.
End Sweep3.

Lemma last_app_ne {A} (l1 l2 : list A) d1 d2 : l2 <> [] -> last (l1 ++ l2) d1 = last l2 d2.
Proof.
  intros H. induction l1 as [|a l1 IH]; [apply last_dflt; exact H|].
  simpl app. destruct (l1 ++ l2) eqn:E; [apply app_eq_nil in E; destruct E; congruence|].
  rewrite last_cons2. exact IH.
Qed.

Section Sweep4.
Variables (d : bool) (tq : Q) (mk : row -> row -> Q -> row).
Hypothesis Ht : 0 < tq.
Hypothesis Hmk : mk_spec tq mk.

Lemma pocket_some_mono L cont r' rs' : rH r' + tq <= L -> rNP r' == rH r' ->
  mono d tq (map ptH (r' :: cont)) ->
  forall m1 prev, Forall (above_L tq L) m1 -> above_L tq L prev -> NPH m1 -> rNP prev == rH prev ->
  mono d tq (map ptH (prev :: m1 ++ r' :: rs')) ->
  CrossW d tq L (last m1 prev) r' ->
  mono d tq (ptH prev :: map ptH (flat L m1 ++ bp_ins tq mk L (last m1 prev) r' ++ r' :: cont)).
Proof.
  intros Hr' Er' Hcont. induction m1 as [|r1 m1 IH]; intros prev Hall Hp Hnp Ep Hm Hc.
  - simpl last in *. simpl app in *.
    change (map ptH (prev :: r' :: rs')) with (ptH prev :: ptH r' :: map ptH rs') in *.
    pose proof Hm as [G Hm'].
    destruct (bp_ins_cases d tq mk Ht Hmk L prev r' Hr' Hp G Ep Er' Hc) as [[Ei EL]|[bp [Ei [B1 [B2 [G1 [G2 B3]]]]]]]; rewrite Ei; simpl app.
    + change (map ptH (r' :: cont)) with (ptH r' :: map ptH cont) in *. split; assumption.
    + change (map ptH (bp :: r' :: cont)) with (ptH bp :: ptH r' :: map ptH cont).
      change (map ptH (r' :: cont)) with (ptH r' :: map ptH cont) in *.
      split; [exact G1|]. split; [exact G2|exact Hcont].
  - inversion Hall as [|? ? Hr1 Hrs]; subst. inversion Hnp as [|? ? En1 Hnp']; subst.
    change (map ptH (prev :: (r1 :: m1) ++ r' :: rs')) with (ptH prev :: ptH r1 :: map ptH (m1 ++ r' :: rs')) in *.
    change (flat L (r1 :: m1) ++ bp_ins tq mk L (last (r1 :: m1) prev) r' ++ r' :: cont)
      with (with_np r1 L :: (flat L m1 ++ bp_ins tq mk L (last (r1 :: m1) prev) r' ++ r' :: cont)).
    assert (El : last (r1 :: m1) prev = last m1 r1).
    { destruct m1 as [|z m1]; [reflexivity|]. rewrite last_cons2. apply last_dflt. discriminate. }
    rewrite El in *.
    change (map ptH (with_np r1 L :: ?l)) with (ptH r1 :: map ptH l).
    pose proof Hm as [G Hm']. split; [exact G|]. apply IH; assumption.
Qed.

Theorem zsweep_mono Ls : forall fuel cur rest, (List.length rest <= fuel)%nat -> SidePre d tq Ls cur rest ->
  mono d tq (map ptH (cur :: zsweep tq mk fuel cur rest)).
Proof.
  induction fuel as [|f IH]; intros cur rest Hl Pre.
  - destruct rest; [|simpl in Hl; lia]. exact I.
  - destruct rest as [|r rs]; [exact I|]. simpl in Hl. rewrite zsweep_S.
    pose proof Pre as [P1 [P2 [P3 [P4 [P5 P6]]]]].
    destruct (qltb (rH cur) (rH r - tq)) eqn:Ep.
    + apply qltb_true in Ep.
      destruct (zpocket tq mk (rH cur) cur (r :: rs)) as [out k] eqn:Ez.
      destruct P3 as [Pnw P3'].
      assert (Hcur : above_L tq (rH cur) cur) by (left; reflexivity).
      destruct (zpocket_split tq mk _ _ _ _ _ Ez) as [[K1 [K2 K3]]|[m1 [r' [rs' [K1 [K2 [K3 [K4 K5]]]]]]]]; subst k out.
      * change (map ptH (cur :: flat (rH cur) (r :: rs))) with (ptH cur :: map ptH (flat (rH cur) (r :: rs))).
        rewrite map_ptH_flat. exact P4.
      * rewrite K2 in *.
        assert (Pre' : SidePre d tq Ls r' rs') by (eapply SidePre_suffix; [exact Pre|reflexivity]).
        rewrite <- app_assoc.
        change (map ptH (cur :: ?l)) with (ptH cur :: map ptH l).
        assert (Hnw1 : NW tq (rH cur) m1) by (unfold NW in *; apply Forall_app in Pnw; apply Pnw).
        assert (Hab : Forall (above_L tq (rH cur)) m1) by (apply NW_above; assumption).
        assert (Hnp1 : NPH m1) by (unfold NPH in *; apply Forall_app in P2; apply P2).
        assert (Er' : rNP r' == rH r') by apply Pre'.
        apply (pocket_some_mono (rH cur) (zsweep tq mk f r' rs') r' rs' K5 Er'); try assumption.
        -- apply IH; [|exact Pre'].
           assert (Hlen : List.length (r :: rs) = List.length (m1 ++ r' :: rs')) by (rewrite K2; reflexivity).
           rewrite app_length in Hlen. simpl in Hlen. lia.
        -- assert (Hin : In (rH cur) Ls) by (inversion P6; assumption).
           assert (Hpair : Forall (fun L => CrossW d tq L (last m1 cur) r') Ls).
           { destruct (exists_last (l := cur :: m1) ltac:(discriminate)) as [pre [z Epz]].
             assert (Ez' : z = last m1 cur).
             { assert (E2 : last (cur :: m1) cur = z) by (rewrite Epz; apply last_last).
               rewrite <- E2. destruct m1 as [|y m1]; [reflexivity|]. rewrite last_cons2. apply last_dflt. discriminate. }
             subst z. apply (CrossAll_pair d tq Ls pre (last m1 cur) r' rs').
             replace (pre ++ last m1 cur :: r' :: rs') with ((pre ++ [last m1 cur]) ++ r' :: rs') by (rewrite <- app_assoc; reflexivity).
             rewrite <- Epz. exact P5. }
           rewrite Forall_forall in Hpair. apply Hpair. exact Hin.
    + assert (Pre' : SidePre d tq Ls r rs) by (apply (SidePre_suffix d tq Ls cur (r :: rs) [] r rs Pre); reflexivity).
      change (map ptH (cur :: r :: ?l)) with (ptH cur :: ptH r :: map ptH l).
      change (map ptH (cur :: r :: rs)) with (ptH cur :: ptH r :: map ptH rs) in P4.
      destruct P4 as [G _]. split; [exact G|].
      change (ptH r :: map ptH (zsweep tq mk f r rs)) with (map ptH (r :: zsweep tq mk f r rs)).
      apply IH; [lia|exact Pre'].
Qed.

(* the last row keeps its temperature (and the first row is cur itself) *)
Theorem zsweep_lastT : forall fuel cur rest, (List.length rest <= fuel)%nat ->
  rT (last (cur :: zsweep tq mk fuel cur rest) cur) = rT (last (cur :: rest) cur).
Proof.
  induction fuel as [|f IH]; intros cur rest Hl.
  - destruct rest; [|simpl in Hl; lia]. reflexivity.
  - destruct rest as [|r rs]; [reflexivity|]. simpl in Hl. rewrite zsweep_S.
    destruct (qltb (rH cur) (rH r - tq)) eqn:Ep.
    + destruct (zpocket tq mk (rH cur) cur (r :: rs)) as [out k] eqn:Ez.
      destruct (zpocket_split tq mk _ _ _ _ _ Ez) as [[K1 [K2 K3]]|[m1 [r' [rs' [K1 [K2 [K3 [K4 K5]]]]]]]]; subst k out.
      * change (flat (rH cur) (r :: rs)) with (with_np r (rH cur) :: flat (rH cur) rs).
        rewrite !last_cons2.
        change (with_np r (rH cur) :: flat (rH cur) rs) with (flat (rH cur) (r :: rs)).
        rewrite (last_dflt (flat (rH cur) (r :: rs)) cur (with_np cur (rH cur))) by discriminate.
        apply last_flat_T.
      * rewrite K2.
        change (cur :: (flat (rH cur) m1 ++ bp_ins tq mk (rH cur) (last m1 cur) r') ++ r' :: zsweep tq mk f r' rs')
          with ((cur :: flat (rH cur) m1 ++ bp_ins tq mk (rH cur) (last m1 cur) r') ++ r' :: zsweep tq mk f r' rs').
        rewrite (last_app_ne _ (r' :: zsweep tq mk f r' rs') cur r') by discriminate.
        change (cur :: m1 ++ r' :: rs') with ((cur :: m1) ++ r' :: rs').
        rewrite (last_app_ne _ (r' :: rs') cur r') by discriminate.
        apply IH.
        assert (Hlen : List.length (r :: rs) = List.length (m1 ++ r' :: rs')) by (rewrite K2; reflexivity).
        rewrite app_length in Hlen. simpl in Hlen. lia.
    + rewrite !last_cons2.
      rewrite (last_dflt (r :: zsweep tq mk f r rs) cur r) by discriminate.
      rewrite (last_dflt (r :: rs) cur r) by discriminate.
      apply IH. lia.
Qed.
End Sweep4.
