(* C19 (stream half): the consistency invariant holds after every finite sequence of setter calls. *)
From OP Require Import gen.Consts model.Base model.Stream proofs.BaseFacts.
From Coq Require Import Lqa Lia.
Local Open Scope Q_scope.

(* the only fact about the generated constant that the proofs need *)
Definition latent_ok : Prop := 0 < latent_dT.
Lemma latent_pos : latent_ok. Proof. unfold latent_ok, latent_dT. reflexivity. Qed.

Definition Bounds (s : stream) : Prop :=
  tmin s < tmax s /\
  (if cold s then tmin s == ts s /\ tmax s == tt s /\ tmins s == tmin s + dt s /\ tmaxs s == tmax s + dt s
   else tmin s == tt s /\ tmax s == ts s /\ tmins s == tmin s - dt s /\ tmaxs s == tmax s - dt s).

Definition Inv (s : stream) : Prop :=
  cp s * (tmax s - tmin s) == q s /\ Bounds s /\ (~ htc s == 0 -> htr s * htc s == 1).

Lemma set_hot_bounds s : tt s < ts s -> Bounds (set_hot s).
Proof. intro H. unfold Bounds, set_hot; simpl. rewrite !rsub_eq. repeat split; try reflexivity; assumption. Qed.
Lemma set_cold_bounds s : ts s < tt s -> Bounds (set_cold s).
Proof. intro H. unfold Bounds, set_cold; simpl. rewrite !radd_eq. repeat split; try reflexivity; assumption. Qed.

(* shape of the state chosen by the first half of _update_attributes *)
Definition classify (s : stream) : stream :=
  if qltb (tt s) (ts s) then set_hot s
  else if qltb (ts s) (tt s) then set_cold s
  else if qleb 0 (q s) then set_cold (with_tt s (radd (ts s) latent_dT))
  else set_hot (with_q (with_tt s (rsub (ts s) latent_dT)) (Qred (- q s))).

Lemma classify_bounds s : Bounds (classify s).
Proof.
  unfold classify. pose proof latent_pos as L. unfold latent_ok in L.
  destruct (qltb (tt s) (ts s)) eqn:E1.
  - apply set_hot_bounds. apply qltb_true; exact E1.
  - destruct (qltb (ts s) (tt s)) eqn:E2.
    + apply set_cold_bounds. apply qltb_true; exact E2.
    + destruct (qleb 0 (q s)).
      * apply set_cold_bounds. simpl. rewrite radd_eq. lra.
      * apply set_hot_bounds. simpl. rewrite rsub_eq. lra.
Qed.

Lemma classify_fields s : htc (classify s) = htc s /\ price (classify s) = price s
  /\ htr (classify s) = htr s /\ dt (classify s) = dt s.
Proof. unfold classify. destruct (qltb (tt s) (ts s)), (qltb (ts s) (tt s)), (qleb 0 (q s)); simpl; repeat split. Qed.

Lemma update_unfold s :
  update s =
  let s1 := classify s in
  let cp1 := rdiv (q s1) (rsub (tmax s1) (tmin s1)) in
  let ut1 := rmul (rdiv (q s1) 1000) (price s1) in
  let '(htr1, rcp1) :=
    if is_zero (htc s1) then (htr s1, rcp s1)
    else let h := rdiv 1 (htc s1) in (h, if qltb 0 (htc s1) then rmul cp1 h else 0) in
  mkS (ts s1) (tt s1) (dt s1) (q s1) (htc s1) htr1 (price s1) (cold s1)
      (tmin s1) (tmax s1) (tmins s1) (tmaxs s1) cp1 rcp1 ut1.
Proof. reflexivity. Qed.

(* update establishes the invariant from ANY state whose stale resistance is consistent *)
Lemma update_inv s : (~ htc s == 0 -> True) -> Inv (update s).
Proof.
  intros _. rewrite update_unfold. cbv zeta.
  pose proof (classify_bounds s) as B. set (s1 := classify s) in *.
  destruct B as [Hlt Hk].
  destruct (is_zero (htc s1)) eqn:Z.
  - unfold Inv, Bounds; simpl. split; [|split].
    + rewrite rdiv_eq, rsub_eq. field. lra.
    + split; [exact Hlt|exact Hk].
    + intro N. apply is_zero_true in Z. contradiction.
  - unfold Inv, Bounds; simpl. split; [|split].
    + rewrite rdiv_eq, rsub_eq. field. lra.
    + split; [exact Hlt|exact Hk].
    + intro N. rewrite rdiv_eq. field. exact N.
Qed.

Lemma mk_stream_inv a b c d e f : Inv (mk_stream a b c d e f).
Proof. unfold mk_stream. apply update_inv. auto. Qed.

Lemma sstep_inv s o : Inv s -> Inv (sstep s o).
Proof.
  intros [Hcp [[Hlt Hk] Hh]]. destruct o as [v|v|v|v|v|v]; cbn [sstep]; try (apply update_inv; auto).
  (* set_heat_flow *)
  assert (D : Qabs (ts s - tt s) == tmax s - tmin s).
  { destruct (cold s); destruct Hk as [A [B _]].
    - assert (X : ts s - tt s == - (tmax s - tmin s)) by (rewrite A, B; ring).
      rewrite X, Qabs_opp. apply Qabs_pos. lra.
    - assert (X : ts s - tt s == tmax s - tmin s) by (rewrite A, B; ring).
      rewrite X. apply Qabs_pos. lra. }
  destruct (qltb 0 (Qabs (ts s - tt s))) eqn:E.
  - unfold Inv, Bounds; simpl. split; [|split].
    + rewrite rdiv_eq, D. field. lra.
    + split; [exact Hlt|exact Hk].
    + exact Hh.
  - apply qltb_false in E. rewrite D in E. lra.
Qed.

Theorem inv_reachable a b c d e f ops : Inv (run_ops (mk_stream a b c d e f) ops).
Proof.
  unfold run_ops. generalize (mk_stream_inv a b c d e f). generalize (mk_stream a b c d e f).
  induction ops as [|o ops IH]; intros s H; simpl; [exact H|]. apply IH. apply sstep_inv; exact H.
Qed.

(* the boolean predicate with eps = 0 is exactly the invariant's observable part *)
Lemma inv_b_sound s : Inv s -> inv_b 0 s = true.
Proof.
  intros [Hcp [[Hlt Hk] Hh]]. unfold inv_b.
  apply andb_true_iff; split; [apply andb_true_iff; split; [apply andb_true_iff; split|]|].
  - apply close0_eq; exact Hcp.
  - apply qleb_true; lra.
  - destruct (cold s); destruct Hk as [_ [_ [A B]]]; apply andb_true_iff; split; apply close0_eq; assumption.
  - destruct (is_zero (htc s)) eqn:Z; [reflexivity|]. simpl. apply close0_eq. apply Hh. apply is_zero_false; exact Z.
Qed.

(* kind follows the temperatures (the D19 repair): a stream is Cold exactly when supply < target *)
Lemma kind_follows s : Inv s -> (cold s = true <-> ts s < tt s).
Proof.
  intros [_ [[Hlt Hk] _]]. destruct (cold s); destruct Hk as [A [B _]]; rewrite A, B in Hlt; split; intro H; try reflexivity; try discriminate; try assumption.
  exfalso. lra.
Qed.

(* non-vacuity: a concrete non-trivial reachable state *)
Example inv_example :
  inv_b 0 (run_ops (mk_stream 100 40 5 120 2 30) [SetTs 20; SetQ 0; SetTt 20; SetHeatFlow 7; SetHtc (1#2); SetDt 10]) = true.
Proof. vm_compute. reflexivity. Qed.
