(* Lemmas about model/HeatPump.v: first law and COP relation of _get_metrics, duties and monotonicity of the
   emitted streams, independence of the request order, and the Carnot bookkeeping.
   The second-law / saturation clauses (which need hypotheses about the property library) are in HeatPumpLaws.v. *)
From OP Require Import gen.Consts gen.HeatPumpConsts model.Base model.HeatPump proofs.BaseFacts.
From Coq Require Import Lqa Lia.
Local Open Scope Q_scope.

(* ------------------------------------------------------------------ constants read from the source *)
Lemma hp_kJ_pos : 0 < hp_kJ. Proof. reflexivity. Qed.
Lemma hp_iso_window_pos : 0 < hp_iso_window. Proof. reflexivity. Qed.
Lemma hp_iso_nudge_pos : 0 < hp_iso_nudge. Proof. reflexivity. Qed.
Lemma hp_ihx_floor_zero : hp_ihx_floor == 0. Proof. reflexivity. Qed.

(* ------------------------------------------------------------------ small arithmetic facts *)
Lemma Qmax_nonneg_l a : 0 <= a -> Qmax a 0 == a.
Proof. intro H. apply Q.max_l. exact H. Qed.
Lemma Qmax_nonpos_l a : a <= 0 -> Qmax a 0 == 0.
Proof. intro H. apply Q.max_r. exact H. Qed.

Lemma Qdiv_pos a b : 0 < a -> 0 < b -> 0 < a / b.
Proof. intros Ha Hb. unfold Qdiv. apply Qmult_lt_0_compat; [exact Ha | apply Qinv_lt_0_compat; exact Hb]. Qed.

Lemma Qdiv_nonneg a b : 0 <= a -> 0 < b -> 0 <= a / b.
Proof. intros Ha Hb. unfold Qdiv. apply Qmult_le_0_compat; [exact Ha | apply Qlt_le_weak, Qinv_lt_0_compat; exact Hb]. Qed.

(* d / eta >= d for 0 <= d and 0 < eta <= 1 *)
Lemma div_eta_ge d eta : 0 <= d -> 0 < eta -> eta <= 1 -> d <= d / eta.
Proof.
  intros Hd He He1.
  assert (K : d / eta - d == (d / eta) * (1 - eta)) by (field; intro Z; rewrite Z in He; apply (Qlt_irrefl 0 He)).
  assert (P : 0 <= (d / eta) * (1 - eta)).
  { apply Qmult_le_0_compat; [apply Qdiv_nonneg; assumption | lra]. }
  lra.
Qed.

Lemma qsum_cons x l : qsum (x :: l) == x + qsum l.
Proof. change (qsum (x :: l)) with (Qred (x + qsum l)). apply Qred_correct. Qed.
Lemma qsum_nil : qsum [] == 0. Proof. reflexivity. Qed.

Lemma qsum_scale r l : qsum (map (fun x => rmul x r) l) == qsum l * r.
Proof.
  induction l as [|x l IH]; [reflexivity|].
  simpl map. rewrite !qsum_cons, IH, rmul_eq. ring.
Qed.

(* ------------------------------------------------------------------ _get_metrics *)
Lemma get_metrics_ok Qc H0 H1 H3 m :
  get_metrics Qc H0 H1 H3 = Ok m ->
  m_w m == (H1 - H0) / hp_kJ /\ m_qe m == Qmax (H0 - H3) 0 / hp_kJ /\ m_qc m == (H1 - H3) / hp_kJ /\
  ~ m_qc m == 0 /\ m_mdot m == Qc / m_qc m /\ m_Qe m == m_mdot m * m_qe m /\ m_W m == Qc - m_Qe m.
Proof.
  unfold get_metrics. destruct (is_zero (rdiv (rsub H1 H3) hp_kJ)) eqn:Z; [discriminate|].
  intro E. inversion E; subst m; clear E. simpl.
  apply is_zero_false in Z.
  repeat split; try exact Z;
    repeat first [rewrite rdiv_eq | rewrite rsub_eq | rewrite rmul_eq]; reflexivity.
Qed.

(* first law: q_cond = q_evap + w_net and Q_cond = Q_evap + work, whenever the evaporator takes up heat (H3 <= H0) *)
Lemma first_law Qc H0 H1 H3 m :
  get_metrics Qc H0 H1 H3 = Ok m -> H3 <= H0 ->
  m_qc m == m_qe m + m_w m /\ Qc == m_Qe m + m_W m.
Proof.
  intros E Hle. destruct (get_metrics_ok _ _ _ _ _ E) as (Hw & Hqe & Hqc & _ & _ & _ & HW).
  split; [|lra].
  rewrite Hw, Hqe, Hqc, Qmax_nonneg_l by lra.
  field. intro K. pose proof hp_kJ_pos. lra.
Qed.

(* the work is the one mass flow times the specific work *)
Lemma work_is_mdot_w Qc H0 H1 H3 m :
  get_metrics Qc H0 H1 H3 = Ok m -> H3 <= H0 -> m_W m == m_mdot m * m_w m.
Proof.
  intros E Hle. destruct (first_law _ _ _ _ _ E Hle) as [F1 _].
  destruct (get_metrics_ok _ _ _ _ _ E) as (_ & _ & _ & Hnz & Hmd & HQe & HW).
  rewrite HW, HQe.
  assert (K : Qc == m_mdot m * m_qc m) by (rewrite Hmd; field; exact Hnz).
  rewrite K at 1. rewrite F1. ring.
Qed.

(* COP_h = COP_r + 1 whenever both are defined (w_net <> 0) and H3 <= H0 *)
Lemma cop_relation Qc H0 H1 H3 m a b :
  get_metrics Qc H0 H1 H3 = Ok m -> H3 <= H0 -> cop_h m = Ok a -> cop_r m = Ok b -> a == b + 1.
Proof.
  intros E Hle. destruct (first_law _ _ _ _ _ E Hle) as [F1 _].
  unfold cop_h, cop_r. destruct (is_zero (m_w m)) eqn:Z; [discriminate|].
  apply is_zero_false in Z.
  intros A B. inversion A; inversion B; subst a b.
  rewrite !rdiv_eq, F1. field. exact Z.
Qed.

(* w_net <> 0 is exactly what makes both COPs defined *)
Lemma cop_defined m : ~ m_w m == 0 -> exists a b, cop_h m = Ok a /\ cop_r m = Ok b.
Proof.
  intro Z. unfold cop_h, cop_r. apply is_zero_false in Z. rewrite Z. eauto.
Qed.

(* without H3 <= H0 the relation fails: the shape D27 produced before the clamp (H0 < H3, q_evap clamped to 0) *)
Example cop_relation_refuted :
  exists m a b, get_metrics 1 400000 430000 410000 = Ok m /\ cop_h m = Ok a /\ cop_r m = Ok b /\ ~ a == b + 1.
Proof.
  eexists. eexists. eexists. split; [vm_compute; reflexivity|]. split; [vm_compute; reflexivity|].
  split; [vm_compute; reflexivity|]. intro K. vm_compute in K. discriminate.
Qed.

(* positive work: compressor raises the enthalpy (H0 < H1), evaporator takes up heat, positive duty *)
Lemma work_positive Qc H0 H1 H3 m :
  get_metrics Qc H0 H1 H3 = Ok m -> 0 < Qc -> H3 <= H0 -> H0 < H1 -> 0 < m_w m /\ 0 < m_mdot m /\ 0 < m_W m.
Proof.
  intros E HQ Hle Hlt.
  pose proof (work_is_mdot_w _ _ _ _ _ E Hle) as HW.
  destruct (get_metrics_ok _ _ _ _ _ E) as (Hw & _ & Hqc & _ & Hmd & _ & _).
  pose proof hp_kJ_pos as Kp.
  assert (Pw : 0 < m_w m) by (rewrite Hw; apply Qdiv_pos; lra).
  assert (Pqc : 0 < m_qc m) by (rewrite Hqc; apply Qdiv_pos; lra).
  assert (Pmd : 0 < m_mdot m) by (rewrite Hmd; apply Qdiv_pos; assumption).
  repeat split; try assumption.
  rewrite HW. apply Qmult_lt_0_compat; assumption.
Qed.

(* ------------------------------------------------------------------ internal-exchanger superheat (D27) *)
Lemma ihx_none_requested Te Tc sh sc : ihx_dt 0 Te Tc sh sc == 0.
Proof.
  unfold ihx_dt. rewrite hp_ihx_floor_zero.
  apply Q.max_l. apply Q.le_min_l.
Qed.
Lemma ihx_nonneg req Te Tc sh sc : 0 <= ihx_dt req Te Tc sh sc.
Proof. unfold ihx_dt. rewrite hp_ihx_floor_zero. apply Q.le_max_l. Qed.
(* pre-repair: a 3 K lift with nothing requested gave -2 K *)
Example ihx_prefix_refuted : ihx_dt_old 0 10 13 0 0 == -2.
Proof. vm_compute. reflexivity. Qed.

(* ------------------------------------------------------------------ streams *)
(* total variation of the enthalpy along a profile, and monotonicity predicates *)
Fixpoint tv (pr : list (Q * Q)) : Q :=
  match pr with
  | (h1, _) :: (((h2, _) :: _) as r) => Qabs (h1 - h2) + tv r
  | _ => 0
  end.
Fixpoint h_desc (pr : list (Q * Q)) : Prop :=
  match pr with (h1, _) :: (((h2, _) :: _) as r) => h2 <= h1 /\ h_desc r | _ => True end.
Fixpoint h_asc (pr : list (Q * Q)) : Prop :=
  match pr with (h1, _) :: (((h2, _) :: _) as r) => h1 <= h2 /\ h_asc r | _ => True end.
Fixpoint T_desc (pr : list (Q * Q)) : Prop :=
  match pr with (_, T1) :: (((_, T2) :: _) as r) => T2 <= T1 /\ T_desc r | _ => True end.
Fixpoint T_asc (pr : list (Q * Q)) : Prop :=
  match pr with (_, T1) :: (((_, T2) :: _) as r) => T1 <= T2 /\ T_asc r | _ => True end.

Lemma duty_segs md hot pr : duty (segs md hot pr) == md * tv pr.
Proof.
  unfold duty.
  induction pr as [|[h1 T1] r IH]; [simpl; ring|].
  destruct r as [|[h2 T2] r']; [simpl; ring|].
  change (segs md hot ((h1, T1) :: (h2, T2) :: r'))
    with (mkSeg T1 (seg_target hot T1 T2) (rmul md (Qabs (rsub h1 h2))) :: segs md hot ((h2, T2) :: r')).
  simpl map. rewrite qsum_cons, IH. simpl g_q.
  change (tv ((h1, T1) :: (h2, T2) :: r')) with (Qabs (h1 - h2) + tv ((h2, T2) :: r')).
  rewrite rmul_eq, rsub_eq. ring.
Qed.

Lemma last_cons2 (a b : Q * Q) r d : last (a :: b :: r) d = last (b :: r) d.
Proof. reflexivity. Qed.

Lemma tv_desc pr : h_desc pr -> tv pr == first_h pr - last_h pr.
Proof.
  unfold first_h, last_h.
  induction pr as [|[h1 T1] r IH]; [simpl; intros _; ring|].
  destruct r as [|[h2 T2] r']; [simpl; intros _; ring|].
  intros [Hle Hr].
  change (tv ((h1, T1) :: (h2, T2) :: r')) with (Qabs (h1 - h2) + tv ((h2, T2) :: r')).
  rewrite last_cons2, (IH Hr). cbn [hd fst].
  rewrite Qabs_pos by lra. ring.
Qed.

Lemma tv_asc pr : h_asc pr -> tv pr == last_h pr - first_h pr.
Proof.
  unfold first_h, last_h.
  induction pr as [|[h1 T1] r IH]; [simpl; intros _; ring|].
  destruct r as [|[h2 T2] r']; [simpl; intros _; ring|].
  intros [Hle Hr].
  change (tv ((h1, T1) :: (h2, T2) :: r')) with (Qabs (h1 - h2) + tv ((h2, T2) :: r')).
  rewrite last_cons2, (IH Hr). cbn [hd fst].
  rewrite Qabs_neg by lra. ring.
Qed.

(* for ANY profile whose enthalpy falls along it: the emitted duties add up to mass flow x (first - last) *)
Lemma duty_desc md hot pr : h_desc pr -> duty (segs md hot pr) == md * (first_h pr - last_h pr).
Proof. intro H. rewrite duty_segs, (tv_desc _ H). reflexivity. Qed.
Lemma duty_asc md hot pr : h_asc pr -> duty (segs md hot pr) == md * (last_h pr - first_h pr).
Proof. intro H. rewrite duty_segs, (tv_asc _ H). reflexivity. Qed.

Lemma mdot_J_ok Qc c md :
  mdot_J Qc c = Ok md -> ~ fh (c1 c) - fh (c2 c) == 0 /\ md == Qc / Qabs (fh (c1 c) - fh (c2 c)).
Proof.
  unfold mdot_J. destruct (is_zero (Qabs (rsub (fh (c1 c)) (fh (c2 c))))) eqn:Z; [discriminate|].
  intro E. inversion E; subst md. apply is_zero_false in Z. rewrite rsub_eq in Z.
  split.
  - intro K. apply Z. rewrite K. reflexivity.
  - rewrite rdiv_eq, rsub_eq. reflexivity.
Qed.

Lemma cond_profile_ends L c pr :
  cond_profile L c = Ok pr -> first_h pr = fh (c1 c) /\ last_h pr = fh (c2 c).
Proof.
  unfold cond_profile. destruct (qltb (fp (c1 c)) (l_pcrit L)); [|discriminate].
  intro E. inversion E; subst pr. split; reflexivity.
Qed.

(* the hot set carries Q_cond: for every library and every solved object whose condenser profile falls in enthalpy *)
Lemma cond_streams_carry_duty L s pr l :
  cond_profile L (hc s) = Ok pr -> h_desc pr -> cond_segs L s = Ok l -> duty l == hQc s.
Proof.
  intros Ep Hd. unfold cond_segs. rewrite Ep. simpl bind.
  destruct (mdot_J (hQc s) (hc s)) as [md|e] eqn:Em; [|discriminate].
  unfold bind. intro E.
  assert (El : l = segs md true pr) by congruence. subst l. clear E.
  destruct (mdot_J_ok _ _ _ Em) as [Hnz Hmd].
  destruct (cond_profile_ends _ _ _ Ep) as [Hf Hl].
  rewrite (duty_desc _ _ _ Hd), Hf, Hl, Hmd.
  assert (Hge : 0 <= fh (c1 (hc s)) - fh (c2 (hc s))).
  { pose proof (tv_desc _ Hd) as K. rewrite Hf, Hl in K. rewrite <- K.
    clear. induction pr as [|[h1 T1] r IH]; [simpl; lra|].
    destruct r as [|[h2 T2] r']; [simpl; lra|].
    change (tv ((h1, T1) :: (h2, T2) :: r')) with (Qabs (h1 - h2) + tv ((h2, T2) :: r')).
    pose proof (Qabs_nonneg (h1 - h2)). lra. }
  rewrite Qabs_pos by exact Hge. field. exact Hnz.
Qed.

Lemma tv_nonneg pr : 0 <= tv pr.
Proof.
  induction pr as [|[h1 T1] r IH]; [simpl; lra|].
  destruct r as [|[h2 T2] r']; [simpl; lra|].
  change (tv ((h1, T1) :: (h2, T2) :: r')) with (Qabs (h1 - h2) + tv ((h2, T2) :: r')).
  pose proof (Qabs_nonneg (h1 - h2)). lra.
Qed.

(* the cold set carries Q_evap: evaporator profile rising in enthalpy, isenthalpic throttle (H3 = H2),
   condenser rejecting heat (H2 < H1) *)
Lemma evap_streams_carry_duty L s m l :
  h_asc (evap_profile L (hc s)) -> fh (c3 (hc s)) == fh (c2 (hc s)) -> fh (c2 (hc s)) < fh (c1 (hc s)) ->
  cycle_metrics (hQc s) (hc s) = Ok m -> evap_segs L s = Ok l -> duty l == m_Qe m.
Proof.
  intros Ha H32 H21 Em. unfold evap_segs.
  destruct (mdot_J (hQc s) (hc s)) as [md|e] eqn:Ed; [|discriminate].
  unfold bind. intro E.
  assert (El : l = segs md false (evap_profile L (hc s))) by congruence. subst l. clear E.
  destruct (mdot_J_ok _ _ _ Ed) as [Hnz Hmd].
  rewrite (duty_asc _ _ _ Ha).
  unfold evap_profile, first_h, last_h. simpl last. simpl hd. simpl fst.
  assert (H30 : fh (c3 (hc s)) <= fh (c0 (hc s))).
  { pose proof (tv_asc _ Ha) as K. pose proof (tv_nonneg (evap_profile L (hc s))) as P.
    unfold evap_profile, first_h, last_h in K. unfold evap_profile in P. simpl last in K. simpl hd in K. simpl fst in K. lra. }
  unfold cycle_metrics in Em.
  destruct (get_metrics_ok _ _ _ _ _ Em) as (_ & Hqe & Hqc & Hq0 & Hmdk & HQe & _).
  rewrite HQe, Hmdk, Hqe, Hmd, Qmax_nonneg_l by lra.
  rewrite Qabs_pos by lra.
  rewrite Hqc in Hq0 |- *.
  pose proof hp_kJ_pos as Kp.
  assert (N1 : ~ fh (c1 (hc s)) - fh (c3 (hc s)) == 0) by (intro K; lra).
  rewrite <- H32 at 1.
  field. repeat split; try assumption; intro K; lra.
Qed.

(* monotone temperatures: every hot stream cools, supplies fall; every cold stream heats, supplies rise
   (the boolean predicates are the ones the check evaluates on the implementation's streams, here with zero slack) *)
Lemma seg_target_hot_lt T1 T2 : T2 <= T1 -> seg_target true T1 T2 < T1.
Proof.
  intro Hle. unfold seg_target.
  destruct (qltb (Qabs (T1 - T2)) hp_iso_window) eqn:W.
  - rewrite rsub_eq. pose proof hp_iso_nudge_pos. lra.
  - apply qltb_false in W. rewrite Qabs_pos in W by lra. pose proof hp_iso_window_pos. lra.
Qed.
Lemma seg_target_cold_gt T1 T2 : T1 <= T2 -> T1 < seg_target false T1 T2.
Proof.
  intro Hle. unfold seg_target.
  destruct (qltb (Qabs (T1 - T2)) hp_iso_window) eqn:W.
  - rewrite radd_eq. pose proof hp_iso_nudge_pos. lra.
  - apply qltb_false in W. rewrite Qabs_neg in W by lra. pose proof hp_iso_window_pos. lra.
Qed.

Lemma ge_slack0 a b : b <= a -> ge_slack 0 a b = true.
Proof. intro H. unfold ge_slack. apply qleb_true. lra. Qed.

Lemma hot_streams_monotone md pr : T_desc pr -> hot_monotone 0 (segs md true pr) = true.
Proof.
  unfold hot_monotone.
  induction pr as [|[h1 T1] r IH]; [reflexivity|].
  destruct r as [|[h2 T2] r']; [reflexivity|].
  intros [Hle Hr]. specialize (IH Hr). apply andb_true_iff in IH. destruct IH as [IH1 IH2].
  change (segs md true ((h1, T1) :: (h2, T2) :: r'))
    with (mkSeg T1 (seg_target true T1 T2) (rmul md (Qabs (rsub h1 h2))) :: segs md true ((h2, T2) :: r')).
  apply andb_true_iff. split.
  - cbn [forallb]. rewrite IH1, andb_true_r. cbn [g_tt g_ts]. apply qltb_true. apply seg_target_hot_lt. exact Hle.
  - destruct r' as [|[h3 T3] r''].
    + reflexivity.
    + change (segs md true ((h2, T2) :: (h3, T3) :: r''))
        with (mkSeg T2 (seg_target true T2 T3) (rmul md (Qabs (rsub h2 h3))) :: segs md true ((h3, T3) :: r'')) in *.
      cbn [supplies_desc g_ts] in *. rewrite IH2, andb_true_r. apply ge_slack0. exact Hle.
Qed.

Lemma cold_streams_monotone md pr : T_asc pr -> cold_monotone 0 (segs md false pr) = true.
Proof.
  unfold cold_monotone.
  induction pr as [|[h1 T1] r IH]; [reflexivity|].
  destruct r as [|[h2 T2] r']; [reflexivity|].
  intros [Hle Hr]. specialize (IH Hr). apply andb_true_iff in IH. destruct IH as [IH1 IH2].
  change (segs md false ((h1, T1) :: (h2, T2) :: r'))
    with (mkSeg T1 (seg_target false T1 T2) (rmul md (Qabs (rsub h1 h2))) :: segs md false ((h2, T2) :: r')).
  apply andb_true_iff. split.
  - cbn [forallb]. rewrite IH1, andb_true_r. cbn [g_tt g_ts]. apply qltb_true. apply seg_target_cold_gt. exact Hle.
  - destruct r' as [|[h3 T3] r''].
    + reflexivity.
    + change (segs md false ((h2, T2) :: (h3, T3) :: r''))
        with (mkSeg T2 (seg_target false T2 T3) (rmul md (Qabs (rsub h2 h3))) :: segs md false ((h3, T3) :: r'')) in *.
      cbn [supplies_asc g_ts] in *. rewrite IH2, andb_true_r. apply ge_slack0. exact Hle.
Qed.

(* ------------------------------------------------------------------ request sequences *)
(* for ALL request sequences (any order, any repetition) the k-th answer is the answer to that request alone *)
Lemma run_is_map L s rs : run L s rs = map (emit L s) rs.
Proof. induction rs as [|r t IH]; [reflexivity|]. simpl. rewrite IH. reflexivity. Qed.

Lemma emit_sides L s r cs es :
  emit L s r = Ok (cs, es) ->
  (if wants_cond r then cond_segs L s = Ok cs else cs = []) /\
  (if wants_evap r then evap_segs L s = Ok es else es = []).
Proof.
  unfold emit.
  destruct (wants_cond r); destruct (wants_evap r);
    repeat match goal with
           | |- context [bind (cond_segs L s)] => destruct (cond_segs L s); simpl; try discriminate
           | |- context [bind (evap_segs L s)] => destruct (evap_segs L s); simpl; try discriminate
           end; simpl; intro E; inversion E; subst; split; reflexivity.
Qed.

(* the streams emitted for one side are the same in every position of every sequence *)
Lemma request_order_irrelevant L s rs rs' i j r r' cs es cs' es' :
  nth_error rs i = Some r -> nth_error (run L s rs) i = Some (Ok (cs, es)) ->
  nth_error rs' j = Some r' -> nth_error (run L s rs') j = Some (Ok (cs', es')) ->
  (wants_cond r = true -> wants_cond r' = true -> cs = cs') /\
  (wants_evap r = true -> wants_evap r' = true -> es = es').
Proof.
  rewrite !run_is_map. intros A B C D.
  rewrite nth_error_map, A in B. rewrite nth_error_map, C in D. simpl in B, D.
  inversion B as [B']. inversion D as [D'].
  destruct (emit_sides _ _ _ _ _ B') as [X1 X2]. destruct (emit_sides _ _ _ _ _ D') as [Y1 Y2].
  split; intros W W'; rewrite W in *; rewrite W' in *; congruence.
Qed.

(* the pre-repair machine (self._m_dot rewritten by a condenser request): an evaporator-only request carries
   1000 times the duty it carries after a condenser request -- D12 *)
Definition toy_lib : lib :=
  mkLib 4000000 (fun T => T)
        (fun _ _ _ => mkF 0 0 0 0) (fun _ _ => mkF 0 0 0 0) (fun _ _ => mkF 0 0 0 0)
        (fun p q => if qeqb q 1 then mkF 400000 1700 p 280 else mkF 200000 1000 p 280).
Definition toy_cycle : cycle :=
  mkC (mkF 410000 1750 300000 290) (mkF 440000 1760 1000000 350) (mkF 250000 1200 1000000 310) (mkF 250000 1210 300000 280).
Definition toy_hp : hp := mkHP 1 toy_cycle (1 # 190).      (* _m_dot after solve: Q_cond / q_cond with q_cond = 190 kJ/kg *)

Definition evap_duty_of (o : option (result emission)) : Q :=
  match o with Some (Ok (_, es)) => duty es | _ => 0 end.

Example request_order_prefix_refuted :
  evap_duty_of (nth_error (run_old toy_lib toy_hp [REvap]) 0) == 16000 # 19 /\
  evap_duty_of (nth_error (run_old toy_lib toy_hp [RCond; REvap]) 1) == 16 # 19 /\
  evap_duty_of (nth_error (run toy_lib toy_hp [REvap]) 0) == 16 # 19 /\
  evap_duty_of (nth_error (run toy_lib toy_hp [RCond; REvap]) 1) == 16 # 19.
Proof. repeat split; vm_compute; reflexivity. Qed.

(* ------------------------------------------------------------------ Carnot placement bookkeeping *)
Lemma carnot_first_law cop Qc0 Qe0 k :
  carnot_book cop Qc0 Qe0 = Ok k ->
  k_Qc_tot k == k_Qe_tot k + k_W k /\ qsum (k_Qc k) == k_Qc_tot k /\ qsum (k_Qe k) == k_Qe_tot k.
Proof.
  unfold carnot_book.
  destruct (is_zero cop) eqn:Zc; [discriminate|].
  destruct (qltb (qsum Qc0 * (1 - 1 / cop)) (qsum Qe0)) eqn:B.
  - destruct (is_zero (qsum Qe0)) eqn:Ze; [discriminate|].
    intro E. inversion E; subst k; clear E. simpl.
    apply is_zero_false in Ze.
    repeat split.
    + rewrite rsub_eq. ring.
    + rewrite qsum_scale, rdiv_eq. field. exact Ze.
  - destruct (is_zero (cop - 1)) eqn:Z1; [discriminate|].
    destruct (is_zero (qsum Qc0)) eqn:Zq; [discriminate|].
    intro E. inversion E; subst k; clear E. simpl.
    apply is_zero_false in Zq.
    repeat split.
    + rewrite radd_eq. ring.
    + rewrite qsum_scale, rdiv_eq. field. exact Zq.
Qed.

(* the work is what the (estimated) COP says in both branches: W = Q_cond_tot / cop *)
Lemma carnot_work_cop cop Qc0 Qe0 k :
  carnot_book cop Qc0 Qe0 = Ok k -> k_W k * cop == k_Qc_tot k.
Proof.
  unfold carnot_book.
  destruct (is_zero cop) eqn:Zc; [discriminate|]. apply is_zero_false in Zc.
  destruct (qltb (qsum Qc0 * (1 - 1 / cop)) (qsum Qe0)) eqn:B.
  - destruct (is_zero (qsum Qe0)) eqn:Ze; [discriminate|].
    intro E. inversion E; subst k; clear E. simpl. rewrite rdiv_eq. field. exact Zc.
  - destruct (is_zero (cop - 1)) eqn:Z1; [discriminate|].
    destruct (is_zero (qsum Qc0)) eqn:Zq; [discriminate|].
    intro E. inversion E; subst k; clear E. simpl. apply is_zero_false in Z1.
    rewrite radd_eq, rdiv_eq, rsub_eq. field. exact Z1.
Qed.
